//go:build e2e_testing && (comp_all || comp_sysmon)

package main

// System-level monitor `sysmon` (+ per-property views sysmon_C09, sysmon_C12, sysmon_C13, sysmon_C14, sysmon_C16,
// sysmon_C17, sysmon_C28, sysmon_C29, sysmon_C32, sysmon_C36): four REAL nodes (built by nebula.Main through the C14 shim
// verif_outside.go and kept in the C14 world container outsWorld) run seeded event histories; after every event a set of
// system-level oracles is evaluated on every node. There is no model here: an oracle either holds on what the nodes
// really did or the history is reported with code 2 and the property id of the oracle.
//
//	L  10.128.0.1                    lighthouse (v1+v2 certificate)
//	A  10.128.0.11 + 10.129.0.11     v1 (first address) + v2 (both addresses); remote_allow_list denies 10.66.0.0/16;
//	                                 unsafe route 192.168.12.0/24 via B; ECMP unsafe routes 192.168.14.0/24 (B:1, R:1) and
//	                                 192.168.15.0/24 (B:1, R:3), both networks certified for B and for R
//	B  10.128.0.12                   v1 only, certified unsafe network 192.168.12.0/24; reachable through relay R;
//	                                 advertises two unusable underlay addresses next to its real one
//	R  10.128.0.20 + 10.129.0.20     relay (v1 + v2); remote_allow_list denies 10.66.0.0/16; restricted outbound rules
//
// Every client has one static host entry (the lighthouse). Firewall rule sets allow some flows and deny others and
// are switched by the reload event.
//
// Oracles (DESIGN: work order prompts/sysmon.md):
//
//	C28/C29  every hostmap dump (main + pending + relay indexes), taken after every driver call, is evaluated IN COQ with
//	         the executable predicates wfb / unreachableb / idxb / releaseb of model/HostMap.v (the ones
//	         corr/HostMap_corr.v evaluates); HostMap_corr's case type has no dump-only form (its walk replays operations
//	         on the model), so the cases carry a small walker over dumps that is defined in the generated file header.
//	C32      every inner packet the harness hands to a tun is sealed at most once in total (whatever the gateway), delivered at
//	         most once in total, and a packet queued on a pending handshake is sealed exactly once when it completes
//	C09 C12 C13 C14 C16 C17 C32 C36  evaluated in Go by this file; reported through meta "failures".

import (
	"bytes"
	"crypto/sha256"
	"encoding/binary"
	"fmt"
	"net/netip"
	"os"
	"runtime"
	"sort"
	"strings"
	"time"

	"github.com/slackhq/nebula"
	"github.com/slackhq/nebula/cert"
	ct "github.com/slackhq/nebula/cert_test"
	"github.com/slackhq/nebula/config"
	"github.com/slackhq/nebula/header"
	"verifharness/hx"
)

var sysmOracles = []string{"C09", "C12", "C13", "C14", "C16", "C17", "C28", "C29", "C32", "C36"}

func init() {
	hx.Register("sysmon", func(c *hx.Ctx) { sysmRun(c, "") })
	for _, o := range sysmOracles {
		o := o
		hx.Register("sysmon_"+o, func(c *hx.Ctx) { sysmRun(c, o) })
	}
}

// ---- certificates and configuration ---------------------------------------------------------------------------

type sysmRule struct {
	proto     string // any tcp udp icmp
	lo, hi    int    // 0,0 = any
	host      string // "any" or a certificate name
	group     string
	cidr      string
	localCidr string
}

func (r sysmRule) yaml() string {
	port := "any"
	if r.lo != 0 || r.hi != 0 {
		port = fmt.Sprintf("%d-%d", r.lo, r.hi)
		if r.lo == r.hi {
			port = fmt.Sprint(r.lo)
		}
	}
	s := fmt.Sprintf("{proto: %s, port: %s", r.proto, port)
	if r.host != "" {
		s += ", host: " + r.host
	}
	if r.group != "" {
		s += ", group: " + r.group
	}
	if r.cidr != "" {
		s += ", cidr: " + r.cidr
	}
	if r.localCidr != "" {
		s += ", local_cidr: " + r.localCidr
	}
	return s + "}"
}

type sysmSpec struct {
	name        string
	v1, v2      []string // certificate networks per version (nil: no certificate of that version)
	unsafe      []string
	groups      []string
	udp         string
	lighthouse  bool
	amRelay     bool
	relays      []string
	deny        []string // lighthouse.remote_allow_list: denied underlay ranges
	unsafeRoute []string
	advertise   []string // what the node reports as its own underlay addresses
	in          [][]sysmRule
	out         []sysmRule
}

type sysmNode struct {
	*outsNode
	spec     sysmSpec
	cfg      *config.C
	ids      *nebula.VerifSysmonIDs
	pub      []byte
	keyPEM   string
	certPEM  string
	v1Addrs  []netip.Addr
	v2Addrs  []netip.Addr
	allAddrs []netip.Addr   // union
	networks []netip.Prefix // the networks the node runs with (v2 certificate if present)
	unsafe   []netip.Prefix
	deny     []netip.Prefix
	variant  int
	tracked  map[sysmFlow]bool
	lastDump string
	dumps    []string
	small    map[string]uint64 // canonical small names of addresses ("a…") and 32-bit indexes ("i…") in the dumps
	live     map[uint64][]netip.Addr
	stored   map[uint64][]uint64 // pending hostinfo -> markers of the packets queued on it (as last seen)
	known    map[uint64]bool     // hostinfo ids seen in the main hostmap
}

const (
	sysmL = "L"
	sysmA = "A"
	sysmB = "B"
	sysmR = "R"
)

func sysmSpecs() []sysmSpec {
	anyR := sysmRule{proto: "any", host: "any"}
	v0 := []sysmRule{
		{proto: "udp", lo: 5000, hi: 5010, host: "any"},
		{proto: "tcp", lo: 80, hi: 80, group: "ga"},
		{proto: "icmp", host: sysmB},
		{proto: "tcp", lo: 22, hi: 22, cidr: "10.128.0.16/28"},
	}
	v1 := []sysmRule{
		{proto: "udp", lo: 5000, hi: 5002, host: "any"},
		{proto: "tcp", lo: 80, hi: 80, group: "gb"},
		{proto: "tcp", lo: 443, hi: 443, host: "any"},
		{proto: "icmp", host: "any"},
	}
	bIn := sysmRule{proto: "udp", lo: 5000, hi: 5010, host: "any", localCidr: "192.168.12.0/24"}
	gwIn := sysmRule{proto: "udp", lo: 5000, hi: 5008, host: "any", localCidr: "192.168.14.0/23"} // both ECMP networks
	gwOut := sysmRule{proto: "any", host: "any", localCidr: "192.168.14.0/23"}
	with := func(base []sysmRule, more ...sysmRule) []sysmRule {
		return append(append([]sysmRule{}, base...), more...)
	}
	return []sysmSpec{
		{name: sysmL, v1: []string{"10.128.0.1/24"}, v2: []string{"10.128.0.1/24"}, groups: []string{"gl"}, udp: "10.0.0.1:4242", lighthouse: true,
			in: [][]sysmRule{v0, v1}, out: []sysmRule{anyR}},
		{name: sysmA, v1: []string{"10.128.0.11/24"}, v2: []string{"10.128.0.11/24", "10.129.0.11/24"}, groups: []string{"ga"}, udp: "10.0.0.11:4242",
			deny: []string{"10.66.0.0/16"},
			unsafeRoute: []string{"{route: 192.168.12.0/24, via: 10.128.0.12}",
				"{route: 192.168.14.0/24, via: [{gateway: 10.128.0.12, weight: 1}, {gateway: 10.128.0.20, weight: 1}]}",
				"{route: 192.168.15.0/24, via: [{gateway: 10.128.0.12, weight: 1}, {gateway: 10.128.0.20, weight: 3}]}"},
			in: [][]sysmRule{v0, v1}, out: []sysmRule{anyR}},
		{name: sysmB, v1: []string{"10.128.0.12/24"}, unsafe: []string{"192.168.12.0/24", "192.168.14.0/24", "192.168.15.0/24"}, groups: []string{"gb"}, udp: "10.0.0.12:4242",
			relays: []string{"10.128.0.20"}, advertise: []string{"10.0.0.12", "10.66.0.12", "10.129.0.50"},
			in:  [][]sysmRule{with(v0, bIn, gwIn), with(v1, bIn, gwIn)},
			out: []sysmRule{anyR, {proto: "any", host: "any", localCidr: "192.168.12.0/24"}, gwOut}},
		{name: sysmR, v1: []string{"10.128.0.20/24"}, v2: []string{"10.128.0.20/24", "10.129.0.20/24"}, unsafe: []string{"192.168.14.0/24", "192.168.15.0/24"},
			groups: []string{"gr"}, udp: "10.0.0.20:4242",
			amRelay: true, deny: []string{"10.66.0.0/16"},
			in:  [][]sysmRule{with(v0, gwIn), with(v1, gwIn)},
			out: []sysmRule{{proto: "udp", host: "any"}, {proto: "icmp", host: "any"}, {proto: "tcp", lo: 80, hi: 80, host: "any"}, {proto: "tcp", lo: 22, hi: 22, host: "any"}, gwOut}},
	}
}

func sysmPrefixes(ss []string) []netip.Prefix {
	var out []netip.Prefix
	for _, s := range ss {
		out = append(out, netip.MustParsePrefix(s))
	}
	return out
}

func sysmAddrsOf(ps []netip.Prefix) []netip.Addr {
	var out []netip.Addr
	for _, p := range ps {
		out = append(out, p.Addr())
	}
	return out
}

// sign issues the node's certificate(s) for its key: same networks on every call (a reload re-signs with a new validity).
func (n *sysmNode) sign(ca *outsCA, serial int) {
	now := time.Now()
	var pem strings.Builder
	for _, v := range []struct {
		ver  cert.Version
		nets []string
	}{{cert.Version1, n.spec.v1}, {cert.Version2, n.spec.v2}} {
		if v.nets == nil {
			continue
		}
		t := &cert.TBSCertificate{Version: v.ver, Curve: cert.Curve_CURVE25519, Name: n.spec.name, Networks: sysmPrefixes(v.nets),
			UnsafeNetworks: sysmPrefixes(n.spec.unsafe), Groups: n.spec.groups,
			NotBefore: time.Unix(now.Add(-time.Hour-time.Duration(serial)*time.Minute).Unix(), 0), NotAfter: time.Unix(now.Add(24*time.Hour).Unix(), 0),
			PublicKey: n.pub}
		c, err := t.Sign(ca.crt, ca.crt.Curve(), ca.key)
		if err != nil {
			panic(fmt.Sprintf("sysmon: signing %s v%d: %v", n.spec.name, v.ver, err))
		}
		p, err := c.MarshalPEM()
		if err != nil {
			panic(err)
		}
		pem.Write(p)
	}
	n.certPEM = pem.String()
}

func (n *sysmNode) yaml(ca *outsCA) string {
	s := n.spec
	ua := netip.MustParseAddrPort(s.udp)
	var sb strings.Builder
	sb.WriteString("pki:\n  ca: |\n" + outsIndent(ca.pem, 4) + "  cert: |\n" + outsIndent(n.certPEM, 4) + "  key: |\n" + outsIndent(n.keyPEM, 4))
	if s.v1 != nil && s.v2 != nil {
		sb.WriteString("  initiating_version: 2\n")
	}
	sb.WriteString("firewall:\n  outbound:\n")
	for _, r := range s.out {
		sb.WriteString("    - " + r.yaml() + "\n")
	}
	sb.WriteString("  inbound:\n")
	for _, r := range s.in[n.variant] {
		sb.WriteString("    - " + r.yaml() + "\n")
	}
	fmt.Fprintf(&sb, "listen:\n  host: %s\n  port: %d\n", ua.Addr(), ua.Port())
	sb.WriteString("punchy:\n  punch: true\n  respond: false\n  delay: 0s\n")
	sb.WriteString("timers:\n  connection_alive_interval: 2\n  pending_deletion_interval: 2\n")
	fmt.Fprintf(&sb, "lighthouse:\n  am_lighthouse: %v\n  interval: 0\n", s.lighthouse)
	if !s.lighthouse {
		sb.WriteString("  hosts:\n    - \"10.128.0.1\"\n")
	}
	if len(s.deny) > 0 {
		sb.WriteString("  remote_allow_list:\n")
		for _, d := range s.deny {
			fmt.Fprintf(&sb, "    %q: false\n", d)
		}
	}
	if !s.lighthouse {
		sb.WriteString("static_host_map:\n  \"10.128.0.1\": [\"10.0.0.1:4242\"]\n")
	}
	fmt.Fprintf(&sb, "relay:\n  am_relay: %v\n  use_relays: true\n", s.amRelay)
	if len(s.relays) > 0 {
		sb.WriteString("  relays:\n")
		for _, r := range s.relays {
			fmt.Fprintf(&sb, "    - %q\n", r)
		}
	}
	if len(s.unsafeRoute) > 0 {
		sb.WriteString("tun:\n  unsafe_routes:\n")
		for _, r := range s.unsafeRoute {
			sb.WriteString("    - " + r + "\n")
		}
	}
	return sb.String()
}

// sysmNewWorld builds the four nodes into the C14 world container (outsWorld / outsNode / nebula.VerifOutsideNewNode).
// outsBuildNode itself cannot be used: it issues one v2 certificate with one network and an allow-everything firewall.
func sysmNewWorld() (*outsWorld, map[string]*sysmNode) {
	w := outsNewWorld() // empty world: CA of its own below (a v1 CA signs v1 and v2 certificates)
	now := time.Now()
	crt, _, key, pem := ct.NewTestCaCert(cert.Version1, cert.Curve_CURVE25519, now.Add(-2*time.Hour), now.Add(48*time.Hour), nil, nil, nil)
	w.ca = &outsCA{crt: crt, key: key, pem: string(pem)}
	nodes := map[string]*sysmNode{}
	for _, s := range sysmSpecs() {
		n := &sysmNode{spec: s, ids: nebula.VerifSysmonNewIDs(), tracked: map[sysmFlow]bool{}, known: map[uint64]bool{}, small: map[string]uint64{}, live: map[uint64][]netip.Addr{}, stored: map[uint64][]uint64{}}
		pub, priv := ct.X25519Keypair()
		n.pub = pub
		n.keyPEM = string(cert.MarshalPrivateKeyToPEM(cert.Curve_CURVE25519, priv))
		n.sign(w.ca, 0)
		n.v1Addrs = sysmAddrsOf(sysmPrefixes(s.v1))
		n.v2Addrs = sysmAddrsOf(sysmPrefixes(s.v2))
		n.allAddrs = append([]netip.Addr{}, n.v1Addrs...)
		for _, a := range n.v2Addrs {
			if !sysmHasAddr(n.allAddrs, a) {
				n.allAddrs = append(n.allAddrs, a)
			}
		}
		n.networks = sysmPrefixes(s.v2)
		if s.v2 == nil {
			n.networks = sysmPrefixes(s.v1)
		}
		n.unsafe = sysmPrefixes(s.unsafe)
		n.deny = sysmPrefixes(s.deny)
		l := outsLogger(s.name)
		c := config.NewC(l)
		y := n.yaml(w.ca)
		if err := c.LoadString(y); err != nil {
			panic(fmt.Sprintf("sysmon: config of %s: %v\n%s", s.name, err, y))
		}
		vn, err := nebula.VerifOutsideNewNode(c, l)
		if err != nil {
			panic(fmt.Sprintf("sysmon: node %s: %v", s.name, err))
		}
		n.cfg = c
		ua := netip.MustParseAddrPort(s.udp)
		adv := []netip.Addr{ua.Addr()}
		if len(s.advertise) > 0 {
			adv = nil
			for _, a := range s.advertise {
				adv = append(adv, netip.MustParseAddr(a))
			}
		}
		vn.SetLocalAddrs(adv)
		nebula.VerifSysmonArmPunch(vn)
		n.outsNode = &outsNode{VerifOutsideNode: vn, name: s.name, vpn: n.allAddrs[0], udp: ua}
		w.nodes[s.name] = n.outsNode
		w.order = append(w.order, s.name)
		w.byUDP[ua] = s.name
		nodes[s.name] = n
	}
	nebula.VerifOutsideSettle()
	return w, nodes
}

func sysmHasAddr(l []netip.Addr, a netip.Addr) bool {
	for _, x := range l {
		if x == a {
			return true
		}
	}
	return false
}

func sysmInAny(ps []netip.Prefix, a netip.Addr) bool {
	for _, p := range ps {
		if p.Contains(a) {
			return true
		}
	}
	return false
}

// ---- inner packets ----------------------------------------------------------------------------------------------

type sysmFlow struct {
	proto         uint8
	local, remote netip.Addr
	lport, rport  uint16
}

// sysmFlowOf is the conntrack key as the node sees it (ICMP: local port 0, remote port = identifier, both ways).
func sysmFlowOf(proto uint8, local, remote netip.Addr, lport, rport uint16) sysmFlow {
	if proto == 1 {
		id := lport
		if id == 0 {
			id = rport
		}
		return sysmFlow{proto, local, remote, 0, id}
	}
	return sysmFlow{proto, local, remote, lport, rport}
}

type sysmPkt struct {
	id           uint64
	sender       string // the node whose key the packet travels under
	to           string // intended receiver
	src, dst     netip.Addr
	proto        uint8
	sport, dport uint16
	kind         string
	bytes        []byte
}

var sysmMagic = []byte("SYSM")

func sysmIP4(proto uint8, src, dst netip.Addr, sport, dport uint16, id uint64) []byte {
	pay := make([]byte, 12)
	copy(pay, sysmMagic)
	binary.BigEndian.PutUint64(pay[4:], id)
	var l4 []byte
	switch proto {
	case 17:
		l4 = make([]byte, 8+len(pay))
		binary.BigEndian.PutUint16(l4[0:], sport)
		binary.BigEndian.PutUint16(l4[2:], dport)
		binary.BigEndian.PutUint16(l4[4:], uint16(len(l4)))
		copy(l4[8:], pay)
	case 6:
		l4 = make([]byte, 20+len(pay))
		binary.BigEndian.PutUint16(l4[0:], sport)
		binary.BigEndian.PutUint16(l4[2:], dport)
		l4[12] = 5 << 4
		l4[13] = 0x18
		binary.BigEndian.PutUint16(l4[14:], 4096)
		copy(l4[20:], pay)
	default: // icmp echo request, identifier = sport
		l4 = make([]byte, 8+len(pay))
		l4[0] = 8
		binary.BigEndian.PutUint16(l4[4:], sport)
		copy(l4[8:], pay)
	}
	b := make([]byte, 20+len(l4))
	b[0] = 0x45
	binary.BigEndian.PutUint16(b[2:], uint16(len(b)))
	b[6] = 0x40
	b[8] = 64
	b[9] = proto
	s4, d4 := src.As4(), dst.As4()
	copy(b[12:16], s4[:])
	copy(b[16:20], d4[:])
	binary.BigEndian.PutUint16(b[10:], outsCsum(b[:20], 0))
	copy(b[20:], l4)
	return b
}

// sysmParseIP4 reads addresses, protocol, ports (as nebula's firewall reads them) and the marker of an inner packet.
func sysmParseIP4(b []byte) (src, dst netip.Addr, proto uint8, sport, dport uint16, id uint64, ok bool) {
	if len(b) < 20 || b[0]>>4 != 4 {
		return
	}
	ihl := int(b[0]&0xf) * 4
	if ihl < 20 || len(b) < ihl+8 {
		return
	}
	src, _ = netip.AddrFromSlice(b[12:16])
	dst, _ = netip.AddrFromSlice(b[16:20])
	proto = b[9]
	off := ihl + 8
	switch proto {
	case 6:
		sport, dport = binary.BigEndian.Uint16(b[ihl:]), binary.BigEndian.Uint16(b[ihl+2:])
		off = ihl + 20
	case 17:
		sport, dport = binary.BigEndian.Uint16(b[ihl:]), binary.BigEndian.Uint16(b[ihl+2:])
	case 1:
		sport = binary.BigEndian.Uint16(b[ihl+4:])
	}
	if len(b) >= off+12 && bytes.Equal(b[off:off+4], sysmMagic) {
		id = binary.BigEndian.Uint64(b[off+4:])
	}
	ok = true
	return
}

// ---- the monitor ------------------------------------------------------------------------------------------------

type sysmDgram struct {
	from, to string // emitting node, listening node ("" = nobody)
	src, dst netip.AddrPort
	data     []byte
	origin   string // node that produced the handshake / encrypted bytes (for a relay packet: of the payload)
	forged   bool   // made by the harness (duplicate, replay, mutation, crafted), not a first emission
}

type sysmFail struct {
	Oracle string `json:"oracle"`
	Event  int    `json:"event"`
	Node   string `json:"node"`
	What   string `json:"what"`
}

type sysmCtrKey struct {
	from string
	hi   uint64 // the sender's hostinfo whose send key sealed the datagram
}

type sysmBadKey struct {
	node string
	vpn  netip.Addr
	u    netip.AddrPort
}

type sysmMon struct {
	c       *hx.Ctx
	w       *outsWorld
	nodes   map[string]*sysmNode
	order   []string
	queue   []sysmDgram
	archive []sysmDgram
	script  []map[string]any
	ev      int
	fails   []sysmFail
	seen    map[string]bool
	pkts    map[uint64]*sysmPkt
	nextID  uint64
	deliv   map[string]map[uint64]int
	ctrs    map[sysmCtrKey]map[uint64]bool
	attrib  map[string]map[uint64]string
	bad     map[sysmBadKey]bool
	inner   map[[32]byte]string
	now     time.Time
	alias   int
	stats   map[string]int
	trace   bool
	wire    map[uint64][]string // marker -> "sender->peer" of every time the packet was sealed for the wire
	delivAt map[uint64][]string // marker -> nodes that wrote it to their tun
	expect  []sysmExpect
}

// sysmExpect: a packet that sat in the queue of a pending handshake when that handshake completed.
type sysmExpect struct {
	node, peer string
	id         uint64
	want       bool // the outbound firewall lets it go to that peer
}

func sysmNewMon(c *hx.Ctx) *sysmMon {
	w, nodes := sysmNewWorld()
	m := &sysmMon{c: c, w: w, nodes: nodes, order: w.order, seen: map[string]bool{}, pkts: map[uint64]*sysmPkt{}, nextID: 1,
		deliv: map[string]map[uint64]int{}, ctrs: map[sysmCtrKey]map[uint64]bool{}, attrib: map[string]map[uint64]string{},
		bad: map[sysmBadKey]bool{}, inner: map[[32]byte]string{}, wire: map[uint64][]string{}, delivAt: map[uint64][]string{}, now: time.Now().Add(time.Minute), stats: map[string]int{},
		trace: os.Getenv("SYSM_TRACE") != ""}
	for _, n := range m.order {
		m.deliv[n] = map[uint64]int{}
		m.attrib[n] = map[uint64]string{}
	}
	return m
}

func (m *sysmMon) fail(oracle, node, format string, a ...any) {
	what := fmt.Sprintf(format, a...)
	key := oracle + "|" + node + "|" + what
	if m.seen[key] || len(m.fails) >= 40 {
		return
	}
	m.seen[key] = true
	m.fails = append(m.fails, sysmFail{Oracle: oracle, Event: m.ev, Node: node, What: what})
	if m.trace {
		fmt.Fprintf(os.Stderr, "  !! %s at %s (event %d): %s\n", oracle, node, m.ev, what)
	}
}

// ---- oracle 1: hostmap dumps (evaluated in Coq) -------------------------------------------------------------------

// The predicates only compare addresses and indexes for equality (and indexes with 0), so both are renamed to small
// numbers in order of first appearance (0 stays 0): Coq elaborates small literals much faster.
func (n *sysmNode) sm(kind string, v uint64) uint64 {
	if kind == "i" && v == 0 {
		return 0
	}
	k := fmt.Sprintf("%s%d", kind, v)
	if x, ok := n.small[k]; ok {
		return x
	}
	x := uint64(len(n.small) + 1)
	n.small[k] = x
	return x
}

func (n *sysmNode) dumpLit(d nebula.VerifSysmonDump) string {
	sysmAddrN := func(a netip.Addr) string {
		b := a.As16()
		return hx.N(n.sm("a", binary.BigEndian.Uint64(b[8:])^binary.BigEndian.Uint64(b[:8])))
	}
	ixN := func(i uint32) string { return hx.N(n.sm("i", uint64(i))) }
	ah := func(l []nebula.VerifSysmonAH) string {
		s := make([]string, len(l))
		for i, e := range l {
			s[i] = hx.Tuple(sysmAddrN(e.A), hx.N(e.H))
		}
		return hx.List(s)
	}
	ih := func(l []nebula.VerifSysmonIH) string {
		s := make([]string, len(l))
		for i, e := range l {
			s[i] = hx.Tuple(ixN(e.I), hx.N(e.H))
		}
		return hx.List(s)
	}
	infos := make([]string, len(d.Infos))
	for i, in := range d.Infos {
		addrs := make([]string, len(in.Addrs))
		for j, a := range in.Addrs {
			addrs[j] = sysmAddrN(a)
		}
		rel := make([]string, len(in.Relays))
		for j, r := range in.Relays {
			rel[j] = ixN(r)
		}
		infos[i] = hx.Tuple(hx.N(in.ID), hx.App("mkHI", hx.List(addrs), ixN(in.Local), ixN(in.Remote), hx.List(rel)))
	}
	more := make([]string, len(d.More))
	for i, e := range d.More {
		more[i] = hx.Tuple(sysmAddrN(e.A), hx.NList(e.L))
	}
	return hx.App("mkSt", hx.List(infos), ah(d.Hosts), hx.List(more), ih(d.Idx), ih(d.RIdx), ih(d.Rel), ah(d.PVpn), ih(d.PIdx), "[]")
}

// snap dumps the node's maps, records the dump when it changed, attributes tunnels that are new in the main hostmap to
// peer (the node that produced the handshake message just processed) and checks oracle 2 (C09) on the dump.
func (m *sysmMon) snap(name, peer string) {
	n := m.nodes[name]
	d := nebula.VerifSysmonDumpOf(n.VerifOutsideNode, n.ids)
	lit := n.dumpLit(d)
	if lit != n.lastDump {
		n.lastDump = lit
		n.dumps = append(n.dumps, lit)
	}
	infos := map[uint64]nebula.VerifSysmonInfo{}
	for _, in := range d.Infos {
		infos[in.ID] = in
	}
	// a completed handshake clears the blocked remotes of its addresses; removing the last tunnel may drop the whole
	// lighthouse entry: either way the harness forgets its bad marks for these addresses
	forget := func(addrs []netip.Addr) {
		for _, a := range addrs {
			for k := range m.bad {
				if k.node == name && k.vpn == a {
					delete(m.bad, k)
				}
			}
		}
	}
	now := map[uint64]bool{}
	for _, e := range d.Idx {
		now[e.H] = true
	}
	for id, addrs := range n.live {
		if !now[id] {
			forget(addrs)
			delete(n.live, id)
		}
	}
	for _, e := range d.Idx {
		if !n.known[e.H] {
			n.known[e.H] = true
			m.attrib[name][e.H] = peer
			m.stats["tunnels"]++
			forget(infos[e.H].Addrs)
			for _, id := range n.stored[e.H] { // the handshake these packets waited for has completed (C32)
				if pk := m.pkts[id]; pk != nil && m.nodes[peer] != nil {
					m.expect = append(m.expect, sysmExpect{name, peer, id, m.outOK(n, m.nodes[peer], infos[e.H].Addrs, pk)})
					m.stats["queued_completed"]++
				}
			}
			delete(n.stored, e.H)
		}
		n.live[e.H] = infos[e.H].Addrs
		in := infos[e.H]
		p := m.attrib[name][e.H]
		pn := m.nodes[p]
		switch {
		case pn == nil:
			m.fail("C09", name, "tunnel (local index %d, addresses %v) entered the main hostmap without a handshake message being processed", in.Local, in.Addrs)
		case !sysmAddrsEq(in.Addrs, pn.v1Addrs) && !sysmAddrsEq(in.Addrs, pn.v2Addrs):
			m.fail("C09", name, "tunnel records addresses %v but the handshake was completed by %s, certified for %v / %v", in.Addrs, p, pn.v1Addrs, pn.v2Addrs)
		}
		for _, a := range in.Addrs {
			if sysmHasAddr(n.allAddrs, a) {
				m.fail("C09", name, "tunnel (local index %d) records my own address %v", in.Local, a)
			}
		}
	}
	for _, p := range nebula.VerifSysmonPendingOf(n.VerifOutsideNode, n.ids) {
		var ids []uint64
		for _, b := range p.Stored {
			if _, _, _, _, _, id, ok := sysmParseIP4(b); ok && id != 0 {
				ids = append(ids, id)
			}
		}
		n.stored[p.ID] = ids
	}
	for _, e := range d.Hosts {
		if sysmHasAddr(n.allAddrs, e.A) {
			m.fail("C09", name, "main hostmap holds a tunnel keyed by my own address %v", e.A)
		}
	}
}

// outOK: would node n's send path let the queued packet go to peer p (tunnel recorded for addrs): source mine, destination
// the peer's, an outbound rule or a tracked flow.
func (m *sysmMon) outOK(n, p *sysmNode, addrs []netip.Addr, pk *sysmPkt) bool {
	if !sysmHasAddr(n.allAddrs, pk.src) && !sysmInAny(n.unsafe, pk.src) {
		return false
	}
	if !(sysmHasAddr(addrs, pk.dst) && sysmInAny(n.networks, pk.dst)) && !sysmInAny(p.unsafe, pk.dst) {
		return false
	}
	return sysmAllowed(n, p, false, pk.proto, pk.src, pk.dst, pk.dport) || n.tracked[sysmFlowOf(pk.proto, pk.src, pk.dst, pk.sport, pk.dport)]
}

// checkExpect (C32): every packet that waited on a handshake that has completed was sealed exactly once (if allowed).
func (m *sysmMon) checkExpect() {
	for _, x := range m.expect {
		if c := len(m.wire[x.id]); x.want && c != 1 {
			pk := m.pkts[x.id]
			m.fail("C32", x.node, "packet %d (%s, %v -> %v:%d) was queued on the handshake with %s; after it completed the packet was sent %d times %v", x.id, pk.kind, pk.src, pk.dst, pk.dport, x.peer, c, m.wire[x.id])
		}
	}
	m.expect = nil
}

func sysmAddrsEq(a, b []netip.Addr) bool {
	if len(a) != len(b) || len(a) == 0 {
		return false
	}
	for i := range a {
		if a[i] != b[i] {
			return false
		}
	}
	return true
}

func (m *sysmMon) snapAll() {
	for _, n := range m.order {
		m.snap(n, "")
	}
}

// ---- reference firewall (oracle 8) ------------------------------------------------------------------------------------

func (n *sysmNode) rules(inbound bool) []sysmRule {
	if inbound {
		return n.spec.in[n.variant]
	}
	return n.spec.out
}

// sysmAllowed: does some rule of node n in the given direction match the packet exchanged with peer p (documented rule
// semantics: protocol, destination port unless ICMP, peer by name / group / remote cidr, local cidr)?
func sysmAllowed(n, p *sysmNode, inbound bool, proto uint8, local, remote netip.Addr, dport uint16) bool {
	for _, r := range n.rules(inbound) {
		switch r.proto {
		case "tcp":
			if proto != 6 {
				continue
			}
		case "udp":
			if proto != 17 {
				continue
			}
		case "icmp":
			if proto != 1 {
				continue
			}
		}
		if proto != 1 && (r.lo != 0 || r.hi != 0) && (int(dport) < r.lo || int(dport) > r.hi) {
			continue
		}
		switch {
		case r.host == "any":
		case r.host != "":
			if r.host != p.spec.name {
				continue
			}
		case r.group != "":
			ok := false
			for _, g := range p.spec.groups {
				ok = ok || g == r.group
			}
			if !ok {
				continue
			}
		case r.cidr != "":
			if !netip.MustParsePrefix(r.cidr).Contains(remote) {
				continue
			}
		}
		if r.localCidr != "" {
			if !netip.MustParsePrefix(r.localCidr).Contains(local) {
				continue
			}
		} else if len(n.unsafe) > 0 {
			in := false
			for _, nw := range n.networks {
				in = in || nw.Masked().Contains(local)
			}
			if !in {
				continue
			}
		}
		return true
	}
	return false
}

// ---- the wire -----------------------------------------------------------------------------------------------------------

func (m *sysmMon) pump() int {
	moved := 0
	runtime.Gosched()
	for _, name := range m.order {
		nd := m.nodes[name]
		nd.Pump()
		nebula.VerifSysmonRunPunches(nd.VerifOutsideNode)
		for _, p := range nd.DrainUDP() {
			moved++
			m.emitted(name, p)
		}
		nd.DrainTun() // written outside a delivery: locally generated (reject) packets, not deliveries from a peer
	}
	return moved
}

func (m *sysmMon) emitted(name string, p nebula.VerifOutsidePkt) {
	to := m.w.byUDP[p.To]
	dg := sysmDgram{from: name, to: to, src: p.From, dst: p.To, data: p.Data, origin: name}
	var h header.H
	parsed := len(p.Data) >= header.Len && h.Parse(p.Data) == nil
	isRelay := parsed && h.Type == header.Message && h.Subtype == header.MessageRelay
	if isRelay && len(p.Data) >= 2*header.Len+16 {
		k := sha256.Sum256(p.Data[header.Len : len(p.Data)-16])
		if o, ok := m.inner[k]; ok {
			dg.origin = o
		} else {
			m.inner[k] = name
		}
	} else if parsed {
		k := sha256.Sum256(p.Data)
		if _, ok := m.inner[k]; !ok {
			m.inner[k] = name
		}
	}
	m.stats["datagrams"]++
	m.observe(dg, parsed, h, isRelay)
	if m.trace {
		fmt.Fprintf(os.Stderr, "    wire %s -> %s(%s) len %d type %d/%d idx %d ctr %d origin %s\n", name, p.To, to, len(p.Data), h.Type, h.Subtype, h.RemoteIndex, h.MessageCounter, dg.origin)
	}
	if to == "" || m.w.blocked(name, to) {
		return
	}
	m.queue = append(m.queue, dg)
}

// observe evaluates the wire oracles on a first emission: C36 (destination), C13 (counters), C17/C16 sender side.
func (m *sysmMon) observe(dg sysmDgram, parsed bool, h header.H, isRelay bool) {
	n := m.nodes[dg.from]
	// oracle 6 (C36): handshakes, punches and encrypted packets never go to an unusable underlay address
	if !parsed || h.Type != header.RecvError {
		u := dg.dst.Addr()
		kind := "encrypted packet"
		if !parsed {
			kind = "punch"
		} else if h.Type == header.Handshake {
			kind = "handshake"
		}
		if sysmInAny(n.networks, u) {
			m.fail("C36", dg.from, "%s written to %v, which lies inside my own overlay networks %v", kind, dg.dst, n.networks)
		}
		if sysmInAny(n.deny, u) {
			m.fail("C36", dg.from, "%s written to %v, which my remote_allow_list denies", kind, dg.dst)
		}
		if parsed && h.Type == header.Handshake && h.MessageCounter == 1 {
			for _, p := range nebula.VerifSysmonPendingOf(n.VerifOutsideNode, n.ids) {
				if bytes.Equal(p.Stage0, dg.data) && m.bad[sysmBadKey{dg.from, p.Vpn, dg.dst}] {
					m.fail("C36", dg.from, "handshake for %v written to %v, which was marked bad after a wrong host answered there", p.Vpn, dg.dst)
				}
			}
		}
	}
	if !parsed || h.Type == header.Handshake || h.Type == header.RecvError {
		return
	}
	// oracle 5 (C13): per sending tunnel - the hostinfo whose send key sealed the datagram, found by trying the send keys
	// of the node (two tunnels may carry the same peer index: a replayed first handshake message gives the responder a
	// second tunnel with fresh keys for the same initiator index) - the counters of encrypted packets are pairwise distinct
	if id, ok := nebula.VerifSysmonSenderKey(n.VerifOutsideNode, n.ids, dg.data, isRelay); ok {
		k := sysmCtrKey{dg.from, id}
		if m.ctrs[k] == nil {
			m.ctrs[k] = map[uint64]bool{}
		}
		if m.ctrs[k][h.MessageCounter] {
			m.fail("C13", dg.from, "message counter %d used twice under the send key of one tunnel (hostinfo %d, header index %d, type %d/%d)", h.MessageCounter, id, h.RemoteIndex, h.Type, h.Subtype)
		}
		m.ctrs[k][h.MessageCounter] = true
	} else {
		m.stats["counter_key_unknown"]++
	}
	m.stats["counters"]++
	// oracle 3 / 8, sender side: what did the node encrypt for which peer
	ctext := dg.data
	if isRelay {
		if dg.origin != dg.from || len(dg.data) < 2*header.Len+16 {
			return
		}
		ctext = dg.data[header.Len : len(dg.data)-16]
		var ih header.H
		if ih.Parse(ctext) != nil || ih.Type != header.Message || ih.Subtype != header.MessageNone {
			return
		}
	} else if h.Type != header.Message || h.Subtype != header.MessageNone {
		return
	}
	// oracle C32: an inner packet the harness handed to a tun is sealed at most once, whichever tunnel / gateway carries it
	if plain, hid, ok := nebula.VerifSysmonSenderPlain(n.VerifOutsideNode, n.ids, ctext); ok {
		if _, _, _, _, _, id, ok := sysmParseIP4(plain); ok && m.pkts[id] != nil {
			m.wire[id] = append(m.wire[id], dg.from+"->"+m.attrib[dg.from][hid])
			if len(m.wire[id]) > 1 {
				pk := m.pkts[id]
				m.fail("C32", dg.from, "inner packet %d (%s, %v -> %v:%d) was sent %d times: %v", id, pk.kind, pk.src, pk.dst, pk.dport, len(m.wire[id]), m.wire[id])
			}
		}
	} else {
		m.stats["sealed_unknown"]++
	}
	for _, pn := range m.order {
		if pn == dg.from {
			continue
		}
		p := m.nodes[pn]
		plain, _, ok := nebula.VerifSysmonPeek(p.VerifOutsideNode, ctext)
		if !ok {
			continue
		}
		m.stats["sent_observed"]++
		src, dst, proto, _, dport, id, ok := sysmParseIP4(plain)
		if !ok {
			m.fail("C17", dg.from, "sent an inner packet to %s that is not an IPv4 packet of the harness", pn)
			return
		}
		if !sysmHasAddr(n.allAddrs, src) && !sysmInAny(n.unsafe, src) {
			m.fail("C17", dg.from, "sent to %s an inner packet with source %v: neither my address %v nor inside my unsafe networks %v", pn, src, n.allAddrs, n.unsafe)
		}
		if !(sysmHasAddr(p.allAddrs, dst) && sysmInAny(n.networks, dst)) && !sysmInAny(p.unsafe, dst) {
			m.fail("C17", dg.from, "sent to %s an inner packet with destination %v: not a certified address of %s inside my networks, nor inside its unsafe networks", pn, dst, pn)
		}
		if pk := m.pkts[id]; pk != nil {
			fl := sysmFlowOf(proto, src, dst, pk.sport, pk.dport)
			if !sysmAllowed(n, p, false, proto, src, dst, dport) && !n.tracked[fl] {
				m.fail("C16", dg.from, "sent packet %d (%s proto %d %v:%d -> %v:%d) to %s although no outbound rule allows it and the flow was never allowed", id, pk.kind, proto, src, pk.sport, dst, dport, pn)
			}
		}
		return
	}
	m.stats["sent_unobserved"]++
}

// inject delivers one datagram to its listener from source src and evaluates the delivery oracles.
func (m *sysmMon) inject(dg sysmDgram, src netip.AddrPort, garbage bool) {
	x := m.nodes[dg.to]
	if x == nil {
		return
	}
	var h header.H
	parsed := len(dg.data) >= header.Len && h.Parse(dg.data) == nil
	// wrong responder bookkeeping (C36): a handshake reply from a host that is not certified for the address looked for
	var wrongVpn netip.Addr
	if parsed && h.Type == header.Handshake && h.MessageCounter == 2 && !garbage {
		for _, p := range nebula.VerifSysmonPendingOf(x.VerifOutsideNode, x.ids) {
			if p.Local == h.RemoteIndex && p.Local != 0 {
				if o := m.nodes[dg.origin]; o != nil && !sysmHasAddr(o.allAddrs, p.Vpn) {
					wrongVpn = p.Vpn
				}
			}
		}
	}
	var before nebula.VerifOutsideDigest
	check14 := garbage && !(parsed && (h.Type == header.Handshake || h.Type == header.RecvError))
	if check14 {
		x.ClearIn()
		before = x.Digest()
	}
	if pn := x.Inject(src, dg.data); pn != "" {
		m.fail("C14", dg.to, "nebula panicked while reading a datagram: %s", pn)
	}
	m.stats["injected"]++
	if check14 {
		after := x.Digest()
		if diff := sysmDigestDiff(before, after); diff != "" {
			m.fail("C14", dg.to, "a mutated / garbage datagram (type %d/%d, %d bytes) changed the receiver state: %s", h.Type, h.Subtype, len(dg.data), diff)
		}
	}
	if wrongVpn.IsValid() {
		if _, ok := x.Tunnel(wrongVpn); !ok { // refused: the source address is now bad for this target until a handshake completes
			m.bad[sysmBadKey{dg.to, wrongVpn, src}] = true
			m.stats["wrong_responder"]++
		}
	}
	peer := ""
	if parsed && (h.Type == header.Handshake || (h.Type == header.Message && h.Subtype == header.MessageRelay)) {
		peer = dg.origin
	}
	m.snap(dg.to, peer)
	for _, t := range x.DrainTun() {
		m.delivered(x, t, garbage)
	}
	if len(m.archive) < 96 && !garbage {
		m.archive = append(m.archive, dg)
	}
}

func sysmDigestDiff(a, b nebula.VerifOutsideDigest) string {
	var out []string
	add := func(k, x, y string) {
		if x != y {
			out = append(out, fmt.Sprintf("%s: %q -> %q", k, x, y))
		}
	}
	add("hosts", a.Hosts, b.Hosts)
	add("remoteIdx", a.RemoteIdx, b.RemoteIdx)
	add("relayIdx", a.RelayIdx, b.RelayIdx)
	add("pending", a.Pending, b.Pending)
	add("lighthouse", a.LH, b.LH)
	add("learned", a.LHLearned, b.LHLearned)
	add("conntrack", a.Conntrack, b.Conntrack)
	add("relayUsed", a.RelayUsed, b.RelayUsed)
	ids := map[uint32]bool{}
	for k := range a.Tunnels {
		ids[k] = true
	}
	for k := range b.Tunnels {
		ids[k] = true
	}
	for id := range ids {
		ta, tb := a.Tunnels[id], b.Tunnels[id]
		if ta == nil || tb == nil {
			out = append(out, fmt.Sprintf("tunnel %d appeared/disappeared", id))
			continue
		}
		for k, v := range ta {
			add(fmt.Sprintf("tunnel %d %s", id, k), v, tb[k])
		}
	}
	sort.Strings(out)
	if len(out) > 4 {
		out = out[:4]
	}
	return strings.Join(out, "; ")
}

// delivered: one inner packet written to x's tun while a datagram was being read (oracles 3, 4, 8; 7 for garbage).
func (m *sysmMon) delivered(x *sysmNode, b []byte, garbage bool) {
	m.stats["delivered"]++
	src, dst, proto, _, dport, id, ok := sysmParseIP4(b)
	pk := m.pkts[id]
	if garbage {
		m.fail("C14", x.name, "a mutated / garbage datagram delivered an inner packet (%v -> %v) to the tun", src, dst)
	}
	if !ok || pk == nil {
		m.fail("C17", x.name, "delivered an inner packet nobody sent (%v -> %v, %d bytes)", src, dst, len(b))
		return
	}
	s := m.nodes[pk.sender]
	m.deliv[x.name][id]++
	if c := m.deliv[x.name][id]; c > 1 {
		m.fail("C12", x.name, "inner packet %d (%s, from %s) delivered to the tun %d times", id, pk.kind, pk.sender, c)
	}
	m.delivAt[id] = append(m.delivAt[id], x.name)
	if len(m.delivAt[id]) > 1 { // also across the gateways of one unsafe network
		m.fail("C12", x.name, "inner packet %d (%s, from %s, %v -> %v) delivered %d times in total, at %v", id, pk.kind, pk.sender, src, dst, len(m.delivAt[id]), m.delivAt[id])
		m.fail("C32", x.name, "inner packet %d (%s, from %s, %v -> %v) delivered %d times in total, at %v", id, pk.kind, pk.sender, src, dst, len(m.delivAt[id]), m.delivAt[id])
	}
	if !(sysmHasAddr(s.allAddrs, src) && sysmInAny(x.networks, src)) && !sysmInAny(s.unsafe, src) {
		m.fail("C17", x.name, "delivered from peer %s an inner packet with source %v: not a certified address of %s inside my networks %v, nor inside its unsafe networks %v (packet %d, %s)",
			pk.sender, src, pk.sender, x.networks, s.unsafe, id, pk.kind)
	}
	if !sysmHasAddr(x.allAddrs, dst) && !sysmInAny(x.unsafe, dst) {
		m.fail("C17", x.name, "delivered from peer %s an inner packet with destination %v: neither my address nor inside my unsafe networks (packet %d, %s)", pk.sender, dst, id, pk.kind)
	}
	fl := sysmFlowOf(proto, dst, src, pk.dport, pk.sport)
	if !sysmAllowed(x, s, true, proto, dst, src, dport) && !x.tracked[fl] {
		m.fail("C16", x.name, "delivered packet %d (%s, proto %d %v:%d -> %v:%d from %s) although no inbound rule (variant %d) allows it and the flow has no conntrack state",
			id, pk.kind, proto, src, pk.sport, dst, dport, pk.sender, x.variant)
	}
	x.tracked[fl] = true
	if !bytes.Equal(b, pk.bytes) {
		m.fail("C14", x.name, "inner packet %d from %s was delivered altered", id, pk.sender)
	}
}

// ---- network policies -----------------------------------------------------------------------------------------------------

func (m *sysmMon) deliverAll(rounds int) {
	for i := 0; i < rounds; i++ {
		m.pump()
		if len(m.queue) == 0 {
			return
		}
		q := m.queue
		m.queue = nil
		for _, dg := range q {
			m.inject(dg, dg.src, false)
		}
	}
	m.pump()
}

// settle: deliver everything and fire the retry timer of pending handshakes, a few times.
func (m *sysmMon) settle(rounds int) {
	for i := 0; i < rounds; i++ {
		m.deliverAll(12)
		any := false
		for _, name := range m.order {
			nd := m.nodes[name]
			for _, a := range nd.Pending() {
				any = true
				nd.Attempt(a)
				m.snap(name, "")
			}
		}
		if !any {
			return
		}
	}
	m.deliverAll(12)
}

// ---- events -----------------------------------------------------------------------------------------------------------------

type sysmEv struct {
	Op   string `json:"op"`
	A    string `json:"a,omitempty"`
	B    string `json:"b,omitempty"`
	K    int    `json:"k,omitempty"`
	V    int    `json:"v,omitempty"`
	Note string `json:"note,omitempty"`
}

var sysmFlows = []struct {
	proto uint8
	dport uint16
}{{17, 5000}, {17, 5005}, {17, 6000}, {6, 80}, {6, 443}, {6, 22}, {6, 8080}, {1, 0}}

// commonAddr: an address of x that lies inside one of s's networks (index k picks among several), else x's first.
func sysmCommon(s, x *sysmNode, k int) netip.Addr {
	var c []netip.Addr
	for _, a := range x.allAddrs {
		if sysmInAny(s.networks, a) {
			c = append(c, a)
		}
	}
	if len(c) == 0 {
		return x.allAddrs[0]
	}
	return c[k%len(c)]
}

func sysmHostIn(p netip.Prefix, k int) netip.Addr {
	b := p.Masked().Addr().As4()
	b[3] += byte(k)
	return netip.AddrFrom4(b)
}

func (m *sysmMon) newPkt(sender, to, kind string, proto uint8, src, dst netip.Addr, sport, dport uint16) *sysmPkt {
	pk := &sysmPkt{id: m.nextID, sender: sender, to: to, src: src, dst: dst, proto: proto, sport: sport, dport: dport, kind: kind}
	m.nextID++
	pk.bytes = sysmIP4(proto, src, dst, sport, dport, pk.id)
	m.pkts[pk.id] = pk
	return pk
}

// send: node A's tun reads an inner packet for node B. K selects the flow, V the variety.
func (m *sysmMon) evSend(e sysmEv) {
	s, x := m.nodes[e.A], m.nodes[e.B]
	f := sysmFlows[e.K%len(sysmFlows)]
	sport := uint16(40000 + e.K%7)
	if f.proto == 1 {
		sport = uint16(700 + e.K%5)
	}
	k := e.K / len(sysmFlows)
	src, dst := sysmCommon(x, s, k), sysmCommon(s, x, k)
	kind := "plain"
	switch e.V % 8 {
	case 1: // spoofed inner source: another node's address
		for _, o := range m.order {
			if o != e.A && o != e.B {
				src = m.nodes[o].allAddrs[0]
			}
		}
		kind = "spoofed-source"
	case 2: // towards / from an unsafe network
		if len(x.unsafe) > 0 {
			dst = sysmHostIn(x.unsafe[0], 5+e.K%3)
			kind = "to-unsafe"
		} else if len(s.unsafe) > 0 {
			src = sysmHostIn(s.unsafe[0], 5+e.K%3)
			kind = "from-unsafe"
		} else {
			src = netip.AddrFrom4([4]byte{192, 168, 12, 9})
			kind = "bogus-unsafe-source"
		}
	case 3: // an address of the peer that is not inside my networks, or an unrouted unsafe destination
		if len(x.allAddrs) > 1 {
			dst = x.allAddrs[len(x.allAddrs)-1]
			kind = "peer-second-address"
		} else {
			dst = netip.AddrFrom4([4]byte{192, 168, 13, 5})
			kind = "unrouted"
		}
	}
	dport := f.dport
	if e.V%8 == 5 && e.A == sysmA { // towards an unsafe network with two gateways (ECMP picks by the flow): many flows
		f.proto, sport, dport = 17, uint16(40000+e.K%7), uint16(5000+e.K%11)
		src, dst = s.allAddrs[0], netip.AddrFrom4([4]byte{192, 168, byte(14 + e.K%2), byte(5 + e.K/2%20)})
		kind = "ecmp"
	}
	if e.V%8 == 4 && f.proto != 1 { // the answer to the same flow sent the other way: allowed only by conntrack state
		sport, dport = dport, sport
		kind = "reply"
	}
	pk := m.newPkt(e.A, e.B, kind, f.proto, src, dst, sport, dport)
	if sysmAllowed(s, x, false, f.proto, src, dst, dport) {
		s.tracked[sysmFlowOf(f.proto, src, dst, sport, dport)] = true
	}
	s.TunSend(pk.bytes)
	m.snap(e.A, "")
	m.stats["sent"]++
}

// crafted: a packet under the key of B's tunnel at A, as peer B would produce it, carrying an inner source B is not
// certified for (or one of B's addresses outside A's networks): C17 at the receiver.
func (m *sysmMon) evCrafted(e sysmEv) {
	x, p := m.nodes[e.A], m.nodes[e.B]
	t, ok := x.Tunnel(sysmCommon(x, p, 0))
	if !ok {
		return
	}
	f := sysmFlows[e.K%3] // udp flows, allowed ones included
	src := p.allAddrs[len(p.allAddrs)-1]
	kind := "crafted-peer-address"
	switch e.V % 3 {
	case 0:
		for _, o := range m.order {
			if o != e.A && o != e.B {
				src = m.nodes[o].allAddrs[0]
			}
		}
		kind = "crafted-spoofed-source"
	case 1:
		src = netip.AddrFrom4([4]byte{192, 168, 12, 77})
		kind = "crafted-unsafe-source"
	}
	dst := sysmCommon(p, x, 0)
	if e.V%5 == 4 {
		dst = netip.AddrFrom4([4]byte{10, 128, 0, 200})
		kind += "+foreign-destination"
	}
	pk := m.newPkt(e.B, e.A, kind, f.proto, src, dst, uint16(41000+e.K%7), f.dport)
	ctr := t.WinCur + 300 + uint64(m.nextID%200)
	data := x.Seal(t.Local, t.Local, header.Version, uint8(header.Message), 0, ctr, pk.bytes)
	if data == nil {
		return
	}
	from := t.RemoteAddr
	if !from.IsValid() {
		from = p.udp
	}
	m.inject(sysmDgram{from: e.B, to: e.A, src: from, dst: x.udp, data: data, origin: e.B, forged: true}, from, false)
}

func (m *sysmMon) evNet(e sysmEv) {
	switch e.V % 8 {
	case 0, 1: // deliver the first K datagrams
		m.pump()
		k := 1 + e.K%4
		for i := 0; i < k && len(m.queue) > 0; i++ {
			dg := m.queue[0]
			m.queue = m.queue[1:]
			m.inject(dg, dg.src, false)
		}
	case 2: // drop one
		m.pump()
		if len(m.queue) > 0 {
			i := e.K % len(m.queue)
			m.queue = append(m.queue[:i:i], m.queue[i+1:]...)
		}
	case 3: // duplicate one
		m.pump()
		if len(m.queue) > 0 {
			dg := m.queue[e.K%len(m.queue)]
			dg.forged = true
			m.queue = append(m.queue, dg)
		}
	case 4: // reorder: reverse the queue
		m.pump()
		for i, j := 0, len(m.queue)-1; i < j; i, j = i+1, j-1 {
			m.queue[i], m.queue[j] = m.queue[j], m.queue[i]
		}
	case 5, 6: // replay something that was delivered earlier (6: a data or relay datagram)
		pool := m.archive
		if e.V%8 == 6 {
			pool = nil
			for _, dg := range m.archive {
				if len(dg.data) > 16 && dg.data[0]&0x0f == byte(header.Message) {
					pool = append(pool, dg)
				}
			}
		}
		if len(pool) > 0 {
			dg := pool[e.K%len(pool)]
			dg.forged = true
			m.inject(dg, dg.src, false)
		}
	default:
		m.deliverAll(12)
	}
}

// roam: the next encrypted datagram in flight arrives from a different source address.
func (m *sysmMon) evRoam(e sysmEv) {
	m.pump()
	for i, dg := range m.queue {
		var h header.H
		if h.Parse(dg.data) != nil || h.Type == header.Handshake || h.Type == header.RecvError {
			continue
		}
		m.queue = append(m.queue[:i:i], m.queue[i+1:]...)
		var src netip.AddrPort
		switch e.V % 4 {
		case 0, 1: // a usable new address: the peer's answers must reach it
			m.alias++
			src = netip.AddrPortFrom(netip.AddrFrom4([4]byte{10, 0, 1, byte(m.alias)}), 4242)
			m.w.byUDP[src] = dg.from
		case 2: // an address the receiver's remote_allow_list may deny
			src = netip.AddrPortFrom(netip.AddrFrom4([4]byte{10, 66, 0, byte(20 + e.K%9)}), 4242)
		default: // an address inside the overlay networks
			src = netip.AddrPortFrom(netip.AddrFrom4([4]byte{10, 128 + byte(e.K%2), 0, byte(70 + e.K%9)}), 4242)
		}
		m.inject(dg, src, false)
		return
	}
}

// garbage: random bytes, or a bit flip / truncation / header substitution of a genuine datagram, read by its receiver.
func (m *sysmMon) evGarbage(e sysmEv) {
	c := m.c
	pool := append(append([]sysmDgram{}, m.archive...), m.queue...)
	if e.V%4 == 0 || len(pool) == 0 {
		x := m.nodes[m.order[e.K%len(m.order)]]
		b := c.RandBytes(1 + c.Intn(120))
		if e.K%2 == 1 && len(b) < 40 {
			b = append(b, c.RandBytes(40)...)
		}
		if e.K%2 == 1 { // plausible header: version 1, an encrypted type, a live index
			b[0] = 1<<4 | byte([]int{1, 3, 4, 5, 6}[c.Intn(5)])
			b[1] = byte(c.Intn(2))
			if ts := x.Tunnels(); len(ts) > 0 {
				binary.BigEndian.PutUint32(b[4:], ts[c.Intn(len(ts))].Local)
			}
		}
		src := netip.AddrPortFrom(netip.AddrFrom4([4]byte{10, 0, 0, byte(1 + c.Intn(30))}), 4242)
		m.inject(sysmDgram{from: "", to: x.name, src: src, dst: x.udp, data: b, forged: true}, src, true)
		return
	}
	dg := pool[e.K%len(pool)]
	b := append([]byte(nil), dg.data...)
	switch e.V % 4 {
	case 1:
		bit := c.Intn(len(b) * 8)
		b[bit/8] ^= 1 << (bit % 8)
	case 2:
		b = b[:c.Intn(len(b))]
	default:
		if len(b) >= 16 {
			switch c.Intn(3) {
			case 0:
				binary.BigEndian.PutUint64(b[8:], binary.BigEndian.Uint64(b[8:])+1+uint64(c.Intn(3)))
			case 1:
				b[0] = b[0]&0xf0 | byte([]int{1, 3, 4, 5, 6}[c.Intn(5)])
			default:
				b[len(b)-1] ^= 0x80
			}
		}
	}
	if bytes.Equal(b, dg.data) {
		return
	}
	dg.data, dg.forged = b, true
	m.inject(dg, dg.src, true)
}

func (m *sysmMon) evReload(e sysmEv) {
	n := m.nodes[e.A]
	if e.Op == "fwreload" {
		n.variant = (n.variant + 1) % len(n.spec.in)
	} else {
		n.sign(m.w.ca, 1+e.K%50)
	}
	if err := n.cfg.ReloadConfigString(n.yaml(m.w.ca)); err != nil {
		panic(fmt.Sprintf("sysmon: reload of %s: %v", e.A, err))
	}
	m.snap(e.A, "")
}

func (m *sysmMon) exec(e sysmEv) {
	a, b := m.nodes[e.A], m.nodes[e.B]
	switch e.Op {
	case "send":
		m.evSend(e)
		if e.V/8%4 != 3 {
			m.deliverAll(12)
		}
	case "crafted":
		m.evCrafted(e)
	case "net":
		m.evNet(e)
	case "hs":
		a.StartHandshake(sysmCommon(a, b, e.K))
		m.snap(e.A, "")
	case "simul": // both ends start before anything is delivered
		a.StartHandshake(sysmCommon(a, b, e.K))
		b.StartHandshake(sysmCommon(b, a, e.K))
		m.snap(e.A, "")
		m.snap(e.B, "")
		m.pump()
		if e.V%2 == 0 {
			m.deliverAll(12)
		}
	case "close":
		nebula.VerifSysmonClose(a.VerifOutsideNode, sysmCommon(a, b, e.K), e.V%2 == 0)
		m.snap(e.A, "")
	case "tick": // connection manager at a later virtual time (one node, or all)
		m.now = m.now.Add(time.Duration(1+e.K%3) * time.Second)
		for _, name := range m.order {
			if e.A == "" || e.A == name {
				nebula.VerifSysmonCMTick(m.nodes[name].VerifOutsideNode, m.now)
				m.snap(name, "")
			}
		}
	case "retry": // handshake retry timer of every pending handshake of A
		for _, p := range a.Pending() {
			a.Attempt(p)
			m.snap(e.A, "")
		}
	case "fwreload", "certreload":
		m.evReload(e)
	case "lhquery":
		nebula.VerifSysmonQuery(a.VerifOutsideNode, sysmCommon(a, b, e.K))
	case "lhupdate":
		a.SendLighthouseUpdate()
	case "block": // cut / restore the direct underlay path A - B (relays take over)
		m.w.block[[2]string{e.A, e.B}] = e.V%2 == 0
	case "roam":
		m.evRoam(e)
	case "garbage":
		m.evGarbage(e)
	case "poison": // A is told that B lives at the underlay address of node Note (a wrong responder will answer)
		a.LearnAddr(sysmCommon(a, b, 0), m.nodes[e.Note].udp)
	case "settle":
		m.settle(6)
	}
	m.pump()
	m.snapAll()
	m.checkExpect()
}

// ---- histories ------------------------------------------------------------------------------------------------------------------

func sysmCorpus() [][]sysmEv {
	S := func(a, b string, k, v int) sysmEv { return sysmEv{Op: "send", A: a, B: b, K: k, V: v} }
	return [][]sysmEv{
		{ // plain traffic of every flow between every pair, both directions
			S(sysmA, sysmL, 0, 0), S(sysmL, sysmA, 0, 0), S(sysmA, sysmR, 3, 0), S(sysmR, sysmA, 3, 0), S(sysmA, sysmB, 0, 0), S(sysmB, sysmA, 7, 0),
			S(sysmA, sysmR, 11, 0), S(sysmR, sysmA, 4, 0), S(sysmR, sysmA, 6, 0), S(sysmA, sysmB, 2, 0), S(sysmB, sysmR, 5, 0), S(sysmR, sysmB, 5, 0),
			S(sysmA, sysmB, 1, 2), S(sysmB, sysmA, 1, 2), S(sysmR, sysmA, 1, 2), S(sysmA, sysmL, 2, 1), S(sysmL, sysmA, 0, 3), S(sysmA, sysmL, 3, 3),
			{Op: "fwreload", A: sysmA}, S(sysmL, sysmA, 1, 0), S(sysmB, sysmA, 3, 0), S(sysmB, sysmA, 4, 0), {Op: "fwreload", A: sysmB}, S(sysmA, sysmB, 3, 0),
			S(sysmA, sysmL, 4, 0), S(sysmA, sysmL, 5, 0), S(sysmA, sysmL, 6, 0), S(sysmA, sysmL, 7, 0), S(sysmA, sysmL, 1, 0), S(sysmB, sysmA, 6, 0), S(sysmB, sysmA, 5, 0),
			S(sysmL, sysmB, 2, 0), S(sysmL, sysmB, 3, 0), S(sysmL, sysmB, 4, 0), S(sysmL, sysmA, 3, 4), S(sysmL, sysmA, 4, 4), S(sysmB, sysmA, 2, 4),
			{Op: "tick"}, {Op: "tick", K: 2}, {Op: "tick", K: 1}, {Op: "settle"},
		},
		{ // relay: the direct path A - B is cut
			{Op: "block", A: sysmA, B: sysmB}, {Op: "lhupdate", A: sysmB}, {Op: "net", V: 7}, S(sysmA, sysmB, 0, 0), {Op: "settle"}, S(sysmB, sysmA, 0, 0),
			S(sysmA, sysmB, 1, 0), S(sysmA, sysmB, 1, 2), S(sysmB, sysmA, 5, 2), {Op: "net", V: 6, K: 0}, {Op: "net", V: 6, K: 1}, {Op: "net", V: 6, K: 2}, {Op: "net", V: 6, K: 3}, {Op: "net", V: 5, K: 9}, {Op: "net", V: 6, K: 5},
			S(sysmA, sysmB, 0, 24), {Op: "net", V: 3, K: 0}, {Op: "net", V: 3, K: 1}, {Op: "net", V: 7}, {Op: "garbage", V: 1, K: 5}, {Op: "garbage", V: 3, K: 7},
			{Op: "tick"}, {Op: "close", A: sysmR, B: sysmB, V: 1}, S(sysmA, sysmB, 5, 0), {Op: "settle"}, {Op: "tick", K: 2}, {Op: "settle"},
		},
		{ // wrong responder, blocked remote, lighthouse answers with unusable addresses
			{Op: "lhupdate", A: sysmB}, {Op: "net", V: 7}, {Op: "block", A: sysmA, B: sysmB}, {Op: "block", A: sysmR, B: sysmB},
			{Op: "poison", A: sysmA, B: sysmB, Note: sysmL}, S(sysmA, sysmB, 0, 24), {Op: "net", V: 7}, {Op: "retry", A: sysmA}, {Op: "net", V: 7},
			{Op: "poison", A: sysmA, B: sysmB, Note: sysmL}, {Op: "retry", A: sysmA}, {Op: "net", V: 7}, {Op: "lhquery", A: sysmA, B: sysmB}, {Op: "net", V: 7},
			{Op: "retry", A: sysmA}, {Op: "net", V: 7}, {Op: "block", A: sysmA, B: sysmB, V: 1}, {Op: "block", A: sysmR, B: sysmB, V: 1}, {Op: "settle"},
			S(sysmA, sysmB, 1, 0), {Op: "close", A: sysmR, B: sysmB, V: 1}, {Op: "poison", A: sysmR, B: sysmB, Note: sysmA}, {Op: "hs", A: sysmR, B: sysmB}, {Op: "settle"},
			{Op: "lhquery", A: sysmR, B: sysmB}, {Op: "settle"}, {Op: "tick"}, {Op: "tick", K: 1}, S(sysmB, sysmA, 0, 0), S(sysmA, sysmB, 0, 4), {Op: "tick", K: 2}, {Op: "settle"},
			// B starts the next tunnel: the lighthouse tells A to punch towards everything B advertises
			{Op: "close", A: sysmA, B: sysmB}, {Op: "close", A: sysmB, B: sysmA}, S(sysmB, sysmA, 1, 0), {Op: "settle"}, {Op: "close", A: sysmR, B: sysmB}, {Op: "close", A: sysmB, B: sysmR},
			S(sysmB, sysmR, 0, 0), {Op: "settle"},
		},
		{ // roaming, duplicates, replays, crafted peer packets, simultaneous handshakes, reloads
			S(sysmA, sysmR, 0, 0), S(sysmR, sysmA, 0, 24), {Op: "roam", V: 0}, {Op: "net", V: 7}, S(sysmA, sysmR, 1, 24), {Op: "roam", V: 2, K: 1}, {Op: "net", V: 7},
			S(sysmR, sysmA, 1, 24), {Op: "roam", V: 3, K: 2}, {Op: "net", V: 7}, S(sysmA, sysmR, 0, 0), {Op: "crafted", A: sysmA, B: sysmR, V: 0}, {Op: "crafted", A: sysmL, B: sysmA, V: 2},
			{Op: "crafted", A: sysmA, B: sysmB, V: 1}, {Op: "crafted", A: sysmR, B: sysmA, V: 4}, {Op: "simul", A: sysmA, B: sysmR}, {Op: "settle"}, {Op: "simul", A: sysmA, B: sysmB, V: 1},
			{Op: "net", V: 4}, {Op: "net", V: 7}, {Op: "settle"}, {Op: "certreload", A: sysmA}, {Op: "tick"}, {Op: "settle"}, {Op: "tick", K: 1}, {Op: "settle"}, S(sysmA, sysmR, 8, 0),
			{Op: "close", A: sysmA, B: sysmR}, S(sysmR, sysmA, 0, 0), {Op: "settle"}, {Op: "net", V: 6, K: 4}, {Op: "net", V: 6, K: 11}, {Op: "net", V: 5, K: 11}, {Op: "garbage", V: 0, K: 1}, {Op: "garbage", V: 2, K: 3},
			{Op: "garbage", V: 0, K: 3}, {Op: "garbage", V: 0, K: 5}, {Op: "garbage", V: 0, K: 7}, {Op: "garbage", V: 4, K: 2}, {Op: "garbage", V: 1, K: 2}, {Op: "garbage", V: 3, K: 6},
		},
	}
}

// sysmCorpusECMP: traffic towards the two-gateway unsafe networks while one gateway (then the other, then both) has no
// tunnel, many flows each, followed by that gateway's handshake completing.
func sysmCorpusECMP() []sysmEv {
	S := func(a, b string, k, v int) sysmEv { return sysmEv{Op: "send", A: a, B: b, K: k, V: v} }
	h := []sysmEv{S(sysmA, sysmB, 0, 0), S(sysmA, sysmR, 0, 0), {Op: "settle"}}
	down := func(gws ...string) {
		for _, g := range gws {
			h = append(h, sysmEv{Op: "close", A: sysmA, B: g}, sysmEv{Op: "close", A: g, B: sysmA})
		}
		for k := 0; k < 14; k++ {
			h = append(h, S(sysmA, gws[0], k+len(h), 29)) // kind ecmp, nothing delivered yet
		}
		h = append(h, sysmEv{Op: "net", V: 0, K: 1}, sysmEv{Op: "settle"}, sysmEv{Op: "tick"})
	}
	down(sysmB)
	down(sysmR)
	down(sysmB, sysmR)
	h = append(h, S(sysmA, sysmR, 3, 5), S(sysmA, sysmB, 4, 5), S(sysmB, sysmA, 1, 2), sysmEv{Op: "settle"})
	return h
}

func (m *sysmMon) randomEv() sysmEv {
	c := m.c
	pick := func() string { return m.order[c.Intn(len(m.order))] }
	a := pick()
	b := pick()
	for b == a {
		b = pick()
	}
	e := sysmEv{A: a, B: b, K: c.Intn(64), V: c.Intn(64)}
	r := c.Intn(100)
	switch {
	case r < 34:
		e.Op = "send"
		if c.Chance(0.6) {
			e.V = e.V / 8 * 8 // plain
		}
	case r < 46:
		e.Op = "net"
	case r < 50:
		e.Op = "hs"
	case r < 53:
		e.Op = "simul"
	case r < 58:
		e.Op = "close"
	case r < 66:
		e.Op = "tick"
		if c.Chance(0.6) {
			e.A = ""
		}
	case r < 70:
		e.Op = "retry"
	case r < 73:
		e.Op = "fwreload"
	case r < 75:
		e.Op = "certreload"
	case r < 78:
		e.Op = "lhquery"
	case r < 81:
		e.Op = "lhupdate"
	case r < 84:
		e.Op = "block"
		e.A, e.B = sysmA, sysmB
	case r < 88:
		e.Op = "roam"
	case r < 93:
		e.Op = "garbage"
	case r < 96:
		e.Op = "crafted"
	case r < 98:
		e.Op = "poison"
		e.Note = pick()
		for e.Note == a || e.Note == b {
			e.Note = pick()
		}
	default:
		e.Op = "settle"
	}
	return e
}

// runHistory builds a fresh world, registers the clients with the lighthouse and runs the script.
func sysmHistory(c *hx.Ctx, script []sysmEv, random int) *sysmMon {
	m := sysmNewMon(c)
	m.snapAll()
	for _, n := range []string{sysmA, sysmB, sysmR} {
		m.nodes[n].SendLighthouseUpdate()
	}
	m.settle(8)
	m.snapAll()
	run := func(e sysmEv) {
		m.ev++
		m.script = append(m.script, map[string]any{"i": m.ev, "op": e.Op, "a": e.A, "b": e.B, "k": e.K, "v": e.V, "note": e.Note})
		if m.trace {
			fmt.Fprintf(os.Stderr, "event %d: %+v\n", m.ev, e)
		}
		m.exec(e)
	}
	for _, e := range script {
		run(e)
	}
	for i := 0; i < random; i++ {
		run(m.randomEv())
	}
	m.ev++
	m.settle(4)
	m.snapAll()
	m.checkExpect()
	return m
}

const sysmCoq = `From Coq Require Import Bool.
From NV Require Import model.HostMap.
(* sysmon: walkers over the successive hostmap dumps of one real node, using the executable specification of
   model/HostMap.v (wfb / unreachableb / idxb / releaseb), the same predicates corr/HostMap_corr.v evaluates *)
Inductive sysm_case := SysDumps (which : N) (nodes : list (list HostMap.state)) | SysTrace (events : N).
Fixpoint sysm_w28 (p : HostMap.state) (gone : list N) (l : list HostMap.state) : bool :=
  match l with
  | [] => true
  | d :: r => let g := gone ++ filter (fun h => liveb p h && negb (liveb d h)) (keys (infos p)) in
              wfb d && forallb (fun h => unreachableb d h && negb (liveb d h)) g && sysm_w28 d g r
  end.
Fixpoint sysm_w29 (p : HostMap.state) (l : list HostMap.state) : bool :=
  match l with [] => true | d :: r => idxb d && releaseb p d && sysm_w29 d r end.
Definition sysm_check (c : sysm_case) : list N :=
  match c with
  | SysDumps w nodes => flag 2 (forallb (fun l => if N.eqb w 28%N then sysm_w28 HostMap.init [] l else sysm_w29 HostMap.init l) nodes)
  | SysTrace _ => []
  end.`

// the per-property views whose oracle is evaluated in Go carry no dump: their cases need nothing but lib/Corr.v
const sysmCoqTrace = `Inductive sysm_case := SysTrace (events : N).
Definition sysm_check (c : sysm_case) : list N := [].`

func sysmRun(c *hx.Ctx, only string) {
	coq := sysmCoqTrace
	if only == "" || only == "C28" || only == "C29" {
		coq = sysmCoq
	}
	perShard := 200
	if coq == sysmCoq {
		perShard = 8 // ~15 kB of dump literals per history: Coq elaborates ~20 kB/s
	}
	cw := c.NewCaseWriter(coq, "sysm_case", "sysm_check", perShard)
	corpus := append(sysmCorpus(), sysmCorpusECMP())
	nRandom := c.N
	if nRandom < 0 {
		nRandom = 0
	}
	var failures []map[string]any
	totals := map[string]int{}
	for hI := 0; hI < len(corpus)+nRandom; hI++ {
		var m *sysmMon
		kind := "corpus"
		if hI < len(corpus) {
			m = sysmHistory(c, corpus[hI], 0)
		} else {
			kind = "random"
			m = sysmHistory(c, nil, 40+c.Intn(41))
		}
		for k, v := range m.stats {
			totals[k] += v
		}
		var fl []sysmFail
		for _, f := range m.fails {
			if only == "" || f.Oracle == only {
				fl = append(fl, f)
			}
		}
		lit := hx.App("SysTrace", hx.N(uint64(m.ev)))
		if only == "" || only == "C28" || only == "C29" {
			which := uint64(28)
			if only == "C29" {
				which = 29
			}
			nodes := make([]string, 0, len(m.order))
			for _, n := range m.order {
				nodes = append(nodes, hx.List(m.nodes[n].dumps))
				totals["dumps"] += len(m.nodes[n].dumps)
			}
			lit = hx.App("SysDumps", hx.N(which), hx.List(nodes))
			if only == "" { // the combined component evaluates both walkers: one more case below
				cw.Add(hx.App("SysDumps", hx.N(29), hx.List(nodes)), kind+"-C29", true, map[string]any{"oracle": "C29", "history": hI, "script": m.script})
			}
		}
		oracle := only
		if oracle == "" {
			oracle = "all"
			if len(fl) > 0 {
				oracle = fl[0].Oracle
			}
		}
		desc := map[string]any{"oracle": oracle, "history": hI, "events": m.ev, "script": m.script, "failures": fl, "stats": m.stats}
		cw.Add(lit, kind, m.stats["delivered"] > 0, desc)
		if len(fl) > 0 {
			failures = append(failures, map[string]any{"i": cw.Total() - 1, "code": 2})
		}
	}
	if len(failures) > 0 {
		cw.Meta("failures", failures)
	}
	cw.Meta("totals", totals)
	cw.Close("histories of 4 real nodes (lighthouse, relay, v1/v2 certificates, two-address and unsafe-network peers, allow/deny firewall rules, " +
		"remote_allow_list) under seeded event scripts (inner packets allowed/denied/spoofed/unsafe, deliver/drop/duplicate/replay/reorder, handshakes, " +
		"simultaneous handshakes, close, connection-manager ticks at virtual time, firewall and certificate reload, lighthouse query/update, relays, roaming, " +
		"garbage); after every event: hostmap dumps satisfy the executable WF / index predicates of model/HostMap.v (evaluated in Coq), tunnels are bound to " +
		"the certificate of the node that completed the handshake, delivered and sent inner packets carry certified addresses, no packet is delivered twice, " +
		"counters are not reused per tunnel, no datagram goes to an unusable underlay address, garbage changes nothing, unallowed untracked packets are not delivered; " +
		"oracle reported: " + map[bool]string{true: "all", false: only}[only == ""])
}

//go:build comp_all || comp_dns

package main

// C44: the DNS responder. Histories of completed handshakes (real unlockedAddHostInfo -> dnsServer.Add), config
// reloads (real reload), certificate replacements and queries (real parseQuery / handleDnsRequest with a fake
// ResponseWriter) on one real dnsServer; after every operation dnsMap4/dnsMap6/selfHost are dumped.

import (
	"fmt"
	"math/big"
	"net/netip"
	"strings"

	"github.com/slackhq/nebula"
	"verifharness/hx"
)

func init() {
	hx.Register("dns", runDNS)
}

func dnsAddrLit(a netip.Addr) string {
	if a.Is4() {
		b := a.As4()
		return fmt.Sprintf("(true, %s)", new(big.Int).SetBytes(b[:]).String())
	}
	b := a.As16()
	return fmt.Sprintf("(false, %s)", new(big.Int).SetBytes(b[:]).String())
}

func dnsAddrVal(a netip.Addr) string {
	if a.Is4() {
		b := a.As4()
		return new(big.Int).SetBytes(b[:]).String()
	}
	b := a.As16()
	return new(big.Int).SetBytes(b[:]).String()
}

// dnsName renders a byte string as (nm length value), value = the bytes read as a big-endian number.
func dnsName(x string) string {
	return fmt.Sprintf("(nm %d %s)", len(x), new(big.Int).SetBytes([]byte(x)).String())
}

func dnsAddrsLit(as []netip.Addr) string {
	s := make([]string, len(as))
	for i, a := range as {
		s[i] = dnsAddrLit(a)
	}
	return hx.List(s)
}

func dnsMapLit(m []nebula.VerifDNSRecord) string {
	s := make([]string, len(m))
	for i, r := range m {
		s[i] = fmt.Sprintf("(%s, %s)", dnsName(r.Name), dnsAddrVal(r.Addr))
	}
	return hx.List(s)
}

func dnsDumpLit(d nebula.VerifDNSDump) string {
	return fmt.Sprintf("%s %s %s", dnsMapLit(d.M4), dnsMapLit(d.M6), dnsName(d.Self))
}

// dnsDumpOpt is the dump as an option: None when nothing changed since the previous dump.
func dnsDumpOpt(prev *string, d nebula.VerifDNSDump) string {
	cur := fmt.Sprintf("(%s, %s, %s)", dnsMapLit(d.M4), dnsMapLit(d.M6), dnsName(d.Self))
	if cur == *prev {
		return "None"
	}
	*prev = cur
	return "(Some " + cur + ")"
}

func dnsAnswersLit(as []nebula.VerifDNSAnswer) string {
	s := make([]string, len(as))
	for i, a := range as {
		v := fmt.Sprint(a.Cert)
		if a.Rtype == nebula.VerifDNSTypeA || a.Rtype == nebula.VerifDNSTypeAAAA {
			v = "0"
			if a.Addr.IsValid() {
				v = dnsAddrVal(a.Addr)
			}
		}
		s[i] = fmt.Sprintf("(%d, %s, %s)", a.Rtype, dnsName(a.Name), v)
	}
	return hx.List(s)
}

func dnsRecase(c *hx.Ctx, s string) string {
	b := []byte(s)
	for i, x := range b {
		if c.Chance(0.5) {
			switch {
			case x >= 'a' && x <= 'z':
				b[i] = x - 32
			case x >= 'A' && x <= 'Z':
				b[i] = x + 32
			}
		}
	}
	return string(b)
}

type dnsHost struct {
	id    uint64
	name  string
	addrs []netip.Addr
}

func runDNS(c *hx.Ctx) {
	cw := c.NewCaseWriter("From NV Require Import lib.Ip model.Dns corr.Dns_corr.", "Dns_corr.case", "Dns_corr.check_case", 40)
	baseNames := []string{"host1", "Host1", "web-a", "WEB-A", "db.internal", "lh", "LightHouse", "n0de-7", "x"}
	qtypes := []uint16{nebula.VerifDNSTypeA, nebula.VerifDNSTypeAAAA, nebula.VerifDNSTypeTXT, nebula.VerifDNSTypeMX, nebula.VerifDNSTypeANY, 5, 33, 0, 65535, 2}
	for i := 0; i < c.N; i++ {
		used := map[netip.Addr]int{}
		newAddr := func(v4 bool) netip.Addr {
			for {
				var a netip.Addr
				if v4 {
					a = netip.AddrFrom4([4]byte{10, 1, byte(c.Intn(2)), byte(1 + c.Intn(30))})
				} else {
					b := [16]byte{0xfd}
					b[15] = byte(1 + c.Intn(30))
					a = netip.AddrFrom16(b)
				}
				if _, ok := used[a]; !ok {
					used[a] = 0
					return a
				}
			}
		}
		randAddrs := func() []netip.Addr {
			var as []netip.Addr
			switch c.Intn(6) {
			case 0:
				as = []netip.Addr{newAddr(false)}
			case 1:
				as = []netip.Addr{newAddr(true), newAddr(false)}
			case 2:
				as = []netip.Addr{newAddr(false), newAddr(true), newAddr(true), newAddr(false)}
			case 3:
				as = []netip.Addr{newAddr(true), newAddr(true)}
			default:
				as = []netip.Addr{newAddr(true)}
			}
			return as
		}
		nextID := uint64(1)
		self := dnsHost{id: nextID, name: baseNames[c.Intn(len(baseNames))], addrs: randAddrs()}
		nextID++
		on := c.Chance(0.85)
		v := nebula.VerifNewDNS(self.id, self.name, self.addrs, on, on || c.Chance(0.5))
		// note: enabled = serve_dns && am_lighthouse; the second argument is only true together with the first
		var hosts []dnsHost
		var pool []dnsHost // hosts that may reconnect
		selfs := []dnsHost{self}
		d0 := v.Dump()
		init := fmt.Sprintf("%s %d %s %s %s", hx.Bool(on), self.id, dnsName(self.name), dnsAddrsLit(self.addrs), dnsDumpLit(d0))
		prevDump := fmt.Sprintf("(%s, %s, %s)", dnsMapLit(d0.M4), dnsMapLit(d0.M6), dnsName(d0.Self))
		var steps []string
		var descs []any
		nq, nans, nnx, ntxt := 0, 0, 0, 0
		n := 8 + c.Intn(25)
		for s := 0; s < n; s++ {
			x := c.Intn(100)
			switch {
			case x < 38 || len(hosts) == 0: // a handshake completes
				var h dnsHost
				if len(pool) > 0 && c.Chance(0.35) { // an earlier peer again (same name; same or new addresses)
					o := pool[c.Intn(len(pool))]
					h = dnsHost{name: o.name, addrs: o.addrs}
					if c.Chance(0.5) {
						h.addrs = randAddrs()
					}
					if c.Chance(0.3) {
						h.name = dnsRecase(c, h.name)
					}
				} else {
					h = dnsHost{name: baseNames[c.Intn(len(baseNames))], addrs: randAddrs()}
					if c.Chance(0.3) {
						h.name = fmt.Sprintf("%s%d", h.name, c.Intn(3))
					}
				}
				full := false
				for _, a := range h.addrs {
					if used[a] >= 4 { // stay below MaxHostInfosPerVpnIp tunnels per address (eviction is not modelled)
						full = true
					}
				}
				if full {
					continue
				}
				for _, a := range h.addrs {
					used[a]++
				}
				h.id = nextID
				nextID++
				v.AddHost(h.id, h.name, h.addrs)
				hosts = append(hosts, h)
				pool = append(pool, h)
				steps = append(steps, fmt.Sprintf("(mkDstp (SOp (DAdd %d %s %s)) %s)", h.id, dnsName(h.name), dnsAddrsLit(h.addrs), dnsDumpOpt(&prevDump, v.Dump())))
				descs = append(descs, map[string]any{"op": "add", "id": h.id, "name": h.name, "addrs": fmt.Sprint(h.addrs)})
			case x < 46: // config reload
				on = !on
				if c.Chance(0.3) {
					on = !on
				}
				if err := v.Reload(on, on || c.Chance(0.3)); err != nil {
					panic(err)
				}
				steps = append(steps, fmt.Sprintf("(mkDstp (SOp (DReload %s)) %s)", hx.Bool(on), dnsDumpOpt(&prevDump, v.Dump())))
				descs = append(descs, map[string]any{"op": "reload", "enabled": on})
			case x < 52: // my certificate is replaced
				ns := dnsHost{id: nextID, name: self.name, addrs: self.addrs}
				nextID++
				if c.Chance(0.6) {
					ns.name = baseNames[c.Intn(len(baseNames))]
				}
				if c.Chance(0.5) {
					ns.addrs = randAddrs()
				}
				self = ns
				selfs = append(selfs, ns)
				v.NewSelfCert(ns.id, ns.name, ns.addrs)
				steps = append(steps, fmt.Sprintf("(mkDstp (SOp (DCert %d %s %s)) %s)", ns.id, dnsName(ns.name), dnsAddrsLit(ns.addrs), dnsDumpOpt(&prevDump, v.Dump())))
				descs = append(descs, map[string]any{"op": "cert", "id": ns.id, "name": ns.name, "addrs": fmt.Sprint(ns.addrs)})
			default: // a query
				var client netip.Addr
				odd := ""
				switch c.Intn(9) {
				case 0:
					client = netip.MustParseAddr("127.0.0.1")
				case 1:
					client = netip.AddrFrom4([4]byte{127, byte(c.Intn(256)), byte(c.Intn(256)), byte(c.Intn(256))})
				case 2:
					client = netip.MustParseAddr("::1")
				case 3, 4:
					client = self.addrs[c.Intn(len(self.addrs))]
				case 5:
					h := hosts[c.Intn(len(hosts))]
					client = h.addrs[c.Intn(len(h.addrs))]
				case 6:
					client = netip.AddrFrom4([4]byte{byte(1 + c.Intn(126)), 8, 8, 8})
				case 7:
					client = netip.MustParseAddr("2001:db8::53")
				default:
					odds := []string{"@", "", "localhost", "127.0.0.1", "pipe"}
					odd = odds[c.Intn(len(odds))]
					if odd == "" {
						odd = "x:y:z"
					}
				}
				nqs := 1
				if c.Chance(0.3) {
					nqs = 2 + c.Intn(2)
				}
				if c.Chance(0.03) {
					nqs = 0
				}
				var qs []nebula.VerifDNSQuestion
				for k := 0; k < nqs; k++ {
					qt := qtypes[c.Intn(len(qtypes))]
					if c.Chance(0.6) {
						qt = qtypes[c.Intn(3)]
					}
					var nm string
					if qt == nebula.VerifDNSTypeTXT && c.Chance(0.8) {
						switch c.Intn(5) {
						case 0, 1:
							h := hosts[c.Intn(len(hosts))]
							nm = h.addrs[c.Intn(len(h.addrs))].String() + "."
						case 2:
							nm = self.addrs[c.Intn(len(self.addrs))].String() + "."
						case 3:
							nm = "10.1.9.9."
						default:
							h := hosts[c.Intn(len(hosts))]
							nm = h.addrs[0].String() // no trailing dot: the last digit is cut off
						}
					} else {
						switch y := c.Intn(10); {
						case y < 5:
							nm = hosts[c.Intn(len(hosts))].name + "."
						case y < 6:
							nm = self.name + "."
						case y < 7:
							nm = selfs[c.Intn(len(selfs))].name + "."
						case y < 8:
							nm = hosts[c.Intn(len(hosts))].name // not fully qualified
						default:
							nm = "unknown" + fmt.Sprint(c.Intn(3)) + ".example."
						}
						if c.Chance(0.4) {
							nm = dnsRecase(c, nm)
						}
					}
					qs = append(qs, nebula.VerifDNSQuestion{Name: nm, Qtype: qt})
				}
				twin := make([]nebula.VerifDNSQuestion, len(qs))
				for k, q := range qs {
					twin[k] = nebula.VerifDNSQuestion{Name: dnsRecase(c, q.Name), Qtype: q.Qtype}
				}
				via := c.Chance(0.3)
				opcode := 0
				if via && c.Chance(0.15) {
					opcode = 1 + c.Intn(5)
				}
				cp := netip.AddrPortFrom(client, uint16(1024+c.Intn(60000)))
				rc, ans, oddr := v.Query(cp, odd, qs, via, opcode)
				trc, tans, toddr := v.Query(cp, odd, twin, via, opcode)
				if oddr || toddr {
					rc, trc = 99, 99
				}
				cl := "None"
				if odd == "" {
					cl = fmt.Sprintf("(Some %s)", dnsAddrLit(client))
				}
				qlits := make([]string, len(qs))
				tlits := make([]string, len(qs))
				for k, q := range qs {
					ip := "None"
					if a, ok := nebula.VerifDNSTxtIP(q.Name); ok && a.Zone() == "" {
						ip = fmt.Sprintf("(Some %s)", dnsAddrLit(a))
					}
					qlits[k] = fmt.Sprintf("(%d, %s, %s)", q.Qtype, dnsName(q.Name), ip)
					tlits[k] = dnsName(twin[k].Name)
				}
				steps = append(steps, fmt.Sprintf("(mkDstp (SQuery %s %s %d %s %s %d %s %d %s) %s)", cl, hx.Bool(via), opcode, hx.List(qlits), hx.List(tlits),
					rc, dnsAnswersLit(ans), trc, dnsAnswersLit(tans), dnsDumpOpt(&prevDump, v.Dump())))
				qd := make([]string, len(qs))
				for k, q := range qs {
					qd[k] = fmt.Sprintf("%d %s", q.Qtype, q.Name)
				}
				descs = append(descs, map[string]any{"op": "query", "client": client.String() + odd, "via_handler": via, "opcode": opcode,
					"questions": qd, "rcode": rc, "answers": strings.ReplaceAll(fmt.Sprint(ans), "{", "(")})
				nq++
				nans += len(ans)
				if rc == nebula.VerifDNSNXDomain {
					nnx++
				}
				for _, a := range ans {
					if a.Rtype == nebula.VerifDNSTypeTXT {
						ntxt++
					}
				}
			}
		}
		kind := "history"
		if ntxt > 0 {
			kind = "history-with-cert-answers"
		}
		cw.Add(fmt.Sprintf("(CDns %s %s)", init, hx.List(steps)), kind, nq >= 2 && nans >= 1,
			map[string]any{"self": self.name, "enabled_initially": init[:5], "steps": descs})
	}
	cw.Close("random histories on one real dnsServer + HostMap: completed handshakes through unlockedAddHostInfo (new and returning peers, v4/v6/multi-address, " +
		"names colliding up to case and with the node's own name), config reloads toggling the responder, certificate replacement, and queries through parseQuery " +
		"(1-3 questions) or handleDnsRequest: A/AAAA/TXT/MX/ANY/other types, known/unknown/re-cased/unqualified names, from loopback v4/v6, own overlay, other overlay, " +
		"outside and unparsable client addresses; every query is repeated with its names re-cased; dnsMap4/dnsMap6/selfHost are compared after every operation; " +
		"non-trivial = at least two queries and one answer record")
}

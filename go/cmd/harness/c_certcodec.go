//go:build comp_all || comp_certcodec || comp_certtamper

package main

// certcodec (C03): TBSCertificate.SignWith over generated TBS certificates (both versions, both curves, CA and host),
// every encoding of what it issues decoded again by the real decoders, and the real decoders on mutated valid
// encodings and on grammar-based junk. Shared with c_certtamper.go (C02): literals, observation, key material.

import (
	"crypto/ecdsa"
	"crypto/ed25519"
	"crypto/elliptic"
	"crypto/sha256"
	"encoding/hex"
	"encoding/pem"
	"fmt"
	"math/big"
	"net/netip"
	"strings"
	"time"

	"github.com/slackhq/nebula/cert"
	"github.com/slackhq/nebula/cert/p256"
	"verifharness/hx"
)

func init() {
	hx.Register("certcodec", runCertCodec)
}

// ---- literals -----------------------------------------------------------------------------------

type ccFields struct {
	name     []byte
	nets     []netip.Prefix
	unsafe   []netip.Prefix
	groups   [][]byte
	isCA     bool
	nb, na   int64
	issuer   []byte
	curve    uint32
	pub, sig []byte
}

// ccB renders a byte string compactly: up to 7 bytes per primitive-integer literal below a marker bit (see
// CertCodec_corr.bs); short strings stay plain lists.
func ccB(b []byte) string {
	if len(b) < 6 {
		return hx.Bytes(b)
	}
	var sb strings.Builder
	sb.WriteString("(bs [")
	for i := 0; i < len(b); i += 7 {
		j := i + 7
		if j > len(b) {
			j = len(b)
		}
		if i > 0 {
			sb.WriteString("; ")
		}
		sb.WriteString("0x1")
		sb.WriteString(hex.EncodeToString(b[i:j]))
	}
	sb.WriteString("]%uint63)")
	return sb.String()
}

func ccPfxLit(p netip.Prefix) string {
	if !p.IsValid() || !p.Addr().IsValid() {
		return "(true, 0, 33)" // an invalid prefix: the model only needs "not valid"
	}
	a := new(big.Int).SetBytes(p.Addr().AsSlice())
	return fmt.Sprintf("(%s, %s, %d)", hx.Bool(p.Addr().Is4()), a.String(), p.Bits())
}

func ccPfxList(ps []netip.Prefix) string {
	s := make([]string, len(ps))
	for i, p := range ps {
		s[i] = ccPfxLit(p)
	}
	return hx.List(s)
}

func ccBytesList(bs [][]byte) string {
	s := make([]string, len(bs))
	for i, b := range bs {
		s[i] = ccB(b)
	}
	return hx.List(s)
}

func ccCertLit(f ccFields) string {
	return hx.App("mkCert", ccB(f.name), ccPfxList(f.nets), ccPfxList(f.unsafe), ccBytesList(f.groups), hx.Bool(f.isCA),
		hx.Z(f.nb), hx.Z(f.na), ccB(f.issuer), hx.N(uint64(f.curve)), ccB(f.pub), ccB(f.sig))
}

func ccObserve(c cert.Certificate) ccFields {
	f := ccFields{name: []byte(c.Name()), nets: c.Networks(), unsafe: c.UnsafeNetworks(), isCA: c.IsCA(),
		nb: c.NotBefore().Unix(), na: c.NotAfter().Unix(), curve: uint32(int32(c.Curve())), pub: c.PublicKey(), sig: c.Signature()}
	for _, g := range c.Groups() {
		f.groups = append(f.groups, []byte(g))
	}
	iss, err := hex.DecodeString(c.Issuer())
	if err != nil {
		iss = []byte("!nothex!" + c.Issuer())
	}
	f.issuer = iss
	return f
}

func ccAnyLit(c cert.Certificate) string {
	f := ccCertLit(ccObserve(c))
	if c.Version() == cert.Version2 {
		return hx.App("V2", hx.App("mkCert2", f, ccB(cert.VerifCodecRawDetails(c))))
	}
	return hx.App("V1", f)
}

func ccFp(c cert.Certificate) string {
	fp, err := c.Fingerprint()
	if err != nil {
		return "error:" + err.Error()
	}
	return fp
}

// ---- key material -------------------------------------------------------------------------------

type ccSigner struct {
	curve cert.Curve
	edKey ed25519.PrivateKey
	ecKey *ecdsa.PrivateKey
	pub   []byte
}

type ccRandReader struct{ c *hx.Ctx }

func (r ccRandReader) Read(p []byte) (int, error) {
	copy(p, r.c.RandBytes(len(p)))
	return len(p), nil
}

func ccNewSigner(c *hx.Ctx, curve cert.Curve) *ccSigner {
	s := &ccSigner{curve: curve}
	if curve == cert.Curve_P256 {
		k, err := ecdsa.GenerateKey(elliptic.P256(), ccRandReader{c})
		if err != nil {
			panic(err)
		}
		s.ecKey = k
		s.pub = elliptic.Marshal(elliptic.P256(), k.X, k.Y)
	} else {
		s.edKey = ed25519.NewKeyFromSeed(c.RandBytes(32))
		s.pub = []byte(s.edKey.Public().(ed25519.PublicKey))
	}
	return s
}

// lambda returns a SignerLambda that records the bytes it was asked to sign.
func (s *ccSigner) lambda(c *hx.Ctx, seen *[]byte) cert.SignerLambda {
	return func(b []byte) ([]byte, error) {
		*seen = append([]byte{}, b...)
		if s.curve == cert.Curve_P256 {
			h := sha256.Sum256(b)
			return ecdsa.SignASN1(ccRandReader{c}, s.ecKey, h[:])
		}
		return ed25519.Sign(s.edKey, b), nil
	}
}

// ccFakeSigner is a real CA certificate whose Fingerprint() is overridden: SignWith copies that string into the issuer
// field, so issuers of any length reach the encoders through the unmodified SignWith.
type ccFakeSigner struct {
	cert.Certificate
	fp string
}

func (f ccFakeSigner) Fingerprint() (string, error) { return f.fp, nil }

type ccCA struct {
	signer *ccSigner
	crt    cert.Certificate
	fp     []byte
}

const ccCAFrom, ccCATo = -(int64(1) << 40), int64(1) << 40

func ccNewCA(c *hx.Ctx, v cert.Version, curve cert.Curve) *ccCA {
	s := ccNewSigner(c, curve)
	t := &cert.TBSCertificate{Version: v, Name: "ca", IsCA: true, NotBefore: time.Unix(ccCAFrom, 0), NotAfter: time.Unix(ccCATo, 0),
		PublicKey: s.pub, Curve: curve}
	var seen []byte
	crt, err := t.SignWith(nil, curve, s.lambda(c, &seen))
	if err != nil {
		panic(err)
	}
	fp, _ := hex.DecodeString(ccFp(crt))
	return &ccCA{signer: s, crt: crt, fp: fp}
}

// ---- generators ---------------------------------------------------------------------------------

// ccName: pBad = probability of a name that some signer refuses (empty, > 253 bytes) or that is not UTF-8
func ccName(c *hx.Ctx, pBad float64) []byte {
	var l int
	switch c.Intn(10) {
	case 0:
		l = 1
	case 1:
		l = 253
	case 2:
		l = 200 + c.Intn(54)
	case 3:
		l = 120 + c.Intn(20) // around the 127/128 DER length boundary
	default:
		l = 1 + c.Intn(24)
	}
	if c.Chance(pBad) {
		l = []int{0, 254, 255, 256 + c.Intn(60)}[c.Intn(4)]
	}
	return ccText(c, l, pBad)
}

// ccText: l bytes; ASCII, multi-byte UTF-8, or (with probability pBad) bytes that are usually not UTF-8
func ccText(c *hx.Ctx, l int, pBad float64) []byte {
	k := 3 + c.Intn(3)
	if c.Chance(pBad) {
		k = c.Intn(3)
		if k == 1 {
			k = 2
		}
	} else if c.Chance(0.3) {
		k = 1
	}
	switch k {
	case 0: // arbitrary bytes
		return c.RandBytes(l)
	case 1: // UTF-8 with multi-byte runes, cut to l bytes at a rune boundary where possible
		var sb strings.Builder
		runes := []rune{'a', 'é', 'ß', '世', '界', '𝄞', '߿', 'ࠀ', '�', '\U0010ffff', 'z'}
		for sb.Len() < l {
			r := runes[c.Intn(len(runes))]
			if sb.Len()+len(string(r)) > l {
				sb.WriteByte('x')
			} else {
				sb.WriteRune(r)
			}
		}
		return []byte(sb.String())
	case 2: // UTF-8 edge sequences, valid and invalid: surrogates, overlongs, 0xf4 0x90, truncated tails
		edges := [][]byte{{0xed, 0xa0, 0x80}, {0xc0, 0x80}, {0xe0, 0x80, 0x80}, {0xf0, 0x80, 0x80, 0x80}, {0xf4, 0x90, 0x80, 0x80},
			{0xed, 0x9f, 0xbf}, {0xee, 0x80, 0x80}, {0xf4, 0x8f, 0xbf, 0xbf}, {0xc2}, {0xe1, 0x80}, {0xf1, 0x80, 0x80}, {0x80}, {0xff},
			{0xc2, 0x80}, {0xdf, 0xbf}, {0xe0, 0xa0, 0x80}, {0xef, 0xbf, 0xbf}, {0xf0, 0x90, 0x80, 0x80}, {0x7f}, {0x00}}
		var b []byte
		for len(b) < l {
			b = append(b, edges[c.Intn(len(edges))]...)
		}
		return b[:l]
	default:
		b := make([]byte, l)
		for i := range b {
			b[i] = "abcdefghijklmnopqrstuvwxyz0123456789-."[c.Intn(38)]
		}
		return b
	}
}

// ccAnom: set per certificate; when false the address generators avoid the values every signer refuses
var ccAnom = true

func ccAddr4(c *hx.Ctx) netip.Addr {
	k := c.Intn(40)
	if !ccAnom && k == 0 {
		k = 3
	}
	switch k {
	case 0:
		return netip.AddrFrom4([4]byte{})
	case 1, 2:
		return netip.AddrFrom4([4]byte{255, 255, 255, 255})
	case 3, 4, 5, 6, 7, 8:
		return netip.AddrFrom4([4]byte{10, 0, 0, byte(1 + c.Intn(4))})
	case 9:
		return netip.AddrFrom4([4]byte{0, 0, 0, byte(1 + c.Intn(3))})
	}
	var a [4]byte
	copy(a[:], c.RandBytes(4))
	return netip.AddrFrom4(a)
}

func ccAddr6(c *hx.Ctx) netip.Addr {
	var a [16]byte
	k := c.Intn(40)
	if !ccAnom && k < 2 {
		k = 2
	}
	switch k {
	case 0: // unspecified
	case 1: // 4in6
		a[10], a[11] = 0xff, 0xff
		copy(a[12:], c.RandBytes(4))
	case 2, 3, 4, 5, 6, 7:
		a[0], a[1], a[15] = 0xfd, 0x00, byte(1+c.Intn(4))
	case 8:
		for i := range a {
			a[i] = 0xff
		}
	case 9: // one below / above the 4in6 block
		a[10], a[11] = 0xff, byte(0xfe+c.Intn(2))
		a[9] = byte(c.Intn(2))
		copy(a[12:], c.RandBytes(4))
	default:
		copy(a[:], c.RandBytes(16))
	}
	return netip.AddrFrom16(a)
}

func ccPrefix(c *hx.Ctx, p6 float64) netip.Prefix {
	if ccAnom && c.Chance(0.01) {
		return netip.Prefix{}
	}
	if c.Chance(p6) {
		a := ccAddr6(c)
		bits := c.Intn(129)
		if c.Chance(0.3) {
			bits = []int{0, 1, 64, 96, 127, 128}[c.Intn(6)]
		}
		return netip.PrefixFrom(a, bits)
	}
	a := ccAddr4(c)
	bits := c.Intn(33)
	if c.Chance(0.3) {
		bits = []int{0, 1, 8, 24, 31, 32}[c.Intn(6)]
	}
	return netip.PrefixFrom(a, bits)
}

func ccPrefixes(c *hx.Ctx, p6 float64, allowEmpty bool) []netip.Prefix {
	var n int
	switch c.Intn(10) {
	case 0:
		n = 0
	case 1:
		n = 8 + c.Intn(33) // dozens
	default:
		n = 1 + c.Intn(3)
	}
	if n == 0 && !allowEmpty && c.Chance(0.8) {
		n = 1
	}
	var ps []netip.Prefix
	for i := 0; i < n; i++ {
		if len(ps) > 0 && ccAnom && c.Chance(0.03) {
			ps = append(ps, ps[c.Intn(len(ps))]) // duplicate
			continue
		}
		if len(ps) > 0 && c.Chance(0.1) { // same address, other length
			q := ps[c.Intn(len(ps))]
			if q.IsValid() {
				ps = append(ps, netip.PrefixFrom(q.Addr(), c.Intn(q.Addr().BitLen()+1)))
				continue
			}
		}
		ps = append(ps, ccPrefix(c, p6))
	}
	return ps
}

func ccGroups(c *hx.Ctx, pBad float64) [][]byte {
	var n int
	switch c.Intn(8) {
	case 0, 1:
		n = 0
	case 2:
		n = 5 + c.Intn(10)
	default:
		n = 1 + c.Intn(3)
	}
	var gs [][]byte
	for i := 0; i < n; i++ {
		l := 1 + c.Intn(12)
		switch c.Intn(25) {
		case 1:
			l = 254 + c.Intn(100)
		case 2:
			l = 126 + c.Intn(4)
		}
		if c.Chance(pBad / 2) {
			l = 0
		}
		gs = append(gs, ccText(c, l, pBad/2))
	}
	return gs
}

func ccSeconds(c *hx.Ctx, wide bool) int64 {
	if !wide {
		edges := []int64{0, 1, -1, 127, 128, -128, -129, 255, 256, 32767, 32768, -32768, -32769, 1 << 31, 1<<32 - 1, 1 << 32, 1700000000, 1893456000,
			1<<39 - 1, 1 << 39, -(1 << 39), -(1 << 39) - 1, ccCAFrom, ccCATo}
		if c.Chance(0.5) {
			return edges[c.Intn(len(edges))]
		}
		v := int64(c.U64()>>24) - (1 << 39)
		return v
	}
	switch c.Intn(6) {
	case 0:
		return int64(c.EdgeU64(64))
	case 1:
		k := uint(8 * (1 + c.Intn(8)))
		base := int64(1) << (k - 1)
		return []int64{base - 1, base, -base, -base - 1}[c.Intn(4)] // wraps for k = 64: still an int64
	default:
		return ccSeconds(c, false)
	}
}

func ccPub(c *hx.Ctx, curve cert.Curve) []byte {
	switch c.Intn(40) {
	case 0:
		return nil
	case 1, 2, 3:
		return c.RandBytes(1 + c.Intn(140))
	}
	if curve == cert.Curve_P256 {
		b := c.RandBytes(65)
		b[0] = 4
		return b
	}
	return c.RandBytes(32)
}

// ---- the component ------------------------------------------------------------------------------

type ccIssued struct {
	crt   cert.Certificate
	std   []byte
	hs    []byte
	curve cert.Curve
}

type ccCtx struct {
	c        *hx.Ctx
	cw       *hx.CaseWriter
	cas      map[[2]int]*ccCA // (version, curve)
	pool     []ccIssued
	failures []map[string]any
	stats    map[string]int
}

func (x *ccCtx) fail(kind string, code int, extra string) {
	x.failures = append(x.failures, map[string]any{"i": x.cw.Total(), "code": code, "what": kind, "detail": extra})
	x.stats["FAIL-"+kind]++
}

func ccSameCert(a, b cert.Certificate) bool {
	return ccAnyLit(a) == ccAnyLit(b)
}

// signCase: one TBS through SignWith (or the issuer-overriding tail of it) and, when accepted, every round trip.
func (x *ccCtx) signCase(oversize bool, sizeDelta int) {
	c := x.c
	ver := cert.Version(1 + c.Intn(2))
	if c.Chance(0.02) {
		ver = cert.Version(c.Intn(4))
	}
	curve := cert.Curve(c.Intn(2))
	isCA := c.Chance(0.3)
	ccAnom = c.Chance(0.12)
	defer func() { ccAnom = true }()
	p6 := []float64{0, 1, 0.5}[c.Intn(3)]
	if ver == cert.Version1 {
		p6 = 0
		if ccAnom && c.Chance(0.3) {
			p6 = 0.1
		}
	}
	// v1 refuses non-UTF-8 (protobuf strings), v2 takes any bytes: keep both mostly on the accepting side
	pBadName, pBadText := 0.05, 0.03
	t := &cert.TBSCertificate{Version: ver, Networks: ccPrefixes(c, p6, isCA), UnsafeNetworks: nil,
		IsCA: isCA, PublicKey: ccPub(c, curve), Curve: curve}
	nm := ccName(c, pBadName)
	if ver == cert.Version2 && len(nm) > 0 && len(nm) <= 253 && c.Chance(0.25) {
		nm = c.RandBytes(len(nm)) // arbitrary bytes are fine for v2
	}
	t.Name = string(nm)
	if c.Chance(0.5) {
		has4, has6 := false, false
		for _, p := range t.Networks {
			if p.IsValid() {
				has4 = has4 || p.Addr().Is4()
				has6 = has6 || p.Addr().Is6()
			}
		}
		up6 := p6
		if !isCA && c.Chance(0.95) { // a host needs an address of the family of each unsafe network
			switch {
			case has4 && !has6:
				up6 = 0
			case has6 && !has4:
				up6 = 1
			}
		}
		t.UnsafeNetworks = ccPrefixes(c, up6, true)
	}
	for _, g := range ccGroups(c, pBadText) {
		if ver == cert.Version2 && len(g) > 0 && c.Chance(0.15) {
			g = c.RandBytes(len(g))
		}
		t.Groups = append(t.Groups, string(g))
	}
	if oversize {
		ver = cert.Version2
		t.Version = ver
		t.Name = "oversize"
		t.Networks = []netip.Prefix{netip.MustParsePrefix("10.1.2.3/24")}
		t.UnsafeNetworks = nil
		t.Groups = []string{strings.Repeat("g", int(cert.MaxCertificateSize)+sizeDelta)}
		if len(t.PublicKey) == 0 {
			t.PublicKey = c.RandBytes(32)
		}
	}
	// how it is signed: 0 = SignWith self-signed, 1 = SignWith by a CA, 2 = SignWith by a CA whose Fingerprint()
	// returns a string of the harness' choosing (issuer lengths other than 32 bytes)
	how := 0
	if !isCA {
		how = 1
		if c.Chance(0.3) {
			how = 2
		}
	}
	if c.Chance(0.03) {
		how = c.Intn(2) // may contradict the CA flag: SignWith refuses
	}
	if oversize {
		how, curve = 1, cert.Curve_CURVE25519 // 64-byte signatures: the encoded length does not depend on the signature
		t.Curve = curve
		isCA = false
		t.IsCA = false
		t.PublicKey = c.RandBytes(32)
	}
	wide := how == 0
	nb, na := ccSeconds(c, wide), ccSeconds(c, wide)
	if oversize {
		nb, na = 1700000000, 1800000000
	}
	if how != 0 {
		if nb < ccCAFrom {
			nb = ccCAFrom
		}
		if na > ccCATo {
			na = ccCATo
		}
	}
	t.NotBefore, t.NotAfter = time.Unix(nb, 0), time.Unix(na, 0)

	var issuer []byte
	var signer *ccCA
	var key *ccSigner
	switch how {
	case 0:
		key = ccNewSigner(c, curve)
		if isCA && len(t.PublicKey) > 0 && c.Chance(0.8) {
			t.PublicKey = key.pub
		}
	case 1:
		signer = x.cas[[2]int{1 + c.Intn(2), int(curve)}]
		key = signer.signer
		issuer = signer.fp
	case 2:
		signer = x.cas[[2]int{1 + c.Intn(2), int(curve)}]
		key = signer.signer
		switch c.Intn(5) {
		case 0:
			issuer = nil
		case 1, 2:
			issuer = c.RandBytes(1 + c.Intn(70))
		case 3:
			issuer = c.RandBytes(126 + c.Intn(4))
		default:
			issuer = c.RandBytes(33)
		}
	}

	// the TBS as the model sees it, captured BEFORE signing (validate sorts the caller's slices in place)
	tf := ccFields{name: []byte(t.Name), nets: append([]netip.Prefix{}, t.Networks...), unsafe: append([]netip.Prefix{}, t.UnsafeNetworks...),
		isCA: t.IsCA, nb: nb, na: na, issuer: issuer, curve: uint32(curve), pub: t.PublicKey}
	for _, g := range t.Groups {
		tf.groups = append(tf.groups, []byte(g))
	}
	tbsLit := ccCertLit(tf)

	var seen []byte
	var crt cert.Certificate
	var err error
	panicked := ""
	func() {
		defer func() {
			if r := recover(); r != nil {
				panicked = fmt.Sprint(r)
			}
		}()
		switch how {
		case 0:
			crt, err = t.SignWith(nil, curve, key.lambda(c, &seen))
		case 1:
			crt, err = t.SignWith(signer.crt, curve, key.lambda(c, &seen))
		case 2:
			crt, err = t.SignWith(ccFakeSigner{signer.crt, hex.EncodeToString(issuer)}, curve, key.lambda(c, &seen))
		}
	}()
	kind := fmt.Sprintf("sign-v%d", ver)
	if oversize {
		kind = "sign-oversize"
	}
	desc := map[string]any{"op": "sign", "version": int(ver), "curve": int(curve), "how": how, "name": hx.Ints([]byte(t.Name)), "name_len": len(t.Name),
		"networks": len(tf.nets), "unsafe": len(tf.unsafe), "groups": len(tf.groups), "isCA": isCA, "nb": nb, "na": na, "issuer_len": len(issuer), "pub_len": len(t.PublicKey)}
	if oversize {
		desc["oversize"] = true
	}
	if panicked != "" {
		x.fail("sign-panic", 2, panicked)
		x.cw.Add(hx.App("CSign", hx.N(uint64(ver)), tbsLit, hx.None()), kind+"-panic", false, desc)
		return
	}
	refusedBySignWithGuards := false
	if err != nil && (ver != cert.Version1 && ver != cert.Version2 || how == 0 && !isCA || how != 0 && isCA) {
		refusedBySignWithGuards = true // guards outside the codec model (C04): not a case for the model
	}
	if refusedBySignWithGuards {
		x.stats["sign-guard-refusal"]++
		return
	}
	if err != nil {
		desc["accepted"] = false
		desc["error"] = err.Error()
		if oversize {
			// the length the certificate would have had: the same TBS through a copy of SignWith's tail without its guards
			var dummy []byte
			wb, werr := cert.VerifCodecIssue(t, hex.EncodeToString(issuer), key.lambda(c, &dummy))
			wl := 0
			if werr == nil {
				m, _ := wb.Marshal()
				wl = len(m)
			}
			desc["would_be_len"] = wl
			x.cw.Add(hx.App("COversize", hx.Bool(false), hx.N(uint64(wl)), hx.Bool(false)), kind+"-refused", wl > 0, desc)
			return
		}
		x.cw.Add(hx.App("CSign", hx.N(uint64(ver)), tbsLit, hx.None()), kind+"-refused", false, desc)
		return
	}
	desc["accepted"] = true
	std, e1 := crt.Marshal()
	hs, e2 := crt.MarshalForHandshakes()
	failed := 0
	if e1 != nil || e2 != nil {
		failed |= 1 | 2 | 4
	}
	var pre []byte
	if ver == cert.Version2 {
		pre = append(append(append(append([]byte{}, cert.VerifCodecRawDetails(crt)...), byte(crt.Curve())), crt.PublicKey()...), crt.Signature()...)
	} else {
		pre = std
	}
	sum := sha256.Sum256(pre)
	fp := ccFp(crt)
	if hex.EncodeToString(sum[:]) != fp {
		failed |= 16
	}
	func() {
		defer func() {
			if r := recover(); r != nil {
				x.fail("decode-panic", 2, fmt.Sprint(r))
				failed |= 1 | 2 | 4
			}
		}()
		// 1: the standard encoding through the version's decoder
		var d cert.Certificate
		var err error
		if ver == cert.Version2 {
			d, err = cert.VerifCodecUnmarshalV2(std, nil, cert.Curve_CURVE25519)
		} else {
			d, err = cert.VerifCodecUnmarshalV1(std, nil)
		}
		if err != nil || !ccSameCert(d, crt) {
			failed |= 1
		} else if ccFp(d) != fp {
			failed |= 8
		}
		// 2: PEM
		pm, err := crt.MarshalPEM()
		if err != nil {
			failed |= 2
		} else {
			d, rest, err := cert.UnmarshalCertificateFromPEM(pm)
			if err != nil || len(rest) != 0 || !ccSameCert(d, crt) {
				failed |= 2
			} else if ccFp(d) != fp {
				failed |= 8
			}
			// the PEM body is Marshal() under the version's banner
			blk, _ := pem.Decode(pm)
			want := cert.CertificateBanner
			if ver == cert.Version2 {
				want = cert.CertificateV2Banner
			}
			if blk == nil || blk.Type != want || string(blk.Bytes) != string(std) {
				failed |= 2
			}
		}
		// 4: handshake form recombined with the key
		d, err = cert.Recombine(ver, hs, crt.PublicKey(), crt.Curve())
		if err != nil || !ccSameCert(d, crt) {
			failed |= 4
		} else if ccFp(d) != fp {
			failed |= 8
		}
	}()
	desc["failed_roundtrips"] = failed
	desc["encoded_len"] = len(std)
	if oversize {
		x.cw.Add(hx.App("COversize", hx.Bool(true), hx.N(uint64(len(std))), hx.Bool(failed == 0)), kind+"-accepted", true, desc)
		return
	}
	lit := hx.App("CSign", hx.N(uint64(ver)), tbsLit, hx.Some(hx.App("mkIssued", ccAnyLit(crt), ccB(std), ccB(hs), ccB(seen), ccB(pre), hx.N(uint64(failed)))))
	x.cw.Add(lit, kind+"-accepted", true, desc)
	if !oversize && len(std) < 1500 {
		x.pool = append(x.pool, ccIssued{crt: crt, std: std, hs: hs, curve: curve})
	}
}

// ---- malformed input ----------------------------------------------------------------------------

func ccMutate(c *hx.Ctx, b []byte) ([]byte, string) {
	b = append([]byte{}, b...)
	n := 1
	if c.Chance(0.2) {
		n = 2 + c.Intn(3)
	}
	label := ""
	for k := 0; k < n; k++ {
		if len(b) == 0 {
			b = c.RandBytes(1 + c.Intn(4))
			label = "fill"
			continue
		}
		i := c.Intn(len(b))
		// positions near the front carry the structure: bias towards them
		if c.Chance(0.4) && len(b) > 12 {
			i = c.Intn(12)
		}
		switch c.Intn(9) {
		case 0:
			b[i] ^= 1 << uint(c.Intn(8))
			label = "bitflip"
		case 1:
			b[i] = byte(c.Intn(256))
			label = "byteset"
		case 2:
			b = append(b[:i], append([]byte{byte(c.Intn(256))}, b[i:]...)...)
			label = "insert"
		case 3:
			b = append(b[:i], b[i+1:]...)
			label = "delete"
		case 4:
			b = b[:i]
			label = "truncate"
		case 5:
			b = append(b, c.RandBytes(1+c.Intn(6))...)
			label = "extend"
		case 6:
			b[i] += byte(1 + c.Intn(3))
			label = "increment"
		case 7:
			j := i + c.Intn(len(b)-i)
			b = append(b[:j], append(append([]byte{}, b[i:j]...), b[j:]...)...)
			label = "duplicate"
		case 8:
			b[i] = []byte{0x00, 0x7f, 0x80, 0x81, 0x82, 0x84, 0x85, 0xff, 0xa0, 0x30}[c.Intn(10)]
			label = "edgebyte"
		}
	}
	if n > 1 {
		label = "multi"
	}
	return b, label
}

// DER junk: a v2 certificate assembled from parts. Benign variation (which optional parts are present, unsorted
// networks, non-canonical but accepted forms) is always on; deviations the decoder must refuse or treat specially
// are drawn through odd(), whose probabilities are scaled per certificate.
type ccDer struct {
	c   *hx.Ctx
	p6  float64
	dev float64 // per-certificate scale of every deviation probability: 0 = no deviation at all
}

func (d ccDer) odd(p float64) bool { return d.dev > 0 && d.c.Chance(p*d.dev) }

// ccDevScale: 40% of the generated certificates are clean, the others carry deviations at 0.5x..2x the base rates
// (about twenty sites at 3-5%: mostly zero, one or two deviations per certificate)
func ccDevScale(c *hx.Ctx) float64 {
	if c.Chance(0.4) {
		return 0
	}
	return []float64{0.5, 1, 2}[c.Intn(3)]
}

func (d ccDer) lenBytes(n int) []byte {
	c := d.c
	if d.odd(0.015) {
		switch c.Intn(5) {
		case 0: // non-minimal long form
			return []byte{0x81, byte(n)}
		case 1:
			return []byte{0x82, byte(n >> 8), byte(n)}
		case 2:
			return []byte{0x80}
		case 3:
			return []byte{0x85, 0, 0, 0, byte(n >> 8), byte(n)}
		case 4: // wrong length
			n += c.Intn(5) - 2
			if n < 0 {
				n = 0
			}
		}
	}
	switch {
	case n < 128:
		return []byte{byte(n)}
	case n < 256:
		return []byte{0x81, byte(n)}
	case n < 65536:
		return []byte{0x82, byte(n >> 8), byte(n)}
	default:
		return []byte{0x83, byte(n >> 16), byte(n >> 8), byte(n)}
	}
}

func (d ccDer) tlv(tag byte, content []byte) []byte {
	if d.odd(0.008) {
		tag = []byte{tag ^ 0x20, tag + 1, 0x1f, 0xbf, 0x04, 0x0c}[d.c.Intn(6)]
	}
	return append(append([]byte{tag}, d.lenBytes(len(content))...), content...)
}

func (d ccDer) int64Bytes(v int64) []byte {
	c := d.c
	l := 1
	for i := v; i >= 0x80 || i < -0x80; i >>= 8 {
		l++
	}
	if d.odd(0.04) {
		l += 1 + c.Intn(2) // non-minimal
	}
	if d.odd(0.015) {
		l = 9
	}
	if d.odd(0.015) {
		return nil
	}
	b := make([]byte, l)
	for i := 0; i < l; i++ {
		sh := uint((l - 1 - i) * 8)
		if sh >= 64 {
			if v < 0 {
				b[i] = 0xff
			}
			continue
		}
		b[i] = byte(v >> sh)
	}
	return b
}

func (d ccDer) network() []byte {
	c := d.c
	var b []byte
	if d.odd(0.04) {
		switch c.Intn(4) {
		case 0:
			b = c.RandBytes(c.Intn(20)) // any length 0..19
		case 1:
			b = append(c.RandBytes(4), byte(33+c.Intn(100)))
		case 2:
			b = append(c.RandBytes(16), byte(129+c.Intn(100)))
		case 3:
			b = []byte{byte(c.Intn(3))}
		}
	} else {
		ccAnom = d.odd(0.1)
		p := ccPrefix(c, d.p6)
		ccAnom = true
		b, _ = p.MarshalBinary()
	}
	return d.tlv(0x04, b)
}

func (d ccDer) details() []byte {
	c := d.c
	var body []byte
	parts := [][]byte{}
	if !d.odd(0.03) {
		parts = append(parts, d.tlv(0x80, ccName(c, 0.05*d.dev)))
	}
	isCA := c.Chance(0.35)
	for _, tag := range []byte{0xa1, 0xa2} {
		present := c.Chance(0.6)
		if tag == 0xa1 && !isCA {
			present = !d.odd(0.03) // a host needs a network
		}
		if present {
			var sub []byte
			n := 1 + c.Intn(3)
			if d.odd(0.05) {
				n = 0 // present but empty: accepted for a CA
			}
			for i := 0; i < n; i++ {
				sub = append(sub, d.network()...)
			}
			if d.odd(0.03) {
				sub = append(sub, c.RandBytes(1+c.Intn(3))...)
			}
			parts = append(parts, d.tlv(tag, sub))
		}
	}
	if c.Chance(0.5) {
		var sub []byte
		n := c.Intn(4)
		for i := 0; i < n; i++ {
			g := ccText(c, 1+c.Intn(8), 0.3)
			if d.odd(0.04) {
				g = nil
			}
			tag := byte(0x0c)
			if d.odd(0.04) {
				tag = 0x04
			}
			sub = append(sub, d.tlv(tag, g)...)
		}
		parts = append(parts, d.tlv(0xa3, sub))
	}
	if isCA || d.odd(0.04) {
		v := []byte{0xff}
		if c.Chance(0.15) {
			v = []byte{byte(1 + c.Intn(255))} // any non-zero byte reads as true
		}
		if d.odd(0.06) {
			v = [][]byte{{0}, {0xff, 0xff}, nil}[c.Intn(3)]
		}
		parts = append(parts, d.tlv(0x84, v))
	}
	if !d.odd(0.03) {
		parts = append(parts, d.tlv(0x85, d.int64Bytes(ccSeconds(c, true))))
	}
	if !d.odd(0.03) {
		parts = append(parts, d.tlv(0x86, d.int64Bytes(ccSeconds(c, true))))
	}
	if c.Chance(0.6) {
		l := 32
		if c.Chance(0.2) {
			l = c.Intn(40)
		}
		parts = append(parts, d.tlv(0x87, c.RandBytes(l)))
	}
	if c.Chance(0.1) {
		parts = append(parts, d.tlv(byte(0x88+c.Intn(4)), c.RandBytes(c.Intn(5)))) // a field from the future: ignored
	}
	if d.odd(0.04) && len(parts) > 1 { // swap two neighbours
		i := c.Intn(len(parts) - 1)
		parts[i], parts[i+1] = parts[i+1], parts[i]
	}
	if d.odd(0.03) && len(parts) > 0 { // repeat one
		i := c.Intn(len(parts))
		parts = append(parts[:i+1], parts[i:]...)
	}
	for _, p := range parts {
		body = append(body, p...)
	}
	return d.tlv(0xa0, body)
}

func (d ccDer) certificate(withKey bool, curve byte) []byte {
	c := d.c
	body := d.details()
	if curve != 0 && !d.odd(0.05) || d.odd(0.05) {
		v := []byte{curve}
		if d.odd(0.05) {
			v = []byte{byte(c.Intn(4))}
		}
		if d.odd(0.05) {
			v = c.RandBytes(c.Intn(3))
		}
		body = append(body, d.tlv(0x81, v)...)
	}
	if withKey {
		l := 32
		if c.Chance(0.15) {
			l = 1 + c.Intn(70)
		}
		if d.odd(0.03) {
			l = 0
		}
		body = append(body, d.tlv(0x82, c.RandBytes(l))...)
	}
	if !d.odd(0.03) {
		l := 64
		if c.Chance(0.15) {
			l = 1 + c.Intn(80)
		}
		if d.odd(0.03) {
			l = 0
		}
		body = append(body, d.tlv(0x83, c.RandBytes(l))...)
	}
	if c.Chance(0.1) {
		body = append(body, d.tlv(byte(0x84+c.Intn(3)), c.RandBytes(c.Intn(4)))...) // trailing unknown element: ignored
	}
	out := d.tlv(0x30, body)
	if c.Chance(0.1) {
		out = append(out, c.RandBytes(1+c.Intn(4))...) // bytes after the certificate: ignored
	}
	return out
}

// protobuf junk: a v1 certificate as a field list. Same split between benign variation and odd() deviations.
type ccPb struct {
	c     *hx.Ctx
	dev   float64
	curve uint64 // the curve the decoder will be told to expect
}

func (p ccPb) odd(q float64) bool { return p.dev > 0 && p.c.Chance(q*p.dev) }

func (p ccPb) varint(v uint64) []byte {
	c := p.c
	var b []byte
	for v >= 0x80 {
		b = append(b, byte(v)|0x80)
		v >>= 7
	}
	b = append(b, byte(v))
	if len(b) < 10 && c.Chance(0.01) { // non-minimal but within ten bytes: accepted
		n := 1 + c.Intn(10-len(b))
		b[len(b)-1] |= 0x80
		for i := 0; i < n-1; i++ {
			b = append(b, 0x80)
		}
		b = append(b, 0)
	}
	if p.odd(0.004) { // ten bytes with a large last byte, or eleven bytes
		b = []byte{0xff, 0xff, 0xff, 0xff, 0xff, 0xff, 0xff, 0xff, 0xff, byte(c.Intn(4))}
		if c.Chance(0.3) {
			b[9] = 0x80
			b = append(b, 1)
		}
	}
	return b
}

func (p ccPb) tag(num uint64, wt int) []byte { return p.varint(num<<3 | uint64(wt)) }

func (p ccPb) bytesField(num uint64, v []byte) []byte {
	c := p.c
	l := uint64(len(v))
	if p.odd(0.006) {
		l += uint64(c.Intn(4)) + 1 // overrun
	}
	return append(append(p.tag(num, 2), p.varint(l)...), v...)
}

func (p ccPb) value(wt int) []byte {
	c := p.c
	switch wt {
	case 0:
		return p.varint(c.EdgeU64(64))
	case 1:
		return c.RandBytes(8)
	case 2:
		v := c.RandBytes(c.Intn(6))
		return append(p.varint(uint64(len(v))), v...)
	case 5:
		return c.RandBytes(4)
	}
	return c.RandBytes(c.Intn(3))
}

// unknownField: a field the messages do not have, or a known number with another wire type; both are skipped
// when well formed. Groups nest; ill-formed ones (wire types 4, 6, 7, unmatched group ends, field numbers out of
// range) only under odd().
func (p ccPb) unknownField(depth int) []byte {
	c := p.c
	nums := []uint64{10, 11, 15, 16, 99, 101, 2047, 2048, 1<<29 - 1}
	num := nums[c.Intn(len(nums))]
	if c.Chance(0.5) {
		num = []uint64{1, 2, 3, 4, 5, 6, 7, 8, 9, 100}[c.Intn(10)]
	}
	if p.odd(0.05) {
		num = []uint64{0, 1 << 29, 1<<31 - 1, 1 << 31, 1 << 40}[c.Intn(5)]
	}
	wt := []int{0, 1, 2, 5, 3}[c.Intn(5)]
	if p.odd(0.05) {
		wt = []int{4, 6, 7}[c.Intn(3)]
	}
	// a known number must not meet the wire type its field wants, or it is not unknown any more
	want := map[uint64]int{1: 2, 4: 2, 5: 0, 6: 0, 7: 2, 8: 0, 9: 2, 100: 0}
	if w, ok := want[num]; ok && w == wt {
		wt = 5
	}
	if (num == 2 || num == 3) && (wt == 0 || wt == 2) {
		wt = 1
	}
	b := p.tag(num, wt)
	if wt == 3 {
		if depth < 3 {
			n := c.Intn(3)
			for i := 0; i < n; i++ {
				b = append(b, p.unknownField(depth+1)...)
			}
		}
		end := num
		if p.odd(0.1) {
			end = num + 1
		}
		if !p.odd(0.1) {
			b = append(b, p.tag(end, 4)...)
		}
		return b
	}
	return append(b, p.value(wt)...)
}

func (p ccPb) u32s(num uint64, vals []uint64) []byte {
	c := p.c
	if len(vals) == 0 {
		return nil
	}
	if c.Chance(0.25) { // unpacked: accepted
		var b []byte
		for _, v := range vals {
			b = append(append(b, p.tag(num, 0)...), p.varint(v)...)
		}
		return b
	}
	var body []byte
	for _, v := range vals {
		body = append(body, p.varint(v)...)
	}
	if p.odd(0.03) && len(body) > 0 {
		body = body[:len(body)-1]
		body = append(body, 0x80) // dangling continuation
	}
	return p.bytesField(num, body)
}

func (p ccPb) ipPairs(nonEmpty bool) []uint64 {
	c := p.c
	n := 1 + c.Intn(3)
	if !nonEmpty && c.Chance(0.3) {
		n = 0
	}
	var vals []uint64
	for i := 0; i < n; i++ {
		a := uint64(c.U64() & 0xffffffff)
		if p.odd(0.05) {
			a = uint64(c.EdgeU64(32)) // 0 is refused for a network
		}
		bits := c.Intn(33)
		m := uint64(0xffffffff) << uint(32-bits) & 0xffffffff
		if c.Chance(0.1) {
			m = c.U64() & 0xffffffff // usually not a canonical mask: reads as /0
		}
		if c.Chance(0.05) {
			m |= uint64(c.Intn(4)+1) << 32 // bits above 32: truncated by the decoder
		}
		vals = append(vals, a, m)
	}
	if p.odd(0.03) && len(vals) > 0 {
		vals = vals[:len(vals)-1] // odd count
	}
	return vals
}

func (p ccPb) details(withKey bool) []byte {
	c := p.c
	var fs [][]byte
	if c.Chance(0.9) {
		fs = append(fs, p.bytesField(1, ccName(c, 0.03*p.dev)))
	}
	isCA := c.Chance(0.35)
	if !isCA || c.Chance(0.5) {
		fs = append(fs, p.u32s(2, p.ipPairs(!isCA && !p.odd(0.03))))
	}
	if c.Chance(0.5) {
		fs = append(fs, p.u32s(3, p.ipPairs(false)))
	}
	for _, g := range ccGroups(c, 0.03*p.dev) {
		if len(g) < 40 {
			fs = append(fs, p.bytesField(4, g))
		}
	}
	if c.Chance(0.9) {
		fs = append(fs, append(p.tag(5, 0), p.varint(uint64(ccSeconds(c, true)))...))
	}
	if c.Chance(0.9) {
		fs = append(fs, append(p.tag(6, 0), p.varint(uint64(ccSeconds(c, true)))...))
	}
	if withKey {
		l := 32
		if c.Chance(0.1) {
			l = 1 + c.Intn(70)
		}
		if p.odd(0.03) {
			l = 0
		}
		fs = append(fs, p.bytesField(7, c.RandBytes(l)))
	}
	if isCA || p.odd(0.03) {
		v := uint64(1)
		if c.Chance(0.3) {
			v = c.EdgeU64(64) | 1 // any non-zero varint reads as true
		}
		fs = append(fs, append(p.tag(8, 0), p.varint(v)...))
	}
	if c.Chance(0.6) {
		l := 32
		if c.Chance(0.1) {
			l = c.Intn(70)
		}
		fs = append(fs, p.bytesField(9, c.RandBytes(l)))
	}
	if p.curve != 0 && !p.odd(0.05) || c.Chance(0.1) {
		v := p.curve
		if p.odd(0.05) {
			v = uint64(c.Intn(4))
		}
		if p.odd(0.05) {
			v = c.EdgeU64(64)
		}
		fs = append(fs, append(p.tag(100, 0), p.varint(v)...))
	}
	n := 0
	if c.Chance(0.3) {
		n = 1 + c.Intn(2)
	}
	for i := 0; i < n; i++ {
		fs = append(fs, p.unknownField(0))
	}
	if c.Chance(0.15) { // repeated scalar: last one wins
		fs = append(fs, p.bytesField(1, ccText(c, c.Intn(5), 0.03*p.dev)))
	}
	if c.Chance(0.2) {
		c.Rng.Shuffle(len(fs), func(i, j int) { fs[i], fs[j] = fs[j], fs[i] })
	}
	var b []byte
	for _, f := range fs {
		b = append(b, f...)
	}
	return b
}

func (p ccPb) certificate(withKey bool) []byte {
	c := p.c
	var fs [][]byte
	if !p.odd(0.03) {
		fs = append(fs, p.bytesField(1, p.details(withKey)))
	}
	if c.Chance(0.1) { // a second Details: merged into the first
		q := p
		q.dev = 0
		fs = append(fs, p.bytesField(1, q.details(false)))
	}
	if c.Chance(0.95) {
		l := 64
		if c.Chance(0.15) {
			l = c.Intn(80)
		}
		fs = append(fs, p.bytesField(2, c.RandBytes(l)))
	}
	if c.Chance(0.2) {
		fs = append(fs, p.unknownField(0))
	}
	if c.Chance(0.15) {
		c.Rng.Shuffle(len(fs), func(i, j int) { fs[i], fs[j] = fs[j], fs[i] })
	}
	var b []byte
	for _, f := range fs {
		b = append(b, f...)
	}
	return b
}

func ccOptAny(crt cert.Certificate, err error) string {
	if err != nil || crt == nil {
		return hx.None()
	}
	return hx.Some(ccAnyLit(crt))
}

func ccOptPlain(crt cert.Certificate, err error) string {
	if err != nil || crt == nil {
		return hx.None()
	}
	if crt.Version() == cert.Version2 {
		return hx.Some(hx.App("mkCert2", ccCertLit(ccObserve(crt)), ccB(cert.VerifCodecRawDetails(crt))))
	}
	return hx.Some(ccCertLit(ccObserve(crt)))
}

// decodeCase: one byte string through one of the decoding entry points.
func (x *ccCtx) decodeCase() {
	c := x.c
	var b []byte
	var src string
	devScale := -1.0
	family := 0 // 1 = protobuf, 2 = DER
	var pk []byte
	curve := cert.Curve(c.Intn(2))
	isHs := false
	switch {
	case c.Chance(0.55) && len(x.pool) > 0:
		it := x.pool[c.Intn(len(x.pool))]
		family = int(it.crt.Version())
		curve = it.curve
		base := it.std
		if c.Chance(0.4) {
			base, isHs = it.hs, true
			pk = it.crt.PublicKey()
		}
		if c.Chance(0.12) {
			b, src = append([]byte{}, base...), "valid"
		} else {
			var l string
			b, l = ccMutate(c, base)
			src = "mut-" + l
		}
	case c.Chance(0.5):
		family = 2
		isHs = c.Chance(0.4)
		dv := ccDevScale(c)
		devScale = dv
		b, src = ccDer{c, []float64{0, 1, 0.5}[c.Intn(3)], dv}.certificate(!isHs, byte(curve)), "der-grammar"
		if isHs {
			pk = c.RandBytes(32)
		}
	default:
		family = 1
		isHs = c.Chance(0.4)
		dv := ccDevScale(c)
		devScale = dv
		b, src = ccPb{c, dv, uint64(curve)}.certificate(!isHs), "pb-grammar"
		if isHs {
			pk = c.RandBytes(32)
		}
	}
	if c.Chance(0.02) {
		b, src = c.RandBytes(c.Intn(40)), "random"
	}
	if c.Chance(0.01) {
		b, src = nil, "empty"
	}
	// occasionally the wrong key situation: key passed although the bytes carry one, or no key for a handshake form
	if c.Chance(0.06) {
		if pk == nil {
			pk = c.RandBytes(32)
		} else {
			pk = nil
		}
	}
	if c.Chance(0.04) {
		curve = cert.Curve(c.Intn(4))
	}
	if c.Chance(0.03) {
		family = 3 - family // bytes of one version to the decoder of the other
	}
	entry := c.Intn(3) // 0 = the version's decoder directly, 1 = Recombine, 2 = PEM
	if pk != nil && entry == 2 {
		entry = 1
	}
	if pk == nil && entry == 1 {
		entry = 0
	}
	var lit, kind string
	var accepted bool
	desc := map[string]any{"op": "decode", "source": src, "family": family, "handshake_form": isHs, "pk_len": len(pk), "curve": int(curve), "bytes": hx.Ints(b)}
	if devScale >= 0 {
		desc["deviation_scale"] = devScale
	}
	func() {
		defer func() {
			if r := recover(); r != nil {
				x.fail("decode-panic", 2, fmt.Sprint(r))
				lit = hx.App("CDec1", ccB(pk), ccB(b), hx.None())
				kind = "panic"
			}
		}()
		switch entry {
		case 0:
			if family == 1 {
				d, err := cert.VerifCodecUnmarshalV1(b, pk)
				accepted = err == nil
				desc["error"] = fmt.Sprint(err)
				lit = hx.App("CDec1", ccB(pk), ccB(b), ccOptPlain(d, err))
				kind = "dec1"
			} else {
				d, err := cert.VerifCodecUnmarshalV2(b, pk, curve)
				accepted = err == nil
				desc["error"] = fmt.Sprint(err)
				lit = hx.App("CDec2", ccB(pk), hx.N(uint64(curve)), ccB(b), ccOptPlain(d, err))
				kind = "dec2"
			}
		case 1:
			v := cert.Version(family)
			if c.Chance(0.05) {
				v = cert.Version(c.Intn(4))
			}
			d, err := cert.Recombine(v, b, pk, curve)
			accepted = err == nil
			desc["error"] = fmt.Sprint(err)
			lit = hx.App("CRecombine", hx.N(uint64(v)), ccB(pk), hx.N(uint64(curve)), ccB(b), ccOptAny(d, err))
			kind = "recombine"
			desc["version"] = int(v)
		case 2:
			banner := family
			if c.Chance(0.03) {
				banner = 3
			}
			typ := map[int]string{1: cert.CertificateBanner, 2: cert.CertificateV2Banner, 3: cert.X25519PublicKeyBanner}[banner]
			pm := pem.EncodeToMemory(&pem.Block{Type: typ, Bytes: b})
			d, rest, err := cert.UnmarshalCertificateFromPEM(pm)
			if err == nil && len(rest) != 0 {
				x.fail("pem-rest", 2, "non-empty rest after a single block")
			}
			accepted = err == nil
			desc["error"] = fmt.Sprint(err)
			lit = hx.App("CPem", hx.N(uint64(banner)), ccB(b), ccOptAny(d, err))
			kind = "pem"
			desc["banner"] = banner
		}
	}()
	desc["accepted"] = accepted
	if accepted {
		kind += "-accepted"
	} else {
		kind += "-rejected"
	}
	x.cw.Add(lit, kind+"/"+strings.SplitN(src, "-", 2)[0], accepted, desc)
}

func runCertCodec(c *hx.Ctx) {
	x := &ccCtx{c: c, cas: map[[2]int]*ccCA{}, stats: map[string]int{}, failures: []map[string]any{}}
	for v := 1; v <= 2; v++ {
		for cv := 0; cv <= 1; cv++ {
			x.cas[[2]int{v, cv}] = ccNewCA(c, cert.Version(v), cert.Curve(cv))
		}
	}
	x.cw = c.NewCaseWriter("From Coq Require Import Uint63.\nFrom NV Require Import model.CertCodec corr.CertCodec_corr.", "CertCodec_corr.case", "CertCodec_corr.check_case", 120)
	nSign := c.N * 3 / 10
	if nSign < 40 {
		nSign = 40
	}
	// boundary sweep first: the four CA certificates themselves decoded, then signing
	for _, ca := range x.cas {
		std, _ := ca.crt.Marshal()
		hs, _ := ca.crt.MarshalForHandshakes()
		x.pool = append(x.pool, ccIssued{crt: ca.crt, std: std, hs: hs, curve: ca.crt.Curve()})
	}
	for i := 0; i < nSign; i++ {
		x.signCase(false, 0)
	}
	// certificates around MaxCertificateSize (everything but the group's bytes takes 181 bytes): below, the last that fits,
	// the first that does not, above. SignWith must refuse what the decoder would refuse.
	x.signCase(true, -600+c.Intn(400))
	x.signCase(true, -181)
	x.signCase(true, -180)
	x.signCase(true, -170+c.Intn(300))
	for x.cw.Total() < c.N {
		x.decodeCase()
	}
	x.cw.Meta("failures", x.failures)
	x.cw.Meta("stats", x.stats)
	_ = p256.Swap
	x.cw.Close("TBS certificates (names 0..310 bytes incl. non-UTF-8, 0..40 v4/v6 networks and unsafe networks incl. duplicates/unspecified/4in6/invalid, groups incl. empty and long, " +
		"whole-second times over the int64 range, both curves, CA/host, v1/v2, issuers of 0..70 bytes) through SignWith; each issued certificate through Marshal / MarshalPEM / " +
		"MarshalForHandshakes and back; decoders on mutated valid encodings, DER / protobuf grammar junk and random bytes via unmarshalCertificateV1/V2, Recombine and " +
		"UnmarshalCertificateFromPEM; non-trivial = a certificate was issued or decoded; distinct by literal")
}

//go:build comp_all || comp_fwrules || comp_fwconfig

package main

// Components gen_fwrules (T1 constants), fwrules (C16) and fwrules_addr (C17): real Firewalls built with
// NewFirewall/AddRule, real HostInfo.buildNetworks, real cert.CAPool; Drop is called with generated packets and the
// verdict class plus conntrack membership before/after are the observations.

import (
	"fmt"
	"math/big"
	"net/netip"
	"strings"

	nebula "github.com/slackhq/nebula"
	"github.com/slackhq/nebula/firewall"
	"verifharness/hx"
)

func init() {
	hx.Register("gen_fwrules", genFwRules)
	hx.Register("fwrules", func(c *hx.Ctx) { runFwRules(c, false) })
	hx.Register("fwrules_addr", func(c *hx.Ctx) { runFwRules(c, true) })
}

func genFwRules(c *hx.Ctx) {
	var sb strings.Builder
	sb.WriteString("(* GENERATED from /repo/firewall by harness gen_fwrules: do not edit *)\nFrom Coq Require Import NArith ZArith.\n")
	fmt.Fprintf(&sb, "Definition proto_any : N := %d%%N.\nDefinition proto_tcp : N := %d%%N.\nDefinition proto_udp : N := %d%%N.\nDefinition proto_icmp : N := %d%%N.\nDefinition proto_icmpv6 : N := %d%%N.\n",
		nebula.VerifFwProtoAny, nebula.VerifFwProtoTCP, nebula.VerifFwProtoUDP, nebula.VerifFwProtoICMP, nebula.VerifFwProtoICMPv6)
	fmt.Fprintf(&sb, "Definition port_any : Z := %s.\nDefinition port_fragment : Z := %s.\n", hx.Z(int64(nebula.VerifFwPortAny)), hx.Z(int64(nebula.VerifFwPortFragment)))
	c.WriteFile("Consts_Firewall.v", sb.String())
}

// ---- literals ---------------------------------------------------------------------------------

func fwAddrLit(a netip.Addr) string {
	b := a.AsSlice()
	return fmt.Sprintf("(%s, %s)", hx.Bool(a.Is4()), new(big.Int).SetBytes(b).String())
}
func fwPfxLit(p netip.Prefix) string {
	return fmt.Sprintf("(%s, %d)", fwAddrLit(p.Addr()), p.Bits())
}
func fwPfxList(ps []netip.Prefix) string {
	s := make([]string, len(ps))
	for i, p := range ps {
		s[i] = fwPfxLit(p)
	}
	return hx.List(s)
}
func fwStrList(xs []string) string {
	s := make([]string, len(xs))
	for i, x := range xs {
		s[i] = hx.Str(x)
	}
	return hx.List(s)
}
func fwCselLit(s string) string {
	switch s {
	case "":
		return "CNone"
	case "any":
		return "CAny"
	}
	p, err := netip.ParsePrefix(s)
	if err != nil {
		return "CBad"
	}
	return "(CPfx " + fwPfxLit(p) + ")"
}
func fwRuleLit(r nebula.VerifFwRule) string {
	return hx.App("mkRule", hx.N(uint64(r.Proto)), hx.Z(int64(r.Start)), hx.Z(int64(r.End)), fwStrList(r.Groups), hx.Str(r.Host),
		fwCselLit(r.Cidr), fwCselLit(r.LocalCidr), hx.Str(r.CAName), hx.Str(r.CASha))
}
func fwCertLit(c nebula.VerifFwCert) string {
	return hx.App("mkPeer", hx.Str(c.Name), fwStrList(c.Groups), hx.Str(c.Issuer), fwPfxList(c.Networks), fwPfxList(c.Unsafe))
}
func fwPktLit(p firewall.Packet) string {
	return hx.App("mkPkt", fwAddrLit(p.LocalAddr), fwAddrLit(p.RemoteAddr), hx.N(uint64(p.LocalPort)), hx.N(uint64(p.RemotePort)),
		hx.N(uint64(p.Protocol)), hx.Bool(p.Fragment))
}

// ---- generators -------------------------------------------------------------------------------

func mp(s string) netip.Prefix { return netip.MustParsePrefix(s) }
func ma(s string) netip.Addr   { return netip.MustParseAddr(s) }

func fwPickStr(c *hx.Ctx, xs []string) string { return xs[c.Intn(len(xs))] }

// addrOffset returns a + d (wrapping inside the family).
func addrOffset(a netip.Addr, d int64) netip.Addr {
	n := new(big.Int).SetBytes(a.AsSlice())
	n.Add(n, big.NewInt(d))
	l := 16
	if a.Is4() {
		l = 4
	}
	mod := new(big.Int).Lsh(big.NewInt(1), uint(8*l))
	n.Mod(n, mod)
	b := n.FillBytes(make([]byte, l))
	r, _ := netip.AddrFromSlice(b)
	return r
}

// edge addresses of a prefix: first, last, one before, one after, the prefix's own (possibly unmasked) address
func prefixEdges(p netip.Prefix) []netip.Addr {
	m := p.Masked()
	first := m.Addr()
	host := p.Addr().BitLen() - p.Bits()
	size := new(big.Int).Lsh(big.NewInt(1), uint(host))
	lastN := new(big.Int).SetBytes(first.AsSlice())
	lastN.Add(lastN, size).Sub(lastN, big.NewInt(1))
	l := 16
	if first.Is4() {
		l = 4
	}
	mod := new(big.Int).Lsh(big.NewInt(1), uint(8*l))
	lastN.Mod(lastN, mod)
	last, _ := netip.AddrFromSlice(lastN.FillBytes(make([]byte, l)))
	return []netip.Addr{first, last, addrOffset(first, -1), addrOffset(last, 1), p.Addr()}
}

type fwWorld struct {
	c       *hx.Ctx
	my      nebula.VerifFwCert
	dlca    bool
	rules   []nebula.VerifFwRule
	pool    map[string]string
	cidrs   []netip.Prefix // every prefix mentioned anywhere: packets are drawn at their edges
	ports   []int
}

var (
	fwMyNets4   = []string{"10.0.0.1/24", "10.0.0.1/16", "10.0.3.7/22", "10.0.0.1/32"}
	fwMyNets6   = []string{"fd00::1/64", "fd00::1:1/112"}
	fwMyUnsafe  = []string{"192.168.0.0/24", "172.16.0.0/12", "fd99::/48", "192.168.0.128/25", "10.0.0.0/25"}
	fwGroups    = []string{"a", "b", "c", "d", "any", ""}
	fwHosts     = []string{"h1", "h2", "h3", "any"}
	fwCANames   = []string{"ca1", "ca2", "ca3"}
	fwCAShas    = []string{"s1", "s2", "s3"}
	fwRuleCidrs = []string{"10.0.0.0/24", "10.0.0.5/32", "10.0.0.5/30", "10.0.0.128/25", "0.0.0.0/0", "10.0.0.0/8", "::/0", "fd00::/64",
		"fd00::5/128", "192.168.5.0/24", "192.168.5.64/26", "172.20.0.0/16", "10.9.0.0/16", "::ffff:10.0.0.0/120", "fd77::/16", "10.0.0.9/31"}
	fwLocalCidrs = []string{"10.0.0.0/24", "10.0.0.1/32", "192.168.0.0/24", "192.168.0.0/25", "172.16.0.0/12", "0.0.0.0/0", "::/0", "fd00::/64",
		"fd99::/48", "10.0.0.0/30", "192.168.0.77/32", "172.16.5.0/24"}
	fwPeerAddrs4 = []string{"10.0.0.5/24", "10.0.0.6/24", "10.0.0.200/24", "10.0.3.9/22", "10.9.0.5/24", "10.9.0.6/16", "10.0.1.5/16", "192.168.5.1/24"}
	fwPeerAddrs6 = []string{"fd00::5/64", "fd00::6/64", "fd77::2/64", "fd00::1:9/112"}
	fwPeerUnsafe = []string{"192.168.5.0/24", "172.20.0.0/16", "192.168.5.64/26", "fd88::/32", "10.0.0.6/32", "10.0.0.0/29", "10.9.0.5/32"}
)

func (w *fwWorld) genRule(incoming bool) nebula.VerifFwRule {
	c := w.c
	r := nebula.VerifFwRule{Incoming: incoming}
	switch c.Intn(12) {
	case 0, 1, 2, 3:
		r.Proto = nebula.VerifFwProtoTCP
	case 4, 5:
		r.Proto = nebula.VerifFwProtoUDP
	case 6:
		r.Proto = nebula.VerifFwProtoICMP
	case 7:
		r.Proto = nebula.VerifFwProtoICMPv6
	case 8, 9, 10:
		r.Proto = nebula.VerifFwProtoAny
	default:
		r.Proto = nebula.VerifFwProtoTCP
		if c.Chance(0.25) {
			r.Proto = uint8(c.Pick([]uint64{2, 47, 255, 5, 16, 57}))
		}
	}
	// ports: any / fragment / single / range; through the API also odd ranges (including 0 or -1, reversed)
	switch c.Intn(12) {
	case 0, 1, 2:
		r.Start, r.End = 0, 0
	case 3:
		r.Start, r.End = -1, -1
	case 4, 5, 6:
		p := int32(c.Pick([]uint64{1, 22, 80, 443, 8080, 65535, 53}))
		r.Start, r.End = p, p
	case 7, 8, 9:
		s := int32(c.Pick([]uint64{1, 20, 79, 440, 1000, 65530}))
		wd := int32(c.Intn(12))
		if c.Chance(0.1) {
			wd = int32(50 + c.Intn(200))
		}
		r.Start, r.End = s, s+wd
		if r.End > 65535 {
			r.End = 65535
		}
	case 10:
		r.Start, r.End = int32(-1-c.Intn(2)), int32(c.Intn(6)) // contains 0 (and -1)
	default:
		r.Start, r.End = int32(80+c.Intn(3)), int32(80+c.Intn(3)) // maybe reversed
	}
	w.ports = append(w.ports, int(r.Start), int(r.End))
	// selectors
	if c.Chance(0.45) {
		n := 1 + c.Intn(3)
		for i := 0; i < n; i++ {
			g := fwPickStr(c, fwGroups[:4])
			if c.Chance(0.08) {
				g = fwPickStr(c, fwGroups)
			}
			r.Groups = append(r.Groups, g)
		}
	}
	if c.Chance(0.3) {
		r.Host = fwPickStr(c, fwHosts[:3])
		if c.Chance(0.1) {
			r.Host = "any"
		}
	}
	if c.Chance(0.35) {
		r.Cidr = fwPickStr(c, fwRuleCidrs)
		if c.Chance(0.1) {
			r.Cidr = "any"
		} else if c.Chance(0.03) {
			r.Cidr = fwPickStr(c, []string{"garbage", "10.0.0.0/33", "10.0.0.1", "any ", "fe80::1%eth0/64"})
		}
	}
	if c.Chance(0.4) {
		r.LocalCidr = fwPickStr(c, fwLocalCidrs)
		if c.Chance(0.15) {
			r.LocalCidr = "any"
		} else if c.Chance(0.02) {
			r.LocalCidr = fwPickStr(c, []string{"nope", "1.2.3.4/40", "Any"})
		}
	}
	if c.Chance(0.25) {
		r.CAName = fwPickStr(c, fwCANames)
	}
	if c.Chance(0.25) {
		r.CASha = fwPickStr(c, fwCAShas)
	}
	for _, s := range []string{r.Cidr, r.LocalCidr} {
		if p, err := netip.ParsePrefix(s); err == nil {
			w.cidrs = append(w.cidrs, p)
		}
	}
	return r
}

func (w *fwWorld) genPeer(addrFocus bool) nebula.VerifFwCert {
	c := w.c
	p := nebula.VerifFwCert{Name: fwPickStr(c, append(fwHosts, "other")), Issuer: fwPickStr(c, append(fwCAShas, "", "s9"))}
	for _, g := range fwGroups[:4] {
		if c.Chance(0.45) {
			p.Groups = append(p.Groups, g)
		}
	}
	if c.Chance(0.05) {
		p.Groups = append(p.Groups, fwPickStr(c, []string{"any", ""}))
	}
	nn := 1
	if c.Chance(0.35) || (addrFocus && c.Chance(0.4)) {
		nn = 2 + c.Intn(2)
	}
	if c.Chance(0.02) {
		nn = 0
	}
	pin := 0.85
	if addrFocus {
		pin = 0.6
	}
	for i := 0; i < nn; i++ {
		if c.Chance(pin) { // an address inside one of my networks
			mn := w.my.Networks[c.Intn(len(w.my.Networks))]
			host := mn.Addr().BitLen() - mn.Bits()
			if host > 10 {
				host = 10
			}
			a := addrOffset(mn.Masked().Addr(), int64(2+c.Intn(6)))
			if host > 3 && c.Chance(0.3) {
				a = addrOffset(mn.Masked().Addr(), int64(c.Intn(1<<uint(host))))
			}
			if mn.Contains(a) && a != mn.Addr() {
				p.Networks = append(p.Networks, netip.PrefixFrom(a, mn.Bits()))
				continue
			}
		}
		s := fwPickStr(c, fwPeerAddrs4)
		if c.Chance(0.3) {
			s = fwPickStr(c, fwPeerAddrs6)
		}
		p.Networks = append(p.Networks, mp(s))
	}
	if c.Chance(0.3) || (addrFocus && c.Chance(0.3)) {
		nu := 1 + c.Intn(2)
		for i := 0; i < nu; i++ {
			p.Unsafe = append(p.Unsafe, mp(fwPickStr(c, fwPeerUnsafe)))
		}
	}
	return p
}

func (w *fwWorld) genAddr(cands []netip.Prefix, extra []netip.Addr) netip.Addr {
	c := w.c
	var pool []netip.Addr
	pool = append(pool, extra...)
	for _, p := range cands {
		pool = append(pool, prefixEdges(p)...)
	}
	if len(pool) == 0 || c.Chance(0.05) {
		if c.Chance(0.5) {
			return addrOffset(ma("10.0.0.0"), int64(c.Intn(1<<16)))
		}
		return addrOffset(ma("fd00::"), int64(c.Intn(1<<16)))
	}
	a := pool[c.Intn(len(pool))]
	if c.Chance(0.1) {
		a = addrOffset(a, int64(c.Intn(5)-2))
	}
	return a
}

// genInside draws an address inside one of the prefixes (first, last, the prefix's own address, or a random host).
func (w *fwWorld) genInside(cands []netip.Prefix) netip.Addr {
	c := w.c
	p := cands[c.Intn(len(cands))]
	e := prefixEdges(p)
	switch c.Intn(4) {
	case 0:
		return e[0]
	case 1:
		return e[1]
	case 2:
		return e[4]
	}
	host := p.Addr().BitLen() - p.Bits()
	if host > 12 {
		host = 12
	}
	a := addrOffset(e[0], int64(c.Intn(1<<uint(host))))
	return a
}

func (w *fwWorld) genPacket(peer nebula.VerifFwCert, addrFocus bool) firewall.Packet {
	c := w.c
	var p firewall.Packet
	// remote: mostly an address the peer is entitled to, sometimes near a rule cidr / spoofed
	var own []netip.Addr
	for _, n := range peer.Networks {
		own = append(own, n.Addr())
	}
	pAuth := 0.9
	if addrFocus {
		pAuth = 0.7
	}
	var ownIn []netip.Addr
	for _, a := range own {
		for _, mn := range w.my.Networks {
			if mn.Contains(a) {
				ownIn = append(ownIn, a)
				break
			}
		}
	}
	switch {
	case len(own) > 0 && c.Chance(pAuth):
		p.RemoteAddr = own[c.Intn(len(own))]
		if len(ownIn) > 0 && c.Chance(0.9) {
			p.RemoteAddr = ownIn[c.Intn(len(ownIn))]
		}
		if len(peer.Unsafe) > 0 && c.Chance(0.35) {
			p.RemoteAddr = w.genInside(peer.Unsafe)
		}
	case c.Chance(0.5):
		p.RemoteAddr = w.genAddr(append(append([]netip.Prefix{}, peer.Unsafe...), peer.Networks...), own)
	default:
		p.RemoteAddr = w.genAddr(w.cidrs, own)
	}
	// local: mostly one of my addresses or inside my unsafe networks
	var mine []netip.Addr
	for _, n := range w.my.Networks {
		mine = append(mine, n.Addr())
	}
	switch {
	case c.Chance(pAuth):
		p.LocalAddr = mine[c.Intn(len(mine))]
		if len(w.my.Unsafe) > 0 && c.Chance(0.5) {
			p.LocalAddr = w.genInside(w.my.Unsafe)
		}
	case c.Chance(0.5):
		p.LocalAddr = w.genAddr(append(append([]netip.Prefix{}, w.my.Unsafe...), w.my.Networks...), mine)
	default:
		p.LocalAddr = w.genAddr(w.cidrs, mine)
	}
	switch c.Intn(10) {
	case 0, 1, 2, 3:
		p.Protocol = nebula.VerifFwProtoTCP
	case 4, 5:
		p.Protocol = nebula.VerifFwProtoUDP
	case 6:
		p.Protocol = nebula.VerifFwProtoICMP
	case 7:
		p.Protocol = nebula.VerifFwProtoICMPv6
	default:
		p.Protocol = uint8(c.Pick([]uint64{0, 2, 47, 50, 255, 6, 17}))
	}
	port := func() uint16 {
		if len(w.ports) > 0 && c.Chance(0.8) {
			v := w.ports[c.Intn(len(w.ports))] + c.Intn(3) - 1
			if v < 0 {
				v = 0
			}
			if v > 65535 {
				v = 65535
			}
			return uint16(v)
		}
		return uint16(c.EdgeU64(16))
	}
	p.LocalPort, p.RemotePort = port(), port()
	p.Fragment = c.Chance(0.12)
	return p
}

// aim bends a peer certificate and a packet towards satisfying rule r (then the caller's random mutations and the
// other rules decide the verdict): near-hits and near-misses of every field.
func (w *fwWorld) aim(r nebula.VerifFwRule, peer *nebula.VerifFwCert, p *firewall.Packet) {
	c := w.c
	keep := func() bool { return c.Chance(0.85) }
	if keep() {
		switch r.Proto {
		case nebula.VerifFwProtoAny:
		case nebula.VerifFwProtoICMP, nebula.VerifFwProtoICMPv6:
			p.Protocol = uint8(c.Pick([]uint64{nebula.VerifFwProtoICMP, nebula.VerifFwProtoICMPv6}))
		default:
			p.Protocol = r.Proto
		}
	}
	if keep() && r.Start <= r.End {
		v := int(r.Start) + c.Intn(int(r.End-r.Start)+1)
		if c.Chance(0.5) {
			v = int(c.Pick([]uint64{uint64(uint32(r.Start)), uint64(uint32(r.End))}))
			v = int(int32(uint32(v)))
		}
		v += int(c.Pick([]uint64{0, 0, 0, 0, 0, 0, 1})) - int(c.Pick([]uint64{0, 0, 0, 0, 0, 0, 1}))
		if v == -1 {
			p.Fragment = true
		} else if v >= 0 && v <= 65535 {
			p.Fragment = c.Chance(0.05)
			if r.Incoming {
				p.LocalPort = uint16(v)
			} else {
				p.RemotePort = uint16(v)
			}
		}
	}
	if len(r.Groups) > 0 && keep() {
		for _, g := range r.Groups {
			have := false
			for _, x := range peer.Groups {
				have = have || x == g
			}
			if !have && c.Chance(0.93) {
				peer.Groups = append(peer.Groups, g)
			}
		}
	}
	if r.Host != "" && keep() {
		peer.Name = r.Host
	}
	if r.CASha != "" && c.Chance(0.7) {
		peer.Issuer = r.CASha
	}
	if r.CAName != "" && c.Chance(0.7) {
		for _, sha := range fwCAShas { // fixed order: replays must be deterministic
			if n, ok := w.pool[sha]; ok && n == r.CAName {
				peer.Issuer = sha
			}
		}
	}
	if pf, err := netip.ParsePrefix(r.LocalCidr); err == nil && keep() {
		a := w.genAddr([]netip.Prefix{pf}, nil)
		routable := false
		for _, mn := range w.my.Networks {
			routable = routable || mn.Addr() == a
		}
		for _, u := range w.my.Unsafe {
			routable = routable || u.Contains(a)
		}
		if routable || c.Chance(0.15) {
			p.LocalAddr = a
		}
	}
	if pf, err := netip.ParsePrefix(r.Cidr); err == nil && c.Chance(0.5) {
		// make the peer own an address inside the rule's cidr (as an address inside my networks when possible)
		a := w.genAddr([]netip.Prefix{pf}, nil)
		inMine := false
		for _, mn := range w.my.Networks {
			inMine = inMine || (mn.Contains(a) && a != mn.Addr())
		}
		if !inMine && c.Chance(0.8) {
			return
		}
		bits := 24
		if !a.Is4() {
			bits = 64
		}
		peer.Networks = append([]netip.Prefix{netip.PrefixFrom(a, bits)}, peer.Networks...)
		if len(peer.Networks) > 3 {
			peer.Networks = peer.Networks[:3]
		}
		p.RemoteAddr = a
	}
}

// ---- boundary corpus: port ranges at the edges of the port space ------------------------------------
// The full range 1-65535 is 65535 separate port entries and is NOT "any": it must not admit non-first fragments, nor
// (under proto any) ICMP / ICMPv6. Shared by fwrules (AddRule) and fwconfig (port text).

type fwRangeSet struct {
	name   string
	ranges [][2]int32
}

var fwEdgeRanges = []fwRangeSet{
	{"1-65535", [][2]int32{{1, 65535}}}, {"1-65534", [][2]int32{{1, 65534}}}, {"2-65535", [][2]int32{{2, 65535}}},
	{"0-65535", [][2]int32{{0, 65535}}}, {"1-32767+32768-65535", [][2]int32{{1, 32767}, {32768, 65535}}},
}

// Each 1-65535 AddRule allocates 65535 CA/rule nodes in the real firewall (about a second on a busy machine), so the quick
// tier keeps inbound only: 1-65535 for tcp and any, the other four range sets for any; the thorough tier runs the full
// product (tcp/udp/any x five range sets x both directions).
func fwEdgeWanted(tier string, incoming bool, proto string, rangeIdx int) bool {
	if tier == "thorough" {
		return true
	}
	return incoming && (proto == "any" || (proto == "tcp" && rangeIdx == 0))
}

var fwEdgePeer = nebula.VerifFwCert{Name: "nobody", Issuer: "s9", Networks: []netip.Prefix{netip.MustParsePrefix("10.0.0.77/24")}}

// fwEdgePackets: non-first fragments, ordinary (first-fragment / unfragmented) packets, ICMP, ICMPv6, TCP and UDP at
// ports 0, 1, 65535 and in between, another protocol.
func fwEdgePackets() []firewall.Packet {
	base := firewall.Packet{LocalAddr: netip.MustParseAddr("10.0.0.1"), RemoteAddr: netip.MustParseAddr("10.0.0.77")}
	var out []firewall.Packet
	for _, proto := range []uint8{nebula.VerifFwProtoTCP, nebula.VerifFwProtoUDP} {
		for _, port := range []uint16{0, 1, 2, 80, 32767, 32768, 65534, 65535} {
			p := base
			p.Protocol, p.LocalPort, p.RemotePort = proto, port, port
			out = append(out, p)
		}
		f := base
		f.Protocol, f.Fragment = proto, true // non-first fragment: no ports
		out = append(out, f)
		f.LocalPort, f.RemotePort = 80, 80
		out = append(out, f)
	}
	for _, proto := range []uint8{nebula.VerifFwProtoICMP, nebula.VerifFwProtoICMPv6, 47} {
		p := base
		p.Protocol = proto
		out = append(out, p)
		p.RemotePort = 7 // ICMP identifier
		out = append(out, p)
		p.LocalPort, p.RemotePort = 80, 80
		out = append(out, p)
		p.Fragment = true
		out = append(out, p)
	}
	return out
}

func runFwRules(c *hx.Ctx, addrFocus bool) {
	check := "Firewall_corr.check_c16"
	if addrFocus {
		check = "Firewall_corr.check_c17"
	}
	cw := c.NewCaseWriter("From NV Require Import lib.Ip model.Firewall corr.Firewall_corr.", "Firewall_corr.case", check, 40)
	type edgeCase struct {
		rules []nebula.VerifFwRule
		name  string
	}
	var corpus []edgeCase
	if !addrFocus {
		for _, incoming := range []bool{true, false} {
			for _, proto := range []uint8{nebula.VerifFwProtoTCP, nebula.VerifFwProtoUDP, nebula.VerifFwProtoAny} {
				for ri, rs := range fwEdgeRanges {
					if !fwEdgeWanted(c.Tier, incoming, map[uint8]string{nebula.VerifFwProtoTCP: "tcp", nebula.VerifFwProtoUDP: "udp", nebula.VerifFwProtoAny: "any"}[proto], ri) {
						continue
					}
					var rules []nebula.VerifFwRule
					for _, se := range rs.ranges {
						rules = append(rules, nebula.VerifFwRule{Incoming: incoming, Proto: proto, Start: se[0], End: se[1], Host: "any"})
					}
					corpus = append(corpus, edgeCase{rules, rs.name})
				}
			}
		}
	}
	nCases := c.N + len(corpus)
	for ci := 0; ci < nCases; ci++ {
		w := &fwWorld{c: c}
		if ci < len(corpus) {
			// boundary corpus case: fixed certificate, fixed rules, fixed probes
			ec := corpus[ci]
			w.my = nebula.VerifFwCert{Name: "me", Networks: []netip.Prefix{mp("10.0.0.1/24")}}
			fw := nebula.VerifNewFirewall(w.my, false)
			var ruleLits, jrules, probeLits []string
			for _, r := range ec.rules {
				err := fw.AddRule(r)
				ruleLits = append(ruleLits, hx.Tuple(hx.Bool(r.Incoming), fwRuleLit(r), hx.Bool(err == nil)))
				jrules = append(jrules, fmt.Sprintf("%+v", r))
			}
			hp := fw.NewPeer(fwEdgePeer)
			var jprobes []map[string]any
			nAllow, nNoRule := 0, 0
			for _, pkt := range fwEdgePackets() {
				fw.ResetConntrack()
				class, before, after := fw.Drop(pkt, ec.rules[0].Incoming, hp, nil)
				if class == nebula.VerifFwAllow {
					nAllow++
				}
				if class == nebula.VerifFwNoRule {
					nNoRule++
				}
				probeLits = append(probeLits, hx.App("mkProbe", hx.Bool(true), fwCertLit(fwEdgePeer), fwPktLit(pkt), hx.Bool(ec.rules[0].Incoming), hx.Bool(false),
					hx.Bool(before), hx.N(uint64(class)), hx.Bool(after)))
				jprobes = append(jprobes, map[string]any{"pkt": fmt.Sprintf("%+v", pkt), "incoming": ec.rules[0].Incoming, "class": class})
			}
			lit := hx.App("CFw", hx.App("mkConf", fwPfxList(w.my.Networks), fwPfxList(w.my.Unsafe), hx.Bool(false)),
				hx.List(ruleLits), hx.List(nil), hx.List(probeLits))
			cw.Add(lit, "corpus-port-range-"+ec.name, nAllow > 0 && nNoRule > 0, map[string]any{"my": fmt.Sprintf("%+v", w.my), "rules": jrules, "probes": jprobes})
			continue
		}
		// my certificate
		w.my.Name = "me"
		w.my.Networks = []netip.Prefix{mp(fwPickStr(c, fwMyNets4[:3]))}
		if c.Chance(0.04) {
			w.my.Networks = []netip.Prefix{mp(fwMyNets4[3])}
		}
		if c.Chance(0.4) {
			w.my.Networks = append(w.my.Networks, mp(fwPickStr(c, fwMyNets6)))
		}
		if c.Chance(0.5) {
			n := 1 + c.Intn(2)
			for i := 0; i < n; i++ {
				w.my.Unsafe = append(w.my.Unsafe, mp(fwPickStr(c, fwMyUnsafe)))
			}
		}
		w.dlca = c.Chance(0.3)
		w.cidrs = append(w.cidrs, w.my.Networks...)
		w.cidrs = append(w.cidrs, w.my.Unsafe...)
		// pool
		w.pool = map[string]string{}
		var poolLits []string
		for _, s := range fwCAShas {
			if c.Chance(0.7) {
				n := fwPickStr(c, append(fwCANames, ""))
				w.pool[s] = n
				poolLits = append(poolLits, hx.Tuple(hx.Str(s), hx.Str(n)))
			}
		}
		// rules: 1..8 over both directions; special shapes in the first cases (allow-everything, empty)
		nr := 1 + c.Intn(8)
		if ci%29 == 7 {
			nr = 0
		}
		var cand []nebula.VerifFwRule
		for i := 0; i < nr; i++ {
			cand = append(cand, w.genRule(c.Chance(0.6)))
		}
		if ci%17 == 3 { // allow everything, both directions
			cand = append(cand, nebula.VerifFwRule{Incoming: true, Proto: nebula.VerifFwProtoAny, Host: "any"},
				nebula.VerifFwRule{Incoming: false, Proto: nebula.VerifFwProtoAny, Host: "any"})
		}
		// learn which AddRule calls fail on a scratch firewall (a failing call may leave a partial insertion behind)
		var ruleLits []string
		fw := nebula.VerifNewFirewall(w.my, w.dlca)
		fw.SetPool(w.pool)
		nOK := 0
		var okRulesAll []nebula.VerifFwRule
		for _, r := range cand {
			scratch := nebula.VerifNewFirewall(w.my, w.dlca)
			err := scratch.AddRule(r)
			if err == nil {
				if err2 := fw.AddRule(r); err2 != nil {
					panic("AddRule not deterministic")
				}
				nOK++
				okRulesAll = append(okRulesAll, r)
			}
			ruleLits = append(ruleLits, hx.Tuple(hx.Bool(r.Incoming), fwRuleLit(r), hx.Bool(err == nil)))
		}
		// probes
		np := 8 + c.Intn(8)
		var probeLits []string
		var jprobes []map[string]any
		nAllow, nNoRule := 0, 0
		peer := w.genPeer(addrFocus)
		hp := fw.NewPeer(peer)
		var last firewall.Packet
		haveLast := false
		lastAllowed := false
		okRules := okRulesAll
		for pi := 0; pi < np; pi++ {
			reset := c.Chance(0.6)
			if addrFocus {
				reset = c.Chance(0.2)
			}
			revisit := 0.3
			if addrFocus {
				revisit = 0.45
				if lastAllowed {
					revisit = 0.9
					reset = false
				}
			}
			if reset {
				fw.ResetConntrack()
			}
			doRevisit := haveLast && !reset && c.Chance(revisit)
			newPeer := pi == 0 || (c.Chance(0.35) && (!doRevisit || c.Chance(0.25))) || (addrFocus && doRevisit && c.Chance(0.3))
			if newPeer {
				peer = w.genPeer(addrFocus)
			}
			pkt := w.genPacket(peer, addrFocus)
			incoming := c.Chance(0.6)
			if !doRevisit && len(okRules) > 0 && c.Chance(0.65) {
				r := okRules[c.Intn(len(okRules))]
				incoming = r.Incoming
				if c.Chance(0.05) {
					incoming = !incoming
				}
				np2 := peer
				np2.Groups = append([]string{}, peer.Groups...)
				np2.Networks = append([]netip.Prefix{}, peer.Networks...)
				w.aim(r, &np2, &pkt)
				peer, newPeer = np2, true
			}
			if newPeer {
				hp = fw.NewPeer(peer)
			}
			if doRevisit {
				// revisit a tracked (or just refused) tuple: same tuple (other direction), from the same or another
				// peer, or with a spoofed address
				pkt = last
				incoming = c.Chance(0.5)
				if c.Chance(0.5) {
					if c.Chance(0.5) {
						pkt.RemoteAddr = w.genAddr(w.cidrs, nil)
					} else {
						pkt.LocalAddr = w.genAddr(w.cidrs, nil)
					}
				}
			}
			// C17: sometimes hand Drop a routine-local cache that already holds the tuple
			var cache firewall.ConntrackCache
			cached := false
			if addrFocus && c.Chance(0.25) {
				cache = firewall.ConntrackCache{}
				if c.Chance(0.7) {
					cache[pkt] = struct{}{}
					cached = true
				}
			}
			class, before, after := fw.Drop(pkt, incoming, hp, cache)
			last, haveLast = pkt, true
			lastAllowed = class == nebula.VerifFwAllow && !cached
			if class == nebula.VerifFwAllow {
				nAllow++
			}
			if class == nebula.VerifFwNoRule {
				nNoRule++
			}
			probeLits = append(probeLits, hx.App("mkProbe", hx.Bool(reset), fwCertLit(peer), fwPktLit(pkt), hx.Bool(incoming), hx.Bool(cached),
				hx.Bool(before), hx.N(uint64(class)), hx.Bool(after)))
			jprobes = append(jprobes, map[string]any{"reset": reset, "peer": fmt.Sprintf("%+v", peer), "pkt": fmt.Sprintf("%+v", pkt), "incoming": incoming,
				"cached": cached, "before": before, "class": class, "after": after})
		}
		lit := hx.App("CFw", hx.App("mkConf", fwPfxList(w.my.Networks), fwPfxList(w.my.Unsafe), hx.Bool(w.dlca)),
			hx.List(ruleLits), hx.List(poolLits), hx.List(probeLits))
		kind := "rules"
		if addrFocus {
			kind = "addr"
		}
		if nOK < len(cand) {
			kind += "+badrule"
		}
		var jrules []string
		for _, r := range cand {
			jrules = append(jrules, fmt.Sprintf("%+v", r))
		}
		cw.Add(lit, kind, nAllow > 0 && nNoRule > 0, map[string]any{"my": fmt.Sprintf("%+v", w.my), "dlca": w.dlca, "rules": jrules, "pool": w.pool, "probes": jprobes})
	}
	cw.Close("one case = one firewall (1-8 generated rules over every field combination, both directions) + 8-15 Drop calls with packets at rule/cidr/port edges, " +
		"multi-address peers, spoofed addresses, revisits of tracked tuples; non-trivial = the case saw both an allow and a no-rule verdict; distinct by literal")
}

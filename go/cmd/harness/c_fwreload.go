//go:build comp_all || comp_fwrules || comp_fwconfig

package main

// Component fwreload (C17): histories of certificate re-issues (the set of certified unsafe networks grows, shrinks,
// is replaced, reordered, emptied) and configuration reloads (changed / unchanged) through the REAL
// Interface.reloadFirewall, with Drop probes in both directions after every step: the firewall's local-address universe
// must always be the CURRENT certificate's addresses and unsafe networks.

import (
	"fmt"
	"net/netip"

	nebula "github.com/slackhq/nebula"
	"github.com/slackhq/nebula/firewall"
	"verifharness/hx"
)

func init() {
	hx.Register("fwreload", runFwReload)
}

var fwReloadPool = []string{"198.51.100.0/24", "203.0.113.0/24", "192.168.0.0/24", "fd99::/48"}
var fwReloadLocals = []string{"10.0.0.1", "10.0.0.9", "198.51.100.5", "203.0.113.5", "192.168.0.5", "fd99::5", "172.16.0.1", "fd00::1"}

// configuration variants (all valid; a reload whose config does not build keeps the old firewall, see the report)
var fwReloadConfigs = []string{
	"firewall:\n  outbound: [{port: any, proto: any, host: any}]\n  inbound: [{port: any, proto: any, host: any}]\n",
	"firewall:\n  outbound: [{port: any, proto: any, host: any}]\n  inbound: [{port: 80, proto: tcp, host: any}]\n",
	"firewall:\n  default_local_cidr_any: true\n  outbound: [{port: any, proto: any, host: any}]\n  inbound: [{port: any, proto: any, host: any}]\n",
	"firewall:\n  outbound: [{port: 80, proto: tcp, group: a}]\n  inbound: [{port: any, proto: any, host: any, local_cidr: any}]\n",
}
var fwReloadDlca = []bool{false, false, true, false}

func runFwReload(c *hx.Ctx) {
	cw := c.NewCaseWriter("From NV Require Import lib.Ip model.Firewall corr.Firewall_corr.", "Firewall_corr.rcase", "Firewall_corr.check_reload", 5)
	for ci := 0; ci < c.N; ci++ {
		nets := []netip.Prefix{mp("10.0.0.1/24")}
		if c.Chance(0.3) {
			nets = append(nets, mp("fd00::1/64"))
		}
		subset := func(p float64) []netip.Prefix {
			var out []netip.Prefix
			for _, s := range fwReloadPool {
				if c.Chance(p) {
					out = append(out, mp(s))
				}
			}
			return out
		}
		cur := subset(0.6)
		cfgIdx := c.Intn(len(fwReloadConfigs))
		my := nebula.VerifFwCert{Name: "me", Networks: nets, Unsafe: cur}
		rl, err := nebula.VerifNewFwReloader(my, fwReloadConfigs[cfgIdx])
		if err != nil {
			panic(err)
		}
		if c.Chance(0.15) {
			rl.SetRulesVersion(uint16(65535 - c.Intn(3)))
		}
		startVer := -1
		nSteps := 3 + c.Intn(4)
		var stepLits []string
		var jsteps []map[string]any
		shrunk := false
		for si := 0; si <= nSteps; si++ {
			cfgChanged, rebuilt, kind := true, true, "initial"
			if si > 0 {
				next := append([]netip.Prefix{}, cur...)
				switch c.Intn(7) {
				case 0: // superset
					kind = "superset"
					for _, s := range fwReloadPool {
						p := mp(s)
						have := false
						for _, q := range next {
							have = have || q == p
						}
						if !have {
							next = append(next, p)
							break
						}
					}
				case 1, 2: // strict subset
					kind = "subset"
					if len(next) > 0 {
						i := c.Intn(len(next))
						next = append(next[:i:i], next[i+1:]...)
						shrunk = true
					}
				case 3: // replaced
					kind = "replaced"
					next = subset(0.5)
				case 4: // reordered
					kind = "reordered"
					for i, j := 0, len(next)-1; i < j; i, j = i+1, j-1 {
						next[i], next[j] = next[j], next[i]
					}
				case 5: // emptied
					kind = "emptied"
					shrunk = shrunk || len(next) > 0
					next = nil
				default:
					kind = "same"
				}
				if c.Chance(0.3) {
					cfgIdx = c.Intn(len(fwReloadConfigs))
					kind += "+config"
				}
				cur = next
				my = nebula.VerifFwCert{Name: "me", Networks: nets, Unsafe: cur}
				var err error
				cfgChanged, rebuilt, err = rl.Reload(my, fwReloadConfigs[cfgIdx])
				if err != nil {
					panic(err)
				}
			}
			fw := rl.Fw(my)
			// the rules as the loader denotes them (C22 covers the parsing)
			cfg, _ := nebula.VerifFwLoadYAML(fwReloadConfigs[cfgIdx])
			recIn, _, _ := nebula.VerifRulesFromC(true, cfg)
			recOut, _, _ := nebula.VerifRulesFromC(false, cfg)
			var inLits, outLits []string
			for _, r := range recIn.Rules {
				inLits = append(inLits, fwRuleLit(r))
			}
			for _, r := range recOut.Rules {
				outLits = append(outLits, fwRuleLit(r))
			}
			// probes: both directions, every network ever in the pool, my own address, another address of my network, outside
			peer := nebula.VerifFwCert{Name: "h1", Groups: []string{"a"}, Issuer: "s9", Networks: []netip.Prefix{mp("10.0.0.77/24"), mp("fd00::77/64")}}
			hp := fw.NewPeer(peer)
			var probeLits []string
			var jprobes []map[string]any
			for pi, ls := range fwReloadLocals {
				for _, incoming := range []bool{true, false} {
					if c.Chance(0.25) {
						continue
					}
					pkt := firewall.Packet{LocalAddr: ma(ls), Protocol: nebula.VerifFwProtoTCP, LocalPort: 80, RemotePort: 80}
					if pkt.LocalAddr.Is4() {
						pkt.RemoteAddr = ma("10.0.0.77")
					} else {
						pkt.RemoteAddr = ma("fd00::77")
					}
					if c.Chance(0.2) {
						pkt.LocalPort = uint16(81 + pi) // a fresh tuple next to the long-lived ones
					}
					class, before, after := fw.Drop(pkt, incoming, hp, nil)
					probeLits = append(probeLits, hx.App("mkProbe", hx.Bool(false), fwCertLit(peer), fwPktLit(pkt), hx.Bool(incoming), hx.Bool(false),
						hx.Bool(before), hx.N(uint64(class)), hx.Bool(after)))
					jprobes = append(jprobes, map[string]any{"pkt": fmt.Sprintf("%+v", pkt), "incoming": incoming, "before": before, "class": class})
				}
			}
			stepLits = append(stepLits, hx.App("mkRStep", fwPfxList(cur), hx.Bool(cfgChanged), hx.Bool(fwReloadDlca[cfgIdx]), hx.List(inLits), hx.List(outLits),
				hx.Bool(rebuilt), hx.List(probeLits)))
			jsteps = append(jsteps, map[string]any{"kind": kind, "unsafe": fmt.Sprintf("%v", cur), "config": cfgIdx, "cfg_changed": cfgChanged, "rebuilt": rebuilt, "probes": jprobes})
			_ = startVer
		}
		startVerLit := hx.N(uint64(rl.StartVersion()))
		lit := hx.App("CReload", fwPfxList(nets), startVerLit, hx.List(stepLits))
		kind := "history"
		if shrunk {
			kind = "history+shrunk"
		}
		cw.Add(lit, kind, shrunk, map[string]any{"nets": fmt.Sprintf("%v", nets), "steps": jsteps})
	}
	cw.Close("one case = one node: initial certificate + firewall config, then 3-6 reloads through the real Interface.reloadFirewall with the certified unsafe set " +
		"grown / shrunk / replaced / reordered / emptied / unchanged and the config changed or not; after every step up to 16 Drop probes (both directions, tracked tuples " +
		"kept across reloads) with local addresses in my networks, in every network of the pool and outside; non-trivial = a history in which a certified unsafe network was removed")
}

//go:build comp_all || comp_routecfg

package main

import (
	"fmt"
	"io"
	"log/slog"
	"math"
	"math/big"
	"net/netip"
	"reflect"
	"sort"
	"strconv"
	"strings"

	"github.com/slackhq/nebula/config"
	"github.com/slackhq/nebula/overlay"
	"github.com/slackhq/nebula/routing"
	"verifharness/hx"
)

func init() {
	hx.Register("routecfg", runRouteCfg)
}

// ---- configuration values -----------------------------------------------------------------------

type rcKind int

const (
	rcStr rcKind = iota
	rcInt
	rcBool
	rcFloat
	rcList
	rcMap
	rcNull
)

type rcKV struct {
	k string
	v *rcVal
}

type rcVal struct {
	kind rcKind
	s    string
	z    *big.Int
	b    bool
	f    float64
	l    []*rcVal
	m    []rcKV // unique keys
}

func rcS(s string) *rcVal   { return &rcVal{kind: rcStr, s: s} }
func rcI(i int64) *rcVal    { return &rcVal{kind: rcInt, z: big.NewInt(i)} }
func rcB(b bool) *rcVal     { return &rcVal{kind: rcBool, b: b} }
func rcF(f float64) *rcVal  { return &rcVal{kind: rcFloat, f: f} }
func rcL(l ...*rcVal) *rcVal { return &rcVal{kind: rcList, l: l} }
func rcM(kv ...rcKV) *rcVal  { return &rcVal{kind: rcMap, m: kv} }
func rcNil() *rcVal          { return &rcVal{kind: rcNull} }

func (v *rcVal) set(k string, x *rcVal) {
	for i := range v.m {
		if v.m[i].k == k {
			v.m[i].v = x
			return
		}
	}
	v.m = append(v.m, rcKV{k, x})
}

// toGo: the value yaml.v3 produces on a 64-bit platform
func (v *rcVal) toGo() any {
	switch v.kind {
	case rcStr:
		return v.s
	case rcInt:
		if v.z.IsInt64() {
			return int(v.z.Int64())
		}
		return v.z.Uint64() // only values in (MaxInt64, MaxUint64] are generated
	case rcBool:
		return v.b
	case rcFloat:
		return v.f
	case rcList:
		r := make([]any, len(v.l))
		for i, x := range v.l {
			r[i] = x.toGo()
		}
		return r
	case rcMap:
		r := map[string]any{}
		for _, kv := range v.m {
			r[kv.k] = kv.v.toGo()
		}
		return r
	}
	return nil
}

// toYAML: flow-style YAML (JSON) text that decodes to toGo()
func (v *rcVal) toYAML(sb *strings.Builder) {
	switch v.kind {
	case rcStr:
		sb.WriteString(strconv.Quote(v.s))
	case rcInt:
		sb.WriteString(v.z.String())
	case rcBool:
		sb.WriteString(strconv.FormatBool(v.b))
	case rcFloat:
		t := strconv.FormatFloat(v.f, 'g', -1, 64)
		if !strings.ContainsAny(t, ".e") {
			t += ".0"
		}
		sb.WriteString(t)
	case rcList:
		sb.WriteByte('[')
		for i, x := range v.l {
			if i > 0 {
				sb.WriteString(", ")
			}
			x.toYAML(sb)
		}
		sb.WriteByte(']')
	case rcMap:
		sb.WriteByte('{')
		for i, kv := range v.m {
			if i > 0 {
				sb.WriteString(", ")
			}
			sb.WriteString(strconv.Quote(kv.k))
			sb.WriteString(": ")
			kv.v.toYAML(sb)
		}
		sb.WriteByte('}')
	default:
		sb.WriteString("null")
	}
}

func rcZ(z *big.Int) string {
	if z.Sign() < 0 {
		return "(" + z.String() + ")%Z"
	}
	return z.String() + "%Z"
}

func (v *rcVal) toCoq() string {
	switch v.kind {
	case rcStr:
		return hx.App("YStr", hx.Str(v.s))
	case rcInt:
		return hx.App("YInt", rcZ(v.z))
	case rcBool:
		return hx.App("YBool", hx.Bool(v.b))
	case rcFloat:
		return hx.App("YFloatText", hx.Str(fmt.Sprintf("%v", v.f)))
	case rcList:
		s := make([]string, len(v.l))
		for i, x := range v.l {
			s[i] = x.toCoq()
		}
		return hx.App("YList", hx.List(s))
	case rcMap:
		s := make([]string, len(v.m))
		for i, kv := range v.m {
			s[i] = hx.Tuple(hx.Str(kv.k), kv.v.toCoq())
		}
		return hx.App("YMap", hx.List(s))
	}
	return "YNull"
}

func (v *rcVal) toJSON() any {
	switch v.kind {
	case rcStr:
		return v.s
	case rcInt:
		return map[string]any{"int": v.z.String()}
	case rcBool:
		return v.b
	case rcFloat:
		return map[string]any{"float": fmt.Sprintf("%v", v.f)}
	case rcList:
		r := make([]any, len(v.l))
		for i, x := range v.l {
			r[i] = x.toJSON()
		}
		return r
	case rcMap:
		r := map[string]any{}
		for _, kv := range v.m {
			r[kv.k] = kv.v.toJSON()
		}
		return r
	}
	return nil
}

func (v *rcVal) strings(acc map[string]struct{}) {
	switch v.kind {
	case rcStr:
		acc[v.s] = struct{}{}
	case rcList:
		for _, x := range v.l {
			x.strings(acc)
		}
	case rcMap:
		for _, kv := range v.m {
			kv.v.strings(acc)
		}
	}
}

// ---- addresses -----------------------------------------------------------------------------------

func rcAddrParts(a netip.Addr) (fam int, val *big.Int) {
	if a.Is4() {
		b := a.As4()
		return 4, new(big.Int).SetBytes(b[:])
	}
	b := a.As16()
	return 6, new(big.Int).SetBytes(b[:])
}

func rcPrefixLit(p netip.Prefix) string {
	f, v := rcAddrParts(p.Addr())
	return hx.Tuple(strconv.Itoa(f), v.String(), strconv.Itoa(p.Bits()))
}

func rcAddrLit(a netip.Addr) string {
	f, v := rcAddrParts(a)
	return hx.Tuple(strconv.Itoa(f), v.String(), hx.Str(a.Zone()))
}

func rcRoutesLit(rs []overlay.Route) string {
	out := make([]string, len(rs))
	for i, r := range rs {
		gws := make([]string, len(r.Via))
		for j, g := range r.Via {
			gws[j] = hx.Tuple(rcAddrLit(g.Addr()), hx.Z(int64(routing.VerifGatewayWeight(g))))
		}
		out[i] = hx.Tuple(hx.Z(int64(r.MTU)), hx.Z(int64(r.Metric)), rcPrefixLit(r.Cidr), hx.List(gws), hx.Bool(r.Install))
	}
	return hx.List(out)
}

func rcRoutesJSON(rs []overlay.Route) any {
	out := make([]any, len(rs))
	for i, r := range rs {
		gws := make([]any, len(r.Via))
		for j, g := range r.Via {
			gws[j] = map[string]any{"gateway": g.Addr().String(), "weight": routing.VerifGatewayWeight(g)}
		}
		out[i] = map[string]any{"mtu": r.MTU, "metric": r.Metric, "cidr": r.Cidr.String(), "via": gws, "install": r.Install}
	}
	return out
}

// ---- generators ----------------------------------------------------------------------------------

type rcGen struct {
	c         *hx.Ctx
	clean     bool // only well-formed fields are generated (the deep, accepting branch)
	stringNum bool // some metric / weight / mtu was given as a decimal string
	otherType bool // some numeric field was given as another YAML type
}

var rcNetSets = [][]string{
	{"10.0.0.0/24"}, {"10.1.2.3/16"}, {"192.168.0.1/32"}, {"fd00::/64"}, {"10.0.0.0/24", "fd00:1::5/48"},
	{"172.16.0.0/12", "10.128.0.0/9", "fd12:3456::/32"}, {"0.0.0.0/0"}, {"::/0", "10.0.0.0/8"}, {}, {"10.0.0.0/8", "10.0.0.0/24"},
	{"100.64.0.0/10"}, {"::ffff:10.0.0.0/104"},
}

var rcBadNums = []string{"12a", "", " 7", "7 ", "0x10", "1e3", "1_000", "1300.5", "1.0", "nope", "-", "+", "--5", "+-5", "٣", "1 300",
	"99999999999999999999", "9223372036854775808", "-9223372036854775809", "0b11", "0o17", "١٢", "5\n", "\t5"}

// num renders target as a configuration value of a random form; valid reports whether parseIntValue
// is expected to yield target.
func (g *rcGen) num(target int64) *rcVal {
	c := g.c
	dec := strconv.FormatInt(target, 10)
	k := c.Intn(100)
	if g.clean {
		k = c.Intn(71)
		if k >= 66 && (target < 0 || c.Chance(0.5)) {
			k = 40
		}
	}
	switch {
	case k < 36:
		return rcI(target)
	case k < 66:
		g.stringNum = true
		return rcS(dec)
	case k < 71:
		g.stringNum = true
		switch c.Intn(4) {
		case 0:
			if target >= 0 {
				return rcS("+" + dec)
			}
			return rcS(dec)
		case 1:
			if target >= 0 {
				return rcS("00" + dec)
			}
			return rcS("-0" + dec[1:])
		case 2:
			return rcS(strings.Repeat("0", 25) + strconv.FormatInt(abs64(target), 10))
		default:
			if target == 0 {
				return rcS("-0")
			}
			return rcS(dec)
		}
	case k < 80:
		return rcS(rcBadNums[c.Intn(len(rcBadNums))])
	case k < 84:
		g.otherType = true
		return rcB(c.Chance(0.5))
	case k < 89:
		g.otherType = true
		switch c.Intn(4) {
		case 0:
			return rcF(float64(target))
		case 1:
			return rcF(float64(target) + 0.5)
		case 2:
			return rcF(1e300)
		default:
			return rcF(float64(c.Intn(3)))
		}
	case k < 92:
		g.otherType = true
		return rcNil()
	case k < 94:
		g.otherType = true
		return rcL(rcI(target))
	case k < 96:
		g.otherType = true
		return rcM(rcKV{"value", rcI(target)})
	default:
		g.otherType = true
		z := new(big.Int).SetUint64(math.MaxUint64 - uint64(c.Intn(3)))
		if c.Chance(0.5) {
			z = new(big.Int).SetUint64(uint64(math.MaxInt64) + 1 + uint64(c.Intn(3)))
		}
		return &rcVal{kind: rcInt, z: z}
	}
}

func abs64(x int64) int64 {
	if x < 0 {
		return -x
	}
	return x
}

func (g *rcGen) pick(valid []int64, invalid []int64, pValid float64) int64 {
	if g.clean || g.c.Chance(pValid) {
		return valid[g.c.Intn(len(valid))]
	}
	return invalid[g.c.Intn(len(invalid))]
}

func (g *rcGen) mtuTarget(unsafe bool) int64 {
	valid := []int64{500, 501, 1300, 1500, 9000, 65535, 65536, 1 << 31, math.MaxInt64, int64(500 + g.c.Intn(9000))}
	invalid := []int64{499, 1, -1, -500, math.MinInt64, int64(g.c.Intn(500))}
	if unsafe {
		valid = append(valid, 0, 0)
	} else {
		invalid = append(invalid, 0)
	}
	return g.pick(valid, invalid, 0.85)
}

func (g *rcGen) metricTarget() int64 {
	return g.pick([]int64{0, 1, 100, math.MaxInt32, math.MaxInt32 - 1, int64(g.c.Intn(100000))},
		[]int64{-1, math.MaxInt32 + 1, math.MaxInt64, math.MinInt64, -100}, 0.88)
}

func (g *rcGen) weightTarget() int64 {
	return g.pick([]int64{1, 2, 5, 10, math.MaxInt32, math.MaxInt32 - 1, int64(1 + g.c.Intn(1000))},
		[]int64{0, -1, math.MaxInt32 + 1, math.MaxInt64, math.MinInt64}, 0.9)
}

func (g *rcGen) randAddr(v6 bool) netip.Addr {
	c := g.c
	if v6 {
		var b [16]byte
		copy(b[:], c.RandBytes(16))
		if c.Chance(0.5) {
			b[0], b[1] = 0xfd, byte(c.Intn(3))
		}
		return netip.AddrFrom16(b)
	}
	var b [4]byte
	copy(b[:], c.RandBytes(4))
	switch c.Intn(4) {
	case 0:
		b[0] = 10
	case 1:
		b[0], b[1] = 172, byte(16+c.Intn(16))
	}
	return netip.AddrFrom4(b)
}

// addrIn returns a random address inside p (host bits random)
func (g *rcGen) addrIn(p netip.Prefix) netip.Addr {
	a := p.Masked().Addr()
	if a.Is4() {
		b := a.As4()
		r := g.c.RandBytes(4)
		for i := 0; i < 32; i++ {
			if i >= p.Bits() && r[i/8]&(0x80>>(i%8)) != 0 {
				b[i/8] |= 0x80 >> (i % 8)
			}
		}
		return netip.AddrFrom4(b)
	}
	b := a.As16()
	r := g.c.RandBytes(16)
	for i := 0; i < 128; i++ {
		if i >= p.Bits() && r[i/8]&(0x80>>(i%8)) != 0 {
			b[i/8] |= 0x80 >> (i % 8)
		}
	}
	return netip.AddrFrom16(b)
}

var rcBadCidrs = []string{"10.0.0.0", "10.0.0.0/33", "10.0.0.0/-1", "10.0.0/24", "", "abc", "10.0.0.0/24 ", " 10.0.0.0/24", "fd00::%eth0/64",
	"10.0.0.0/08", "fd00::/129", "10.0.0.0/24/1", "/24", "10.0.0.256/24", "1.2.3.4/", "::/", "10.0.0.0/+8"}

// cidr text for a route; inside says whether an inside-the-networks route is wanted
func (g *rcGen) cidr(nets []netip.Prefix, wantInside bool) *rcVal {
	c := g.c
	if g.clean {
		if wantInside && len(nets) > 0 {
			n := nets[c.Intn(len(nets))]
			a := g.addrIn(n)
			bits := n.Bits() + c.Intn(a.BitLen()-n.Bits()+1)
			if c.Chance(0.15) {
				bits = n.Bits()
			}
			p := netip.PrefixFrom(a, bits)
			if c.Chance(0.5) {
				p = p.Masked()
			}
			return rcS(p.String())
		}
		for try := 0; try < 20; try++ { // an address outside every network
			a := g.randAddr(c.Chance(0.3) || try > 10)
			in := false
			for _, n := range nets {
				if n.Contains(a) {
					in = true
				}
			}
			if !in {
				bits := c.Intn(a.BitLen() + 1)
				if c.Chance(0.1) {
					bits = 0
				}
				p := netip.PrefixFrom(a, bits)
				if c.Chance(0.5) && !p.Masked().Addr().IsUnspecified() {
					in2 := false
					for _, n := range nets {
						if n.Contains(p.Masked().Addr()) {
							in2 = true
						}
					}
					if !in2 {
						p = p.Masked()
					}
				}
				return rcS(p.String())
			}
		}
	}
	if c.Chance(0.06) {
		return rcS(rcBadCidrs[c.Intn(len(rcBadCidrs))])
	}
	if c.Chance(0.03) {
		switch c.Intn(5) {
		case 0:
			return rcI(int64(c.Intn(100)))
		case 1:
			return rcNil()
		case 2:
			return rcL(rcS("10.0.0.0/24"))
		case 3:
			return rcF(1.5)
		default:
			return rcB(true)
		}
	}
	if len(nets) > 0 && (wantInside || c.Chance(0.12)) && !c.Chance(0.1) {
		n := nets[c.Intn(len(nets))]
		a := g.addrIn(n)
		L := a.BitLen()
		bits := n.Bits() + c.Intn(L-n.Bits()+1)
		switch c.Intn(10) {
		case 0:
			bits = n.Bits()
		case 1:
			bits = L
		case 2:
			if n.Bits() > 0 { // shorter than the network: not inside
				bits = c.Intn(n.Bits())
			}
		case 3:
			if a.Is4() { // the IPv4-mapped form of an inside address is an IPv6 address
				return rcS(netip.PrefixFrom(netip.AddrFrom16(a.As16()), 96+bits).String())
			}
		}
		p := netip.PrefixFrom(a, bits)
		if c.Chance(0.5) {
			p = p.Masked()
		}
		return rcS(p.String())
	}
	a := g.randAddr(c.Chance(0.3))
	bits := c.Intn(a.BitLen() + 1)
	if c.Chance(0.1) {
		bits = 0
	}
	p := netip.PrefixFrom(a, bits)
	if c.Chance(0.7) {
		p = p.Masked()
	}
	return rcS(p.String())
}

var rcBadAddrs = []string{"", "10.0.0", "10.0.0.256", "nope", "10.0.0.1/24", "fe80::1%", ":::1", "1.2.3.4.5", " 10.0.0.1", "0x0a.0.0.1", "010.0.0.1"}

func (g *rcGen) addrText() *rcVal {
	c := g.c
	k := c.Intn(20)
	if g.clean && k < 1 {
		k = 5
	}
	switch {
	case k < 1:
		return rcS(rcBadAddrs[c.Intn(len(rcBadAddrs))])
	case k < 2:
		return rcS("fe80::" + strconv.Itoa(1+c.Intn(9)) + "%eth" + strconv.Itoa(c.Intn(3)))
	case k < 3:
		return rcS("::ffff:10.0.0." + strconv.Itoa(c.Intn(256)))
	default:
		return rcS(g.randAddr(c.Chance(0.25)).String())
	}
}

func (g *rcGen) via() *rcVal {
	c := g.c
	k := c.Intn(40)
	if g.clean {
		k = c.Intn(36)
	}
	switch {
	case k < 12:
		return g.addrText()
	case k < 36:
		n := 1 + c.Intn(4)
		if c.Chance(0.05) && !g.clean {
			n = 0
		}
		l := make([]*rcVal, n)
		for i := range l {
			gm := rcM(rcKV{"gateway", g.addrText()})
			if c.Chance(0.8) {
				gm.set("weight", g.num(g.weightTarget()))
			}
			dirt := c.Intn(40)
			if g.clean {
				dirt = 39
			}
			switch dirt {
			case 0:
				gm = rcM(rcKV{"weight", rcI(1)}) // gateway missing
			case 1:
				gm.set("gateway", rcI(int64(c.Intn(1000)))) // not a string
			case 2:
				l[i] = rcS("10.0.0.1") // entry not a map
				continue
			case 3:
				gm.set("gateway", rcNil())
			}
			l[i] = gm
		}
		return rcL(l...)
	case k < 37:
		return rcI(int64(c.Intn(10)))
	case k < 38:
		return rcNil()
	case k < 39:
		return rcM(rcKV{"gateway", g.addrText()})
	default:
		return rcB(true)
	}
}

func (g *rcGen) install() *rcVal {
	c := g.c
	strs := []string{"1", "t", "T", "TRUE", "true", "True", "0", "f", "F", "FALSE", "false", "False", "yes", "no", "on", "tRue", "", "2", "01"}
	if g.clean {
		if c.Chance(0.5) {
			return rcB(c.Chance(0.5))
		}
		return rcS(strs[c.Intn(12)])
	}
	switch k := c.Intn(10); {
	case k < 4:
		return rcB(c.Chance(0.5))
	case k < 7:
		return rcS(strs[c.Intn(len(strs))])
	case k < 8:
		return rcI(int64(c.Intn(4) - 1))
	case k < 9:
		return rcF([]float64{0, 1, 1.5, 2, -1, math.Copysign(0, -1), 1e21}[c.Intn(7)])
	default:
		return []*rcVal{rcNil(), rcL(rcB(true)), rcM(rcKV{"a", rcB(true)}), rcL()}[c.Intn(4)]
	}
}

func (g *rcGen) extras(m *rcVal) {
	if g.c.Chance(0.1) {
		m.set("comment", rcS("x"))
	}
	if g.c.Chance(0.05) {
		m.set("MTU", rcI(1)) // keys are case sensitive
	}
}

func (g *rcGen) routeEntry(nets []netip.Prefix) *rcVal {
	c := g.c
	m := rcM()
	if g.clean || !c.Chance(0.03) {
		m.set("mtu", g.num(g.mtuTarget(false)))
	}
	if g.clean || !c.Chance(0.03) {
		m.set("route", g.cidr(nets, true))
	}
	g.extras(m)
	if !g.clean && c.Chance(0.02) {
		return []*rcVal{rcS("asdf"), rcI(1), rcNil(), rcL()}[c.Intn(4)]
	}
	return m
}

func (g *rcGen) unsafeEntry(nets []netip.Prefix) *rcVal {
	c := g.c
	m := rcM()
	if c.Chance(0.6) {
		m.set("mtu", g.num(g.mtuTarget(true)))
	}
	if c.Chance(0.7) {
		m.set("metric", g.num(g.metricTarget()))
	}
	if g.clean || !c.Chance(0.03) {
		m.set("via", g.via())
	}
	if g.clean || !c.Chance(0.03) {
		m.set("route", g.cidr(nets, false))
	}
	if c.Chance(0.4) {
		m.set("install", g.install())
	}
	g.extras(m)
	if !g.clean && c.Chance(0.02) {
		return []*rcVal{rcS("asdf"), rcI(1), rcNil(), rcL()}[c.Intn(4)]
	}
	return m
}

// ---- running one case ----------------------------------------------------------------------------

var rcLog = slog.New(slog.NewTextHandler(io.Discard, nil))

func rcRun(cw *hx.CaseWriter, netStrs []string, v *rcVal, unsafe bool, label string, g *rcGen) {
	nets := make([]netip.Prefix, len(netStrs))
	netLits := make([]string, len(netStrs))
	for i, s := range netStrs {
		nets[i] = netip.MustParsePrefix(s)
		netLits[i] = rcPrefixLit(nets[i])
	}
	key := "routes"
	if unsafe {
		key = "unsafe_routes"
	}
	// through yaml.v3 when the decoded value is the intended one, else the value directly
	direct := map[string]any{"tun": map[string]any{key: v.toGo()}}
	var sb strings.Builder
	sb.WriteString("{\"tun\": {\"" + key + "\": ")
	v.toYAML(&sb)
	sb.WriteString("}}")
	c := config.NewC(rcLog)
	path := "yaml"
	if err := c.LoadString(sb.String()); err != nil || !reflect.DeepEqual(map[string]any(c.Settings), direct) {
		c = config.NewC(rcLog)
		c.Settings = direct
		path = "direct"
	}
	var rs []overlay.Route
	var err error
	var panicked bool
	if unsafe {
		rs, err, panicked = overlay.VerifParseUnsafeRoutes(c, nets)
	} else {
		rs, err, panicked = overlay.VerifParseRoutes(c, nets)
	}
	// oracle tables: netip.ParsePrefix / ParseAddr on every string of the value
	strs := map[string]struct{}{}
	v.strings(strs)
	keys := make([]string, 0, len(strs))
	for s := range strs {
		keys = append(keys, s)
	}
	sort.Strings(keys)
	var ppt, pat []string
	for _, s := range keys {
		if p, e := netip.ParsePrefix(s); e == nil {
			ppt = append(ppt, hx.Tuple(hx.Str(s), rcPrefixLit(p)))
		}
		if a, e := netip.ParseAddr(s); e == nil {
			pat = append(pat, hx.Tuple(hx.Str(s), rcAddrLit(a)))
		}
	}
	res := hx.None()
	if err == nil && !panicked {
		if rs == nil {
			rs = []overlay.Route{}
		}
		res = hx.Some(rcRoutesLit(rs))
	}
	verdict := "refused"
	if panicked {
		verdict = "panic"
	} else if err == nil {
		verdict = "ok"
	}
	kind := key + "-" + label + "-" + verdict
	if g != nil && g.stringNum {
		kind = key + "-stringnum-" + verdict // F1: numeric fields given as decimal strings
	} else if g != nil && g.otherType {
		kind = key + "-othertype-" + verdict // F1: numeric fields given as non-int non-string values
	}
	var lit string
	if unsafe {
		lit = hx.App("CUnsafe", hx.List(netLits), hx.List(ppt), hx.List(pat), v.toCoq(), res, hx.Bool(panicked))
	} else {
		lit = hx.App("CRoutes", hx.List(netLits), hx.List(ppt), v.toCoq(), res, hx.Bool(panicked))
	}
	desc := map[string]any{"op": key, "networks": netStrs, "value": v.toJSON(), "verdict": verdict, "via": path}
	if err == nil && !panicked {
		desc["routes"] = rcRoutesJSON(rs)
	}
	cw.Add(lit, kind, err == nil && !panicked && len(rs) > 0, desc)
}

func runRouteCfg(c *hx.Ctx) {
	cw := c.NewCaseWriter("From NV Require Import model.RouteCfg corr.RouteCfg_corr.", "RouteCfg_corr.case", "RouteCfg_corr.check_case", 400)
	net1 := []string{"10.0.0.0/24"}
	// 1. corpus: top-level shapes, the F1 witnesses, each numeric field in each form
	for _, unsafe := range []bool{false, true} {
		for _, v := range []*rcVal{rcNil(), rcL(), rcS("hi"), rcI(5), rcM(rcKV{"a", rcI(1)}), rcB(true), rcF(1.5), rcL(rcS("asdf")), rcL(rcM()),
			rcL(rcNil()), rcL(rcL())} {
			rcRun(cw, net1, v, unsafe, "shape", nil)
		}
	}
	forms := func(n int64) []*rcVal {
		d := strconv.FormatInt(n, 10)
		return []*rcVal{rcI(n), rcS(d), rcS("+" + d), rcS("0" + d), rcS(d + "a"), rcS(" " + d), rcS("0x" + strconv.FormatInt(n, 16)), rcS(""),
			rcS(d + ".0"), rcF(float64(n)), rcF(float64(n) + 0.5), rcB(true), rcB(false), rcNil(), rcL(rcI(n)), rcM(rcKV{"v", rcI(n)}),
			{kind: rcInt, z: new(big.Int).SetUint64(math.MaxUint64)}, rcS("99999999999999999999")}
	}
	for _, n := range []int64{499, 500, 1300, 65535} {
		for _, f := range forms(n) {
			g := &rcGen{c: c, stringNum: f.kind == rcStr, otherType: f.kind != rcStr && f.kind != rcInt}
			rcRun(cw, net1, rcL(rcM(rcKV{"mtu", f}, rcKV{"route", rcS("10.0.0.0/29")})), false, "corpus", g)
			rcRun(cw, net1, rcL(rcM(rcKV{"mtu", f}, rcKV{"route", rcS("1.0.0.0/8")}, rcKV{"via", rcS("10.0.0.2")})), true, "corpus", g)
		}
	}
	for _, n := range []int64{-1, 0, 100, math.MaxInt32, math.MaxInt32 + 1} {
		for _, f := range forms(n) {
			g := &rcGen{c: c, stringNum: f.kind == rcStr, otherType: f.kind != rcStr && f.kind != rcInt}
			rcRun(cw, net1, rcL(rcM(rcKV{"metric", f}, rcKV{"route", rcS("1.0.0.0/8")}, rcKV{"via", rcS("10.0.0.2")})), true, "corpus", g)
		}
	}
	for _, n := range []int64{-1, 0, 1, 5, math.MaxInt32, math.MaxInt32 + 1} {
		for _, f := range forms(n) {
			g := &rcGen{c: c, stringNum: f.kind == rcStr, otherType: f.kind != rcStr && f.kind != rcInt}
			rcRun(cw, net1, rcL(rcM(rcKV{"route", rcS("1.0.0.0/8")}, rcKV{"via", rcL(rcM(rcKV{"gateway", rcS("10.0.0.2")}, rcKV{"weight", f}),
				rcM(rcKV{"gateway", rcS("10.0.0.3")}))})), true, "corpus", g)
		}
	}
	for _, inst := range []*rcVal{rcB(true), rcB(false), rcS("t"), rcS("F"), rcS("yes"), rcI(1), rcI(0), rcI(2), rcF(1), rcF(0), rcF(1.5), rcNil(), rcL()} {
		rcRun(cw, net1, rcL(rcM(rcKV{"route", rcS("1.0.0.0/8")}, rcKV{"via", rcS("10.0.0.2")}, rcKV{"install", inst})), true, "install", nil)
	}
	// 2. random route lists
	for i := 0; i < c.N; i++ {
		g := &rcGen{c: c}
		netStrs := rcNetSets[c.Intn(len(rcNetSets))]
		nets := make([]netip.Prefix, len(netStrs))
		for j, s := range netStrs {
			nets[j] = netip.MustParsePrefix(s)
		}
		unsafe := c.Chance(0.6)
		n := 1 + c.Intn(3)
		if c.Chance(0.03) {
			n = 0
		}
		l := make([]*rcVal, n)
		allClean := c.Chance(0.75)
		for j := range l {
			g.clean = allClean || c.Chance(0.5)
			if unsafe {
				l[j] = g.unsafeEntry(nets)
			} else {
				l[j] = g.routeEntry(nets)
			}
		}
		rcRun(cw, netStrs, rcL(l...), unsafe, "random", g)
	}
	cw.Close("corpus (top-level shapes; every numeric field x {int, decimal string, +N, 0N, malformed strings, float, bool, null, list, map, " +
		"uint64, huge}; install forms), then random lists of 0..3 route / unsafe-route entries over 12 overlay network sets (v4, v6, unmasked, " +
		"empty, default route); configurations go through yaml.v3 (config.LoadString) whenever the decoded value equals the intended one; " +
		"non-trivial = accepted with at least one route; distinct by literal")
}

//go:build e2e_testing && (comp_all || comp_outside)

package main

// C14 (unauthenticated packets have no effect): gen_outside (T2 table of readOutsidePackets' gating) and the
// correspondence component `outside` (random concretisations of random rows, the documented rule evaluated on
// what the implementation did).
//
// A row is an abstract description of one underlay datagram arriving at a node; a concretisation is a real
// datagram with these features, built against the REAL node X of the standard world (c_outside_world.go) and
// handed to the real readOutsidePackets. The effect set is read off the difference of the node's state digest
// and off what the node wrote to its UDP socket and its tun.

import (
	"bytes"
	"fmt"
	"net/netip"
	"sort"
	"strings"

	"github.com/slackhq/nebula"
	"github.com/slackhq/nebula/header"
	"verifharness/hx"
)

func init() {
	hx.Register("gen_outside", outsGen)
	hx.Register("outside", outsRun)
}

// ---- rows -------------------------------------------------------------------------------------------------

const (
	outsViaDirect  = iota // arrived directly, source outside my overlay networks
	outsViaVpn            // arrived directly, source address inside my overlay networks
	outsViaRelayed        // payload of a verified packet on a terminal relay record (ViaSender.IsRelayed)
)
const (
	outsRelNA = iota
	outsRelTerm
	outsRelFwdEst
	outsRelFwdDown
)
const (
	outsRmNA = iota
	outsRmMatch
	outsRmDiffer
	outsRmInvalid
)

// effects (bit numbers of the mask)
const (
	outsEDeliver = iota // written to the tun
	outsEClose          // a tunnel left the hostmap
	outsERoam           // a tunnel's underlay remote changed
	outsELive           // inbound-traffic flag of a tunnel / relay-used mark set
	outsEWin            // a replay window advanced
	outsELH             // lighthouse cache changed or a lighthouse message was sent
	outsECtl            // relay state changed or a relay control message was sent
	outsEFwd            // relayed payload forwarded to the relay target
	outsERecvErr        // a recv_error was sent
	outsEHS             // handshake manager acted (tunnel or pending handshake created, handshake packet sent)
	outsEReply          // test reply sent
	outsEUnwrap         // payload of a relay packet processed as a packet of its own
	outsEOther          // anything else
	outsENum
)

var outsENames = []string{"deliver", "close", "roam", "live", "win", "lh", "ctl", "fwd", "recverr", "hs", "reply", "unwrap", "other"}

type outsRow struct {
	ty, st                 int
	ver                    bool
	via                    int
	cfgS, cfgA             bool
	idx, full, auth, fresh bool
	rel, rm                int
}

func outsFeasible(r outsRow) bool {
	hs, re := r.ty == 0, r.ty == 2
	if hs && (r.idx || r.auth || r.fresh) {
		return false
	}
	if re && (r.auth || r.fresh) {
		return false
	}
	if !r.idx && (r.auth || r.fresh) {
		return false
	}
	if !r.full && r.auth {
		return false
	}
	if (r.rel != outsRelNA) != (r.ty == 1 && r.st == 1 && r.idx) {
		return false
	}
	if (r.rm != outsRmNA) != (re && r.idx) {
		return false
	}
	return true
}

// outsAllRows enumerates the feasible rows in the canonical order (the same nesting as all_rows in
// coq/model/Outside.v: the generated table must list exactly these, in this order).
func outsAllRows() []outsRow {
	var out []outsRow
	bs := []bool{false, true}
	for ty := 0; ty < 16; ty++ {
		for st := 0; st < 3; st++ {
			for _, ver := range bs {
				for via := 0; via < 3; via++ {
					for _, cs := range bs {
						for _, ca := range bs {
							for _, idx := range bs {
								for _, full := range bs {
									for _, auth := range bs {
										for _, fresh := range bs {
											for rel := 0; rel < 4; rel++ {
												for rm := 0; rm < 4; rm++ {
													r := outsRow{ty, st, ver, via, cs, ca, idx, full, auth, fresh, rel, rm}
													if outsFeasible(r) {
														out = append(out, r)
													}
												}
											}
										}
									}
								}
							}
						}
					}
				}
			}
		}
	}
	return out
}

var outsViaNames = []string{"VDirect", "VVpn", "VRelayed"}
var outsRelNames = []string{"RNA", "RTerm", "RFwdEst", "RFwdDown"}
var outsRmNames = []string{"MNA", "MMatch", "MDiffer", "MInvalid"}

func (r outsRow) lit() string {
	return fmt.Sprintf("(mkRow %d %d %s %s %s %s %s %s %s %s %s %s)", r.ty, r.st, hx.Bool(r.ver), outsViaNames[r.via], hx.Bool(r.cfgS), hx.Bool(r.cfgA),
		hx.Bool(r.idx), hx.Bool(r.full), hx.Bool(r.auth), hx.Bool(r.fresh), outsRelNames[r.rel], outsRmNames[r.rm])
}

func (r outsRow) json() map[string]any {
	return map[string]any{"ty": r.ty, "st": r.st, "ver": r.ver, "via": outsViaNames[r.via], "cfgS": r.cfgS, "cfgA": r.cfgA, "idx": r.idx, "full": r.full,
		"auth": r.auth, "fresh": r.fresh, "rel": outsRelNames[r.rel], "rm": outsRmNames[r.rm]}
}

func outsMaskNames(m uint32) []string {
	var s []string
	for i := 0; i < outsENum; i++ {
		if m&(1<<i) != 0 {
			s = append(s, outsENames[i])
		}
	}
	return s
}

// ---- classification of what a node did -----------------------------------------------------------------------

// outsClassify turns the difference of two digests plus the node's output into an effect mask.
// inner: the relayed payload that was inside the injected datagram (nil if none), to recognise forwarding.
// ignoreTunnel: local index of a tunnel whose changes are summarised as "unwrap" (0: none).
func outsClassify(b, a nebula.VerifOutsideDigest, udp []nebula.VerifOutsidePkt, tun [][]byte, inner []byte) (mask uint32, notes []string) {
	set := func(e int) { mask |= 1 << e }
	note := func(f string, args ...any) { notes = append(notes, fmt.Sprintf(f, args...)) }
	if len(tun) > 0 {
		set(outsEDeliver)
	}
	closed, opened := false, false
	for l := range b.Tunnels {
		if _, ok := a.Tunnels[l]; !ok {
			closed = true
		}
	}
	for l := range a.Tunnels {
		if _, ok := b.Tunnels[l]; !ok {
			opened = true
		}
	}
	if closed {
		set(outsEClose)
	}
	if opened || b.Pending != a.Pending {
		set(outsEHS)
	}
	remotesChanged := false
	for l, bt := range b.Tunnels {
		at, ok := a.Tunnels[l]
		if !ok {
			continue
		}
		for k, bv := range bt {
			av := at[k]
			if av == bv {
				continue
			}
			switch k {
			case "remote", "roamFrom":
				set(outsERoam)
			case "in":
				set(outsELive)
			case "win":
				set(outsEWin)
			case "relays":
				set(outsECtl)
			case "sent":
				if len(udp) == 0 {
					set(outsEOther)
					note("send counter of %d moved without output", l)
				}
			case "remotes":
				remotesChanged = true
			default:
				set(outsEOther)
				note("tunnel %d field %s: %q -> %q", l, k, bv, av)
			}
		}
	}
	// the learned underlay address of a peer is written by roaming (HostInfo.SetRemote -> RemoteList.LearnRemote) and
	// by the handshake manager (beginHandshake learns the source of a stage-1 packet)
	if b.LHLearned != a.LHLearned && !closed && !opened && mask&(1<<outsERoam) == 0 {
		set(outsEHS)
	}
	if remotesChanged && !closed && !opened && mask&(1<<outsERoam) == 0 && b.LH == a.LH {
		set(outsEHS)
	}
	if b.RelayUsed != a.RelayUsed {
		set(outsELive)
	}
	if b.RelayIdx != a.RelayIdx && !closed && !opened {
		set(outsECtl)
	}
	if (b.Hosts != a.Hosts || b.RemoteIdx != a.RemoteIdx) && !closed && !opened {
		set(outsEOther)
		note("hostmap order/indexes changed: %q -> %q", b.Hosts, a.Hosts)
	}
	if b.LH != a.LH && !closed && !opened {
		set(outsELH)
	}
	if b.Conntrack != a.Conntrack && len(tun) == 0 && !opened { // a completed handshake flushes the packets queued for it
		set(outsEOther)
		note("conntrack changed without delivery")
	}
	for _, p := range udp {
		var h header.H
		if err := h.Parse(p.Data); err != nil {
			set(outsEOther)
			note("unparsable output of %d bytes to %s", len(p.Data), p.To)
			continue
		}
		t, s, body := h.Type, h.Subtype, p.Data[header.Len:]
		if t == header.Message && s == header.MessageRelay {
			if len(body) < 16+header.Len {
				set(outsEOther)
				continue
			}
			in := body[:len(body)-16]
			if inner != nil && bytes.Equal(in, inner) {
				set(outsEFwd)
				continue
			}
			var ih header.H
			if err := ih.Parse(in); err != nil {
				set(outsEOther)
				continue
			}
			t, s = ih.Type, ih.Subtype
		}
		switch {
		case t == header.RecvError:
			set(outsERecvErr)
		case t == header.Test && s == header.TestReply:
			set(outsEReply)
		case t == header.LightHouse:
			set(outsELH)
		case t == header.Control:
			set(outsECtl)
		case t == header.Handshake:
			set(outsEHS)
		case t == header.Test && s == header.TestRequest:
			set(outsEHS) // handleCheckAndCompleteError probes the existing tunnel when it refuses a handshake
		case t == header.Message && s == header.MessageNone && opened:
			set(outsEHS) // packets queued for the handshake that just completed
		default:
			set(outsEOther)
			note("output of type %d/%d to %s", t, s, p.To)
		}
	}
	return mask, notes
}

// ---- the laboratory: node X of the standard world, plus two spare nodes -----------------------------------------

type outsLab struct {
	c      *hx.Ctx
	w      *outsWorld
	x      *outsNode
	base   map[uint32]netip.AddrPort // standing tunnels: the underlay remote they are reset to before every injection
	seq    int
	builds int
	notes  []string
}

const outsM = "M"

func outsNewLab(c *hx.Ctx) *outsLab {
	l := &outsLab{c: c}
	l.build()
	return l
}

func (l *outsLab) build() {
	specs := append(outsStdSpecs(), outsNodeSpec{name: outsM, vpn: "10.128.0.41/24", udp: "10.0.0.41:4242"})
	l.w = outsStdWorldFrom(specs)
	l.x = l.w.n(outsX)
	l.w.n(outsM).LearnAddr(l.x.vpn, l.x.udp)
	l.base = map[uint32]netip.AddrPort{}
	for _, t := range l.x.Tunnels() {
		l.base[t.Local] = t.RemoteAddr
	}
	l.builds++
}

// victim returns the local index (at X) of the throw-away tunnel X<->N, establishing it if it is gone.
func (l *outsLab) victim() nebula.VerifOutsideTunnel {
	n := l.w.n(outsN)
	if t, ok := l.x.Tunnel(n.vpn); ok {
		return t
	}
	if t, ok := n.Tunnel(l.x.vpn); ok {
		n.CloseLocal(t.Local)
	}
	n.DropPending(l.x.vpn)
	n.LearnAddr(l.x.vpn, l.x.udp) // closing the tunnel dropped what N knew about X
	n.TunSend(outsUDP4(n.vpn, l.x.vpn, 4000, 4001, []byte("victim")))
	l.w.settle(6)
	l.w.takeTun(outsX)
	t, ok := l.x.Tunnel(n.vpn)
	if !ok {
		panic("outside lab: the throw-away tunnel does not come up")
	}
	return t
}

func (l *outsLab) tunnelTo(name string) nebula.VerifOutsideTunnel {
	t, ok := l.x.Tunnel(l.w.n(name).vpn)
	if !ok {
		panic("outside lab: standing tunnel to " + name + " is gone")
	}
	return t
}

func (l *outsLab) relayRec(ownerName string, typ int) nebula.VerifOutsideRelayRec {
	owner := l.tunnelTo(ownerName)
	for _, r := range l.x.RelayRecords() {
		if r.OwnerLocal == owner.Local && r.Type == typ {
			return r
		}
	}
	panic("outside lab: no relay record on tunnel to " + ownerName)
}

func (l *outsLab) srcAddr(private bool) netip.AddrPort {
	l.seq++
	k := byte(l.seq%200 + 20)
	port := uint16(20000 + l.seq%20000)
	if private {
		switch l.c.Intn(3) {
		case 0:
			return netip.AddrPortFrom(netip.AddrFrom4([4]byte{10, 9, byte(l.c.Intn(250)), k}), port)
		case 1:
			return netip.AddrPortFrom(netip.AddrFrom4([4]byte{192, 168, byte(l.c.Intn(250)), k}), port)
		default:
			return netip.AddrPortFrom(netip.AddrFrom4([4]byte{172, 20, byte(l.c.Intn(250)), k}), port)
		}
	}
	switch l.c.Intn(2) {
	case 0:
		return netip.AddrPortFrom(netip.AddrFrom4([4]byte{198, 51, 100, k}), port)
	default:
		return netip.AddrPortFrom(netip.AddrFrom4([4]byte{203, 0, 113, k}), port)
	}
}

// modes: the listen.*_recv_error settings under which ShouldRecvError(src) is `want`.
func outsModes(want, srcPrivate bool) []string {
	if want {
		if srcPrivate {
			return []string{"always", "private"}
		}
		return []string{"always"}
	}
	if srcPrivate {
		return []string{"never"}
	}
	return []string{"never", "private"}
}

func (l *outsLab) pick(xs []string) string { return xs[l.c.Intn(len(xs))] }

func (l *outsLab) payloadFor(ty, st int, peer netip.Addr) []byte {
	l.seq++
	switch {
	case ty == 1 && st == 0:
		return outsUDP4(peer, l.x.vpn, uint16(3000+l.seq%1000), 4001, []byte(fmt.Sprintf("probe %d", l.seq)))
	case ty == 3 && st == 0:
		return nebula.VerifOutsideHostUpdate(peer, netip.AddrPortFrom(netip.AddrFrom4([4]byte{198, 18, byte(l.seq >> 8), byte(l.seq)}), uint16(1000+l.seq%50000)))
	case ty == 5:
		return []byte{}
	case ty == 6 && st == 0:
		from := netip.AddrFrom4([4]byte{10, 130 + byte(l.seq>>16), byte(l.seq >> 8), byte(l.seq)}) // a relay peer never seen before
		return nebula.VerifOutsideCtlRequest(uint32(0x51000000+l.seq), from, l.x.vpn)
	default:
		return l.c.RandBytes(8 + l.c.Intn(24))
	}
}

type outsShot struct {
	row    outsRow
	mask   uint32
	notes  []string
	desc   map[string]any
	panic_ string
}

// eval builds one concrete datagram with the features of r, injects it into X and reports what X did.
func (l *outsLab) eval(r outsRow) outsShot {
	c, x := l.c, l.x
	desc := map[string]any{}
	// --- source address and recv_error settings
	var src netip.AddrPort
	srcPrivate := c.Chance(0.5)
	switch r.via {
	case outsViaVpn:
		l.seq++
		src = netip.AddrPortFrom(netip.AddrFrom4([4]byte{10, 128, 0, byte(60 + l.seq%30)}), uint16(5000+l.seq%1000))
		srcPrivate = true
	case outsViaRelayed:
		src = l.w.n(outsR).udp // ViaSender.UdpAddr of a relayed packet: the relay's underlay address
		srcPrivate = true
	default:
		src = l.srcAddr(srcPrivate)
	}
	sendMode, acceptMode := l.pick(outsModes(r.cfgS, srcPrivate)), l.pick(outsModes(r.cfgA, srcPrivate))
	x.SetRecvError(sendMode, acceptMode)
	desc["src"], desc["send_recv_error"], desc["accept_recv_error"] = src.String(), sendMode, acceptMode

	// --- reset what earlier shots may have moved
	for local, a := range l.base {
		x.SetRemote(local, a)
	}

	// --- the tunnel / index the packet names
	ver := uint8(header.Version)
	if !r.ver {
		ver = uint8([]int{0, 2, 3, 7, 15}[c.Intn(5)])
	}
	st := uint8(r.st)
	if r.st == 2 {
		st = uint8(2 + c.Intn(254))
	}
	ty := uint8(r.ty)
	isRelayPkt := r.ty == 1 && r.st == 1
	var pkt, inner []byte
	var ignore uint32 // tunnel whose changes are summarised as "unwrap"
	relayLocalForVia := l.relayRec(outsR, nebula.VerifOutsideTerminalType).Local

	freshCtr := func(cur uint64) uint64 {
		if r.fresh {
			return cur + 1 + uint64(c.Intn(3))
		}
		opts := []uint64{0, 1, 2, cur}
		return opts[c.Intn(len(opts))]
	}
	spoil := func(p []byte, lo int) []byte { // break authenticity without touching type, subtype, version, index, counter
		q := append([]byte(nil), p...)
		switch c.Intn(3) {
		case 0: // reserved field of the header (covered by the AD)
			q[2+c.Intn(2)] ^= 1 << c.Intn(8)
		case 1: // tag
			q[len(q)-1-c.Intn(16)] ^= 1 << c.Intn(8)
		default: // anywhere after the header
			q[lo+c.Intn(len(q)-lo)] ^= 1 << c.Intn(8)
		}
		return q
	}
	randomIndex := func() uint32 {
		for {
			i := uint32(c.U64())
			t, rl, rv := x.Resolve(i)
			if !t && !rl && !rv {
				return i
			}
		}
	}

	switch {
	case r.ty == 0: // ---------------------------------------------------------------- handshake
		m := l.w.n(outsM)
		m.DropPending(x.vpn)
		m.StartHandshake(x.vpn)
		m.Pump()
		m.Attempt(x.vpn)
		for _, p := range m.DrainUDP() {
			if p.To == x.udp {
				pkt = p.Data
			}
		}
		if pkt == nil {
			panic("outside lab: spare node produced no handshake packet")
		}
		pkt[0] = ver<<4 | ty
		pkt[1] = st
		if !r.full {
			pkt = pkt[:16+c.Intn(16)]
		}
		desc["packet"] = "stage-1 handshake of a fresh node"
	case r.ty == 2: // ---------------------------------------------------------------- recv_error
		idx := randomIndex()
		if r.idx {
			var t nebula.VerifOutsideTunnel
			if r.ver && r.st == 0 {
				t = l.victim()
			} else {
				t = l.tunnelTo([]string{outsP1, outsP2}[c.Intn(2)])
			}
			idx = t.Remote
			switch r.rm {
			case outsRmMatch:
				x.SetRemote(t.Local, src)
			case outsRmDiffer:
				x.SetRemote(t.Local, l.srcAddr(c.Chance(0.5)))
			case outsRmInvalid:
				x.SetRemote(t.Local, netip.AddrPort{})
			}
			desc["target"] = t.VpnAddrs[0].String()
		} else if c.Chance(0.3) {
			idx = l.tunnelTo(outsP1).Local // my own local index is not a reverse index
			if _, _, rv := x.Resolve(idx); rv {
				idx = randomIndex()
			}
		}
		pkt = header.Encode(make([]byte, 16, 64), ver, header.MessageType(ty), header.MessageSubType(st), idx, c.U64())
		if r.full {
			pkt = append(pkt, c.RandBytes(16+c.Intn(16))...)
		} else {
			pkt = append(pkt, c.RandBytes(c.Intn(16))...)
		}
		desc["packet"] = "recv_error"
	case isRelayPkt: // ----------------------------------------------------------------- relay wrapper
		// the probe: an authentic fresh data packet of Q's tunnel
		q := l.tunnelTo(outsQ)
		inner = x.Seal(q.Local, q.Local, header.Version, 1, 0, q.WinCur+1, l.payloadFor(1, 0, l.w.n(outsQ).vpn))
		ignore = q.Local
		if r.idx {
			var rec nebula.VerifOutsideRelayRec
			switch r.rel {
			case outsRelTerm:
				rec = l.relayRec(outsR, nebula.VerifOutsideTerminalType)
			default:
				owner, target := outsP1, outsP2
				if c.Chance(0.5) {
					owner, target = outsP2, outsP1
				}
				rec = l.relayRec(owner, nebula.VerifOutsideForwardingType)
				trec := l.relayRec(target, nebula.VerifOutsideForwardingType)
				state := nebula.VerifOutsideEstablished
				if r.rel == outsRelFwdDown {
					state = []int{nebula.VerifOutsideRequested, nebula.VerifOutsidePeerRequested, nebula.VerifOutsideDisestablished}[c.Intn(3)]
				}
				x.SetRelayState(trec.Local, state)
				defer x.SetRelayState(trec.Local, nebula.VerifOutsideEstablished)
			}
			owner, _ := x.RelayOwner(rec.Local)
			ctr := freshCtr(owner.WinCur)
			pkt = x.SealRelay(rec.Local, rec.Local, ver, ty, st, ctr, inner)
			if !r.full {
				pkt = pkt[:16+c.Intn(16)]
			} else if !r.auth {
				if c.Chance(0.3) { // tag under another tunnel's key
					other := l.relayRec(outsR, nebula.VerifOutsideTerminalType)
					if other.Local == rec.Local {
						other = l.relayRec(outsP1, nebula.VerifOutsideForwardingType)
					}
					pkt = x.SealRelay(other.Local, rec.Local, ver, ty, st, ctr, inner)
				} else {
					pkt = spoil(pkt, 16)
				}
			}
			desc["relay_index_of"] = owner.VpnAddrs[0].String()
		} else {
			idx := randomIndex()
			if c.Chance(0.4) {
				idx = l.tunnelTo(outsP1).Local // a tunnel index is not a relay index
			}
			pkt = header.Encode(make([]byte, 16, 256), ver, header.MessageType(ty), header.MessageSubType(st), idx, c.U64())
			if r.full {
				pkt = append(append(pkt, inner...), c.RandBytes(16)...)
			} else {
				pkt = append(pkt, c.RandBytes(c.Intn(16))...)
			}
		}
		desc["packet"] = "relay wrapper around an authentic data packet of the relayed peer"
	default: // ---------------------------------------------------------------------------- everything encrypted
		if r.idx {
			var t nebula.VerifOutsideTunnel
			mayClose := r.ty == 5 && r.full && r.auth && r.fresh
			switch {
			case mayClose:
				t = l.victim()
			case r.via == outsViaRelayed:
				t = l.tunnelTo([]string{outsQ, outsQ, outsP1}[c.Intn(3)])
			default:
				t = l.tunnelTo([]string{outsP1, outsP2, outsP1, outsP2, outsQ, outsR}[c.Intn(6)])
			}
			ctr := freshCtr(t.WinCur)
			pkt = x.Seal(t.Local, t.Local, ver, ty, st, ctr, l.payloadFor(r.ty, r.st, t.VpnAddrs[0]))
			if !r.full {
				pkt = pkt[:16+c.Intn(16)]
			} else if !r.auth {
				if c.Chance(0.3) { // cross-tunnel splice: sealed under another tunnel's key
					o := l.tunnelTo(outsP2)
					if o.Local == t.Local {
						o = l.tunnelTo(outsP1)
					}
					pkt = x.Seal(o.Local, t.Local, ver, ty, st, ctr, l.payloadFor(r.ty, r.st, t.VpnAddrs[0]))
				} else {
					pkt = spoil(pkt, 16)
				}
			}
			desc["target"] = t.VpnAddrs[0].String()
		} else {
			idx := randomIndex()
			if c.Chance(0.3) {
				idx = l.relayRec(outsR, nebula.VerifOutsideTerminalType).Local // a relay index is not a tunnel index
				if t, _, _ := x.Resolve(idx); t {
					idx = randomIndex()
				}
			}
			pkt = header.Encode(make([]byte, 16, 128), ver, header.MessageType(ty), header.MessageSubType(st), idx, c.U64())
			if r.full {
				pkt = append(pkt, c.RandBytes(16+c.Intn(48))...)
			} else {
				pkt = append(pkt, c.RandBytes(c.Intn(16))...)
			}
		}
		desc["packet"] = "sealed as the peer would"
	}
	desc["bytes"] = len(pkt)

	// --- shoot
	x.ClearIn()
	x.DrainUDP()
	x.DrainTun()
	before := x.Digest()
	var pn string
	if r.via == outsViaRelayed {
		pn = x.InjectRelayed(relayLocalForVia, pkt)
	} else {
		pn = x.Inject(src, pkt)
	}
	udp, tun := x.DrainUDP(), x.DrainTun()
	after := x.Digest()
	if ignore != 0 { // the probe's own tunnel: summarise as "unwrap"
		bt, at := before.Tunnels[ignore], after.Tunnels[ignore]
		changed := len(tun) > 0
		if bt != nil && at != nil {
			for k, v := range bt {
				if at[k] != v {
					changed = true
				}
			}
			after.Tunnels[ignore] = bt
		}
		tun = nil
		after.Conntrack = before.Conntrack
		mask, notes := outsClassify(before, after, udp, tun, inner)
		if changed {
			mask |= 1 << outsEUnwrap
		}
		return l.finish(r, mask, notes, desc, pn)
	}
	mask, notes := outsClassify(before, after, udp, tun, inner)
	return l.finish(r, mask, notes, desc, pn)
}

func (l *outsLab) finish(r outsRow, mask uint32, notes []string, desc map[string]any, pn string) outsShot {
	x := l.x
	if pn != "" {
		mask |= 1 << outsEOther
		notes = append(notes, "panic: "+pn)
	}
	// repairs: a handshake from the spare node leaves a tunnel behind; a lost standing tunnel needs a new world
	m := l.w.n(outsM)
	if t, ok := x.Tunnel(m.vpn); ok {
		x.CloseLocal(t.Local)
	}
	x.DropPending(m.vpn)
	m.DropPending(x.vpn)
	m.DrainUDP()
	x.DrainUDP()
	for _, n := range l.w.order {
		l.w.n(n).DrainUDP()
	}
	for local := range l.base {
		if _, ok := x.TunnelByLocal(local); !ok {
			l.notes = append(l.notes, fmt.Sprintf("standing tunnel lost on row %v: world rebuilt", r.json()))
			l.build()
			break
		}
	}
	desc["notes"] = notes
	return outsShot{row: r, mask: mask, notes: notes, desc: desc, panic_: pn}
}

// evalShort injects a datagram of n < 16 random bytes.
func (l *outsLab) evalShort(n int, relayed bool) uint32 {
	x := l.x
	pkt := l.c.RandBytes(n)
	x.ClearIn()
	x.DrainUDP()
	x.DrainTun()
	before := x.Digest()
	var pn string
	if relayed {
		pn = x.InjectRelayed(l.relayRec(outsR, nebula.VerifOutsideTerminalType).Local, pkt)
	} else {
		pn = x.Inject(l.srcAddr(l.c.Chance(0.5)), pkt)
	}
	udp, tun := x.DrainUDP(), x.DrainTun()
	mask, _ := outsClassify(before, x.Digest(), udp, tun, nil)
	if pn != "" {
		mask |= 1 << outsEOther
	}
	return mask
}

// ---- gen_outside ------------------------------------------------------------------------------------------------

func outsGen(c *hx.Ctx) {
	lab := outsNewLab(c)
	rows := outsAllRows()
	const K = 3
	masks := make([]uint32, len(rows))
	var disagree []string
	for i, r := range rows {
		for k := 0; k < K; k++ {
			s := lab.eval(r)
			if k == 0 {
				masks[i] = s.mask
			} else if s.mask != masks[i] {
				disagree = append(disagree, fmt.Sprintf("row %v: %v vs %v (%v)", r.json(), outsMaskNames(masks[i]), outsMaskNames(s.mask), s.desc))
			}
		}
	}
	if len(disagree) > 0 {
		sort.Strings(disagree)
		if len(disagree) > 20 {
			disagree = disagree[:20]
		}
		panic("gen_outside: concretisations of one row disagree (the abstraction is too coarse):\n" + strings.Join(disagree, "\n"))
	}
	// datagrams shorter than a header: no row (nothing can be parsed), one entry
	shortMask, first := uint32(0), true
	for _, n := range []int{0, 1, 2, 7, 15} {
		for _, relayed := range []bool{false, true} {
			m := lab.evalShort(n, relayed)
			if first {
				shortMask, first = m, false
			} else if m != shortMask {
				panic(fmt.Sprintf("gen_outside: short datagrams disagree: %v vs %v", outsMaskNames(shortMask), outsMaskNames(m)))
			}
		}
	}
	ds, da := nebula.VerifOutsideDefaultRecvError(outsLogger("cfg"))
	var sb strings.Builder
	sb.WriteString("(* GENERATED from /repo/outside.go by harness gen_outside: do not edit.\n" +
		"   Every entry is the effect set the real readOutsidePackets / handleOutsideRelayPacket / handleRecvError produced on\n" +
		"   >= 3 different concrete datagrams with these abstract features, injected into a real node built by nebula.Main\n" +
		"   (all concretisations agreed). *)\n" +
		"From Coq Require Import List NArith.\nImport ListNotations.\nFrom NV Require Import lib.Outside_lib.\nOpen Scope N_scope.\n\n")
	fmt.Fprintf(&sb, "Definition t_handshake : N := %d.\nDefinition t_message : N := %d.\nDefinition t_recv_error : N := %d.\nDefinition t_lighthouse : N := %d.\nDefinition t_test : N := %d.\nDefinition t_close_tunnel : N := %d.\nDefinition t_control : N := %d.\n",
		header.Handshake, header.Message, header.RecvError, header.LightHouse, header.Test, header.CloseTunnel, header.Control)
	fmt.Fprintf(&sb, "Definition st_relay : N := %d.\nDefinition st_test_reply : N := %d.\n", header.MessageRelay, header.TestReply)
	fmt.Fprintf(&sb, "(* what an empty configuration selects for listen.send_recv_error / listen.accept_recv_error: %s / %s *)\n", ds, da)
	fmt.Fprintf(&sb, "Definition default_send_recv_error_always : bool := %s.\nDefinition default_accept_recv_error_always : bool := %s.\n\n",
		hx.Bool(ds == "always"), hx.Bool(da == "always"))
	fmt.Fprintf(&sb, "(* a datagram shorter than the 16 header bytes (lengths 0, 1, 2, 7, 15; direct and as a relayed payload) *)\nDefinition tab_short : N := %d.\n\n", shortMask)
	sb.WriteString("(* effect bits: ")
	for i, n := range outsENames {
		fmt.Fprintf(&sb, "%d=%s ", i, n)
	}
	sb.WriteString("*)\n")
	const chunk = 400
	nch := 0
	for i := 0; i < len(rows); i += chunk {
		fmt.Fprintf(&sb, "Definition tab_outside_%d : list (row * N) := [\n", nch)
		end := i + chunk
		if end > len(rows) {
			end = len(rows)
		}
		for j := i; j < end; j++ {
			sep := ";"
			if j == end-1 {
				sep = ""
			}
			fmt.Fprintf(&sb, " (%s, %d)%s\n", rows[j].lit(), masks[j], sep)
		}
		sb.WriteString("].\n")
		nch++
	}
	sb.WriteString("Definition tab_outside : list (row * N) :=\n ")
	for k := 0; k < nch; k++ {
		if k > 0 {
			sb.WriteString(" ++ ")
		}
		fmt.Fprintf(&sb, "tab_outside_%d", k)
	}
	sb.WriteString(".\n")
	fmt.Fprintf(&sb, "(* %d rows; world rebuilt %d times; notes: %d *)\n", len(rows), lab.builds-1, len(lab.notes))
	c.WriteFile("Tab_Outside.v", sb.String())
}

// ---- component `outside`: random rows, fresh concretisations -----------------------------------------------------

func outsRun(c *hx.Ctx) {
	lab := outsNewLab(c)
	rows := outsAllRows()
	cw := c.NewCaseWriter("From NV Require Import lib.Outside_lib corr.Outside_corr.", "Outside_corr.case", "Outside_corr.check_case", 800)
	emit := func(r outsRow, kind string) {
		s := lab.eval(r)
		d := r.json()
		d["effects"] = outsMaskNames(s.mask)
		d["concrete"] = s.desc
		nontrivial := s.mask != 0
		cw.Add(hx.App("Outside_corr.COne", r.lit(), hx.N(uint64(s.mask))), kind, nontrivial, d)
	}
	// the F12 witnesses first (known finding: an unauthenticated recv_error closes the tunnel)
	for _, rm := range []int{outsRmMatch, outsRmInvalid} {
		emit(outsRow{ty: 2, st: 0, ver: true, via: outsViaDirect, cfgS: true, cfgA: true, idx: true, rm: rm}, "recv_error-teardown")
	}
	// boundary sweep: every row of a valid type whose index resolves (authentic-fresh and every near miss)
	var deep, near []outsRow
	for _, r := range rows {
		if r.ver && r.st < 2 && r.idx && r.ty >= 1 && r.ty <= 6 && r.via != outsViaVpn {
			if r.cfgS && r.cfgA {
				emit(r, "sweep")
			}
			if r.full && r.auth && r.fresh {
				deep = append(deep, r)
			} else {
				near = append(near, r)
			}
		}
	}
	for i := 0; i < c.N; i++ {
		var r outsRow
		kind := "random"
		switch x := c.Intn(10); {
		case x < 5: // authentic and fresh: the deep branch
			r, kind = deep[c.Intn(len(deep))], "authentic-fresh"
		case x < 7: // one gate closed
			r, kind = near[c.Intn(len(near))], "near-miss"
		default:
			r = rows[c.Intn(len(rows))]
			if r.ty == 0 || r.ty == 2 {
				kind = "unencrypted-type"
			}
		}
		emit(r, kind)
	}
	cw.Meta("world_rebuilds", lab.builds-1)
	cw.Close("rows of the readOutsidePackets feature space (type 0..15, subtype class, version, direct/vpn-source/relayed, recv_error settings, index resolves, length, AEAD ok, counter fresh, relay record, recv_error source match); each concretised afresh against a real node; non-trivial = some effect observed; distinct by literal")
}

//go:build e2e_testing && (comp_all || comp_outside)

package main

import (
	"fmt"

	"verifharness/hx"
)

func init() { hx.Register("outs_smoke", outsSmoke) }

func outsSmoke(c *hx.Ctx) {
	w := outsStdWorld()
	for _, name := range w.order {
		nd := w.n(name)
		fmt.Printf("== %s vpn=%s udp=%s relay=%v lh=%v\n", name, nd.vpn, nd.udp, nd.AmRelay(), nd.AmLighthouse())
		for _, t := range nd.Tunnels() {
			fmt.Printf("   tunnel local=%d remote=%d vpn=%v addr=%v win=%d sent=%d\n", t.Local, t.Remote, t.VpnAddrs, t.RemoteAddr, t.WinCur, t.SendCtr)
		}
		for _, r := range nd.RelayRecords() {
			fmt.Printf("   relay owner=%d local=%d remote=%d peer=%v type=%d state=%d\n", r.OwnerLocal, r.Local, r.Remote, r.Peer, r.Type, r.State)
		}
		d := nd.Digest()
		fmt.Printf("   hosts: %s\n   lh: %s\n   pending: %s\n", d.Hosts, d.LH, d.Pending)
	}
	fmt.Printf("tun: %v\n", w.tun)
}

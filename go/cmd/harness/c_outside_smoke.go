//go:build e2e_testing && (comp_all || comp_outside)

package main

import (
	"fmt"
	"strings"
	"time"

	"verifharness/hx"
)

func init() { hx.Register("outs_smoke", outsSmoke) }

func outsSmoke(c *hx.Ctx) {
	w := outsStdWorld()
	for _, name := range w.order {
		nd := w.n(name)
		fmt.Printf("== %s vpn=%s udp=%s relay=%v lh=%v\n", name, nd.vpn, nd.udp, nd.AmRelay(), nd.AmLighthouse())
		for _, t := range nd.Tunnels() {
			fmt.Printf("   tunnel local=%d remote=%d vpn=%v addr=%v win=%d sent=%d\n", t.Local, t.Remote, t.VpnAddrs, t.RemoteAddr, t.WinCur, t.SendCtr)
		}
		for _, r := range nd.RelayRecords() {
			fmt.Printf("   relay owner=%d local=%d remote=%d peer=%v type=%d state=%d\n", r.OwnerLocal, r.Local, r.Remote, r.Peer, r.Type, r.State)
		}
		d := nd.Digest()
		fmt.Printf("   hosts: %s\n   lh: %s\n   pending: %s\n", d.Hosts, d.LH, d.Pending)
	}
	fmt.Printf("tun: %v\n", w.tun)
}

func init() { hx.Register("outs_f12", outsF12) }

func outsF12(c *hx.Ctx) {
	for _, cfg := range [][2]string{{"", ""}, {"always", "always"}, {"always", "never"}, {"always", "private"}} {
		w := outsStdWorld()
		x, p1, q := w.n(outsX), w.n(outsP1), w.n(outsQ)
		if cfg[0] != "" {
			x.SetRecvError(cfg[0], cfg[1])
		}
		ds, da := outsDefaultRecvErr()
		fmt.Printf("---- cfg send=%q accept=%q (defaults: send=%s accept=%s)\n", cfg[0], cfg[1], ds, da)
		tp, _ := x.Tunnel(p1.vpn)
		tq, _ := x.Tunnel(q.vpn)
		mk := func(idx uint32) []byte {
			b := make([]byte, 16)
			return outsHeaderEncode(b, 2, 0, idx, 0)
		}
		show := func(tag string) {
			_, okp := x.Tunnel(p1.vpn)
			_, okq := x.Tunnel(q.vpn)
			fmt.Printf("  %-40s tunnel(P1)=%v tunnel(Q)=%v udp-out=%d\n", tag, okp, okq, len(x.DrainUDP()))
		}
		show("start")
		x.Inject(outsMustAP("192.0.2.66:1000"), mk(tp.Remote))
		show("recv_error idx(P1) from other addr")
		x.Inject(outsMustAP("192.0.2.66:1000"), mk(tq.Remote))
		show("recv_error idx(Q, relayed) from other addr")
		x.Inject(p1.udp, mk(tp.Local))
		show("recv_error LOCAL idx(P1) from P1 addr")
		x.Inject(p1.udp, mk(tp.Remote))
		show("recv_error idx(P1) from P1 addr")
	}
}

func init() {
	hx.Register("outs_time", func(c *hx.Ctx) {
		t0 := outsTimeNow()
		for i := 0; i < 5; i++ {
			outsStdWorld()
		}
		fmt.Println("5 worlds:", outsTimeNow().Sub(t0))
		w := outsStdWorld()
		x := w.n(outsX)
		t0 = outsTimeNow()
		for i := 0; i < 2000; i++ {
			x.Digest()
		}
		fmt.Println("2000 digests:", outsTimeNow().Sub(t0))
	})
}

func outsTimeNow() time.Time { return time.Now() }

func init() {
	hx.Register("outs_victim", func(c *hx.Ctx) {
		lab := outsNewLab(c)
		fmt.Println(lab.victim())
	})
}

func init() { hx.Register("outs_hsforge", outsHsForge) }

// experiment: what an attacker without any key can do with ONE captured stage-1 handshake packet
func outsHsForge(c *hx.Ctx) {
	w := outsStdWorld()
	x, n := w.n(outsX), w.n(outsN)
	var stage1 []byte
	w.tap = func(p *outsWire) [][]byte {
		if p.parsed && p.from == outsN && p.to == outsX && p.h.Type == 0 && stage1 == nil {
			stage1 = append([]byte(nil), p.data...)
		}
		return [][]byte{p.data}
	}
	n.TunSend(outsUDP4(n.vpn, x.vpn, 1, 2, []byte("hi")))
	w.settle(6)
	w.tap = nil
	x.TunSend(outsUDP4(x.vpn, n.vpn, 2, 1, []byte("hi back")))
	w.settle(2)
	show := func(tag string) {
		d := x.Digest()
		t, _ := x.Tunnel(n.vpn)
		fmt.Printf("%-34s hosts[N]=%s primary.local=%d primary.remote=%v\n", tag, outsHostsOf(d.Hosts, n.vpn.String()), t.Local, t.RemoteAddr)
	}
	show("genuine tunnel up")
	fmt.Printf("stage-1 is %d bytes; tun at N so far: %d packets\n", len(stage1), len(w.takeTun(outsN)))
	atk := outsMustAP("198.51.100.99:4242")
	accepted := 0
	for bit := 128 + 64*8; bit < len(stage1)*8 && accepted < 6; bit++ {
		q := outsFlip(stage1, bit)
		before := x.Digest()
		x.Inject(atk, q)
		x.DrainUDP()
		after := x.Digest()
		if before.Hosts != after.Hosts {
			accepted++
			show(fmt.Sprintf("forged stage-1 (bit %d flipped)", bit))
		}
	}
	// does X still reach N?
	x.TunSend(outsUDP4(x.vpn, n.vpn, 2, 1, []byte("are you there")))
	for _, p := range x.DrainUDP() {
		fmt.Printf("X sends its data for N to %v (%d bytes)\n", p.To, len(p.Data))
	}
	// can N come back with a new genuine handshake?
	if t, ok := n.Tunnel(x.vpn); ok {
		n.CloseLocal(t.Local)
	}
	n.LearnAddr(x.vpn, x.udp)
	n.TunSend(outsUDP4(n.vpn, x.vpn, 1, 2, []byte("hi again")))
	w.settle(6)
	show("after N's new genuine handshake")
	_, ok := n.Tunnel(x.vpn)
	fmt.Printf("N has a tunnel to X again: %v; pending at N: %v\n", ok, n.Pending())
}

func outsHostsOf(hosts, addr string) string {
	for _, f := range strings.Fields(hosts) {
		if strings.HasPrefix(f, addr+"=") {
			return f
		}
	}
	return "-"
}

//go:build comp_all || comp_relay

package main

// C39 relays forward only for the pair they were set up for.
//
// gen_relay (T1 + T2): drives the REAL HandleControlMsg over the whole abstract feature space of
// handleCreateRelayRequest / handleCreateRelayResponse, >= 3 different concrete situations per row (real
// HostMap, relayManager, Interface with recording sockets), abstracts what happened to (action on the arrival
// tunnel's record, action on the other tunnel's record, message written to whom, handshake started) and prints
// coq/gen/Tab_Relay.v. Rows whose situations disagree, or that change anything outside the two records, are a
// broken tie (abstraction too coarse).
//
// relay (T3 + search): re-evaluates every row on a fresh situation and runs control-message histories with
// tunnel churn through the real code; after every step the relay state is dumped and every (tunnel, index)
// pair is probed for forwarding, both with the lookups handleOutsideRelayPacket performs and by pushing a
// relay packet through the real readOutsidePackets. Coq compares with the model and evaluates the documented
// rules on the implementation's own observations.

import (
	"fmt"
	"math/big"
	"net/netip"
	"os"
	"sort"
	"strings"

	nebula "github.com/slackhq/nebula"
	"verifharness/hx"
)

func init() {
	hx.Register("gen_relay", genRelay)
	hx.Register("relay", runRelay)
}

// ---- literals -------------------------------------------------------------------------------------

var rlyStNames = []string{"SReq", "SPeerReq", "SEst", "SDis"}
var rlyStVals = []int{nebula.VerifRelayRequested, nebula.VerifRelayPeerRequested, nebula.VerifRelayEstablished, nebula.VerifRelayDisestablished}
var rlyTyNames = []string{"TFwd", "TTerm"}
var rlyTyVals = []int{nebula.VerifRelayForwardingType, nebula.VerifRelayTerminalType}
var rlyEncNames = []string{"EV2", "EV1", "EV1six"}

func rlyStIdx(v int) int {
	for i, x := range rlyStVals {
		if x == v {
			return i
		}
	}
	panic(fmt.Sprintf("relay state %d is none of Requested/PeerRequested/Established/Disestablished", v))
}

func rlyTyIdx(v int) int {
	for i, x := range rlyTyVals {
		if x == v {
			return i
		}
	}
	panic(fmt.Sprintf("relay type %d is neither ForwardingType nor TerminalType", v))
}

var rlyTwo32 = new(big.Int).Lsh(big.NewInt(1), 32)

// overlay address as a number: IPv4 < 2^32 <= IPv6
func rlyAddr(a netip.Addr) string {
	if !a.IsValid() {
		panic("invalid address in literal")
	}
	if a.Is4() {
		b := a.As4()
		return fmt.Sprintf("%d", uint32(b[0])<<24|uint32(b[1])<<16|uint32(b[2])<<8|uint32(b[3]))
	}
	b := a.As16()
	v := new(big.Int).SetBytes(b[:])
	return v.Add(v, rlyTwo32).String()
}

func rlyAddrKey(a netip.Addr) *big.Int {
	v, _ := new(big.Int).SetString(rlyAddr(a), 10)
	return v
}

func rlyAddrs(as []netip.Addr) string {
	s := make([]string, len(as))
	for i, a := range as {
		s[i] = rlyAddr(a)
	}
	return hx.List(s)
}

func rlyU32s(xs []uint32) string {
	s := make([]string, len(xs))
	for i, x := range xs {
		s[i] = hx.N(uint64(x))
	}
	return hx.List(s)
}

func rlyV4(x byte) netip.Addr { return netip.AddrFrom4([4]byte{10, 0, 0, x}) }
func rlyV6(x byte) netip.Addr {
	return netip.AddrFrom16([16]byte{0xfd, 0, 0, 0, 0, 0, 0, 0, 0, 0, 0, 0, 0, 0, 0, x})
}

// ---- abstract rows ---------------------------------------------------------------------------------

type rlyQRow struct {
	Enc           int
	Am, FromMe, TgtMe bool
	Ex            int // -1 none, else state*2 + match
	Peer          int // -1 unknown, else valid*5 + (0 none | 1 + state)
}

func rlyOptStMatch(v int) string {
	if v < 0 {
		return "None"
	}
	return hx.Some(hx.Tuple(rlyStNames[v/2], hx.Bool(v%2 == 1)))
}

func (r rlyQRow) lit() string {
	peer := "None"
	if r.Peer >= 0 {
		rel := "None"
		if r.Peer%5 > 0 {
			rel = hx.Some(rlyStNames[r.Peer%5-1])
		}
		peer = hx.Some(hx.Tuple(hx.Bool(r.Peer/5 == 1), rel))
	}
	return hx.App("mkQ", rlyEncNames[r.Enc], hx.Bool(r.Am), hx.Bool(r.FromMe), hx.Bool(r.TgtMe), rlyOptStMatch(r.Ex), peer)
}

func rlyAllQRows() []rlyQRow {
	var rows []rlyQRow
	bs := []bool{false, true}
	for e := 0; e < 3; e++ {
		for _, am := range bs {
			for _, fm := range bs {
				for _, tm := range bs {
					for ex := -1; ex < 8; ex++ {
						for p := -1; p < 10; p++ {
							rows = append(rows, rlyQRow{e, am, fm, tm, ex, p})
						}
					}
				}
			}
		}
	}
	return rows
}

type rlyXRow struct {
	Enc  int
	Rec  int // -1 none, else (type*4 + state)*2 + match
	Peer int // -1 unknown, 0 known without record, 1 + state
}

func (r rlyXRow) lit() string {
	rec := "None"
	if r.Rec >= 0 {
		rec = hx.Some(hx.Tuple(rlyTyNames[r.Rec/8], rlyStNames[(r.Rec/2)%4], hx.Bool(r.Rec%2 == 1)))
	}
	peer := "None"
	if r.Peer == 0 {
		peer = "(Some None)"
	} else if r.Peer > 0 {
		peer = hx.Some(hx.Some(rlyStNames[r.Peer-1]))
	}
	return hx.App("mkX", rlyEncNames[r.Enc], rec, peer)
}

func rlyAllXRows() []rlyXRow {
	var rows []rlyXRow
	for e := 0; e < 3; e++ {
		for rec := -1; rec < 16; rec++ {
			for p := -1; p < 5; p++ {
				if rec < 0 && p >= 0 {
					continue // no record, no peer looked up
				}
				if e == 2 && p < 0 {
					continue // "the peer's first address is IPv6" needs a peer
				}
				rows = append(rows, rlyXRow{e, rec, p})
			}
		}
	}
	return rows
}

type rlyAct struct {
	H, P, S string
	Hs      bool
}

func (a rlyAct) lit() string { return hx.App("mkA", a.H, a.P, a.S, hx.Bool(a.Hs)) }

// ---- abstraction of one handler run -------------------------------------------------------------------

func rlyFindRec(t nebula.VerifRelayTun, peer netip.Addr) *nebula.VerifRelayRec {
	for i := range t.Recs {
		if t.Recs[i].Peer == peer {
			return &t.Recs[i]
		}
	}
	return nil
}

func rlyFindIdx(t nebula.VerifRelayTun, idx uint32) *nebula.VerifRelayRec {
	for i := range t.Recs {
		if t.Recs[i].Local == idx {
			return &t.Recs[i]
		}
	}
	return nil
}

// rlyClassify turns the before/after of one record into an abstract action. msgIdx is the index the message
// carries for it; withRemote says whether a created record must hold msgIdx (else 0).
func rlyClassify(before, after *nebula.VerifRelayRec, msgIdx uint32, withRemote bool, isH bool) (string, error) {
	none, pre := "PNone", "P"
	if isH {
		none, pre = "HNone", "H"
	}
	switch {
	case before == nil && after == nil:
		return none, nil
	case before != nil && after == nil:
		return "", fmt.Errorf("a relay record vanished")
	case before == nil:
		want := uint32(0)
		if withRemote {
			want = msgIdx
		}
		if after.Remote != want {
			return "", fmt.Errorf("created record holds remote index %d, expected %d", after.Remote, want)
		}
		return fmt.Sprintf("(%sCreate %s %s)", pre, rlyTyNames[rlyTyIdx(after.Type)], rlyStNames[rlyStIdx(after.State)]), nil
	}
	if before.Peer != after.Peer || before.Local != after.Local || before.Type != after.Type {
		return "", fmt.Errorf("a record changed its peer, local index or type")
	}
	if *before == *after {
		return none, nil
	}
	if before.Remote == after.Remote {
		return fmt.Sprintf("(%sSet %s)", pre, rlyStNames[rlyStIdx(after.State)]), nil
	}
	if isH && after.Remote == msgIdx && after.State == nebula.VerifRelayEstablished {
		return "HComplete", nil
	}
	return "", fmt.Errorf("unexpected record change %+v -> %+v", *before, *after)
}

// rlyFrame checks that nothing but the designated records (tunnel, peer address) changed.
func rlyFrame(b, a nebula.VerifRelayDump, allowed map[[2]string]bool) error {
	if b.Am != a.Am {
		return fmt.Errorf("am_relay changed")
	}
	if len(b.Tunnels) != len(a.Tunnels) {
		return fmt.Errorf("tunnel count changed")
	}
	created := map[uint32]int{}
	for id := range b.Tunnels {
		bt, at := b.Tunnels[id], a.Tunnels[id]
		if !at.Consistent {
			return fmt.Errorf("relayForByAddr / relayForByIdx of tunnel %d disagree", id)
		}
		if fmt.Sprint(bt.Via) != fmt.Sprint(at.Via) {
			return fmt.Errorf("relays of tunnel %d changed", id)
		}
		seen := map[netip.Addr]bool{}
		for _, r := range at.Recs {
			seen[r.Peer] = true
			br := rlyFindRec(bt, r.Peer)
			if allowed[[2]string{fmt.Sprint(id), r.Peer.String()}] {
				if br == nil {
					created[r.Local] = id
				}
				continue
			}
			if br == nil || *br != r {
				return fmt.Errorf("record for %s on tunnel %d changed outside the abstraction", r.Peer, id)
			}
		}
		for _, r := range bt.Recs {
			if !seen[r.Peer] {
				return fmt.Errorf("record for %s on tunnel %d vanished", r.Peer, id)
			}
		}
	}
	for i, id := range a.Relays {
		if bid, ok := b.Relays[i]; ok {
			if bid != id {
				return fmt.Errorf("Relays[%d] was re-pointed", i)
			}
			continue
		}
		if cid, ok := created[i]; !ok || cid != id {
			return fmt.Errorf("Relays[%d] appeared without a created record", i)
		}
	}
	for i := range b.Relays {
		if _, ok := a.Relays[i]; !ok {
			return fmt.Errorf("Relays[%d] vanished", i)
		}
	}
	for i, id := range created {
		if a.Relays[i] != id {
			return fmt.Errorf("created record %d has no Relays entry", i)
		}
	}
	if fmt.Sprint(b.Indexes) != fmt.Sprint(a.Indexes) {
		return fmt.Errorf("Indexes changed")
	}
	return nil
}

type rlySituation struct {
	w       *nebula.VerifRelayWorld
	h, p    int // arrival tunnel, other tunnel (-1: none)
	wire    nebula.VerifRelayWire
	hKey    netip.Addr // key of the arrival tunnel's record
	pKey    netip.Addr
	hIdx    uint32 // response: the record is named by index
	byIdx   bool
	desc    map[string]any
}

func rlyRandIdx(c *hx.Ctx) uint32 { return uint32(1 + c.Intn(1<<20)) }

// rlyBuildQ builds a concrete situation with the features of row r.
func rlyBuildQ(c *hx.Ctx, r rlyQRow) rlySituation {
	v1 := r.Enc != 0
	me := []netip.Addr{rlyV4(1)}
	if c.Chance(0.4) {
		me = append(me, rlyV6(1))
	}
	if c.Chance(0.2) && len(me) == 2 && !v1 {
		me[0], me[1] = me[1], me[0]
	}
	w := nebula.VerifRelayNewWorld(me, r.Am)
	pick4 := func(lo int) netip.Addr { return rlyV4(byte(lo + c.Intn(20))) }
	pick := func(lo int) netip.Addr {
		if v1 || c.Chance(0.6) {
			return pick4(lo)
		}
		return rlyV6(byte(lo + c.Intn(20)))
	}
	// arrival tunnel: first address family is a feature under v1
	var haddrs []netip.Addr
	switch r.Enc {
	case 2:
		haddrs = []netip.Addr{rlyV6(byte(40 + c.Intn(10)))}
		if c.Chance(0.5) {
			haddrs = append(haddrs, rlyV4(byte(40+c.Intn(10))))
		}
	case 1:
		haddrs = []netip.Addr{rlyV4(byte(40 + c.Intn(10)))}
		if c.Chance(0.3) {
			haddrs = append(haddrs, rlyV6(byte(40+c.Intn(10))))
		}
	default:
		if c.Chance(0.7) {
			haddrs = []netip.Addr{rlyV4(byte(40 + c.Intn(10)))}
		} else {
			haddrs = []netip.Addr{rlyV6(byte(40 + c.Intn(10)))}
		}
	}
	// an unrelated older tunnel for the same peer now and then: the arrival tunnel need not be primary... it is the
	// newest, hence primary; promoting it again changes nothing
	if c.Chance(0.3) {
		w.AddTunnel(haddrs, rlyRandIdx(c), true, c.Chance(0.5))
	}
	h := w.AddTunnel(haddrs, rlyRandIdx(c), true, c.Chance(0.5))
	// from / target
	var from, target netip.Addr
	if r.FromMe {
		from = me[c.Intn(len(me))]
		if v1 {
			from = rlyV4(1)
		}
	} else if c.Chance(0.5) {
		from = haddrs[c.Intn(len(haddrs))] // honest
		if v1 && !from.Is4() {
			from = pick4(60)
		}
	} else {
		from = pick(60)
	}
	if r.TgtMe {
		target = me[c.Intn(len(me))]
		if v1 {
			target = rlyV4(1)
		}
	} else {
		target = pick(100)
	}
	init := rlyRandIdx(c)
	s := rlySituation{w: w, h: h, p: -1, hKey: target, pKey: from}
	if r.TgtMe {
		s.hKey = from
	}
	if r.Peer >= 0 {
		paddrs := []netip.Addr{target}
		if c.Chance(0.3) {
			paddrs = append(paddrs, pick(130))
		}
		s.p = w.AddTunnel(paddrs, rlyRandIdx(c), r.Peer/5 == 1, c.Chance(0.5))
		if rel := r.Peer % 5; rel > 0 {
			w.ForceRecord(s.p, from, rlyRandIdx(c)+1<<21, uint32(c.Intn(1<<20)), rlyTyVals[c.Intn(2)], rlyStVals[rel-1])
		}
		if c.Chance(0.3) {
			w.ForceRecord(s.p, pick(160), rlyRandIdx(c)+2<<21, rlyRandIdx(c), rlyTyVals[c.Intn(2)], rlyStVals[c.Intn(4)])
		}
	}
	if r.Ex >= 0 {
		rem := init
		if r.Ex%2 == 0 {
			rem = init + 1 + uint32(c.Intn(1000))
		}
		w.ForceRecord(h, s.hKey, rlyRandIdx(c)+3<<21, rem, rlyTyVals[c.Intn(2)], rlyStVals[r.Ex/2])
	}
	if c.Chance(0.4) {
		other := pick(190)
		if other != s.hKey {
			w.ForceRecord(h, other, rlyRandIdx(c)+4<<21, rlyRandIdx(c), rlyTyVals[c.Intn(2)], rlyStVals[c.Intn(4)])
		}
	}
	if c.Chance(0.3) { // a bystander
		b := w.AddTunnel([]netip.Addr{pick(220)}, rlyRandIdx(c), true, false)
		w.ForceRecord(b, from, rlyRandIdx(c)+5<<21, init, rlyTyVals[c.Intn(2)], rlyStVals[c.Intn(4)])
	}
	s.wire = nebula.VerifRelayWire{Typ: nebula.VerifRelayCtlRequest, Init: init, Resp: uint32(c.Intn(3)) * rlyRandIdx(c)}
	if v1 {
		s.wire.OldFrom, s.wire.OldTo = rlyU32(from), rlyU32(target)
		if c.Chance(0.2) { // v2 fields present as well: the v1 fields win
			s.wire.From, s.wire.To = pick(60), pick(100)
		}
	} else {
		s.wire.From, s.wire.To = from, target
	}
	s.desc = map[string]any{"row": r.lit(), "me": fmt.Sprint(me), "h": fmt.Sprint(haddrs), "from": from.String(), "target": target.String(), "init": init}
	return s
}

func rlyU32(a netip.Addr) uint32 {
	b := a.As4()
	return uint32(b[0])<<24 | uint32(b[1])<<16 | uint32(b[2])<<8 | uint32(b[3])
}

// rlyBuildX builds a concrete situation with the features of response row r.
func rlyBuildX(c *hx.Ctx, r rlyXRow) rlySituation {
	v1 := r.Enc != 0
	me := []netip.Addr{rlyV4(1)}
	if c.Chance(0.4) {
		me = append(me, rlyV6(1))
	}
	w := nebula.VerifRelayNewWorld(me, c.Chance(0.5))
	pick := func(lo int) netip.Addr {
		if v1 || c.Chance(0.6) {
			return rlyV4(byte(lo + c.Intn(20)))
		}
		return rlyV6(byte(lo + c.Intn(20)))
	}
	anyAddr := func(lo int) netip.Addr {
		if c.Chance(0.6) {
			return rlyV4(byte(lo + c.Intn(20)))
		}
		return rlyV6(byte(lo + c.Intn(20)))
	}
	haddrs := []netip.Addr{anyAddr(40)}
	h := w.AddTunnel(haddrs, rlyRandIdx(c), c.Chance(0.8), c.Chance(0.5))
	init, resp := rlyRandIdx(c)+3<<21, rlyRandIdx(c)
	// relayTo / relayFrom are whatever the sender says: sometimes me, sometimes its own address
	relayTo, relayFrom := pick(60), pick(90)
	if c.Chance(0.2) {
		relayTo = rlyV4(1)
	}
	if c.Chance(0.2) {
		relayFrom = rlyV4(1)
	}
	peerAddr := anyAddr(100) // the record's PeerAddr
	s := rlySituation{w: w, h: h, p: -1, hIdx: init, byIdx: true, hKey: peerAddr, pKey: relayTo}
	if r.Peer >= 0 {
		var paddrs []netip.Addr
		switch r.Enc {
		case 2:
			paddrs = []netip.Addr{rlyV6(byte(130 + c.Intn(10)))}
			if c.Chance(0.5) {
				paddrs = []netip.Addr{rlyV6(byte(130 + c.Intn(10))), peerAddr}
			} else {
				peerAddr = paddrs[0]
			}
		case 1:
			peerAddr = rlyV4(byte(100 + c.Intn(20)))
			paddrs = []netip.Addr{peerAddr}
			if c.Chance(0.3) {
				paddrs = append(paddrs, rlyV6(131))
			}
		default:
			paddrs = []netip.Addr{peerAddr}
			if c.Chance(0.3) {
				paddrs = append([]netip.Addr{anyAddr(130)}, peerAddr)
			}
		}
		s.hKey = peerAddr
		s.p = w.AddTunnel(paddrs, rlyRandIdx(c), true, c.Chance(0.5))
		if r.Peer > 0 {
			w.ForceRecord(s.p, relayTo, rlyRandIdx(c)+1<<21, rlyRandIdx(c), rlyTyVals[c.Intn(2)], rlyStVals[r.Peer-1])
		}
		if c.Chance(0.3) {
			o := pick(160)
			if o != relayTo {
				w.ForceRecord(s.p, o, rlyRandIdx(c)+2<<21, rlyRandIdx(c), rlyTyVals[c.Intn(2)], rlyStVals[c.Intn(4)])
			}
		}
	}
	if r.Rec >= 0 {
		rem := resp
		if r.Rec%2 == 0 {
			rem = resp + 1 + uint32(c.Intn(1000))
		}
		w.ForceRecord(h, s.hKey, init, rem, rlyTyVals[r.Rec/8], rlyStVals[(r.Rec/2)%4])
	}
	if c.Chance(0.4) {
		o := anyAddr(190)
		if o != s.hKey {
			w.ForceRecord(h, o, rlyRandIdx(c)+4<<21, rlyRandIdx(c), rlyTyVals[c.Intn(2)], rlyStVals[c.Intn(4)])
		}
	}
	s.wire = nebula.VerifRelayWire{Typ: nebula.VerifRelayCtlResponse, Init: init, Resp: resp}
	if v1 {
		s.wire.OldFrom, s.wire.OldTo = rlyU32(relayFrom), rlyU32(relayTo)
	} else {
		s.wire.From, s.wire.To = relayFrom, relayTo
	}
	s.desc = map[string]any{"row": r.lit(), "me": fmt.Sprint(me), "h": fmt.Sprint(haddrs), "relayTo": relayTo.String(), "peer": s.hKey.String(), "init": init, "resp": resp}
	return s
}

// rlyRunSituation delivers the message and abstracts what happened.
func rlyRunSituation(c *hx.Ctx, s rlySituation) (rlyAct, error) {
	before := s.w.Dump()
	script := []uint32{0xA0000000 + uint32(c.Intn(1<<20)), 0xA1000000 + uint32(c.Intn(1<<20)), 0xA2000000 + uint32(c.Intn(1<<20)), 0xA3000000 + uint32(c.Intn(1<<20))}
	out := s.w.Deliver(s.h, s.wire.Marshal(), script)
	if out.Panic != "" {
		return rlyAct{}, fmt.Errorf("handler panicked: %s", out.Panic)
	}
	after := s.w.Dump()
	allowed := map[[2]string]bool{{fmt.Sprint(s.h), s.hKey.String()}: true}
	if s.p >= 0 {
		allowed[[2]string{fmt.Sprint(s.p), s.pKey.String()}] = true
	}
	if err := rlyFrame(before, after, allowed); err != nil {
		return rlyAct{}, err
	}
	var a rlyAct
	var err error
	var hb, ha *nebula.VerifRelayRec
	if s.byIdx {
		hb, ha = rlyFindIdx(before.Tunnels[s.h], s.hIdx), rlyFindIdx(after.Tunnels[s.h], s.hIdx)
		a.H, err = rlyClassify(hb, ha, s.wire.Resp, false, true)
	} else {
		hb, ha = rlyFindRec(before.Tunnels[s.h], s.hKey), rlyFindRec(after.Tunnels[s.h], s.hKey)
		a.H, err = rlyClassify(hb, ha, s.wire.Init, true, true)
	}
	if err != nil {
		return a, err
	}
	a.P = "PNone"
	if s.p >= 0 {
		a.P, err = rlyClassify(rlyFindRec(before.Tunnels[s.p], s.pKey), rlyFindRec(after.Tunnels[s.p], s.pKey), 0, false, false)
		if err != nil {
			return a, err
		}
	}
	a.S = "SNone"
	if out.Other != 0 || len(out.Sends) > 1 {
		return a, fmt.Errorf("unexpected packets on the wire: %d control, %d other", len(out.Sends), out.Other)
	}
	if len(out.Sends) == 1 {
		switch out.Sends[0].To {
		case s.h:
			a.S = "SToH"
		case s.p:
			a.S = "SToP"
		default:
			return a, fmt.Errorf("control message written to tunnel %d, neither the arrival tunnel nor the other one", out.Sends[0].To)
		}
	}
	if out.Handshake.IsValid() {
		// only the request handler starts one, and only to the requested target
		if s.byIdx || out.Handshake != s.wireTarget() {
			return a, fmt.Errorf("handshake to %s, not the target of a request", out.Handshake)
		}
		a.Hs = true
	}
	return a, nil
}

func (s rlySituation) wireTarget() netip.Addr {
	if s.wire.OldFrom > 0 || s.wire.OldTo > 0 {
		return netip.AddrFrom4([4]byte{byte(s.wire.OldTo >> 24), byte(s.wire.OldTo >> 16), byte(s.wire.OldTo >> 8), byte(s.wire.OldTo)})
	}
	return s.wire.To
}

// ---- gen_relay ------------------------------------------------------------------------------------------

const rlyConcretisations = 3

func genRelay(c *hx.Ctx) {
	var sb strings.Builder
	sb.WriteString("(* GENERATED from /repo/relay_manager.go, hostmap.go by harness gen_relay: do not edit.\n" +
		"   Every entry is what the real HandleControlMsg did on >= 3 different concrete situations with these abstract\n" +
		"   features (all agreed, nothing outside the two designated relay records changed). *)\n" +
		"From Coq Require Import List NArith.\nImport ListNotations.\nFrom NV Require Import lib.Relay_lib.\nOpen Scope N_scope.\n\n")
	fmt.Fprintf(&sb, "Definition c_requested : N := %d.\nDefinition c_peer_requested : N := %d.\nDefinition c_established : N := %d.\nDefinition c_disestablished : N := %d.\n",
		nebula.VerifRelayRequested, nebula.VerifRelayPeerRequested, nebula.VerifRelayEstablished, nebula.VerifRelayDisestablished)
	fmt.Fprintf(&sb, "Definition c_forwarding_type : N := %d.\nDefinition c_terminal_type : N := %d.\n", nebula.VerifRelayForwardingType, nebula.VerifRelayTerminalType)
	fmt.Fprintf(&sb, "Definition max_hostinfos_per_vpnip : N := %d.\n", nebula.VerifRelayMaxHostInfos)
	tries := nebula.VerifRelayAllocTries()
	if tries <= 0 {
		fmt.Fprintln(os.Stderr, "gen_relay: could not measure the retry bound of AddRelay")
		os.Exit(1)
	}
	fmt.Fprintf(&sb, "(* measured: AddRelay gives up after this many colliding candidates *)\nDefinition add_relay_tries : N := %d.\n\n", tries)

	bad := 0
	qrows := rlyAllQRows()
	fmt.Fprintf(&sb, "(* %d rows: handleCreateRelayRequest *)\nDefinition tab_req : list (qrow * act) := [\n", len(qrows))
	for i, r := range qrows {
		var first rlyAct
		for k := 0; k < rlyConcretisations; k++ {
			a, err := rlyRunSituation(c, rlyBuildQ(c, r))
			if err != nil {
				fmt.Fprintf(os.Stderr, "gen_relay: request row %s: %v\n", r.lit(), err)
				bad++
				break
			}
			if k == 0 {
				first = a
			} else if a != first {
				fmt.Fprintf(os.Stderr, "gen_relay: request row %s: situations disagree: %s vs %s\n", r.lit(), first.lit(), a.lit())
				bad++
				break
			}
		}
		sep := ";"
		if i == len(qrows)-1 {
			sep = ""
		}
		fmt.Fprintf(&sb, " (%s, %s)%s\n", r.lit(), first.lit(), sep)
	}
	sb.WriteString("].\n\n")
	xrows := rlyAllXRows()
	fmt.Fprintf(&sb, "(* %d rows: handleCreateRelayResponse *)\nDefinition tab_resp : list (xrow * act) := [\n", len(xrows))
	for i, r := range xrows {
		var first rlyAct
		for k := 0; k < rlyConcretisations; k++ {
			a, err := rlyRunSituation(c, rlyBuildX(c, r))
			if err != nil {
				fmt.Fprintf(os.Stderr, "gen_relay: response row %s: %v\n", r.lit(), err)
				bad++
				break
			}
			if k == 0 {
				first = a
			} else if a != first {
				fmt.Fprintf(os.Stderr, "gen_relay: response row %s: situations disagree: %s vs %s\n", r.lit(), first.lit(), a.lit())
				bad++
				break
			}
		}
		sep := ";"
		if i == len(xrows)-1 {
			sep = ""
		}
		fmt.Fprintf(&sb, " (%s, %s)%s\n", r.lit(), first.lit(), sep)
	}
	sb.WriteString("].\n")
	if bad > 0 {
		fmt.Fprintf(os.Stderr, "gen_relay: %d rows are not functions of the abstract features (abstraction too coarse)\n", bad)
		os.Exit(1)
	}
	c.WriteFile("Tab_Relay.v", sb.String())
}

// ---- relay: rows again + histories ---------------------------------------------------------------------------

type rlyTunInfo struct {
	addrs []netip.Addr
	local uint32
	valid bool
	v1    bool
	dead  bool
}

func rlyRecLit(r nebula.VerifRelayRec) string {
	return hx.Tuple(rlyAddr(r.Peer), hx.N(uint64(r.Local)), hx.N(uint64(r.Remote)), rlyTyNames[rlyTyIdx(r.Type)], rlyStNames[rlyStIdx(r.State)])
}

func rlyDumpLit(d nebula.VerifRelayDump) (string, bool) {
	ok := d.Sound
	var ts []string
	for id, t := range d.Tunnels {
		ok = ok && t.Consistent
		recs := make([]string, len(t.Recs))
		for i, r := range t.Recs {
			recs[i] = rlyRecLit(r)
		}
		ts = append(ts, hx.Tuple(hx.N(uint64(id)), hx.List(recs), rlyAddrs(t.Via)))
	}
	hosts := append([]nebula.VerifRelayHosts(nil), d.Hosts...)
	sort.Slice(hosts, func(i, j int) bool { return rlyAddrKey(hosts[i].Addr).Cmp(rlyAddrKey(hosts[j].Addr)) < 0 })
	var hs []string
	for _, h := range hosts {
		ids := make([]string, len(h.IDs))
		for i, x := range h.IDs {
			if x < 0 {
				ok = false
				x = 999999
			}
			ids[i] = hx.N(uint64(x))
		}
		hs = append(hs, hx.Tuple(rlyAddr(h.Addr), hx.List(ids)))
	}
	m2l := func(m map[uint32]int) string {
		keys := make([]uint32, 0, len(m))
		for k := range m {
			keys = append(keys, k)
		}
		sort.Slice(keys, func(i, j int) bool { return keys[i] < keys[j] })
		var s []string
		for _, k := range keys {
			v := m[k]
			if v < 0 {
				ok = false
				v = 999999
			}
			s = append(s, hx.Tuple(hx.N(uint64(k)), hx.N(uint64(v))))
		}
		return hx.List(s)
	}
	return hx.App("mkD", hx.Bool(d.Am), hx.List(ts), hx.List(hs), m2l(d.Indexes), m2l(d.Relays)), ok
}

func rlyWireLit(m nebula.VerifRelayWire) string {
	opt := func(a netip.Addr) string {
		if !a.IsValid() {
			return "None"
		}
		return hx.Some(rlyAddr(a))
	}
	return hx.App("mkW", hx.N(uint64(m.Typ)), hx.N(uint64(m.OldFrom)), hx.N(uint64(m.OldTo)), opt(m.From), opt(m.To), hx.N(uint64(m.Init)), hx.N(uint64(m.Resp)))
}

func rlySendsLit(ss []nebula.VerifRelaySend) (string, bool) {
	ok := true
	var l []string
	for _, s := range ss {
		if s.To < 0 || !s.From.IsValid() || !s.To2.IsValid() {
			ok = false
			continue
		}
		l = append(l, hx.App("mkO", hx.N(uint64(s.To)), hx.N(uint64(s.Typ)), hx.Bool(s.V1), rlyAddr(s.From), rlyAddr(s.To2), hx.N(uint64(s.Init)), hx.N(uint64(s.Resp))))
	}
	return hx.List(l), ok
}

type rlyHist struct {
	c       *hx.Ctx
	w       *nebula.VerifRelayWorld
	me      []netip.Addr
	tuns    []rlyTunInfo
	steps   []string
	descs   []string
	queue   []rlyQueued // replies the peers owe
	sent    []rlyQueued // everything delivered so far (for duplicates)
	implBad []string
	kinds   map[string]int
	hits    int
	deep    int
}

type rlyQueued struct {
	tun  int
	wire nebula.VerifRelayWire
}

var rlyPool4 = []byte{2, 3, 4, 5, 6, 7}
var rlyPool6 = []byte{2, 3, 4}

func (h *rlyHist) poolAddr() netip.Addr {
	c := h.c
	if c.Chance(0.75) {
		return rlyV4(rlyPool4[c.Intn(len(rlyPool4))])
	}
	return rlyV6(rlyPool6[c.Intn(len(rlyPool6))])
}

func (h *rlyHist) anyAddr() netip.Addr {
	c := h.c
	switch {
	case c.Chance(0.1):
		return h.me[c.Intn(len(h.me))]
	case c.Chance(0.08):
		return rlyV4(byte(200 + c.Intn(50)))
	case c.Chance(0.04):
		return netip.AddrFrom4([4]byte{byte(c.Intn(256)), byte(c.Intn(256)), byte(c.Intn(256)), byte(c.Intn(256))})
	}
	return h.poolAddr()
}

func (h *rlyHist) liveTunnels() []int {
	var l []int
	for i, t := range h.tuns {
		if !t.dead {
			l = append(l, i)
		}
	}
	return l
}

func (h *rlyHist) script() []uint32 {
	c := h.c
	var s []uint32
	if c.Chance(0.15) {
		s = append(s, 0)
	}
	if c.Chance(0.15) { // an index already in HostMap.Relays
		d := h.w.Dump()
		keys := rlyIdxSet(nebula.VerifRelayDump{Relays: d.Relays}, nil)
		if len(keys) > 0 {
			s = append(s, keys[c.Intn(len(keys))])
		}
	}
	for k := 0; k < 3; k++ {
		s = append(s, uint32(1000+c.Intn(60000)))
	}
	return s
}

func rlyStream(script, served []uint32) []uint32 {
	if len(served) > len(script) {
		return served
	}
	return script
}

// interesting relay indexes: every local index of every record, every Relays key, a few strangers
func rlyIdxSet(d nebula.VerifRelayDump, extra []uint32) []uint32 {
	m := map[uint32]bool{}
	for _, t := range d.Tunnels {
		for _, r := range t.Recs {
			m[r.Local] = true
		}
	}
	for i := range d.Relays {
		m[i] = true
	}
	for _, e := range extra {
		m[e] = true
	}
	l := make([]uint32, 0, len(m))
	for i := range m {
		l = append(l, i)
	}
	sort.Slice(l, func(i, j int) bool { return l[i] < l[j] })
	return l
}

// observe dumps the state and probes forwarding for every (tunnel, index) pair.
func (h *rlyHist) observe(opLit string, out nebula.VerifRelayOut, desc string) {
	d := h.w.Dump()
	dl, ok := rlyDumpLit(d)
	if !ok {
		h.implBad = append(h.implBad, "hostmap / relay maps inconsistent after "+desc)
	}
	if out.Panic != "" {
		h.implBad = append(h.implBad, "panic: "+out.Panic)
	}
	sl, sok := rlySendsLit(out.Sends)
	if !sok || out.Other != 0 {
		h.implBad = append(h.implBad, "control message to an unknown tunnel / stray packet after "+desc)
	}
	hs := "None"
	if out.Handshake.IsValid() {
		hs = hx.Some(rlyAddr(out.Handshake))
	}
	extra := []uint32{uint32(1 + h.c.Intn(70000))}
	idxs := rlyIdxSet(d, extra)
	var hits []string
	for id := range h.tuns {
		for _, idx := range idxs {
			t, rec, found := h.w.Probe(id, idx)
			if found {
				if t < 0 {
					h.implBad = append(h.implBad, "forward target is not a tunnel of this node")
					continue
				}
				hits = append(hits, hx.Tuple(hx.N(uint64(id)), hx.N(uint64(idx)), hx.N(uint64(t)), hx.N(uint64(rec.Local)), hx.N(uint64(rec.Remote))))
				h.hits++
			}
		}
	}
	// the real receive path, once per index
	var pk []string
	for _, idx := range idxs {
		f := h.w.ProbePacket(idx)
		if f.Panic != "" {
			h.implBad = append(h.implBad, "receive path panicked: "+f.Panic)
		}
		if f.Other != 0 || f.Written > 1 || (f.Written == 1 && !f.Intact) {
			h.implBad = append(h.implBad, fmt.Sprintf("relay packet with index %d: %d packets written, %d others, payload intact %v", idx, f.Written, f.Other, f.Intact))
		}
		if f.Written == 1 {
			// cross-check with the factored probe
			t, rec, found := -1, nebula.VerifRelayRec{}, false
			if f.Source >= 0 {
				t, rec, found = h.w.Probe(f.Source, idx)
			}
			if !found || rec.Remote != f.Index || (f.To >= 0 && f.To != t) || (f.To < 0 && h.tuns[t].valid) {
				h.implBad = append(h.implBad, fmt.Sprintf("receive path forwarded index %d to tunnel %d/%d but the lookups say %v tunnel %d/%d", idx, f.To, f.Index, found, t, rec.Remote))
			}
			to := "None"
			if f.To >= 0 {
				to = hx.Some(hx.N(uint64(f.To)))
			}
			pk = append(pk, hx.Tuple(hx.N(uint64(idx)), hx.N(uint64(f.Source)), to, hx.N(uint64(f.Index))))
		} else if f.Source >= 0 {
			if _, _, found := h.w.Probe(f.Source, idx); found {
				h.implBad = append(h.implBad, fmt.Sprintf("the lookups forward index %d but the receive path wrote nothing", idx))
			}
		}
	}
	h.steps = append(h.steps, hx.Tuple(opLit, hx.App("mkObs", sl, hs, dl, rlyU32s(extra), hx.List(hits), hx.List(pk))))
	h.descs = append(h.descs, desc)
}

func (h *rlyHist) addTunnel(addrs []netip.Addr, local uint32, valid, v1 bool) int {
	id := h.w.AddTunnel(addrs, local, valid, v1)
	if id != len(h.tuns) {
		panic("tunnel ids out of step")
	}
	h.tuns = append(h.tuns, rlyTunInfo{addrs: addrs, local: local, valid: valid, v1: v1})
	h.observe(hx.App("OAdd", hx.N(uint64(id)), rlyAddrs(addrs), hx.N(uint64(local)), hx.Bool(valid), hx.Bool(v1)), nebula.VerifRelayOut{},
		fmt.Sprintf("add %d %v local=%d valid=%v v1=%v", id, addrs, local, valid, v1))
	h.kinds["add"]++
	return id
}

func (h *rlyHist) deliver(tun int, m nebula.VerifRelayWire, kind string) nebula.VerifRelayOut {
	script := h.script()
	out := h.w.Deliver(tun, m.Marshal(), script)
	cs := rlyStream(script, out.Served)
	h.observe(hx.App("OMsg", hx.N(uint64(tun)), rlyWireLit(m), rlyU32s(cs)), out, fmt.Sprintf("%s on %d: %+v", kind, tun, m))
	h.kinds[kind]++
	h.sent = append(h.sent, rlyQueued{tun, m})
	// the peers answer what this node asked them
	for _, s := range out.Sends {
		if s.To < 0 {
			continue
		}
		if s.Typ == nebula.VerifRelayCtlRequest && h.c.Chance(0.85) {
			r := nebula.VerifRelayWire{Typ: nebula.VerifRelayCtlResponse, Init: s.Init, Resp: uint32(100000 + h.c.Intn(60000))}
			if s.V1 {
				r.OldFrom, r.OldTo = rlyU32(s.From), rlyU32(s.To2)
			} else {
				r.From, r.To = s.From, s.To2
			}
			h.queue = append(h.queue, rlyQueued{s.To, r})
		}
	}
	if len(out.Sends) > 0 {
		h.deep++
	}
	return out
}

func (h *rlyHist) mkWire(typ int, from, to netip.Addr, init, resp uint32, v1 bool) nebula.VerifRelayWire {
	m := nebula.VerifRelayWire{Typ: typ, Init: init, Resp: resp}
	if v1 && from.Is4() && to.Is4() {
		m.OldFrom, m.OldTo = rlyU32(from), rlyU32(to)
	} else {
		m.From, m.To = from, to
	}
	return m
}

func (h *rlyHist) someIndex() uint32 {
	d := h.w.Dump()
	var all []uint32
	for _, t := range d.Tunnels {
		for _, r := range t.Recs {
			all = append(all, r.Local, r.Remote)
		}
	}
	if len(all) > 0 && h.c.Chance(0.8) {
		return all[h.c.Intn(len(all))]
	}
	return uint32(1 + h.c.Intn(70000))
}

func (h *rlyHist) stepOnce() {
	c := h.c
	live := h.liveTunnels()
	r := c.Intn(100)
	if !h.w.Am() && len(live) > 0 && c.Chance(0.15) {
		// an initiator: ask a known peer to relay
		h.start(h.tuns[live[c.Intn(len(live))]].addrs[0], h.poolAddr())
		return
	}
	switch {
	case len(h.tuns) == 0 || (r < 10 && len(h.tuns) < 9):
		n := 1
		if c.Chance(0.25) {
			n = 2
		}
		var addrs []netip.Addr
		for len(addrs) < n {
			a := h.poolAddr()
			dup := false
			for _, x := range addrs {
				dup = dup || x == a
			}
			if !dup {
				addrs = append(addrs, a)
			}
		}
		local := uint32(10 + c.Intn(5000))
		if c.Chance(0.1) && len(h.tuns) > 0 {
			local = h.tuns[c.Intn(len(h.tuns))].local
		}
		h.addTunnel(addrs, local, c.Chance(0.88), c.Chance(0.3))
	case r < 18 && len(h.queue) > 0 || (len(h.queue) > 0 && c.Chance(0.45)):
		i := c.Intn(len(h.queue))
		q := h.queue[i]
		h.queue = append(h.queue[:i], h.queue[i+1:]...)
		h.deliver(q.tun, q.wire, "reply")
	case r < 45 && len(live) >= 2:
		// an honest initiator asks for a relay to another known peer
		i := live[c.Intn(len(live))]
		j := live[c.Intn(len(live))]
		to := h.tuns[j].addrs[c.Intn(len(h.tuns[j].addrs))]
		from := h.tuns[i].addrs[0]
		h.deliver(i, h.mkWire(nebula.VerifRelayCtlRequest, from, to, uint32(200000+c.Intn(60000)), 0, c.Chance(0.4)), "request")
	case r < 52 && len(live) >= 1:
		// a peer asks this node to be the target
		i := live[c.Intn(len(live))]
		from := h.poolAddr()
		h.deliver(i, h.mkWire(nebula.VerifRelayCtlRequest, from, h.me[c.Intn(len(h.me))], h.someIndex(), 0, c.Chance(0.4)), "request-to-me")
	case r < 60 && len(h.sent) > 0:
		q := h.sent[c.Intn(len(h.sent))]
		if c.Chance(0.3) && len(h.tuns) > 0 {
			q.tun = c.Intn(len(h.tuns)) // replayed on another tunnel
		}
		h.deliver(q.tun, q.wire, "duplicate")
	case r < 68 && len(h.tuns) >= 2:
		h.crossResponse()
	case r < 78 && len(h.tuns) > 0:
		// hostile / confused: anything on any tunnel, dead ones included
		t := c.Intn(len(h.tuns))
		typ := nebula.VerifRelayCtlRequest
		if c.Chance(0.5) {
			typ = nebula.VerifRelayCtlResponse
		}
		if c.Chance(0.05) {
			typ = c.Intn(4)
		}
		m := h.mkWire(typ, h.anyAddr(), h.anyAddr(), h.someIndex(), h.someIndex(), c.Chance(0.4))
		if c.Chance(0.05) {
			m.From = netip.Addr{}
		}
		if c.Chance(0.05) {
			m.To = netip.Addr{}
		}
		if c.Chance(0.05) && m.OldFrom == 0 && m.OldTo == 0 {
			m.OldTo = rlyU32(rlyV4(rlyPool4[c.Intn(len(rlyPool4))]))
		}
		h.deliver(t, m, "hostile")
	case r < 88 && len(h.tuns) > 0:
		t := c.Intn(len(h.tuns))
		if c.Chance(0.8) && len(live) > 0 {
			t = live[c.Intn(len(live))]
		}
		h.w.DelTunnel(t)
		h.tuns[t].dead = true
		h.observe(hx.App("ODel", hx.N(uint64(t))), nebula.VerifRelayOut{}, fmt.Sprintf("delete %d", t))
		h.kinds["delete"]++
	case r < 91:
		am := !h.w.Am()
		h.w.SetAm(am)
		h.observe(hx.App("OSetAm", hx.Bool(am)), nebula.VerifRelayOut{}, fmt.Sprintf("am_relay=%v", am))
		h.kinds["setam"]++
	case r < 96:
		h.start(h.poolAddr(), h.poolAddr())
	default:
		if len(h.tuns) == 0 {
			return
		}
		t := c.Intn(len(h.tuns))
		ip := h.poolAddr()
		h.w.InsertVia(t, ip)
		h.observe(hx.App("OVia", hx.N(uint64(t)), rlyAddr(ip)), nebula.VerifRelayOut{}, fmt.Sprintf("via %d %s", t, ip))
		h.kinds["via"]++
	}
}

func (h *rlyHist) start(relay, vpn netip.Addr) nebula.VerifRelayOut {
	script := h.script()
	out := h.w.Start(relay, vpn, script)
	h.observe(hx.App("OStart", rlyAddr(relay), rlyAddr(vpn), rlyU32s(rlyStream(script, out.Served))), out, fmt.Sprintf("start relay=%s vpn=%s", relay, vpn))
	h.kinds["start"]++
	return out
}

func (h *rlyHist) del(t int) {
	h.w.DelTunnel(t)
	h.tuns[t].dead = true
	h.observe(hx.App("ODel", hx.N(uint64(t))), nebula.VerifRelayOut{}, fmt.Sprintf("delete %d", t))
	h.kinds["delete"]++
}

func (h *rlyHist) via(t int, ip netip.Addr) {
	h.w.InsertVia(t, ip)
	h.observe(hx.App("OVia", hx.N(uint64(t)), rlyAddr(ip)), nebula.VerifRelayOut{}, fmt.Sprintf("via %d %s", t, ip))
	h.kinds["via"]++
}

// crossResponse: a well-formed CreateRelayResponse naming a relay index that belongs to ANOTHER peer's tunnel (by
// preference a leg that is still Requested or Disestablished), received over a different tunnel.
func (h *rlyHist) crossResponse() {
	c := h.c
	d := h.w.Dump()
	type cand struct {
		q   int
		rec nebula.VerifRelayRec
	}
	var waiting, others []cand
	for q, t := range d.Tunnels {
		for _, r := range t.Recs {
			if r.State == nebula.VerifRelayRequested || r.State == nebula.VerifRelayDisestablished {
				waiting = append(waiting, cand{q, r})
			} else {
				others = append(others, cand{q, r})
			}
		}
	}
	pool := waiting
	if len(pool) == 0 || (len(others) > 0 && c.Chance(0.15)) {
		pool = others
	}
	if len(pool) == 0 {
		h.deliver(c.Intn(len(h.tuns)), h.mkWire(nebula.VerifRelayCtlResponse, h.anyAddr(), h.anyAddr(), h.someIndex(), h.someIndex(), c.Chance(0.4)), "hostile")
		return
	}
	x := pool[c.Intn(len(pool))]
	// the sender: another tunnel, live by preference
	var senders []int
	for _, p := range h.liveTunnels() {
		if p != x.q {
			senders = append(senders, p)
		}
	}
	if len(senders) == 0 || c.Chance(0.1) {
		senders = nil
		for p := range h.tuns {
			if p != x.q {
				senders = append(senders, p)
			}
		}
	}
	p := senders[c.Intn(len(senders))]
	// plausible addresses: what the owner of the leg would have written, or the sender's own
	from, to := x.rec.Peer, h.tuns[x.q].addrs[0]
	switch c.Intn(4) {
	case 0:
		from, to = h.tuns[p].addrs[0], x.rec.Peer
	case 1:
		to = h.tuns[p].addrs[0]
	case 2:
		from, to = h.tuns[x.q].addrs[0], x.rec.Peer
	}
	h.deliver(p, h.mkWire(nebula.VerifRelayCtlResponse, from, to, x.rec.Local, uint32(300000+c.Intn(60000)), c.Chance(0.4)), "cross-response")
}

// scripted: a third peer answers for a leg that is not its own - on a relay (target leg Requested / Disestablished)
// and on an initiator (terminal record Requested / Disestablished)
func rlyCross(c *hx.Ctx, variant int) *rlyHist {
	relayNode := variant < 2
	h := rlyNewHist(c, []netip.Addr{rlyV4(1)}, relayNode)
	idxOf := func(t int, peer netip.Addr) (uint32, bool) {
		d := h.w.Dump()
		if r := rlyFindRec(d.Tunnels[t], peer); r != nil {
			return r.Local, true
		}
		return 0, false
	}
	drain := func() {
		for len(h.queue) > 0 {
			q := h.queue[0]
			h.queue = h.queue[1:]
			h.deliver(q.tun, q.wire, "reply")
		}
	}
	if relayNode {
		i := h.addTunnel([]netip.Addr{rlyV4(2)}, 11, true, false)
		t := h.addTunnel([]netip.Addr{rlyV4(3)}, 12, true, false)
		x := h.addTunnel([]netip.Addr{rlyV4(4)}, 13, true, false)
		h.deliver(i, h.mkWire(nebula.VerifRelayCtlRequest, rlyV4(2), rlyV4(3), 501, 0, false), "request")
		if variant == 0 {
			h.queue = nil // the target never answers
		} else {
			drain()
			h.del(i) // the target leg goes Disestablished
			i = h.addTunnel([]netip.Addr{rlyV4(2)}, 14, true, false)
		}
		if idx, ok := idxOf(t, rlyV4(2)); ok {
			h.deliver(x, h.mkWire(nebula.VerifRelayCtlResponse, rlyV4(2), rlyV4(3), idx, 901, false), "cross-response")
			h.deliver(x, h.mkWire(nebula.VerifRelayCtlResponse, rlyV4(4), rlyV4(2), idx, 902, false), "cross-response")
			h.deliver(i, h.mkWire(nebula.VerifRelayCtlResponse, rlyV4(2), rlyV4(3), idx, 903, false), "cross-response")
		}
		h.queue = nil
		return h
	}
	// initiator: this node asks 10.0.0.2 to relay towards 10.0.0.3
	r := h.addTunnel([]netip.Addr{rlyV4(2)}, 11, true, false)
	x := h.addTunnel([]netip.Addr{rlyV4(4)}, 13, true, false)
	h.start(rlyV4(2), rlyV4(3))
	idx, ok := idxOf(r, rlyV4(3))
	if variant == 3 && ok {
		h.deliver(r, h.mkWire(nebula.VerifRelayCtlResponse, rlyV4(1), rlyV4(3), idx, 801, false), "reply")
		v := h.addTunnel([]netip.Addr{rlyV4(3)}, 15, false, false) // reached through the relay only
		h.via(v, rlyV4(2))
		h.del(v) // the terminal record goes Disestablished
	}
	if ok {
		h.deliver(x, h.mkWire(nebula.VerifRelayCtlResponse, rlyV4(1), rlyV4(3), idx, 904, false), "cross-response")
		h.deliver(x, h.mkWire(nebula.VerifRelayCtlResponse, rlyV4(4), rlyV4(1), idx, 905, false), "cross-response")
	}
	h.queue = nil
	return h
}

func rlyNewHist(c *hx.Ctx, me []netip.Addr, am bool) *rlyHist {
	return &rlyHist{c: c, w: nebula.VerifRelayNewWorld(me, am), me: me, kinds: map[string]int{}}
}

func (h *rlyHist) lit(am bool) string {
	return hx.App("Relay_corr.CHist", rlyAddrs(h.me), hx.Bool(am), hx.List(h.steps))
}

// a scripted history: the three-party set-up, traffic both ways, tunnel loss and re-establishment
func rlyHappy(c *hx.Ctx, v1, second bool) (*rlyHist, bool) {
	me := []netip.Addr{rlyV4(1)}
	h := rlyNewHist(c, me, true)
	i := h.addTunnel([]netip.Addr{rlyV4(2)}, 11, true, v1)
	t := h.addTunnel([]netip.Addr{rlyV4(3)}, 12, true, v1)
	out := h.deliver(i, h.mkWire(nebula.VerifRelayCtlRequest, rlyV4(2), rlyV4(3), 501, 0, v1), "request")
	h.queue = nil
	if len(out.Sends) == 1 {
		s := out.Sends[0]
		h.deliver(s.To, h.mkWire(nebula.VerifRelayCtlResponse, s.From, s.To2, s.Init, 601, v1), "reply")
		h.queue = nil
	}
	if second {
		h.deliver(i, h.mkWire(nebula.VerifRelayCtlRequest, rlyV4(2), rlyV4(3), 501, 0, v1), "duplicate")
		for len(h.queue) > 0 {
			q := h.queue[0]
			h.queue = h.queue[1:]
			h.deliver(q.tun, q.wire, "reply")
		}
		h.w.DelTunnel(t)
		h.tuns[t].dead = true
		h.observe(hx.App("ODel", hx.N(uint64(t))), nebula.VerifRelayOut{}, "delete target")
		t2 := h.addTunnel([]netip.Addr{rlyV4(3)}, 13, true, v1)
		_ = t2
		h.deliver(i, h.mkWire(nebula.VerifRelayCtlRequest, rlyV4(2), rlyV4(3), 501, 0, v1), "request")
		for len(h.queue) > 0 {
			q := h.queue[0]
			h.queue = h.queue[1:]
			h.deliver(q.tun, q.wire, "reply")
		}
	}
	return h, h.hits > 0
}

// a tunnel asks for a relay to its own address and confirms it itself: its packets come back to it
func rlySelf(c *hx.Ctx) *rlyHist {
	h := rlyNewHist(c, []netip.Addr{rlyV4(1)}, true)
	x := h.addTunnel([]netip.Addr{rlyV4(2)}, 11, true, false)
	out := h.deliver(x, h.mkWire(nebula.VerifRelayCtlRequest, rlyV4(9), rlyV4(2), 501, 0, false), "self-request")
	h.queue = nil
	d := h.w.Dump()
	for _, r := range d.Tunnels[x].Recs {
		h.deliver(x, h.mkWire(nebula.VerifRelayCtlResponse, rlyV4(2), rlyV4(2), r.Local, 777, false), "self-confirm")
		h.queue = nil
	}
	_ = out
	return h
}

func runRelay(c *hx.Ctx) {
	cw := c.NewCaseWriter("From NV Require Import lib.Relay_lib model.Relay corr.Relay_corr.", "Relay_corr.case", "Relay_corr.check_case", 16)
	var failures []map[string]any
	// 1. every row of both tables on a fresh situation
	var rowLits []string
	flushRows := func() {
		if len(rowLits) == 0 {
			return
		}
		cw.Add(hx.App("Relay_corr.CRows", hx.List(rowLits)), "rows", true, map[string]any{"op": "rows", "n": len(rowLits)})
		rowLits = nil
	}
	for _, r := range rlyAllQRows() {
		s := rlyBuildQ(c, r)
		a, err := rlyRunSituation(c, s)
		if err != nil {
			failures = append(failures, map[string]any{"i": cw.Total(), "code": 1, "what": err.Error(), "situation": s.desc})
			continue
		}
		rowLits = append(rowLits, hx.App("Relay_corr.RQ", r.lit(), a.lit()))
		if len(rowLits) >= 150 {
			flushRows()
		}
	}
	for _, r := range rlyAllXRows() {
		s := rlyBuildX(c, r)
		a, err := rlyRunSituation(c, s)
		if err != nil {
			failures = append(failures, map[string]any{"i": cw.Total(), "code": 1, "what": err.Error(), "situation": s.desc})
			continue
		}
		rowLits = append(rowLits, hx.App("Relay_corr.RX", r.lit(), a.lit()))
		if len(rowLits) >= 150 {
			flushRows()
		}
	}
	flushRows()
	// 2. scripted histories
	add := func(h *rlyHist, am bool, kind string, nontrivial bool) {
		for _, b := range h.implBad {
			failures = append(failures, map[string]any{"i": cw.Total(), "code": 2, "what": b})
		}
		cw.Add(h.lit(am), kind, nontrivial, map[string]any{"op": "history", "kind": kind, "me": fmt.Sprint(h.me), "am": am, "steps": h.descs})
	}
	for _, v1 := range []bool{false, true} {
		for _, second := range []bool{false, true} {
			h, fw := rlyHappy(c, v1, second)
			if !fw {
				failures = append(failures, map[string]any{"i": cw.Total(), "code": 1, "what": "the scripted three-party set-up did not lead to forwarding"})
			}
			add(h, true, "scripted", true)
		}
	}
	add(rlySelf(c), true, "self-relay", true)
	for v := 0; v < 4; v++ {
		add(rlyCross(c, v), v < 2, "scripted-cross", true)
	}
	// 3. random histories
	deepHist := 0
	for i := 0; i < c.N; i++ {
		me := []netip.Addr{rlyV4(1)}
		if c.Chance(0.3) {
			me = append(me, rlyV6(1))
		}
		am := c.Chance(0.75)
		h := rlyNewHist(c, me, am)
		n := 10 + c.Intn(18)
		// start with a few tunnels so that most messages reach the deep branches
		for k := 0; k < 3+c.Intn(2); k++ {
			h.addTunnel([]netip.Addr{h.poolAddr()}, uint32(10+c.Intn(5000)), true, c.Chance(0.3))
		}
		for len(h.steps) < n {
			h.stepOnce()
		}
		kind := "random"
		if h.hits > 0 {
			kind = "random-forwarding"
			deepHist++
		}
		add(h, am, kind, h.deep >= 2)
		for k, v := range h.kinds {
			cw.Kinds["step:"+k] += v
		}
	}
	if len(failures) > 0 {
		cw.Meta("failures", failures)
	}
	cw.Meta("histories_with_forwarding", deepHist)
	cw.Close("every row of the request / response tables on a fresh concrete situation; scripted three-party set-ups (v1/v2, duplicate request, target loss and re-establishment), a self-relay, a third peer answering for a leg that is not its own (relay: target leg Requested / Disestablished; initiator: terminal record Requested / Disestablished); random histories of 10..27 steps on relays (75 %) and initiators with >= 3 peers: tunnel add/delete (index collisions, dead tunnels), honest requests, peers' replies (85 %), requests to this node, duplicates / replays on other tunnels, cross-responses (8 %: a well-formed CreateRelayResponse naming an index of another peer's tunnel, by preference a Requested / Disestablished leg, over a different tunnel), hostile messages (arbitrary addresses incl. own, stale / foreign indexes, absent fields, unknown types), am_relay reloads, StartRelays, InsertRelayTo; scripted crypto/rand (zero and colliding candidates). non-trivial = at least two control messages were answered or passed on; distinct by literal")
}

//go:build comp_all || comp_reject

package main

import (
	"encoding/binary"
	"fmt"
	"strings"

	nebula "github.com/slackhq/nebula"
	"github.com/slackhq/nebula/iputil"
	"verifharness/hx"
)

func init() {
	hx.Register("gen_reject", genReject)
	hx.Register("reject", runReject)
	hx.Register("rejcall", runRejCall)
}

// genReject (T1): the documented upper bound of a reject reply.
func genReject(c *hx.Ctx) {
	var sb strings.Builder
	sb.WriteString("(* GENERATED from /repo/iputil by harness gen_reject: do not edit *)\nFrom Coq Require Import NArith.\nOpen Scope N_scope.\n")
	fmt.Fprintf(&sb, "Definition rej_max_reject_packet_size : N := %d.\n", iputil.MaxRejectPacketSize)
	c.WriteFile("Consts_Reject.v", sb.String())
}

func rejObserve(packet []byte, capN int, emptyLen bool) (out []byte, panicked bool) {
	p := make([]byte, len(packet)) // cap == len, see ippObserve
	copy(p, packet)
	buf := make([]byte, capN)
	for i := range buf {
		buf[i] = 0xaa // dirty: every byte of the reply must be written
	}
	if emptyLen {
		buf = buf[:0]
	}
	defer func() {
		if r := recover(); r != nil {
			out, panicked = nil, true
		}
	}()
	out = iputil.CreateRejectPacket(p, buf)
	return out, false
}

// ---- checksum regions of a reply, computed here only to SELECT inputs (never to judge them) -------------

func rejWordSum(b []byte, zeroAt int) uint32 {
	var s uint32
	for i := 0; i < len(b); i += 2 {
		hi, lo := b[i], byte(0)
		if i+1 < len(b) {
			lo = b[i+1]
		}
		if i == zeroAt {
			hi, lo = 0, 0
		}
		s += uint32(hi)<<8 | uint32(lo)
	}
	return s
}

// rejRegionSums returns, for every checksummed region of a reply, the 32-bit one's-complement word sum with the
// checksum field taken as zero (pseudo header included): IPv4 header, ICMPv4 message, TCP segment, ICMPv6 message.
func rejRegionSums(out []byte) map[string]uint32 {
	m := map[string]uint32{}
	if len(out) < 20 {
		return m
	}
	switch out[0] >> 4 {
	case 4:
		m["v4hdr"] = rejWordSum(out[:20], 10)
		seg := out[20:]
		if out[9] == 1 && len(seg) >= 8 {
			m["v4icmp"] = rejWordSum(seg, 2)
		} else if out[9] == 6 && len(seg) >= 20 {
			m["v4tcp"] = rejWordSum(out[12:20], -1) + 6 + uint32(len(seg)) + rejWordSum(seg, 16)
		}
	case 6:
		if len(out) < 48 {
			return m
		}
		seg := out[40:]
		ps := rejWordSum(out[8:40], -1) + uint32(out[6]) + uint32(len(seg))
		if out[6] == 58 {
			m["v6icmp"] = ps + rejWordSum(seg, 2)
		} else if out[6] == 6 && len(seg) >= 20 {
			m["v6tcp"] = ps + rejWordSum(seg, 16)
		}
	}
	return m
}

// a sum whose first end-around fold still does not fit 16 bits: folding once is not enough
func rejNeedsSecondCarry(s uint32) bool { return (s>>16)+(s&0xffff) > 0xffff }

func rejSecondCarryRegions(out []byte) []string {
	var r []string
	for _, k := range []string{"v4hdr", "v4icmp", "v4tcp", "v6icmp", "v6tcp"} {
		if s, ok := rejRegionSums(out)[k]; ok && rejNeedsSecondCarry(s) {
			r = append(r, k)
		}
	}
	return r
}

// rejSolveKnob sets the big-endian 16-bit word at packet[knob:knob+2] so that `region` of the reply needs the second
// carry; the reply is obtained from the implementation under test, the predicate is recomputed afterwards. ok=false
// if no value of the word achieves it.
func rejSolveKnob(packet []byte, knob int, region string, capN int) ([]byte, bool) {
	if knob+2 > len(packet) {
		return nil, false
	}
	p := append([]byte{}, packet...)
	p[knob], p[knob+1] = 0, 0
	out, pan := rejObserve(p, capN, false)
	if pan {
		return nil, false
	}
	s, ok := rejRegionSums(out)[region]
	if !ok {
		return nil, false
	}
	for tweak := uint32(0); tweak < 4; tweak++ {
		w := (0xffff - (s & 0xffff) - tweak) & 0xffff
		p[knob], p[knob+1] = byte(w>>8), byte(w)
		out2, pan2 := rejObserve(p, capN, false)
		if pan2 {
			continue
		}
		if s2, ok2 := rejRegionSums(out2)[region]; ok2 && rejNeedsSecondCarry(s2) {
			return p, true
		}
	}
	return nil, false
}

func runReject(c *hx.Ctx) {
	cw := c.NewCaseWriter("From NV Require Import corr.Reject_corr.", "Reject_corr.case", "Reject_corr.check_case", 400)
	replies, secondCarry := 0, 0
	secondCarryBy := map[string]int{}
	add := func(packet []byte, capN int, kind string) {
		out, pan := rejObserve(packet, capN, (capN+len(packet))%2 == 0)
		if len(out) > 0 {
			replies++
		}
		if rs := rejSecondCarryRegions(out); len(rs) > 0 {
			secondCarry++
			for _, r := range rs {
				secondCarryBy[r]++
			}
		}
		ver := 0
		if len(packet) > 0 {
			ver = int(packet[0] >> 4)
		}
		desc := map[string]any{"packet": hx.Ints(packet), "cap": capN, "out": hx.Ints(out), "panicked": pan, "v": ver}
		cw.Add(hx.App("Reject_corr.CReject", hx.Bytes(packet), hx.N(uint64(capN)), hx.Bytes(out), hx.Bool(pan)), kind, len(out) > 0, desc)
	}
	// caps around the interesting thresholds of a packet: 0..3, around each possible reply size, the documented maximum
	capsFor := func(p []byte) []int {
		cs := []int{0, 1, 19, 20, 27, 28, 39, 40, 41, 47, 48, 59, 60, 61, 1047, 1048, 1049, 1100}
		for _, base := range []int{28, 48} {
			for d := -2; d <= 2; d++ {
				cs = append(cs, base+len(p)+d)
			}
		}
		if len(p) > 0 {
			ihl := int(p[0]&0x0f) << 2
			for d := -1; d <= 1; d++ {
				cs = append(cs, 28+ihl+8+d)
			}
		}
		res := cs[:0]
		for _, x := range cs {
			if x >= 0 && x <= 1100 {
				res = append(res, x)
			}
		}
		return res
	}
	capSweep := func(p []byte, kind string) {
		for _, k := range capsFor(p) {
			add(p, k, kind)
		}
	}
	tcpSeg := func(flags byte, doff int, payload int, seq, ack uint32) []byte {
		t := ippTCP(0x1234, 0x0050, flags)
		binary.BigEndian.PutUint32(t[4:], seq)
		binary.BigEndian.PutUint32(t[8:], ack)
		t[12] = byte(doff<<4) | 0x01
		for i := 0; i < payload; i++ {
			t = append(t, byte(i))
		}
		return t
	}

	// ---- carry-adversarial corpus: checksum regions whose 32-bit word sum needs a SECOND end-around carry ----
	{
		// the reported example: plain UDP 172.16.17.1 -> 172.16.17.165 (IPv4 header checksum of the reply)
		ex := ippV4(5, 17, 0, ippUDP(4000, 53))
		copy(ex[12:16], []byte{172, 16, 17, 1})
		copy(ex[16:20], []byte{172, 16, 17, 165})
		add(ex, 1100, "carry2-example")

		fill := func(b []byte, pat int) {
			for i := range b {
				switch pat {
				case 0:
					b[i] = 0xff
				case 1:
					b[i] = 0xff - byte(i%2)
				case 2:
					b[i] = 0xff * byte((i+1)%2)
				default:
					b[i] = 0xff * byte(i%2)
				}
			}
		}
		mk4 := func(ihl int, proto byte, pat int, payload int) []byte {
			p := make([]byte, ihl*4+payload)
			fill(p, pat)
			p[0] = 0x40 | byte(ihl)
			p[6], p[7] = 0x40, 0
			p[9] = proto
			if proto == 6 && payload >= 20 {
				p[ihl*4+12] = 0x5f
				p[ihl*4+13] &^= 0x10 // ACK clear: the ack number is computed, with the 0xffffffff sequence number wrapping
				if pat%2 == 1 {
					p[ihl*4+13] |= 0x10
				}
			}
			return p
		}
		mk6 := func(nh byte, pat int, payload int) []byte {
			p := make([]byte, 40+payload)
			fill(p, pat)
			p[0] = 0x60 | (p[0] & 0x0f)
			p[6] = nh
			if nh == 6 && payload >= 20 {
				p[40+12] = 0x5f
				p[40+13] &^= 0x10
				if pat%2 == 1 {
					p[40+13] |= 0x10
				}
			}
			if nh == 58 && payload > 0 {
				p[40] = 128
			}
			return p
		}
		for pat := 0; pat < 4; pat++ { // 0xff-heavy everything (addresses, id, ports 0xffff, seq/ack, window, payload), every reply kind
			for _, ihl := range []int{5, 6, 15} {
				add(mk4(ihl, 17, pat, 8), 1100, "ff-heavy-v4-icmp")
				add(mk4(ihl, 17, pat, 3), 1100, "ff-heavy-v4-icmp")
				add(mk4(ihl, 1, pat, 8), 1100, "ff-heavy-v4-icmp")
				add(mk4(ihl, 6, pat, 20), 1100, "ff-heavy-v4-tcp")
				add(mk4(ihl, 6, pat, 31), 1100, "ff-heavy-v4-tcp")
			}
			for _, n := range []int{0, 1, 7, 8, 9, 100, 101, 958, 959, 960, 961, 1100} {
				add(mk6(17, pat, n), 1100, "ff-heavy-v6-icmp")
				add(mk6(58, pat, n), 1100, "ff-heavy-v6-icmp")
			}
			add(mk6(6, pat, 20), 1100, "ff-heavy-v6-tcp")
			add(mk6(6, pat, 33), 1100, "ff-heavy-v6-tcp")
		}

		// IPv6 length sweep 0..1200 with an all-0xff payload (the quoted body is cut at 1000 bytes), two address pairs:
		// every length whose ICMPv6 sum needs the second carry is kept, the others are sampled (all kept in the thorough tier)
		stride := 40
		if c.Tier == "thorough" {
			stride = 1
		}
		for pair := 0; pair < 2; pair++ {
			for n := 0; n <= 1200; n++ {
				p := make([]byte, 40+n)
				fill(p[40:], 0)
				hdr := ippV6Fixed(17, n, ippSrc6, ippDst6)
				if pair == 1 {
					var s6, d6 [16]byte
					fill(s6[:], 1)
					fill(d6[:], 0)
					d6[15] = 0xfe
					hdr = ippV6Fixed(253, n, s6, d6)
				}
				copy(p, hdr)
				out, _ := rejObserve(p, 1100, false)
				if len(rejSecondCarryRegions(out)) > 0 {
					add(p, 1100, "carry2-v6-ff-len")
				} else if n%stride == pair {
					// same length, the low word of the flow label (quoted once in the body) solved to need the second carry
					if q, ok := rejSolveKnob(p, 2, "v6icmp", 1100); ok {
						add(q, 1100, "carry2-v6-ff-len")
					} else {
						add(p, 1100, "v6-ff-len")
					}
				}
			}
		}

		// directed search: random base packets, one 16-bit word of the input solved so that the named region of the
		// reply needs the second carry (recomputed on the reply before the case is kept)
		type knobSpec struct {
			region string
			build  func() ([]byte, int) // packet, offset of the free word
		}
		rnd4 := func(proto byte, pl []byte) []byte {
			ihl := 5 + c.Intn(3)
			p := ippV4(ihl, proto, 0x4000, pl)
			copy(p[12:20], c.RandBytes(8))
			copy(p[4:6], c.RandBytes(2))
			return p
		}
		rnd6 := func(nh byte, pl []byte) []byte {
			var s6, d6 [16]byte
			copy(s6[:], c.RandBytes(16))
			copy(d6[:], c.RandBytes(16))
			return append(ippV6Fixed(nh, len(pl), s6, d6), pl...)
		}
		rndTCP := func() []byte {
			return tcpSeg(byte(c.Intn(256)), 5, c.Intn(12), uint32(c.U64()), uint32(c.U64()))
		}
		specs := []knobSpec{
			{"v4hdr", func() ([]byte, int) { return rnd4(17, ippUDP(uint16(c.Intn(65536)), 53)), 14 }},                 // low word of the source address
			{"v4hdr", func() ([]byte, int) { return rnd4(6, rndTCP()), 18 }},                                           // low word of the destination address
			{"v4icmp", func() ([]byte, int) { p := rnd4(17, ippUDP(uint16(c.Intn(65536)), 53)); return p, 4 }},         // IP id of the quoted header
			{"v4icmp", func() ([]byte, int) { p := rnd4(17, ippUDP(1, 2)); return p, int(p[0]&0x0f)*4 + 6 }},           // last quoted payload word
			{"v4tcp", func() ([]byte, int) { p := rnd4(6, rndTCP()); return p, int(p[0]&0x0f) * 4 }},                   // source port
			{"v4tcp", func() ([]byte, int) { p := rnd4(6, rndTCP()); return p, 12 }},                                   // high word of the source address
			{"v6icmp", func() ([]byte, int) { return rnd6(17, append(ippUDP(9, 9), c.RandBytes(c.Intn(64))...)), 46 }}, // UDP checksum word of the quoted packet
			{"v6icmp", func() ([]byte, int) { return rnd6(58, ippICMP(128, 0, 1, 1)), 2 }},                             // low word of the flow label (quoted once)
			{"v6tcp", func() ([]byte, int) { return rnd6(6, rndTCP()), 42 }},                                           // destination port
			{"v6tcp", func() ([]byte, int) { return rnd6(6, rndTCP()), 38 }},                                           // low word of the destination address
		}
		perSpec := 6
		if c.Tier == "thorough" {
			perSpec = 60
		}
		for _, sp := range specs {
			found := 0
			for try := 0; try < 40*perSpec && found < perSpec; try++ {
				base, knob := sp.build()
				if q, ok := rejSolveKnob(base, knob, sp.region, 1100); ok {
					add(q, 1100, "carry2-"+sp.region)
					found++
				}
			}
		}
		// undirected: a few thousand random address pairs, those whose IPv4 header / TCP pseudo header sum needs the second
		// carry by themselves are kept (about 1 in 20000; the count shows up in the distribution as carry2-random)
		for try := 0; try < 4000; try++ {
			var p []byte
			if try%2 == 0 {
				p = rnd4(17, ippUDP(uint16(c.Intn(65536)), uint16(c.Intn(65536))))
			} else {
				p = rnd4(6, rndTCP())
			}
			out, _ := rejObserve(p, 1100, false)
			if len(rejSecondCarryRegions(out)) > 0 {
				add(p, 1100, "carry2-random")
			}
		}
	}

	// ---- sweeps ----
	for fl := 0; fl < 256; fl++ { // every TCP flag byte, IPv4 and IPv6 (behind a hop-by-hop header for odd values)
		add(ippV4(5+fl%3, 6, 0x4000, tcpSeg(byte(fl), 5+fl%4, fl%7, 0xfffffff0+uint32(fl%32), 0x01020304)), 64, "v4-tcp-flags")
		seg := tcpSeg(byte(fl), 5, fl%5, 0x7fffffff, 0xa0b0c0d0)
		if fl%2 == 1 {
			add(ippChain([]byte{0}, []int{0}, 6, seg), 80, "v6-tcp-flags")
		} else {
			add(ippChain(nil, nil, 6, seg), 80, "v6-tcp-flags")
		}
	}
	for doff := 0; doff < 16; doff++ { // every data offset, also larger than the segment (uint32 wrap)
		add(ippV4(5, 6, 0, tcpSeg(0x02, doff, 3, 0, 0)), 40, "tcp-doff")
		add(ippChain(nil, nil, 6, tcpSeg(0x01, doff, 0, 0xffffffff, 0)), 60, "tcp-doff")
	}
	for typ := 0; typ < 256; typ++ { // every ICMP / ICMPv6 type
		add(ippV4(5+typ%2, 1, 0, ippICMP(byte(typ), 0, 1, 2)), 128, "v4-icmp-type")
		add(ippChain(nil, nil, 58, ippICMP(byte(typ), 0, 1, 2)), 128, "v6-icmp-type")
	}
	for proto := 0; proto < 256; proto++ { // every protocol / next header
		add(ippV4(5, byte(proto), 0, tcpSeg(0x10, 5, 4, 1, 2)), 100, "v4-proto")
		add(ippChain(nil, nil, byte(proto), tcpSeg(0x10, 5, 4, 1, 2)), 200, "v6-nh")
	}
	for ihl := 0; ihl < 16; ihl++ { // every IHL value
		p := ippV4(max(ihl, 5), 17, 0, ippUDP(53, 53))
		p[0] = 0x40 | byte(ihl)
		add(p, 200, "v4-ihl")
		q := ippV4(max(ihl, 5), 6, 0, tcpSeg(0x02, 5, 0, 9, 9))
		q[0] = 0x40 | byte(ihl)
		add(q, 200, "v4-ihl")
		r := ippV4(max(ihl, 5), 1, 0, ippICMP(3, 1, 0, 0))
		r[0] = 0x40 | byte(ihl)
		add(r[:min(len(r), 24)], 200, "v4-ihl")
	}
	for _, ff := range []uint16{0, 0x4000, 0x2000, 1, 0x1fff, 0x2001, 0x0100, 0x00ff, 0x1f00, 0x2000 | 0x1f00, 0x8000, 0xe000} {
		add(ippV4(5, 17, ff, ippUDP(1, 2)), 100, "v4-frag")
		add(ippV4(5, 6, ff, tcpSeg(2, 5, 0, 1, 1)), 100, "v4-frag")
	}
	for b3 := 0; b3 < 256; b3 += 1 { // IPv6 fragment header bit patterns
		h := ippExt(44, 17, 0, 0, 0, 0)
		h[2], h[3] = byte(b3%3/2), byte(b3)
		p := append(ippV6Fixed(44, 16, ippSrc6, ippDst6), h...)
		add(append(p, ippUDP(100, 200)...), 200, "v6-frag")
	}
	for k := 0; k <= 12; k++ { // chains around the walker's limit
		for _, kind := range []byte{0, 43, 60, 51} {
			kinds, lens := make([]byte, k), make([]int, k)
			for i := range kinds {
				kinds[i] = kind
				lens[i] = i % 2
			}
			add(ippChain(kinds, lens, 17, ippUDP(7, 7)), 1100, "v6-chain-len")
			add(ippChain(kinds, lens, 6, tcpSeg(0x12, 5, 2, 5, 6)), 1100, "v6-chain-len")
		}
	}
	capSweep(ippV4(5, 6, 0, tcpSeg(0x02, 5, 0, 100, 0)), "cap-v4-tcp")
	capSweep(ippV4(7, 17, 0, ippUDP(9, 9)), "cap-v4-udp")
	capSweep(ippV4(15, 17, 0, ippUDP(9, 9)[:3]), "cap-v4-udp")
	capSweep(ippV4(5, 1, 0, ippICMP(8, 0, 1, 1)), "cap-v4-icmp")
	capSweep(ippChain(nil, nil, 6, tcpSeg(0x10, 5, 10, 100, 200)), "cap-v6-tcp")
	capSweep(ippChain([]byte{60}, []int{1}, 17, ippUDP(9, 9)), "cap-v6-udp")
	{
		big := ippChain(nil, nil, 17, append(ippUDP(9, 9), c.RandBytes(990)...)) // larger than the 1000 byte body limit
		capSweep(big, "cap-v6-big")
		capSweep(big[:1000], "cap-v6-big")
		capSweep(big[:999], "cap-v6-big")
		capSweep(big[:1001], "cap-v6-big")
	}
	for _, base := range [][]byte{ippV4(6, 6, 0, tcpSeg(0x02, 5, 0, 1, 1)), ippV4(6, 17, 0, ippUDP(1, 1)),
		ippChain([]byte{0}, []int{0}, 6, tcpSeg(0x02, 5, 0, 1, 1)), ippChain([]byte{0, 60}, []int{0, 0}, 58, ippICMP(128, 0, 1, 1))} {
		for n := 0; n <= len(base); n++ { // truncation at every offset
			add(base[:n], 1100, "trunc")
		}
	}
	for capN := 0; capN <= 1100; capN += 1 { // every capacity, small packets
		switch capN % 4 {
		case 0:
			add(ippV4(5, 17, 0, ippUDP(1, 1)), capN, "cap-every")
		case 1:
			add(ippV4(5, 6, 0, tcpSeg(0x02, 5, 0, 1, 1)), capN, "cap-every")
		case 2:
			add(ippChain(nil, nil, 17, ippUDP(1, 1)), capN, "cap-every")
		default:
			add(ippChain(nil, nil, 6, tcpSeg(0x11, 5, 0, 1, 1)), capN, "cap-every")
		}
	}

	// ---- random ----
	extKinds := []byte{0, 43, 60, 51, 44}
	for i := 0; i < c.N; i++ {
		capN := 1100
		switch c.Intn(4) {
		case 0:
			capN = c.Intn(1101)
		case 1:
			capN = c.Intn(120)
		}
		r := c.Intn(100)
		var p []byte
		kind := ""
		switch {
		case r < 40: // IPv4
			ihl := 5
			if c.Chance(0.4) {
				ihl = 5 + c.Intn(11)
			}
			var ff uint16
			if c.Chance(0.2) {
				ff = uint16(c.EdgeU64(16))
			}
			switch c.Intn(4) {
			case 0, 1:
				p = ippV4(ihl, 6, ff, tcpSeg(byte(c.Intn(256)), c.Intn(16), c.Intn(40), uint32(c.EdgeU64(32)), uint32(c.EdgeU64(32))))
				kind = "v4-tcp"
			case 2:
				p = ippV4(ihl, 17, ff, append(ippUDP(uint16(c.Intn(65536)), uint16(c.Intn(65536))), c.RandBytes(c.Intn(60))...))
				kind = "v4-udp"
			default:
				p = ippV4(ihl, []byte{1, 1, 47, 50, 132, 0}[c.Intn(6)], ff, ippICMP([]byte{0, 8, 3, 4, 5, 11, 12, 13}[c.Intn(8)], 0, 1, 1))
				kind = "v4-other"
			}
		case r < 85: // IPv6
			k := []int{0, 0, 0, 1, 1, 2, 3, 5, 8, 9, 11}[c.Intn(11)]
			term := []byte{6, 6, 6, 17, 17, 58, 58, 59, 47, 50}[c.Intn(10)]
			var pl []byte
			switch term {
			case 6:
				pl = tcpSeg(byte(c.Intn(256)), c.Intn(16), c.Intn(40), uint32(c.EdgeU64(32)), uint32(c.EdgeU64(32)))
			case 58:
				pl = ippICMP([]byte{128, 129, 1, 2, 3, 4, 0, 5, 133}[c.Intn(9)], 0, 3, 4)
			default:
				pl = append(ippUDP(5, 6), c.RandBytes(c.Intn(80))...)
			}
			body := []byte{}
			kinds := make([]byte, k)
			for j := range kinds {
				kinds[j] = extKinds[c.Intn(len(extKinds))]
			}
			kind = "v6"
			for j, ek := range kinds {
				next := term
				if j+1 < k {
					next = kinds[j+1]
				}
				fragOff := 0
				if ek == 44 && c.Chance(0.3) {
					fragOff = 1 + c.Intn(8191)
					kind = "v6-nonfirst"
				}
				body = append(body, ippExt(ek, next, c.Intn(3), fragOff, byte(c.Intn(8)), byte(c.Intn(256)))...)
			}
			first := term
			if k > 0 {
				first = kinds[0]
			}
			body = append(body, pl...)
			var s, d [16]byte
			copy(s[:], c.RandBytes(16))
			copy(d[:], c.RandBytes(16))
			if c.Chance(0.1) { // addresses that stress the checksum carries
				for j := range s {
					s[j], d[j] = 0xff, 0xff
				}
			}
			p = append(ippV6Fixed(first, len(body), s, d), body...)
		default: // unstructured
			p = c.RandBytes(c.Intn(100))
			if len(p) > 0 && c.Chance(0.8) {
				p[0] = []byte{0x45, 0x46, 0x60, 0x4f, 0x40}[c.Intn(5)]
			}
			kind = "raw"
		}
		if c.Chance(0.15) {
			p = p[:c.Intn(len(p)+1)]
			kind += "-truncated"
		}
		if c.Chance(0.12) && len(p) > 0 { // 0xff-heavy tail: pushes the quoted body / segment sums towards the carry edges
			from := 20 + c.Intn(30)
			for j := from; j < len(p); j++ {
				if c.Chance(0.9) {
					p[j] = 0xff - byte(c.Intn(2))
				}
			}
			kind += "-ff"
		}
		add(p, capN, kind)
	}
	cw.Meta("replies", replies)
	cw.Meta("second_carry_cases", secondCarry)
	cw.Meta("second_carry_by_region", secondCarryBy)
	cw.Close("carry-adversarial corpus (0xff-heavy packets for every reply kind, IPv6 all-0xff length sweep 0..1200, inputs solved so that the IPv4 header / ICMP / ICMPv6 / TCP checksum sum of the reply needs a second end-around carry - counted in second_carry_cases), sweeps (every TCP flag byte, data offset, ICMP/ICMPv6 type, protocol, IHL, fragment bit pattern, chains of 0..12 headers, capacities around every threshold and every capacity 0..1100 on small packets, truncation at every offset) then random: 40% IPv4 (options, TCP/UDP/ICMP/other, fragments), 45% IPv6 (chains, fragments, TCP/UDP/ICMPv6/other), 15% unstructured, 15% of all truncated; capacities 0..1100; non-trivial = a reply was produced; distinct by literal")
}

// ---- the callers: Interface.rejectInside / Interface.rejectOutside on a minimal Interface (overlay verif_reject.go) ----

func rejBytesList(ws [][]byte) string {
	items := make([]string, len(ws))
	for i, w := range ws {
		items[i] = hx.Bytes(w)
	}
	return hx.List(items)
}

// payload filler with short literals
func rejFill(n int) []byte {
	b := make([]byte, n)
	for i := range b {
		b[i] = byte(i % 10)
	}
	return b
}

func rejTCPSeg(flags byte, doff int, payload int, seq, ack uint32) []byte {
	t := ippTCP(0x1234, 0x0050, flags)
	binary.BigEndian.PutUint32(t[4:], seq)
	binary.BigEndian.PutUint32(t[8:], ack)
	t[12] = byte(doff << 4)
	return append(t, rejFill(payload)...)
}

func runRejCall(c *hx.Ctx) {
	cw := c.NewCaseWriter("From NV Require Import corr.Reject_corr.", "Reject_corr.case", "Reject_corr.check_case", 28)
	rig := nebula.VerifNewRejectRig()
	emitted, overMax := 0, 0
	add := func(inside bool, packet []byte, bufLen int, kind string) {
		p := make([]byte, len(packet))
		copy(p, packet)
		var ws [][]byte
		sent, pan := 0, false
		func() {
			defer func() {
				if r := recover(); r != nil {
					ws, sent, pan = nil, 0, true
					rig = nebula.VerifNewRejectRig()
				}
			}()
			if inside {
				ws = rig.VerifRejectInside(p, bufLen)
				sent = len(ws)
			} else {
				ws, sent = rig.VerifRejectOutside(p, bufLen)
			}
		}()
		if len(ws) > 0 {
			emitted++
		}
		if len(packet) > iputil.MaxRejectPacketSize {
			overMax++
		}
		path := "outside"
		if inside {
			path = "inside"
		}
		lens := make([]int, len(ws))
		for i := range ws {
			lens[i] = len(ws[i])
		}
		desc := map[string]any{"path": path, "packet_len": len(packet), "packet_head": hx.Ints(packet[:min(len(packet), 80)]),
			"buflen": bufLen, "reply_lens": lens, "sent": sent, "panicked": pan}
		if len(ws) == 1 {
			desc["reply"] = hx.Ints(ws[0][:min(len(ws[0]), 80)])
		}
		cw.Add(hx.App("Reject_corr.CCaller", hx.Bool(inside), hx.Bytes(packet), hx.N(uint64(bufLen)), rejBytesList(ws), hx.N(uint64(sent)), hx.Bool(pan)),
			path+"-"+kind, len(ws) > 0, desc)
	}
	both := func(packet []byte, bufLen int, kind string) {
		add(true, packet, bufLen, kind)
		add(false, packet, bufLen, kind)
	}
	// a packet of exactly total bytes: v4 (ihl words) or v6 (ext = extension header kinds) carrying `mk(payloadLen)`
	v4Of := func(total, ihl int, proto byte, ff uint16, hdr func(n int) []byte, hdrLen int) []byte {
		n := total - ihl*4 - hdrLen
		if n < 0 {
			n = 0
		}
		return ippV4(ihl, proto, ff, hdr(n))
	}
	v6Of := func(total int, kinds []byte, lens []int, term byte, hdr func(n int) []byte, hdrLen int) []byte {
		extLen := 0
		for i, k := range kinds {
			extLen += len(ippExt(k, 0, lens[i], 0, 0, 0))
		}
		n := total - 40 - extLen - hdrLen
		if n < 0 {
			n = 0
		}
		return ippChain(kinds, lens, term, hdr(n))
	}
	tcpH := func(flags byte) func(int) []byte {
		return func(n int) []byte { return rejTCPSeg(flags, 5, n, 0x01020304, 0x0a0b0c0d) }
	}
	udpH := func(n int) []byte { return append(ippUDP(4000, 53), rejFill(n)...) }
	icmpH := func(typ byte) func(int) []byte {
		return func(n int) []byte { return append(ippICMP(typ, 0, 7, 9), rejFill(n)...) }
	}

	// ---- lengths straddling MaxRejectPacketSize, default mtu 1300 buffers ----
	straddle := []int{1048, 1049, 1400}
	tcpFlags := []byte{0x02, 0x01, 0x08, 0x10, 0x04, 0x19}
	for _, L := range straddle {
		for _, fl := range tcpFlags {
			both(v4Of(L, 5, 6, 0x4000, tcpH(fl), 20), 1300, "v4-tcp-straddle")
			both(v6Of(L, nil, nil, 6, tcpH(fl), 20), 1300, "v6-tcp-straddle")
		}
		both(v4Of(L, 6, 6, 0, tcpH(0x02), 20), 1300, "v4-tcp-straddle")
		both(v6Of(L, []byte{0, 60}, []int{0, 1}, 6, tcpH(0x02), 20), 1300, "v6-tcp-straddle")
		both(v6Of(L, []byte{44}, []int{0}, 6, tcpH(0x01), 20), 1300, "v6-tcp-straddle") // first fragment (offset 0)
		both(v4Of(L, 5, 17, 0, udpH, 8), 1300, "v4-udp-straddle")
		both(v6Of(L, nil, nil, 17, udpH, 8), 1300, "v6-udp-straddle")
		both(v6Of(L, []byte{43}, []int{2}, 17, udpH, 8), 9001, "v6-udp-straddle")
		both(v4Of(L, 5, 1, 0, icmpH(8), 8), 1300, "v4-icmp-straddle")
		both(v6Of(L, nil, nil, 58, icmpH(128), 8), 9001, "v6-icmp-straddle")
		both(v4Of(L, 5, 1, 0, icmpH(3), 8), 1300, "icmp-error")
		both(v6Of(L, nil, nil, 58, icmpH(1), 8), 1300, "icmp-error")
		both(v4Of(L, 5, 6, 0x00b9, tcpH(0x02), 20), 1300, "fragment")
		{
			nf := append(ippV6Fixed(44, L-40, ippSrc6, ippDst6), ippExt(44, 6, 0, 5, 1, 0)...)
			both(append(nf, rejFill(L-48)...), 1300, "fragment")
		}
	}
	for fl := 0; fl < 64; fl++ { // every TCP flag combination on a packet just over the maximum, alternating family and path
		if fl%2 == 0 {
			add(fl%4 == 0, v4Of(1100, 5, 6, 0x4000, tcpH(byte(fl)), 20), 1300, "v4-tcp-flags-1100")
		} else {
			add(fl%4 == 1, v6Of(1100, nil, nil, 6, tcpH(byte(fl)), 20), 1300, "v6-tcp-flags-1100")
		}
	}
	// extension header chains that themselves run past MaxRejectPacketSize
	both(ippChain([]byte{60}, []int{255}, 6, rejTCPSeg(0x02, 5, 10, 1, 1)), 9001, "v6-long-ext")
	both(ippChain([]byte{0, 43}, []int{100, 60}, 17, udpH(30)), 9001, "v6-long-ext")
	both(ippChain([]byte{60}, []int{130}, 6, rejTCPSeg(0x11, 5, 0, 9, 9)), 1300, "v6-long-ext")
	// jumbo
	// jumbo (a 65535 byte list literal overflows Coq's parser stack; 9000 is the largest length evaluated)
	add(true, v4Of(9000, 5, 6, 0, tcpH(0x02), 20), 9001, "jumbo")
	add(false, v6Of(9000, nil, nil, 6, tcpH(0x18), 20), 9001, "jumbo")
	add(c.Tier == "thorough", v6Of(9000, nil, nil, 17, udpH, 8), 9001, "jumbo")
	// small lengths and small buffers
	for L := 1; L <= 1048; L += 97 {
		both(v4Of(L, 5, 6, 0, tcpH(0x02), 20)[:L], 1300, "len-sweep")
		both(v6Of(L, nil, nil, 17, udpH, 8)[:L], 1300, "len-sweep")
	}
	for _, bl := range []int{0, 1, 39, 40, 79, 80, 81, 96, 119, 120, 121, 200, 2095, 2096, 2097} {
		both(v4Of(60, 5, 6, 0, tcpH(0x02), 20), bl, "buflen")
		both(v6Of(100, nil, nil, 17, udpH, 8), bl, "buflen")
		add(bl%2 == 0, v6Of(1400, nil, nil, 17, udpH, 8), bl, "buflen")
	}

	// ---- random ----
	for i := 0; i < c.N; i++ {
		L := 40 + c.Intn(600)
		switch c.Intn(10) {
		case 0, 1, 2, 3:
			L = 1040 + c.Intn(420)
		case 4:
			if c.Tier == "thorough" {
				L = 1500 + c.Intn(3000)
			}
		}
		bufLen := []int{1300, 1300, 1300, 9001, 1500, 600}[c.Intn(6)]
		fl := byte(c.Intn(64))
		var p []byte
		kind := ""
		switch c.Intn(8) {
		case 0, 1, 2:
			p, kind = v4Of(L, 5+c.Intn(3), 6, 0x4000, tcpH(fl), 20), "v4-tcp"
		case 3, 4:
			k := c.Intn(3)
			kinds, lens := make([]byte, k), make([]int, k)
			for j := range kinds {
				kinds[j] = []byte{0, 43, 60, 51}[c.Intn(4)]
				lens[j] = c.Intn(3)
			}
			p, kind = v6Of(L, kinds, lens, 6, tcpH(fl), 20), "v6-tcp"
		case 5:
			p, kind = v4Of(L, 5, 17, 0, udpH, 8), "v4-udp"
		case 6:
			p, kind = v6Of(L, nil, nil, 17, udpH, 8), "v6-udp"
		default:
			p, kind = v6Of(L, nil, nil, 58, icmpH([]byte{128, 1, 3, 135}[c.Intn(4)]), 8), "v6-icmp"
		}
		add(c.Chance(0.5), p, bufLen, kind)
	}
	cw.Meta("emitted_replies", emitted)
	cw.Meta("packets_longer_than_max_reject_size", overMax)
	cw.Close("the real Interface.rejectInside / rejectOutside on a minimal Interface with a recording tun queue, tunnel cipher and underlay writer: packet lengths straddling MaxRejectPacketSize (1048, 1049, 1100, 1400, 9000) for TCP with every flag combination, UDP, ICMP echo / error, fragments, IPv4 options, IPv6 extension headers (also chains longer than the maximum), reject buffers 0..2097 / 1300 / 9001 / 65535, then random lengths 40..1460 (..4500 in the thorough tier); non-trivial = a reply was emitted; distinct by literal")
}

//go:build comp_all || comp_reject

package main

import (
	"encoding/binary"
	"fmt"
	"strings"

	"github.com/slackhq/nebula/iputil"
	"verifharness/hx"
)

func init() {
	hx.Register("gen_reject", genReject)
	hx.Register("reject", runReject)
}

// genReject (T1): the documented upper bound of a reject reply.
func genReject(c *hx.Ctx) {
	var sb strings.Builder
	sb.WriteString("(* GENERATED from /repo/iputil by harness gen_reject: do not edit *)\nFrom Coq Require Import NArith.\nOpen Scope N_scope.\n")
	fmt.Fprintf(&sb, "Definition rej_max_reject_packet_size : N := %d.\n", iputil.MaxRejectPacketSize)
	c.WriteFile("Consts_Reject.v", sb.String())
}

func rejObserve(packet []byte, capN int, emptyLen bool) (out []byte, panicked bool) {
	p := make([]byte, len(packet)) // cap == len, see ippObserve
	copy(p, packet)
	buf := make([]byte, capN)
	for i := range buf {
		buf[i] = 0xaa // dirty: every byte of the reply must be written
	}
	if emptyLen {
		buf = buf[:0]
	}
	defer func() {
		if r := recover(); r != nil {
			out, panicked = nil, true
		}
	}()
	out = iputil.CreateRejectPacket(p, buf)
	return out, false
}

func runReject(c *hx.Ctx) {
	cw := c.NewCaseWriter("From NV Require Import corr.Reject_corr.", "Reject_corr.case", "Reject_corr.check_case", 400)
	replies := 0
	add := func(packet []byte, capN int, kind string) {
		out, pan := rejObserve(packet, capN, (capN+len(packet))%2 == 0)
		if len(out) > 0 {
			replies++
		}
		ver := 0
		if len(packet) > 0 {
			ver = int(packet[0] >> 4)
		}
		desc := map[string]any{"packet": hx.Ints(packet), "cap": capN, "out": hx.Ints(out), "panicked": pan, "v": ver}
		cw.Add(hx.App("Reject_corr.CReject", hx.Bytes(packet), hx.N(uint64(capN)), hx.Bytes(out), hx.Bool(pan)), kind, len(out) > 0, desc)
	}
	// caps around the interesting thresholds of a packet: 0..3, around each possible reply size, the documented maximum
	capsFor := func(p []byte) []int {
		cs := []int{0, 1, 19, 20, 27, 28, 39, 40, 41, 47, 48, 59, 60, 61, 1047, 1048, 1049, 1100}
		for _, base := range []int{28, 48} {
			for d := -2; d <= 2; d++ {
				cs = append(cs, base+len(p)+d)
			}
		}
		if len(p) > 0 {
			ihl := int(p[0]&0x0f) << 2
			for d := -1; d <= 1; d++ {
				cs = append(cs, 28+ihl+8+d)
			}
		}
		res := cs[:0]
		for _, x := range cs {
			if x >= 0 && x <= 1100 {
				res = append(res, x)
			}
		}
		return res
	}
	capSweep := func(p []byte, kind string) {
		for _, k := range capsFor(p) {
			add(p, k, kind)
		}
	}
	tcpSeg := func(flags byte, doff int, payload int, seq, ack uint32) []byte {
		t := ippTCP(0x1234, 0x0050, flags)
		binary.BigEndian.PutUint32(t[4:], seq)
		binary.BigEndian.PutUint32(t[8:], ack)
		t[12] = byte(doff<<4) | 0x01
		for i := 0; i < payload; i++ {
			t = append(t, byte(i))
		}
		return t
	}

	// ---- sweeps ----
	for fl := 0; fl < 256; fl++ { // every TCP flag byte, IPv4 and IPv6 (behind a hop-by-hop header for odd values)
		add(ippV4(5+fl%3, 6, 0x4000, tcpSeg(byte(fl), 5+fl%4, fl%7, 0xfffffff0+uint32(fl%32), 0x01020304)), 64, "v4-tcp-flags")
		seg := tcpSeg(byte(fl), 5, fl%5, 0x7fffffff, 0xa0b0c0d0)
		if fl%2 == 1 {
			add(ippChain([]byte{0}, []int{0}, 6, seg), 80, "v6-tcp-flags")
		} else {
			add(ippChain(nil, nil, 6, seg), 80, "v6-tcp-flags")
		}
	}
	for doff := 0; doff < 16; doff++ { // every data offset, also larger than the segment (uint32 wrap)
		add(ippV4(5, 6, 0, tcpSeg(0x02, doff, 3, 0, 0)), 40, "tcp-doff")
		add(ippChain(nil, nil, 6, tcpSeg(0x01, doff, 0, 0xffffffff, 0)), 60, "tcp-doff")
	}
	for typ := 0; typ < 256; typ++ { // every ICMP / ICMPv6 type
		add(ippV4(5+typ%2, 1, 0, ippICMP(byte(typ), 0, 1, 2)), 128, "v4-icmp-type")
		add(ippChain(nil, nil, 58, ippICMP(byte(typ), 0, 1, 2)), 128, "v6-icmp-type")
	}
	for proto := 0; proto < 256; proto++ { // every protocol / next header
		add(ippV4(5, byte(proto), 0, tcpSeg(0x10, 5, 4, 1, 2)), 100, "v4-proto")
		add(ippChain(nil, nil, byte(proto), tcpSeg(0x10, 5, 4, 1, 2)), 200, "v6-nh")
	}
	for ihl := 0; ihl < 16; ihl++ { // every IHL value
		p := ippV4(max(ihl, 5), 17, 0, ippUDP(53, 53))
		p[0] = 0x40 | byte(ihl)
		add(p, 200, "v4-ihl")
		q := ippV4(max(ihl, 5), 6, 0, tcpSeg(0x02, 5, 0, 9, 9))
		q[0] = 0x40 | byte(ihl)
		add(q, 200, "v4-ihl")
		r := ippV4(max(ihl, 5), 1, 0, ippICMP(3, 1, 0, 0))
		r[0] = 0x40 | byte(ihl)
		add(r[:min(len(r), 24)], 200, "v4-ihl")
	}
	for _, ff := range []uint16{0, 0x4000, 0x2000, 1, 0x1fff, 0x2001, 0x0100, 0x00ff, 0x1f00, 0x2000 | 0x1f00, 0x8000, 0xe000} {
		add(ippV4(5, 17, ff, ippUDP(1, 2)), 100, "v4-frag")
		add(ippV4(5, 6, ff, tcpSeg(2, 5, 0, 1, 1)), 100, "v4-frag")
	}
	for b3 := 0; b3 < 256; b3 += 1 { // IPv6 fragment header bit patterns
		h := ippExt(44, 17, 0, 0, 0, 0)
		h[2], h[3] = byte(b3%3/2), byte(b3)
		p := append(ippV6Fixed(44, 16, ippSrc6, ippDst6), h...)
		add(append(p, ippUDP(100, 200)...), 200, "v6-frag")
	}
	for k := 0; k <= 12; k++ { // chains around the walker's limit
		for _, kind := range []byte{0, 43, 60, 51} {
			kinds, lens := make([]byte, k), make([]int, k)
			for i := range kinds {
				kinds[i] = kind
				lens[i] = i % 2
			}
			add(ippChain(kinds, lens, 17, ippUDP(7, 7)), 1100, "v6-chain-len")
			add(ippChain(kinds, lens, 6, tcpSeg(0x12, 5, 2, 5, 6)), 1100, "v6-chain-len")
		}
	}
	capSweep(ippV4(5, 6, 0, tcpSeg(0x02, 5, 0, 100, 0)), "cap-v4-tcp")
	capSweep(ippV4(7, 17, 0, ippUDP(9, 9)), "cap-v4-udp")
	capSweep(ippV4(15, 17, 0, ippUDP(9, 9)[:3]), "cap-v4-udp")
	capSweep(ippV4(5, 1, 0, ippICMP(8, 0, 1, 1)), "cap-v4-icmp")
	capSweep(ippChain(nil, nil, 6, tcpSeg(0x10, 5, 10, 100, 200)), "cap-v6-tcp")
	capSweep(ippChain([]byte{60}, []int{1}, 17, ippUDP(9, 9)), "cap-v6-udp")
	{
		big := ippChain(nil, nil, 17, append(ippUDP(9, 9), c.RandBytes(990)...)) // larger than the 1000 byte body limit
		capSweep(big, "cap-v6-big")
		capSweep(big[:1000], "cap-v6-big")
		capSweep(big[:999], "cap-v6-big")
		capSweep(big[:1001], "cap-v6-big")
	}
	for _, base := range [][]byte{ippV4(6, 6, 0, tcpSeg(0x02, 5, 0, 1, 1)), ippV4(6, 17, 0, ippUDP(1, 1)),
		ippChain([]byte{0}, []int{0}, 6, tcpSeg(0x02, 5, 0, 1, 1)), ippChain([]byte{0, 60}, []int{0, 0}, 58, ippICMP(128, 0, 1, 1))} {
		for n := 0; n <= len(base); n++ { // truncation at every offset
			add(base[:n], 1100, "trunc")
		}
	}
	for capN := 0; capN <= 1100; capN += 1 { // every capacity, small packets
		switch capN % 4 {
		case 0:
			add(ippV4(5, 17, 0, ippUDP(1, 1)), capN, "cap-every")
		case 1:
			add(ippV4(5, 6, 0, tcpSeg(0x02, 5, 0, 1, 1)), capN, "cap-every")
		case 2:
			add(ippChain(nil, nil, 17, ippUDP(1, 1)), capN, "cap-every")
		default:
			add(ippChain(nil, nil, 6, tcpSeg(0x11, 5, 0, 1, 1)), capN, "cap-every")
		}
	}

	// ---- random ----
	extKinds := []byte{0, 43, 60, 51, 44}
	for i := 0; i < c.N; i++ {
		capN := 1100
		switch c.Intn(4) {
		case 0:
			capN = c.Intn(1101)
		case 1:
			capN = c.Intn(120)
		}
		r := c.Intn(100)
		var p []byte
		kind := ""
		switch {
		case r < 40: // IPv4
			ihl := 5
			if c.Chance(0.4) {
				ihl = 5 + c.Intn(11)
			}
			var ff uint16
			if c.Chance(0.2) {
				ff = uint16(c.EdgeU64(16))
			}
			switch c.Intn(4) {
			case 0, 1:
				p = ippV4(ihl, 6, ff, tcpSeg(byte(c.Intn(256)), c.Intn(16), c.Intn(40), uint32(c.EdgeU64(32)), uint32(c.EdgeU64(32))))
				kind = "v4-tcp"
			case 2:
				p = ippV4(ihl, 17, ff, append(ippUDP(uint16(c.Intn(65536)), uint16(c.Intn(65536))), c.RandBytes(c.Intn(60))...))
				kind = "v4-udp"
			default:
				p = ippV4(ihl, []byte{1, 1, 47, 50, 132, 0}[c.Intn(6)], ff, ippICMP([]byte{0, 8, 3, 4, 5, 11, 12, 13}[c.Intn(8)], 0, 1, 1))
				kind = "v4-other"
			}
		case r < 85: // IPv6
			k := []int{0, 0, 0, 1, 1, 2, 3, 5, 8, 9, 11}[c.Intn(11)]
			term := []byte{6, 6, 6, 17, 17, 58, 58, 59, 47, 50}[c.Intn(10)]
			var pl []byte
			switch term {
			case 6:
				pl = tcpSeg(byte(c.Intn(256)), c.Intn(16), c.Intn(40), uint32(c.EdgeU64(32)), uint32(c.EdgeU64(32)))
			case 58:
				pl = ippICMP([]byte{128, 129, 1, 2, 3, 4, 0, 5, 133}[c.Intn(9)], 0, 3, 4)
			default:
				pl = append(ippUDP(5, 6), c.RandBytes(c.Intn(80))...)
			}
			body := []byte{}
			kinds := make([]byte, k)
			for j := range kinds {
				kinds[j] = extKinds[c.Intn(len(extKinds))]
			}
			kind = "v6"
			for j, ek := range kinds {
				next := term
				if j+1 < k {
					next = kinds[j+1]
				}
				fragOff := 0
				if ek == 44 && c.Chance(0.3) {
					fragOff = 1 + c.Intn(8191)
					kind = "v6-nonfirst"
				}
				body = append(body, ippExt(ek, next, c.Intn(3), fragOff, byte(c.Intn(8)), byte(c.Intn(256)))...)
			}
			first := term
			if k > 0 {
				first = kinds[0]
			}
			body = append(body, pl...)
			var s, d [16]byte
			copy(s[:], c.RandBytes(16))
			copy(d[:], c.RandBytes(16))
			if c.Chance(0.1) { // addresses that stress the checksum carries
				for j := range s {
					s[j], d[j] = 0xff, 0xff
				}
			}
			p = append(ippV6Fixed(first, len(body), s, d), body...)
		default: // unstructured
			p = c.RandBytes(c.Intn(100))
			if len(p) > 0 && c.Chance(0.8) {
				p[0] = []byte{0x45, 0x46, 0x60, 0x4f, 0x40}[c.Intn(5)]
			}
			kind = "raw"
		}
		if c.Chance(0.15) {
			p = p[:c.Intn(len(p)+1)]
			kind += "-truncated"
		}
		add(p, capN, kind)
	}
	cw.Meta("replies", replies)
	cw.Close("sweeps (every TCP flag byte, data offset, ICMP/ICMPv6 type, protocol, IHL, fragment bit pattern, chains of 0..12 headers, capacities around every threshold and every capacity 0..1100 on small packets, truncation at every offset) then random: 40% IPv4 (options, TCP/UDP/ICMP/other, fragments), 45% IPv6 (chains, fragments, TCP/UDP/ICMPv6/other), 15% unstructured, 15% of all truncated; capacities 0..1100; non-trivial = a reply was produced; distinct by literal")
}

//go:build (comp_all || comp_coalesce) && linux && !android

package main

// Component `coalesce` (property C23): receive coalescing is transparent to the tun device.
//
// Abstract batches are rendered to real IPv4/IPv6 TCP/UDP/other packets (correct checksums unless a case says
// otherwise), classified by the real newPacket (outside.go), committed to the real batch.MultiCoalescer over a
// recording tio.GSOWriter, and flushed.  The recorded Write / WriteGSO calls are parsed back into the vocabulary of
// coq/model/Coalesce.v (code 1: the model's writes must be these writes).  A byte level reference segmenter in this
// file re-segments every recorded write the way the kernel's TSO/USO path does (it consumes the pseudo-header seed the
// coalescer left in the L4 checksum field, like the kernel), verifies every resulting checksum from scratch, and the
// resulting packets go to Coq, where the multiset / per-flow-order / geometry statements of the property are
// evaluated on them (code 2) and compared with the model's own kernel_segment (code 3).
//
// All package level identifiers carry the prefix coal.

import (
	"bytes"
	"encoding/binary"
	"encoding/hex"
	"fmt"
	"math/big"
	"sort"
	"strings"

	nebula "github.com/slackhq/nebula"
	"github.com/slackhq/nebula/firewall"
	"github.com/slackhq/nebula/overlay/batch"
	"github.com/slackhq/nebula/overlay/tio"
	"golang.org/x/sys/unix"
	"verifharness/hx"
)

func init() {
	hx.Register("gen_coalesce", coalGen)
	hx.Register("coalesce", coalRun)
}

// ---- T1 ---------------------------------------------------------------------------------------------

func coalGen(c *hx.Ctx) {
	m := batch.VerifCoalesceConsts()
	for k, v := range tio.VerifTioConsts() {
		m[k] = v
	}
	keys := make([]string, 0, len(m))
	for k := range m {
		keys = append(keys, k)
	}
	sort.Strings(keys)
	var sb strings.Builder
	sb.WriteString("(* GENERATED from /repo/overlay/batch + /repo/overlay/tio by harness gen_coalesce: do not edit *)\nFrom Coq Require Import NArith.\nOpen Scope N_scope.\n")
	for _, k := range keys {
		fmt.Fprintf(&sb, "Definition %s : N := %d.\n", k, m[k])
	}
	c.WriteFile("Consts_Coalesce.v", sb.String())
}

// ---- rendering --------------------------------------------------------------------------------------

type coalExt struct {
	Typ  byte
	Body []byte // without the 2 leading bytes (next header, length), padded by the renderer to 8n-2
}

// coalSpec is one packet as the generator thinks of it.
type coalSpec struct {
	V6           bool
	Src, Dst     []byte // 4 or 16 bytes
	Sport, Dport uint16
	L4           byte // 6 TCP, 17 UDP, anything else: opaque L4
	Tos          byte
	Flow         uint32
	Ttl          byte
	Df, Rsv      bool
	Id           uint16
	Seq, Ack     uint32
	X2           byte
	Flags        byte
	Win, Urg     uint16
	Opts         []byte
	Pay          []byte
	// deviations from the plain shape
	FragOff    uint16
	MF         bool
	IPOpts     []byte
	Ext        []coalExt
	Trail      []byte
	Slack      []byte
	IPLenDelta int  // added to the IP length field
	UDPLenSet  bool // UDP length field := UDPLen
	UDPLen     uint16
	DoffSet    bool
	Doff       byte
	BadIPCk    bool
	BadL4Ck    bool
	Truncate   int // > 0: keep only this many bytes of the rendered packet
	VersionSet bool
	Version    byte
	ZeroUDPCk  bool
	Note       string
}

func coalSum(b []byte, init uint32) uint32 {
	s := init
	for i := 0; i+1 < len(b); i += 2 {
		s += uint32(b[i])<<8 | uint32(b[i+1])
		if s>>31 != 0 {
			s = (s & 0xffff) + (s >> 16)
		}
	}
	if len(b)%2 == 1 {
		s += uint32(b[len(b)-1]) << 8
	}
	return s
}

func coalFold(s uint32) uint16 {
	for s>>16 != 0 {
		s = (s & 0xffff) + (s >> 16)
	}
	return uint16(s)
}

func coalPseudo(v6 bool, src, dst []byte, proto byte, l4len int) uint32 {
	s := coalSum(src, 0)
	s = coalSum(dst, s)
	s += uint32(proto)
	s += uint32(l4len>>16) + uint32(l4len&0xffff)
	return s
}

func coalRender(s *coalSpec) []byte {
	// L4
	var l4 []byte
	switch s.L4 {
	case 6:
		doff := byte((20 + len(s.Opts)) / 4)
		if s.DoffSet {
			doff = s.Doff
		}
		h := make([]byte, 20, 20+len(s.Opts)+len(s.Pay))
		binary.BigEndian.PutUint16(h[0:2], s.Sport)
		binary.BigEndian.PutUint16(h[2:4], s.Dport)
		binary.BigEndian.PutUint32(h[4:8], s.Seq)
		binary.BigEndian.PutUint32(h[8:12], s.Ack)
		h[12] = doff<<4 | s.X2&0x0f
		h[13] = s.Flags
		binary.BigEndian.PutUint16(h[14:16], s.Win)
		binary.BigEndian.PutUint16(h[18:20], s.Urg)
		l4 = append(append(h, s.Opts...), s.Pay...)
	case 17:
		h := make([]byte, 8, 8+len(s.Pay)+len(s.Slack))
		binary.BigEndian.PutUint16(h[0:2], s.Sport)
		binary.BigEndian.PutUint16(h[2:4], s.Dport)
		ul := uint16(8 + len(s.Pay))
		if s.UDPLenSet {
			ul = s.UDPLen
		}
		binary.BigEndian.PutUint16(h[4:6], ul)
		l4 = append(append(h, s.Pay...), s.Slack...)
	default:
		h := make([]byte, 4, 4+len(s.Pay))
		binary.BigEndian.PutUint16(h[0:2], s.Sport)
		binary.BigEndian.PutUint16(h[2:4], s.Dport)
		l4 = append(h, s.Pay...)
	}
	// L4 checksum over what the IP length will cover
	ckOff := -1
	if s.L4 == 6 {
		ckOff = 16
	} else if s.L4 == 17 {
		ckOff = 6
	}
	if ckOff >= 0 && len(l4) >= ckOff+2 {
		ck := ^coalFold(coalSum(l4, coalPseudo(s.V6, s.Src, s.Dst, s.L4, len(l4))))
		if s.L4 == 17 && ck == 0 {
			ck = 0xffff
		}
		if s.BadL4Ck {
			ck ^= 0x5a5a
		}
		if s.L4 == 17 && s.ZeroUDPCk {
			ck = 0
		}
		binary.BigEndian.PutUint16(l4[ckOff:ckOff+2], ck)
	}
	var pkt []byte
	if !s.V6 {
		ihl := 20 + len(s.IPOpts)
		h := make([]byte, ihl)
		ver := byte(4)
		if s.VersionSet {
			ver = s.Version
		}
		h[0] = ver<<4 | byte(ihl/4)
		h[1] = s.Tos
		binary.BigEndian.PutUint16(h[2:4], uint16(ihl+len(l4)+s.IPLenDelta))
		binary.BigEndian.PutUint16(h[4:6], s.Id)
		fw := s.FragOff & 0x1fff
		if s.Rsv {
			fw |= 0x8000
		}
		if s.Df {
			fw |= 0x4000
		}
		if s.MF {
			fw |= 0x2000
		}
		binary.BigEndian.PutUint16(h[6:8], fw)
		h[8] = s.Ttl
		h[9] = s.L4
		copy(h[12:16], s.Src)
		copy(h[16:20], s.Dst)
		copy(h[20:], s.IPOpts)
		ck := ^coalFold(coalSum(h, 0))
		if s.BadIPCk {
			ck ^= 0x1234
		}
		binary.BigEndian.PutUint16(h[10:12], ck)
		pkt = append(h, l4...)
	} else {
		var ext []byte
		for i, e := range s.Ext {
			n := 2 + len(e.Body)
			if n%8 != 0 {
				n += 8 - n%8
			}
			b := make([]byte, n)
			nxt := s.L4
			if i+1 < len(s.Ext) {
				nxt = s.Ext[i+1].Typ
			}
			b[0] = nxt
			b[1] = byte(n/8 - 1)
			if e.Typ == 44 { // fragment header: fixed 8 bytes, byte 1 reserved
				b[1] = 0
			}
			copy(b[2:], e.Body)
			ext = append(ext, b...)
		}
		h := make([]byte, 40)
		ver := byte(6)
		if s.VersionSet {
			ver = s.Version
		}
		binary.BigEndian.PutUint32(h[0:4], uint32(ver)<<28|uint32(s.Tos)<<20|s.Flow&0xfffff)
		binary.BigEndian.PutUint16(h[4:6], uint16(len(ext)+len(l4)+s.IPLenDelta))
		h[6] = s.L4
		if len(s.Ext) > 0 {
			h[6] = s.Ext[0].Typ
		}
		h[7] = s.Ttl
		copy(h[8:24], s.Src)
		copy(h[24:40], s.Dst)
		pkt = append(append(h, ext...), l4...)
	}
	pkt = append(pkt, s.Trail...)
	if s.Truncate > 0 && s.Truncate < len(pkt) {
		pkt = pkt[:s.Truncate]
	}
	return pkt
}

// ---- abstraction: bytes -> the pkt record of coq/model/Coalesce.v ---------------------------------------

type coalAbs struct {
	Proto                             uint64
	Shape                             string
	V6                                bool
	Src, Dst                          *big.Int
	Sport, Dport, Tos, Flow, Ttl, Nxt uint64
	Df, Rsv                           bool
	Id, Seq, Ack, X2, Flags, Win, Urg uint64
	Opts                              []byte
	Ipck, L4ck                        uint64
	Pay, Trail, Raw                   []byte
}

type coalPP struct {
	Proto   byte
	FragAny bool
	IPHdr   int
}

func coalZeroAbs() *coalAbs { return &coalAbs{Src: new(big.Int), Dst: new(big.Int)} }

func coalIPFields(a *coalAbs, b []byte, v6 bool) {
	a.V6 = v6
	if v6 {
		w := binary.BigEndian.Uint32(b[0:4])
		a.Tos = uint64(w >> 20 & 0xff)
		a.Flow = uint64(w & 0xfffff)
		a.Nxt = uint64(b[6])
		a.Ttl = uint64(b[7])
		a.Src = new(big.Int).SetBytes(b[8:24])
		a.Dst = new(big.Int).SetBytes(b[24:40])
	} else {
		a.Tos = uint64(b[1])
		a.Id = uint64(binary.BigEndian.Uint16(b[4:6]))
		fw := binary.BigEndian.Uint16(b[6:8])
		a.Rsv = fw&0x8000 != 0
		a.Df = fw&0x4000 != 0
		a.Ttl = uint64(b[8])
		a.Nxt = uint64(b[9])
		a.Ipck = uint64(binary.BigEndian.Uint16(b[10:12]))
		a.Src = new(big.Int).SetBytes(b[12:16])
		a.Dst = new(big.Int).SetBytes(b[16:20])
	}
}

func coalTCPFields(a *coalAbs, t []byte, hlen int) {
	a.Sport = uint64(binary.BigEndian.Uint16(t[0:2]))
	a.Dport = uint64(binary.BigEndian.Uint16(t[2:4]))
	a.Seq = uint64(binary.BigEndian.Uint32(t[4:8]))
	a.Ack = uint64(binary.BigEndian.Uint32(t[8:12]))
	a.X2 = uint64(t[12] & 0x0f)
	a.Flags = uint64(t[13])
	a.Win = uint64(binary.BigEndian.Uint16(t[14:16]))
	a.L4ck = uint64(binary.BigEndian.Uint16(t[16:18]))
	a.Urg = uint64(binary.BigEndian.Uint16(t[18:20]))
	a.Opts = append([]byte(nil), t[20:hlen]...)
}

// coalAbstract is the harness' reference classifier: which packets are coalescable shapes, per the documented
// conditions (plain IP header, no fragmentation, IP length inside the buffer, L4 header complete, UDP length in range).
func coalAbstract(b []byte, pp coalPP) *coalAbs {
	a := coalZeroAbs()
	a.Proto = uint64(pp.Proto)
	opaque := func(shape string) *coalAbs {
		o := coalZeroAbs()
		o.Proto = uint64(pp.Proto)
		o.Shape = shape
		o.Raw = append([]byte(nil), b...)
		// best effort flow fields, only used by the per-flow order statement
		if len(b) >= 20 && b[0]>>4 == 4 {
			o.Src = new(big.Int).SetBytes(b[12:16])
			o.Dst = new(big.Int).SetBytes(b[16:20])
		} else if len(b) >= 40 && b[0]>>4 == 6 {
			o.V6 = true
			o.Src = new(big.Int).SetBytes(b[8:24])
			o.Dst = new(big.Int).SetBytes(b[24:40])
		}
		return o
	}
	if pp.Proto != 6 && pp.Proto != 17 {
		return opaque("ShOther")
	}
	if pp.FragAny {
		return opaque("ShFrag")
	}
	if len(b) < 20 {
		return opaque("ShBadLen")
	}
	var iph, iplen int
	switch b[0] >> 4 {
	case 4:
		if pp.IPHdr != 20 || int(b[0]&0x0f)*4 != 20 {
			return opaque("ShExt")
		}
		if binary.BigEndian.Uint16(b[6:8])&0x3fff != 0 {
			return opaque("ShFrag")
		}
		iplen = int(binary.BigEndian.Uint16(b[2:4]))
		if iplen > len(b) || iplen < 20 {
			return opaque("ShBadLen")
		}
		iph = 20
	case 6:
		if pp.IPHdr != 40 {
			return opaque("ShExt")
		}
		if len(b) < 40 {
			return opaque("ShBadLen")
		}
		iplen = 40 + int(binary.BigEndian.Uint16(b[4:6]))
		if iplen > len(b) {
			return opaque("ShBadLen")
		}
		iph = 40
	default:
		return opaque("ShBadLen")
	}
	ip := b[:iplen]
	a.Trail = append([]byte(nil), b[iplen:]...)
	coalIPFields(a, b, iph == 40)
	if pp.Proto == 6 {
		if len(ip) < iph+20 {
			return opaque("ShBadLen")
		}
		doff := int(ip[iph+12]>>4) * 4
		if doff < 20 || doff > 60 || len(ip) < iph+doff {
			return opaque("ShBadLen")
		}
		a.Shape = "ShTcp"
		coalTCPFields(a, ip[iph:], doff)
		a.Pay = append([]byte(nil), ip[iph+doff:]...)
		return a
	}
	if len(ip) < iph+8 {
		return opaque("ShBadLen")
	}
	ul := int(binary.BigEndian.Uint16(ip[iph+4 : iph+6]))
	if ul < 8 || ul != len(ip)-iph { // the UDP length must be exactly the IP payload length (F26)
		return opaque("ShBadLen")
	}
	a.Shape = "ShUdp"
	a.Sport = uint64(binary.BigEndian.Uint16(ip[iph : iph+2]))
	a.Dport = uint64(binary.BigEndian.Uint16(ip[iph+2 : iph+4]))
	a.L4ck = uint64(binary.BigEndian.Uint16(ip[iph+6 : iph+8]))
	a.Pay = append([]byte(nil), ip[iph+8:iph+ul]...)
	return a
}

// ---- Gallina literals ---------------------------------------------------------------------------------

// payload streams: byte j of stream s; the same function is Coalesce_corr.pl_byte
func coalStreamByte(s uint64, j int) byte {
	return byte((s*167 + uint64(j)*(2*(s%5)+1) + uint64(j/256)*31) & 0xff)
}
func coalStream(s uint64, n int) []byte {
	b := make([]byte, n)
	for j := range b {
		b[j] = coalStreamByte(s, j)
	}
	return b
}

type coalLits struct {
	streams map[string][2]uint64 // content of a generated payload -> (stream, length)
	tplIdx  map[string]int       // template literal -> index in tpls
	tpls    []string
}

func coalNewLits() *coalLits {
	return &coalLits{streams: map[string][2]uint64{}, tplIdx: map[string]int{}}
}

func coalHex(b []byte) string {
	// long string literals nest deeply inside coqc: cut them
	const piece = 1024
	if len(b) <= piece {
		return "(hx \"" + hex.EncodeToString(b) + "\")"
	}
	var parts []string
	for len(b) > 0 {
		n := min(piece, len(b))
		parts = append(parts, "hx \""+hex.EncodeToString(b[:n])+"\"")
		b = b[n:]
	}
	return "(" + strings.Join(parts, " ++ ") + ")"
}

// bytes prints a byte string: a generated payload stream (or a blob that contains the beginning of one: opaque
// packets, truncated packets) is printed as the stream expression, which Coq expands to the same bytes.
func (l *coalLits) bytes(b []byte) string {
	if len(b) == 0 {
		return "[]"
	}
	if len(b) <= 20 {
		return coalHex(b)
	}
	if r, ok := l.streams[string(b)]; ok {
		return fmt.Sprintf("(pl %d %d)", r[0], r[1])
	}
	if len(b) > 64 {
		for content, r := range l.streams {
			if len(content) < 32 {
				continue
			}
			i := bytes.Index(b, []byte(content[:16]))
			if i < 0 {
				continue
			}
			m := 0
			for i+m < len(b) && m < len(content) && b[i+m] == content[m] {
				m++
			}
			if m < 32 {
				continue
			}
			parts := []string{}
			if i > 0 {
				parts = append(parts, coalHex(b[:i]))
			}
			parts = append(parts, fmt.Sprintf("(pl %d %d)", r[0], m))
			if i+m < len(b) {
				parts = append(parts, l.bytes(b[i+m:]))
			}
			return "(" + strings.Join(parts, " ++ ") + ")"
		}
	}
	return coalHex(b)
}

func (l *coalLits) full(a *coalAbs) string {
	return fmt.Sprintf("(mkPkt %d %s %s %s %s %d %d %d %d %d %d %s %s %d %d %d %d %d %d %d %s %d %d %s %s %s)",
		a.Proto, a.Shape, hx.Bool(a.V6), a.Src.String(), a.Dst.String(), a.Sport, a.Dport, a.Tos, a.Flow, a.Ttl, a.Nxt,
		hx.Bool(a.Df), hx.Bool(a.Rsv), a.Id, a.Seq, a.Ack, a.X2, a.Flags, a.Win, a.Urg, l.bytes(a.Opts), a.Ipck, a.L4ck,
		l.bytes(a.Pay), l.bytes(a.Trail), l.bytes(a.Raw))
}

// pkt prints a packet literal (Coalesce_corr.plit).  Well-formed packets of one flow differ in a handful of fields,
// so they are printed as "template t with id, seq, flags, checksums, payload replaced" (U); the template is the packet
// itself with those fields blanked, so the expansion in Coq is the packet again by construction.  Everything else
// is printed in full (F).
func (l *coalLits) pkt(a *coalAbs) string {
	if (a.Shape != "ShTcp" && a.Shape != "ShUdp") || len(a.Trail) > 0 || len(a.Raw) > 0 {
		return "(F " + l.full(a) + ")"
	}
	t := *a
	t.Id, t.Seq, t.Flags, t.Ipck, t.L4ck, t.Pay = 0, 0, 0, 0, 0, nil
	tl := l.full(&t)
	idx, ok := l.tplIdx[tl]
	if !ok {
		idx = len(l.tpls)
		l.tplIdx[tl] = idx
		l.tpls = append(l.tpls, tl)
	}
	return fmt.Sprintf("(U %d %d %d %d %d %d %s)", idx, a.Id, a.Seq, a.Flags, a.Ipck, a.L4ck, l.bytes(a.Pay))
}

// ---- the recording GSOWriter --------------------------------------------------------------------------

type coalCall struct {
	gso   bool
	pkt   []byte // Write
	hdr   []byte // WriteGSO
	thdr  []byte
	pays  [][]byte
	proto tio.GSOProto
	// what the real tio.Offload put on its file descriptor for this call: virtio_net_hdr + packet bytes
	frame   []byte
	frameOK bool
}

// coalTun is the real tio.Offload (the tun queue nebula writes to) over one end of an AF_UNIX datagram socketpair:
// every writev of Write / WriteGSO arrives at the other end as one message, exactly the bytes the tun device would get.
type coalTun struct {
	off *tio.Offload
	rfd int
	buf []byte
}

var coalTunDev *coalTun

func coalGetTun() *coalTun {
	if coalTunDev != nil {
		return coalTunDev
	}
	fds, err := unix.Socketpair(unix.AF_UNIX, unix.SOCK_DGRAM, 0)
	if err != nil {
		panic("coalesce: socketpair: " + err.Error())
	}
	_ = unix.SetsockoptInt(fds[0], unix.SOL_SOCKET, unix.SO_SNDBUF, 1<<20)
	_ = unix.SetsockoptInt(fds[1], unix.SOL_SOCKET, unix.SO_RCVBUF, 1<<20)
	off, err := tio.VerifNewOffload(fds[0], true)
	if err != nil {
		panic("coalesce: VerifNewOffload: " + err.Error())
	}
	coalTunDev = &coalTun{off: off, rfd: fds[1], buf: make([]byte, 1<<17)}
	return coalTunDev
}

func (t *coalTun) read() []byte {
	n, err := unix.Read(t.rfd, t.buf)
	if err != nil || n < 0 {
		return nil
	}
	return append([]byte(nil), t.buf[:n]...)
}

// coalFrameOK is the documented contract of the tun write path (overlay/tio): a plain Write is the packet behind a
// virtio_net_hdr that only says DATA_VALID; a WriteGSO is hdr ++ transport hdr ++ payload fragments behind a header with
// NEEDS_CSUM, the GSO type of the protocol / IP version, hdr_len = L3 + L4 header length, gso_size = the first
// fragment's length, csum_start = L3 header length, csum_offset = offset of the L4 checksum field.
func coalFrameOK(c *coalCall) bool {
	f := c.frame
	if len(f) < 10 {
		return false
	}
	le16 := func(b []byte) int { return int(binary.NativeEndian.Uint16(b)) }
	if !c.gso {
		want := make([]byte, 10)
		want[0] = unix.VIRTIO_NET_HDR_F_DATA_VALID
		return bytes.Equal(f[:10], want) && bytes.Equal(f[10:], c.pkt)
	}
	body := append(append([]byte(nil), c.hdr...), c.thdr...)
	for _, p := range c.pays {
		body = append(body, p...)
	}
	if !bytes.Equal(f[10:], body) || len(c.pays) < 2 || len(c.hdr) == 0 {
		return false
	}
	gt, co := 0, 0
	switch {
	case c.proto == tio.GSOProtoUDP:
		gt, co = unix.VIRTIO_NET_HDR_GSO_UDP_L4, 6
	case c.hdr[0]>>4 == 4:
		gt, co = unix.VIRTIO_NET_HDR_GSO_TCPV4, 16
	case c.hdr[0]>>4 == 6:
		gt, co = unix.VIRTIO_NET_HDR_GSO_TCPV6, 16
	default:
		return false
	}
	return f[0] == unix.VIRTIO_NET_HDR_F_NEEDS_CSUM && int(f[1]) == gt &&
		le16(f[2:4]) == len(c.hdr)+len(c.thdr) && le16(f[4:6]) == len(c.pays[0]) &&
		le16(f[6:8]) == len(c.hdr) && le16(f[8:10]) == co
}

type coalRec struct {
	tso, uso bool
	calls    []coalCall
}

func (w *coalRec) Write(p []byte) (int, error) {
	c := coalCall{pkt: append([]byte(nil), p...)}
	if len(p) > 0 {
		t := coalGetTun()
		if _, err := t.off.Write(p); err == nil {
			c.frame = t.read()
			c.frameOK = coalFrameOK(&c)
		}
	}
	w.calls = append(w.calls, c)
	return len(p), nil
}

func (w *coalRec) WriteGSO(hdr []byte, thdr []byte, pays [][]byte, proto tio.GSOProto) error {
	c := coalCall{gso: true, hdr: append([]byte(nil), hdr...), thdr: append([]byte(nil), thdr...), proto: proto}
	for _, p := range pays {
		c.pays = append(c.pays, append([]byte(nil), p...))
	}
	t := coalGetTun()
	if err := t.off.WriteGSO(hdr, thdr, pays, proto); err == nil {
		c.frame = t.read()
		c.frameOK = coalFrameOK(&c)
	}
	w.calls = append(w.calls, c)
	return nil
}

func (w *coalRec) Capabilities() tio.Capabilities { return tio.Capabilities{TSO: w.tso, USO: w.uso} }

// coalPlainWriter offers no GSO at all (NewMultiCoalescer then builds no lanes).
type coalPlainWriter struct{ r *coalRec }

func (w coalPlainWriter) Write(p []byte) (int, error) { return w.r.Write(p) }

// ---- the kernel side: reference TSO / USO segmentation of one WriteGSO ---------------------------------

// coalSegment cuts one recorded WriteGSO the way tcp_gso_segment / __udp_gso_segment + inet_gso_segment /
// ipv6_gso_segment do: gso_size is the first fragment's length (what Offload.WriteGSO puts into the virtio header), the
// header is replicated, the lengths, the IPv4 ID (+i), the TCP sequence number (+i*gso_size) and flags (FIN/PSH last
// only, CWR first only) are set per segment and the checksums are completed FROM THE SEED in the L4 checksum field
// (CHECKSUM_PARTIAL), adjusting it for the segment's length.  ok reports that every resulting IPv4 header checksum and
// L4 checksum verifies from scratch.
func coalSegment(c *coalCall) (segs [][]byte, ok bool) {
	ok = true
	if len(c.pays) == 0 || len(c.pays[0]) == 0 || len(c.hdr) < 20 {
		return nil, false
	}
	gs := len(c.pays[0])
	if c.frameOK { // the kernel reads gso_size from the virtio_net_hdr
		gs = int(binary.NativeEndian.Uint16(c.frame[4:6]))
	}
	var payload []byte
	for _, p := range c.pays {
		payload = append(payload, p...)
	}
	v6 := c.hdr[0]>>4 == 6
	if v6 && len(c.hdr) < 40 {
		return nil, false
	}
	ckOff, l4proto := 16, byte(6)
	if c.proto == tio.GSOProtoUDP {
		ckOff, l4proto = 6, 17
	}
	if len(c.thdr) < ckOff+2 || (c.proto == tio.GSOProtoTCP && len(c.thdr) < 20) {
		return nil, false
	}
	totalL4 := len(c.thdr) + len(payload)
	seed := uint32(binary.BigEndian.Uint16(c.thdr[ckOff : ckOff+2]))
	n := (len(payload) + gs - 1) / gs
	for i := 0; i < n; i++ {
		lo, hi := i*gs, (i+1)*gs
		if hi > len(payload) {
			hi = len(payload)
		}
		chunk := payload[lo:hi]
		ih := append([]byte(nil), c.hdr...)
		th := append([]byte(nil), c.thdr...)
		segL4 := len(th) + len(chunk)
		if v6 {
			binary.BigEndian.PutUint16(ih[4:6], uint16(len(ih)-40+segL4))
		} else {
			binary.BigEndian.PutUint16(ih[2:4], uint16(len(ih)+segL4))
			binary.BigEndian.PutUint16(ih[4:6], binary.BigEndian.Uint16(c.hdr[4:6])+uint16(i))
			ih[10], ih[11] = 0, 0
			binary.BigEndian.PutUint16(ih[10:12], ^coalFold(coalSum(ih, 0)))
		}
		if c.proto == tio.GSOProtoTCP {
			binary.BigEndian.PutUint32(th[4:8], binary.BigEndian.Uint32(c.thdr[4:8])+uint32(i*gs))
			if i != n-1 {
				th[13] &^= 0x09
			}
			if i != 0 {
				th[13] &^= 0x80
			}
		} else {
			binary.BigEndian.PutUint16(th[4:6], uint16(segL4))
		}
		// seed holds fold(pseudo header with the TOTAL L4 length); move it to this segment's length
		th[ckOff], th[ckOff+1] = 0, 0
		s := seed + uint32(^uint16(totalL4)) + uint32(uint16(segL4))
		s = coalSum(th, s)
		s = coalSum(chunk, s)
		ck := ^coalFold(s)
		if c.proto == tio.GSOProtoUDP && ck == 0 {
			ck = 0xffff
		}
		binary.BigEndian.PutUint16(th[ckOff:ckOff+2], ck)
		seg := append(append(ih, th...), chunk...)
		// verify from scratch
		var src, dst []byte
		if v6 {
			src, dst = seg[8:24], seg[24:40]
		} else {
			src, dst = seg[12:16], seg[16:20]
			if coalFold(coalSum(seg[:len(ih)], 0)) != 0xffff {
				ok = false
			}
		}
		if coalFold(coalSum(seg[len(ih):], coalPseudo(v6, src, dst, l4proto, segL4))) != 0xffff {
			ok = false
		}
		segs = append(segs, seg)
	}
	return segs, ok
}

// ---- one batch ----------------------------------------------------------------------------------------

type coalIn struct {
	epoch, ctr uint64
	spec       *coalSpec
	bytes      []byte
	pp         coalPP
	ppKind     string
	abs        *coalAbs
}

func coalRealPP(b []byte) (coalPP, bool) {
	var fp firewall.ParsedPacket
	if err := nebula.VerifCoalesceNewPacket(b, &fp); err != nil {
		return coalPP{}, false
	}
	return coalPP{Proto: fp.Protocol, FragAny: fp.FragAny, IPHdr: int(uint16(fp.IPHdrLen))}, true
}

type coalBatchResult struct {
	lit       string
	desc      map[string]any
	nGSO      int
	nSegs     int
	panicked  bool
	badFrames int // calls for which the real tio.Offload did not put the contracted virtio_net_hdr + bytes on its fd
}

func coalRunBatch(ins []*coalIn, tso, uso, plainWriter bool, lits *coalLits) (res coalBatchResult) {
	rec := &coalRec{tso: tso, uso: uso}
	panicked := false
	func() {
		defer func() {
			if r := recover(); r != nil {
				panicked = true
			}
		}()
		var m *batch.MultiCoalescer
		if plainWriter {
			m = batch.NewMultiCoalescer(coalPlainWriter{rec}, nil)
		} else {
			m = batch.NewMultiCoalescer(rec, nil)
		}
		for _, in := range ins {
			buf := append([]byte(nil), in.bytes...) // the coalescer patches seed headers in place
			fp := firewall.ParsedPacket{IPHdrLen: in.pp.IPHdr, FragAny: in.pp.FragAny}
			fp.Protocol = in.pp.Proto
			_ = m.Commit(buf, batch.SortKey{Epoch: in.epoch, Counter: in.ctr}, &fp)
		}
		_ = m.Flush()
	}()
	res.panicked = panicked

	// inputs
	byBytes := map[string]int{}
	inLits := make([]string, len(ins))
	for i, in := range ins {
		if _, ok := byBytes[string(in.bytes)]; !ok {
			byBytes[string(in.bytes)] = i
		}
		inLits[i] = fmt.Sprintf("((%d, %d), %s)", in.epoch, in.ctr, lits.pkt(in.abs))
	}
	absOf := func(b []byte) (string, bool) {
		if i, ok := byBytes[string(b)]; ok {
			return fmt.Sprintf("%d", i), true
		}
		pp, ok := coalRealPP(b)
		if !ok {
			pp = coalPP{Proto: 0, IPHdr: 0}
		}
		return lits.pkt(coalAbstract(b, pp)), false
	}
	var wLits, sLits []string
	csumOK := true
	parseOK := true
	for ci := range rec.calls {
		c := &rec.calls[ci]
		if !c.frameOK {
			res.badFrames++
		}
		if !c.gso {
			s, isIdx := absOf(c.pkt)
			if isIdx {
				wLits = append(wLits, "(WI "+s+")")
				sLits = append(sLits, "(SI "+s+")")
			} else {
				wLits = append(wLits, "(WP "+s+")")
				sLits = append(sLits, "(SP "+s+")")
			}
			res.nSegs++
			continue
		}
		res.nGSO++
		// the header handed to WriteGSO, as a packet without body
		h := coalZeroAbs()
		v6 := len(c.hdr) > 0 && c.hdr[0]>>4 == 6
		want := 20
		if v6 {
			want = 40
		}
		var iplen, udplen uint64
		if len(c.hdr) != want || (c.proto != tio.GSOProtoTCP && c.proto != tio.GSOProtoUDP) ||
			(c.proto == tio.GSOProtoTCP && (len(c.thdr) < 20 || len(c.thdr) > 60)) || (c.proto == tio.GSOProtoUDP && len(c.thdr) != 8) {
			parseOK = false
		} else {
			coalIPFields(h, c.hdr, v6)
			if v6 {
				iplen = uint64(binary.BigEndian.Uint16(c.hdr[4:6]))
			} else {
				iplen = uint64(binary.BigEndian.Uint16(c.hdr[2:4]))
			}
			if c.proto == tio.GSOProtoTCP {
				h.Proto, h.Shape = 6, "ShTcp"
				coalTCPFields(h, c.thdr, len(c.thdr))
			} else {
				h.Proto, h.Shape = 17, "ShUdp"
				h.Sport = uint64(binary.BigEndian.Uint16(c.thdr[0:2]))
				h.Dport = uint64(binary.BigEndian.Uint16(c.thdr[2:4]))
				udplen = uint64(binary.BigEndian.Uint16(c.thdr[4:6]))
				h.L4ck = uint64(binary.BigEndian.Uint16(c.thdr[6:8]))
			}
		}
		if h.Shape == "" {
			h.Shape = "ShOther"
		}
		pays := make([]string, len(c.pays))
		for i, p := range c.pays {
			pays[i] = lits.bytes(p)
		}
		wLits = append(wLits, fmt.Sprintf("(WG %d %s %d %d %s)", uint8(c.proto), lits.pkt(h), iplen, udplen, hx.List(pays)))
		segs, ok := coalSegment(c)
		if !ok {
			csumOK = false
		}
		for _, sg := range segs {
			res.nSegs++
			pp := coalPP{Proto: 6, IPHdr: want}
			if c.proto == tio.GSOProtoUDP {
				pp.Proto = 17
			}
			sLits = append(sLits, "(SP "+lits.pkt(coalAbstract(sg, pp))+")")
		}
	}
	res.lit = fmt.Sprintf("(CBatch %s %s\n %s\n %s\n %s\n %s\n %s)", hx.Bool(tso && !plainWriter), hx.Bool(uso && !plainWriter),
		hx.List(lits.tpls), hx.List(inLits), hx.List(wLits), hx.List(sLits), hx.Bool(csumOK && parseOK && !panicked && res.badFrames == 0))
	return res
}

// ---- generator ------------------------------------------------------------------------------------------

type coalFlow struct {
	tmpl    coalSpec
	mss     int
	idMode  int // 0 sequential, 1 random, 2 constant
	tsOpt   bool
	tsVal   uint32
	stalled int
}

type coalGenState struct {
	c          *hx.Ctx
	lits       *coalLits
	nextStr    uint64
	bigPackets int // packets of the batch under construction (bounds the payload volume of large-payload batches)
	ppCache    map[string]coalPP
	ppKind     map[string]string
}

func (g *coalGenState) payload(n int) []byte {
	if n <= 0 {
		return nil
	}
	if n <= 20 {
		return g.c.RandBytes(n)
	}
	g.nextStr++
	b := coalStream(g.nextStr, n)
	g.lits.streams[string(b)] = [2]uint64{g.nextStr, uint64(n)}
	return b
}

func (g *coalGenState) addr(v6 bool, small int) []byte {
	n := 4
	if v6 {
		n = 16
	}
	b := make([]byte, n)
	if v6 {
		b[0], b[1] = 0xfd, 0x00
	} else {
		b[0] = 10
	}
	b[n-1] = byte(1 + g.c.Intn(small))
	if g.c.Chance(0.1) {
		copy(b, g.c.RandBytes(n))
	}
	return b
}

func (g *coalGenState) newFlow(forceL4 int, big bool) *coalFlow {
	c := g.c
	f := &coalFlow{}
	t := &f.tmpl
	t.V6 = c.Chance(0.35)
	t.Src, t.Dst = g.addr(t.V6, 3), g.addr(t.V6, 3)
	t.Sport = uint16([]int{80, 443, 1234, 50000}[c.Intn(4)])
	t.Dport = uint16([]int{22, 53, 4242, 60000}[c.Intn(4)])
	switch r := c.Intn(10); {
	case r < 6:
		t.L4 = 6
	case r < 9:
		t.L4 = 17
	default:
		t.L4 = []byte{1, 58, 47, 132, 50}[c.Intn(5)]
	}
	if forceL4 > 0 {
		t.L4 = byte(forceL4)
	}
	t.Tos = []byte{0, 0, 2, 1, 3, 0xb8, 0x28}[c.Intn(7)]
	if t.V6 && c.Chance(0.5) {
		t.Flow = uint32(c.EdgeU64(20))
	}
	t.Ttl = []byte{64, 63, 255, 1, 128}[c.Intn(5)]
	t.Df = c.Chance(0.6)
	t.Rsv = c.Chance(0.03)
	t.Id = uint16(c.EdgeU64(16))
	f.idMode = []int{0, 0, 0, 1, 2}[c.Intn(5)]
	t.Seq = uint32(c.EdgeU64(32))
	if c.Chance(0.2) {
		t.Seq = uint32(0x100000000 - uint64(c.Intn(5000)))
	}
	t.Ack = uint32(c.U64())
	t.Flags = 0x10
	if c.Chance(0.1) {
		t.Flags |= 0x40 // an ECE echoing flow
	}
	t.Win = uint16(c.EdgeU64(16))
	if c.Chance(0.05) {
		t.X2 = byte(c.Intn(16))
	}
	if c.Chance(0.05) {
		t.Urg = uint16(c.Intn(3))
	}
	if t.L4 == 6 && c.Chance(0.4) {
		f.tsOpt = true
		f.tsVal = uint32(c.U64())
	} else if t.L4 == 6 && c.Chance(0.1) {
		t.Opts = c.RandBytes(4 * (1 + c.Intn(10)))
	}
	small := []int{1, 2, 3, 4, 7, 8, 16, 21, 32}
	bigs := []int{100, 536, 1200, 1448, 1460, 8960, 32000, 65000}
	if big {
		f.mss = bigs[c.Intn(len(bigs))]
		for f.mss*g.bigPackets > 150000 && f.mss > 100 {
			f.mss /= 2
		}
	} else {
		f.mss = small[c.Intn(len(small))]
	}
	return f
}

func (f *coalFlow) opts() []byte {
	if !f.tsOpt {
		return f.tmpl.Opts
	}
	o := []byte{1, 1, 8, 10, 0, 0, 0, 0, 0, 0, 0, 1}
	binary.BigEndian.PutUint32(o[4:8], f.tsVal)
	return o
}

// next produces the flow's next packet in transmission order.
func (g *coalGenState) next(f *coalFlow) *coalSpec {
	c := g.c
	s := f.tmpl // copy
	s.Opts = f.opts()
	t := &f.tmpl
	advanceID := func() {
		switch f.idMode {
		case 0:
			t.Id++
		case 1:
			t.Id = uint16(c.U64())
		}
	}
	if s.L4 != 6 && s.L4 != 17 {
		s.Pay = g.payload(c.Intn(40))
		advanceID()
		return &s
	}
	// persistent header changes
	switch r := c.Intn(100); {
	case r < 3:
		t.Tos ^= []byte{1, 2, 3, 0x04, 0x20}[c.Intn(5)]
		s.Tos = t.Tos
	case r < 5:
		t.Ttl--
		s.Ttl = t.Ttl
	case r < 9 && s.L4 == 6:
		t.Ack += uint32(c.Intn(3000))
		s.Ack = t.Ack
	case r < 11 && s.L4 == 6:
		t.Win += uint16(c.Intn(5))
		s.Win = t.Win
	case r < 16 && f.tsOpt:
		f.tsVal++
		s.Opts = f.opts()
	case r < 17:
		t.Df = !t.Df
		s.Df = t.Df
	case r < 18 && s.V6:
		t.Flow ^= 1
		s.Flow = t.Flow
	case r < 19 && s.L4 == 6:
		t.Flags ^= 0x40
	case r < 20:
		t.Id += uint16(c.Intn(4)) // an ID gap / repeat
		s.Id = t.Id
	case r < 21:
		t.X2 ^= 1
		s.X2 = t.X2
	case r < 22 && s.L4 == 6:
		t.Urg ^= 1
		s.Urg = t.Urg
	}
	n := f.mss
	switch r := c.Intn(100); {
	case r < 8:
		n = 1 + c.Intn(f.mss) // a short segment
	case r < 10:
		n = f.mss + 1 + c.Intn(3) // larger than the chain's segment size
	case r < 13:
		n = 0
	}
	if s.L4 == 6 {
		s.Flags = t.Flags
		switch r := c.Intn(100); {
		case r < 8:
			s.Flags |= 0x08
		case r < 10:
			s.Flags |= 0x01
		case r < 11:
			s.Flags |= 0x04
		case r < 12:
			s.Flags = 0x02
		case r < 13:
			s.Flags |= 0x20
		case r < 15:
			s.Flags |= 0x80
		case r < 16:
			s.Flags &^= 0x10
		case r < 17:
			s.Flags = byte(c.U64())
		}
		switch r := c.Intn(100); {
		case r < 3:
			t.Seq += uint32(1 + c.Intn(3000)) // loss upstream: a gap
		case r < 5:
			t.Seq -= uint32(f.mss) // a retransmit
		}
		s.Seq = t.Seq
		t.Seq += uint32(n)
	}
	s.Pay = g.payload(n)
	advanceID()
	// deviations from the plain shape
	switch r := c.Intn(1000); {
	case r < 8 && !s.V6:
		s.MF = true
		s.Note = "v4-first-fragment"
	case r < 14 && !s.V6:
		s.FragOff = uint16(1 + c.Intn(100))
		s.Note = "v4-later-fragment"
	case r < 22 && !s.V6:
		s.IPOpts = []byte{1, 1, 1, 1}
		if c.Chance(0.3) {
			s.IPOpts = append(s.IPOpts, 1, 1, 1, 1)
		}
		s.Note = "v4-options"
	case r < 30 && s.V6:
		s.Ext = []coalExt{{Typ: []byte{0, 60, 43}[c.Intn(3)], Body: []byte{1, 4, 0, 0, 0, 0}}}
		if c.Chance(0.3) {
			s.Ext = append(s.Ext, coalExt{Typ: 60, Body: []byte{1, 4, 0, 0, 0, 0}})
		}
		s.Note = "v6-ext"
	case r < 36 && s.V6:
		fb := make([]byte, 6)
		binary.BigEndian.PutUint16(fb[0:2], uint16(c.Intn(2))<<3|uint16(c.Intn(2)))
		binary.BigEndian.PutUint32(fb[2:6], uint32(c.U64()))
		s.Ext = []coalExt{{Typ: 44, Body: fb}}
		s.Note = "v6-fragment"
	case r < 46:
		s.Trail = c.RandBytes(1 + c.Intn(6))
		s.Note = "trailing-bytes"
	case r < 52:
		s.IPLenDelta = 1 + c.Intn(40)
		s.Note = "ip-length-beyond-buffer"
	case r < 56 && !s.V6:
		s.IPLenDelta = -(len(s.Pay) + 8 + c.Intn(30))
		s.Note = "ip-length-short"
	case r < 62 && s.L4 == 17:
		s.Slack = c.RandBytes(1 + c.Intn(5))
		s.Note = "udp-length-below-ip"
	case r < 66 && s.L4 == 17:
		s.UDPLenSet, s.UDPLen = true, uint16(c.Intn(8))
		s.Note = "udp-length-below-8"
	case r < 70 && s.L4 == 17:
		s.UDPLenSet, s.UDPLen = true, uint16(8+len(s.Pay)+1+c.Intn(5))
		s.Note = "udp-length-beyond"
	case r < 74 && s.L4 == 6:
		s.DoffSet, s.Doff = true, byte(c.Intn(5))
		s.Note = "tcp-doff-small"
	case r < 78 && s.L4 == 6:
		s.DoffSet, s.Doff = true, byte(6+c.Intn(10))
		s.Note = "tcp-doff-beyond"
	case r < 84:
		s.BadL4Ck = true
		s.Note = "bad-l4-checksum"
	case r < 88 && !s.V6:
		s.BadIPCk = true
		s.Note = "bad-ip-checksum"
	case r < 92:
		s.Truncate = 1 + c.Intn(44)
		s.Note = "truncated"
	case r < 95 && s.L4 == 17 && !s.V6:
		s.ZeroUDPCk = true
		s.Note = "udp-no-checksum"
	case r < 97:
		s.VersionSet, s.Version = true, byte(c.Intn(16))
		s.Note = "ip-version"
	}
	return &s
}

func (g *coalGenState) mkIn(s *coalSpec, epoch, ctr uint64) *coalIn {
	c := g.c
	b := coalRender(s)
	in := &coalIn{epoch: epoch, ctr: ctr, spec: s, bytes: b}
	if pp, ok := g.ppCache[string(b)]; ok { // identical bytes: identical classification
		in.pp, in.ppKind = pp, g.ppKind[string(b)]
	} else {
		pp, ok := coalRealPP(b)
		in.ppKind = "pp-real"
		if !ok {
			// newPacket refuses the packet; handleOutsideMessagePacket would drop it.  The coalescer's own defensive
			// checks are still exercised, with the classification a plain header would have had.
			in.ppKind = "pp-synthetic(newPacket-refused)"
			pp = coalPP{Proto: s.L4, IPHdr: 20}
			if s.V6 {
				pp.IPHdr = 40
			}
		} else if c.Chance(0.01) {
			in.ppKind = "pp-perturbed"
			switch c.Intn(3) {
			case 0:
				pp.IPHdr += 4 * (1 + c.Intn(3))
			case 1:
				pp.FragAny = !pp.FragAny
			default:
				pp.Proto = []byte{6, 17, 1}[c.Intn(3)]
			}
		}
		in.pp = pp
		g.ppCache[string(b)] = pp
		g.ppKind[string(b)] = in.ppKind
	}
	in.abs = coalAbstract(b, in.pp)
	return in
}

// batch builds one batch: nflows flows interleaved in runs, two sessions, arrival order shuffled.
func (g *coalGenState) batch(npk, nflows int, big bool, shuffle int, forceL4 int) []*coalIn {
	c := g.c
	g.bigPackets = npk
	flows := make([]*coalFlow, nflows)
	for i := range flows {
		flows[i] = g.newFlow(forceL4, big)
	}
	var ins []*coalIn
	epoch := uint64(1 + c.Intn(3))
	ctr := c.EdgeU64(40)
	if ctr > 1<<40-5000 {
		ctr = 1<<40 - 5000
	}
	switchAt := -1
	if c.Chance(0.3) {
		switchAt = c.Intn(npk + 1)
	}
	cur := flows[c.Intn(nflows)]
	for len(ins) < npk {
		if len(ins) == switchAt { // re-handshake: a new session, counters restart
			epoch += uint64(1 + c.Intn(2))
			ctr = uint64(c.Intn(3))
		}
		if c.Chance(0.25) {
			cur = flows[c.Intn(nflows)]
		}
		ctr += uint64(1 + c.Intn(2)*c.Intn(3))
		ins = append(ins, g.mkIn(g.next(cur), epoch, ctr))
	}
	switch shuffle {
	case 1: // local reorder
		for i := 0; i+1 < len(ins); i++ {
			if c.Chance(0.15) {
				j := i + 1 + c.Intn(min(4, len(ins)-i-1))
				ins[i], ins[j] = ins[j], ins[i]
			}
		}
	case 2: // full shuffle
		c.Rng.Shuffle(len(ins), func(i, j int) { ins[i], ins[j] = ins[j], ins[i] })
	case 3: // sessions interleaved: the old session's tail arrives late
		sort.SliceStable(ins, func(i, j int) bool { return ins[i].ctr < ins[j].ctr })
	}
	return ins
}

func coalRun(c *hx.Ctx) {
	perShard := (c.N + 15) / 16 // shards are evaluated in parallel; at most 150 batches per shard
	if perShard < 8 {
		perShard = 8
	}
	if perShard > 150 {
		perShard = 150
	}
	cw := c.NewCaseWriter("From Coq Require Import String.\nFrom NV Require Import model.Coalesce corr.Coalesce_corr.", "Coalesce_corr.case", "Coalesce_corr.check_case", perShard)
	g := &coalGenState{c: c, lits: coalNewLits(), ppCache: map[string]coalPP{}, ppKind: map[string]string{}}
	totalPk, totalGSO, totalSegs := 0, 0, 0

	emit := func(ins []*coalIn, tso, uso, plain bool, kind string) {
		res := coalRunBatch(ins, tso, uso, plain, g.lits)
		nbytes := 0
		for _, in := range ins {
			nbytes += len(in.bytes)
		}
		notes := map[string]int{}
		for _, in := range ins {
			if in.spec != nil && in.spec.Note != "" {
				notes[in.spec.Note]++
			}
			notes[in.abs.Shape]++
			notes[in.ppKind]++
		}
		totalPk += len(ins)
		totalGSO += res.nGSO
		totalSegs += res.nSegs
		desc := map[string]any{"packets": len(ins), "tso": tso, "uso": uso, "plain_writer": plain, "gso_writes": res.nGSO,
			"delivered_after_segmentation": res.nSegs, "mix": notes, "panicked": res.panicked, "bad_tun_frames": res.badFrames}
		if len(ins) <= 12 && nbytes <= 4096 {
			var hs []string
			for _, in := range ins {
				hs = append(hs, fmt.Sprintf("e%d c%d pp{%d %v %d} %s", in.epoch, in.ctr, in.pp.Proto, in.pp.FragAny, in.pp.IPHdr, hex.EncodeToString(in.bytes)))
			}
			desc["input"] = hs
		}
		cw.Add(res.lit, kind, res.nGSO > 0, desc)
		// every batch starts from fresh literal tables
		g.lits = coalNewLits()
		g.ppCache = map[string]coalPP{}
		g.ppKind = map[string]string{}
	}

	// ---- boundary corpus ------------------------------------------------------------------------------
	base := func(v6 bool, l4 byte) *coalSpec {
		s := &coalSpec{V6: v6, L4: l4, Sport: 1000, Dport: 2000, Ttl: 64, Df: true, Flags: 0x10, Win: 512, Seq: 1000, Ack: 7, Id: 100}
		if v6 {
			s.Src = []byte{0xfd, 0, 0, 0, 0, 0, 0, 0, 0, 0, 0, 0, 0, 0, 0, 1}
			s.Dst = []byte{0xfd, 0, 0, 0, 0, 0, 0, 0, 0, 0, 0, 0, 0, 0, 0, 2}
		} else {
			s.Src, s.Dst = []byte{10, 0, 0, 1}, []byte{10, 0, 0, 2}
		}
		return s
	}
	run := func(n int, mk func(i int) *coalSpec) []*coalIn {
		var ins []*coalIn
		for i := 0; i < n; i++ {
			ins = append(ins, g.mkIn(mk(i), 1, uint64(10+i)))
		}
		return ins
	}
	for _, v6 := range []bool{false, true} {
		for _, l4 := range []byte{6, 17} {
			l4, v6 := l4, v6
			hl := 40
			if v6 {
				hl = 60
			}
			if l4 == 17 {
				hl -= 12
			}
			chain := func(n, mss int, mod func(i int, s *coalSpec)) []*coalIn {
				return run(n, func(i int) *coalSpec {
					s := base(v6, l4)
					s.Seq = uint32(1000 + i*mss)
					s.Id = uint16(100 + i)
					s.Pay = g.payload(mss)
					if mod != nil {
						mod(i, s)
					}
					return s
				})
			}
			// segment cap: 63, 64, 65, 66, 129 equal segments
			for _, n := range []int{1, 2, 63, 64, 65, 66, 129} {
				emit(chain(n, 3, nil), true, true, false, "corpus-segcap")
			}
			// byte cap: chains whose total sits at 65535 -1 / 0 / +1 (quick tier: two of the four header shapes)
			bigCorpus := c.Tier != "quick" || (l4 == 6) != v6
			for _, d := range []int{-1, 0, 1} {
				if !bigCorpus && d == -1 {
					continue
				}
				mss := 1400
				k := (65535 - hl) / mss // full segments that fit
				rest := 65535 - hl - k*mss + d
				emit(run(k+1, func(i int) *coalSpec {
					s := base(v6, l4)
					s.Seq = uint32(1000 + i*mss)
					s.Id = uint16(100 + i)
					if i < k {
						s.Pay = g.payload(mss)
					} else {
						s.Pay = g.payload(rest)
					}
					return s
				}), true, true, false, "corpus-bytecap")
			}
			// largest single packets
			for _, d := range []int{-1, 0} {
				if !bigCorpus && d == -1 {
					continue
				}
				emit(run(2, func(i int) *coalSpec {
					s := base(v6, l4)
					s.Seq = uint32(1000 + i*(65535-hl+d))
					s.Id = uint16(100 + i)
					s.Pay = g.payload(65535 - hl + d)
					return s
				}), true, true, false, "corpus-maxpacket")
			}
			if v6 { // an IPv6 packet longer than 65535 bytes in total: the oversize seed
				for _, d := range []int{1, 40} {
					emit(run(3, func(i int) *coalSpec {
						s := base(v6, l4)
						s.Id = 0
						n := 65535 - hl + d
						if i == 1 {
							n = 4
						}
						s.Seq = uint32(1000)
						if i > 0 {
							s.Seq = uint32(1000 + 65535 - hl + d + (i-1)*4)
						}
						s.Pay = g.payload(n)
						return s
					}), true, true, false, "corpus-oversize-seed")
				}
			}
			// ID wrap, non-DF sequential / gap; seq wrap
			emit(chain(6, 4, func(i int, s *coalSpec) { s.Df = false; s.Id = uint16(65533 + i) }), true, true, false, "corpus-id-wrap")
			emit(chain(6, 4, func(i int, s *coalSpec) {
				s.Df = false
				s.Id = uint16(100 + i)
				if i >= 3 {
					s.Id++
				}
			}), true, true, false, "corpus-id-gap")
			emit(chain(6, 4, func(i int, s *coalSpec) { s.Id = uint16(c.U64()) }), true, true, false, "corpus-df-random-id")
			emit(chain(8, 5, func(i int, s *coalSpec) { s.Seq = uint32(0xfffffff0 + uint32(i*5)) }), true, true, false, "corpus-seq-wrap")
			// short segment closes; larger segment reseeds; zero length
			emit(chain(6, 8, func(i int, s *coalSpec) {
				if i == 2 {
					s.Pay = g.payload(3)
				}
				if i > 2 {
					s.Seq -= 5
				}
			}), true, true, false, "corpus-short-closes")
			emit(chain(5, 8, func(i int, s *coalSpec) {
				if i == 2 {
					s.Pay = g.payload(9)
				}
				if i > 2 {
					s.Seq++
				}
			}), true, true, false, "corpus-larger-reseeds")
			emit(chain(5, 8, func(i int, s *coalSpec) {
				if i == 2 {
					s.Pay = nil
				}
				if i > 2 {
					s.Seq -= 8
				}
			}), true, true, false, "corpus-zero-length")
			// capability combinations
			for _, caps := range [][3]bool{{true, false, false}, {false, true, false}, {false, false, false}, {true, true, true}} {
				emit(chain(4, 8, nil), caps[0], caps[1], caps[2], "corpus-caps")
			}
			if l4 == 17 {
				// F26: a UDP datagram shorter than its IP payload must ride verbatim, with its trailing bytes
				for _, at := range []int{0, 1, 2} {
					at := at
					emit(chain(3, 4, func(i int, s *coalSpec) {
						if i == at {
							s.Slack = []byte{0xaa, 0xbb, 0xcc}
						}
					}), true, true, false, "corpus-udp-shorter-than-ip-payload")
				}
			}
			if l4 == 6 {
				for _, fl := range []byte{0x18, 0x11, 0x12, 0x14, 0x30, 0x90, 0x50, 0x00, 0x08} {
					fl := fl
					emit(chain(6, 8, func(i int, s *coalSpec) {
						if i == 3 {
							s.Flags = fl
						}
					}), true, true, false, "corpus-tcp-flags")
					emit(chain(4, 8, func(i int, s *coalSpec) {
						if i == 0 {
							s.Flags = fl
						}
					}), true, true, false, "corpus-tcp-flags-seed")
				}
				// pure ACKs between data: the data keeps coalescing, the ACKs trail
				emit(run(9, func(i int) *coalSpec {
					s := base(v6, l4)
					s.Id = uint16(100 + i)
					s.Seq = uint32(1000 + (i-i/3)*8)
					if i%3 != 2 {
						s.Pay = g.payload(8)
					}
					return s
				}), true, true, false, "corpus-pure-acks")
			}
		}
	}

	// ---- random batches ---------------------------------------------------------------------------------
	for cw.Total() < c.N {
		r := c.Intn(100)
		npk := 1 + c.Intn(10)
		switch {
		case r < 55:
			npk = 10 + c.Intn(50)
		case r < 70:
			npk = 60 + c.Intn(240)
			if c.Tier == "quick" && c.Chance(0.5) {
				npk = 60 + c.Intn(60)
			}
		}
		big := c.Chance(0.06)
		if big && npk > 100 {
			npk = 100
		}
		nflows := 1 + c.Intn(6)
		if c.Chance(0.3) {
			nflows = 1
		}
		forceL4 := 0
		if c.Chance(0.3) {
			forceL4 = []int{6, 6, 17}[c.Intn(3)]
		}
		shuffle := []int{0, 0, 1, 1, 2, 3}[c.Intn(6)]
		tso, uso, plain := true, true, false
		switch c.Intn(20) {
		case 0:
			uso = false
		case 1:
			tso = false
		case 2:
			tso, uso = false, false
		case 3:
			plain = true
		}
		kind := "random"
		if big {
			kind = "random-large-payloads"
		}
		emit(g.batch(npk, nflows, big, shuffle, forceL4), tso, uso, plain, kind)
	}
	cw.Meta("packets", totalPk)
	cw.Meta("gso_writes", totalGSO)
	cw.Meta("delivered_after_segmentation", totalSegs)
	cw.Close("one case = one batch (Commit* + Flush) through the real MultiCoalescer; nontrivial = the batch produced at least one WriteGSO superpacket")
}

//go:build comp_all || comp_hostmap

package main

// Components hostmap_rx (C29) / hostmap_rx28 (C28): the same histories and the same Coq check as hostmap_idx /
// hostmap, but on a node with a real PKI where the pending-handshake operations run through the code of the timer
// and rx routines (handleOutbound, HandleIncoming -> beginHandshake, continueHandshake). A reply is delivered with the
// *HandshakeHostInfo the rx routine would have resolved EARLIER (queryIndex returns the pointer, hh.Lock is taken
// later), so stale handshakes - timed out, index re-issued to another pending handshake - reach continueHandshake's
// own "still tracked" test. The harness never decides itself whether a reply is accepted: it only observes the maps.

import (
	"verifharness/hx"
)

// rxAlloc: OAlloc through the timer routine. The timer wheel delivers an address, so the operation exists only for a
// handshake that is tracked under its address.
func (h *hmHist) rxAlloc(id uint64, script []uint32) {
	if !h.v.Known(id) || !h.v.RxTracked(id) {
		h.record(hx.App("OAlloc", hx.N(id), hx.NList(hmU32s(script))), "RNone", []any{"alloc", id, hmU32s(script), "n/a"})
		return
	}
	before := h.v.LocalIndex(id)
	served := h.v.RxOutbound(id, script)
	after := h.v.LocalIndex(id)
	out := "RNone" // already had its index: handleOutbound only retransmits
	if before == 0 {
		out = hmIdxOut(after, after != 0)
	}
	if len(served) > 2 {
		h.feat["collide"] = true
	}
	h.record(hx.App("OAlloc", hx.N(id), hx.NList(hmU32s(served))), out, []any{"alloc", id, hmU32s(served)})
}

// rxPeerFor returns the index (into h.peers) of a peer whose certificate holds addr, creating one if needed.
func (h *hmHist) rxPeerFor(addr uint64) int {
	var cand []int
	for i, p := range h.peers {
		for _, a := range p {
			if a == addr {
				cand = append(cand, i)
				break
			}
		}
	}
	if len(cand) > 0 && h.c.Chance(0.85) {
		return cand[h.c.Intn(len(cand))]
	}
	cert := []uint64{addr}
	for h.c.Chance(0.4) && len(cert) < 3 {
		cert = append(cert, uint64(1+h.c.Intn(7)))
	}
	return h.rxAddPeer(cert)
}

func (h *hmHist) rxAddPeer(cert []uint64) int {
	n, addrs := h.v.RxNewPeer(cert)
	h.peers = append(h.peers, addrs)
	h.rxPeers = append(h.rxPeers, n)
	return len(h.peers) - 1
}

// rxComplete: a stage-2 reply for hostinfo id reaches continueHandshake with the retained handshake pointer.
func (h *hmHist) rxComplete(id uint64, remote uint32) {
	if !h.v.Known(id) || !h.v.RxReady(id) {
		// no stage-0 message was ever built for this hostinfo: no peer can answer it
		h.record(hx.App("OComplete", hx.N(id), "[]", hx.N(uint64(remote))), "RNone", []any{"reply", id, "n/a"})
		return
	}
	hi := h.infos[id]
	pi := h.rxPeerFor(hi.Addrs[0])
	addrs := h.peers[pi]
	_, liveBefore := h.liveSet()[id]
	if _, pend := h.pendingSet()[id]; !pend && !liveBefore {
		h.feat["stale"] = true
		if _, held := hmKvGet(h.prev.PIdx, uint64(hi.Local)); held {
			h.feat["stalereply"] = true // its index is held by another pending handshake by now
		}
	}
	h.v.RxReply(id, h.rxPeers[pi], remote)
	out := "RNone"
	if !liveBefore && h.v.LocalIndex(id) != 0 {
		if owner, ok := h.mainOwner(h.v.LocalIndex(id)); ok && owner == id {
			out = "(RBool true)"
			h.feat["complete"] = true
		}
	}
	h.record(hx.App("OComplete", hx.N(id), hx.NList(addrs), hx.N(uint64(remote))), out, []any{"reply", id, addrs, remote})
}

// mainOwner reads the implementation's main Indexes map (fresh dump).
func (h *hmHist) mainOwner(idx uint32) (uint64, bool) {
	return hmKvGet(h.v.Dump().Indexes, uint64(idx))
}

// rxResp: a peer's first handshake message through HandleIncoming -> beginHandshake.
func (h *hmHist) rxResp(pi int, remote uint32, script []uint32) {
	id := h.nextID
	h.nextID++
	added, served := h.v.RxStage1(id, h.rxPeers[pi], remote, script)
	var local uint32
	for _, c := range served {
		if c != 0 {
			local = c
			break
		}
	}
	code := 0
	if !added {
		code = 1
		h.feat["collide"] = true
	}
	h.record(hx.App("OResp", hx.N(id), hx.NList(h.peers[pi]), hx.N(uint64(remote)), hx.NList(hmU32s(served))),
		hx.App("RResp", hx.N(uint64(code)), hx.N(uint64(local))), []any{"stage1", id, h.peers[pi], remote, hmU32s(served)})
}

// rxRemote: the peer's index; the handshake payload rules refuse a zero index, so the peers never send one.
func (h *hmHist) rxRemote() uint32 {
	if h.c.Chance(0.1) {
		if r := uint32(h.c.EdgeU64(32)); r != 0 {
			return r
		}
	}
	return uint32(1 + h.c.Intn(6))
}

func (h *hmHist) rxMakePeers() {
	n := 4 + h.c.Intn(2)
	for i := 0; i < n; i++ {
		k := 1 + h.c.Intn(3)
		var cert []uint64
		for j := 0; j < k; j++ {
			cert = append(cert, uint64(1+h.c.Intn(6)))
		}
		if h.c.Chance(0.25) {
			cert = append(cert, cert[h.c.Intn(len(cert))])
		}
		h.rxAddPeer(cert)
	}
}

func (h *hmHist) rxRandomOp() {
	w := []int{13, 16, 20, 20, 8, 2, 4, 12, 9} // stage1 start outbound reply delete promote relay pending-delete reissue
	tot := 0
	for _, x := range w {
		tot += x
	}
	r := h.c.Intn(tot)
	k := 0
	for r >= w[k] {
		r -= w[k]
		k++
	}
	switch k {
	case 0:
		h.rxResp(h.c.Intn(len(h.peers)), h.rxRemote(), h.script(false))
	case 1:
		h.opStart(uint64(1 + h.c.Intn(6)))
	case 2:
		h.rxAlloc(h.anyID(1, 10, 1), h.script(false))
	case 3:
		h.rxComplete(h.anyID(1, 6, 6), h.rxRemote())
	case 4:
		h.opDelete(h.anyID(6, 1, 3))
	case 5:
		h.opPromote(h.anyID(6, 1, 3))
	case 6:
		h.opAddRelay(h.anyID(8, 1, 2), uint64(1+h.c.Intn(7)), h.script(true))
	case 7:
		h.opPendDelete(h.anyID(1, 8, 2), h.c.Chance(0.7))
	case 8:
		h.rxReissue()
	}
}

// rxReissue: the index of a handshake that timed out (or was abandoned) is drawn again by the next handshake that
// starts, and the late reply for the old handshake arrives before or after the new one completes.
func (h *hmHist) rxReissue() {
	live, pend := h.liveSet(), h.pendingSet()
	var stale []uint64
	for id := uint64(1); id < h.nextID; id++ {
		hi := h.infos[id]
		if live[id] || pend[id] || hi.Local == 0 || !h.v.RxReady(id) {
			continue
		}
		if _, ok := hmKvGet(h.prev.Indexes, uint64(hi.Local)); ok {
			continue
		}
		if _, ok := hmKvGet(h.prev.PIdx, uint64(hi.Local)); ok {
			continue
		}
		stale = append(stale, id)
	}
	if len(stale) == 0 {
		h.opPendDelete(h.anyID(0, 9, 1), true)
		return
	}
	old := stale[h.c.Intn(len(stale))]
	x := h.infos[old].Local
	a := uint64(1 + h.c.Intn(6))
	h.opStart(a)
	nid, ok := hmKvGet(h.prev.PVpn, a)
	if !ok {
		return
	}
	h.rxAlloc(nid, []uint32{0, x, uint32(1 + h.c.Intn(h.idxSpace))})
	if h.c.Chance(0.5) {
		h.rxComplete(old, h.rxRemote())
		h.rxComplete(nid, h.rxRemote())
	} else {
		h.rxComplete(nid, h.rxRemote())
		h.rxComplete(old, h.rxRemote())
	}
}

// rxCorpus: the interleavings the rx routine allows around a timed-out handshake whose index is handed out again.
func rxCorpus(c *hx.Ctx, cw *hx.CaseWriter) {
	// 1. hh1 gets index 5, times out, hh2 (another address) is issued index 5; the late reply for hh1 must be dropped,
	//    hh2 then completes and owns index 5 alone.
	{
		h := hmNewHistRx(c, 50)
		h.rxAddPeer([]uint64{1})
		h.rxAddPeer([]uint64{2, 3})
		h.opStart(1)                     // id 1
		h.rxAlloc(1, []uint32{5})        // index 5
		h.opPendDelete(1, true)          // the timer routine gives up: index 5 is released
		h.opStart(2)                     // id 2
		h.rxAlloc(2, []uint32{0, 5})     // index 5 is handed out again
		h.rxComplete(1, 9)               // the reply the rx routine resolved to hh1 before the timeout
		h.rxComplete(2, 8)               // hh2 completes
		h.rxComplete(1, 9)               // still stale
		h.rxComplete(2, 8)               // a duplicate of an accepted reply
		h.opDelete(2)
		h.emit(cw, "CHist", "corpus-rx-stale-reply")
	}
	// 2. the same with the new owner on the SAME address, and a responder colliding with the pending index
	{
		h := hmNewHistRx(c, 50)
		h.rxAddPeer([]uint64{1, 2})
		h.opStart(1)                  // id 1
		h.rxAlloc(1, []uint32{7})     // index 7
		h.opPendDelete(1, true)
		h.opStart(1)                  // id 2, same address
		h.rxAlloc(2, []uint32{7})     // index 7 again
		h.rxResp(0, 4, []uint32{7, 8}) // id 3: responder draws 7: collision with the pending index
		h.rxComplete(1, 9)            // stale
		h.rxResp(0, 4, []uint32{0, 8}) // id 4: established under index 8
		h.rxComplete(2, 6)            // completes, takes over the address
		h.opPendDelete(1, false)      // abandon path on the stale handshake: must not touch index 7
		h.emit(cw, "CHist", "corpus-rx-stale-same-addr")
	}
	// 3. stale reply after the index moved on to the main map; reply for a deleted-by-abandon handshake; re-issue twice
	{
		h := hmNewHistRx(c, 50)
		h.rxAddPeer([]uint64{1})
		h.rxAddPeer([]uint64{2})
		h.rxAddPeer([]uint64{3})
		h.opStart(1)               // id 1
		h.rxAlloc(1, []uint32{6})  // 6
		h.opPendDelete(1, false)   // abandoned (continueHandshake error path / recv_error)
		h.opStart(2)               // id 2
		h.rxAlloc(2, []uint32{6})  // 6 again
		h.rxComplete(2, 3)         // index 6 now in the main map
		h.rxComplete(1, 3)         // stale: pending map has no entry for 6
		h.opDelete(2)              // 6 released
		h.opStart(3)               // id 3
		h.rxAlloc(3, []uint32{6})  // 6 a third time
		h.rxComplete(1, 3)         // stale again, index held by id 3
		h.rxComplete(2, 3)         // a removed, once established hostinfo
		h.rxAlloc(3, []uint32{9})  // already ready
		h.rxComplete(3, 3)
		h.emit(cw, "CHist", "corpus-rx-reissue")
	}
}

func runHostmapRx(c *hx.Ctx, check string) {
	cw := c.NewCaseWriter("From NV Require Import model.HostMap corr.HostMap_corr.", "HostMap_corr.case", check, 20)
	rxCorpus(c, cw)
	for i := 0; i < c.N; i++ {
		h := hmNewHistRx(c, 4+c.Intn(5))
		h.rxMakePeers()
		n := 40 + c.Intn(21)
		for j := 0; j < n; j++ {
			h.rxRandomOp()
		}
		label := ""
		if h.feat["stalereply"] {
			label = "rx-stalereply"
		} else {
			label = "rx"
		}
		for _, f := range []string{"collide", "complete", "evict"} {
			if h.feat[f] {
				label += "+" + f
			}
		}
		h.emit(cw, "CHist", label)
	}
	cw.Close("histories of 40-60 operations on a node with a real PKI: StartHandshake, the timer routine's handleOutbound (stage 0 through " +
		"handshake.Machine -> allocateIndex with scripted candidates from a space of 4-8 values; timeout -> DeleteHostInfo), peers' first messages " +
		"through HandleIncoming -> beginHandshake, authenticated stage-2 replies handed to continueHandshake with the retained handshake pointer " +
		"(current, timed out, abandoned, index re-issued to another pending handshake or moved to the main map), main deletes, promotions, relay " +
		"allocations; preceded by three fixed interleavings; label rx-stalereply = a reply reached a handshake whose index another pending handshake " +
		"holds; non-trivial as for hostmap; distinct by literal")
}

//go:build comp_all || comp_lifecycle || comp_lifecyclenet

package main

// Component lifecycle (C49): random operation sequences (Start that succeeds or whose activation fails, Stop,
// RebindUDPServer, a fatal reader error) on a REAL Control + Interface over a recording tun device and recording
// sockets; after every operation the run state, which resources are closed, the number of rebinds that reached the
// socket, how often Close reached the device and whether Wait returns go into a Coq case that
// corr/Lifecycle_corr.v compares with model/Lifecycle.v (code 1) and checks against the property's clauses (code 2).
// A concurrent round (several Stops and a Start at once) is checked directly: whatever the interleaving, the
// control ends Stopped with everything released.

import (
	"fmt"
	"strings"
	"time"

	"github.com/slackhq/nebula"
	"verifharness/hx"
)

func init() {
	hx.Register("lifecycle", runLifecycle)
	hx.Register("gen_lifecycle", genLifecycle)
}

// genLifecycle (T2): what the real Interface.send puts into the lighthouse query channel, for every message type, with
// the tunnel's rebind counter behind the interface's or not, on a plain node and on a lighthouse.
func genLifecycle(c *hx.Ctx) {
	var sb strings.Builder
	sb.WriteString("(* GENERATED from /repo (inside.go Interface.send / sendNoMetrics, lighthouse.go QueryServer) by harness gen_lifecycle: do not edit *)\nFrom Coq Require Import List NArith Bool.\nImport ListNotations.\nOpen Scope N_scope.\n")
	fmt.Fprintf(&sb, "Definition t_close_tunnel : N := %d.\n", nebula.VerifLifeCloseTunnelType)
	var rows []string
	for t := 0; t <= nebula.VerifLifeMaxMessageType; t++ {
		for _, mism := range []bool{false, true} {
			for _, lh := range []bool{false, true} {
				n := nebula.VerifLifeSendQueries(t, mism, lh)
				if n2 := nebula.VerifLifeSendQueries(t, mism, lh); n2 != n {
					panic("Interface.send is not a function of (type, rebind mismatch, am_lighthouse) as far as the query channel goes")
				}
				rows = append(rows, hx.Tuple(hx.N(uint64(t)), hx.Bool(mism), hx.Bool(lh), hx.N(uint64(n))))
			}
		}
	}
	fmt.Fprintf(&sb, "(* message type, tunnel's lastRebindCount <> interface's rebindCount, am_lighthouse, entries put into LightHouse.queryChan *)\nDefinition send_queries : list (N * bool * bool * N) := [\n  %s].\n", strings.Join(rows, ";\n  "))
	c.WriteFile("Tab_Lifecycle.v", sb.String())
}

func lifeCfgLit(configured, queues int, multi bool, lhclient, lhupdate, ctcache, dns, sshd bool) string {
	return hx.App("mkCfg", hx.Nat(configured), hx.Nat(queues), hx.Bool(multi), hx.Bool(lhclient), hx.Bool(lhupdate), hx.Bool(ctcache), hx.Bool(dns), hx.Bool(sshd))
}

func runLifecycle(c *hx.Ctx) {
	cw := c.NewCaseWriter("From NV Require Import model.Lifecycle corr.Lifecycle_corr.", "Lifecycle_corr.case", "Lifecycle_corr.check_case", 400)
	var failures []map[string]any
	scripted := [][]string{
		{"stop", "stop", "start", "rebind"},
		{"start", "start", "rebind", "stop", "stop", "start", "rebind", "fatal"},
		{"startfailA", "stop", "start"},
		{"startfailQ", "rebind", "stop"},
		{"start", "fatal", "stop", "fatal"},
		{"fatal", "start", "fatal", "rebind", "stop"},
		{"rebind", "start", "rebind", "rebind", "stop", "rebind"},
	}
	vocab := []string{"start", "start", "startfailA", "startfailQ", "stop", "stop", "rebind", "fatal"}
	// boundary sweep first: configured routines x queues the device really opens x udp backend readable by several
	// goroutines or not, stopped before Start, right after Start, and after some use
	type lifeShape struct {
		routines, queues int
		multi            bool
		ops              []string
	}
	var sweep []lifeShape
	for r := 1; r <= 4; r++ {
		for q := 1; q <= r; q++ {
			for _, m := range []bool{true, false} {
				for _, ops := range [][]string{{"stop"}, {"start", "stop"}, {"start", "rebind", "stop", "stop"}} {
					sweep = append(sweep, lifeShape{r, q, m, ops})
				}
			}
		}
	}
	for i := 0; i < c.N+len(sweep); i++ {
		routines := 1 + c.Intn(4)
		queues := 1 + c.Intn(routines)
		multi := c.Chance(0.6)
		var ops []string
		if i < len(sweep) {
			routines, queues, multi, ops = sweep[i].routines, sweep[i].queues, sweep[i].multi, sweep[i].ops
		} else if i-len(sweep) < len(scripted) {
			ops = scripted[i-len(sweep)]
		} else {
			n := 1 + c.Intn(7)
			for k := 0; k < n; k++ {
				ops = append(ops, vocab[c.Intn(len(vocab))])
			}
		}
		v := nebula.VerifLifeNew(routines, queues, multi)
		var steps []string
		var descs []any
		kind := "ops"
		fatalSeen := false
		for _, o := range ops {
			var lit string
			switch o {
			case "start":
				if v.Start(false, false) == 0 {
					// the readers are goroutines: wait (bounded) until as many run as queues were opened
					for dl := time.Now().Add(500 * time.Millisecond); v.Readers() != v.QueuesHanded() && time.Now().Before(dl); {
						time.Sleep(time.Millisecond)
					}
				}
				lit = hx.App("OStart", "true")
			case "startfailA":
				v.Start(true, false)
				lit = hx.App("OStart", "false")
				kind = "ops-startfail"
			case "startfailQ":
				v.Start(false, true)
				lit = hx.App("OStart", "false")
				kind = "ops-startfail"
			case "stop":
				v.Stop()
				lit = "OStop"
			case "rebind":
				v.Rebind()
				lit = "ORebind"
			case "fatal":
				before := v.State()
				v.Fatal()
				lit = "OFatal"
				// the shutdown the first fatal error triggers on a started node runs in its own goroutine: give it
				// time to finish (bounded; if it never does, the observation below says so)
				if before == 2 && !fatalSeen {
					deadline := time.Now().Add(3 * time.Second)
					for v.State() != 4 && time.Now().Before(deadline) {
						time.Sleep(time.Millisecond)
					}
				} else {
					time.Sleep(2 * time.Millisecond)
				}
				fatalSeen = true
			}
			st := v.State()
			waited := false
			if st == 4 {
				waited = v.Wait(2 * time.Second)
			}
			steps = append(steps, hx.Tuple(lit, hx.Tuple(hx.N(uint64(st)), hx.Bool(v.CtxDone()), hx.Bool(v.UDPClosed()), hx.Bool(v.TunClosed()),
				hx.N(uint64(v.Rebinds())), hx.N(uint64(v.TunCloses())), hx.Bool(waited), hx.N(uint64(v.UDPLeftOpen())), hx.N(uint64(v.QueuesHanded())), hx.N(uint64(v.Readers())))))
			descs = append(descs, map[string]any{"op": o, "state": st, "ctx": v.CtxDone(), "udp": v.UDPClosed(), "tun": v.TunClosed(), "rebinds": v.Rebinds(), "tun_closes": v.TunCloses(), "waited": waited,
				"udp_opened": v.UDPOpened(), "udp_left_open": v.UDPLeftOpen(), "queues_handed": v.QueuesHanded(), "readers": v.Readers()})
		}
		if v.State() != 4 {
			v.Stop() // leave nothing running
		}
		if i < len(sweep) {
			kind = "sweep"
		}
		cw.Add(hx.App("Lifecycle_corr.COps", lifeCfgLit(routines, queues, multi, false, false, false, false, false), hx.List(steps)), kind, len(ops) > 2,
			map[string]any{"routines": routines, "device_queues": queues, "udp_multi_reader": multi, "steps": descs})
	}
	// concurrent Stop / Start: the outcome must always be Stopped and released
	rounds := 20
	if c.Tier == "thorough" {
		rounds = 300
	}
	for r := 0; r < rounds; r++ {
		rr, qq, mm := 1+r%4, 1+(r/4)%(1+r%4), r%5 != 0
		v := nebula.VerifLifeNew(rr, qq, mm)
		started := hx.List(nil)
		if r%2 == 0 {
			v.Start(false, false)
			for dl := time.Now().Add(500 * time.Millisecond); v.Readers() != v.QueuesHanded() && time.Now().Before(dl); {
				time.Sleep(time.Millisecond)
			}
			started = hx.List([]string{hx.Tuple(hx.App("OStart", "true"), hx.Tuple(hx.N(uint64(v.State())), hx.Bool(v.CtxDone()), hx.Bool(v.UDPClosed()),
				hx.Bool(v.TunClosed()), hx.N(uint64(v.Rebinds())), hx.N(uint64(v.TunCloses())), "false", hx.N(uint64(v.UDPLeftOpen())), hx.N(uint64(v.QueuesHanded())), hx.N(uint64(v.Readers()))))})
		}
		v.StopConcurrently(2+r%3, r%3 == 0)
		ok := v.State() == 4 && v.CtxDone() && v.UDPClosed() && v.UDPLeftOpen() == 0 && v.TunClosed() && v.Wait(2*time.Second) && v.TunCloses() == 1
		idx := cw.Total()
		cw.Add(hx.App("Lifecycle_corr.COps", lifeCfgLit(rr, qq, mm, false, false, false, false, false), started), "concurrent", true,
			map[string]any{"concurrent_stops": 2 + r%3, "with_start": r%3 == 0, "started_first": r%2 == 0, "ok": ok})
		if !ok {
			failures = append(failures, map[string]any{"i": idx, "code": 2, "what": fmt.Sprintf("after concurrent Stop/Start: state %d ctx %v udp %v (listeners left open %d of %d) tun %v closes %d", v.State(), v.CtxDone(), v.UDPClosed(), v.UDPLeftOpen(), v.UDPOpened(), v.TunClosed(), v.TunCloses())})
		}
	}
	if len(failures) > 0 {
		cw.Meta("failures", failures)
	}
	cw.Close("operation sequence on a real Control whose state and closed resources equal the model's after every operation and satisfy the clauses; nontrivial = more than two operations / concurrent round")
}

//go:build comp_all || comp_pkireload

package main

// Property C42 (certificate reload never changes a node's identity).
//
//	gen_pkireload  T2: evaluates the REAL PKI load / reload path (config string -> NewPKIFromConfig,
//	               ReloadConfigString -> reload callback -> PKI.reload -> reloadCerts + reloadCAPool) on every feasible
//	               combination of the abstract features, >= 3 different concrete situations per row (inline PEM,
//	               freshly signed certificates), and prints coq/gen/Tab_PkiReload.v.
//	pkireload      T3: a sweep (one fresh situation per feasible row) and random reload histories through one real PKI;
//	               after every reload the certificates in use, CertState.myVpnNetworks, the CA pool, its blocklist and
//	               the verdict of CAPool.VerifyCachedCertificate on a set of peers are recorded.
//
// Abstract names: network = index into a fixed pool of prefixes, key = curve*16 + index into a pool of key pairs,
// CA = curve*16 + index, peer = index. Everything the code sees is real (PEM, signatures, key pairs).

import (
	"bytes"
	"crypto/ecdh"
	"crypto/ecdsa"
	"crypto/ed25519"
	"crypto/elliptic"
	crand "crypto/rand"
	"errors"
	"fmt"
	"net/netip"
	"os"
	"path/filepath"
	"sort"
	"strings"
	"time"

	nebula "github.com/slackhq/nebula"
	"github.com/slackhq/nebula/cert"
	"golang.org/x/crypto/curve25519"
	"verifharness/hx"
)

func init() {
	hx.Register("gen_pkireload", genPkiReload)
	hx.Register("pkireload", runPkiReload)
}

// ---- abstract descriptions (mirrored by coq/model/PkiReload.v) ----------------------------------

type pkCrt struct {
	nets  []int
	curve int
	key   int
}

type pkCand struct {
	v1, v2 *pkCrt
	kcurve int
	kkey   int
	lerr   int // 0 = nothing wrong with the files, else the kind of defect (pkLerr*)
}

type pkState struct {
	v1, v2 *pkCrt
	kkey   int
}

const (
	pkLerrNone = iota
	pkLerrExpired
	pkLerrGarbageCert
	pkLerrGarbageKey
	pkLerrCAAsHost
	pkLerrDuplicate
	pkLerrMissingFile
	pkLerrInitiating
	pkLerrNoCert
	pkLerrNoKey
	pkLerrKinds
)

type pkCA struct { // a CA bundle candidate
	kind  int // 0 = readable bundle, else pkCa*
	cas   []int
	block []int
}

const (
	pkCaReadable = iota
	pkCaMissingFile
	pkCaGarbage
	pkCaEmpty
	pkCaHostCert
	pkCaTrailing
	pkCaKinds
)

type pkRow struct{ o1, o2, n1, n2, lerr, kmatch, npair, v1eq, v2eq, xeq, ceq bool }

func pkIntsEq(a, b []int) bool {
	if len(a) != len(b) {
		return false
	}
	for i := range a {
		if a[i] != b[i] {
			return false
		}
	}
	return true
}
func pkCrtEq(a, b *pkCrt) bool {
	if a == nil || b == nil {
		return a == b
	}
	return a.curve == b.curve && a.key == b.key && pkIntsEq(a.nets, b.nets)
}
func pkStateEq(a, b *pkState) bool {
	return pkCrtEq(a.v1, b.v1) && pkCrtEq(a.v2, b.v2) && a.kkey == b.kkey
}
func pkPrim(c *pkCrt) int {
	if len(c.nets) == 0 {
		return -1
	}
	return c.nets[0]
}
func pkBoth(a, b *pkCrt, f func(a, b *pkCrt) bool) bool {
	if a == nil || b == nil {
		return true
	}
	return f(a, b)
}
func pkNetsSame(a, b *pkCrt) bool { return pkIntsEq(a.nets, b.nets) }
func pkPairOK(a, b *pkCrt) bool {
	return a.key == b.key && a.curve == b.curve && pkPrim(a) == pkPrim(b)
}
func pkStCurve(s *pkState) int {
	if s.v2 != nil {
		return s.v2.curve
	}
	if s.v1 != nil {
		return s.v1.curve
	}
	return 0
}
func pkEff(v1, v2 *pkCrt) []int {
	if v2 != nil {
		return v2.nets
	}
	if v1 != nil {
		return v1.nets
	}
	return nil
}
func pkStateOf(c pkCand) *pkState { return &pkState{v1: c.v1, v2: c.v2, kkey: c.kkey} }

// pkFeatures is `features` of coq/model/PkiReload.v.
func pkFeatures(old *pkState, c pkCand) pkRow {
	var o1, o2 *pkCrt
	if old != nil {
		o1, o2 = old.v1, old.v2
	}
	allNew := func(p func(k *pkCrt) bool) bool {
		return (c.v1 == nil || p(c.v1)) && (c.v2 == nil || p(c.v2))
	}
	r := pkRow{o1: o1 != nil, o2: o2 != nil, n1: c.v1 != nil, n2: c.v2 != nil}
	r.lerr = c.lerr != 0 || (c.v1 == nil && c.v2 == nil)
	r.kmatch = allNew(func(k *pkCrt) bool { return k.curve == c.kcurve && k.key == c.kkey })
	r.npair = pkBoth(c.v1, c.v2, pkPairOK)
	r.v1eq = pkBoth(o1, c.v1, pkNetsSame)
	r.v2eq = pkBoth(o2, c.v2, pkNetsSame)
	switch {
	case o2 == nil && c.v2 != nil:
		r.xeq = c.v1 != nil || pkBoth(o1, c.v2, pkNetsSame)
	case o2 != nil && c.v2 == nil:
		r.xeq = pkBoth(o2, c.v1, pkNetsSame)
	default:
		r.xeq = true
	}
	r.ceq = old == nil || allNew(func(k *pkCrt) bool { return k.curve == pkStCurve(old) })
	return r
}

// pkFeasible is `feasible` of coq/model/PkiReload.v: the feature combinations that can occur.
func pkFeasible(r pkRow) bool {
	imp := func(a, b bool) bool { return !a || b }
	initial := !r.o1 && !r.o2
	nocert := !r.n1 && !r.n2
	return imp(nocert, r.lerr && r.kmatch) &&
		imp(!(r.n1 && r.n2), r.npair) &&
		imp(!(r.o1 && r.n1), r.v1eq) &&
		imp(!(r.o2 && r.n2), r.v2eq) &&
		imp(!((r.o1 && !r.o2 && !r.n1 && r.n2) || (r.o2 && r.n1 && !r.n2)), r.xeq) &&
		imp(initial || nocert, r.ceq) &&
		imp(r.o1 && r.o2 && r.n1 && r.n2 && r.v1eq && r.v2eq && r.kmatch, r.npair)
}

// the documented rule: a reload is accepted iff the new files load, the key pairs with every certificate, v1 and v2
// agree with each other, and nothing that identifies the node changed (N/A comparisons count as equal)
func pkRule(r pkRow) bool {
	return !r.lerr && r.kmatch && r.npair && r.v1eq && r.v2eq && r.xeq && r.ceq
}

func pkAllRows() []pkRow {
	var out []pkRow
	for i := 0; i < 1<<11; i++ {
		b := func(k int) bool { return i>>uint(k)&1 == 1 }
		out = append(out, pkRow{b(10), b(9), b(8), b(7), b(6), b(5), b(4), b(3), b(2), b(1), b(0)})
	}
	return out
}

func (r pkRow) lit() string {
	return hx.App("mkP", hx.Bool(r.o1), hx.Bool(r.o2), hx.Bool(r.n1), hx.Bool(r.n2), hx.Bool(r.lerr), hx.Bool(r.kmatch),
		hx.Bool(r.npair), hx.Bool(r.v1eq), hx.Bool(r.v2eq), hx.Bool(r.xeq), hx.Bool(r.ceq))
}

// ---- real material ----------------------------------------------------------------------------

type pkKey struct{ priv, pub []byte }
type pkAuth struct {
	crt     cert.Certificate
	priv    []byte
	pem     []byte
	fp      string
	expired bool
}
type pkPeer struct {
	issuer int
	fp     string
	cc     *cert.CachedCertificate
}

const (
	pkKeysPerCurve = 4
	pkCAsPerCurve  = 3 // valid ones; one more per curve is expired
	pkNets         = 7
	pkPeers        = 6
)

type pkMat struct {
	now    time.Time
	keys   map[int]pkKey  // key id -> pair
	cas    map[int]pkAuth // CA id -> authority (index 0..pkCAsPerCurve-1 valid, pkCAsPerCurve expired)
	nets   []netip.Prefix // ascending in the order v2 certificates sort their networks
	peers  []pkPeer
	dir    string
	serial int
}

func pkMust(err error) {
	if err != nil {
		panic(err)
	}
}

func pkCurve(c int) cert.Curve {
	if c == 1 {
		return cert.Curve_P256
	}
	return cert.Curve_CURVE25519
}

func pkNewMat(dir string) *pkMat {
	m := &pkMat{now: time.Now(), keys: map[int]pkKey{}, cas: map[int]pkAuth{}, dir: dir}
	pkMust(os.MkdirAll(dir, 0o755))
	for _, s := range []string{"10.1.0.5/16", "10.2.0.5/24", "10.2.0.9/24", "172.16.3.1/20", "192.168.7.9/24", "192.168.7.9/25", "203.0.113.77/28"} {
		m.nets = append(m.nets, netip.MustParsePrefix(s))
	}
	for cv := 0; cv < 2; cv++ {
		for i := 0; i < pkKeysPerCurve; i++ {
			var k pkKey
			if cv == 0 {
				k.priv = make([]byte, 32)
				_, err := crand.Read(k.priv)
				pkMust(err)
				pub, err := curve25519.X25519(k.priv, curve25519.Basepoint)
				pkMust(err)
				k.pub = pub
			} else {
				pk, err := ecdh.P256().GenerateKey(crand.Reader)
				pkMust(err)
				k.priv, k.pub = pk.Bytes(), pk.PublicKey().Bytes()
			}
			m.keys[cv*16+i] = k
		}
		for i := 0; i <= pkCAsPerCurve; i++ {
			expired := i == pkCAsPerCurve
			m.cas[cv*16+i] = m.newCA(cv, cert.Version(1+i%2), expired)
		}
	}
	// peers: certificates signed by the valid authorities, verified once against a pool holding all of them
	master := cert.NewCAPool()
	for id, a := range m.cas {
		_ = id
		if !a.expired {
			pkMust(master.AddCA(a.crt))
		}
	}
	for i := 0; i < pkPeers; i++ {
		cv := i % 2
		issuer := cv*16 + (i/2)%pkCAsPerCurve
		a := m.cas[issuer]
		k := m.keys[cv*16]
		t := &cert.TBSCertificate{Version: a.crt.Version(), Curve: pkCurve(cv), Name: fmt.Sprintf("peer%d", i),
			Networks: []netip.Prefix{netip.MustParsePrefix(fmt.Sprintf("10.9.%d.1/24", i))}, NotBefore: m.now.Add(-time.Hour).Truncate(time.Second),
			NotAfter: m.now.Add(24 * time.Hour).Truncate(time.Second), PublicKey: k.pub}
		c, err := t.Sign(a.crt, pkCurve(cv), a.priv)
		pkMust(err)
		cc, err := master.VerifyCertificate(m.now, c)
		pkMust(err)
		m.peers = append(m.peers, pkPeer{issuer: issuer, fp: cc.Fingerprint, cc: cc})
	}
	return m
}

func (m *pkMat) newCA(cv int, v cert.Version, expired bool) pkAuth {
	var pub, priv []byte
	if cv == 0 {
		p, k, err := ed25519.GenerateKey(crand.Reader)
		pkMust(err)
		pub, priv = p, k
	} else {
		k, err := ecdsa.GenerateKey(elliptic.P256(), crand.Reader)
		pkMust(err)
		pub = elliptic.Marshal(elliptic.P256(), k.PublicKey.X, k.PublicKey.Y)
		priv = k.D.FillBytes(make([]byte, 32))
	}
	nb, na := m.now.Add(-240*time.Hour), m.now.Add(240*time.Hour)
	if expired {
		na = m.now.Add(-2 * time.Hour)
	}
	t := &cert.TBSCertificate{Version: v, Curve: pkCurve(cv), Name: fmt.Sprintf("ca-%d-%v", cv, expired), IsCA: true,
		NotBefore: nb.Truncate(time.Second), NotAfter: na.Truncate(time.Second), PublicKey: pub}
	c, err := t.Sign(nil, pkCurve(cv), priv)
	pkMust(err)
	pem, err := c.MarshalPEM()
	pkMust(err)
	fp, err := c.Fingerprint()
	pkMust(err)
	return pkAuth{crt: c, priv: priv, pem: pem, fp: fp, expired: expired}
}

// issue signs a host certificate as described, by a random valid authority of the certificate's curve.
func (m *pkMat) issue(c *hx.Ctx, k *pkCrt, v cert.Version, expired, isCA bool) []byte {
	if isCA { // a CA certificate where a host certificate belongs
		return m.newCA(k.curve, v, false).pem
	}
	a := m.cas[k.curve*16+c.Intn(pkCAsPerCurve)]
	var nets []netip.Prefix
	for _, n := range k.nets {
		nets = append(nets, m.nets[n])
	}
	m.serial++
	nb, na := m.now.Add(-time.Hour), m.now.Add(time.Duration(1+c.Intn(48))*time.Hour)
	if expired {
		nb, na = m.now.Add(-3*time.Hour), m.now.Add(-time.Duration(1+c.Intn(100))*time.Minute)
	}
	t := &cert.TBSCertificate{Version: v, Curve: pkCurve(k.curve), Name: fmt.Sprintf("host-%d", m.serial), Networks: nets,
		NotBefore: nb.Truncate(time.Second), NotAfter: na.Truncate(time.Second), PublicKey: m.keys[k.key].pub}
	if c.Chance(0.3) {
		t.Groups = []string{"g" + fmt.Sprint(c.Intn(3))}
	}
	crt, err := t.Sign(a.crt, pkCurve(k.curve), a.priv)
	pkMust(err)
	got := crt.Networks() // v2 sorts: the abstract list must already be in that order
	for i := range got {
		if got[i] != nets[i] {
			panic("harness: network pool is not in certificate order")
		}
	}
	pem, err := crt.MarshalPEM()
	pkMust(err)
	return pem
}

func pkIndent(s string) string {
	s = strings.TrimRight(s, "\n")
	return "    " + strings.ReplaceAll(s, "\n", "\n    ") + "\n"
}

func pkGarble(pem string) string {
	lines := strings.Split(pem, "\n")
	if len(lines) > 2 {
		lines[1] = "!!not*base64!!" + lines[1]
	}
	return strings.Join(lines, "\n")
}

// pkiYAML renders the files a candidate stands for as one configuration document with inline PEM.
func (m *pkMat) pkiYAML(c *hx.Ctx, cd pkCand, ca pkCA) string {
	var certs []string
	victim := c.Intn(2) // which certificate carries the defect when both are present
	pick := func(isV1 bool) bool {
		if cd.v1 == nil || cd.v2 == nil {
			return true
		}
		return (victim == 0) == isV1
	}
	if cd.v1 != nil {
		certs = append(certs, string(m.issue(c, cd.v1, cert.Version1, cd.lerr == pkLerrExpired && pick(true), cd.lerr == pkLerrCAAsHost && pick(true))))
	}
	if cd.v2 != nil {
		certs = append(certs, string(m.issue(c, cd.v2, cert.Version2, cd.lerr == pkLerrExpired && pick(false), cd.lerr == pkLerrCAAsHost && pick(false))))
	}
	if c.Chance(0.5) && len(certs) == 2 { // the order of the blocks in pki.cert is immaterial
		certs[0], certs[1] = certs[1], certs[0]
	}
	switch cd.lerr {
	case pkLerrGarbageCert:
		// the LAST block: encoding/pem skips a malformed block that is followed by a well-formed one (the files then
		// simply are the remaining certificate), so only a malformed final block is a definite load error
		if len(certs) > 0 {
			certs[len(certs)-1] = pkGarble(certs[len(certs)-1])
		}
	case pkLerrDuplicate:
		if cd.v1 != nil && pick(true) {
			certs = append(certs, string(m.issue(c, cd.v1, cert.Version1, false, false)))
		} else if cd.v2 != nil {
			certs = append(certs, string(m.issue(c, cd.v2, cert.Version2, false, false)))
		}
	}
	certText := strings.Join(certs, "")
	keyText := string(cert.MarshalPrivateKeyToPEM(pkCurve(cd.kcurve), m.keys[cd.kkey].priv))
	var sb strings.Builder
	sb.WriteString("pki:\n")
	switch {
	case cd.lerr == pkLerrMissingFile:
		fmt.Fprintf(&sb, "  cert: %s\n", filepath.Join(m.dir, fmt.Sprintf("no-such-cert-%d.crt", c.Intn(1000))))
	case cd.lerr == pkLerrNoCert || certText == "":
		sb.WriteString("  cert: \"\"\n")
	case c.Chance(0.15): // through a file instead of inline
		m.serial++
		p := filepath.Join(m.dir, fmt.Sprintf("host-%d.crt", m.serial))
		pkMust(os.WriteFile(p, []byte(certText), 0o600))
		fmt.Fprintf(&sb, "  cert: %s\n", p)
	default:
		sb.WriteString("  cert: |\n" + pkIndent(certText))
	}
	switch cd.lerr {
	case pkLerrGarbageKey:
		if c.Chance(0.5) {
			keyText = strings.ReplaceAll(keyText, "PRIVATE KEY", "BOGUS KEY")
		} else {
			keyText = pkGarble(keyText)
		}
		sb.WriteString("  key: |\n" + pkIndent(keyText))
	case pkLerrNoKey:
		sb.WriteString("  key: \"\"\n")
	default:
		sb.WriteString("  key: |\n" + pkIndent(keyText))
	}
	if cd.lerr == pkLerrInitiating {
		if cd.v1 == nil && c.Chance(0.5) {
			sb.WriteString("  initiating_version: 1\n")
		} else {
			fmt.Fprintf(&sb, "  initiating_version: %d\n", 3+c.Intn(5))
		}
	} else if cd.v1 != nil && cd.v2 != nil && c.Chance(0.3) {
		fmt.Fprintf(&sb, "  initiating_version: %d\n", 1+c.Intn(2))
	}
	// the CA bundle
	var bundle []string
	for _, id := range ca.cas {
		bundle = append(bundle, string(m.cas[id].pem))
	}
	text := strings.Join(bundle, "")
	switch ca.kind {
	case pkCaReadable:
		if text == "" { // a readable file without a single certificate in it
			text = []string{"", "\n", "  \n\n"}[c.Intn(3)]
		}
		if strings.TrimSpace(text) == "" || c.Chance(0.15) {
			m.serial++
			p := filepath.Join(m.dir, fmt.Sprintf("ca-%d.crt", m.serial))
			pkMust(os.WriteFile(p, []byte(text), 0o600))
			fmt.Fprintf(&sb, "  ca: %s\n", p)
		} else {
			sb.WriteString("  ca: |\n" + pkIndent(text))
		}
	case pkCaMissingFile:
		fmt.Fprintf(&sb, "  ca: %s\n", filepath.Join(m.dir, fmt.Sprintf("no-such-ca-%d.crt", c.Intn(1000))))
	case pkCaGarbage:
		if text == "" || c.Chance(0.5) {
			text = "-----BEGIN NEBULA CERTIFICATE-----\n!!not*base64!!\n-----END NEBULA CERTIFICATE-----\n"
		} else {
			text = pkGarble(text)
		}
		sb.WriteString("  ca: |\n" + pkIndent(text))
	case pkCaEmpty:
		sb.WriteString("  ca: \"\"\n")
	case pkCaHostCert: // a host certificate among the authorities
		host := string(m.issue(c, &pkCrt{nets: []int{0}, curve: 0, key: 0}, cert.Version(1+c.Intn(2)), false, false))
		sb.WriteString("  ca: |\n" + pkIndent(text+host))
	case pkCaTrailing:
		sb.WriteString("  ca: |\n" + pkIndent(text+"trailing junk that is not a PEM block\n"))
	}
	if len(ca.block) > 0 {
		sb.WriteString("  blocklist:\n")
		for _, p := range ca.block {
			fmt.Fprintf(&sb, "    - %s\n", m.peers[p].fp)
		}
	}
	return sb.String()
}

// ---- observations -----------------------------------------------------------------------------

type pkObs struct {
	st     *pkState
	eff    []int
	cas    []int // sorted CA ids in the pool
	block  []int // peers on the pool's blocklist
	status []int // per peer: 1 valid, 2 blocklisted, 3 otherwise refused
	ok     bool  // everything the PKI holds could be named
}

func (m *pkMat) abstractCert(vc *nebula.VerifPkiCert) (*pkCrt, bool) {
	if vc == nil {
		return nil, true
	}
	k := &pkCrt{curve: int(vc.Curve)}
	ok := false
	for id, kp := range m.keys {
		if bytes.Equal(kp.pub, vc.PublicKey) {
			k.key, ok = id, true
		}
	}
	for _, n := range vc.Networks {
		found := false
		for i, p := range m.nets {
			if p == n {
				k.nets = append(k.nets, i)
				found = true
			}
		}
		ok = ok && found
	}
	return k, ok
}

func (m *pkMat) observe(s nebula.VerifPkiSnap) pkObs {
	o := pkObs{st: &pkState{kkey: -1}, ok: true}
	var ok1, ok2 bool
	o.st.v1, ok1 = m.abstractCert(s.V1)
	o.st.v2, ok2 = m.abstractCert(s.V2)
	o.ok = ok1 && ok2
	if s.V1 != nil && s.V1.Version != cert.Version1 || s.V2 != nil && s.V2.Version != cert.Version2 {
		o.ok = false
	}
	for id, kp := range m.keys {
		if bytes.Equal(kp.priv, s.PrivateKey) {
			o.st.kkey = id
		}
	}
	if o.st.kkey < 0 {
		o.ok = false
	}
	for _, n := range s.Networks {
		found := false
		for i, p := range m.nets {
			if p == n {
				o.eff = append(o.eff, i)
				found = true
			}
		}
		o.ok = o.ok && found
	}
	if len(s.Addrs) != len(s.Networks) {
		o.ok = false
	}
	for i := range s.Addrs {
		if i < len(s.Networks) && s.Addrs[i] != s.Networks[i].Addr() {
			o.ok = false
		}
	}
	if s.Pool != nil {
		for fp := range s.Pool.CAs {
			found := false
			for id, a := range m.cas {
				if a.fp == fp {
					o.cas = append(o.cas, id)
					found = true
				}
			}
			o.ok = o.ok && found
		}
		sort.Ints(o.cas)
		for i, p := range m.peers {
			if s.Pool.IsBlocklisted(p.fp) {
				o.block = append(o.block, i)
			}
			err := s.Pool.VerifyCachedCertificate(m.now, p.cc)
			switch {
			case err == nil:
				o.status = append(o.status, 1)
			case errors.Is(err, cert.ErrBlockListed):
				o.status = append(o.status, 2)
			default:
				o.status = append(o.status, 3)
			}
		}
	} else {
		o.ok = false
	}
	return o
}

// ---- sampling abstract situations ---------------------------------------------------------------

func pkRandNets(c *hx.Ctx, first int) []int {
	// ascending list of 1..3 networks; first >= 0 forces the primary one
	var out []int
	lo := 0
	if first >= 0 {
		out = append(out, first)
		lo = first + 1
	}
	n := 1 + c.Intn(3)
	for i := lo; i < pkNets && len(out) < n; i++ {
		if c.Chance(0.45) {
			out = append(out, i)
		}
	}
	if len(out) == 0 {
		out = append(out, lo+c.Intn(pkNets-lo))
	}
	return out
}

func pkSampleOld(c *hx.Ctx) *pkState {
	cv := c.Intn(2)
	key := cv*16 + c.Intn(pkKeysPerCurve)
	s := &pkState{kkey: key}
	shape := c.Intn(3)
	n1 := pkRandNets(c, -1)
	if shape != 1 {
		s.v1 = &pkCrt{nets: n1, curve: cv, key: key}
	}
	if shape != 0 {
		n2 := n1
		if c.Chance(0.5) {
			n2 = pkRandNets(c, n1[0])
		}
		s.v2 = &pkCrt{nets: n2, curve: cv, key: key}
	}
	return s
}

// pkSampleCand draws new files, biased towards ones related to the state in use (so that every comparison the
// reload makes is exercised in both directions) and otherwise arbitrary.
func pkSampleCand(c *hx.Ctx, old *pkState) pkCand {
	var cd pkCand
	baseCurve := c.Intn(2)
	if old != nil && c.Chance(0.75) {
		baseCurve = pkStCurve(old)
	}
	cd.kcurve = baseCurve
	cd.kkey = baseCurve*16 + c.Intn(pkKeysPerCurve)
	if old != nil && c.Chance(0.3) && old.kkey/16 == baseCurve {
		cd.kkey = old.kkey
	}
	shape := c.Intn(10)
	has1, has2 := shape%3 != 1, shape%3 != 0
	if shape == 9 {
		has1, has2 = false, false
	}
	mk := func(like ...*pkCrt) *pkCrt {
		k := &pkCrt{curve: baseCurve, key: cd.kkey}
		if c.Chance(0.12) {
			k.curve = 1 - baseCurve
			k.key = k.curve*16 + c.Intn(pkKeysPerCurve)
		} else if c.Chance(0.12) {
			k.key = k.curve*16 + c.Intn(pkKeysPerCurve)
		}
		var src []*pkCrt
		for _, l := range like {
			if l != nil {
				src = append(src, l)
			}
		}
		switch {
		case len(src) > 0 && c.Chance(0.7):
			k.nets = append([]int{}, src[c.Intn(len(src))].nets...)
		case len(src) > 0 && c.Chance(0.5):
			k.nets = pkRandNets(c, src[0].nets[0])
		default:
			k.nets = pkRandNets(c, -1)
		}
		return k
	}
	var o1, o2 *pkCrt
	if old != nil {
		o1, o2 = old.v1, old.v2
	}
	if has1 {
		if c.Chance(0.8) {
			cd.v1 = mk(o1, o2)
		} else {
			cd.v1 = mk(o2, o1)
		}
	}
	if has2 {
		switch {
		case cd.v1 != nil && c.Chance(0.45):
			cd.v2 = mk(cd.v1)
		case c.Chance(0.8):
			cd.v2 = mk(o2, o1)
		default:
			cd.v2 = mk(o1, o2)
		}
		if cd.v1 != nil && c.Chance(0.6) { // share the key (and curve) of the v1 certificate
			cd.v2.curve, cd.v2.key = cd.v1.curve, cd.v1.key
		}
	}
	if !has1 && !has2 {
		cd.lerr = []int{pkLerrNoCert, pkLerrMissingFile}[c.Intn(2)]
	} else if c.Chance(0.15) {
		cd.lerr = 1 + c.Intn(pkLerrKinds-1)
		if cd.lerr == pkLerrNoCert {
			cd.lerr = pkLerrExpired
		}
	}
	return cd
}

func pkSampleCA(c *hx.Ctx) pkCA {
	var ca pkCA
	if c.Chance(0.3) {
		ca.kind = 1 + c.Intn(pkCaKinds-1)
	}
	// the authorities named in the bundle
	switch c.Intn(12) {
	case 11: // none at all
	case 0: // only expired ones
		ca.cas = []int{pkCAsPerCurve}
		if c.Chance(0.5) {
			ca.cas = append(ca.cas, 16+pkCAsPerCurve)
		}
	case 1: // valid and expired
		ca.cas = []int{c.Intn(pkCAsPerCurve), 16 + pkCAsPerCurve}
		if c.Chance(0.5) {
			ca.cas = append(ca.cas, 16+c.Intn(pkCAsPerCurve))
		}
	default:
		for cv := 0; cv < 2; cv++ {
			for i := 0; i < pkCAsPerCurve; i++ {
				if c.Chance(0.6) {
					ca.cas = append(ca.cas, cv*16+i)
				}
			}
		}
		if len(ca.cas) == 0 {
			ca.cas = []int{c.Intn(2)*16 + c.Intn(pkCAsPerCurve)}
		}
	}
	sort.Ints(ca.cas)
	for p := 0; p < pkPeers; p++ {
		if c.Chance(0.2) {
			ca.block = append(ca.block, p)
		}
	}
	return ca
}

func pkGoodCA(c *hx.Ctx) pkCA {
	for {
		ca := pkSampleCA(c)
		ca.kind = pkCaReadable
		for _, id := range ca.cas {
			if id%16 != pkCAsPerCurve {
				return ca
			}
		}
	}
}

type pkCaRow struct{ unread, valid, expired bool }

func pkCaFeatures(ca pkCA) pkCaRow {
	if ca.kind != pkCaReadable {
		return pkCaRow{unread: true}
	}
	var r pkCaRow
	for _, id := range ca.cas {
		if id%16 == pkCAsPerCurve {
			r.expired = true
		} else {
			r.valid = true
		}
	}
	return r
}

// ---- running one situation on the real code ---------------------------------------------------

const (
	pkKeep  = "PKeep"
	pkNew   = "PNew"
	pkOther = "POther"
)

// pkStart performs the initial load. nil, nil = refused.
func (m *pkMat) pkStart(c *hx.Ctx, cd pkCand, ca pkCA) (*nebula.VerifPki, string) {
	y := m.pkiYAML(c, cd, ca)
	p, err := nebula.VerifPkiNew(y)
	if err != nil {
		return nil, y
	}
	return p, y
}

// outcome of the certificate part of a (re)load, judged on the PKI's state before and after
func (m *pkMat) certOutcome(before *pkObs, beforePtr *nebula.CertState, after nebula.VerifPkiSnap, cd pkCand) string {
	o := m.observe(after)
	if !o.ok {
		if os.Getenv("VERIF_PKI_DEBUG") != "" {
			fmt.Fprintf(os.Stderr, "observe not ok: %+v st=%v\n", o, pkStDesc(o.st))
		}
		return pkOther
	}
	if beforePtr != nil && after.State == beforePtr {
		if before != nil && pkStateEq(before.st, o.st) && pkIntsEq(before.eff, o.eff) {
			return pkKeep
		}
		return pkOther
	}
	want := pkStateOf(cd)
	if pkStateEq(want, o.st) && pkIntsEq(o.eff, pkEff(cd.v1, cd.v2)) {
		return pkNew
	}
	if os.Getenv("VERIF_PKI_DEBUG") != "" {
		fmt.Fprintf(os.Stderr, "state after an accepted (re)load is not the described one: got %v eff %v, want %v\n", pkStDesc(o.st), o.eff, pkDesc(cd))
	}
	return pkOther
}

func pkDesc(cd pkCand) map[string]any {
	d := map[string]any{"key": cd.kkey, "key_curve": cd.kcurve, "load_error_kind": cd.lerr}
	if cd.v1 != nil {
		d["v1"] = map[string]any{"nets": cd.v1.nets, "curve": cd.v1.curve, "key": cd.v1.key}
	}
	if cd.v2 != nil {
		d["v2"] = map[string]any{"nets": cd.v2.nets, "curve": cd.v2.curve, "key": cd.v2.key}
	}
	return d
}
func pkStDesc(s *pkState) map[string]any {
	if s == nil {
		return nil
	}
	return pkDesc(pkCand{v1: s.v1, v2: s.v2, kkey: s.kkey, kcurve: s.kkey / 16})
}

// evalRow runs one concrete situation of a row on the real code and returns the outcome.
func (m *pkMat) evalRow(c *hx.Ctx, old *pkState, cd pkCand) string {
	ca := pkGoodCA(c)
	if old == nil {
		p, _ := m.pkStart(c, cd, ca)
		if p == nil {
			return pkKeep
		}
		return m.certOutcome(nil, nil, p.Snap(), cd)
	}
	p, y := m.pkStart(c, pkCand{v1: old.v1, v2: old.v2, kkey: old.kkey, kcurve: old.kkey / 16}, ca)
	if p == nil {
		panic("harness: a state satisfying the invariant did not load:\n" + y)
	}
	s0 := p.Snap()
	o0 := m.observe(s0)
	if !o0.ok || !pkStateEq(o0.st, old) {
		panic("harness: the loaded state is not the described one")
	}
	if err := p.Reload(m.pkiYAML(c, cd, pkGoodCA(c))); err != nil {
		panic(err)
	}
	return m.certOutcome(&o0, s0.State, p.Snap(), cd)
}

type pkSituation struct {
	old *pkState
	cd  pkCand
}

// pkCollect buckets sampled situations by row until every feasible row has k of them.
func pkCollect(c *hx.Ctx, k int) (map[pkRow][]pkSituation, []pkRow) {
	var rows []pkRow
	for _, r := range pkAllRows() {
		if pkFeasible(r) {
			rows = append(rows, r)
		}
	}
	got := map[pkRow][]pkSituation{}
	missing := len(rows)
	for tries := 0; missing > 0; tries++ {
		if tries > 6_000_000 {
			var miss []string
			for _, r := range rows {
				if len(got[r]) < k {
					miss = append(miss, fmt.Sprintf("%+v(%d)", r, len(got[r])))
				}
			}
			panic("harness: sampler does not reach rows: " + strings.Join(miss, " "))
		}
		var old *pkState
		if c.Intn(8) != 0 {
			old = pkSampleOld(c)
		}
		cd := pkSampleCand(c, old)
		r := pkFeatures(old, cd)
		if !pkFeasible(r) {
			panic(fmt.Sprintf("harness: sampled situation outside the feasible set: %+v", r))
		}
		if len(got[r]) < k {
			got[r] = append(got[r], pkSituation{old, cd})
			if len(got[r]) == k {
				missing--
			}
		}
	}
	return got, rows
}

// ---- gen_pkireload (T2) -----------------------------------------------------------------------

func genPkiReload(c *hx.Ctx) {
	m := pkNewMat(filepath.Join(c.Out, "pki_files"))
	defer os.RemoveAll(m.dir)
	const k = 3
	sits, rows := pkCollect(c, k)
	var sb strings.Builder
	sb.WriteString("(* GENERATED from /repo/pki.go by harness gen_pkireload (real NewPKIFromConfig / ReloadConfigString -> PKI.reload): do not edit *)\n")
	sb.WriteString("From Coq Require Import List NArith Bool.\nImport ListNotations.\nFrom NV Require Import lib.PkiReload_lib.\nOpen Scope N_scope.\n")
	fmt.Fprintf(&sb, "Definition tab_reload_situations_per_row : N := %d.\n", k)
	var items []string
	accepted := 0
	for _, r := range rows {
		out := ""
		for i, s := range sits[r] {
			o := m.evalRow(c, s.old, s.cd)
			if i == 0 {
				out = o
			} else if o != out {
				panic(fmt.Sprintf("gen_pkireload: situations of row %+v disagree (%s vs %s): the features are not all the reload reads; old=%v new=%v",
					r, out, o, pkStDesc(s.old), pkDesc(s.cd)))
			}
		}
		if out == pkNew {
			accepted++
		}
		items = append(items, hx.Tuple(r.lit(), out))
	}
	fmt.Fprintf(&sb, "(* %d feasible feature combinations, %d of them accepted *)\nDefinition tab_reload : list (prow * pout) := [\n %s].\n",
		len(rows), accepted, strings.Join(items, ";\n "))

	// the CA bundle: readable/unreadable x has a valid authority x has an expired one
	caRows := []pkCaRow{{true, false, false}, {false, true, false}, {false, true, true}, {false, false, true}, {false, false, false}}
	var caItems []string
	for _, r := range caRows {
		out := ""
		n := 0
		for tries := 0; n < 2*k; tries++ {
			if tries > 100000 {
				panic("gen_pkireload: CA sampler does not reach a row")
			}
			ca := pkSampleCA(c)
			if r.unread { // every unreadable kind in turn
				ca.kind = 1 + n%(pkCaKinds-1)
			}
			if pkCaFeatures(ca) != r {
				continue
			}
			o := m.evalCA(c, ca)
			if n == 0 {
				out = o
			} else if o != out {
				panic(fmt.Sprintf("gen_pkireload: CA situations of row %+v disagree (%s vs %s) on %+v", r, out, o, ca))
			}
			n++
		}
		caItems = append(caItems, hx.Tuple(hx.App("mkCaRow", hx.Bool(r.unread), hx.Bool(r.valid), hx.Bool(r.expired)), out))
	}
	fmt.Fprintf(&sb, "Definition tab_ca : list (carow * pout) := [\n %s].\n", strings.Join(caItems, ";\n "))
	fmt.Fprintf(&sb, "Definition ca_unreadable_kinds : N := %d.\n", pkCaKinds-1)
	c.WriteFile("Tab_PkiReload.v", sb.String())
}

// evalCA: a running PKI is reloaded with unchanged certificate files and the given CA bundle.
func (m *pkMat) evalCA(c *hx.Ctx, ca pkCA) string {
	old := pkSampleOld(c)
	cd := pkCand{v1: old.v1, v2: old.v2, kkey: old.kkey, kcurve: old.kkey / 16}
	ca0 := pkGoodCA(c)
	p, y := m.pkStart(c, cd, ca0)
	if p == nil {
		panic("harness: initial load failed:\n" + y)
	}
	s0 := p.Snap()
	o0 := m.observe(s0)
	if c.Chance(0.5) { // with or without a simultaneous (refused) certificate change
		cd = pkSampleCand(c, old)
	}
	if err := p.Reload(m.pkiYAML(c, cd, ca)); err != nil {
		panic(err)
	}
	s1 := p.Snap()
	o1 := m.observe(s1)
	if !o0.ok || !o1.ok {
		return pkOther
	}
	if s1.Pool == s0.Pool {
		if pkIntsEq(o0.cas, o1.cas) && pkIntsEq(o0.block, o1.block) && pkIntsEq(o0.status, o1.status) {
			return pkKeep
		}
		return pkOther
	}
	if pkIntsEq(o1.cas, ca.cas) && pkIntsEq(o1.block, ca.block) {
		return pkNew
	}
	return pkOther
}

// initial load with a bad CA bundle must fail as a whole (used by the correspondence sweep)

// ---- pkireload (T3) ---------------------------------------------------------------------------

func pkLitInts(xs []int) string {
	s := make([]string, len(xs))
	for i, x := range xs {
		s[i] = fmt.Sprint(x)
	}
	return hx.List(s)
}
func pkLitCrt(k *pkCrt) string {
	if k == nil {
		return hx.None()
	}
	return hx.Some(hx.App("mkCrt", pkLitInts(k.nets), fmt.Sprint(k.curve), fmt.Sprint(k.key)))
}
func pkLitCand(cd pkCand) string {
	return hx.App("mkCand", pkLitCrt(cd.v1), pkLitCrt(cd.v2), fmt.Sprint(cd.kcurve), fmt.Sprint(cd.kkey), fmt.Sprint(cd.lerr))
}
func pkLitCA(ca pkCA) string {
	var cas []string
	for _, id := range ca.cas {
		cas = append(cas, hx.Tuple(fmt.Sprint(id), hx.Bool(id%16 == pkCAsPerCurve)))
	}
	return hx.App("mkCa", fmt.Sprint(ca.kind), hx.List(cas), pkLitInts(ca.block))
}
func pkLitObs(o pkObs) string {
	var cas []string
	for _, id := range o.cas {
		cas = append(cas, hx.Tuple(fmt.Sprint(id), hx.Bool(id%16 == pkCAsPerCurve)))
	}
	key := o.st.kkey
	if key < 0 {
		key = 9999
	}
	return hx.App("mkObs", hx.App("mkSt", pkLitCrt(o.st.v1), pkLitCrt(o.st.v2), fmt.Sprint(key)), pkLitInts(o.eff),
		hx.App("mkPool", hx.List(cas), pkLitInts(o.block)), pkLitInts(o.status), hx.Bool(o.ok))
}

type pkStep struct {
	cd        pkCand
	ca        pkCA
	csChanged bool
	caChanged bool
	obs       pkObs
}

// pkHistory runs one history on the real code.
func (m *pkMat) pkHistory(c *hx.Ctx, init pkCand, initCA pkCA, next func(i int, cur *pkState) (pkCand, pkCA, bool)) (started bool, o0 pkObs, steps []pkStep) {
	p, _ := m.pkStart(c, init, initCA)
	if p == nil {
		return false, pkObs{st: &pkState{}}, nil
	}
	prev := p.Snap()
	o0 = m.observe(prev)
	cur := o0.st
	for i := 0; ; i++ {
		cd, ca, more := next(i, cur)
		if !more {
			break
		}
		if err := p.Reload(m.pkiYAML(c, cd, ca)); err != nil {
			panic(err)
		}
		s := p.Snap()
		o := m.observe(s)
		steps = append(steps, pkStep{cd: cd, ca: ca, csChanged: s.State != prev.State, caChanged: s.Pool != prev.Pool, obs: o})
		prev, cur = s, o.st
	}
	return true, o0, steps
}

func runPkiReload(c *hx.Ctx) {
	m := pkNewMat(filepath.Join(c.Out, "pki_files"))
	defer os.RemoveAll(m.dir)
	cw := c.NewCaseWriter("From NV Require Import lib.PkiReload_lib model.PkiReload corr.PkiReload_corr.", "PkiReload_corr.case", "PkiReload_corr.check_case", 150)
	var peers []string
	for _, p := range m.peers {
		peers = append(peers, hx.Tuple(fmt.Sprint(p.issuer), fmt.Sprint(len(peers))))
	}
	peersLit := hx.List(peers)
	emit := func(kind string, init pkCand, initCA pkCA, started bool, o0 pkObs, steps []pkStep) {
		var sl []string
		var sd []any
		acc := 0
		for _, s := range steps {
			sl = append(sl, hx.Tuple(pkLitCand(s.cd), pkLitCA(s.ca), hx.Bool(s.csChanged), hx.Bool(s.caChanged), pkLitObs(s.obs)))
			sd = append(sd, map[string]any{"new": pkDesc(s.cd), "ca_kind": s.ca.kind, "ca": s.ca.cas, "blocklist": s.ca.block,
				"accepted": s.csChanged, "ca_replaced": s.caChanged, "state_after": pkStDesc(s.obs.st), "networks_after": s.obs.eff, "peer_status": s.obs.status})
			if s.csChanged {
				acc++
			}
		}
		cw.Add(hx.App("PkiReload_corr.CSeq", pkLitCand(init), pkLitCA(initCA), hx.Bool(started), peersLit, pkLitObs(o0), hx.List(sl)),
			kind, started && acc > 0, map[string]any{"initial": pkDesc(init), "initial_ca_kind": initCA.kind, "started": started,
				"state0": pkStDesc(o0.st), "steps": sd})
	}
	// sweep: one fresh situation per feasible feature combination, as a one-step history (initial rows: the load itself)
	sits, rows := pkCollect(c, 1)
	for _, r := range rows {
		s := sits[r][0]
		if s.old == nil {
			ca := pkGoodCA(c)
			started, o0, _ := m.pkHistory(c, s.cd, ca, func(int, *pkState) (pkCand, pkCA, bool) { return pkCand{}, pkCA{}, false })
			emit("sweep-initial", s.cd, ca, started, o0, nil)
			continue
		}
		init := pkCand{v1: s.old.v1, v2: s.old.v2, kkey: s.old.kkey, kcurve: s.old.kkey / 16}
		ca := pkGoodCA(c)
		started, o0, steps := m.pkHistory(c, init, ca, func(i int, _ *pkState) (pkCand, pkCA, bool) { return s.cd, pkSampleCA(c), i == 0 })
		emit("sweep-reload", init, ca, started, o0, steps)
	}
	// boundary corpus: every way a certificate reload is refused x every kind of trust-store change carried by the
	// SAME reload (the two halves of PKI.reload are independent: the new blocklist / bundle must be in force afterwards)
	allCAs := pkCA{}
	for cv := 0; cv < 2; cv++ {
		for i := 0; i < pkCAsPerCurve; i++ {
			allCAs.cas = append(allCAs.cas, cv*16+i)
		}
	}
	without := func(drop ...int) []int {
		var out []int
		for _, id := range allCAs.cas {
			keep := true
			for _, d := range drop {
				keep = keep && id != d
			}
			if keep {
				out = append(out, id)
			}
		}
		return out
	}
	storeChanges := []pkCA{
		{cas: allCAs.cas, block: []int{0}},                 // one peer newly blocklisted
		{cas: allCAs.cas, block: []int{1, 4}},              // two
		{cas: without(m.peers[0].issuer)},                  // the authority of peer 0 removed
		{cas: without(m.peers[1].issuer), block: []int{2}}, // both kinds at once
		{cas: []int{m.peers[5].issuer}},                    // every authority but one removed
		{cas: allCAs.cas, block: []int{0, 1, 2, 3, 4, 5}},  // everybody blocklisted
	}
	for shape := 0; shape < 3; shape++ {
		var old *pkState
		for old == nil || (shape == 0) != (old.v2 == nil) || (shape == 1) != (old.v1 == nil) {
			old = pkSampleOld(c)
		}
		init := pkCand{v1: old.v1, v2: old.v2, kkey: old.kkey, kcurve: old.kkey / 16}
		cp := func(k *pkCrt) *pkCrt {
			if k == nil {
				return nil
			}
			return &pkCrt{nets: append([]int{}, k.nets...), curve: k.curve, key: k.key}
		}
		same := func() pkCand { return pkCand{v1: cp(old.v1), v2: cp(old.v2), kkey: old.kkey, kcurve: old.kkey / 16} }
		otherNets := func(n []int) []int {
			for {
				r := pkRandNets(c, -1)
				if !pkIntsEq(r, n) {
					return r
				}
			}
		}
		var refused []pkCand
		{ // networks changed
			cd := same()
			if cd.v1 != nil {
				cd.v1.nets = otherNets(cd.v1.nets)
			}
			if cd.v2 != nil {
				cd.v2.nets = otherNets(cd.v2.nets)
			}
			refused = append(refused, cd)
		}
		{ // curve changed (certificates and key)
			cd := same()
			cv := 1 - old.kkey/16
			cd.kcurve, cd.kkey = cv, cv*16+c.Intn(pkKeysPerCurve)
			for _, k := range []*pkCrt{cd.v1, cd.v2} {
				if k != nil {
					k.curve, k.key = cv, cd.kkey
				}
			}
			refused = append(refused, cd)
		}
		{ // the key does not pair with the certificates
			cd := same()
			cd.kkey = (old.kkey/16)*16 + (old.kkey%16+1)%pkKeysPerCurve
			refused = append(refused, cd)
		}
		if old.v1 != nil && old.v2 != nil { // v1 and v2 disagree on the primary network
			cd := same()
			cd.v2.nets = []int{(old.v1.nets[0] + 1) % pkNets}
			refused = append(refused, cd)
		}
		if old.v2 != nil { // v2 dropped without an equivalent v1
			cd := same()
			cd.v2 = nil
			cd.v1 = &pkCrt{nets: otherNets(old.v2.nets), curve: old.v2.curve, key: old.v2.key}
			refused = append(refused, cd)
		}
		if old.v2 == nil { // v1-only -> v2-only with other networks
			cd := same()
			cd.v1 = nil
			cd.v2 = &pkCrt{nets: otherNets(old.v1.nets), curve: old.v1.curve, key: old.v1.key}
			refused = append(refused, cd)
		}
		for k := 1; k < pkLerrKinds; k++ { // files that do not load, otherwise unchanged
			cd := same()
			cd.lerr = k
			if k == pkLerrNoCert {
				cd.v1, cd.v2 = nil, nil
			}
			refused = append(refused, cd)
		}
		for _, cd := range refused {
			if pkRule(pkFeatures(old, cd)) {
				panic("harness: a certificate change meant to be refused is acceptable by the rule")
			}
			for _, sc := range storeChanges {
				cd, sc := cd, sc
				started, o0, steps := m.pkHistory(c, init, allCAs, func(i int, _ *pkState) (pkCand, pkCA, bool) { return cd, sc, i == 0 })
				emit("sweep-refused-x-store", init, allCAs, started, o0, steps)
			}
		}
	}
	// initial loads with every kind of CA bundle
	for k := 0; k < 2*pkCaKinds; k++ {
		old := pkSampleOld(c)
		init := pkCand{v1: old.v1, v2: old.v2, kkey: old.kkey, kcurve: old.kkey / 16}
		ca := pkSampleCA(c)
		ca.kind = k % pkCaKinds
		started, o0, _ := m.pkHistory(c, init, ca, func(int, *pkState) (pkCand, pkCA, bool) { return pkCand{}, pkCA{}, false })
		emit("sweep-initial-ca", init, ca, started, o0, nil)
	}
	// random histories
	for i := 0; i < c.N; i++ {
		var init pkCand
		if c.Chance(0.9) {
			old := pkSampleOld(c)
			init = pkCand{v1: old.v1, v2: old.v2, kkey: old.kkey, kcurve: old.kkey / 16}
		} else {
			init = pkSampleCand(c, nil)
		}
		ca := pkGoodCA(c)
		if c.Chance(0.1) {
			ca = pkSampleCA(c)
		}
		n := 1 + c.Intn(12)
		started, o0, steps := m.pkHistory(c, init, ca, func(i int, cur *pkState) (pkCand, pkCA, bool) {
			return pkSampleCand(c, cur), pkSampleCA(c), i < n
		})
		emit("history", init, ca, started, o0, steps)
	}
	cw.Close("sweep: one fresh concrete situation per feasible feature combination of the (re)load + every way a certificate reload is refused " +
		"(changed networks, changed curve, key mismatch, v1/v2 disagree, v2 dropped without equivalent, v1-only -> other v2-only, 9 kinds of files that do not load) " +
		"x 6 trust-store changes in the same reload (new blocklist entries, authorities removed, both) + every CA bundle kind at start-up; " +
		"then random reload histories (1..12 reloads, new files related to the state in use with p~0.7, 15% defective files, " +
		"30% unreadable CA bundles, random blocklists) through one real PKI; non-trivial = started and at least one reload accepted; distinct by literal")
}

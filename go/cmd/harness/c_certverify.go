//go:build comp_all || comp_certverify || comp_certsign

package main

// certverify (C01): CAPool.VerifyCertificate / VerifyCachedCertificate / AddCA on real pools and real signed
// certificates, translated field by field (plus the real fingerprints and the real CheckSignature verdict)
// into model/Cert.v records. The helpers in this file are shared with certsign (C04).

import (
	"crypto/ecdsa"
	"crypto/ed25519"
	"crypto/elliptic"
	"crypto/sha256"
	"encoding/asn1"
	"errors"
	"fmt"
	"math/big"
	"net/netip"
	"sort"
	"strings"
	"time"

	"github.com/slackhq/nebula/cert"
	"verifharness/hx"
)

func init() {
	hx.Register("certverify", runCertVerify)
}

// ---- keys and deterministic signing ---------------------------------------------------------------

type cvKey struct {
	curve cert.Curve
	priv  []byte   // ed25519: 64 bytes; P256: raw 32-byte scalar (what TBSCertificate.Sign expects)
	pub   []byte   // ed25519: 32 bytes; P256: 65-byte uncompressed point
	d     *big.Int // P256 only
}

func cvNewKey(c *hx.Ctx, curve cert.Curve) *cvKey {
	if curve == cert.Curve_CURVE25519 {
		priv := ed25519.NewKeyFromSeed(c.RandBytes(32))
		return &cvKey{curve: curve, priv: priv, pub: []byte(priv.Public().(ed25519.PublicKey))}
	}
	n := elliptic.P256().Params().N
	for {
		d := new(big.Int).SetBytes(c.RandBytes(32))
		if d.Sign() <= 0 || d.Cmp(n) >= 0 {
			continue
		}
		raw := d.FillBytes(make([]byte, 32))
		pk, err := ecdsa.ParseRawPrivateKey(elliptic.P256(), raw)
		if err != nil {
			continue
		}
		e, err := pk.ECDH()
		if err != nil {
			continue
		}
		return &cvKey{curve: curve, priv: raw, pub: e.PublicKey().Bytes(), d: d}
	}
}

// signer returns a cert.SignerLambda for this key whose output depends only on the harness PRNG (textbook ECDSA
// with the nonce drawn from c.Rng; ed25519 is deterministic anyway), so that a seed reproduces the same
// certificates and fingerprints.
func (k *cvKey) signer(c *hx.Ctx) cert.SignerLambda {
	if k.curve == cert.Curve_CURVE25519 {
		return func(b []byte) ([]byte, error) { return ed25519.Sign(ed25519.PrivateKey(k.priv), b), nil }
	}
	return func(b []byte) ([]byte, error) {
		h := sha256.Sum256(b)
		cv := elliptic.P256()
		n := cv.Params().N
		z := new(big.Int).SetBytes(h[:])
		for {
			kk := new(big.Int).SetBytes(c.RandBytes(32))
			if kk.Sign() <= 0 || kk.Cmp(n) >= 0 {
				continue
			}
			x, _ := cv.ScalarBaseMult(kk.Bytes())
			r := new(big.Int).Mod(x, n)
			if r.Sign() == 0 {
				continue
			}
			s := new(big.Int).Mul(r, k.d)
			s.Add(s, z)
			s.Mul(s, new(big.Int).ModInverse(kk, n))
			s.Mod(s, n)
			if s.Sign() == 0 {
				continue
			}
			return asn1.Marshal(struct{ R, S *big.Int }{r, s})
		}
	}
}

// ---- Gallina literals for certificates -------------------------------------------------------------

func cvBig(x *big.Int) string { return x.String() }

func cvTimeNs(t time.Time) *big.Int {
	v := new(big.Int).Mul(big.NewInt(t.Unix()), big.NewInt(1000000000))
	return v.Add(v, big.NewInt(int64(t.Nanosecond())))
}

func cvZ(x *big.Int) string {
	if x.Sign() < 0 {
		return "(" + x.String() + ")%Z"
	}
	return x.String() + "%Z"
}

func cvTimeLit(t time.Time) string { return cvZ(cvTimeNs(t)) }

func cvPfxLit(p netip.Prefix) string {
	a := p.Addr()
	if !a.IsValid() {
		return "(mkPfx 4 0 0 false)"
	}
	fam := 6
	var v *big.Int
	if a.Is4() {
		fam = 4
		b := a.As4()
		v = new(big.Int).SetBytes(b[:])
	} else {
		b := a.As16()
		v = new(big.Int).SetBytes(b[:])
	}
	if !p.IsValid() {
		return fmt.Sprintf("(mkPfx %d %s 0 false)", fam, v.String())
	}
	return fmt.Sprintf("(mkPfx %d %s %d true)", fam, v.String(), p.Bits())
}

func cvPfxList(ps []netip.Prefix) string {
	s := make([]string, len(ps))
	for i, p := range ps {
		s[i] = cvPfxLit(p)
	}
	return hx.List(s)
}

func cvStrList(ss []string) string {
	s := make([]string, len(ss))
	for i, x := range ss {
		s[i] = hx.Str(x)
	}
	return hx.List(s)
}

// cvNames maps well-known strings (fingerprints of the pre-built CAs) to the Gallina name that denotes them,
// which keeps the case files small.
type cvNames map[string]string

func (n cvNames) str(s string) string {
	if n != nil {
		if v, ok := n[s]; ok {
			return v
		}
	}
	return hx.Str(s)
}

// cvTwinFp computes the fingerprint of the OTHER S form of a P-256 certificate without using the code under
// test for it (no p256.Swap / Normalize / CalculateAlternateFingerprint): the ASN.1 ECDSA signature is parsed
// with encoding/asn1 + math/big, s is replaced by n - s (n = the P-256 group order), re-encoded, put on a copy
// of the certificate, and that copy's Fingerprint() is the twin. "" when the certificate is not P-256 or its
// signature is not a valid (r, s) pair with 0 < s < n (such a certificate never passes CheckSignature).
func cvTwinFp(c cert.Certificate) string {
	if c.Curve() != cert.Curve_P256 {
		return ""
	}
	n := elliptic.P256().Params().N
	var v struct{ R, S *big.Int }
	rest, err := asn1.Unmarshal(c.Signature(), &v)
	if err != nil || len(rest) != 0 || v.R == nil || v.S == nil || v.R.Sign() <= 0 || v.S.Sign() <= 0 || v.S.Cmp(n) >= 0 {
		return ""
	}
	sig2, err := asn1.Marshal(struct{ R, S *big.Int }{v.R, new(big.Int).Sub(n, v.S)})
	if err != nil {
		panic(err)
	}
	same, err := cert.VerifWithSignature(c, c.Signature())
	if err != nil {
		panic(err)
	}
	f0, _ := c.Fingerprint()
	if f1, _ := same.Fingerprint(); f1 != f0 {
		panic("copy of a certificate with the same signature has another fingerprint")
	}
	tc, err := cert.VerifWithSignature(c, sig2)
	if err != nil {
		panic(err)
	}
	fp, err := tc.Fingerprint()
	if err != nil {
		panic(err)
	}
	if fp == f0 {
		panic("the two S forms have the same fingerprint")
	}
	return fp
}

// cvCertLit translates a real certificate into a model/Cert.v record through its public interface. fp is what
// the caller wants in c_fp ("" = recompute with Fingerprint()).
func cvCertLit(c cert.Certificate, fp string, names cvNames) string {
	if fp == "" {
		var err error
		fp, err = c.Fingerprint()
		if err != nil {
			panic(err)
		}
	}
	fp2 := cvTwinFp(c) // computed independently of the code under test
	return hx.App("mkCert", hx.N(uint64(c.Version())), hx.N(uint64(c.Curve())), hx.Str(c.Name()),
		cvPfxList(c.Networks()), cvPfxList(c.UnsafeNetworks()), cvStrList(c.Groups()), hx.Bool(c.IsCA()),
		cvTimeLit(c.NotBefore()), cvTimeLit(c.NotAfter()), names.str(c.Issuer()), hx.Bytes(c.PublicKey()),
		names.str(fp), names.str(fp2))
}

func cvCertJSON(c cert.Certificate) map[string]any {
	nets := []string{}
	for _, p := range c.Networks() {
		nets = append(nets, p.String())
	}
	un := []string{}
	for _, p := range c.UnsafeNetworks() {
		un = append(un, p.String())
	}
	fp, _ := c.Fingerprint()
	return map[string]any{"v": int(c.Version()), "curve": int(c.Curve()), "name": c.Name(), "networks": nets, "unsafe": un,
		"groups": c.Groups(), "isCA": c.IsCA(), "nb": cvTimeNs(c.NotBefore()).String(), "na": cvTimeNs(c.NotAfter()).String(),
		"issuer": c.Issuer(), "fp": fp}
}

// ---- the CA universe -------------------------------------------------------------------------------

var cvT0 = time.Unix(1700000000, 0)

const cvYear = 365 * 24 * time.Hour

type cvCA struct {
	name string // Gallina name
	kind string
	c    cert.Certificate
	key  *cvKey
	fp   string
}

type cvUniverse struct {
	cas      []*cvCA
	names    cvNames
	preamble string
	leafPub  map[cert.Curve][][]byte
	wrongKey map[cert.Curve]*cvKey
}

func cvPfx(s string) netip.Prefix { return netip.MustParsePrefix(s) }

func cvRoundTrip(c cert.Certificate) cert.Certificate {
	pem, err := c.MarshalPEM()
	if err != nil {
		panic(err)
	}
	c2, _, err := cert.UnmarshalCertificateFromPEM(pem)
	if err != nil {
		panic(fmt.Sprintf("certificate does not survive PEM round trip: %v\n%s", err, c.String()))
	}
	return c2
}

func cvBuildUniverse(c *hx.Ctx) *cvUniverse {
	u := &cvUniverse{names: cvNames{}, leafPub: map[cert.Curve][][]byte{}, wrongKey: map[cert.Curve]*cvKey{}}
	type spec struct {
		kind         string
		groups       []string
		nets4, nets6 []string
		un4, un6     []string
		nb, na       time.Time
		inMemory     bool
		v2only       bool // the constraint needs IPv6 entries
	}
	long := cvT0.Add(100 * cvYear)
	specs := []spec{
		{kind: "open", nb: cvT0, na: long},
		{kind: "groups", groups: []string{"a", "b", "ops"}, nb: cvT0, na: long},
		{kind: "nets", nets4: []string{"10.0.0.0/8", "192.168.7.9/16"}, nets6: []string{"fd00::/8"}, nb: cvT0, na: long},
		{kind: "unsafe", un4: []string{"172.16.0.0/12"}, un6: []string{"2001:db8::/32"}, nb: cvT0, na: long},
		{kind: "full", groups: []string{"a", "web"}, nets4: []string{"10.42.0.0/16"}, nets6: []string{"fd42:1::/64"},
			un4: []string{"10.42.0.0/16", "192.0.2.0/24"}, nb: cvT0.Add(24 * time.Hour), na: cvT0.Add(40 * cvYear)},
		{kind: "expired", nb: cvT0.Add(-20 * cvYear), na: cvT0.Add(-10 * cvYear)},
		{kind: "subsec", groups: []string{"a"}, nb: cvT0.Add(250 * time.Millisecond), na: long.Add(750 * time.Millisecond), inMemory: true},
		// zero-length prefixes: a /0 covers its own address family only (a CA network may not be the unspecified
		// address, so the /0 network constraints are written on a non-zero address)
		{kind: "un0v4", un4: []string{"0.0.0.0/0"}, nb: cvT0, na: long},
		{kind: "un0v6", un6: []string{"::/0"}, nb: cvT0, na: long, v2only: true},
		{kind: "un0both", un4: []string{"0.0.0.0/0"}, un6: []string{"::/0"}, nb: cvT0, na: long, v2only: true},
		{kind: "un0v4n6", un4: []string{"0.0.0.0/0"}, un6: []string{"2001:db8::/32"}, nb: cvT0, na: long, v2only: true},
		{kind: "un0v6n4", un4: []string{"172.16.0.0/12"}, un6: []string{"::/0"}, nb: cvT0, na: long, v2only: true},
		{kind: "net0v4", nets4: []string{"10.0.0.0/0"}, nb: cvT0, na: long},
		{kind: "net0v6", nets6: []string{"fd00::/0"}, nb: cvT0, na: long, v2only: true},
		{kind: "net0both", nets4: []string{"10.0.0.0/0"}, nets6: []string{"fd00::/0"}, nb: cvT0, na: long, v2only: true},
		{kind: "net0v4n6", nets4: []string{"10.0.0.0/0"}, nets6: []string{"fd42:1::/64"}, nb: cvT0, na: long, v2only: true},
		{kind: "net0v6n4", nets4: []string{"10.42.0.0/16"}, nets6: []string{"fd00::/0"}, nb: cvT0, na: long, v2only: true},
	}
	idx := 0
	for _, curve := range []cert.Curve{cert.Curve_CURVE25519, cert.Curve_P256} {
		for _, ver := range []cert.Version{cert.Version1, cert.Version2} {
			for _, sp := range specs {
				if sp.v2only && ver != cert.Version2 {
					continue
				}
				key := cvNewKey(c, curve)
				t := &cert.TBSCertificate{Version: ver, Name: fmt.Sprintf("ca-%s-%d-v%d", sp.kind, curve, ver), Groups: sp.groups,
					IsCA: true, NotBefore: sp.nb, NotAfter: sp.na, PublicKey: key.pub, Curve: curve}
				for _, s := range sp.nets4 {
					t.Networks = append(t.Networks, cvPfx(s))
				}
				for _, s := range sp.un4 {
					t.UnsafeNetworks = append(t.UnsafeNetworks, cvPfx(s))
				}
				if ver == cert.Version2 {
					for _, s := range sp.nets6 {
						t.Networks = append(t.Networks, cvPfx(s))
					}
					for _, s := range sp.un6 {
						t.UnsafeNetworks = append(t.UnsafeNetworks, cvPfx(s))
					}
				}
				cc, err := t.SignWith(nil, curve, key.signer(c))
				if err != nil {
					panic(fmt.Sprintf("building CA %s: %v", t.Name, err))
				}
				if !sp.inMemory {
					cc = cvRoundTrip(cc)
				}
				fp, err := cc.Fingerprint()
				if err != nil {
					panic(err)
				}
				ca := &cvCA{name: fmt.Sprintf("ca_%d", idx), kind: fmt.Sprintf("%s-c%d-v%d", sp.kind, curve, ver), c: cc, key: key, fp: fp}
				idx++
				u.cas = append(u.cas, ca)
			}
		}
		for i := 0; i < 3; i++ {
			u.leafPub[curve] = append(u.leafPub[curve], cvNewKey(c, curve).pub)
		}
		u.wrongKey[curve] = cvNewKey(c, curve)
	}
	var sb strings.Builder
	for _, ca := range u.cas {
		fmt.Fprintf(&sb, "Definition %s : cert := %s.\n", ca.name, cvCertLit(ca.c, "", nil))
		u.names[ca.fp] = "(c_fp " + ca.name + ")"
	}
	u.preamble = sb.String()
	return u
}

// ---- leaf construction -----------------------------------------------------------------------------

const (
	cvMInside = iota
	cvMEdge
	cvMOutWider
	cvMOutAdjacent
	cvMOutFamily
	cvMNone
	cvMFree
)

// cvPick builds one prefix relative to the CA prefix m according to mode.
func cvPick(c *hx.Ctx, m netip.Prefix, mode int) netip.Prefix {
	l := m.Addr().BitLen()
	var raw []byte
	if m.Addr().Is4() {
		b := m.Addr().As4()
		raw = b[:]
	} else {
		b := m.Addr().As16()
		raw = b[:]
	}
	v := new(big.Int).SetBytes(raw)
	one := big.NewInt(1)
	mk := func(v *big.Int, bits int) netip.Prefix {
		b := v.FillBytes(make([]byte, l/8))
		a, _ := netip.AddrFromSlice(b)
		return netip.PrefixFrom(a, bits)
	}
	host := l - m.Bits()
	hostMask := new(big.Int).Sub(new(big.Int).Lsh(one, uint(host)), one)
	base := new(big.Int).AndNot(v, hostMask)
	rnd := func() *big.Int {
		r := new(big.Int).SetBytes(c.RandBytes(l / 8))
		r.And(r, hostMask)
		return r
	}
	switch mode {
	case cvMEdge:
		switch c.Intn(3) {
		case 0:
			return m // the CA's own prefix, unmasked as written
		case 1:
			x := new(big.Int).Or(base, hostMask) // last address of the range, same length
			return mk(x, m.Bits())
		default:
			x := new(big.Int).Set(base)
			if x.Sign() == 0 {
				x.Or(x, one)
			}
			return mk(x, l) // first address as a host route
		}
	case cvMOutWider:
		if m.Bits() == 0 {
			return mk(new(big.Int).Or(base, one), 0)
		}
		x := new(big.Int).Or(base, rnd())
		if x.Sign() == 0 {
			x.Or(x, one)
		}
		return mk(x, m.Bits()-1-c.Intn(m.Bits()))
	case cvMOutAdjacent:
		if m.Bits() == 0 {
			return m
		}
		x := new(big.Int).Or(base, rnd())
		x.Xor(x, new(big.Int).Lsh(one, uint(host+c.Intn(m.Bits())))) // flip one bit of the network part
		if x.Sign() == 0 {
			x.Or(x, one)
		}
		return mk(x, m.Bits()+c.Intn(host+1))
	default: // inside
		x := new(big.Int).Or(base, rnd())
		if x.Sign() == 0 {
			x.Or(x, one)
		}
		return mk(x, m.Bits()+c.Intn(host+1))
	}
}

func cvFreePrefix(c *hx.Ctx, v6 bool) netip.Prefix {
	if v6 {
		b := c.RandBytes(16)
		b[0] = 0xfd
		a, _ := netip.AddrFromSlice(b)
		return netip.PrefixFrom(a, c.Intn(129))
	}
	b := c.RandBytes(4)
	if b[0] == 0 {
		b[0] = 10
	}
	a, _ := netip.AddrFromSlice(b)
	return netip.PrefixFrom(a, c.Intn(33))
}

// cvNets produces the leaf's list relative to the CA's list.
func cvNets(c *hx.Ctx, caNets []netip.Prefix, mode int, allowV6 bool, atLeastOne bool) []netip.Prefix {
	var usable []netip.Prefix
	for _, m := range caNets {
		if allowV6 || m.Addr().Is4() {
			usable = append(usable, m)
		}
	}
	if mode == cvMNone && !atLeastOne {
		return nil
	}
	if len(usable) == 0 || mode == cvMFree || mode == cvMNone {
		n := 1 + c.Intn(2)
		var out []netip.Prefix
		for i := 0; i < n; i++ {
			out = append(out, cvFreePrefix(c, allowV6 && c.Chance(0.3)))
		}
		return out
	}
	if mode == cvMOutFamily {
		if !allowV6 {
			mode = cvMOutAdjacent
		} else {
			// a family the CA does not list at all (if it lists both, fall back to an adjacent block)
			has4, has6 := false, false
			for _, m := range caNets {
				if m.Addr().Is4() {
					has4 = true
				} else {
					has6 = true
				}
			}
			if has4 && !has6 {
				return []netip.Prefix{cvFreePrefix(c, true)}
			}
			if has6 && !has4 {
				return []netip.Prefix{cvFreePrefix(c, false)}
			}
			mode = cvMOutAdjacent
		}
	}
	n := 1 + c.Intn(3)
	var out []netip.Prefix
	bad := c.Intn(n)          // for the "outside" modes only one entry is outside, the rest inside
	var narrow []netip.Prefix // a /0 has nothing outside it in its own family
	for _, m := range usable {
		if m.Bits() > 0 {
			narrow = append(narrow, m)
		}
	}
	for i := 0; i < n; i++ {
		m := usable[c.Intn(len(usable))]
		md := cvMInside
		if mode == cvMEdge || ((mode == cvMOutWider || mode == cvMOutAdjacent) && i == bad) {
			md = mode
			if mode != cvMEdge && len(narrow) > 0 {
				m = narrow[c.Intn(len(narrow))]
			}
		}
		out = append(out, cvPick(c, m, md))
	}
	return out
}

type cvLeafOpt struct {
	version  cert.Version
	curve    cert.Curve // curve written into the certificate
	groups   int        // cvMInside | cvMEdge(=all CA groups) | cvMOutAdjacent(=one foreign group) | cvMNone
	nets     int
	unsafe   int
	window   int // 0 inside, 1 edge, 2 starts before CA, 3 ends after CA, 4 short, 5 instant
	signKey  *cvKey
	sigForm  int
	isCA     bool
	inMemory bool
	issuer   string
}

func cvLeafTBS(c *hx.Ctx, u *cvUniverse, ca *cvCA, o cvLeafOpt) *cert.TBSCertificate {
	allowV6 := o.version == cert.Version2
	t := &cert.TBSCertificate{Version: o.version, Curve: o.curve, IsCA: o.isCA}
	names := []string{"host", "lighthouse-1", "a", strings.Repeat("n", 253), "db.internal.example", "h\xc3\xa9"}
	t.Name = names[c.Intn(len(names))]
	pubs := u.leafPub[o.curve]
	if len(pubs) == 0 {
		pubs = u.leafPub[cert.Curve_CURVE25519]
	}
	t.PublicKey = pubs[c.Intn(len(pubs))]
	// groups
	cg := ca.c.Groups()
	switch {
	case o.groups == cvMNone:
	case len(cg) == 0 || o.groups == cvMFree:
		for i, n := 0, c.Intn(4); i < n; i++ {
			t.Groups = append(t.Groups, []string{"a", "b", "ops", "web", "x", "group-with-a-long-name"}[c.Intn(6)])
		}
	case o.groups == cvMEdge:
		t.Groups = append([]string{}, cg...)
	default:
		for _, g := range cg {
			if c.Chance(0.5) {
				t.Groups = append(t.Groups, g)
			}
		}
		if o.groups == cvMOutAdjacent {
			foreign := []string{"root", "A", "a ", "op", "opsx"}[c.Intn(5)]
			pos := c.Intn(len(t.Groups) + 1)
			t.Groups = append(t.Groups[:pos], append([]string{foreign}, t.Groups[pos:]...)...)
		}
	}
	t.Networks = cvNets(c, ca.c.Networks(), o.nets, allowV6, !o.isCA)
	t.UnsafeNetworks = cvNets(c, ca.c.UnsafeNetworks(), o.unsafe, allowV6, false)
	if !o.isCA && len(ca.c.Networks()) == 0 { // v2 wants an address of the family of every unsafe network
		has := map[bool]bool{}
		for _, p := range t.Networks {
			has[p.Addr().Is4()] = true
		}
		for _, p := range t.UnsafeNetworks {
			if is4 := p.Addr().Is4(); !has[is4] && (is4 || allowV6) {
				t.Networks = append(t.Networks, cvFreePrefix(c, !is4))
				has[is4] = true
			}
		}
	}
	// window
	cnb, cna := ca.c.NotBefore(), ca.c.NotAfter()
	step := time.Second
	if o.inMemory {
		step = time.Nanosecond
	}
	span := cna.Sub(cnb)
	if span < 4*time.Second {
		span = 4 * time.Second
	}
	off := func() time.Duration {
		return time.Duration(c.Rng.Int64N(int64(span/2-time.Second))) / time.Second * time.Second
	}
	switch o.window {
	case 1:
		t.NotBefore, t.NotAfter = cnb, cna
	case 2:
		t.NotBefore, t.NotAfter = cnb.Add(-step), cnb.Add(off()+time.Hour)
	case 3:
		t.NotBefore, t.NotAfter = cna.Add(-off()-time.Hour), cna.Add(step)
	case 4:
		s := cnb.Add(off())
		t.NotBefore, t.NotAfter = s, s.Add(time.Duration(1+c.Intn(20))*time.Second)
	case 5:
		s := cnb.Add(off())
		t.NotBefore, t.NotAfter = s, s
	default:
		t.NotBefore, t.NotAfter = cnb.Add(off()), cna.Add(-off())
	}
	if o.inMemory && c.Chance(0.7) {
		t.NotBefore = t.NotBefore.Add(time.Duration(c.Intn(1000)) * time.Millisecond)
		t.NotAfter = t.NotAfter.Add(time.Duration(c.Intn(1000)) * time.Millisecond)
		if o.window == 1 {
			t.NotBefore, t.NotAfter = cnb, cna
		}
	}
	return t
}

// cvLeaf issues a leaf under ca with the unguarded shim. It retries with tamer options when validate refuses
// the combination (e.g. an IPv6 unsafe network without an IPv6 address on a v2 leaf).
func cvLeaf(c *hx.Ctx, u *cvUniverse, ca *cvCA, o cvLeafOpt) (cert.Certificate, cvLeafOpt) {
	for try := 0; ; try++ {
		t := cvLeafTBS(c, u, ca, o)
		issuer := o.issuer
		if issuer == "" {
			issuer = ca.fp
		}
		if issuer == "-" {
			issuer = ""
		}
		lc, err := cert.VerifIssue(t, issuer, o.signKey.signer(c), o.sigForm)
		if err == nil {
			if !o.inMemory {
				lc = cvRoundTrip(lc)
			}
			return lc, o
		}
		if try >= 3 {
			o.unsafe = cvMNone
		}
		if try >= 6 {
			o.nets = cvMFree
			if o.version == cert.Version1 {
				o.nets = cvMInside
			}
		}
		if try > 12 {
			panic(fmt.Sprintf("cannot build a leaf under %s: %v", ca.kind, err))
		}
	}
}

// ---- pools ------------------------------------------------------------------------------------------

type cvPool struct {
	p   *cert.CAPool
	cas []*cvCA
}

func cvMakePool(cas []*cvCA) *cvPool {
	p := cert.NewCAPool()
	for _, ca := range cas {
		if err := p.AddCA(ca.c); err != nil && !errors.Is(err, cert.ErrExpired) {
			panic(fmt.Sprintf("AddCA %s: %v", ca.kind, err))
		}
	}
	return &cvPool{p: p, cas: cas}
}

// cvPoolLit prints the real map (sorted by key): key string, and the CA record with c_fp := the stored
// CachedCertificate.Fingerprint (what verify compares signerFp with).
func cvPoolLit(u *cvUniverse, p *cert.CAPool) string {
	keys := make([]string, 0, len(p.CAs))
	for k := range p.CAs {
		keys = append(keys, k)
	}
	sort.Strings(keys)
	items := make([]string, len(keys))
	for i, k := range keys {
		cc := p.CAs[k]
		lit := ""
		for _, ca := range u.cas {
			if ca.c == cc.Certificate && ca.fp == cc.Fingerprint {
				lit = ca.name
			}
		}
		if lit == "" {
			lit = cvCertLit(cc.Certificate, cc.Fingerprint, u.names)
		}
		items[i] = hx.Tuple(u.names.str(k), lit)
	}
	return hx.List(items)
}

func cvBlLit(u *cvUniverse, p *cert.CAPool) string {
	bl := cert.VerifBlocklist(p)
	sort.Strings(bl)
	s := make([]string, len(bl))
	for i, x := range bl {
		s[i] = u.names.str(x)
	}
	return hx.List(s)
}

func cvErrClass(err error) string {
	switch {
	case err == nil:
		return "ok"
	case errors.Is(err, cert.ErrBlockListed):
		return "blocklisted"
	case errors.Is(err, cert.ErrCaNotFound):
		return "ca-not-found"
	case errors.Is(err, cert.ErrCurveMismatch):
		return "curve-mismatch"
	case errors.Is(err, cert.ErrRootExpired):
		return "root-expired"
	case errors.Is(err, cert.ErrExpired):
		return "expired"
	case errors.Is(err, cert.ErrSignatureMismatch):
		return "signature"
	case errors.Is(err, cert.ErrFingerprintMismatch):
		return "fingerprint-mismatch"
	}
	msg := err.Error()
	for _, k := range []struct{ sub, class string }{
		{"expires after signing certificate", "constraint-not-after"}, {"valid before the signing certificate", "constraint-not-before"},
		{"a group not present", "constraint-group"}, {"an unsafe network assignment outside", "constraint-unsafe-network"},
		{"a network assignment outside", "constraint-network"}, {"no issuer in certificate", "no-issuer"}} {
		if strings.Contains(msg, k.sub) {
			return k.class
		}
	}
	return "other: " + msg
}

// cvSigOK is the real signature verdict against the CA the pool would look up (false when there is none).
func cvSigOK(p *cert.CAPool, lc cert.Certificate) bool {
	cc, ok := p.CAs[lc.Issuer()]
	if !ok {
		return false
	}
	return lc.CheckSignature(cc.Certificate.PublicKey())
}

func cvTimes(lc cert.Certificate, ca *cvCA) []time.Time {
	nb, na := lc.NotBefore(), lc.NotAfter()
	cnb, cna := ca.c.NotBefore(), ca.c.NotAfter()
	return []time.Time{
		nb.Add(-time.Second), nb.Add(-time.Nanosecond), nb, nb.Add(time.Nanosecond),
		na.Add(-time.Nanosecond), na, na.Add(time.Nanosecond), na.Add(time.Second),
		cnb.Add(-time.Nanosecond), cnb, cna, cna.Add(time.Nanosecond),
	}
}

func cvRandTime(c *hx.Ctx, lc cert.Certificate, ca *cvCA) time.Time {
	nb, na := lc.NotBefore(), lc.NotAfter()
	switch c.Intn(10) {
	case 0, 1, 2:
		ts := cvTimes(lc, ca)
		return ts[c.Intn(len(ts))]
	case 3:
		return cvT0.Add(time.Duration(c.Rng.Int64N(int64(120*cvYear))) - 10*cvYear)
	default:
		d := na.Sub(nb)
		if d <= 0 {
			return nb
		}
		return nb.Add(time.Duration(c.Rng.Int64N(int64(d))))
	}
}

// ---- the component -----------------------------------------------------------------------------------

type cvCase struct {
	kind string
	ca   *cvCA
	opt  cvLeafOpt
}

func runCertVerify(c *hx.Ctx) {
	u := cvBuildUniverse(c)
	cw := c.NewCaseWriter("From NV Require Import model.Cert corr.Cert_corr.\n"+u.preamble, "Cert_corr.case", "Cert_corr.check_case", 200)
	stats := map[string]int{}

	pickPool := func(must *cvCA, include bool) *cvPool {
		var cas []*cvCA
		if include {
			cas = append(cas, must)
		}
		n := c.Intn(4)
		if !include && n == 0 {
			n = 1
		}
		for i := 0; i < n; i++ {
			x := u.cas[c.Intn(len(u.cas))]
			dup := x == must
			for _, y := range cas {
				if y == x {
					dup = true
				}
			}
			if !dup {
				cas = append(cas, x)
			}
		}
		c.Rng.Shuffle(len(cas), func(i, j int) { cas[i], cas[j] = cas[j], cas[i] })
		return cvMakePool(cas)
	}

	// force: 0 = random later state; 1 / 2 = the later state is the SAME pool at the same instant with the
	// presented fingerprint / the independently computed twin fingerprint added to the blocklist
	emit := func(kind string, ca *cvCA, lc cert.Certificate, pool *cvPool, blMode int, t time.Time, mutate bool, force int) {
		fp, _ := lc.Fingerprint()
		fp2 := cvTwinFp(lc)
		randFp := fmt.Sprintf("%x", sha256.Sum256(c.RandBytes(8)))
		switch blMode {
		case 1:
			pool.p.BlocklistFingerprint(fp)
		case 2:
			if fp2 != "" {
				pool.p.BlocklistFingerprint(fp2)
			} else {
				pool.p.BlocklistFingerprint(randFp)
			}
		case 3:
			pool.p.BlocklistFingerprint(randFp)
			pool.p.BlocklistFingerprint(ca.fp) // blocklisting a CA fingerprint does not block its leaves
		case 4:
			pool.p.BlocklistFingerprint(strings.ToUpper(fp)) // a different string: no effect
		}
		poolLit, blLit := cvPoolLit(u, pool.p), cvBlLit(u, pool.p)
		sigok := cvSigOK(pool.p, lc)
		cc, err := pool.p.VerifyCertificate(t, lc)
		ok := err == nil
		again := hx.None()
		desc := map[string]any{"op": "verify", "ca": ca.kind, "leaf": cvCertJSON(lc), "t": cvTimeNs(t).String(),
			"pool": len(pool.cas), "blocklist": blMode, "sigok": sigok, "accepted": ok, "err": cvErrClass(err)}
		if ok && mutate {
			// a later trust state: another pool object (reload), a changed blocklist, a later time
			p2 := pool
			pm := c.Intn(5)
			if force != 0 {
				pm = 0
			}
			switch pm {
			case 1: // reload without the signer
				var rest []*cvCA
				for _, x := range pool.cas {
					if x != ca {
						rest = append(rest, x)
					}
				}
				p2 = cvMakePool(rest)
			case 2: // reload with the signer and other CAs
				p2 = pickPool(ca, true)
			case 3: // reload with unrelated CAs only
				p2 = pickPool(ca, false)
			}
			if p2 != pool { // carry the blocklist over (nebula re-reads it from config on reload)
				for _, b := range cert.VerifBlocklist(pool.p) {
					if c.Chance(0.8) {
						p2.p.BlocklistFingerprint(b)
					}
				}
			}
			bm := c.Intn(6)
			if force != 0 {
				bm = force
			}
			switch bm {
			case 1:
				p2.p.BlocklistFingerprint(fp)
			case 2:
				if fp2 != "" {
					p2.p.BlocklistFingerprint(fp2)
				}
			case 3:
				p2.p.ResetCertBlocklist()
			case 4:
				p2.p.BlocklistFingerprint(randFp)
			}
			t2 := t
			if force == 0 && c.Chance(0.5) {
				t2 = cvRandTime(c, lc, ca)
			}
			sigok2 := cvSigOK(p2.p, lc)
			errC := p2.p.VerifyCachedCertificate(t2, cc)
			_, errF := p2.p.VerifyCertificate(t2, lc)
			sfp, cfp2 := cert.VerifCachedInternals(cc)
			again = hx.Some(hx.Tuple(cvPoolLit(u, p2.p), cvBlLit(u, p2.p), cvTimeLit(t2), hx.Bool(sigok2),
				hx.Bool(errC == nil), hx.Bool(errF == nil), u.names.str(sfp), u.names.str(cfp2), u.names.str(cc.Fingerprint)))
			desc["again"] = map[string]any{"pool_mode": pm, "bl_mode": bm, "t": cvTimeNs(t2).String(), "sigok": sigok2,
				"cached": cvErrClass(errC), "full": cvErrClass(errF)}
			stats["again-"+cvErrClass(errC)]++
		}
		lit := hx.App("Cert_corr.CVerify", poolLit, blLit, cvTimeLit(t), cvCertLit(lc, "", u.names), hx.Bool(sigok), hx.Bool(ok), again)
		_, inPool := pool.p.CAs[lc.Issuer()]
		deep := inPool && sigok
		stats[cvErrClass(err)]++
		cw.Add(lit, kind, deep, desc)
	}

	sameKey := func(ca *cvCA) cvLeafOpt {
		o := cvLeafOpt{version: ca.c.Version(), curve: ca.c.Curve(), groups: cvMInside, nets: cvMInside, unsafe: cvMInside, signKey: ca.key}
		if ca.c.Curve() == cert.Curve_P256 {
			o.sigForm = 1
		}
		return o
	}

	// 1. boundary sweep: every CA x one dimension pushed to inside / edge / outside, evaluated at the validity
	//    boundaries of the leaf and of the CA in turn
	type variant struct {
		name string
		set  func(o *cvLeafOpt)
	}
	variants := []variant{
		{"plain", func(o *cvLeafOpt) {}},
		{"groups-all", func(o *cvLeafOpt) { o.groups = cvMEdge }},
		{"groups-foreign", func(o *cvLeafOpt) { o.groups = cvMOutAdjacent }},
		{"nets-edge", func(o *cvLeafOpt) { o.nets = cvMEdge }},
		{"nets-wider", func(o *cvLeafOpt) { o.nets = cvMOutWider }},
		{"nets-adjacent", func(o *cvLeafOpt) { o.nets = cvMOutAdjacent }},
		{"nets-family", func(o *cvLeafOpt) { o.nets = cvMOutFamily; o.version = cert.Version2 }},
		{"unsafe-family", func(o *cvLeafOpt) { o.unsafe = cvMOutFamily; o.version = cert.Version2 }},
		{"unsafe-edge", func(o *cvLeafOpt) { o.unsafe = cvMEdge }},
		{"unsafe-wider", func(o *cvLeafOpt) { o.unsafe = cvMOutWider }},
		{"unsafe-adjacent", func(o *cvLeafOpt) { o.unsafe = cvMOutAdjacent }},
		{"window-edge", func(o *cvLeafOpt) { o.window = 1 }},
		{"window-before", func(o *cvLeafOpt) { o.window = 2 }},
		{"window-after", func(o *cvLeafOpt) { o.window = 3 }},
		{"window-short", func(o *cvLeafOpt) { o.window = 4 }},
		{"window-instant", func(o *cvLeafOpt) { o.window = 5 }},
		{"wrong-key", func(o *cvLeafOpt) { o.signKey = nil }},
		{"high-s", func(o *cvLeafOpt) { o.sigForm = 2 }},
		{"other-version", func(o *cvLeafOpt) { o.version = 3 - o.version }},
	}
	ti := 0
	for _, ca := range u.cas {
		for _, v := range variants {
			if zero := strings.HasPrefix(ca.kind, "un0") || strings.HasPrefix(ca.kind, "net0"); zero &&
				!(v.name == "plain" || strings.HasPrefix(v.name, "nets-") || strings.HasPrefix(v.name, "unsafe-")) {
				continue
			}
			o := sameKey(ca)
			o.inMemory = strings.HasPrefix(ca.kind, "subsec")
			v.set(&o)
			if o.signKey == nil {
				o.signKey = u.wrongKey[ca.c.Curve()]
			}
			if o.sigForm == 2 && ca.c.Curve() != cert.Curve_P256 {
				continue
			}
			if ca.c.Curve() != cert.Curve_P256 {
				o.sigForm = 0
			}
			lc, _ := cvLeaf(c, u, ca, o)
			ts := cvTimes(lc, ca)
			for k := 0; k < 2; k++ {
				t := ts[ti%len(ts)]
				ti++
				if k == 1 {
					t = lc.NotBefore().Add(lc.NotAfter().Sub(lc.NotBefore()) / 2)
				}
				bl := 0
				if v.name == "high-s" || (v.name == "plain" && k == 1) {
					bl = 1 + (ti % 2)
				}
				emit("sweep-"+v.name, ca, lc, pickPool(ca, true), bl, t, true, 0)
			}
		}
	}
	// 1b. both S forms of a P-256 certificate x blocklisting the presented form or the other form, on the full
	//     check and on the cached re-check (the certificate is accepted first, then the fingerprint is blocklisted)
	for _, ca := range u.cas {
		if ca.c.Curve() != cert.Curve_P256 || strings.HasPrefix(ca.kind, "expired") || strings.HasPrefix(ca.kind, "un0") || strings.HasPrefix(ca.kind, "net0") {
			continue
		}
		for form := 1; form <= 2; form++ {
			o := sameKey(ca)
			o.inMemory = strings.HasPrefix(ca.kind, "subsec")
			o.sigForm = form
			lc, _ := cvLeaf(c, u, ca, o)
			t := lc.NotBefore().Add(lc.NotAfter().Sub(lc.NotBefore()) / 2)
			kind := fmt.Sprintf("twin-%s-", map[int]string{1: "low", 2: "high"}[form])
			emit(kind+"full-block-presented", ca, lc, pickPool(ca, true), 1, t, true, 0)
			emit(kind+"full-block-twin", ca, lc, pickPool(ca, true), 2, t, true, 0)
			emit(kind+"cached-block-presented", ca, lc, pickPool(ca, true), 0, t, true, 1)
			emit(kind+"cached-block-twin", ca, lc, pickPool(ca, true), 0, t, true, 2)
		}
	}

	// 2. random cases
	for cw.Total() < c.N {
		ca := u.cas[c.Intn(len(u.cas))]
		o := sameKey(ca)
		o.inMemory = strings.HasPrefix(ca.kind, "subsec") || c.Chance(0.1)
		kind := "rand"
		pick3 := func(in, edge int, outs ...int) int {
			r := c.Intn(10)
			if r < 6 {
				return in
			}
			if r < 8 {
				return edge
			}
			return outs[c.Intn(len(outs))]
		}
		o.groups = pick3(cvMInside, cvMEdge, cvMOutAdjacent, cvMNone)
		o.nets = pick3(cvMInside, cvMEdge, cvMOutWider, cvMOutAdjacent, cvMOutFamily)
		o.unsafe = pick3(cvMInside, cvMEdge, cvMOutWider, cvMOutAdjacent, cvMOutFamily, cvMNone, cvMNone)
		o.window = []int{0, 0, 0, 4, 4, 1, 1, 2, 3, 5}[c.Intn(10)]
		if c.Chance(0.3) {
			o.version = cert.Version(1 + c.Intn(2))
		}
		inPool := true
		switch c.Intn(20) {
		case 0:
			o.signKey = u.wrongKey[ca.c.Curve()]
			kind = "rand-wrong-key"
		case 1: // written curve differs from the CA's
			o.curve = 1 - ca.c.Curve()
			kind = "rand-curve-mismatch"
		case 2:
			inPool = false
			kind = "rand-ca-not-in-pool"
		case 3:
			o.issuer = "-"
			kind = "rand-no-issuer"
		case 4:
			o.isCA = true
			kind = "rand-leaf-is-ca"
		case 5:
			o.issuer = fmt.Sprintf("%x", sha256.Sum256(c.RandBytes(8)))
			kind = "rand-unknown-issuer"
		}
		if ca.c.Curve() == cert.Curve_P256 && o.curve == cert.Curve_P256 {
			o.sigForm = 1 + c.Intn(2)
		} else {
			o.sigForm = 0
		}
		lc, _ := cvLeaf(c, u, ca, o)
		bl := 0
		if c.Chance(0.25) {
			bl = 1 + c.Intn(4)
		}
		emit(kind, ca, lc, pickPool(ca, inPool), bl, cvRandTime(c, lc, ca), true, 0)
	}

	// 3. AddCA: sequences of additions (CAs, non-CAs, CAs whose self-signature does not verify, repeats)
	now := time.Now()
	for i := 0; i < 40; i++ {
		p := cert.NewCAPool()
		var ops, verdicts []string
		n := 1 + c.Intn(5)
		var descOps []string
		for j := 0; j < n; j++ {
			ca := u.cas[c.Intn(len(u.cas))]
			var cand cert.Certificate = ca.c
			what := "ca:" + ca.kind
			switch c.Intn(6) {
			case 0: // a leaf
				cand, _ = cvLeaf(c, u, ca, sameKey(ca))
				what = "leaf"
			case 1: // CA flag set, but signed by some other key (and carrying an issuer)
				o := sameKey(ca)
				o.isCA = true
				o.signKey = u.wrongKey[ca.c.Curve()]
				o.issuer = "-"
				cand, _ = cvLeaf(c, u, ca, o)
				what = "ca-not-self-signed"
			}
			self := cand.CheckSignature(cand.PublicKey())
			err := p.AddCA(cand)
			v := 0
			switch {
			case err == nil:
			case errors.Is(err, cert.ErrNotCA):
				v = 1
			case errors.Is(err, cert.ErrNotSelfSigned):
				v = 2
			case errors.Is(err, cert.ErrExpired):
				v = 3
			default:
				v = 9
			}
			lit := ""
			if cand == ca.c {
				lit = ca.name
			} else {
				lit = cvCertLit(cand, "", u.names)
			}
			ops = append(ops, hx.Tuple(lit, hx.Bool(self)))
			verdicts = append(verdicts, hx.N(uint64(v)))
			descOps = append(descOps, fmt.Sprintf("%s->%d", what, v))
		}
		// the resulting map, and whether every key is the recomputed fingerprint of the CA stored under it
		keys := make([]string, 0, len(p.CAs))
		for k := range p.CAs {
			keys = append(keys, k)
		}
		sort.Strings(keys)
		var ents []string
		for _, k := range keys {
			cc := p.CAs[k]
			re, _ := cc.Certificate.Fingerprint()
			ents = append(ents, hx.Tuple(u.names.str(k), u.names.str(cc.Fingerprint), u.names.str(re), hx.Bool(cc.Certificate.IsCA())))
		}
		cw.Add(hx.App("Cert_corr.CAddCA", hx.List(ops), cvTimeLit(now), hx.List(verdicts), hx.List(ents)), "addca", len(keys) > 0,
			map[string]any{"op": "addca", "ops": descOps, "size": len(keys)})
	}
	// 4. pools with a verification history: on ONE pool object a genuine leaf is verified (full, then cached),
	//    then certificates that carry the SAME signature bytes and issuer but differ in one identity field, and
	//    other genuine leaves, interleaved. Every verdict is compared with the verdict of a pool built afresh
	//    from the same CAs and blocklist (history independence).
	tbsOf := func(lc cert.Certificate) *cert.TBSCertificate {
		return &cert.TBSCertificate{Version: lc.Version(), Name: lc.Name(), Networks: append([]netip.Prefix(nil), lc.Networks()...),
			UnsafeNetworks: append([]netip.Prefix(nil), lc.UnsafeNetworks()...), Groups: append([]string(nil), lc.Groups()...), IsCA: lc.IsCA(),
			NotBefore: lc.NotBefore(), NotAfter: lc.NotAfter(), PublicKey: append([]byte(nil), lc.PublicKey()...), Curve: lc.Curve()}
	}
	tamper := func(lc cert.Certificate, ca *cvCA) (cert.Certificate, string) {
		for try := 0; try < 6; try++ {
			t := tbsOf(lc)
			what := ""
			switch c.Intn(6) {
			case 0:
				t.Name = t.Name + "-x"
				if len(t.Name) > 253 {
					t.Name = "renamed"
				}
				what = "name"
			case 1:
				g := "ops"
				if cg := ca.c.Groups(); len(cg) > 0 {
					g = cg[c.Intn(len(cg))]
				}
				t.Groups = append(t.Groups, g)
				what = "group-added"
			case 2:
				if len(t.Networks) == 0 {
					continue
				}
				p := t.Networks[0]
				if p.Bits() == p.Addr().BitLen() {
					continue
				}
				t.Networks[0] = netip.PrefixFrom(p.Addr(), p.Bits()+1) // a narrower network at the same address stays inside the CA
				what = "network"
			case 3:
				if !t.NotAfter.Add(time.Second).After(ca.c.NotAfter()) {
					t.NotAfter = t.NotAfter.Add(time.Second)
				} else {
					t.NotBefore = t.NotBefore.Add(time.Second)
				}
				what = "validity"
			case 4:
				pubs := u.leafPub[lc.Curve()]
				t.PublicKey = pubs[c.Intn(len(pubs))]
				if string(t.PublicKey) == string(lc.PublicKey()) {
					continue
				}
				what = "public-key"
			default:
				if len(t.Groups) == 0 {
					continue
				}
				t.Groups = t.Groups[:len(t.Groups)-1]
				what = "group-removed"
			}
			orig := append([]byte(nil), lc.Signature()...)
			tc, err := cert.VerifIssue(t, lc.Issuer(), func([]byte) ([]byte, error) { return orig, nil }, 0)
			if err != nil {
				continue
			}
			tc = cvRoundTrip(tc)
			if string(tc.Signature()) != string(lc.Signature()) || tc.Issuer() != lc.Issuer() {
				panic("tampered certificate does not keep signature and issuer")
			}
			return tc, what
		}
		return nil, ""
	}
	nHist := 60 + c.N/25
	for h := 0; h < nHist; h++ {
		ca := u.cas[c.Intn(len(u.cas))]
		for strings.HasPrefix(ca.kind, "expired") {
			ca = u.cas[c.Intn(len(u.cas))]
		}
		pool := pickPool(ca, true)
		type member struct {
			lc cert.Certificate
			ca *cvCA
			cc *cert.CachedCertificate
		}
		mk := func(x *cvCA) member {
			o := sameKey(x)
			o.inMemory = strings.HasPrefix(x.kind, "subsec")
			o.window = []int{0, 0, 4}[c.Intn(3)]
			lc, _ := cvLeaf(c, u, x, o)
			return member{lc: lc, ca: x}
		}
		members := []member{mk(ca)}
		for _, x := range pool.cas {
			if x != ca && c.Chance(0.6) {
				members = append(members, mk(x))
			}
		}
		if c.Chance(0.2) {
			f, _ := members[len(members)-1].lc.Fingerprint()
			pool.p.BlocklistFingerprint(f)
		}
		poolLit, blLit := cvPoolLit(u, pool.p), cvBlLit(u, pool.p)
		fresh := func() *cert.CAPool {
			f := cvMakePool(pool.cas)
			for _, b := range cert.VerifBlocklist(pool.p) {
				f.p.BlocklistFingerprint(b)
			}
			return f.p
		}
		inWin := func(lc cert.Certificate) time.Time {
			if c.Chance(0.15) {
				return cvRandTime(c, lc, ca)
			}
			d := lc.NotAfter().Sub(lc.NotBefore())
			if d <= 0 {
				return lc.NotBefore()
			}
			return lc.NotBefore().Add(time.Duration(c.Rng.Int64N(int64(d))))
		}
		var steps []string
		var js []map[string]any
		tampAccepted := false
		full := func(what string, lc cert.Certificate, m *member) {
			t := inWin(lc)
			sigok := cvSigOK(pool.p, lc)
			cc, err := pool.p.VerifyCertificate(t, lc)
			if err == nil && m != nil {
				m.cc = cc
			}
			_, errF := fresh().VerifyCertificate(t, lc)
			steps = append(steps, hx.Tuple("0", cvTimeLit(t), cvCertLit(lc, "", u.names), hx.Bool(sigok), hx.Bool(err == nil), hx.Bool(errF == nil), "[]", "[]", "[]"))
			js = append(js, map[string]any{"step": what, "cert": cvCertJSON(lc), "t": cvTimeNs(t).String(), "sigok": sigok, "with_history": cvErrClass(err), "fresh_pool": cvErrClass(errF)})
			if m == nil && err == nil {
				tampAccepted = true
			}
		}
		cachedStep := func(m *member) {
			if m.cc == nil {
				return
			}
			t := inWin(m.lc)
			sigok := cvSigOK(pool.p, m.lc)
			err := pool.p.VerifyCachedCertificate(t, m.cc)
			_, errF := fresh().VerifyCertificate(t, m.lc)
			sfp, cfp2 := cert.VerifCachedInternals(m.cc)
			steps = append(steps, hx.Tuple("1", cvTimeLit(t), cvCertLit(m.lc, "", u.names), hx.Bool(sigok), hx.Bool(err == nil), hx.Bool(errF == nil),
				u.names.str(sfp), u.names.str(cfp2), u.names.str(m.cc.Fingerprint)))
			js = append(js, map[string]any{"step": "cached", "t": cvTimeNs(t).String(), "with_history": cvErrClass(err), "fresh_pool_full": cvErrClass(errF)})
		}
		full("genuine", members[0].lc, &members[0])
		cachedStep(&members[0])
		for k, n := 0, 3+c.Intn(5); k < n; k++ {
			m := &members[c.Intn(len(members))]
			switch c.Intn(5) {
			case 0:
				full("genuine-again", m.lc, m)
			case 1:
				cachedStep(m)
			default:
				if m.cc == nil && c.Chance(0.7) {
					m = &members[0] // tamper preferably with a leaf the pool has accepted
				}
				if tc, what := tamper(m.lc, m.ca); tc != nil {
					full("tampered-"+what, tc, nil)
				}
			}
		}
		stats["history-steps"] += len(steps)
		if tampAccepted {
			stats["history-tampered-accepted"]++
		}
		cw.Add(hx.App("Cert_corr.CHistory", poolLit, blLit, hx.List(steps)), "history", true,
			map[string]any{"op": "history", "pool": len(pool.cas), "steps": js})
	}
	cw.Meta("verdicts", stats)
	cw.Close("real CAPool of 1-4 CAs out of 52 (open/group/network/unsafe/fully constrained, zero-length network and unsafe-network constraints of one or both families, expired, sub-second; v1+v2; Curve25519+P256) x real signed leaves " +
		"(each constraint inside/edge/outside, wrong key, high/low-S, curve mismatch, missing/unknown issuer) x time at nb-1s..na+1s boundaries and random x blocklist of fp/twin fp/other; " +
		"accepted certificates are re-checked (cached and full) against a reloaded pool / changed blocklist / later time; pools with history: genuine leaf (full+cached), then same-signature certificates with one identity field changed and other genuine leaves on the SAME pool object, each verdict compared with a fresh pool; non-trivial = issuer found in pool and signature valid; distinct by literal")
}

//go:build comp_all || comp_ipparse || comp_reject

package main

import (
	"fmt"
	"net/netip"
	"strings"

	nebula "github.com/slackhq/nebula"
	"github.com/slackhq/nebula/firewall"
	"github.com/slackhq/nebula/iputil"
	"verifharness/hx"
)

func init() {
	hx.Register("gen_ipparse", genIpParse)
	hx.Register("ipparse", runIpParse)
}

// ---- T1 / T2: measured from the compiled walker ----------------------------------------------------

// genIpParse probes iputil.IPv6FindUpperProtocol: the set of next-header values it walks as extension headers
// (every value 0..255) and the number of extension headers it is prepared to walk (function-local constant).
func genIpParse(c *hx.Ctx) {
	udp := []byte{0x12, 0x34, 0x56, 0x78, 0, 8, 0, 0}
	var walked []string
	walkedSet := map[byte]bool{}
	for nh := 0; nh < 256; nh++ {
		p := append(ippV6Fixed(byte(nh), 16, ippSrc6, ippDst6), []byte{17, 0, 0, 0, 0, 0, 0, 0}...)
		p = append(p, udp...)
		proto, off, _, _, err := iputil.IPv6FindUpperProtocol(p)
		terminal := err == nil && proto == byte(nh) && off == 40
		if !terminal {
			if !(err == nil && proto == 17 && off == 48) {
				panic(fmt.Sprintf("gen_ipparse: next header %d neither terminal nor walked as an 8-byte header: proto=%d off=%d err=%v", nh, proto, off, err))
			}
			walked = append(walked, fmt.Sprintf("%d", nh))
			walkedSet[byte(nh)] = true
		}
	}
	limit := -1
	for nh := 0; nh < 256; nh++ {
		if !walkedSet[byte(nh)] {
			continue
		}
		maxOK, gap := -1, false
		for k := 0; k <= 40; k++ {
			kinds := make([]byte, k)
			lens := make([]int, k)
			for i := range kinds {
				kinds[i] = byte(nh)
			}
			p := ippChain(kinds, lens, 17, udp)
			proto, off, _, _, err := iputil.IPv6FindUpperProtocol(p)
			if err == nil {
				if proto != 17 || off != 40+8*k {
					panic(fmt.Sprintf("gen_ipparse: chain of %d x header %d classified as proto=%d off=%d with nil error", k, nh, proto, off))
				}
				if maxOK != k-1 {
					gap = true
				}
				maxOK = k
			}
		}
		if gap {
			panic(fmt.Sprintf("gen_ipparse: accepted chain lengths of header %d are not an initial segment", nh))
		}
		if limit >= 0 && limit != maxOK {
			panic(fmt.Sprintf("gen_ipparse: walker limit differs per header kind (%d vs %d for header %d)", limit, maxOK, nh))
		}
		limit = maxOK
	}
	var sb strings.Builder
	sb.WriteString("(* GENERATED from /repo/iputil and /repo/outside.go by harness gen_ipparse: do not edit *)\nFrom Coq Require Import List NArith.\nImport ListNotations.\nOpen Scope N_scope.\n")
	fmt.Fprintf(&sb, "(* the largest number of extension headers after which IPv6FindUpperProtocol still resolves a chain (probed with chains of 0..40 headers of each walked kind) *)\nDefinition ipp_max_ext_headers : N := %d.\n", limit)
	fmt.Fprintf(&sb, "(* every next-header value in 0..255 that IPv6FindUpperProtocol walks as an extension header instead of returning it as the upper layer protocol *)\nDefinition ipp_walked_headers : list N := [%s].\n", strings.Join(walked, "; "))
	fmt.Fprintf(&sb, "Definition ipp_min_fw_packet_len : N := %d.\n", nebula.VerifMinFwPacketLen)
	c.WriteFile("Consts_IpParse.v", sb.String())
}

// ---- observation -------------------------------------------------------------------------------------

type ippObs struct {
	ok, panicked bool
	fp           firewall.ParsedPacket
}

func ippObserve(data []byte, incoming bool) (o ippObs) {
	d := make([]byte, len(data)) // cap == len: a slice expression past the end panics instead of reading spare capacity
	copy(d, data)
	// dirty record: a successful parse must overwrite every field
	o.fp.LocalAddr = netip.MustParseAddr("203.0.113.9")
	o.fp.RemoteAddr = netip.MustParseAddr("2001:db8::9")
	o.fp.LocalPort, o.fp.RemotePort, o.fp.Protocol = 0xdead, 0xbeef, 0xee
	o.fp.Fragment, o.fp.FragAny, o.fp.IPHdrLen = true, true, 7777
	defer func() {
		if r := recover(); r != nil {
			o.ok, o.panicked = false, true
		}
	}()
	err := nebula.VerifNewPacket(d, incoming, &o.fp)
	o.ok = err == nil
	return o
}

func ippLit(data []byte, incoming bool, o ippObs) string {
	res := hx.None()
	if o.ok {
		res = hx.Some(hx.Tuple(hx.Bytes(o.fp.LocalAddr.AsSlice()), hx.Bytes(o.fp.RemoteAddr.AsSlice()),
			hx.N(uint64(o.fp.LocalPort)), hx.N(uint64(o.fp.RemotePort)), hx.N(uint64(o.fp.Protocol)),
			hx.Bool(o.fp.Fragment), hx.Bool(o.fp.FragAny), hx.N(uint64(o.fp.IPHdrLen))))
	}
	return hx.App("IpParse_corr.CParse", hx.Bytes(data), hx.Bool(incoming), res, hx.Bool(o.panicked))
}

func runIpParse(c *hx.Ctx) {
	cw := c.NewCaseWriter("From NV Require Import corr.IpParse_corr.", "IpParse_corr.case", "IpParse_corr.check_case", 500)
	okCount := 0
	add := func(data []byte, incoming bool, kind string) {
		o := ippObserve(data, incoming)
		ver := 0
		if len(data) > 0 {
			ver = int(data[0] >> 4)
		}
		desc := map[string]any{"bytes": hx.Ints(data), "incoming": incoming, "ok": o.ok, "panicked": o.panicked, "v": ver}
		if o.ok {
			okCount++
			desc["proto"] = o.fp.Protocol
			desc["frag"] = o.fp.Fragment
			desc["fragany"] = o.fp.FragAny
			desc["hdrlen"] = o.fp.IPHdrLen
			desc["lport"] = o.fp.LocalPort
			desc["rport"] = o.fp.RemotePort
		}
		cw.Add(ippLit(data, incoming, o), kind, o.ok, desc)
	}
	truncSweep := func(p []byte, kind string) {
		for n := 0; n <= len(p); n++ {
			add(p[:n], n%2 == 0, kind)
		}
		add(p, true, kind)
		add(p, false, kind)
	}

	tcp, udp, icmp, v4 := ippTCP, ippUDP, ippICMP, ippV4

	// ---- corpus: the witness of known finding F18 (non-first fragment whose fragment header names header 60) ----
	{
		w := append(ippV6Fixed(44, 16, ippSrc6, ippDst6), ippExt(44, 60, 0, 3, 1, 0)...)
		add(append(w, 128, 0, 0, 0, 10, 11, 12, 13), true, "corpus-F18")
	}

	// ---- boundary sweeps (first) ----
	truncSweep(v4(5, 6, 0x4000, tcp(1234, 80, 0x02)), "v4-trunc")
	truncSweep(v4(8, 6, 0, tcp(1234, 80, 0x10)), "v4-trunc")
	truncSweep(v4(15, 17, 0, udp(53, 5353)), "v4-trunc")
	truncSweep(v4(5, 1, 0, icmp(8, 0, 0xabcd, 1)), "v4-trunc")
	truncSweep(v4(6, 1, 0, icmp(3, 1, 0x1111, 0)), "v4-trunc")
	truncSweep(v4(5, 17, 0x2000, udp(53, 5353)), "v4-trunc")         // first fragment (MF)
	truncSweep(v4(5, 17, 0x2001, []byte{1, 2, 3, 4, 5}), "v4-trunc") // middle fragment
	truncSweep(v4(7, 6, 0x00b9, []byte{}), "v4-trunc")               // last fragment, no payload
	for ihl := 0; ihl < 16; ihl++ {                                  // every IHL value, with and without the bytes to back it
		p := v4(max(ihl, 5), 17, 0, udp(7, 9))
		p[0] = 0x40 | byte(ihl)
		add(p, true, "v4-ihl")
		add(p[:min(len(p), 24)], false, "v4-ihl")
	}
	for proto := 0; proto < 256; proto++ { // every protocol number
		add(v4(5, byte(proto), 0, icmp(8, 0, 0x0102, 0x0304)), proto%2 == 0, "v4-proto")
	}
	for _, ff := range []uint16{0, 0x4000, 0x2000, 0x6000, 0x8000, 1, 0x1fff, 0x2001, 0x3fff, 0x4001, 0xffff, 0x1000, 0x0100} {
		add(v4(5, 17, ff, udp(1000, 2000)), true, "v4-flags")
		add(v4(5, 1, ff, icmp(8, 0, 77, 1)), false, "v4-flags")
	}
	for ver := 0; ver < 16; ver++ { // every version nibble
		p := v4(5, 17, 0, udp(1, 2))
		p[0] = byte(ver<<4) | 5
		add(p, true, "version")
		q := ippChain(nil, nil, 17, udp(1, 2))
		q[0] = byte(ver<<4) | 0x0a
		add(q, false, "version")
	}

	truncSweep(ippChain(nil, nil, 17, udp(4000, 53)), "v6-trunc")
	truncSweep(ippChain([]byte{0}, []int{0}, 6, tcp(1, 2, 0x12)), "v6-trunc")
	truncSweep(ippChain([]byte{0, 43, 60, 51}, []int{1, 0, 2, 1}, 6, tcp(443, 50000, 0x10)), "v6-trunc")
	truncSweep(ippChain([]byte{60}, []int{0}, 58, icmp(128, 0, 0xbeef, 1)), "v6-trunc")
	truncSweep(ippChain([]byte{44}, []int{0}, 17, udp(9, 10)), "v6-trunc") // first fragment (offset 0, M=1)
	{
		nf := append(ippV6Fixed(44, 16, ippSrc6, ippDst6), ippExt(44, 17, 0, 185, 1, 0)...)
		truncSweep(append(nf, 1, 2, 3, 4, 5, 6, 7, 8), "v6-trunc") // non-first fragment of a UDP packet
		nf60 := append(ippV6Fixed(44, 16, ippSrc6, ippDst6), ippExt(44, 60, 0, 1, 0, 0)...)
		truncSweep(append(nf60, 17, 0, 1, 4, 0, 0, 0, 0), "v6-trunc") // non-first fragment whose fragment header names header 60
		nfd := append(ippV6Fixed(60, 24, ippSrc6, ippDst6), ippExt(60, 44, 0, 0, 0, 0)...)
		nfd = append(nfd, ippExt(44, 43, 0, 100, 0, 0)...)
		truncSweep(append(nfd, 9, 9, 9, 9, 9, 9, 9, 9), "v6-trunc")
	}
	for k := 7; k <= 10; k++ { // around the walker's limit, truncated everywhere
		kinds, lens := make([]byte, k), make([]int, k)
		for i := range kinds {
			kinds[i] = []byte{60, 0, 43, 51}[i%4]
			if kinds[i] == 51 {
				lens[i] = 1
			}
		}
		truncSweep(ippChain(kinds, lens, 17, udp(7, 7)), "v6-limit-trunc")
	}
	{ // eight headers, the last one declaring more bytes than the packet has
		kinds, lens := []byte{60, 60, 60, 60, 60, 60, 60, 60}, []int{0, 0, 0, 0, 0, 0, 0, 3}
		p := ippChain(kinds, lens, 17, udp(7, 7))
		truncSweep(p[:40+7*8+10], "v6-limit-trunc")
	}
	for k := 0; k <= 12; k++ { // chains of k headers of one kind, every kind, three upper protocols
		for _, kind := range []byte{0, 43, 60, 51, 44} {
			for _, term := range []byte{6, 17, 58} {
				kinds, lens := make([]byte, k), make([]int, k)
				for i := range kinds {
					kinds[i] = kind
					if kind == 51 {
						lens[i] = i % 3
					} else {
						lens[i] = i % 2
					}
				}
				var pl []byte
				switch term {
				case 6:
					pl = tcp(1111, 2222, 0x18)
				case 17:
					pl = udp(3333, 4444)
				default:
					pl = icmp(129, 0, 0x5555, 2)
				}
				add(ippChain(kinds, lens, term, pl), (k+int(term))%2 == 0, "v6-chain-len")
			}
		}
	}
	for nh := 0; nh < 256; nh++ { // every next-header value: directly, after one header, as the header named by a non-first fragment
		pl := icmp(128, 0, 0x0a0b, 0x0c0d)
		add(ippChain(nil, nil, byte(nh), pl), nh%2 == 0, "v6-nh")
		add(ippChain([]byte{60}, []int{0}, byte(nh), pl), nh%2 == 1, "v6-nh")
		nf := append(ippV6Fixed(44, 16, ippSrc6, ippDst6), ippExt(44, byte(nh), 0, 3, 1, 0)...)
		add(append(nf, pl...), nh%2 == 0, "v6-nonfirst-nh")
	}
	for b2 := 0; b2 < 2; b2++ { // fragment offset / reserved / M bit patterns
		for b3 := 0; b3 < 256; b3++ {
			h := ippExt(44, 17, 0, 0, 0, 0)
			h[2], h[3] = byte(b2), byte(b3)
			p := append(ippV6Fixed(44, 16, ippSrc6, ippDst6), h...)
			add(append(p, udp(100, 200)...), b3%2 == 0, "v6-fragbits")
		}
	}
	for typ := 0; typ < 256; typ++ { // every ICMPv6 type, 4..8 bytes of message
		m := icmp(byte(typ), 0, 0x7777, 1)
		add(ippChain(nil, nil, 58, m[:4+typ%5]), true, "v6-icmp-type")
	}

	// ---- random cases ----
	terms6 := []byte{6, 6, 6, 17, 17, 17, 58, 58, 59, 47, 50, 132, 135, 139, 140, 253, 4, 41, 1}
	extKinds := []byte{0, 43, 60, 51, 44}
	protos4 := []byte{6, 6, 6, 17, 17, 17, 1, 1, 47, 50, 0, 43, 44, 51, 60, 58, 132}
	alphabet := []byte{0, 0, 0, 1, 2, 3, 4, 6, 8, 17, 43, 44, 51, 58, 59, 60, 128, 129, 255}
	for i := 0; i < c.N; i++ {
		incoming := c.Chance(0.5)
		switch r := c.Intn(100); {
		case r < 30: // structured IPv4
			ihl := 5
			if c.Chance(0.4) {
				ihl = 5 + c.Intn(11)
			}
			proto := protos4[c.Intn(len(protos4))]
			if c.Chance(0.05) {
				proto = byte(c.Intn(256))
			}
			var ff uint16
			switch c.Intn(8) {
			case 0:
				ff = 0x2000
			case 1:
				ff = uint16(1 + c.Intn(0x1fff))
			case 2:
				ff = 0x2000 | uint16(c.Intn(0x2000))
			case 3:
				ff = uint16(c.EdgeU64(16))
			case 4:
				ff = 0x4000
			}
			var pl []byte
			switch proto {
			case 6:
				pl = tcp(uint16(c.EdgeU64(16)), uint16(c.EdgeU64(16)), byte(c.Intn(256)))
			case 17:
				pl = udp(uint16(c.EdgeU64(16)), uint16(c.EdgeU64(16)))
			case 1:
				pl = icmp([]byte{0, 8, 3, 4, 5, 11, 12, 13, 17}[c.Intn(9)], byte(c.Intn(16)), uint16(c.EdgeU64(16)), uint16(c.Intn(65536)))
			default:
				pl = c.RandBytes(c.Intn(24))
			}
			p := v4(ihl, proto, ff, pl)
			kind := "v4"
			if c.Chance(0.2) {
				p = p[:c.Intn(len(p)+1)]
				kind = "v4-truncated"
			}
			add(p, incoming, kind)
		case r < 80: // structured IPv6
			k := 0
			switch q := c.Intn(100); {
			case q < 25:
				k = 0
			case q < 65:
				k = 1 + c.Intn(3)
			case q < 88:
				k = 4 + c.Intn(5)
			default:
				k = 9 + c.Intn(4)
			}
			term := terms6[c.Intn(len(terms6))]
			if c.Chance(0.04) {
				term = byte(c.Intn(256))
			}
			var pl []byte
			switch term {
			case 6:
				pl = tcp(uint16(c.EdgeU64(16)), uint16(c.EdgeU64(16)), byte(c.Intn(256)))
			case 17:
				pl = udp(uint16(c.EdgeU64(16)), uint16(c.EdgeU64(16)))
			case 58:
				pl = icmp([]byte{128, 129, 1, 2, 3, 4, 133, 135, 136, 0, 127, 130}[c.Intn(12)], 0, uint16(c.EdgeU64(16)), 9)
			default:
				pl = c.RandBytes(c.Intn(16))
			}
			if c.Chance(0.12) {
				pl = pl[:c.Intn(len(pl)+1)]
			}
			body := []byte{}
			kinds := make([]byte, k)
			for j := range kinds {
				kinds[j] = extKinds[c.Intn(len(extKinds))]
			}
			kind := "v6"
			for j, ek := range kinds {
				next := term
				if j+1 < k {
					next = kinds[j+1]
				}
				l := 0
				if c.Chance(0.4) {
					l = c.Intn(4)
				}
				fragOff := 0
				resM := byte(c.Intn(8))
				if ek == 44 && c.Chance(0.3) {
					fragOff = 1 + c.Intn(8191)
					kind = "v6-nonfirst"
					if c.Chance(0.3) {
						next = extKinds[c.Intn(len(extKinds))]
					}
				}
				h := ippExt(ek, next, l, fragOff, resM, byte(c.Intn(256)))
				if ek != 44 && c.Chance(0.04) { // declared length not backed by bytes
					h[1] = byte(c.Intn(256))
					kind = "v6-lying-len"
				}
				body = append(body, h...)
			}
			first := term
			if k > 0 {
				first = kinds[0]
			}
			body = append(body, pl...)
			var s, d [16]byte
			copy(s[:], c.RandBytes(16))
			copy(d[:], c.RandBytes(16))
			p := append(ippV6Fixed(first, len(body), s, d), body...)
			if k >= 9 && kind == "v6" {
				kind = "v6-long-chain"
			}
			if c.Chance(0.15) {
				p = p[:c.Intn(len(p)+1)]
				kind = "v6-truncated"
			}
			add(p, incoming, kind)
		default: // unstructured bytes
			n := c.Intn(90)
			var p []byte
			if c.Chance(0.5) {
				p = c.RandBytes(n)
			} else {
				p = make([]byte, n)
				for j := range p {
					p[j] = alphabet[c.Intn(len(alphabet))]
				}
			}
			if n > 0 {
				switch c.Intn(5) {
				case 0, 1:
					p[0] = 0x40 | (p[0] & 0x0f)
					if c.Chance(0.6) {
						p[0] = 0x45 + byte(c.Intn(3))
					}
				case 2, 3:
					p[0] = 0x60 | (p[0] & 0x0f)
					if n > 6 && c.Chance(0.7) {
						p[6] = extKinds[c.Intn(len(extKinds))]
					}
				}
			}
			add(p, incoming, "raw")
		}
	}
	cw.Meta("accepted_by_newPacket", okCount)
	cw.Close("boundary sweeps (truncation of base packets at every length, every IHL / protocol / version / next-header / fragment-bit / ICMPv6 type value, chains of 0..12 headers of every kind) then random: 30% structured IPv4 (options, fragments, truncation), 50% structured IPv6 (chains of 0..12 extension headers of every kind, first and non-first fragments, lying lengths, truncation, unknown protocols), 20% unstructured bytes; non-trivial = accepted by newPacket; distinct by literal")
}

//go:build (comp_all || comp_udpsplit) && linux && !android && !e2e_testing

package main

import (
	"encoding/binary"
	"fmt"
	"hash/fnv"
	"log/slog"
	"net/netip"
	"sync"
	"time"
	"unsafe"

	"github.com/slackhq/nebula/udp"
	"golang.org/x/sys/unix"
	"verifharness/hx"
)

func init() { hx.Register("listenout", runListenOut) }

// one thing the sender does: a datagram of `size` bytes; seg > 0: sent with a UDP_SEGMENT cmsg of that size, i.e. the
// kernel puts ceil(size/seg) datagrams of seg bytes (last shorter) on the wire and, on loopback, hands them to a
// UDP_GRO receiver as ONE superdatagram with gso_size = seg. wait: wait for delivery before the next unit, so that
// the next unit lands in the same recvmmsg slot (slot 0).
type loUnit struct {
	size, seg int
	wait      bool
}

type loDgram struct {
	n int
	h uint32
}

func loHash(b []byte) uint32 { h := fnv.New32a(); h.Write(b); return h.Sum32() }

type loSender struct {
	fd int
	to unix.Sockaddr
}

func (s *loSender) send(p []byte, seg int) error {
	if seg <= 0 {
		return unix.Sendto(s.fd, p, 0, s.to)
	}
	oob := make([]byte, unix.CmsgSpace(2))
	h := (*unix.Cmsghdr)(unsafe.Pointer(&oob[0]))
	h.Level = unix.SOL_UDP
	h.Type = unix.UDP_SEGMENT
	h.SetLen(unix.CmsgLen(2))
	binary.NativeEndian.PutUint16(oob[unix.CmsgLen(0):], uint16(seg))
	return unix.Sendmsg(s.fd, p, oob, s.to, 0)
}

// loProbe checks on sockets of our own that this kernel hands a UDP_SEGMENT send to a UDP_GRO receiver on loopback
// as one coalesced datagram with a gso_size cmsg. Returns "" if so, else the reason to skip.
func loProbe() string {
	rx, err := unix.Socket(unix.AF_INET, unix.SOCK_DGRAM, unix.IPPROTO_UDP)
	if err != nil {
		return "cannot open a UDP socket: " + err.Error()
	}
	defer unix.Close(rx)
	if err := unix.Bind(rx, &unix.SockaddrInet4{Addr: [4]byte{127, 0, 0, 1}}); err != nil {
		return "cannot bind on loopback: " + err.Error()
	}
	if err := unix.SetsockoptInt(rx, unix.IPPROTO_UDP, unix.UDP_GRO, 1); err != nil {
		return "kernel lacks UDP_GRO: " + err.Error()
	}
	sa, _ := unix.Getsockname(rx)
	tx, err := unix.Socket(unix.AF_INET, unix.SOCK_DGRAM, unix.IPPROTO_UDP)
	if err != nil {
		return "cannot open a UDP socket: " + err.Error()
	}
	defer unix.Close(tx)
	s := &loSender{fd: tx, to: sa}
	if err := s.send(make([]byte, 400), 100); err != nil {
		return "kernel rejects UDP_SEGMENT sends: " + err.Error()
	}
	tv := unix.Timeval{Sec: 2}
	_ = unix.SetsockoptTimeval(rx, unix.SOL_SOCKET, unix.SO_RCVTIMEO, &tv)
	buf := make([]byte, 65535)
	oob := make([]byte, unix.CmsgSpace(4))
	n, oobn, _, _, err := unix.Recvmsg(rx, buf, oob, 0)
	if err != nil {
		return "probe datagram did not arrive: " + err.Error()
	}
	if n != 400 || oobn < unix.CmsgLen(4) {
		return fmt.Sprintf("loopback does not deliver the UDP_SEGMENT send coalesced (got %d bytes, %d bytes of control data)", n, oobn)
	}
	return ""
}

// loRun opens the real listener the way main.go does (listen.batch 64, listen.udp_offloads true), runs ListenOut, sends
// the units from one plain UDP socket and returns what the callback saw. ok=false: the environment lost something
// (timeout), the scenario is not evaluated.
func loRun(units []loUnit, fill func(n int) []byte) (sent, got []loDgram, ok bool, reason string) {
	conn, err := udp.NewListener(slog.New(slog.DiscardHandler), udp.Settings{
		Listen: netip.MustParseAddrPort("127.0.0.1:0"), Multi: false, Batch: 64, Offloads: true})
	if err != nil {
		return nil, nil, false, "NewListener: " + err.Error()
	}
	if !udp.VerifGROEnabled(conn) {
		conn.Close()
		return nil, nil, false, "listener did not enable UDP_GRO"
	}
	la, err := conn.LocalAddr()
	if err != nil {
		conn.Close()
		return nil, nil, false, "LocalAddr: " + err.Error()
	}
	var mu sync.Mutex
	gotBytes := 0
	done := make(chan struct{})
	go func() {
		defer close(done)
		_ = conn.ListenOut(func(from netip.AddrPort, p []byte) {
			mu.Lock()
			got = append(got, loDgram{len(p), loHash(p)})
			gotBytes += len(p)
			mu.Unlock()
		}, func() {})
	}()
	defer func() {
		conn.Close()
		select {
		case <-done:
		case <-time.After(2 * time.Second):
		}
	}()

	tx, err := unix.Socket(unix.AF_INET, unix.SOCK_DGRAM, unix.IPPROTO_UDP)
	if err != nil {
		return nil, nil, false, "sender socket: " + err.Error()
	}
	defer unix.Close(tx)
	s := &loSender{fd: tx, to: &unix.SockaddrInet4{Port: int(la.Port()), Addr: [4]byte{127, 0, 0, 1}}}

	sentBytes := 0
	waitFor := func() bool {
		deadline := time.Now().Add(3 * time.Second)
		for {
			mu.Lock()
			g := gotBytes
			mu.Unlock()
			if g >= sentBytes {
				return true
			}
			if time.Now().After(deadline) {
				return false
			}
			time.Sleep(200 * time.Microsecond)
		}
	}
	for i, u := range units {
		p := fill(u.size)
		if err := s.send(p, u.seg); err != nil {
			return nil, nil, false, fmt.Sprintf("send of unit %d failed: %v", i, err)
		}
		sentBytes += len(p)
		// what is on the wire: the kernel cuts a UDP_SEGMENT send every seg bytes
		if u.seg > 0 && u.seg < len(p) {
			for off := 0; off < len(p); off += u.seg {
				end := min(off+u.seg, len(p))
				sent = append(sent, loDgram{end - off, loHash(p[off:end])})
			}
		} else {
			sent = append(sent, loDgram{len(p), loHash(p)})
		}
		if u.wait || i == len(units)-1 {
			if !waitFor() {
				return nil, nil, false, "timeout waiting for delivery"
			}
		}
	}
	time.Sleep(2 * time.Millisecond) // anything delivered in excess shows up as extra entries
	mu.Lock()
	got = append([]loDgram(nil), got...)
	mu.Unlock()
	return sent, got, true, ""
}

func runListenOut(c *hx.Ctx) {
	cw := c.NewCaseWriter("From Coq Require Import String.\nFrom NV Require Import corr.UdpSplit_corr.", "UdpSplit_corr.case", "UdpSplit_corr.check_case", 100)
	rule := "real StdConn from udp.NewListener on 127.0.0.1 (batch 64, offloads on, UDP_GRO enabled) running ListenOut; one plain UDP socket sends UDP_SEGMENT superdatagrams " +
		"(segment sizes 1..1400, 2..16 segments, last possibly shorter) interleaved with plain datagrams shorter than, equal to and longer than earlier segment sizes, " +
		"delivery awaited between units (same recvmmsg slot) or in bursts (consecutive slots); observed = (length, FNV-32a) of every callback payload in order. " +
		"non-trivial = a plain datagram longer than the segment size of an earlier superdatagram; distinct by literal"
	if why := loProbe(); why != "" {
		cw.Meta("skipped", why)
		cw.Close(rule + " -- SKIPPED: " + why)
		return
	}
	seq := uint64(0)
	fill := func(n int) []byte {
		b := c.RandBytes(n)
		if n >= 8 {
			binary.LittleEndian.PutUint64(b, seq)
		}
		seq++
		return b
	}
	skipped := []string{}
	add := func(units []loUnit, kind string) {
		sent, got, ok, why := loRun(units, fill)
		if !ok {
			skipped = append(skipped, kind+": "+why)
			return
		}
		us := make([]string, len(units))
		uj := make([][3]int, len(units))
		nontriv := false
		maxSeg := 0
		for i, u := range units {
			us[i] = hx.Tuple(hx.N(uint64(u.size)), hx.N(uint64(u.seg)))
			w := 0
			if u.wait {
				w = 1
			}
			uj[i] = [3]int{u.size, u.seg, w}
			if u.seg == 0 && maxSeg > 0 && u.size > maxSeg {
				nontriv = true
			}
			if u.seg > 0 && u.seg < u.size && (maxSeg == 0 || u.seg < maxSeg) {
				maxSeg = u.seg
			}
		}
		pairs := func(l []loDgram) (string, [][2]uint64) {
			s := make([]string, len(l))
			j := make([][2]uint64, len(l))
			for i, d := range l {
				s[i] = hx.Tuple(hx.N(uint64(d.n)), hx.N(uint64(d.h)))
				j[i] = [2]uint64{uint64(d.n), uint64(d.h)}
			}
			return hx.List(s), j
		}
		sl, sj := pairs(sent)
		gl, gj := pairs(got)
		cw.Add(hx.App("UdpSplit_corr.CListen", hx.List(us), sl, gl), kind, nontriv,
			map[string]any{"op": "listenout", "units_size_seg_wait": uj, "sent_len_hash": sj, "delivered_len_hash": gj})
	}

	// the shape that shows stale ancillary data: a superdatagram, then (same slot) a plain datagram longer than its segments
	add([]loUnit{{400, 100, true}, {250, 0, true}}, "stale-cmsg")
	add([]loUnit{{400, 100, true}, {250, 0, true}, {99, 0, true}, {100, 0, true}, {101, 0, true}, {1000, 0, true}}, "stale-cmsg")
	for _, s := range []int{1, 7, 50, 100, 512, 1200, 1400} {
		for _, k := range []int{2, 3, 16} {
			total := s * k
			if k == 3 {
				total = s*2 + (s+1)/2 // shorter last segment
			}
			add([]loUnit{{total, s, true}, {s - 1 + 8*btoi(s < 9), 0, true}, {s, 0, true}, {s + 1, 0, true}, {2*s + 50, 0, true}, {total, 0, true}}, "stale-cmsg-sweep")
		}
	}
	// bursts: slots 0..k-1 of one recvmmsg, then the same slots again with different content
	add([]loUnit{{400, 100, false}, {300, 150, false}, {600, 200, true}, {250, 0, false}, {500, 0, false}, {900, 0, true}}, "burst")
	add([]loUnit{{250, 0, false}, {400, 100, false}, {250, 0, true}, {1000, 0, false}, {1000, 0, false}, {1000, 0, true}}, "burst")
	// GSO sends that are not superdatagrams: seg >= size
	add([]loUnit{{100, 100, true}, {100, 200, true}, {400, 100, true}, {401, 0, true}}, "degenerate-seg")

	for i := 0; i < c.N; i++ {
		n := 3 + c.Intn(8)
		var units []loUnit
		lastSeg := 0
		for k := 0; k < n; k++ {
			wait := c.Chance(0.7)
			if c.Chance(0.45) {
				s := []int{8, 20, 100, 200, 500, 1200, 1372, 1400}[c.Intn(8)]
				if c.Chance(0.2) {
					s = 1 + c.Intn(1400)
				}
				cnt := 2 + c.Intn(15)
				total := s * cnt
				if c.Chance(0.5) {
					total -= c.Intn(s)
				}
				units = append(units, loUnit{total, s, wait})
				lastSeg = s
			} else {
				var sz int
				switch {
				case lastSeg > 0 && c.Chance(0.6):
					sz = lastSeg + 1 + c.Intn(3*lastSeg+10)
				case lastSeg > 0 && c.Chance(0.5):
					sz = max(1, lastSeg-c.Intn(3))
				default:
					sz = 1 + c.Intn(3000)
				}
				units = append(units, loUnit{sz, 0, wait})
			}
		}
		add(units, "random")
	}
	if len(skipped) > 0 {
		cw.Meta("scenarios_not_evaluated", skipped)
	}
	cw.Close(rule)
}

func btoi(b bool) int {
	if b {
		return 1
	}
	return 0
}

// Command harness runs one verification component against the nebula working tree.
package main

import (
	"flag"
	"fmt"
	"os"
	"sort"

	"verifharness/hx"
)

func main() {
	seed := flag.Uint64("seed", 1, "PRNG seed")
	n := flag.Int("n", 1000, "number of generated cases")
	tier := flag.String("tier", "quick", "quick|thorough")
	out := flag.String("out", "", "output directory")
	replay := flag.String("replay", "", "replay file")
	flag.Parse()
	if flag.NArg() != 1 || *out == "" {
		names := []string{}
		for k := range hx.Registry {
			names = append(names, k)
		}
		sort.Strings(names)
		fmt.Fprintf(os.Stderr, "usage: harness -out DIR [-seed S -n N -tier T] <component>\ncomponents: %v\n", names)
		os.Exit(2)
	}
	f, ok := hx.Registry[flag.Arg(0)]
	if !ok {
		fmt.Fprintf(os.Stderr, "unknown component %q\n", flag.Arg(0))
		os.Exit(2)
	}
	f(hx.NewCtx(*seed, *n, *tier, *out, *replay))
}

//go:build (comp_all || comp_writebatch) && linux && !android && !e2e_testing

package main

import (
	"encoding/binary"
	"fmt"
	"net/netip"

	"github.com/slackhq/nebula/overlay/batch"
	"github.com/slackhq/nebula/udp"
	"verifharness/hx"
)

func init() { hx.Register("sendbatch", runSendBatch) }

// one step of a history: size >= 0: Reserve + Commit of a datagram of that size to dests[dst]; size < 0: Flush
type sbOp struct{ size, dst int }

type sbScenario struct {
	isV4, gso    bool
	maxSegs, cap int
	arena        int
	dests        []netip.AddrPort
	ops          []sbOp
	script       []udp.VerifWBOutcome
}

// sbRun drives the real batch.SendBatch the way Interface.listenIn / sendInsideMessage do: Reserve a slot, fill it,
// Commit a prefix of it with the destination; Flush at the scripted points (the caller of this function inserts a
// Flush whenever Len() reaches SendBatchCap, as listenIn does).
func sbRun(cw *hx.CaseWriter, sc sbScenario, kind string) {
	wr := udp.VerifNewWBWriter(sc.isV4, sc.gso, sc.maxSegs, sc.cap, sc.script)
	sb := batch.NewSendBatch(wr, batch.SendBatchCap, sc.arena)

	type flushObs struct {
		ids   []uint64
		calls []udp.VerifWBCall
		ret   int
		err   bool
	}
	var flushes []flushObs
	panicMsg := ""
	func() {
		defer func() {
			if r := recover(); r != nil {
				panicMsg = fmt.Sprint(r)
			}
		}()
		id := uint64(0)
		for _, o := range sc.ops {
			if o.size >= 0 {
				scratch := sb.Reserve(o.size + 16) // callers reserve room for header and tag and commit what they used
				for i := range scratch {
					scratch[i] = 0xee
				}
				pkt := scratch[:o.size]
				binary.LittleEndian.PutUint64(pkt[:8], id)
				id++
				sb.Commit(pkt, sc.dests[o.dst])
				continue
			}
			before := len(wr.Batches)
			n, err := sb.Flush()
			fo := flushObs{ret: n, err: err != nil}
			for _, b := range wr.Batches[before:] {
				for _, x := range b.IDs {
					if x < 0 {
						fo.ids = append(fo.ids, wbUnknown)
					} else {
						fo.ids = append(fo.ids, uint64(x))
					}
				}
				fo.calls = append(fo.calls, b.Calls...)
			}
			flushes = append(flushes, fo)
		}
	}()

	dstID := func(e udp.VerifWBEntry) uint64 {
		if !e.AddrOK {
			return wbUnknown
		}
		for i, d := range sc.dests {
			if d.Port() == e.Addr.Port() && d.Addr().Unmap() == e.Addr.Addr().Unmap() {
				return uint64(i)
			}
		}
		return wbUnknown
	}
	ops := make([]string, len(sc.ops))
	opsJ := make([][3]int, len(sc.ops))
	for i, o := range sc.ops {
		if o.size < 0 {
			ops[i] = hx.None()
			opsJ[i] = [3]int{-1, 0, 0}
			continue
		}
		ok := !(sc.isV4 && !sc.dests[o.dst].Addr().Unmap().Is4())
		ops[i] = hx.Some(hx.Tuple(hx.N(uint64(o.size)), hx.N(uint64(o.dst)), hx.Bool(ok)))
		okI := 0
		if ok {
			okI = 1
		}
		opsJ[i] = [3]int{o.size, o.dst, okI}
	}
	ncalls, faults, errFlush := 0, 0, 0
	fl := make([]string, len(flushes))
	flJ := make([]map[string]any, len(flushes))
	for fi, f := range flushes {
		calls := make([]string, len(f.calls))
		callsJ := [][4]int{}
		for ci, cl := range f.calls {
			ups := make([]string, len(cl.Updates))
			for ui, u := range cl.Updates {
				idx := make([]uint64, len(u.Entry.Idx))
				for k, x := range u.Entry.Idx {
					idx[k] = uint64(x)
					if x < 0 {
						idx[k] = wbUnknown
					}
				}
				seg := hx.None()
				if u.Entry.Seg >= 0 {
					seg = hx.Some(hx.N(uint64(u.Entry.Seg)))
				} else if u.Entry.Seg != -1 {
					seg = hx.Some(hx.N(wbUnknown))
				}
				ups[ui] = hx.Tuple(hx.N(uint64(u.Slot)), hx.App("WriteBatch_corr.IE", hx.NList(idx), seg, hx.N(dstID(u.Entry))))
			}
			if cl.Sent < cl.N {
				faults++
			}
			calls[ci] = hx.App("WriteBatch_corr.IC", hx.N(uint64(cl.Start)), hx.N(uint64(cl.N)), hx.List(ups), hx.Z(int64(cl.Sent)), hx.N(uint64(cl.Errno)))
			if len(callsJ) < 20 {
				callsJ = append(callsJ, [4]int{cl.Start, cl.N, cl.Sent, cl.Errno})
			}
		}
		ncalls += len(f.calls)
		if f.err {
			errFlush++
		}
		ret := uint64(wbUnknown)
		if f.ret >= 0 {
			ret = uint64(f.ret)
		}
		fl[fi] = hx.App("SendBatch_corr.IFl", hx.NList(f.ids), hx.List(calls), hx.N(ret), hx.Bool(f.err))
		flJ[fi] = map[string]any{"ids": f.ids, "calls_start_n_sent_errno_first20": callsJ, "ret": f.ret, "err": f.err}
	}
	used := sc.script
	if ncalls < len(used) {
		used = used[:ncalls]
	}
	script := make([]string, len(used))
	scriptJ := make([][2]int, len(used))
	for i, s := range used {
		script[i] = hx.Tuple(hx.Z(int64(s.Sent)), hx.N(uint64(s.Errno)))
		scriptJ[i] = [2]int{s.Sent, s.Errno}
	}
	lit := hx.App("SendBatch_corr.CHist", hx.N(uint64(sc.cap)), hx.Bool(sc.gso), hx.N(uint64(sc.maxSegs)), hx.List(ops), hx.List(script),
		hx.List(fl), hx.Bool(wr.GsoSupported()), hx.Bool(panicMsg != ""))
	// non-trivial: at least two flushes that reached the kernel and some fault among them
	cw.Add(lit, kind, len(flushes) >= 2 && faults > 0, map[string]any{"op": "history", "v4_socket": sc.isV4, "gso": sc.gso, "max_segs": sc.maxSegs,
		"cap": sc.cap, "arena": sc.arena, "ops_size_dst_ok_or_flush": opsJ, "script_sent_errno": scriptJ, "flushes": flJ,
		"flushes_with_error": errFlush, "gso_after": wr.GsoSupported(), "panic": panicMsg})
}

func runSendBatch(c *hx.Ctx) {
	cw := c.NewCaseWriter("From NV Require Import corr.WriteBatch_corr corr.SendBatch_corr.", "SendBatch_corr.case", "SendBatch_corr.check_case", 100)

	ok := func(n int) udp.VerifWBOutcome { return udp.VerifWBOutcome{Sent: n} }
	full := ok(1000)
	fail := func(errno int) udp.VerifWBOutcome { return udp.VerifWBOutcome{Sent: -1, Errno: errno} }
	stall := udp.VerifWBOutcome{Sent: 0, Errno: 0} // zero progress with a nil error: WriteBatch (and Flush) return an error
	commits := func(n, size, dst int) []sbOp {
		r := make([]sbOp, n)
		for i := range r {
			r[i] = sbOp{size, dst}
		}
		return r
	}
	flush := []sbOp{{-1, 0}}
	cat := func(ps ...[]sbOp) []sbOp {
		var o []sbOp
		for _, p := range ps {
			o = append(o, p...)
		}
		return o
	}
	d44 := []netip.AddrPort{wbDest(0, false), wbDest(1, false), wbDest(2, true), wbDest(3, true)}
	base := sbScenario{isV4: true, gso: true, maxSegs: 63, cap: 128, arena: batch.SendBatchCap * (udp.MTU + 32), dests: d44}
	with := func(f func(*sbScenario)) sbScenario { s := base; f(&s); return s }

	// ---- corpus -----------------------------------------------------------------------------------
	corpus := []sbScenario{
		with(func(s *sbScenario) { s.ops = cat(flush, flush) }),
		with(func(s *sbScenario) {
			s.ops = cat(commits(3, 100, 0), flush, commits(2, 100, 1), flush)
			s.script = []udp.VerifWBOutcome{full, full}
		}),
		// partial success, then zero progress with a nil error: Flush returns an error after the kernel took part of
		// the batch; the next round must not hand those datagrams over again
		with(func(s *sbScenario) {
			s.gso = false
			s.ops = cat(commits(4, 100, 0), flush, commits(2, 100, 0), flush, flush, commits(1, 100, 1), flush)
			s.script = []udp.VerifWBOutcome{ok(2), stall, full, full}
		}),
		with(func(s *sbScenario) {
			s.ops = cat(commits(3, 1200, 0), commits(2, 1200, 1), commits(1, 900, 0), flush, commits(3, 1200, 0), flush)
			s.script = []udp.VerifWBOutcome{ok(1), stall, full}
		}),
		with(func(s *sbScenario) { // stall on the very first call, twice in a row
			s.ops = cat(commits(2, 64, 0), flush, commits(2, 64, 0), flush, commits(2, 64, 0), flush)
			s.script = []udp.VerifWBOutcome{stall, stall, full}
		}),
		// EIO on a superpacket in the first flush: GSO stays off for the following flushes
		with(func(s *sbScenario) {
			s.ops = cat(commits(4, 1200, 0), flush, commits(4, 1200, 0), flush)
			s.script = []udp.VerifWBOutcome{fail(wbEIO), ok(2), stall, full}
		}),
		// per-entry rejections and unroutable destinations in the first flush, then more traffic
		with(func(s *sbScenario) {
			s.ops = cat(commits(2, 300, 0), commits(2, 300, 2), commits(1, 300, 1), flush, commits(1, 300, 2), commits(2, 300, 1), flush)
			s.script = []udp.VerifWBOutcome{fail(22), fail(wbENOBUFS), full, ok(0), full}
		}),
		// small scratch: several chunks per flush, error in a later chunk
		with(func(s *sbScenario) {
			s.cap = 2
			s.gso = false
			s.ops = cat(commits(5, 100, 0), flush, commits(3, 100, 1), flush)
			s.script = []udp.VerifWBOutcome{full, ok(1), stall, full, full}
		}),
		// small arena: Reserve regrows the backing between commits of one round
		with(func(s *sbScenario) {
			s.arena = 256
			s.ops = cat(commits(6, 200, 0), flush, commits(6, 200, 0), flush)
			s.script = []udp.VerifWBOutcome{ok(1), stall, full}
		}),
	}
	for _, sc := range corpus {
		sbRun(cw, sc, "corpus")
	}

	// ---- random histories ---------------------------------------------------------------------------
	errnos := []int{1, 11, 22, 90, 101, 111, 113}
	for i := 0; i < c.N; i++ {
		var sc sbScenario
		nd := 1 + c.Intn(4)
		for d := 0; d < nd; d++ {
			sc.dests = append(sc.dests, wbDest(d, c.Chance(0.3)))
		}
		sc.isV4 = c.Chance(0.5)
		sc.gso = c.Chance(0.7)
		sc.maxSegs = []int{63, 63, 127, 2, 3, 5, 1}[c.Intn(7)]
		sc.cap = []int{128, 128, 128, 1, 2, 3, 4, 8, 16}[c.Intn(9)]
		sc.arena = []int{batch.SendBatchCap * (udp.MTU + 32), 4096, 256}[c.Intn(3)]
		rounds := 2 + c.Intn(4)
		queued, total := 0, 0
		for r := 0; r < rounds; r++ {
			n := c.Intn(14)
			if c.Chance(0.04) {
				n = 120 + c.Intn(20) // deep read: listenIn flushes as soon as SendBatchCap datagrams are queued
			}
			for n > 0 {
				d := c.Intn(nd)
				size := []int{32, 64, 100, 1200, 1300, 1400, 1500, 9001}[c.Intn(8)]
				if c.Chance(0.15) {
					size = 8 + c.Intn(1500)
				}
				l := 1 + c.Intn(6)
				if l > n {
					l = n
				}
				for k := 0; k < l; k++ {
					s := size
					if k == l-1 && size > 9 && c.Chance(0.4) {
						s = 8 + c.Intn(size-8)
					}
					sc.ops = append(sc.ops, sbOp{s, d})
					queued++
					total++
					if queued >= batch.SendBatchCap {
						sc.ops = append(sc.ops, sbOp{-1, 0})
						queued = 0
					}
				}
				n -= l
			}
			sc.ops = append(sc.ops, sbOp{-1, 0})
			queued = 0
			if c.Chance(0.1) {
				sc.ops = append(sc.ops, sbOp{-1, 0}) // a flush with nothing queued
			}
		}
		faulty := c.Intn(4)
		ns := 0
		if faulty > 0 {
			ns = 2 + c.Intn(2*total+6)
		}
		for k := 0; k < ns; k++ {
			pf := []int{0, 25, 50, 70}[faulty]
			if c.Intn(100) >= pf {
				sc.script = append(sc.script, full)
				continue
			}
			z := -c.Intn(2)
			switch r := c.Intn(100); {
			case r < 30:
				sc.script = append(sc.script, ok(1+c.Intn(3)))
			case r < 55:
				sc.script = append(sc.script, udp.VerifWBOutcome{Sent: z, Errno: 0}) // Flush returns an error
			case r < 72:
				sc.script = append(sc.script, udp.VerifWBOutcome{Sent: z, Errno: wbEIO})
			case r < 84:
				sc.script = append(sc.script, udp.VerifWBOutcome{Sent: z, Errno: wbENOBUFS})
			case r < 95:
				sc.script = append(sc.script, udp.VerifWBOutcome{Sent: z, Errno: errnos[c.Intn(len(errnos))]})
			default:
				sc.script = append(sc.script, udp.VerifWBOutcome{Sent: 1 + c.Intn(4), Errno: wbEIO})
			}
		}
		kind := []string{"random-clean", "random-light", "random-heavy", "random-heavy"}[faulty]
		sbRun(cw, sc, kind)
	}
	cw.Close("histories on the real batch.SendBatch over the real batchWriter (scripted sendFn): 2..5 rounds of Reserve/Commit (0..13 datagrams, rarely a deep read " +
		"that flushes at SendBatchCap) and Flush, sometimes an empty Flush; 1..4 destinations v4/v6 on a v4- or v6-bound socket; GSO on/off; maxSegs in {63,127,2,3,5,1}; " +
		"scratch in {128,1,2,3,4,8,16}; arena in {production size, 4096, 256}; scripts of full sends, short counts, nil-error zero progress (Flush returns an error), " +
		"EIO/ENOBUFS/other rejections. corpus: partial success followed by zero progress, then further rounds; EIO fallback carried across flushes. " +
		"non-trivial = at least two flushes and some call not fully accepted; distinct by literal")
}

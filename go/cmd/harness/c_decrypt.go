//go:build comp_all || comp_decrypt

package main

import (
	"bytes"
	"crypto/aes"
	"crypto/cipher"
	"encoding/binary"
	"fmt"
	"strings"
	"sync"
	"time"

	"github.com/flynn/noise"
	nebula "github.com/slackhq/nebula"
	"github.com/slackhq/nebula/header"
	"github.com/slackhq/nebula/noiseutil"
	"verifharness/hx"
)

func init() {
	hx.Register("gen_decrypt", genDecrypt)
	hx.Register("decrypt", runDecrypt)
}

// genDecrypt (T1): the window length newConnectionStateFromResult gives every tunnel.
func genDecrypt(c *hx.Ctx) {
	var sb strings.Builder
	sb.WriteString("(* GENERATED from /repo/connection_state.go by harness gen_decrypt: do not edit *)\nFrom Coq Require Import NArith.\nOpen Scope N_scope.\n")
	fmt.Fprintf(&sb, "Definition decrypt_replay_window : N := %d.\n", nebula.VerifDecryptReplayWindow)
	c.WriteFile("Decrypt_consts.v", sb.String())
}

// gatedCipher wraps the real receive cipher. A goroutine whose nonce buffer is registered blocks inside
// DecryptDanger - i.e. between the two critical sections of Decrypt/VerifyRelay - until it is released.
type gatedCipher struct {
	real  noiseutil.CipherState
	mu    sync.Mutex
	gates map[*byte]*decGate
}

type decGate struct {
	entered chan struct{}
	release chan struct{}
}

func (g *gatedCipher) EncryptDanger(out, ad, plaintext []byte, n uint64, nb []byte) ([]byte, error) {
	return g.real.EncryptDanger(out, ad, plaintext, n, nb)
}

func (g *gatedCipher) DecryptDanger(out, ad, ciphertext []byte, n uint64, nb []byte) ([]byte, error) {
	g.mu.Lock()
	gate := g.gates[&nb[0]]
	g.mu.Unlock()
	if gate != nil {
		gate.entered <- struct{}{}
		<-gate.release
	}
	return g.real.DecryptDanger(out, ad, ciphertext, n, nb)
}

func (g *gatedCipher) Overhead() int { return g.real.Overhead() }

type decThread struct {
	relay bool
	ctr   uint64
	auth  bool
}

type decRig struct {
	conn *nebula.VerifConn
	gate *gatedCipher
	aead cipher.AEAD
}

func newDecRig(c *hx.Ctx) *decRig {
	var key [32]byte
	copy(key[:], c.RandBytes(32))
	suite := noise.NewCipherSuite(noise.DH25519, noiseutil.CipherAESGCM, noise.HashSHA256)
	real := noiseutil.NewCipherState(noise.UnsafeNewCipherState(suite, key, 0), noiseutil.CipherAESGCM)
	blk, err := aes.NewCipher(key[:])
	if err != nil {
		panic(err)
	}
	aead, err := cipher.NewGCM(blk)
	if err != nil {
		panic(err)
	}
	g := &gatedCipher{real: real, gates: map[*byte]*decGate{}}
	return &decRig{conn: nebula.VerifNewConn(g), gate: g, aead: aead}
}

// packet builds the wire bytes a peer holding the same key sends for this counter (the peer's own
// EncryptDanger is not used so that counters of any size can be produced).
func (r *decRig) packet(t decThread, payload []byte) []byte {
	nonce := make([]byte, 12)
	binary.BigEndian.PutUint64(nonce[4:], t.ctr)
	var p []byte
	if t.relay {
		hdr := header.Encode(make([]byte, header.Len), header.Version, header.Message, header.MessageRelay, 7, t.ctr)
		body := append(hdr, payload...)
		p = r.aead.Seal(body, nonce, nil, body) // whole body is associated data, tag appended
	} else {
		hdr := header.Encode(make([]byte, header.Len), header.Version, header.Message, header.MessageNone, 7, t.ctr)
		p = r.aead.Seal(hdr, nonce, payload, hdr)
	}
	if !t.auth {
		p[len(p)-1] ^= 0x40 // forged copy
	}
	return p
}

type decRun struct {
	nb      []byte
	done    chan int
	started bool
	inAuth  bool
	fin     bool
	res     int
}

// call runs the real entry point for one packet and maps the result to 0 delivered / 1 already seen / 2 other error.
func (r *decRig) call(t decThread, pkt, nb, payload []byte) int {
	if t.relay {
		return r.conn.VerifyRelay(t.ctr, pkt, nb)
	}
	out, code := r.conn.Decrypt(t.ctr, pkt, nb)
	if code == 0 && !bytes.Equal(out, payload) {
		panic("harness: delivered plaintext differs from what was sealed")
	}
	return code
}

func tdescLit(ts []decThread) string {
	s := make([]string, len(ts))
	for i, t := range ts {
		s[i] = hx.Tuple(hx.Bool(t.relay), hx.N(t.ctr), hx.Bool(t.auth))
	}
	return hx.List(s)
}

func tdescJSON(ts []decThread) []map[string]any {
	r := make([]map[string]any, len(ts))
	for i, t := range ts {
		r[i] = map[string]any{"relay": t.relay, "ctr": t.ctr, "auth": t.auth}
	}
	return r
}

func intsLit(xs []int) string {
	s := make([]string, len(xs))
	for i, x := range xs {
		s[i] = hx.N(uint64(x))
	}
	return hx.List(s)
}

// decScripted runs one scripted interleaving. events: +t = start thread t (its Check section runs, then it
// blocks in the cipher or returns), -t-1... encoded as (t, release bool).
type decEvent struct {
	t       int
	release bool
}

// decSerialised is set when a started thread neither reached the cipher nor returned while another thread was
// parked in the cipher: the code then holds decryptLock across the cipher call (a legitimate rewrite), the
// sections cannot be interleaved at all, and the remaining scenarios run their threads one after the other.
var decSerialised bool

const decParkTimeout = 15 * time.Second

// decSequential runs the threads to completion one at a time (schedule t,t,t per thread) with no gate.
func decSequential(c *hx.Ctx, cw *hx.CaseWriter, ts []decThread, events []decEvent, kind string) {
	rig := newDecRig(c)
	payload := []byte("nebula-verif-payload")
	order, seenT := []int{}, map[int]bool{}
	for _, ev := range events {
		if !seenT[ev.t] {
			seenT[ev.t] = true
			order = append(order, ev.t)
		}
	}
	for i := range ts {
		if !seenT[i] {
			order = append(order, i)
		}
	}
	res := make([]int, len(ts))
	var sched []int
	for _, i := range order {
		res[i] = rig.call(ts[i], rig.packet(ts[i], payload), make([]byte, 12), payload)
		sched = append(sched, i, i, i)
	}
	lit := hx.App("CSched", tdescLit(ts), intsLit(sched), intsLit(res), hx.N(rig.conn.WindowCurrent()), hx.NList(rig.conn.WindowWords()))
	cw.Add(lit, kind+"-sequential-fallback", true, map[string]any{"threads": tdescJSON(ts), "sched": sched, "results": res})
}

func decScripted(c *hx.Ctx, cw *hx.CaseWriter, ts []decThread, events []decEvent, kind string) {
	if decSerialised {
		decSequential(c, cw, ts, events, kind)
		return
	}
	rig := newDecRig(c)
	payload := []byte("nebula-verif-payload")
	runs := make([]*decRun, len(ts))
	for i := range ts {
		runs[i] = &decRun{nb: make([]byte, 12), done: make(chan int, 1), res: -1}
		g := &decGate{entered: make(chan struct{}), release: make(chan struct{})}
		rig.gate.gates[&runs[i].nb[0]] = g
	}
	var sched []int
	bail := false
	for _, ev := range events {
		ru := runs[ev.t]
		g := rig.gate.gates[&ru.nb[0]]
		if !ev.release {
			if ru.started {
				continue
			}
			ru.started = true
			t, pkt := ts[ev.t], rig.packet(ts[ev.t], payload)
			go func() { ru.done <- rig.call(t, pkt, ru.nb, payload) }()
			sched = append(sched, ev.t) // the Check section
			select {
			case <-g.entered:
				ru.inAuth = true
			case ru.res = <-ru.done:
				ru.fin = true
			case <-time.After(decParkTimeout):
				bail = true
			}
			if bail {
				break
			}
		} else {
			if !ru.inAuth || ru.fin {
				continue
			}
			g.release <- struct{}{}
			ru.res = <-ru.done
			ru.fin, ru.inAuth = true, false
			sched = append(sched, ev.t, ev.t) // the cipher call, then the Update section
		}
	}
	if bail {
		// open every gate, let everything run out, and report results only
		decSerialised = true
		rig.gate.mu.Lock()
		gates := rig.gate.gates
		rig.gate.gates = map[*byte]*decGate{}
		rig.gate.mu.Unlock()
		res := make([]int, len(ts))
		for i, ru := range runs {
			if ru.inAuth && !ru.fin {
				gates[&ru.nb[0]].release <- struct{}{}
			}
			if !ru.started {
				ru.started = true
				t, pkt := ts[i], rig.packet(ts[i], payload)
				go func() { ru.done <- rig.call(t, pkt, ru.nb, payload) }()
			}
		}
		for i, ru := range runs {
			if !ru.fin {
				// a thread that had already looked its gate up parks once more: let it through
				select {
				case ru.res = <-ru.done:
				case <-gates[&ru.nb[0]].entered:
					gates[&ru.nb[0]].release <- struct{}{}
					ru.res = <-ru.done
				}
			}
			res[i] = ru.res
		}
		cw.Add(hx.App("CStress", tdescLit(ts), intsLit(res)), kind+"-lock-held-across-cipher", true,
			map[string]any{"threads": tdescJSON(ts), "results": res, "stress": true})
		cw.Meta("serialised", "a started thread blocked while another was parked in the cipher call: decryptLock is held across DecryptDanger; remaining scenarios ran sequentially")
		return
	}
	// whatever is still parked is released in thread order, so every case ends with all threads returned
	for i, ru := range runs {
		g := rig.gate.gates[&ru.nb[0]]
		if !ru.started {
			ru.started = true
			t, pkt := ts[i], rig.packet(ts[i], payload)
			go func() { ru.done <- rig.call(t, pkt, ru.nb, payload) }()
			sched = append(sched, i)
			select {
			case <-g.entered:
				ru.inAuth = true
			case ru.res = <-ru.done:
				ru.fin = true
			}
		}
		if ru.inAuth {
			g.release <- struct{}{}
			ru.res = <-ru.done
			ru.fin = true
			sched = append(sched, i, i)
		}
	}
	res := make([]int, len(ts))
	delivered, dupes := 0, false
	seen := map[uint64]int{}
	for i, ru := range runs {
		res[i] = ru.res
		if ru.res == 0 {
			delivered++
		}
		seen[ts[i].ctr]++
		if seen[ts[i].ctr] > 1 {
			dupes = true
		}
	}
	lit := hx.App("CSched", tdescLit(ts), intsLit(sched), intsLit(res), hx.N(rig.conn.WindowCurrent()), hx.NList(rig.conn.WindowWords()))
	cw.Add(lit, kind, dupes && delivered > 0, map[string]any{"threads": tdescJSON(ts), "sched": sched, "results": res})
}

// all interleavings of the per-thread event pairs (start, release)
func decInterleavings(n int) [][]decEvent {
	var out [][]decEvent
	state := make([]int, n) // 0 not started, 1 started, 2 released
	var cur []decEvent
	var rec func()
	rec = func() {
		if len(cur) == 2*n {
			out = append(out, append([]decEvent(nil), cur...))
			return
		}
		for t := 0; t < n; t++ {
			if state[t] < 2 {
				cur = append(cur, decEvent{t, state[t] == 1})
				state[t]++
				rec()
				state[t]--
				cur = cur[:len(cur)-1]
			}
		}
	}
	rec()
	return out
}

func runDecrypt(c *hx.Ctx) {
	cw := c.NewCaseWriter("From NV Require Import corr.Decrypt_corr.", "Decrypt_corr.case", "Decrypt_corr.check_case", 120)
	W := nebula.VerifDecryptReplayWindow

	// 1. two threads: every interleaving x same/adjacent/out-of-window counters x authentic/forged x direct/relayed
	il2 := decInterleavings(2)
	for _, ctrs := range [][2]uint64{{5, 5}, {5, 6}, {6, 5}, {1, 1}, {W + 9, 9}, {9, W + 9}, {W, 1}} {
		for _, auth := range [][2]bool{{true, true}, {true, false}, {false, true}} {
			for _, rel := range [][2]bool{{false, false}, {false, true}, {true, false}, {true, true}} {
				for _, ev := range il2 {
					ts := []decThread{{rel[0], ctrs[0], auth[0]}, {rel[1], ctrs[1], auth[1]}}
					decScripted(c, cw, ts, ev, "two-threads-all-interleavings")
				}
			}
		}
	}
	// 2. three threads: every interleaving; three copies of one counter, and two copies plus a window-moving jump
	il3 := decInterleavings(3)
	for _, tri := range [][3]decThread{
		{{false, 3, true}, {false, 3, true}, {false, 3, true}},
		{{false, 3, true}, {true, 3, true}, {false, 3, false}},
		{{true, 4, true}, {true, 4, true}, {false, 4 + W, true}},
		{{false, 2, true}, {false, 3, true}, {true, 2, true}},
	} {
		for _, ev := range il3 {
			decScripted(c, cw, tri[:], ev, "three-threads-all-interleavings")
		}
	}

	// 3. random scripted schedules: a sequential prefix that moves the window, then 2..8 threads over a small
	// pool of counters (duplicates, replays of the prefix, stale and fresh counters) in a random interleaving
	for i := 0; i < c.N; i++ {
		var ts []decThread
		var ev []decEvent
		base := uint64(1 + c.Intn(5))
		switch c.Intn(6) {
		case 0:
			base = 1<<32 - uint64(c.Intn(40))
		case 1:
			base = W - 3 + uint64(c.Intn(6))
		}
		npre := c.Intn(6)
		cur := base
		for j := 0; j < npre; j++ { // delivered one after the other
			ts = append(ts, decThread{c.Chance(0.3), cur, c.Chance(0.9)})
			ev = append(ev, decEvent{j, false}, decEvent{j, true})
			cur += uint64(1 + c.Intn(3))
		}
		pool := []uint64{cur, cur + 1, base, cur + W, cur - 1}
		if cur > W {
			pool = append(pool, cur-W, cur-W+1)
		}
		np := 1 + c.Intn(3)
		m := 2 + c.Intn(7)
		first := len(ts)
		for j := 0; j < m; j++ {
			ts = append(ts, decThread{c.Chance(0.35), pool[c.Intn(np)%len(pool)], c.Chance(0.85)})
			if c.Chance(0.15) {
				ts[len(ts)-1].ctr = pool[c.Intn(len(pool))]
			}
		}
		// random merge of the (start, release) pairs
		state := make([]int, m)
		left := 2 * m
		for left > 0 {
			t := c.Intn(m)
			if state[t] < 2 {
				ev = append(ev, decEvent{first + t, state[t] == 1})
				state[t]++
				left--
			}
		}
		decScripted(c, cw, ts, ev, "random-schedule")
	}

	// 4. stress (supporting evidence): free-running goroutines, no gate; only the results are observable
	rounds := 40
	if c.Tier == "thorough" {
		rounds = 600
	}
	for r := 0; r < rounds; r++ {
		rig := newDecRig(c)
		payload := []byte("nebula-verif-payload")
		m := 8 + c.Intn(25)
		np := 1 + c.Intn(4)
		base := uint64(1 + c.Intn(50))
		ts := make([]decThread, m)
		pkts := make([][]byte, m)
		for j := range ts {
			ts[j] = decThread{c.Chance(0.4), base + uint64(c.Intn(np)), c.Chance(0.9)}
			pkts[j] = rig.packet(ts[j], payload)
		}
		res := make([]int, m)
		var wg sync.WaitGroup
		start := make(chan struct{})
		for j := range ts {
			wg.Add(1)
			go func(j int) {
				defer wg.Done()
				nb := make([]byte, 12)
				<-start
				res[j] = rig.call(ts[j], pkts[j], nb, payload)
			}(j)
		}
		close(start)
		wg.Wait()
		cw.Add(hx.App("CStress", tdescLit(ts), intsLit(res)), "stress", true,
			map[string]any{"threads": tdescJSON(ts), "results": res, "stress": true})
	}
	cw.Close("real ConnectionState.Decrypt/VerifyRelay (AES-GCM receive key, NewBits(ReplayWindow)) driven from goroutines that the harness parks inside the cipher call: all interleavings of 2 and 3 threads over same/adjacent/out-of-window counters, authentic/forged, direct/relayed; random schedules of 2..8 threads after a sequential prefix; free-running stress rounds; non-trivial = a counter sent more than once and something delivered; distinct by literal")
}

//go:build comp_all || comp_payload

package main

// C08: handshake payload codec. Observes handshake.MarshalPayload / UnmarshalPayload (hand-written protowire code)
// and the gogofaster-generated NebulaHandshake codec for the same schema (c_payload_pb.go, produced by the very
// generator nebula.pb.go comes from; see go/hspbgen/mkreq.go) on valid, mutated and grammar-generated inputs.

import (
	"fmt"

	"github.com/slackhq/nebula/handshake"
	"google.golang.org/protobuf/encoding/protowire"
	"verifharness/hx"
)

func init() { hx.Register("payload", runPayload) }

// ---- observations -------------------------------------------------------------------------------

type hObs struct {
	panicked bool
	ok       bool
	p        handshake.Payload
}

func obsUnmarshal(b []byte) (o hObs) {
	defer func() {
		if r := recover(); r != nil {
			o = hObs{panicked: true}
		}
	}()
	in := append([]byte(nil), b...)
	p, err := handshake.UnmarshalPayload(in)
	if err != nil {
		return hObs{}
	}
	return hObs{ok: true, p: p}
}

func ptuple(p handshake.Payload) string {
	return hx.Tuple(hx.Bytes(p.Cert), hx.N(uint64(p.InitiatorIndex)), hx.N(uint64(p.ResponderIndex)), hx.N(p.Time), hx.N(uint64(p.CertVersion)))
}

func (o hObs) lit() string {
	switch {
	case o.panicked:
		return hx.None()
	case !o.ok:
		return hx.Some(hx.None())
	default:
		return hx.Some(hx.Some(ptuple(o.p)))
	}
}

func (o hObs) json() any {
	switch {
	case o.panicked:
		return "panic"
	case !o.ok:
		return "error"
	default:
		return map[string]any{"cert": hx.Ints(o.p.Cert), "ii": o.p.InitiatorIndex, "ri": o.p.ResponderIndex, "time": fmt.Sprint(o.p.Time), "ver": o.p.CertVersion}
	}
}

type gObs struct {
	panicked bool
	ok       bool
	m        NebulaHandshake
}

func obsSchema(b []byte) (o gObs) {
	defer func() {
		if r := recover(); r != nil {
			o = gObs{panicked: true}
		}
	}()
	var m NebulaHandshake
	if err := m.Unmarshal(append([]byte(nil), b...)); err != nil {
		return gObs{}
	}
	return gObs{ok: true, m: m}
}

func mtuple(m *NebulaHandshake) string {
	d := hx.None()
	if m.Details != nil {
		x := m.Details
		d = hx.Some(hx.Tuple(hx.Bytes(x.Cert), hx.N(uint64(x.InitiatorIndex)), hx.N(uint64(x.ResponderIndex)), hx.N(x.Cookie), hx.N(x.Time), hx.N(uint64(x.CertVersion))))
	}
	return hx.Tuple(d, hx.Bytes(m.Hmac))
}

func (o gObs) lit() string {
	switch {
	case o.panicked:
		return hx.None()
	case !o.ok:
		return hx.Some(hx.None())
	default:
		return hx.Some(hx.Some(mtuple(&o.m)))
	}
}

func (o gObs) json() any {
	switch {
	case o.panicked:
		return "panic"
	case !o.ok:
		return "error"
	default:
		if o.m.Details == nil {
			return map[string]any{"details": nil, "hmac": hx.Ints(o.m.Hmac)}
		}
		x := o.m.Details
		return map[string]any{"cert": hx.Ints(x.Cert), "ii": x.InitiatorIndex, "ri": x.ResponderIndex, "cookie": fmt.Sprint(x.Cookie), "time": fmt.Sprint(x.Time), "ver": x.CertVersion, "hmac": hx.Ints(o.m.Hmac)}
	}
}

// ---- wire-format building blocks ------------------------------------------------------------------

// varintForm encodes v; form 0 minimal, 1 padded with k extra continuation groups (non-minimal), 2 ten bytes with
// a 10th byte carrying extra high bits (overlong), 3 eleven bytes.
func varintForm(c *hx.Ctx, v uint64, form int) []byte {
	min := protowire.AppendVarint(nil, v)
	switch form {
	case 1:
		if len(min) >= 10 {
			return min
		}
		k := 1 + c.Intn(10-len(min))
		b := append([]byte(nil), min...)
		b[len(b)-1] |= 0x80
		for i := 0; i < k-1; i++ {
			b = append(b, 0x80)
		}
		return append(b, 0x00)
	case 2:
		b := make([]byte, 10)
		for i := 0; i < 9; i++ {
			b[i] = byte(v>>(7*uint(i)))&0x7f | 0x80
		}
		b[9] = byte(v>>63) | byte(2+c.Intn(126))&0x7e
		return b
	case 3:
		b := make([]byte, 11)
		for i := 0; i < 10; i++ {
			b[i] = byte(v>>(7*uint(i)))&0x7f | 0x80
		}
		b[10] = byte(c.Intn(2))
		return b
	}
	return min
}

func tagBytes(num uint64, typ int) []byte { return protowire.AppendVarint(nil, num<<3|uint64(typ&7)) }

func edgeVal(c *hx.Ctx) uint64 {
	switch c.Intn(10) {
	case 0:
		return c.EdgeU64(7)
	case 1:
		return c.EdgeU64(14)
	case 2, 3:
		return c.EdgeU64(32)
	case 4:
		return 1<<32 + uint64(c.Intn(3))
	case 5:
		return c.EdgeU64(63)
	default:
		return c.EdgeU64(64)
	}
}

func randCert(c *hx.Ctx) []byte {
	switch c.Intn(10) {
	case 0:
		return nil
	case 1:
		return []byte{}
	case 2:
		if c.Chance(0.5) {
			return c.RandBytes(127 + c.Intn(3)) // 1 -> 2 byte length prefix
		}
		return c.RandBytes(200 + c.Intn(200))
	default:
		return c.RandBytes(1 + c.Intn(40))
	}
}

func randPayload(c *hx.Ctx) handshake.Payload {
	p := handshake.Payload{Cert: randCert(c)}
	if c.Chance(0.85) {
		p.InitiatorIndex = uint32(c.EdgeU64(32))
	}
	if c.Chance(0.7) {
		p.ResponderIndex = uint32(c.EdgeU64(32))
	}
	if c.Chance(0.85) {
		p.Time = c.EdgeU64(64)
	}
	if c.Chance(0.8) {
		p.CertVersion = uint32(c.Pick([]uint64{1, 2, 2, 2, 3, 127, 128, 1<<32 - 1}))
	}
	return p
}

// detailsFields returns the Details fields of p as separate chunks, the way MarshalPayload lays them out.
func detailsFields(p handshake.Payload) [][]byte {
	var fs [][]byte
	if len(p.Cert) > 0 {
		fs = append(fs, protowire.AppendBytes(tagBytes(1, 2), p.Cert))
	}
	if p.InitiatorIndex != 0 {
		fs = append(fs, protowire.AppendVarint(tagBytes(2, 0), uint64(p.InitiatorIndex)))
	}
	if p.ResponderIndex != 0 {
		fs = append(fs, protowire.AppendVarint(tagBytes(3, 0), uint64(p.ResponderIndex)))
	}
	if p.Time != 0 {
		fs = append(fs, protowire.AppendVarint(tagBytes(5, 0), p.Time))
	}
	if p.CertVersion != 0 {
		fs = append(fs, protowire.AppendVarint(tagBytes(8, 0), uint64(p.CertVersion)))
	}
	return fs
}

func join(fs [][]byte) []byte {
	var b []byte
	for _, f := range fs {
		b = append(b, f...)
	}
	return b
}

func insertAt(fs [][]byte, i int, f []byte) [][]byte {
	out := make([][]byte, 0, len(fs)+1)
	out = append(out, fs[:i]...)
	out = append(out, f)
	return append(out, fs[i:]...)
}

func wrapDetails(d []byte) []byte { return protowire.AppendBytes(tagBytes(1, 2), d) }

// valueFor returns a well-formed value for wire type typ (groups: an empty or one-field group closed with num).
func valueFor(c *hx.Ctx, num uint64, typ int) []byte {
	switch typ {
	case 0:
		return varintForm(c, edgeVal(c), c.Intn(2))
	case 1:
		return c.RandBytes(8)
	case 2:
		return protowire.AppendBytes(nil, c.RandBytes(c.Intn(6)))
	case 3:
		var b []byte
		if c.Chance(0.5) {
			n2 := uint64(1 + c.Intn(20))
			t2 := []int{0, 1, 2, 5, 3}[c.Intn(5)]
			b = append(tagBytes(n2, t2), valueFor(c, n2, t2)...)
		}
		return append(b, tagBytes(num, 4)...)
	case 5:
		return c.RandBytes(4)
	}
	return nil
}

var knownDetails = []uint64{1, 2, 3, 5, 8}

func expectedType(num uint64) int {
	if num == 1 {
		return 2
	}
	return 0
}

func unknownNum(c *hx.Ctx, outer bool) uint64 {
	for {
		var n uint64
		switch c.Intn(4) {
		case 0:
			n = uint64(1 + c.Intn(16))
		case 1:
			n = uint64(c.Pick([]uint64{4, 6, 7, 9, 15, 16, 2047, 2048, 1<<29 - 1, 1 << 29, 1<<31 - 1}))
		default:
			n = uint64(9 + c.Intn(200))
		}
		if outer {
			if n != 1 {
				return n
			}
			continue
		}
		known := false
		for _, k := range knownDetails {
			known = known || k == n
		}
		if !known {
			return n
		}
	}
}

// junkField: one field from the wire grammar, frequently malformed.
func junkField(c *hx.Ctx, depth int) []byte {
	var num uint64
	switch c.Intn(12) {
	case 0:
		num = 0
	case 1:
		num = c.Pick([]uint64{1 << 29, 1<<31 - 1, 1 << 31, 1<<32 + 1, 1<<32 + 5, 1<<61 - 1, 1<<61 - 3})
	case 2:
		num = uint64(9 + c.Intn(3000))
	default:
		num = c.Pick([]uint64{1, 1, 2, 2, 3, 4, 5, 5, 6, 7, 8, 8, 9})
	}
	typ := c.Intn(8)
	if c.Chance(0.6) {
		typ = []int{0, 0, 0, 2, 2, 1, 5, 3}[c.Intn(8)]
	}
	tag := varintForm(c, num<<3|uint64(typ), []int{0, 0, 0, 0, 0, 1, 2, 3}[c.Intn(8)])
	var val []byte
	switch typ {
	case 0:
		val = varintForm(c, edgeVal(c), []int{0, 0, 0, 0, 1, 1, 2, 3}[c.Intn(8)])
		if c.Chance(0.05) && len(val) > 1 {
			val = val[:len(val)-1]
		}
	case 1:
		val = c.RandBytes([]int{8, 8, 8, 7, 3, 0}[c.Intn(6)])
	case 5:
		val = c.RandBytes([]int{4, 4, 4, 3, 0}[c.Intn(5)])
	case 2:
		body := c.RandBytes(c.Intn(12))
		if depth < 2 && c.Chance(0.4) {
			body = junkFields(c, depth+1, c.Intn(4))
		}
		l := uint64(len(body))
		switch c.Intn(10) {
		case 0:
			l += uint64(1 + c.Intn(3))
		case 1:
			l = c.Pick([]uint64{1 << 31, 1 << 62, 1 << 63, 1<<64 - 1, 1<<63 - 1})
		}
		val = append(varintForm(c, l, []int{0, 0, 0, 1, 2}[c.Intn(5)]), body...)
	case 3:
		if depth < 3 {
			val = junkFields(c, depth+1, c.Intn(3))
		}
		end := num
		if c.Chance(0.2) {
			end = uint64(1 + c.Intn(10))
		}
		if c.Chance(0.85) {
			val = append(val, tagBytes(end, 4)...)
		}
	case 4, 6, 7:
		val = c.RandBytes(c.Intn(3))
	}
	return append(tag, val...)
}

func junkFields(c *hx.Ctx, depth, n int) []byte {
	var b []byte
	for i := 0; i < n; i++ {
		b = append(b, junkField(c, depth)...)
	}
	return b
}

func mutate(c *hx.Ctx, b []byte) []byte {
	b = append([]byte(nil), b...)
	for k := 1 + c.Intn(2); k > 0; k-- {
		switch op := c.Intn(6); {
		case op == 0 && len(b) > 0: // flip a bit
			b[c.Intn(len(b))] ^= 1 << uint(c.Intn(8))
		case op == 1: // insert a byte
			i := c.Intn(len(b) + 1)
			b = append(b[:i], append([]byte{byte(c.Pick([]uint64{0, 1, 0x7f, 0x80, 0xff, uint64(c.Intn(256))}))}, b[i:]...)...)
		case op == 2 && len(b) > 0: // delete a byte
			i := c.Intn(len(b))
			b = append(b[:i], b[i+1:]...)
		case op == 3 && len(b) > 0: // truncate
			b = b[:c.Intn(len(b))]
		case op == 4 && len(b) > 0: // overwrite a byte
			b[c.Intn(len(b))] = byte(c.Intn(256))
		case op == 5 && len(b) > 1: // duplicate a slice
			i := c.Intn(len(b))
			j := i + c.Intn(len(b)-i)
			b = append(b[:j], append(append([]byte(nil), b[i:j]...), b[j:]...)...)
		}
	}
	return b
}

// ---- the component ----------------------------------------------------------------------------------

func runPayload(c *hx.Ctx) {
	cw := c.NewCaseWriter("From NV Require Import corr.Payload_corr.", "Payload_corr.case", "Payload_corr.check_case", 200)

	pjson := func(p handshake.Payload) any {
		return map[string]any{"cert": hx.Ints(p.Cert), "ii": p.InitiatorIndex, "ri": p.ResponderIndex, "time": fmt.Sprint(p.Time), "ver": p.CertVersion}
	}
	addMarshal := func(kind string, p handshake.Payload, pre []byte) {
		var out []byte
		panicked := false
		func() {
			defer func() {
				if r := recover(); r != nil {
					panicked = true
				}
			}()
			out = handshake.MarshalPayload(append([]byte(nil), pre...), p)
		}()
		if panicked {
			i := cw.Total()
			cw.Add(hx.App("Payload_corr.CMarshal", ptuple(p), hx.Bytes(pre), "[]", hx.None(), hx.None()), kind, false,
				map[string]any{"op": "marshal", "p": pjson(p), "panic": true})
			_ = i
			return
		}
		body := out
		if len(out) >= len(pre) {
			body = out[len(pre):]
		}
		h := obsUnmarshal(body)
		g := obsSchema(body)
		cw.Add(hx.App("Payload_corr.CMarshal", ptuple(p), hx.Bytes(pre), hx.Bytes(out), h.lit(), g.lit()), kind, true,
			map[string]any{"op": "marshal", "p": pjson(p), "prefix": hx.Ints(pre), "out": hx.Ints(out), "decoded": h.json(), "schema_decoded": g.json()})
	}
	addUnmarshal := func(kind string, b []byte) {
		h := obsUnmarshal(b)
		g := obsSchema(b)
		cw.Add(hx.App("Payload_corr.CUnmarshal", hx.Bytes(b), h.lit(), g.lit()), kind, h.ok || g.ok,
			map[string]any{"op": "unmarshal", "bytes": hx.Ints(b), "handwritten": h.json(), "generated": g.json()})
	}
	addReject := func(kind string, rule int, b []byte) {
		h := obsUnmarshal(b)
		cw.Add(hx.App("Payload_corr.CReject", hx.N(uint64(rule)), hx.Bytes(b), h.lit()), kind, true,
			map[string]any{"op": "reject", "rule": kind, "bytes": hx.Ints(b), "handwritten": h.json()})
	}
	addSchema := func(kind string, m *NebulaHandshake) {
		enc, err := m.Marshal()
		if err != nil {
			panic(err)
		}
		h := obsUnmarshal(enc)
		cw.Add(hx.App("Payload_corr.CSchema", mtuple(m), hx.Bytes(enc), h.lit()), kind, true,
			map[string]any{"op": "schema", "msg": gObs{ok: true, m: *m}.json(), "enc": hx.Ints(enc), "handwritten": h.json()})
	}
	addSkip := func(kind string, with, without []byte) {
		hw, ho := obsUnmarshal(with), obsUnmarshal(without)
		cw.Add(hx.App("Payload_corr.CSkip", hx.Bytes(with), hx.Bytes(without), hw.lit(), ho.lit()), kind, hw.ok,
			map[string]any{"op": "skip", "with": hx.Ints(with), "without": hx.Ints(without), "handwritten_with": hw.json(), "handwritten_without": ho.json()})
	}

	// ---- boundary sweep ----
	edges := []uint64{0, 1, 127, 128, 16383, 16384, 1<<31 - 1, 1 << 31, 1<<32 - 1}
	tedges := []uint64{0, 1, 127, 128, 1<<32 - 1, 1 << 32, 1<<56 - 1, 1 << 56, 1<<63 - 1, 1 << 63, 1<<64 - 1}
	for _, e := range edges {
		addMarshal("marshal-edge", handshake.Payload{Cert: []byte{1}, InitiatorIndex: uint32(e), ResponderIndex: uint32(e), Time: 7, CertVersion: uint32(e)}, nil)
	}
	for _, e := range tedges {
		addMarshal("marshal-edge", handshake.Payload{Time: e}, nil)
	}
	certLens := []int{0, 1, 127, 128, 129, 500}
	if c.Tier == "thorough" {
		certLens = append(certLens, 16383, 16384) // 2 -> 3 byte length prefix (large literals are slow to evaluate)
	}
	for _, l := range certLens {
		addMarshal("marshal-edge", handshake.Payload{Cert: make([]byte, l), InitiatorIndex: 1}, []byte{0xaa})
	}
	addMarshal("marshal-edge", handshake.Payload{Cert: []byte{}}, nil)
	for _, b := range [][]byte{nil, {0x0a, 0x00}, {0x0a}, {0x0a, 0x01}, {0x08, 0x05}, {0x12, 0x00}, {0x10, 0x01}, {0x0a, 0x02, 0x08, 0x05}, {0x0a, 0x02, 0x20, 0x05},
		{0x0a, 0x02, 0x22, 0x00}, {0x0a, 0x02, 0x0b, 0x0c}, {0x0b, 0x0c}, {0x0b, 0x14}, {0x0c}, {0x00}, {0x80}, {0xff, 0xff, 0xff, 0xff, 0xff, 0xff, 0xff, 0xff, 0xff, 0x01},
		{0x0a, 0x06, 0x10, 0x80, 0x80, 0x80, 0x80, 0x10}, {0x0a, 0x0b, 0x28, 0xff, 0xff, 0xff, 0xff, 0xff, 0xff, 0xff, 0xff, 0xff, 0x02},
		{0x0a, 0x0b, 0x28, 0xff, 0xff, 0xff, 0xff, 0xff, 0xff, 0xff, 0xff, 0xff, 0x01}} {
		addUnmarshal("corpus", b)
	}
	// Details = 1 of the outer message with a wire type other than bytes (F15): varint, fixed64, fixed32, groups, reserved
	for _, b := range [][]byte{{0x08, 0x05}, {0x09, 1, 2, 3, 4, 5, 6, 7, 8}, {0x0d, 1, 2, 3, 4}, {0x0b, 0x0c}, {0x0c}, {0x0e}, {0x0f},
		{0x0a, 0x02, 0x10, 0x07, 0x08, 0x05}, {0x08, 0x05, 0x0a, 0x02, 0x10, 0x07}} {
		addReject("wrong-wiretype-outer", 1, b)
	}
	// group nesting around protowire's recursion limit (10001 levels pass, 10002 fail): outer unknown field 3
	for _, levels := range []int{10001, 10002} {
		var b []byte
		for i := 0; i < levels; i++ {
			b = append(b, 0x1b)
		}
		for i := 0; i < levels; i++ {
			b = append(b, 0x1c)
		}
		addUnmarshal("group-depth", b)
	}

	// ---- random cases ----
	for i := 0; i < c.N; i++ {
		switch r := c.Intn(100); {
		case r < 22: // valid payloads
			var pre []byte
			if c.Chance(0.3) {
				pre = c.RandBytes(1 + c.Intn(6))
			}
			addMarshal("marshal", randPayload(c), pre)
		case r < 32: // schema messages through the generated encoder
			m := &NebulaHandshake{}
			if c.Chance(0.9) {
				p := randPayload(c)
				m.Details = &NebulaHandshakeDetails{Cert: p.Cert, InitiatorIndex: p.InitiatorIndex, ResponderIndex: p.ResponderIndex, Time: p.Time, CertVersion: p.CertVersion}
				if c.Chance(0.3) {
					m.Details.Cookie = c.EdgeU64(64)
				}
			}
			if c.Chance(0.4) {
				m.Hmac = c.RandBytes(c.Intn(33))
			}
			addSchema("schema", m)
		case r < 47: // mutated valid encodings
			b := handshake.MarshalPayload(nil, randPayload(c))
			addUnmarshal("mutated", mutate(c, b))
		case r < 62: // grammar junk: outer level and details level
			var b []byte
			if c.Chance(0.3) {
				b = junkFields(c, 0, c.Intn(4))
			}
			nd := 1 + c.Intn(2)
			for k := 0; k < nd; k++ {
				d := junkFields(c, 1, c.Intn(6))
				if c.Chance(0.5) {
					fs := detailsFields(randPayload(c))
					d = append(join(fs), d...)
				}
				b = append(b, wrapDetails(d)...)
				if c.Chance(0.3) {
					b = append(b, junkField(c, 0)...)
				}
			}
			addUnmarshal("grammar", b)
		case r < 70: // repeated fields and repeated Details (last wins / merge), valid throughout
			fs := detailsFields(randPayload(c))
			fs2 := detailsFields(randPayload(c))
			var b []byte
			if c.Chance(0.5) {
				all := append(append([][]byte{}, fs...), fs2...)
				c.Rng.Shuffle(len(all), func(i, j int) { all[i], all[j] = all[j], all[i] })
				b = wrapDetails(join(all))
			} else {
				b = append(wrapDetails(join(fs)), wrapDetails(join(fs2))...)
			}
			addUnmarshal("repeated", b)
		case r < 88: // one injected violation of a rejection rule
			p := randPayload(c)
			fs := detailsFields(p)
			pos := c.Intn(len(fs) + 1)
			switch c.Intn(5) {
			case 0: // known field, wrong wire type, value well formed for that type
				num := knownDetails[c.Intn(len(knownDetails))]
				typ := c.Intn(8)
				for typ == expectedType(num) {
					typ = c.Intn(8)
				}
				f := append(tagBytes(num, typ), valueFor(c, num, typ)...)
				if c.Chance(0.3) { // the outer message's known field: Details = 1 with a wire type other than bytes
					typ = []int{0, 1, 3, 4, 5, 6, 7}[c.Intn(7)]
					f = append(tagBytes(1, typ), valueFor(c, 1, typ)...)
					w := wrapDetails(join(fs))
					if c.Chance(0.5) {
						addReject("wrong-wiretype-outer", 1, append(append([]byte(nil), f...), w...))
					} else {
						addReject("wrong-wiretype-outer", 1, append(append([]byte(nil), w...), f...))
					}
					break
				}
				addReject("wrong-wiretype", 1, wrapDetails(join(insertAt(fs, pos, f))))
			case 1: // 32-bit field above 2^32-1
				num := []uint64{2, 3, 8}[c.Intn(3)]
				v := uint64(1)<<32 + c.EdgeU64(32)
				if c.Chance(0.5) {
					v = c.EdgeU64(64) | 1<<uint(32+c.Intn(32))
				}
				f := append(tagBytes(num, 0), varintForm(c, v, c.Intn(2))...)
				addReject("u32-range", 2, wrapDetails(join(insertAt(fs, pos, f))))
			case 2: // details end inside a varint (of a known varint field, or of a tag)
				num := []uint64{2, 3, 5, 8}[c.Intn(4)]
				v := protowire.AppendVarint(nil, c.EdgeU64(64)|1<<uint(7+c.Intn(57)))
				v = v[:1+c.Intn(len(v)-1)]
				f := append(tagBytes(num, 0), v...)
				if c.Chance(0.2) {
					f = []byte{0x80 | byte(c.Intn(128))}
				}
				addReject("truncated-varint", 3, wrapDetails(append(join(fs), f...)))
			case 3: // a length-delimited field running past the end
				if c.Chance(0.5) {
					cert := c.RandBytes(c.Intn(20))
					f := append(tagBytes(1, 2), protowire.AppendVarint(nil, uint64(len(cert)+1+c.Intn(200)))...)
					f = append(f, cert...)
					addReject("length-overrun", 4, wrapDetails(append(join(fs), f...)))
				} else {
					d := join(fs)
					b := append(tagBytes(1, 2), protowire.AppendVarint(nil, uint64(len(d)+1+c.Intn(200)))...)
					addReject("length-overrun", 4, append(b, d...))
				}
			case 4: // varint that does not fit 64 bits, in a known varint field
				num := []uint64{2, 3, 5, 8}[c.Intn(4)]
				f := append(tagBytes(num, 0), varintForm(c, c.EdgeU64(32), 2+c.Intn(2))...)
				addReject("varint-overflow", 5, wrapDetails(join(insertAt(fs, pos, f))))
			}
		default: // unknown fields are skipped: same bytes with and without a well-formed unknown field
			p := randPayload(c)
			fs := detailsFields(p)
			typ := []int{0, 1, 2, 5, 3}[c.Intn(5)]
			if c.Chance(0.6) {
				num := unknownNum(c, false)
				f := append(tagBytes(num, typ), valueFor(c, num, typ)...)
				addSkip("skip-details", wrapDetails(join(insertAt(fs, c.Intn(len(fs)+1), f))), wrapDetails(join(fs)))
			} else {
				num := unknownNum(c, true)
				f := append(tagBytes(num, typ), valueFor(c, num, typ)...)
				w := wrapDetails(join(fs))
				if c.Chance(0.5) {
					addSkip("skip-outer", append(append([]byte(nil), f...), w...), w)
				} else {
					addSkip("skip-outer", append(append([]byte(nil), w...), f...), w)
				}
			}
		}
	}
	cw.Close("payloads with edge-biased 32/64-bit fields and certs of 0..500 bytes through MarshalPayload/UnmarshalPayload and the generated NebulaHandshake codec; " +
		"mutated encodings; wire-grammar junk (unknown/repeated fields, groups, non-minimal and overlong varints, bad lengths); one-violation inputs per rejection rule; " +
		"unknown-field insertion; non-trivial = accepted by at least one decoder or a by-construction rule case; distinct by literal")
}

//go:build comp_all || comp_certsign

package main

// certsign (C04): TBSCertificate.Sign / SignWith over generated TBS x signers, p256.Normalize / Swap /
// IsNormalized over chosen s values, and the built `nebula-cert ca` / `nebula-cert sign` commands.
// Shares the certificate translation and the CA universe with c_certverify.go.

import (
	"crypto/elliptic"
	"encoding/asn1"
	"errors"
	"fmt"
	"math/big"
	"net/netip"
	"os"
	"os/exec"
	"path/filepath"
	"strings"
	"sync"
	"time"

	"github.com/slackhq/nebula/cert"
	"github.com/slackhq/nebula/cert/p256"
	"verifharness/hx"
)

func init() {
	hx.Register("gen_certsign", genCertSign)
	hx.Register("certsign", runCertSign)
}

// genCertSign (T1): the P-256 group order and low-S threshold the package computes with, and the numeric
// values of the curve / version enums the model hard-codes.
func genCertSign(c *hx.Ctx) {
	n := p256.VerifN()
	if n.Cmp(elliptic.P256().Params().N) != 0 {
		panic("p256 package modulus differs from elliptic.P256().Params().N")
	}
	var sb strings.Builder
	sb.WriteString("(* GENERATED from /repo/cert and /repo/cert/p256 by harness gen_certsign: do not edit *)\nFrom Coq Require Import NArith.\nOpen Scope N_scope.\n")
	fmt.Fprintf(&sb, "Definition p256_n : N := %s.\n", n.String())
	fmt.Fprintf(&sb, "Definition p256_half_n : N := %s.\n", p256.VerifHalfN().String())
	fmt.Fprintf(&sb, "Definition curve_25519 : N := %d.\nDefinition curve_p256 : N := %d.\n", cert.Curve_CURVE25519, cert.Curve_P256)
	fmt.Fprintf(&sb, "Definition version1 : N := %d.\nDefinition version2 : N := %d.\n", cert.Version1, cert.Version2)
	fmt.Fprintf(&sb, "Definition max_name_length : N := %d.\n", cert.MaxNameLength)
	c.WriteFile("Consts_CertSign.v", sb.String())
}

func csTbsLit(t *cert.TBSCertificate) string {
	return hx.App("mkTbs", hx.N(uint64(t.Version)), hx.Str(t.Name), cvPfxList(t.Networks), cvPfxList(t.UnsafeNetworks),
		cvStrList(t.Groups), hx.Bool(t.IsCA), cvTimeLit(t.NotBefore), cvTimeLit(t.NotAfter), hx.Bytes(t.PublicKey), hx.N(uint64(uint32(t.Curve))))
}

func csTbsJSON(t *cert.TBSCertificate) map[string]any {
	nets, un := []string{}, []string{}
	for _, p := range t.Networks {
		nets = append(nets, p.String())
	}
	for _, p := range t.UnsafeNetworks {
		un = append(un, p.String())
	}
	return map[string]any{"v": int(t.Version), "curve": int(t.Curve), "name": t.Name, "networks": nets, "unsafe": un, "groups": t.Groups,
		"isCA": t.IsCA, "nb": cvTimeNs(t.NotBefore).String(), "na": cvTimeNs(t.NotAfter).String(), "publen": len(t.PublicKey)}
}

func csIsNormalized(c cert.Certificate) bool {
	if c.Curve() != cert.Curve_P256 {
		return true
	}
	ok, err := p256.IsNormalized(c.Signature())
	return err == nil && ok
}

// csVerdicts verifies rc against a pool holding exactly signer at the boundary instants of rc.
func csVerdicts(signer cert.Certificate, rc cert.Certificate) (string, []map[string]any, bool) {
	pool := cert.NewCAPool()
	if err := pool.AddCA(signer); err != nil && !errors.Is(err, cert.ErrExpired) {
		return "[]", nil, false // the signer is not something a pool accepts (not a CA)
	}
	nb, na := rc.NotBefore(), rc.NotAfter()
	ts := []time.Time{nb, na, nb.Add(na.Sub(nb) / 2), nb.Add(-time.Nanosecond), na.Add(time.Nanosecond)}
	var items []string
	var js []map[string]any
	for _, t := range ts {
		_, err := pool.VerifyCertificate(t, rc)
		items = append(items, hx.Tuple(cvTimeLit(t), hx.Bool(err == nil)))
		js = append(js, map[string]any{"t": cvTimeNs(t).String(), "verdict": cvErrClass(err)})
	}
	return hx.List(items), js, true
}

func runCertSign(c *hx.Ctx) {
	// the nebula-cert binary is built in the background while the API cases are generated
	bin := filepath.Join(c.Out, "bin", "nebula-cert")
	buildDone := make(chan string, 1)
	go func() {
		out, err := exec.Command("go", "build", "-o", bin, "github.com/slackhq/nebula/cmd/nebula-cert").CombinedOutput()
		if err != nil {
			buildDone <- fmt.Sprintf("building nebula-cert: %v\n%s", err, out)
			return
		}
		buildDone <- ""
	}()
	u := cvBuildUniverse(c)
	cw := c.NewCaseWriter("From NV Require Import model.Cert corr.CertSign_corr.\n"+u.preamble, "CertSign_corr.case", "CertSign_corr.check_case", 150)
	stats := map[string]int{}
	var failures []map[string]any

	// ---- 1. p256.Normalize / Swap / IsNormalized on chosen s (emitted after the corpus witnesses) -------
	doNormalize := func() {
		n := p256.VerifN()
		half := p256.VerifHalfN()
		one := big.NewInt(1)
		add := func(a *big.Int, d int64) *big.Int { return new(big.Int).Add(a, big.NewInt(d)) }
		svals := []*big.Int{big.NewInt(0), one, big.NewInt(2), add(half, -1), half, add(half, 1), add(half, 2), add(n, -2), add(n, -1), n, add(n, 1),
			new(big.Int).Sub(new(big.Int).Lsh(one, 256), one), new(big.Int).Lsh(one, 255), big.NewInt(127), big.NewInt(128), big.NewInt(255), big.NewInt(256)}
		for len(svals) < 140 {
			s := new(big.Int).SetBytes(c.RandBytes(32))
			if c.Chance(0.3) {
				s.Rsh(s, uint(c.Intn(250)))
			}
			svals = append(svals, s)
		}
		sOf := func(sig []byte) *big.Int {
			var v struct{ R, S *big.Int }
			if _, err := asn1.Unmarshal(sig, &v); err != nil {
				panic(err)
			}
			return v.S
		}
		opt := func(x *big.Int) string {
			if x == nil {
				return hx.None()
			}
			return hx.Some(x.String())
		}
		for _, s := range svals {
			r := new(big.Int).SetBytes(c.RandBytes(32))
			r.Or(r, one)
			sig, err := asn1.Marshal(struct{ R, S *big.Int }{r, s})
			if err != nil {
				panic(err)
			}
			low, errL := p256.IsNormalized(sig)
			if errL != nil {
				panic(errL)
			}
			var ns, ss *big.Int
			lowAfter := true
			if out, err := p256.Normalize(sig); err == nil {
				ns = sOf(out)
				lowAfter, _ = p256.IsNormalized(out)
			}
			if out, err := p256.Swap(sig); err == nil {
				ss = sOf(out)
			}
			inRange := s.Sign() > 0 && s.Cmp(n) < 0
			cw.Add(hx.App("CertSign_corr.CNorm", s.String(), opt(ns), opt(ss), hx.Bool(low), hx.Bool(lowAfter)), "normalize", inRange,
				map[string]any{"op": "normalize", "s": s.String(), "normalized": fmt.Sprint(ns), "swapped": fmt.Sprint(ss), "low": low})
		}
	}

	// ---- 2. Sign / SignWith ---------------------------------------------------------------------------
	keysOther := map[cert.Curve]*cvKey{cert.Curve_CURVE25519: cvNewKey(c, cert.Curve_CURVE25519), cert.Curve_P256: cvNewKey(c, cert.Curve_P256)}
	emitSign := func(kind string, signer cert.Certificate, signerLit string, signerKey *cvKey, key *cvKey, kcurve cert.Curve, t *cert.TBSCertificate, viaSign bool) {
		keymatch := signerKey == key && kcurve == key.curve
		if signer == nil { // self-signing: "the key is the right one" means it is the key in the TBS
			keymatch = string(t.PublicKey) == string(key.pub) && kcurve == key.curve && t.Curve == key.curve
		}
		tbsLit, tbsJS := csTbsLit(t), csTbsJSON(t)
		tt := *t
		tt.Networks = append([]netip.Prefix(nil), t.Networks...)
		tt.UnsafeNetworks = append([]netip.Prefix(nil), t.UnsafeNetworks...)
		var rc cert.Certificate
		var err error
		panicked := false
		func() {
			defer func() {
				if r := recover(); r != nil {
					panicked = true
					err = fmt.Errorf("panic: %v", r)
				}
			}()
			if viaSign {
				rc, err = tt.Sign(signer, kcurve, key.priv)
			} else {
				rc, err = tt.SignWith(signer, kcurve, key.signer(c))
			}
		}()
		res := hx.None()
		desc := map[string]any{"op": "sign", "kind": kind, "tbs": tbsJS, "key_curve": int(kcurve), "tbs_curve": int(t.Curve), "key_is_signers": keymatch, "via": map[bool]string{true: "Sign", false: "SignWith"}[viaSign], "accepted": err == nil}
		if signer != nil {
			desc["signer"] = cvCertJSON(signer)
		}
		if err != nil {
			desc["err"] = err.Error()
			stats["refused"]++
		} else {
			stats["issued"]++
			norm := csIsNormalized(rc)
			verd, vjs := "[]", []map[string]any(nil)
			sigok := false
			if signer != nil {
				sigok = rc.CheckSignature(signer.PublicKey())
				verd, vjs, _ = csVerdicts(signer, rc)
			} else {
				sigok = rc.CheckSignature(rc.PublicKey())
			}
			res = hx.Some(hx.Tuple(cvCertLit(rc, "", u.names), hx.Bool(norm), hx.Bool(sigok), verd))
			desc["result"] = cvCertJSON(rc)
			desc["verify"] = vjs
			desc["low_s"] = norm
		}
		sl := hx.None()
		if signer != nil {
			sl = hx.Some(signerLit)
		}
		idx := cw.Total()
		cw.Add(hx.App("CertSign_corr.CSign", sl, hx.N(uint64(uint32(kcurve))), hx.Bool(keymatch), tbsLit, hx.Bool(viaSign), res), kind, err == nil, desc)
		if panicked {
			failures = append(failures, map[string]any{"i": idx, "code": 2})
		}
	}

	// corpus first: the known finding F23 (signer certificate of one curve, key of the other curve) in both
	// directions, through Sign and through SignWith, on the unconstrained v2 CAs
	for _, via := range []bool{true, false} {
		for _, ca := range u.cas {
			if !strings.HasPrefix(ca.kind, "open-") || ca.c.Version() != cert.Version2 {
				continue
			}
			key := keysOther[1-ca.c.Curve()]
			t := &cert.TBSCertificate{Version: cert.Version2, Name: "f23-witness", Networks: []netip.Prefix{cvPfx("10.1.2.3/24")},
				NotBefore: ca.c.NotBefore().Add(time.Hour), NotAfter: ca.c.NotBefore().Add(48 * time.Hour),
				PublicKey: u.leafPub[key.curve][0], Curve: key.curve}
			emitSign("signer-curve-mismatch", ca.c, ca.name, ca.key, key, key.curve, t, via)
		}
	}
	doNormalize()

	// zero-length constraints: a /0 covers its own family only. Requests of the same and of the other family
	for _, ca := range u.cas {
		if !(strings.HasPrefix(ca.kind, "un0") || strings.HasPrefix(ca.kind, "net0")) {
			continue
		}
		for _, mode := range []int{cvMInside, cvMOutFamily, cvMOutAdjacent} {
			o := cvLeafOpt{version: cert.Version2, curve: ca.c.Curve(), groups: cvMNone, nets: cvMInside, unsafe: cvMNone, signKey: ca.key}
			if strings.HasPrefix(ca.kind, "un0") {
				o.unsafe = mode
			} else {
				o.nets = mode
			}
			emitSign("zero-prefix", ca.c, ca.name, ca.key, ca.key, ca.key.curve, cvLeafTBS(c, u, ca, o), mode == cvMInside)
		}
	}

	// ---- 2b. ONE TBSCertificate object signed several times in a row (CA rotation re-issue): different signers
	// of the same curve, and self-signing in between with the CA flag flipped on the same object. After EACH
	// signature: issuer == that signer's fingerprint and the real VerifyCertificate against a pool of that
	// signer accepts (spec_issued), and the result equals what a fresh request would give (model).
	nResign := 40 + c.N/12
	for r := 0; r < nResign; r++ {
		ca0 := u.cas[c.Intn(len(u.cas))]
		var same []*cvCA
		for _, x := range u.cas {
			if x.c.Curve() == ca0.c.Curve() && x != ca0 {
				same = append(same, x)
			}
		}
		o := cvLeafOpt{version: cert.Version(1 + c.Intn(2)), curve: ca0.c.Curve(), groups: []int{cvMInside, cvMNone}[c.Intn(2)], nets: cvMInside,
			unsafe: cvMNone, window: []int{0, 4}[c.Intn(2)], signKey: ca0.key}
		t := cvLeafTBS(c, u, ca0, o) // the one object
		selfKey := cvNewKey(c, ca0.c.Curve())
		nSteps := 2 + c.Intn(3)
		var steps []string
		var js []map[string]any
		issuedAny := false
		for k := 0; k < nSteps; k++ {
			var signerCA *cvCA
			switch {
			case k == 0 && c.Chance(0.85):
				signerCA = ca0
			case c.Chance(0.2):
				signerCA = nil // self-sign
			case c.Chance(0.6):
				signerCA = same[c.Intn(len(same))]
				for tries := 0; tries < 20 && !(strings.HasPrefix(signerCA.kind, "open") || strings.HasPrefix(signerCA.kind, "unsafe") || strings.HasPrefix(signerCA.kind, "subsec")); tries++ {
					signerCA = same[c.Intn(len(same))]
				}
			default:
				signerCA = same[c.Intn(len(same))]
			}
			var signer cert.Certificate
			key := selfKey
			sl := hx.None()
			if signerCA != nil {
				signer, key = signerCA.c, signerCA.key
				sl = hx.Some(signerCA.name)
			}
			t.IsCA = signerCA == nil // flipped on the same object so that the guards let the signature through
			if c.Chance(0.1) {
				t.IsCA = !t.IsCA
			}
			keymatch := signerCA != nil
			via := c.Chance(0.5)
			tbsLit, tbsJS := csTbsLit(t), csTbsJSON(t)
			var rc cert.Certificate
			var err error
			if via {
				rc, err = t.Sign(signer, key.curve, key.priv)
			} else {
				rc, err = t.SignWith(signer, key.curve, key.signer(c))
			}
			res := hx.None()
			d := map[string]any{"tbs": tbsJS, "via": map[bool]string{true: "Sign", false: "SignWith"}[via], "accepted": err == nil}
			if signerCA != nil {
				d["signer"] = signerCA.kind
				d["signer_fp"] = signerCA.fp
			} else {
				d["signer"] = "self"
			}
			if err != nil {
				d["err"] = err.Error()
			} else {
				issuedAny = true
				verd, vjs := "[]", []map[string]any(nil)
				sigok := false
				if signer != nil {
					sigok = rc.CheckSignature(signer.PublicKey())
					verd, vjs, _ = csVerdicts(signer, rc)
				} else {
					sigok = rc.CheckSignature(rc.PublicKey())
				}
				res = hx.Some(hx.Tuple(cvCertLit(rc, "", u.names), hx.Bool(csIsNormalized(rc)), hx.Bool(sigok), verd))
				d["issuer"] = rc.Issuer()
				d["verify"] = vjs
			}
			steps = append(steps, hx.Tuple(sl, hx.N(uint64(uint32(key.curve))), hx.Bool(keymatch), tbsLit, hx.Bool(via), res))
			js = append(js, d)
		}
		cw.Add(hx.App("CertSign_corr.CResign", hx.List(steps)), "resign", issuedAny, map[string]any{"op": "resign", "steps": js})
	}

	for cw.Total() < c.N {
		ca := u.cas[c.Intn(len(u.cas))]
		o := cvLeafOpt{version: ca.c.Version(), curve: ca.c.Curve(), groups: cvMInside, nets: cvMInside, unsafe: cvMInside, signKey: ca.key}
		pick3 := func(in, edge int, outs ...int) int {
			r := c.Intn(10)
			if r < 6 {
				return in
			}
			if r < 8 {
				return edge
			}
			return outs[c.Intn(len(outs))]
		}
		if c.Chance(0.35) { // cross the constraints
			o.groups = pick3(cvMInside, cvMEdge, cvMOutAdjacent, cvMNone)
			o.nets = pick3(cvMInside, cvMEdge, cvMOutWider, cvMOutAdjacent, cvMOutFamily)
			o.unsafe = pick3(cvMInside, cvMEdge, cvMOutWider, cvMOutAdjacent, cvMOutFamily, cvMNone, cvMNone)
			o.window = []int{0, 0, 0, 4, 4, 1, 1, 2, 3, 5}[c.Intn(10)]
		} else { // inside or exactly on the edge in every dimension
			o.groups = []int{cvMInside, cvMEdge, cvMNone}[c.Intn(3)]
			o.nets = []int{cvMInside, cvMInside, cvMEdge}[c.Intn(3)]
			o.unsafe = []int{cvMInside, cvMEdge, cvMNone}[c.Intn(3)]
			o.window = []int{0, 0, 4, 1, 5}[c.Intn(5)]
		}
		o.inMemory = c.Chance(0.3) // sub-second bounds: the TBS is in memory anyway
		if c.Chance(0.3) {
			o.version = cert.Version(1 + c.Intn(2))
		}
		kind := "sign"
		key := ca.key
		var signer cert.Certificate = ca.c
		signerLit := ca.name
		t := cvLeafTBS(c, u, ca, o)
		switch c.Intn(64) {
		case 0:
			t.IsCA = true
			kind = "sign-ca-with-ca"
		case 1, 2: // self-signing
			signer, signerLit = nil, ""
			key = cvNewKey(c, o.curve)
			t.PublicKey = key.pub
			t.IsCA = c.Chance(0.7)
			kind = "self-sign"
			if !t.IsCA {
				kind = "self-sign-non-ca"
			}
		case 3: // a key that is not the signer's, same curve
			key = keysOther[ca.c.Curve()]
			kind = "foreign-key-same-curve"
		case 4: // a key of the other curve, TBS follows the key: SignWith does not look at the signer's curve
			key = keysOther[1-ca.c.Curve()]
			t.Curve = key.curve
			t.PublicKey = u.leafPub[key.curve][0]
			kind = "signer-curve-mismatch"
		case 5: // key curve differs from the TBS curve
			t.Curve = 1 - ca.c.Curve()
			kind = "key-curve-mismatch"
		case 6:
			t.Version = cert.Version([]int{0, 3, 7, 255}[c.Intn(4)])
			kind = "bad-version"
		case 7:
			t.PublicKey = nil
			kind = "validate-no-pubkey"
		case 8:
			if !t.IsCA {
				t.Networks = nil
			}
			kind = "validate-no-networks"
		case 9:
			if len(t.Networks) > 0 {
				t.Networks = append(t.Networks, t.Networks[0])
			}
			kind = "validate-duplicate-network"
		case 10:
			a := netip.MustParseAddr("10.9.8.7")
			t.Networks = append(t.Networks, netip.PrefixFrom(a, 40)) // invalid prefix (Bits() = -1)
			kind = "validate-invalid-prefix"
		case 11:
			t.Networks = append(t.Networks, netip.MustParsePrefix([]string{"0.0.0.0/0", "::/0", "0.0.0.0/32"}[c.Intn(3)]))
			kind = "validate-unspecified"
		case 12:
			t.Networks = append(t.Networks, netip.MustParsePrefix("::ffff:10.1.2.3/120"))
			kind = "validate-4in6"
		case 13:
			t.UnsafeNetworks = append(t.UnsafeNetworks, netip.MustParsePrefix([]string{"2001:db8:1::/48", "::ffff:172.16.1.0/120", "0.0.0.0/0"}[c.Intn(3)]))
			kind = "validate-unsafe-family"
		case 14:
			if len(t.UnsafeNetworks) > 0 {
				t.UnsafeNetworks = append(t.UnsafeNetworks, t.UnsafeNetworks[len(t.UnsafeNetworks)-1])
			}
			kind = "validate-duplicate-unsafe"
		case 16: // the wire-format rules on names and groups (v2 refuses them when signing, v1 has no such rule)
			switch c.Intn(4) {
			case 0:
				t.Name = ""
			case 1:
				t.Name = strings.Repeat("x", 254+c.Intn(3))
			case 2:
				t.Name = strings.Repeat("y", 252+c.Intn(2))
			default:
				pos := c.Intn(len(t.Groups) + 1)
				t.Groups = append(t.Groups[:pos:pos], append([]string{""}, t.Groups[pos:]...)...)
			}
			kind = "validate-name-group"
		case 15: // a leaf certificate used as signer: SignWith does not ask for IsCA
			lo := cvLeafOpt{version: ca.c.Version(), curve: ca.c.Curve(), groups: cvMInside, nets: cvMInside, unsafe: cvMNone, signKey: ca.key}
			if ca.c.Curve() == cert.Curve_P256 {
				lo.sigForm = 1
			}
			lc, _ := cvLeaf(c, u, ca, lo)
			signer, signerLit = lc, cvCertLit(lc, "", u.names)
			// the request is drawn relative to that leaf, mostly inside it
			lo2 := cvLeafOpt{version: lc.Version(), curve: lc.Curve(), groups: cvMInside, nets: cvMInside, unsafe: cvMNone, window: []int{0, 1, 4, 3}[c.Intn(4)]}
			t = cvLeafTBS(c, u, &cvCA{c: lc, key: ca.key}, lo2)
			kind = "leaf-as-signer"
		}
		kcurve := key.curve
		if c.Chance(0.03) { // an unknown curve number in TBS and in the curve argument (gets past the guard through SignWith only)
			t.Curve = cert.Curve(2 + c.Intn(3))
			kcurve = t.Curve
			kind = "unknown-curve"
		}
		viaSign := c.Chance(0.5)
		signerKey := ca.key
		if kind == "leaf-as-signer" {
			signerKey = nil
		}
		emitSign(kind, signer, signerLit, signerKey, key, kcurve, t, viaSign)
	}

	// ---- 3. the nebula-cert binary ----------------------------------------------------------------------
	if msg := <-buildDone; msg != "" {
		panic(msg)
	}
	dir := filepath.Join(c.Out, "cli")
	os.RemoveAll(dir)
	if err := os.MkdirAll(dir, 0o755); err != nil {
		panic(err)
	}
	run := func(args ...string) (string, bool) {
		cmd := exec.Command(bin, args...)
		cmd.Dir = dir
		out, err := cmd.CombinedOutput()
		return string(out), err == nil
	}
	readCert := func(path string) cert.Certificate {
		b, err := os.ReadFile(path)
		if err != nil {
			return nil
		}
		cc, _, err := cert.UnmarshalCertificateFromPEM(b)
		if err != nil {
			panic(fmt.Sprintf("nebula-cert wrote a certificate that does not parse: %v", err))
		}
		return cc
	}
	type cliCA struct {
		curve, groups, nets, unsafe string
		version                     int
		dur                         string
	}
	cliCAs := []cliCA{
		{"25519", "", "", "", 2, "100h"},
		{"25519", "", "", "0.0.0.0/0", 2, "100h"}, // a /0 unsafe constraint of one family
		{"25519", "a,b,ops", "10.0.0.0/8,fd00::/8", "172.16.0.0/12", 2, "1000h"},
		{"P256", "a,web", "10.42.0.0/16", "10.42.0.0/16,192.0.2.0/24", 1, "1000h"},
		{"P256", "", "10.0.0.0/0", "::/0", 2, "100h"}, // /0 network constraint (v4), /0 unsafe constraint (v6)
		{"P256", "", "", "", 2, "100h"},
		{"25519", "a", "192.168.0.0/16", "", 1, "50h"},
		{"P256", "ops", "fd42:1::/64,10.1.0.0/16", "2001:db8::/32", 2, "50h"},
	}
	type cliLeaf struct {
		groups, nets, unsafe, dur string
		version                   int
	}
	if c.Tier != "thorough" {
		cliCAs = cliCAs[:5]
	}
	type cliOut struct {
		lit, kind string
		nontriv   bool
		desc      any
	}
	outs := make([][]cliOut, len(cliCAs))
	errs := make([]any, len(cliCAs))
	var wg sync.WaitGroup
	for i, ca := range cliCAs {
		wg.Add(1)
		go func(i int, ca cliCA) {
			defer wg.Done()
			defer func() {
				if r := recover(); r != nil {
					errs[i] = r
				}
			}()
			emit := func(lit, kind string, nontriv bool, desc any) {
				outs[i] = append(outs[i], cliOut{lit, kind, nontriv, desc})
			}
			crt, key := fmt.Sprintf("ca%d.crt", i), fmt.Sprintf("ca%d.key", i)
			args := []string{"ca", "-name", fmt.Sprintf("cli-ca-%d", i), "-curve", ca.curve, "-version", fmt.Sprint(ca.version), "-duration", ca.dur, "-out-crt", crt, "-out-key", key}
			if ca.groups != "" {
				args = append(args, "-groups", ca.groups)
			}
			if ca.nets != "" {
				args = append(args, "-networks", ca.nets)
			}
			if ca.unsafe != "" {
				args = append(args, "-unsafe-networks", ca.unsafe)
			}
			before := time.Now()
			out, ok := run(args...)
			after := time.Now()
			cac := readCert(filepath.Join(dir, crt))
			if !ok || cac == nil {
				panic(fmt.Sprintf("nebula-cert ca failed: %s", out))
			}
			self := cac.CheckSignature(cac.PublicKey())
			pool := cert.NewCAPool()
			addErr := pool.AddCA(cac)
			emit(hx.App("CertSign_corr.CCliCA", cvCertLit(cac, "", u.names), hx.Bool(csIsNormalized(cac)), hx.Bool(self), hx.Bool(addErr == nil),
				cvTimeLit(before), cvTimeLit(after)), "cli-ca", true,
				map[string]any{"op": "cli-ca", "args": args, "cert": cvCertJSON(cac), "self_signed": self, "low_s": csIsNormalized(cac)})
			// leaves under this CA: inside, and one violation per dimension
			firstNet := func(s string, v6 bool) string {
				for _, x := range strings.Split(s, ",") {
					if p, err := netip.ParsePrefix(x); err == nil && p.Addr().Is6() == v6 {
						return x
					}
				}
				return ""
			}
			in4 := "10.42.7.9/24"
			if ca.nets != "" {
				if f := firstNet(ca.nets, false); f != "" {
					p := netip.MustParsePrefix(f)
					a := p.Addr().As4()
					a[3] = 9
					in4 = netip.PrefixFrom(netip.AddrFrom4(a), 24).String()
				} else {
					in4 = ""
				}
			}
			in6 := ""
			if ca.version == 2 {
				if f := firstNet(ca.nets, true); f != "" {
					p := netip.MustParsePrefix(f)
					a := p.Addr().As16()
					a[15] = 9
					in6 = netip.PrefixFrom(netip.AddrFrom16(a), 80).String()
				} else if ca.nets == "" {
					in6 = "fd00:9::9/64"
				}
			}
			inNets := strings.Trim(in4+","+in6, ",")
			inGroup := ""
			if ca.groups != "" {
				inGroup = strings.Split(ca.groups, ",")[0]
			}
			inUnsafe := ""
			if f := firstNet(ca.unsafe, false); f != "" && in4 != "" {
				p := netip.MustParsePrefix(f)
				inUnsafe = netip.PrefixFrom(p.Addr(), p.Bits()+4).Masked().String()
			}
			leaves := []cliLeaf{
				{inGroup, inNets, inUnsafe, "", 0},
				{inGroup, inNets, "", "10h", 0},
				{"", inNets, "", "1s", 0},
				{inGroup + ",zz-not-on-ca", inNets, "", "", 0},
				{inGroup, "203.0.113.5/24", "", "", 0},
				{inGroup, inNets, "198.51.100.0/24", "", 0},
				{inGroup, inNets, "", "2000h", 0},
				{inGroup, inNets, "", "", 3 - ca.version},
				{inGroup, inNets, "fd00:1::/48", "", 0},
				{inGroup, "fd00:7::7/64", "", "", 0},
			}
			for j, lf := range leaves {
				if lf.nets == "" {
					continue
				}
				lcrt, lkey := fmt.Sprintf("l%d_%d.crt", i, j), fmt.Sprintf("l%d_%d.key", i, j)
				a := []string{"sign", "-ca-crt", crt, "-ca-key", key, "-name", fmt.Sprintf("cli-leaf-%d-%d", i, j), "-networks", lf.nets, "-out-crt", lcrt, "-out-key", lkey}
				if g := strings.Trim(lf.groups, ","); g != "" {
					a = append(a, "-groups", g)
				}
				if lf.unsafe != "" {
					a = append(a, "-unsafe-networks", lf.unsafe)
				}
				if lf.dur != "" {
					a = append(a, "-duration", lf.dur)
				}
				ver := ca.version
				if lf.version != 0 {
					ver = lf.version
					a = append(a, "-version", fmt.Sprint(lf.version))
				}
				// what is asked for, as a TBS whose NotBefore is the instant before the command starts
				tb := time.Now()
				t := &cert.TBSCertificate{Version: cert.Version(ver), Name: fmt.Sprintf("cli-leaf-%d-%d", i, j), Curve: cac.Curve(), PublicKey: []byte{1},
					NotBefore: tb, NotAfter: cac.NotAfter().Add(-time.Second)}
				if lf.dur != "" {
					d, _ := time.ParseDuration(lf.dur)
					t.NotAfter = tb.Add(d)
				}
				var v4, v6 []netip.Prefix
				for _, x := range strings.Split(lf.nets, ",") {
					if p := netip.MustParsePrefix(x); p.Addr().Is4() {
						v4 = append(v4, p)
					} else {
						v6 = append(v6, p)
					}
				}
				t.Networks = append(v4, v6...)
				if lf.unsafe != "" {
					for _, x := range strings.Split(lf.unsafe, ",") {
						t.UnsafeNetworks = append(t.UnsafeNetworks, netip.MustParsePrefix(x))
					}
				}
				for _, g := range strings.Split(strings.Trim(lf.groups, ","), ",") {
					if g != "" {
						t.Groups = append(t.Groups, g)
					}
				}
				cliRefusesV1 := ver == 1 && (len(v4) != 1 || len(v6) > 0) // nebula-cert's own v1 argument check
				out, ok := run(a...)
				ta := time.Now()
				lc := readCert(filepath.Join(dir, lcrt))
				res := hx.None()
				desc := map[string]any{"op": "cli-sign", "args": a, "accepted": ok && lc != nil, "output": strings.TrimSpace(out)}
				if ok && lc != nil {
					verd, vjs, _ := csVerdicts(cac, lc)
					res = hx.Some(hx.Tuple(cvCertLit(lc, "", u.names), hx.Bool(csIsNormalized(lc)), hx.Bool(lc.CheckSignature(cac.PublicKey())), verd))
					desc["result"] = cvCertJSON(lc)
					desc["verify"] = vjs
				} else if ok != (lc != nil) {
					panic("nebula-cert sign: exit status and certificate file disagree: " + out)
				}
				emit(hx.App("CertSign_corr.CCliSign", cvCertLit(cac, "", u.names), csTbsLit(t), hx.Bool(cliRefusesV1), cvTimeLit(ta), res), "cli-sign", ok, desc)
			}
		}(i, ca)
	}
	wg.Wait()
	for i := range cliCAs {
		if errs[i] != nil {
			panic(errs[i])
		}
		for _, o := range outs[i] {
			cw.Add(o.lit, o.kind, o.nontriv, o.desc)
		}
	}
	os.RemoveAll(filepath.Join(c.Out, "bin"))
	os.RemoveAll(dir)
	cw.Meta("verdicts", stats)
	if len(failures) > 0 {
		cw.Meta("failures", failures)
	}
	cw.Close("p256.Normalize/Swap/IsNormalized on edge and random s; TBSCertificate.Sign and SignWith over 52 signer CAs (incl. zero-length network / unsafe-network constraints of one or both families) x TBS crossing each constraint " +
		"(inside/edge/outside), CA flag, self-signing, key of another CA, key of the other curve than the signer certificate's (known finding F23, emitted first), key-vs-TBS curve mismatch, unknown version/curve, every validate rule; " +
		"one TBSCertificate object signed 2-4 times in a row by different signers / self (re-issue), each result checked like a fresh one; " +
		"each issued certificate verified with the real VerifyCertificate against a pool of its signer at nb, na, middle, nb-1ns, na+1ns and checked for low-S; " +
		"nebula-cert ca / sign binary on 5 (thorough: 8) CAs x up to 10 requests (incl. `ca -unsafe-networks 0.0.0.0/0` + `sign -unsafe-networks fd00:1::/48`); non-trivial = certificate issued (or 0 < s < n); distinct by literal")
}

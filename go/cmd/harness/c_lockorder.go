//go:build comp_all || comp_lockorder

package main

// Component lockorder (C34): the lock-order translator (verifharness/lockgraph: go/packages + go/ssa +
// callgraph/vta over the source of /repo).
//   gen_lockorder: writes coq/gen/LockGraph.v - the lock classes and the edges "b may be acquired while a is held" -
//                  and coq/gen/WriteSites.v - the write sites of the write discipline (see c_guards.go).
//   lockorder:     searches the same graph for cycles and reports each as a case (a possible deadlock, with the source
//                  positions where the conflicting orders arise), plus one case saying that nothing cyclic is left
//                  once one edge of every reported cycle is removed.

import (
	"fmt"
	"os"
	"sort"
	"strings"

	"verifharness/hx"
	"verifharness/lockgraph"
)

func init() {
	hx.Register("gen_lockorder", genLockOrder)
	hx.Register("lockorder", runLockOrder)
}

func lockRepo() string {
	if r := os.Getenv("VERIF_REPO"); r != "" {
		return r
	}
	return "/repo"
}

func genLockOrder(c *hx.Ctx) {
	r, err := lockgraph.Analyze(lockRepo(), nil)
	if err != nil {
		panic(err)
	}
	c.WriteFile("LockGraph.v", r.Coq())
	c.WriteFile("WriteSites.v", r.WriteSitesCoq()) // the write sites of the same SSA program (component guards)
}

// lockFindCycle returns one cycle of the graph (as a list of nodes) or nil.
func lockFindCycle(adj map[int][]int, n int) []int {
	color := make([]int, n)
	var stack []int
	var found []int
	var dfs func(v int) bool
	dfs = func(v int) bool {
		color[v] = 1
		stack = append(stack, v)
		for _, w := range adj[v] {
			if color[w] == 1 {
				for i, x := range stack {
					if x == w {
						found = append([]int{}, stack[i:]...)
						return true
					}
				}
			}
			if color[w] == 0 && dfs(w) {
				return true
			}
		}
		stack = stack[:len(stack)-1]
		color[v] = 2
		return false
	}
	for v := 0; v < n; v++ {
		if color[v] == 0 && dfs(v) {
			return found
		}
	}
	return nil
}

func runLockOrder(c *hx.Ctx) {
	r, err := lockgraph.Analyze(lockRepo(), nil)
	if err != nil {
		panic(err)
	}
	cw := c.NewCaseWriter("From NV Require Import corr.LockOrder_corr.", "LockOrder_corr.case", "LockOrder_corr.check_case", 100)
	idx := map[string]int{}
	for i, cl := range r.Classes {
		idx[cl] = i
	}
	wit := map[[2]int]string{}
	adj := map[int][]int{}
	for _, e := range r.Edges {
		a, b := idx[e.From], idx[e.To]
		adj[a] = append(adj[a], b)
		wit[[2]int{a, b}] = e.Witness
	}
	for k := range adj {
		sort.Ints(adj[k])
	}
	// a smallest set of edges whose removal leaves the graph acyclic (ties: the set whose sorted "from->to" names
	// come first); each such edge is reported with a shortest cycle through it, starting with that edge
	type edge struct{ a, b int }
	var all []edge
	for a, ws := range adj {
		for _, b := range ws {
			all = append(all, edge{a, b})
		}
	}
	name := func(e edge) string { return r.Classes[e.a] + "->" + r.Classes[e.b] }
	sort.Slice(all, func(i, j int) bool { return name(all[i]) < name(all[j]) })
	without := func(rm []edge) map[int][]int {
		g := map[int][]int{}
		for _, e := range all {
			skip := false
			for _, x := range rm {
				if x == e {
					skip = true
				}
			}
			if !skip {
				g[e.a] = append(g[e.a], e.b)
			}
		}
		return g
	}
	var fas []edge
	found := lockFindCycle(adj, len(r.Classes)) == nil
	for size := 1; size <= 4 && !found; size++ {
		var rec func(start int, cur []edge) bool
		rec = func(start int, cur []edge) bool {
			if len(cur) == size {
				if lockFindCycle(without(cur), len(r.Classes)) == nil {
					fas = append([]edge{}, cur...)
					return true
				}
				return false
			}
			for i := start; i < len(all); i++ {
				if rec(i+1, append(cur, all[i])) {
					return true
				}
			}
			return false
		}
		found = rec(0, nil)
	}
	if !found { // more than four independent cycles: fall back to removing the first edge of each cycle found
		g := without(nil)
		for {
			cyc := lockFindCycle(g, len(r.Classes))
			if cyc == nil {
				break
			}
			e := edge{cyc[0], cyc[(1)%len(cyc)]}
			fas = append(fas, e)
			g = without(fas)
		}
	}
	var cycles [][]int
	for _, e := range fas {
		// shortest path b ~> a by breadth-first search
		prev := map[int]int{e.b: -1}
		q := []int{e.b}
		for len(q) > 0 && e.a != e.b {
			v := q[0]
			q = q[1:]
			if v == e.a {
				break
			}
			for _, w := range adj[v] {
				if _, ok := prev[w]; !ok {
					prev[w] = v
					q = append(q, w)
				}
			}
		}
		var back []int
		if e.a != e.b {
			for v := e.a; v != -1; v = prev[v] {
				back = append(back, v)
				if v == e.b {
					break
				}
			}
		}
		cyc := []int{e.a}
		for i := len(back) - 1; i >= 0; i-- { // back = a ... b reversed: emit b ... (a excluded)
			if back[i] != e.a {
				cyc = append(cyc, back[i])
			}
		}
		if e.a == e.b {
			cyc = []int{e.a}
		}
		cycles = append(cycles, cyc)
	}
	var cycLits []string
	for _, cyc := range cycles {
		var names, places []string
		var nodes []uint64
		for i, v := range cyc {
			w := cyc[(i+1)%len(cyc)]
			names = append(names, r.Classes[v])
			nodes = append(nodes, uint64(v))
			places = append(places, fmt.Sprintf("%s -> %s at %s", r.Classes[v], r.Classes[w], wit[[2]int{v, w}]))
		}
		sorted := append([]string{}, names...)
		sort.Strings(sorted)
		cycLits = append(cycLits, hx.NList(nodes))
		cw.Add(hx.App("LockOrder_corr.CCycle", hx.NList(nodes)), "cycle", true,
			map[string]any{"cycle": names, "signature": "lock-inversion:" + strings.Join(sorted, "<->"), "where": places})
	}
	cw.Add(hx.App("LockOrder_corr.CRest", hx.List(cycLits), hx.N(uint64(len(r.Edges)))), "rest-acyclic", true,
		map[string]any{"classes": len(r.Classes), "edges": len(r.Edges), "functions": r.Funcs, "cycles_reported": len(cycles)})
	cw.Meta("lock_classes", r.Classes)
	cw.Meta("lock_edges", len(r.Edges))
	cw.Close("the lock-order graph of the module: one case per cycle found (none expected), one case for the acyclicity of the rest")
}

//go:build comp_all || comp_conntrack

package main

// Harness components for properties C18 (conntrack: tracked flows are per-tuple and expire when idle) and C19
// (fwreload: tracked flows are revalidated after a rule reload), plus gen_conntrack (T1 constants).
//
// Virtual time: the real code reads time.Now() directly, so every history runs inside its own testing/synctest
// bubble (testing.Main bootstraps one *testing.T in this non-test binary; all output files are written before the
// test function returns, because testing.Main ends with os.Exit).

import (
	"context"
	"fmt"
	"log/slog"
	"math/big"
	"net/netip"
	"os"
	"strings"
	"testing"
	"testing/synctest"
	"time"

	nebula "github.com/slackhq/nebula"
	"github.com/slackhq/nebula/firewall"
	"verifharness/hx"
)

func init() {
	hx.Register("gen_conntrack", genConntrack)
	hx.Register("conntrack", func(c *hx.Ctx) { runCT(c, false) })
	hx.Register("fwreload", func(c *hx.Ctx) { runCT(c, true) })
}

func ctRnd(c *hx.Ctx) func([]byte) {
	return func(b []byte) { copy(b, c.RandBytes(len(b))) }
}

func genConntrack(c *hx.Ctx) {
	k, err := nebula.VerifCTGetConsts(ctRnd(c))
	if err != nil {
		fmt.Fprintln(os.Stderr, "gen_conntrack:", err)
		os.Exit(1)
	}
	var sb strings.Builder
	sb.WriteString("(* GENERATED from /repo (firewall/packet.go, firewall.go NewFirewallFromConfig) by harness gen_conntrack: do not edit *)\n")
	sb.WriteString("From Coq Require Import NArith ZArith.\n")
	sb.WriteString("(* firewall.ProtoTCP / ProtoUDP / ProtoICMP / ProtoICMPv6 / ProtoAny *)\n")
	fmt.Fprintf(&sb, "Definition ProtoTCP : N := %d%%N.\n", k.ProtoTCP)
	fmt.Fprintf(&sb, "Definition ProtoUDP : N := %d%%N.\n", k.ProtoUDP)
	fmt.Fprintf(&sb, "Definition ProtoICMP : N := %d%%N.\n", k.ProtoICMP)
	fmt.Fprintf(&sb, "Definition ProtoICMPv6 : N := %d%%N.\n", k.ProtoICMPv6)
	fmt.Fprintf(&sb, "Definition ProtoAny : N := %d%%N.\n", k.ProtoAny)
	sb.WriteString("(* conntrack timeouts of a firewall built by NewFirewallFromConfig from a configuration that sets none (ns) *)\n")
	fmt.Fprintf(&sb, "Definition DefaultTCPTimeout : Z := %d%%Z.\n", int64(k.DefTCP))
	fmt.Fprintf(&sb, "Definition DefaultUDPTimeout : Z := %d%%Z.\n", int64(k.DefUDP))
	fmt.Fprintf(&sb, "Definition DefaultDefaultTimeout : Z := %d%%Z.\n", int64(k.DefDefault))
	c.WriteFile("Consts_Conntrack.v", sb.String())
}

// ---- the world every history runs in -------------------------------------------------------------------------

var ctMyNets = []netip.Prefix{netip.MustParsePrefix("10.0.0.1/24"), netip.MustParsePrefix("fd00::1/64")}

// our certificate's unsafe networks, by variant
var ctUnsafe = [][]netip.Prefix{
	nil,
	{netip.MustParsePrefix("192.168.0.0/24")},
	{netip.MustParsePrefix("192.168.0.0/24"), netip.MustParsePrefix("192.168.9.0/24")},
}

type ctPeerDef struct {
	name   string
	nets   []string
	unsafe []string
	groups []string
	remote []string // addresses this peer may legitimately send from
}

var ctPeers = []ctPeerDef{
	{"peer0", []string{"10.0.0.2/24"}, nil, []string{"g1"}, []string{"10.0.0.2"}},
	{"peer1", []string{"10.0.0.3/24"}, nil, []string{"g1", "g2"}, []string{"10.0.0.3"}},
	{"peer2", []string{"10.0.0.4/24"}, []string{"172.16.0.0/16"}, []string{"g2"}, []string{"10.0.0.4", "172.16.5.5"}},
	{"peer3", []string{"10.0.0.5/24", "fd00::2/64"}, nil, []string{"g1"}, []string{"10.0.0.5", "fd00::2"}},
}

var ctLocals4 = []string{"10.0.0.1", "10.0.0.1", "10.0.0.1", "192.168.0.5", "192.168.9.7", "10.0.0.99"}

// rule fragments (YAML, list items of firewall.inbound / firewall.outbound)
var ctRuleFrag = []string{
	"    - port: any\n      proto: any\n      host: any\n",
	"    - port: 80\n      proto: tcp\n      group: g1\n",
	"    - port: 1000-1010\n      proto: udp\n      host: peer0\n",
	"    - port: any\n      proto: icmp\n      cidr: 10.0.0.0/24\n",
	"    - port: fragment\n      proto: any\n      host: any\n",
	"    - port: any\n      proto: any\n      groups:\n        - g1\n        - g2\n",
	"    - port: 53\n      proto: udp\n      cidr: 172.16.0.0/16\n",
	"    - port: any\n      proto: tcp\n      ca_name: verif-ca\n",
	"    - port: any\n      proto: any\n      host: any\n      local_cidr: 192.168.0.0/24\n",
	"    - port: any\n      proto: any\n      cidr: fd00::/64\n",
	"    - port: 4000\n      proto: any\n      host: peer1\n",
	"    - port: any\n      proto: udp\n      group: g2\n",
}

// a rule set: fragments of the inbound and of the outbound table
type ctRules struct{ in, out []int }

type ctTimeouts struct{ tcp, udp, def int64 }

// dlca: firewall.default_local_cidr_any - not part of the rule lists (nor of Firewall.GetRuleHash), but it decides what a
// rule without local_cidr matches on a node whose certificate has unsafe networks
func ctYAML(r ctRules, t ctTimeouts, dlca bool) string {
	var sb strings.Builder
	sb.WriteString("firewall:\n")
	if dlca {
		sb.WriteString("  default_local_cidr_any: true\n")
	}
	sb.WriteString("  conntrack:\n")
	fmt.Fprintf(&sb, "    tcp_timeout: %dns\n    udp_timeout: %dns\n    default_timeout: %dns\n", t.tcp, t.udp, t.def)
	for i, l := range [][]int{r.in, r.out} {
		name := []string{"inbound", "outbound"}[i]
		if len(l) == 0 {
			fmt.Fprintf(&sb, "  %s: []\n", name)
			continue
		}
		fmt.Fprintf(&sb, "  %s:\n", name)
		for _, k := range l {
			sb.WriteString(ctRuleFrag[k])
		}
	}
	return sb.String()
}

// a flow as the node sees it; the wire packet of either direction is derived from it
type ctFlow struct {
	peer          int
	local, remote netip.Addr
	lport, rport  uint16 // ICMP: lport 0, rport = echo identifier
	proto         uint8
	frag          bool
}

type ctWire struct {
	src, dst netip.Addr
	sp, dp   uint16
	proto    uint8
	frag     bool
}

func (f ctFlow) wire(incoming bool) ctWire {
	w := ctWire{proto: f.proto, frag: f.frag}
	if incoming {
		w.src, w.dst, w.sp, w.dp = f.remote, f.local, f.rport, f.lport
	} else {
		w.src, w.dst, w.sp, w.dp = f.local, f.remote, f.lport, f.rport
	}
	if f.proto == firewall.ProtoICMP {
		w.sp, w.dp = 0, f.rport
	}
	return w
}

func (w ctWire) bytes() []byte {
	be := func(b []byte, v uint16) { b[0], b[1] = byte(v>>8), byte(v) }
	if w.src.Is4() {
		b := make([]byte, 20+24)
		b[0] = 0x45
		be(b[2:], uint16(len(b)))
		if w.frag {
			be(b[6:], 0x0001) // fragment offset 1: a later fragment
		}
		b[8] = 64
		b[9] = w.proto
		s, d := w.src.As4(), w.dst.As4()
		copy(b[12:16], s[:])
		copy(b[16:20], d[:])
		if w.proto == firewall.ProtoICMP {
			b[20] = 8 // echo request
			be(b[24:], w.dp)
		} else {
			be(b[20:], w.sp)
			be(b[22:], w.dp)
		}
		return b
	}
	b := make([]byte, 40+24)
	b[0] = 0x60
	be(b[4:], 24)
	b[6] = w.proto
	b[7] = 64
	s, d := w.src.As16(), w.dst.As16()
	copy(b[8:24], s[:])
	copy(b[24:40], d[:])
	be(b[40:], w.sp)
	be(b[42:], w.dp)
	return b
}

// addresses as numbers: IPv4 the 32-bit value, IPv6 2^128 + the 128-bit value
func ctAddrN(a netip.Addr) string {
	n := new(big.Int)
	if a.Is4() {
		x := a.As4()
		n.SetBytes(x[:])
	} else {
		x := a.As16()
		n.SetBytes(x[:])
		n.Add(n, new(big.Int).Lsh(big.NewInt(1), 128))
	}
	return n.String()
}

func ctWireLit(w ctWire) string {
	return hx.App("T6", ctAddrN(w.src), ctAddrN(w.dst), hx.N(uint64(w.sp)), hx.N(uint64(w.dp)), hx.N(uint64(w.proto)), hx.Bool(w.frag))
}

func ctTupleLit(p firewall.Packet) string {
	return hx.App("T6", ctAddrN(p.LocalAddr), ctAddrN(p.RemoteAddr), hx.N(uint64(p.LocalPort)), hx.N(uint64(p.RemotePort)),
		hx.N(uint64(p.Protocol)), hx.Bool(p.Fragment))
}

// ---- histories ---------------------------------------------------------------------------------------------------

type ctEv struct {
	kind     int // 0 packet, 1 sleep, 2 reload
	peer     int
	incoming bool
	flow     ctFlow
	d        int64
	rules    int  // reload: index into hist.rulesets
	unsafe   int  // reload: unsafe-network variant of our certificate
	dlca     bool // reload: firewall.default_local_cidr_any
	to       ctTimeouts
}

type ctHist struct {
	kind     string
	rulesets []ctRules
	rules0   int
	unsafe0  int
	dlca0    bool
	to0      ctTimeouts
	v0       uint16
	cacheP   int64 // > 0: every Drop gets the cache of a real firewall.ConntrackCacheTicker of this period; 0: nil cache
	evs      []ctEv
}

type ctRow struct {
	rs, peer   int
	tup        firewall.Packet
	ok, ai, ao bool
}

type ctResult struct {
	lit       string
	desc      map[string]any
	nontriv   bool
	fail      string // a failure the harness itself established (not evaluable in Coq)
	honoured  int    // passes that no rule allowed (rode on conntrack)
	expired   int    // refusals of a flow that had passed before
	installed int
}

func ctRunHist(t *testing.T, c *hx.Ctx, h *ctHist) (res ctResult) {
	synctest.Test(t, func(t *testing.T) {
		res = ctRunHistIn(c, h)
	})
	return res
}

func ctPrefixes(ss []string) []netip.Prefix {
	var r []netip.Prefix
	for _, s := range ss {
		r = append(r, netip.MustParsePrefix(s))
	}
	return r
}

func ctRunHistIn(c *hx.Ctx, h *ctHist) (res ctResult) {
	w, err := nebula.VerifCTNew(ctRnd(c), c.Chance(0.5), ctMyNets, ctUnsafe[h.unsafe0], ctYAML(h.rulesets[h.rules0], h.to0, h.dlca0))
	if err != nil {
		res.fail = "VerifCTNew: " + err.Error()
		return
	}
	for _, p := range ctPeers {
		w.AddPeer(p.name, ctPrefixes(p.nets), ctPrefixes(p.unsafe), p.groups)
	}
	w.SetRulesVersion(h.v0)
	// the routine-local conntrack cache: the real ticker, started now (instant 0 of the history); its goroutine lives
	// in this synctest bubble, so its ticks follow the virtual clock; it is stopped before the bubble ends
	var ticker *firewall.ConntrackCacheTicker
	if h.cacheP > 0 {
		ctx, cancel := context.WithCancel(context.Background())
		ticker = firewall.NewConntrackCacheTicker(ctx, slog.New(slog.DiscardHandler), time.Duration(h.cacheP))
		defer func() {
			cancel()
			synctest.Wait()
		}()
	}

	// a rule set is identified by the text of its rules and the unsafe networks of our certificate
	type rsKey struct {
		rules  string // rule lists + default_local_cidr_any
		unsafe int
	}
	mkKey := func(rules, unsafe int, dlca bool) rsKey {
		return rsKey{ctYAML(h.rulesets[rules], ctTimeouts{}, dlca), unsafe}
	}
	rsIDs := map[rsKey]int{}
	rsID := func(k rsKey) int {
		if id, ok := rsIDs[k]; ok {
			return id
		}
		rsIDs[k] = len(rsIDs)
		return len(rsIDs) - 1
	}
	cur := mkKey(h.rules0, h.unsafe0, h.dlca0)
	curTo := h.to0
	rs0 := rsID(cur)

	type rowKey struct {
		rs, peer int
		tup      firewall.Packet
	}
	rows := map[rowKey]ctRow{}
	var rowOrder []rowKey
	var evLits []string
	var obs []uint64
	var descEv []any
	passedBefore := map[firewall.Packet]bool{}

	for _, e := range h.evs {
		switch e.kind {
		case 0:
			wr := e.flow.wire(e.incoming)
			fp, perr := w.NewPacket(wr.bytes(), e.incoming)
			if perr != nil {
				res.fail = "newPacket refused a generated packet: " + perr.Error()
				return
			}
			id := rsID(cur)
			k := rowKey{id, e.peer, fp}
			row := ctRow{rs: id, peer: e.peer, tup: fp, ok: w.AddrOK(fp, e.peer), ai: w.Allowed(fp, true, e.peer), ao: w.Allowed(fp, false, e.peer)}
			if old, seen := rows[k]; seen {
				if old != row {
					res.fail = "address checks / rule match are not a function of (rule set, peer, tuple)"
					return
				}
			} else {
				rows[k] = row
				rowOrder = append(rowOrder, k)
			}
			v, pan := w.Drop(fp, e.incoming, e.peer, ticker.Get()) // Get() of a nil ticker is a nil cache
			if pan != "" {
				res.fail = "Drop panicked: " + pan
				return
			}
			own := row.ao
			if e.incoming {
				own = row.ai
			}
			if v == 0 && !own {
				res.honoured++
			}
			if v != 0 && row.ok && passedBefore[fp] {
				res.expired++
				passedBefore[fp] = false
			}
			if v == 0 {
				passedBefore[fp] = true
			}
			obs = append(obs, uint64(v))
			evLits = append(evLits, hx.App("CP", hx.N(uint64(e.peer)), hx.Bool(e.incoming), ctWireLit(wr), ctTupleLit(fp)))
			descEv = append(descEv, []any{"pkt", e.peer, e.incoming, fp.LocalAddr.String(), fp.RemoteAddr.String(), fp.LocalPort, fp.RemotePort, fp.Protocol, fp.Fragment, v})
		case 1:
			time.Sleep(time.Duration(e.d))
			synctest.Wait() // a tick due at this very instant has been counted before the next packet
			evLits = append(evLits, hx.App("CS", hx.Z(e.d)))
			descEv = append(descEv, []any{"sleep", e.d})
		case 2:
			nk := mkKey(e.rules, e.unsafe, e.dlca)
			changed := nk != cur || e.to != curTo
			inst, rerr := w.Reload(ctYAML(h.rulesets[e.rules], e.to, e.dlca), e.unsafe != cur.unsafe, ctUnsafe[e.unsafe])
			if rerr != nil {
				res.fail = "reload: " + rerr.Error()
				return
			}
			if inst {
				res.installed++
			}
			if changed {
				cur, curTo = nk, e.to
				evLits = append(evLits, hx.App("CR", hx.N(uint64(rsID(cur))), hx.Z(e.to.tcp), hx.Z(e.to.udp), hx.Z(e.to.def), hx.Bool(inst)))
				descEv = append(descEv, []any{"reload", rsID(cur), e.rules, e.unsafe, e.dlca, e.to.tcp, e.to.udp, e.to.def, inst, w.RulesVersion()})
			} else {
				evLits = append(evLits, hx.App("CN", hx.Bool(inst)))
				descEv = append(descEv, []any{"reload-unchanged", inst})
			}
		}
	}
	var rowLits []string
	for _, k := range rowOrder {
		r := rows[k]
		rowLits = append(rowLits, hx.App("Rw", hx.N(uint64(r.rs)), hx.N(uint64(r.peer)), ctTupleLit(r.tup), hx.Bool(r.ok), hx.Bool(r.ai), hx.Bool(r.ao)))
	}
	ctor := []string{"CHist"}
	if h.cacheP > 0 {
		ctor = []string{"CHistC", hx.Z(h.cacheP)}
	}
	res.lit = hx.App(ctor[0], append(ctor[1:], hx.N(uint64(rs0)), hx.N(uint64(h.v0)), hx.Z(h.to0.tcp), hx.Z(h.to0.udp), hx.Z(h.to0.def),
		hx.List(rowLits), hx.List(evLits), hx.NList(obs))...)
	res.desc = map[string]any{"kind": h.kind, "cache_period": h.cacheP, "v0": h.v0, "timeouts": []int64{h.to0.tcp, h.to0.udp, h.to0.def},
		"rulesets": fmt.Sprint(h.rulesets), "rules0": h.rules0, "unsafe0": h.unsafe0, "dlca0": h.dlca0, "events": descEv, "tracked_at_end": w.Tracked()}
	res.nontriv = res.honoured > 0 && (res.expired > 0 || res.installed > 0)
	return
}

// ---- generators -----------------------------------------------------------------------------------------------

const (
	ctSec = int64(time.Second)
	ctMin = int64(time.Minute)
)

var ctDefaultTo = ctTimeouts{12 * ctMin, 3 * ctMin, 10 * ctMin}

func (t ctTimeouts) of(proto uint8) int64 {
	switch proto {
	case firewall.ProtoTCP:
		return t.tcp
	case firewall.ProtoUDP:
		return t.udp
	}
	return t.def
}

func (t ctTimeouts) tick() int64 { return min(t.tcp, t.udp, t.def) }

// random timeouts with max/min <= 40 (the wheel has max/min + 2 slots)
func ctRandTimeouts(c *hx.Ctx, small bool) ctTimeouts {
	if !small && c.Chance(0.4) {
		return ctDefaultTo
	}
	base := []int64{ctSec, 7 * ctSec, 30 * ctSec, ctMin, 90*ctSec + 1, 3 * ctMin}[c.Intn(6)]
	if small { // around the 1 s cache period
		base = []int64{ctSec / 4, ctSec / 2, ctSec, 1500 * ctSec / 1000}[c.Intn(4)]
	}
	m := func() int64 { return base * int64(1+c.Intn(12)) / int64(1+c.Intn(3)) }
	t := ctTimeouts{m(), m(), m()}
	for _, p := range []*int64{&t.tcp, &t.udp, &t.def} {
		if *p < base/3+1 {
			*p = base/3 + 1
		}
	}
	return t
}

func ctRandRules(c *hx.Ctx) ctRules {
	var r ctRules
	if c.Chance(0.55) {
		r.in = append(r.in, 0)
	}
	for i := c.Intn(3); i > 0; i-- {
		r.in = append(r.in, c.Intn(len(ctRuleFrag)))
	}
	if c.Chance(0.25) {
		r.out = append(r.out, 0)
	}
	for i := c.Intn(3); i > 0; i-- {
		r.out = append(r.out, c.Intn(len(ctRuleFrag)))
	}
	return r
}

func ctRandFlow(c *hx.Ctx) ctFlow {
	f := ctFlow{peer: c.Intn(len(ctPeers))}
	pd := ctPeers[f.peer]
	f.remote = netip.MustParseAddr(pd.remote[c.Intn(len(pd.remote))])
	if c.Chance(0.06) { // an address of somebody else
		od := ctPeers[c.Intn(len(ctPeers))]
		f.remote = netip.MustParseAddr(od.remote[0])
	}
	if f.remote.Is4() {
		f.local = netip.MustParseAddr("10.0.0.1")
		if c.Chance(0.2) { // an unsafe network of ours (routable or not, depending on our certificate), or not ours at all
			f.local = netip.MustParseAddr(ctLocals4[c.Intn(len(ctLocals4))])
		}
	} else {
		f.local = netip.MustParseAddr("fd00::1")
	}
	f.lport = []uint16{80, 1005, 53, 4000, 22}[c.Intn(5)]
	f.rport = []uint16{40000, 40001, 80, 53}[c.Intn(4)]
	if f.remote.Is4() {
		switch c.Intn(10) {
		case 0, 1, 2, 3:
			f.proto = firewall.ProtoTCP
		case 4, 5, 6:
			f.proto = firewall.ProtoUDP
		case 7:
			f.proto = firewall.ProtoICMP
			f.lport = 0
		case 8:
			f.proto = 47
		default:
			f.proto = []uint8{firewall.ProtoTCP, firewall.ProtoUDP}[c.Intn(2)]
			f.frag = true
			f.lport, f.rport = 0, 0
		}
	} else {
		f.proto = []uint8{firewall.ProtoTCP, firewall.ProtoUDP}[c.Intn(2)]
	}
	return f
}

func ctGap(c *hx.Ctx, T, tick int64) int64 {
	switch c.Intn(20) {
	case 0, 1, 2, 3:
		return T
	case 4, 5, 6:
		return T - 1
	case 7, 8, 9:
		return T + 1
	case 10, 11, 12:
		return T / 2
	case 13, 14:
		return 2*T + 7
	case 15:
		return tick
	case 16:
		return 5 * int64(time.Hour)
	case 17:
		return -int64(c.Intn(5))
	default:
		return int64(c.Intn(int(tick)+1)) / int64(1+c.Intn(4))
	}
}

func ctRandHist(c *hx.Ctx, reloads bool) *ctHist {
	cached := c.Chance(0.35)
	h := &ctHist{kind: "random", to0: ctRandTimeouts(c, cached), unsafe0: c.Intn(3)}
	if c.Chance(0.5) {
		h.unsafe0 = 0
	}
	if cached {
		h.cacheP = ctSec
	}
	h.dlca0 = c.Chance(0.4)
	curDlca := h.dlca0
	nr := 1
	if reloads {
		nr = 2 + c.Intn(3)
		h.kind = "random-reload"
		switch c.Intn(4) {
		case 0:
			h.v0 = 0
		case 1:
			h.v0 = uint16(c.Intn(65536))
		default:
			h.v0 = uint16(c.Intn(65000))
			if c.Chance(0.35) {
				h.v0 = uint16(65535 - c.Intn(4)) // the wrap happens within the history (known finding F25)
			}
		}
	}
	for i := 0; i < nr; i++ {
		h.rulesets = append(h.rulesets, ctRandRules(c))
	}
	if reloads && c.Chance(0.5) { // one rule set that says the same in other words
		r := h.rulesets[0]
		h.rulesets = append(h.rulesets, ctRules{in: append(append([]int{}, r.in...), r.in...), out: r.out})
	}
	flows := make([]ctFlow, 3+c.Intn(3))
	for i := range flows {
		flows[i] = ctRandFlow(c)
	}
	if c.Chance(0.5) { // two flows differing in one field only
		g := flows[0]
		switch c.Intn(3) {
		case 0:
			g.rport ^= 1
		case 1:
			g.lport ^= 1
		default:
			if g.proto == firewall.ProtoTCP {
				g.proto = firewall.ProtoUDP
			} else if g.proto == firewall.ProtoUDP {
				g.proto = firewall.ProtoTCP
			}
		}
		if g.proto == firewall.ProtoICMP {
			g.lport = 0
		}
		if g.frag {
			g.lport, g.rport = 0, 0
		}
		flows[1] = g
	}
	if reloads && c.Chance(0.6) { // a flow to an address inside an unsafe network of ours, and our certificate has it
		if h.unsafe0 == 0 {
			h.unsafe0 = 1 + c.Intn(2)
		}
		u := flows[len(flows)-1]
		if u.remote.Is4() {
			u.local = netip.MustParseAddr("192.168.0.5")
			flows[len(flows)-1] = u
		}
	}
	curTo := h.to0
	churnPort := uint16(20000)
	if cached {
		h.kind += "-cache"
	}
	n := 12 + c.Intn(40)
	for i := 0; i < n; i++ {
		r := c.Intn(100)
		switch {
		case r < 55:
			f := flows[c.Intn(len(flows))]
			if cached && c.Chance(0.5) { // several packets of one flow inside one cache period
				f = flows[0]
			}
			e := ctEv{kind: 0, flow: f, peer: f.peer, incoming: c.Chance(0.5)}
			if c.Chance(0.07) {
				e.peer = c.Intn(len(ctPeers))
			}
			h.evs = append(h.evs, e)
		case r < 80:
			f := flows[c.Intn(len(flows))]
			d := ctGap(c, curTo.of(f.proto), curTo.tick())
			if cached && c.Chance(0.5) { // around the ticks of the cache ticker
				d = []int64{ctSec, ctSec - 1, ctSec / 2, ctSec / 3, ctSec / 10, ctSec + 1}[c.Intn(6)]
			}
			h.evs = append(h.evs, ctEv{kind: 1, d: d})
		case r < 90 || !reloads:
			// churn: a packet of a flow never seen before
			f := ctRandFlow(c)
			if !f.frag {
				f.rport = churnPort
				churnPort++
			}
			h.evs = append(h.evs, ctEv{kind: 0, flow: f, peer: f.peer, incoming: c.Chance(0.7)})
		default:
			e := ctEv{kind: 2, rules: c.Intn(len(h.rulesets)), unsafe: h.unsafe0, dlca: curDlca, to: curTo}
			if c.Chance(0.3) {
				e.unsafe = c.Intn(3)
			}
			if c.Chance(0.35) { // a reload that changes only an input of rule matching outside the rule lists
				last := ctLastCfg(h)
				e.rules, e.unsafe = last.rules, last.unsafe
				if c.Chance(0.75) {
					e.dlca = !curDlca
				} else {
					e.unsafe = (last.unsafe + 1 + c.Intn(2)) % 3
				}
			}
			if c.Chance(0.3) {
				e.to = ctRandTimeouts(c, cached)
			}
			if c.Chance(0.15) { // a reload that changes nothing at all
				if len(h.evs) > 0 {
					e = ctLastCfg(h)
				}
			}
			curTo, curDlca = e.to, e.dlca
			h.evs = append(h.evs, e)
		}
	}
	return h
}

// the configuration in force at the end of h, as a reload event (reloading it changes nothing)
func ctLastCfg(h *ctHist) ctEv {
	e := ctEv{kind: 2, rules: h.rules0, unsafe: h.unsafe0, dlca: h.dlca0, to: h.to0}
	for _, x := range h.evs {
		if x.kind == 2 {
			e = x
		}
	}
	return e
}

func ctSweepConntrack() []*ctHist {
	var hs []*ctHist
	f4 := func(proto uint8) ctFlow {
		f := ctFlow{peer: 0, local: netip.MustParseAddr("10.0.0.1"), remote: netip.MustParseAddr("10.0.0.2"), lport: 80, rport: 40000, proto: proto}
		if proto == firewall.ProtoICMP {
			f.lport = 0
		}
		return f
	}
	g := ctFlow{peer: 1, local: netip.MustParseAddr("10.0.0.1"), remote: netip.MustParseAddr("10.0.0.3"), lport: 53, rport: 40001, proto: firewall.ProtoUDP}
	pkt := func(f ctFlow, in bool) ctEv { return ctEv{kind: 0, flow: f, peer: f.peer, incoming: in} }
	sl := func(d int64) ctEv { return ctEv{kind: 1, d: d} }
	// witnesses of repaired defects, kept as ordinary cases: F4 (5 h idle, no churn) and F24 (idle == timeout exactly,
	// with and without an unrelated flow inserted at that instant; props/C18.v C18_nonvacuous)
	hs = append(hs,
		&ctHist{kind: "sweep/witness/f4", rulesets: []ctRules{{in: []int{0}}}, to0: ctDefaultTo,
			evs: []ctEv{pkt(f4(firewall.ProtoUDP), true), pkt(f4(firewall.ProtoUDP), false), sl(5 * int64(time.Hour)), pkt(f4(firewall.ProtoUDP), false)}},
		&ctHist{kind: "sweep/witness/instant-quiet", rulesets: []ctRules{{in: []int{0}}}, to0: ctDefaultTo,
			evs: []ctEv{pkt(f4(firewall.ProtoTCP), true), sl(3 * ctMin), pkt(f4(firewall.ProtoTCP), false), sl(12 * ctMin), pkt(f4(firewall.ProtoTCP), false)}},
		&ctHist{kind: "sweep/witness/instant-churn", rulesets: []ctRules{{in: []int{0}}}, to0: ctDefaultTo,
			evs: []ctEv{pkt(f4(firewall.ProtoTCP), true), sl(3 * ctMin), pkt(f4(firewall.ProtoTCP), false), sl(12 * ctMin), pkt(g, true), pkt(f4(firewall.ProtoTCP), false)}})
	for _, to := range []ctTimeouts{ctDefaultTo, {40 * ctSec, 25 * ctSec, 90 * ctSec}} {
		for _, proto := range []uint8{firewall.ProtoTCP, firewall.ProtoUDP, firewall.ProtoICMP, 47} {
			T := to.of(proto)
			{
				for gi, gap := range []int64{T - 1, T, T + 1, 5 * int64(time.Hour)} {
					for churn := 0; churn < 3; churn++ {
						refresh := (gi+churn)%2 == 0
						f := f4(proto)
						h := &ctHist{kind: fmt.Sprintf("sweep/proto%d/gap%d/churn%d", proto, gi, churn), rulesets: []ctRules{{in: []int{0}}}, to0: to}
						h.evs = append(h.evs, pkt(f, false), pkt(f, true), pkt(f, false))
						if refresh {
							h.evs = append(h.evs, sl(to.tick()), pkt(f, false))
						}
						gg := g
						switch churn {
						case 0:
							h.evs = append(h.evs, sl(gap))
						case 1: // unrelated flow inserted at the very instant
							h.evs = append(h.evs, sl(gap), pkt(gg, true))
						case 2: // unrelated flows inserted on the way
							h.evs = append(h.evs, sl(gap/2), pkt(gg, true))
							gg.rport++
							h.evs = append(h.evs, sl(gap-gap/2-1), pkt(gg, true), sl(1))
						}
						h.evs = append(h.evs, pkt(f, false), pkt(f, false), pkt(f, true), pkt(f, false))
						hs = append(hs, h)
					}
				}
			}
		}
	}
	return hs
}

// cache-enabled sweep (1 s period): an expired, not yet reaped flow asked twice inside one tick; a stale flow riding on
// the cache until the tick; with and without churn; reload variants when reloads is set
func ctSweepCache(reloads bool) []*ctHist {
	var hs []*ctHist
	f := ctFlow{peer: 0, local: netip.MustParseAddr("10.0.0.1"), remote: netip.MustParseAddr("10.0.0.2"), lport: 80, rport: 40000, proto: firewall.ProtoTCP}
	g := ctFlow{peer: 1, local: netip.MustParseAddr("10.0.0.1"), remote: netip.MustParseAddr("10.0.0.3"), lport: 53, rport: 40001, proto: firewall.ProtoUDP}
	pkt := func(f ctFlow, in bool) ctEv { return ctEv{kind: 0, flow: f, peer: f.peer, incoming: in} }
	sl := func(d int64) ctEv { return ctEv{kind: 1, d: d} }
	ms := ctSec / 1000
	rulesets := []ctRules{{in: []int{0}}, {in: []int{11}}, {in: []int{0, 0, 1}}}
	for ti, to := range []ctTimeouts{{2500 * ms, 1500 * ms, 3000 * ms}, {300 * ms, 300 * ms, 300 * ms}, {1000 * ms, 1000 * ms, 2000 * ms}} {
		T := to.of(f.proto)
		for churn := 0; churn < 3; churn++ {
			for warm := 0; warm < 2; warm++ { // warm: the reply was honoured (and cached) before the idle period
				h := &ctHist{kind: fmt.Sprintf("sweep-cache/expired-twice/t%d/churn%d/warm%d", ti, churn, warm), rulesets: rulesets, to0: to, cacheP: ctSec}
				h.evs = append(h.evs, pkt(f, true))
				if warm == 1 {
					h.evs = append(h.evs, pkt(f, false), pkt(f, false))
				}
				h.evs = append(h.evs, sl(T+200*ms))
				gg := g
				if churn == 1 {
					h.evs = append(h.evs, pkt(gg, true))
				}
				h.evs = append(h.evs, pkt(f, false))
				if churn == 2 {
					h.evs = append(h.evs, pkt(gg, true), pkt(gg, false))
				}
				h.evs = append(h.evs, pkt(f, false), pkt(f, false), sl(100*ms), pkt(f, false), sl(ctSec), pkt(f, false), pkt(f, true), pkt(f, false), pkt(f, false))
				hs = append(hs, h)
			}
			// stale within the period: honoured and cached, then idle past the timeout but no tick yet
			h := &ctHist{kind: fmt.Sprintf("sweep-cache/stale/t%d/churn%d", ti, churn), rulesets: rulesets, to0: to, cacheP: ctSec}
			h.evs = append(h.evs, sl(ctSec), pkt(f, true), pkt(f, false), sl(T/2), pkt(f, false), sl(T/2+150*ms))
			if churn > 0 {
				h.evs = append(h.evs, pkt(g, true))
			}
			h.evs = append(h.evs, pkt(f, false), pkt(f, false), sl(ctSec), pkt(f, false), pkt(f, false))
			if churn == 2 {
				h.evs = append(h.evs, pkt(g, false))
			}
			h.evs = append(h.evs, sl(ctSec-1), pkt(f, false), sl(1), pkt(f, false), pkt(f, true), pkt(f, false), sl(ctSec), pkt(f, false))
			hs = append(hs, h)
		}
	}
	if reloads {
		to := ctTimeouts{2500 * ms, 1500 * ms, 3000 * ms}
		rl := func(r int) ctEv { return ctEv{kind: 2, rules: r, unsafe: 0, to: to} }
		for _, v0 := range []uint16{0, 65534} {
			for warm := 0; warm < 2; warm++ {
				for _, target := range []int{1, 2} { // 1: the flow's direction is no longer allowed; 2: the same rules in other words
					h := &ctHist{kind: fmt.Sprintf("sweep-cache/reload/r%d/warm%d/v%d", target, warm, v0), rulesets: rulesets, to0: to, v0: v0, cacheP: ctSec}
					h.evs = append(h.evs, pkt(f, true))
					if warm == 1 {
						h.evs = append(h.evs, pkt(f, false))
					}
					h.evs = append(h.evs, rl(target), pkt(f, false), pkt(f, false), sl(ctSec), pkt(f, false), pkt(f, false), pkt(g, true), pkt(f, false),
						rl(0), pkt(f, false), pkt(f, true), pkt(f, false), sl(ctSec), pkt(f, false))
					hs = append(hs, h)
				}
			}
		}
	}
	return hs
}

func ctSweepReload() []*ctHist {
	var hs []*ctHist
	f := ctFlow{peer: 0, local: netip.MustParseAddr("10.0.0.1"), remote: netip.MustParseAddr("10.0.0.2"), lport: 80, rport: 40000, proto: firewall.ProtoTCP}
	u := ctFlow{peer: 0, local: netip.MustParseAddr("192.168.0.5"), remote: netip.MustParseAddr("10.0.0.2"), lport: 80, rport: 40000, proto: firewall.ProtoTCP}
	pkt := func(f ctFlow, in bool) ctEv { return ctEv{kind: 0, flow: f, peer: f.peer, incoming: in} }
	// 0: inbound any   1: inbound udp for g2 only   2: the same as 0 in other words   3: outbound any
	rulesets := []ctRules{{in: []int{0}}, {in: []int{11}}, {in: []int{0, 0, 1}}, {out: []int{0}}}
	to := ctDefaultTo
	to2 := ctTimeouts{13 * ctMin, 3 * ctMin, 10 * ctMin}
	rl := func(r, un int, t ctTimeouts) ctEv { return ctEv{kind: 2, rules: r, unsafe: un, to: t} }
	pats := map[string][]ctEv{
		"revert":        {rl(1, 0, to), rl(0, 0, to)},
		"cut":           {rl(1, 0, to)},
		"cut-then-ask":  {rl(1, 0, to), pkt(f, false), rl(0, 0, to)},
		"same-words":    {rl(2, 0, to)},
		"timeouts-only": {rl(0, 0, to2)},
		"unchanged":     {rl(0, 0, to)},
		"other-dir":     {rl(3, 0, to)},
		"unsafe-on":     {rl(0, 1, to)},
		"unsafe-on-off": {rl(0, 1, to), pkt(u, true), pkt(u, false), rl(0, 0, to), pkt(u, false), rl(0, 1, to), pkt(u, false)},
	}
	// F25 first: rulesVersion 65535, a reload that changes nothing about the rules (timeouts only), the reply is refused
	hs = append(hs, &ctHist{kind: "reload-version-wrap", rulesets: rulesets, to0: to, v0: 65535,
		evs: []ctEv{pkt(f, true), pkt(f, false), rl(0, 0, to2), pkt(f, false)}})
	// reloads that change ONLY firewall.default_local_cidr_any (rule lists byte-identical, same rule hash): node with an
	// unsafe network, inbound rule without local_cidr, a tracked flow to an unsafe-network local address (u) and one to
	// our own address (f); true -> false refuses new u flows, so the tracked u must be cut and f kept; false -> true
	for _, v0 := range []uint16{0, 9, 40000} {
		for _, from := range []bool{true, false} {
			for _, un := range []int{1, 2} {
				h := &ctHist{kind: fmt.Sprintf("sweep/dlca-only/%v/u%d/v%d", from, un, v0), rulesets: rulesets, to0: to, v0: v0, unsafe0: un, dlca0: from}
				flip := func(d bool) ctEv { return ctEv{kind: 2, rules: 0, unsafe: un, dlca: d, to: to} }
				h.evs = append(h.evs, pkt(u, true), pkt(u, false), pkt(f, true), pkt(f, false),
					flip(!from), pkt(u, false), pkt(u, false), pkt(f, false), pkt(u, true), pkt(u, false),
					flip(from), pkt(u, false), pkt(u, true), pkt(u, false), pkt(f, false),
					flip(!from), pkt(u, false), ctEv{kind: 1, d: ctMin}, pkt(u, false), pkt(f, false))
				hs = append(hs, h)
			}
		}
	}
	// the unsafe networks of our certificate change and nothing else (a certificate reload): 1 <-> 2, flows to both networks
	for _, v0 := range []uint16{0, 65000} {
		u9 := u
		u9.local = netip.MustParseAddr("192.168.9.7")
		h := &ctHist{kind: fmt.Sprintf("sweep/unsafe-only/v%d", v0), rulesets: rulesets, to0: to, v0: v0, unsafe0: 2, dlca0: true}
		rlu := func(un int) ctEv { return ctEv{kind: 2, rules: 0, unsafe: un, dlca: true, to: to} }
		h.evs = append(h.evs, pkt(u, true), pkt(u, false), pkt(u9, true), pkt(u9, false), rlu(1), pkt(u, false), pkt(u9, false), pkt(u9, true),
			rlu(2), pkt(u9, false), pkt(u, false), rlu(0), pkt(u, false), pkt(f, true), pkt(f, false), rlu(1), pkt(u, false), pkt(f, false))
		hs = append(hs, h)
	}
	names := []string{"revert", "cut", "cut-then-ask", "same-words", "timeouts-only", "unchanged", "other-dir", "unsafe-on", "unsafe-on-off"}
	for _, v0 := range []uint16{0, 7, 65533, 65534, 65535} {
		for _, name := range names {
			h := &ctHist{kind: fmt.Sprintf("sweep/%s/v%d", name, v0), rulesets: rulesets, to0: to, v0: v0}
			h.evs = append(h.evs, pkt(f, true), pkt(f, false))
			h.evs = append(h.evs, pats[name]...)
			h.evs = append(h.evs, pkt(f, false), pkt(f, false), ctEv{kind: 1, d: ctMin}, pkt(f, true), pkt(f, false))
			hs = append(hs, h)
		}
	}
	// many reloads in a row across the wrap, traffic in between
	for _, v0 := range []uint16{65530, 65535} {
		h := &ctHist{kind: fmt.Sprintf("sweep/many/v%d", v0), rulesets: rulesets, to0: to, v0: v0}
		h.evs = append(h.evs, pkt(f, true))
		for i := 0; i < 12; i++ {
			t := to
			if i%2 == 0 {
				t = to2
			}
			h.evs = append(h.evs, rl([]int{0, 2}[i%2], 0, t), pkt(f, false))
		}
		hs = append(hs, h)
	}
	return hs
}

func runCT(c *hx.Ctx, reloads bool) {
	testing.Main(func(pat, str string) (bool, error) { return true, nil },
		[]testing.InternalTest{{Name: "conntrack", F: func(t *testing.T) { runCTIn(t, c, reloads) }}}, nil, nil)
}

func runCTIn(t *testing.T, c *hx.Ctx, reloads bool) {
	per := c.N/16 + 1
	if per < 8 {
		per = 8
	}
	if per > 120 {
		per = 120
	}
	cw := c.NewCaseWriter("From NV Require Import model.Conntrack model.FwReload corr.Conntrack_corr.", "case", "check_case", per)
	var hs []*ctHist
	if reloads {
		hs = append(ctSweepReload(), ctSweepCache(true)...)
	} else {
		hs = append(ctSweepConntrack(), ctSweepCache(false)...)
	}
	if len(hs) > c.N*2/3 { // keep room for random histories in small runs
		hs = hs[:c.N*2/3]
	}
	for len(hs) < c.N {
		hs = append(hs, ctRandHist(c, reloads))
	}
	var failures []map[string]any
	honoured, expired, installed := 0, 0, 0
	for _, h := range hs {
		r := ctRunHist(t, c, h)
		if r.fail != "" {
			failures = append(failures, map[string]any{"i": cw.Total(), "code": 1, "what": r.fail})
			cw.Add(hx.App("CHist", "0", "0", "1%Z", "1%Z", "1%Z", "[]", "[]", "[]"), "harness-failure", false,
				map[string]any{"kind": h.kind, "failure": r.fail})
			continue
		}
		honoured += r.honoured
		expired += r.expired
		installed += r.installed
		kind := h.kind
		if i := strings.Index(kind, "/"); i > 0 {
			kind = kind[:i]
		}
		cw.Add(r.lit, kind, r.nontriv, r.desc)
	}
	if len(failures) > 0 {
		cw.Meta("failures", failures)
	}
	cw.Meta("passes_riding_on_conntrack", honoured)
	cw.Meta("refusals_of_previously_passing_flows", expired)
	cw.Meta("reloads_installed", installed)
	cw.Meta("clock", "testing/synctest virtual clock (one bubble per history)")
	rule := "nontrivial = a history in which some packet passed that no rule allows (it rode on a tracked flow) and some flow that had passed was later refused"
	if reloads {
		rule += " or a reload installed a new firewall"
	}
	cw.Close(rule)
}

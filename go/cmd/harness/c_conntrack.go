//go:build comp_all || comp_conntrack

package main

import (
	"fmt"
	"net/netip"
	"testing"
	"testing/synctest"
	"time"

	nebula "github.com/slackhq/nebula"
	"github.com/slackhq/nebula/firewall"
	"verifharness/hx"
)

func init() {
	hx.Register("conntrack", runCTProto)
}

func runCTProto(c *hx.Ctx) {
	testing.Main(func(pat, str string) (bool, error) { return true, nil },
		[]testing.InternalTest{{Name: "conntrack", F: func(t *testing.T) {
			for i := 0; i < 4; i++ {
				synctest.Test(t, func(t *testing.T) {
					rnd := func(b []byte) { copy(b, c.RandBytes(len(b))) }
					w, err := nebula.VerifCTNew(rnd, true, []netip.Prefix{netip.MustParsePrefix("10.0.0.1/24")}, nil,
						"firewall:\n  inbound:\n    - port: any\n      proto: any\n      host: any\n")
					if err != nil {
						panic(err)
					}
					p := w.AddPeer("p1", []netip.Prefix{netip.MustParsePrefix("10.0.0.2/24")}, nil, []string{"g1"})
					q := w.AddPeer("p2", []netip.Prefix{netip.MustParsePrefix("10.0.0.3/24")}, nil, []string{"g1"})
					f := firewall.Packet{LocalAddr: netip.MustParseAddr("10.0.0.1"), RemoteAddr: netip.MustParseAddr("10.0.0.2"), LocalPort: 10, RemotePort: 90, Protocol: 6}
					g := firewall.Packet{LocalAddr: netip.MustParseAddr("10.0.0.1"), RemoteAddr: netip.MustParseAddr("10.0.0.3"), LocalPort: 10, RemotePort: 90, Protocol: 17}
					if i == 2 || i == 3 {
						w.SetRulesVersion(65535)
						if i == 3 { w.SetRulesVersion(7) }
						v1, _ := w.Drop(f, true, p, nil)
						v2, _ := w.Drop(f, false, p, nil)
						inst, err := w.Reload("firewall:\n  conntrack:\n    tcp_timeout: 13m\n  inbound:\n    - port: any\n      proto: any\n      host: any\n", false, nil)
						v3, _ := w.Drop(f, false, p, nil)
						fmt.Println("wrap", v1, v2, inst, err, w.RulesVersion(), v3)
						return
					}
					v1, _ := w.Drop(f, true, p, nil)
					time.Sleep(3 * time.Minute)
					v2, _ := w.Drop(f, false, p, nil)
					time.Sleep(12 * time.Minute)
					if i == 0 {
						vg, _ := w.Drop(g, true, q, nil)
						fmt.Println("churn", vg)
					}
					v3, _ := w.Drop(f, false, p, nil)
					fmt.Println(i, v1, v2, v3)
				})
			}
		}}}, nil, nil)
}

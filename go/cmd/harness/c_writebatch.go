//go:build (comp_all || comp_writebatch) && linux && !android && !e2e_testing

package main

import (
	"fmt"
	"net/netip"
	"sort"
	"strings"

	"github.com/slackhq/nebula/udp"
	"verifharness/hx"
)

func init() {
	hx.Register("gen_writebatch", genWriteBatch)
	hx.Register("writebatch", runWriteBatch)
}

// genWriteBatch (T1): the limits WriteBatch is compiled with.
func genWriteBatch(c *hx.Ctx) {
	m := udp.VerifWriteBatchConsts()
	keys := make([]string, 0, len(m))
	for k := range m {
		keys = append(keys, k)
	}
	sort.Strings(keys)
	var sb strings.Builder
	sb.WriteString("(* GENERATED from /repo/udp by harness gen_writebatch: do not edit *)\nFrom Coq Require Import NArith.\nOpen Scope N_scope.\n")
	for _, k := range keys {
		fmt.Fprintf(&sb, "Definition %s : N := %d.\n", k, m[k])
	}
	c.WriteFile("Consts_WriteBatch.v", sb.String())
}

type wbPkt struct{ size, dst int }

type wbScenario struct {
	// rel != "": maxSegs was obtained from the real gsoMaxSegments(rel), as prepareGSO does, and the fake kernel is
	// the kernel of that release: it refuses UDP_SEGMENT sends with more than kernelSegs segments (EINVAL)
	rel                string
	relMajor, relMinor int
	kernelSegs         int
	isV4, gso          bool
	maxSegs, cap       int
	dests              []netip.AddrPort
	pkts               []wbPkt
	script             []udp.VerifWBOutcome
}

const wbUnknown = 999999

const (
	wbEIO     = 5
	wbENOBUFS = 105
)

func wbDest(i int, v6 bool) netip.AddrPort {
	if v6 {
		return netip.AddrPortFrom(netip.AddrFrom16([16]byte{0xfd, 0, 0, 0, 0, 0, 0, 0, 0, 0, 0, 0, 0, 0, 0, byte(i + 1)}), uint16(4242+i))
	}
	return netip.AddrPortFrom(netip.AddrFrom4([4]byte{10, 0, 0, byte(i + 1)}), uint16(4242+i))
}

func wbRun(cw *hx.CaseWriter, sc wbScenario, kind string) {
	bufs := make([][]byte, len(sc.pkts))
	addrs := make([]netip.AddrPort, len(sc.pkts))
	pk := make([]string, len(sc.pkts))
	pkJ := make([][3]int, len(sc.pkts))
	for i, p := range sc.pkts {
		bufs[i] = make([]byte, p.size)
		addrs[i] = sc.dests[p.dst]
		ok := !(sc.isV4 && !addrs[i].Addr().Unmap().Is4())
		pk[i] = hx.Tuple(hx.N(uint64(p.size)), hx.N(uint64(p.dst)), hx.Bool(ok))
		okI := 0
		if ok {
			okI = 1
		}
		pkJ[i] = [3]int{p.size, p.dst, okI}
	}
	res := udp.VerifWriteBatchK(sc.isV4, sc.gso, sc.maxSegs, sc.cap, bufs, addrs, sc.script, sc.kernelSegs)

	dstID := func(e udp.VerifWBEntry) uint64 {
		if !e.AddrOK {
			return wbUnknown
		}
		for i, d := range sc.dests {
			if d.Port() == e.Addr.Port() && d.Addr().Unmap() == e.Addr.Addr().Unmap() {
				return uint64(i)
			}
		}
		return wbUnknown
	}
	multi, fault := false, false
	calls := make([]string, len(res.Calls))
	callsJ := make([][4]int, 0, len(res.Calls))
	for ci, cl := range res.Calls {
		ups := make([]string, len(cl.Updates))
		for ui, u := range cl.Updates {
			e := u.Entry
			idx := make([]uint64, len(e.Idx))
			for k := range e.Idx {
				idx[k] = uint64(e.Idx[k])
				if e.Idx[k] < 0 {
					idx[k] = wbUnknown
				}
			}
			seg := hx.None()
			if e.Seg >= 0 {
				seg = hx.Some(hx.N(uint64(e.Seg)))
			} else if e.Seg != -1 {
				seg = hx.Some(hx.N(wbUnknown))
			}
			if len(e.Idx) >= 2 {
				multi = true
			}
			ups[ui] = hx.Tuple(hx.N(uint64(u.Slot)), hx.App("WriteBatch_corr.IE", hx.NList(idx), seg, hx.N(dstID(e))))
		}
		if cl.Sent < cl.N {
			fault = true
		}
		calls[ci] = hx.App("WriteBatch_corr.IC", hx.N(uint64(cl.Start)), hx.N(uint64(cl.N)), hx.List(ups), hx.Z(int64(cl.Sent)), hx.N(uint64(cl.Errno)))
		if len(callsJ) < 40 {
			callsJ = append(callsJ, [4]int{cl.Start, cl.N, cl.Sent, cl.Errno})
		}
	}
	// the kernel's answers as they were given (script item clamped to the entries offered, kernel segment limit applied)
	script := make([]string, len(res.Calls))
	for i, cl := range res.Calls {
		script[i] = hx.Tuple(hx.Z(int64(cl.Sent)), hx.N(uint64(cl.Errno)))
	}
	scriptJ := make([][2]int, len(sc.script))
	for i, s := range sc.script {
		scriptJ[i] = [2]int{s.Sent, s.Errno}
	}
	ret := uint64(wbUnknown)
	if res.Ret >= 0 {
		ret = uint64(res.Ret)
	}
	args := []string{hx.N(uint64(sc.cap)), hx.Bool(sc.gso), hx.N(uint64(sc.maxSegs)), hx.List(pk), hx.List(script),
		hx.List(calls), hx.N(ret), hx.Bool(res.Err), hx.Bool(res.GsoAfter), hx.Bool(res.Panic != "")}
	lit := hx.App("WriteBatch_corr.CBatch", args...)
	if sc.rel != "" {
		lit = hx.App("WriteBatch_corr.CBatchRel", append([]string{hx.N(uint64(sc.relMajor)), hx.N(uint64(sc.relMinor))}, args...)...)
	}
	cw.Add(lit, kind, multi || fault, map[string]any{"op": "batch", "kernel_release": sc.rel, "kernel_segment_limit": sc.kernelSegs, "v4_socket": sc.isV4, "gso": sc.gso, "max_segs": sc.maxSegs, "cap": sc.cap,
		"pkts_len_dst_ok": pkJ, "script_sent_errno": scriptJ, "calls_start_n_sent_errno_first40": callsJ, "ncalls": len(res.Calls),
		"ret": res.Ret, "err": res.Err, "gso_after": res.GsoAfter, "panic": res.Panic})
}

func runWriteBatch(c *hx.Ctx) {
	cw := c.NewCaseWriter("From NV Require Import corr.WriteBatch_corr.", "WriteBatch_corr.case", "WriteBatch_corr.check_case", 100)

	ok := func(n int) udp.VerifWBOutcome { return udp.VerifWBOutcome{Sent: n} }
	full := ok(1000)
	fail := func(errno int) udp.VerifWBOutcome { return udp.VerifWBOutcome{Sent: -1, Errno: errno} }
	rep := func(n, size, dst int) []wbPkt {
		r := make([]wbPkt, n)
		for i := range r {
			r[i] = wbPkt{size, dst}
		}
		return r
	}
	cat := func(ps ...[]wbPkt) []wbPkt {
		var o []wbPkt
		for _, p := range ps {
			o = append(o, p...)
		}
		return o
	}
	d44 := []netip.AddrPort{wbDest(0, false), wbDest(1, false), wbDest(2, true), wbDest(3, true)}

	// ---- kernel-release gate: the real gsoMaxSegments / parseRelease on a swept table of release strings ----------
	addRel := func(rel string, wf bool, major, minor int, kind string) {
		lim := udp.VerifGsoMaxSegments(rel)
		pm, pn := udp.VerifParseRelease(rel)
		cw.Add(hx.App("WriteBatch_corr.CRelease", hx.Bool(wf), hx.N(uint64(major)), hx.N(uint64(minor)), hx.Z(int64(pm)), hx.Z(int64(pn)), hx.Z(int64(lim))),
			kind, wf, map[string]any{"op": "release", "release": rel, "wellformed": wf, "major": major, "minor": minor, "parsed": [2]int{pm, pn}, "limit": lim})
	}
	for major := 2; major <= 9; major++ {
		for minor := 0; minor <= 40; minor++ {
			for _, f := range []string{"%d.%d", "%d.%d.0", "%d.%d.0-76-generic", "%d.%d.3-arch1-1", "%d.%d-rc1", "%d.%d.0-rc1+"} {
				addRel(fmt.Sprintf(f, major, minor), true, major, minor, "release-sweep")
			}
		}
	}
	for _, mm := range [][2]int{{10, 0}, {10, 8}, {12, 3}, {6, 99}, {6, 100}, {5, 99}, {5, 190}, {0, 69}, {1, 59}, {60, 9}, {69, 0}} {
		addRel(fmt.Sprintf("%d.%d.1-generic", mm[0], mm[1]), true, mm[0], mm[1], "release-sweep")
	}
	for _, bad := range []string{"", "6", "6.", ".9", "6.x", "abc", " 6.9", "6 .9", "x.9.0", "garbage", "-6.9", "6..9", "v6.9.0", "six.nine"} {
		addRel(bad, false, 0, 0, "release-malformed")
	}
	// batches planned with the limit the real gate returns for a release, against the kernel of that release: it takes at
	// most UDP_MAX_SEGMENTS - 1 segments per send (64 before 6.9, 128 from 6.9 on) and answers EINVAL above that
	for _, r := range []struct {
		rel          string
		major, minor int
	}{{"5.4.0-generic", 5, 4}, {"5.19.0-76-generic", 5, 19}, {"5.20.1", 5, 20}, {"4.29.0", 4, 29}, {"3.39.2", 3, 39}, {"6.8.0-rc1", 6, 8},
		{"6.9.0", 6, 9}, {"6.10.3-arch1-1", 6, 10}, {"7.0.0", 7, 0}, {"6.18.44-fc-v33", 6, 18}} {
		ks := 63
		if r.major > 6 || (r.major == 6 && r.minor >= 9) {
			ks = 127
		}
		for _, n := range []int{62, 63, 64, 65, 100, 126, 127, 128} {
			for _, scr := range [][]udp.VerifWBOutcome{{full, full, full, full}, {ok(1), full, full, full}} {
				sc := wbScenario{rel: r.rel, relMajor: r.major, relMinor: r.minor, kernelSegs: ks, isV4: true, gso: true,
					maxSegs: udp.VerifGsoMaxSegments(r.rel), cap: 128, dests: d44, script: scr}
				sc.pkts = cat(rep(1, 300, 1), rep(n, 100, 0), rep(2, 100, 1))
				wbRun(cw, sc, "release-batch")
			}
		}
	}

	// ---- corpus: the scenarios of the repository's tests and the limits -----------------------------
	base := wbScenario{isV4: true, gso: true, maxSegs: 63, cap: 128, dests: d44}
	with := func(f func(*wbScenario)) wbScenario { s := base; f(&s); return s }
	corpus := []wbScenario{
		with(func(s *wbScenario) {}), // empty batch
		with(func(s *wbScenario) { s.pkts = rep(1, 100, 0); s.script = []udp.VerifWBOutcome{full} }),
		// partial send rewind: A x3 | B x2 | A x1, kernel takes 1 then 1 then all
		with(func(s *wbScenario) {
			s.pkts = cat(rep(3, 1200, 0), rep(2, 1200, 1), rep(1, 1200, 0))
			s.script = []udp.VerifWBOutcome{ok(1), ok(1), full}
		}),
		// EIO on the first superpacket: GSO off, replay as single packets
		with(func(s *wbScenario) { s.pkts = rep(4, 1200, 0); s.script = []udp.VerifWBOutcome{fail(wbEIO), full} }),
		// mid-chunk EIO after one accepted entry
		with(func(s *wbScenario) {
			s.pkts = cat(rep(2, 1000, 0), rep(3, 1000, 1), rep(2, 900, 0))
			s.script = []udp.VerifWBOutcome{ok(1), fail(wbEIO), ok(2), fail(wbEIO), full}
		}),
		// EIO on a single-packet entry is a plain rejection; EIO with GSO off likewise
		with(func(s *wbScenario) {
			s.pkts = cat(rep(1, 500, 0), rep(2, 600, 1))
			s.script = []udp.VerifWBOutcome{fail(wbEIO), full}
		}),
		with(func(s *wbScenario) {
			s.gso = false
			s.pkts = rep(3, 500, 0)
			s.script = []udp.VerifWBOutcome{fail(wbEIO), ok(1), fail(wbEIO)}
		}),
		// mid-chunk reject resumes; ENOBUFS surfaced after sendmmsg's own retries is a rejection
		with(func(s *wbScenario) {
			s.pkts = cat(rep(1, 100, 0), rep(1, 100, 1), rep(1, 100, 0), rep(1, 100, 1))
			s.script = []udp.VerifWBOutcome{ok(1), fail(1), fail(wbENOBUFS), full}
		}),
		// zero progress with a nil error
		with(func(s *wbScenario) { s.pkts = rep(3, 100, 0); s.script = []udp.VerifWBOutcome{ok(0)} }),
		with(func(s *wbScenario) {
			s.gso = false
			s.pkts = rep(3, 100, 0)
			s.script = []udp.VerifWBOutcome{ok(2), ok(0)}
		}),
		// unroutable runs leave holes; count must not span them
		with(func(s *wbScenario) {
			s.pkts = cat(rep(2, 300, 0), rep(3, 300, 2), rep(2, 300, 1), rep(1, 300, 3), rep(1, 300, 0))
			s.script = []udp.VerifWBOutcome{ok(1), fail(22), full}
		}),
		with(func(s *wbScenario) { s.pkts = cat(rep(3, 300, 2), rep(2, 300, 3)) }), // everything unroutable
		with(func(s *wbScenario) {
			s.isV4 = false
			s.pkts = cat(rep(2, 300, 0), rep(3, 300, 2), rep(2, 300, 1))
			s.script = []udp.VerifWBOutcome{full}
		}),
		// segment limit: 64 equal packets, 63 per superpacket; 127 with the newer cap; tiny caps
		with(func(s *wbScenario) { s.pkts = rep(64, 100, 0); s.script = []udp.VerifWBOutcome{full} }),
		with(func(s *wbScenario) {
			s.maxSegs = 127
			s.pkts = rep(64, 100, 0)
			s.script = []udp.VerifWBOutcome{ok(0), full}
		}),
		with(func(s *wbScenario) {
			s.maxSegs = 2
			s.pkts = rep(7, 100, 0)
			s.script = []udp.VerifWBOutcome{ok(2), fail(wbEIO), full}
		}),
		with(func(s *wbScenario) { s.maxSegs = 1; s.pkts = rep(4, 100, 0); s.script = []udp.VerifWBOutcome{full} }),
		with(func(s *wbScenario) { s.maxSegs = 0; s.pkts = rep(4, 100, 0); s.script = []udp.VerifWBOutcome{full} }),
		// byte limit: 8 x 9001 > 65000; exact fit 65000; first packet at and above the limit
		with(func(s *wbScenario) { s.pkts = rep(9, 9001, 0); s.script = []udp.VerifWBOutcome{full} }),
		with(func(s *wbScenario) { s.pkts = rep(5, 13000, 0); s.script = []udp.VerifWBOutcome{full} }),
		with(func(s *wbScenario) {
			s.pkts = cat(rep(4, 13000, 0), rep(1, 12999, 0), rep(1, 1, 0))
			s.script = []udp.VerifWBOutcome{full}
		}),
		with(func(s *wbScenario) {
			s.pkts = cat(rep(2, 65000, 0), rep(2, 65001, 0), rep(2, 32500, 0), rep(2, 32501, 0))
			s.script = []udp.VerifWBOutcome{full}
		}),
		// shorter last, then the run restarts; a longer packet breaks the run; empty packets
		with(func(s *wbScenario) {
			s.pkts = cat(rep(3, 1000, 0), rep(1, 10, 0), rep(2, 1000, 0), rep(1, 1001, 0), rep(1, 0, 0), rep(2, 0, 0), rep(2, 7, 0))
			s.script = []udp.VerifWBOutcome{ok(2), full}
		}),
		// chunking: scratch smaller than the batch; a run cut by the iovec budget
		with(func(s *wbScenario) {
			s.cap = 4
			s.pkts = cat(rep(6, 100, 0), rep(3, 100, 1))
			s.script = []udp.VerifWBOutcome{ok(1), full}
		}),
		with(func(s *wbScenario) {
			s.cap = 3
			s.pkts = cat(rep(1, 50, 1), rep(5, 100, 0), rep(1, 50, 1), rep(2, 100, 0))
			s.script = []udp.VerifWBOutcome{ok(1), fail(wbEIO), ok(1), fail(13), full}
		}),
		with(func(s *wbScenario) {
			s.cap = 1
			s.pkts = cat(rep(3, 100, 0), rep(2, 100, 1))
			s.script = []udp.VerifWBOutcome{full, fail(wbEIO), full}
		}),
		with(func(s *wbScenario) {
			s.cap = 2
			s.gso = false
			s.pkts = rep(5, 100, 0)
			s.script = []udp.VerifWBOutcome{ok(1), fail(1), full}
		}),
		// accepted count together with an error value (cannot come from sendmmsg(2), but sendFn's type allows it)
		with(func(s *wbScenario) {
			s.pkts = rep(5, 100, 0)
			s.gso = false
			s.script = []udp.VerifWBOutcome{{Sent: 2, Errno: wbEIO}, full}
		}),
	}
	for _, sc := range corpus {
		wbRun(cw, sc, "corpus")
	}
	// every prefix/suffix position for one fault in a fixed mixed batch, GSO on and off
	mixed := cat(rep(3, 1200, 0), rep(1, 700, 0), rep(2, 1200, 1), rep(2, 400, 2), rep(1, 1200, 0), rep(3, 90, 1))
	for _, gso := range []bool{true, false} {
		for pos := 0; pos < 8; pos++ {
			for _, f := range []udp.VerifWBOutcome{fail(wbEIO), fail(wbENOBUFS), ok(1), ok(0)} {
				sc := base
				sc.gso, sc.pkts = gso, mixed
				for j := 0; j < pos; j++ {
					sc.script = append(sc.script, ok(1))
				}
				sc.script = append(sc.script, f, full, full)
				wbRun(cw, sc, "fault-position-sweep")
			}
		}
	}

	// ---- random ------------------------------------------------------------------------------------
	errnos := []int{1, 11, 22, 90, 101, 111, 113}
	for i := 0; i < c.N; i++ {
		var sc wbScenario
		nd := 1 + c.Intn(4)
		for d := 0; d < nd; d++ {
			sc.dests = append(sc.dests, wbDest(d, c.Chance(0.35)))
		}
		sc.isV4 = c.Chance(0.5)
		sc.gso = c.Chance(0.75)
		switch r := c.Intn(100); {
		case r < 50:
			sc.maxSegs = 63
		case r < 60:
			sc.maxSegs = 127
		case r < 90:
			sc.maxSegs = 2 + c.Intn(5)
		case r < 95:
			sc.maxSegs = 1
		default:
			sc.maxSegs = 0
		}
		switch r := c.Intn(100); {
		case r < 50:
			sc.cap = 128
		case r < 90:
			sc.cap = 1 + c.Intn(8)
		default:
			sc.cap = []int{16, 64}[c.Intn(2)]
		}
		npk := c.Intn(65)
		pickSize := func() int {
			switch r := c.Intn(100); {
			case r < 25:
				return 1 + c.Intn(64)
			case r < 65:
				return 1200 + c.Intn(301)
			case r < 75:
				return 9001
			case r < 85:
				return 20000 + c.Intn(13000)
			case r < 90:
				return 64990 + c.Intn(21)
			case r < 95:
				return 1
			default:
				return 2 + c.Intn(3)
			}
		}
		for len(sc.pkts) < npk {
			d := c.Intn(nd)
			switch r := c.Intn(100); {
			case r < 60: // a run of equal sizes, perhaps with a shorter last
				s := pickSize()
				l := 1 + c.Intn(12)
				if c.Chance(0.1) {
					l = 1 + c.Intn(70)
				}
				sc.pkts = append(sc.pkts, rep(l, s, d)...)
				if s > 1 && c.Chance(0.4) {
					sc.pkts = append(sc.pkts, wbPkt{1 + c.Intn(s-1), d})
				}
			case r < 75: // singles, some empty, some above the byte limit
				s := pickSize()
				if c.Chance(0.25) {
					s = 0
				} else if c.Chance(0.08) {
					s = 65001 + c.Intn(5000)
				}
				sc.pkts = append(sc.pkts, wbPkt{s, d})
			case r < 88: // same size, alternating destinations
				s := pickSize()
				d2 := c.Intn(nd)
				for k, l := 0, 2+c.Intn(5); k < l; k++ {
					if k%2 == 0 {
						sc.pkts = append(sc.pkts, wbPkt{s, d})
					} else {
						sc.pkts = append(sc.pkts, wbPkt{s, d2})
					}
				}
			default: // growing sizes: a longer packet ends the run
				s := pickSize()
				for k, l := 0, 2+c.Intn(4); k < l; k++ {
					sc.pkts = append(sc.pkts, wbPkt{s + k*c.Intn(3), d})
				}
			}
		}
		sc.pkts = sc.pkts[:npk]
		faulty := c.Intn(4) // 0: clean kernel, 1: light, 2/3: heavy
		ns := 0
		if faulty > 0 {
			ns = 2 + c.Intn(2*npk+4)
		} else if c.Chance(0.5) {
			ns = npk + 2
		}
		for k := 0; k < ns; k++ {
			pf := []int{0, 15, 45, 70}[faulty]
			if c.Intn(100) >= pf {
				sc.script = append(sc.script, full)
				continue
			}
			z := -c.Intn(2) // 0 or -1
			switch r := c.Intn(100); {
			case r < 30:
				sc.script = append(sc.script, ok(1+c.Intn(3)))
			case r < 40:
				sc.script = append(sc.script, ok(1+c.Intn(16)))
			case r < 65:
				sc.script = append(sc.script, udp.VerifWBOutcome{Sent: z, Errno: wbEIO})
			case r < 80:
				sc.script = append(sc.script, udp.VerifWBOutcome{Sent: z, Errno: wbENOBUFS})
			case r < 92:
				sc.script = append(sc.script, udp.VerifWBOutcome{Sent: z, Errno: errnos[c.Intn(len(errnos))]})
			case r < 95:
				sc.script = append(sc.script, udp.VerifWBOutcome{Sent: z, Errno: 0})
			default:
				sc.script = append(sc.script, udp.VerifWBOutcome{Sent: 1 + c.Intn(4), Errno: []int{wbEIO, wbENOBUFS, 11}[c.Intn(3)]})
			}
		}
		kind := "random-gso"
		if !sc.gso {
			kind = "random-nogso"
		}
		kind += []string{"-clean", "-light", "-heavy", "-heavy"}[faulty]
		wbRun(cw, sc, kind)
	}
	cw.Close("corpus: the repository's scripted-fault scenarios, segment/byte/scratch limits, one fault at every position of a mixed batch; " +
		"random: 0..64 packets over 1..4 destinations (v4/v6, v4- or v6-bound socket), runs of equal sizes with shorter last, alternating destinations, growing sizes, " +
		"empty and over-limit packets; maxSegs in {63,127,2..6,1,0}; scratch in {128,1..8,16,64}; scripts of full sends, short counts, EIO/ENOBUFS/other zero-progress errors, " +
		"nil-error zero progress, count-with-error. non-trivial = some offered entry carries >= 2 packets or some call was not fully accepted; distinct by literal")
}

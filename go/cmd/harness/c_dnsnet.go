//go:build comp_all || comp_dns

package main

// C44, component dnsnet: the DNS responder of a lighthouse inside a small network of real nodes. Handshakes run through
// the real handshake manager in both directions (the node under test as responder AND as initiator: right host, a
// different valid host answering - wrong responder -, multi-address v4+v6 certificates, a certificate of an untrusted
// CA, a blocklisted certificate, a certificate claiming the node's own address). After every step the responder is
// asked A and AAAA for every name of the scenario through the real parseQuery, and the main hostmap's established
// tunnels (with the names and addresses of the certificates they were authenticated with) are read off the node.

import (
	"fmt"
	"net/netip"

	"github.com/slackhq/nebula"
	"verifharness/hx"
)

func init() {
	hx.Register("dnsnet", runDNSNet)
}

type dnsNetPeer struct {
	idx     int
	name    string
	addrs   []netip.Addr
	under   netip.AddrPort
	foreign bool
	blocked bool
}

func runDNSNet(c *hx.Ctx) {
	cw := c.NewCaseWriter("From NV Require Import lib.Ip model.Dns corr.Dns_corr.", "Dns_corr.case", "Dns_corr.check_case", 30)
	v4 := func(x int) netip.Addr { return netip.AddrFrom4([4]byte{10, 128, 0, byte(x)}) }
	v6 := func(x int) netip.Addr {
		b := [16]byte{0xfd}
		b[15] = byte(x)
		return netip.AddrFrom16(b)
	}
	under := func(x int) netip.AddrPort {
		return netip.AddrPortFrom(netip.AddrFrom4([4]byte{192, 0, 2, byte(x)}), 4242)
	}
	names := []string{"alpha", "Bravo", "evil", "multi", "rogue", "blocked", "mirror"}
	for i := 0; i < c.N; i++ {
		selfAddrs := []netip.Addr{v4(1)}
		if c.Chance(0.5) {
			selfAddrs = append(selfAddrs, v6(1))
		}
		net := nebula.VerifNewDNSNet("lh", selfAddrs, under(1))
		// peers
		var peers []*dnsNetPeer
		next := 2
		mk := func(name string, addrs []netip.Addr, foreign bool) *dnsNetPeer {
			p := &dnsNetPeer{name: name, addrs: addrs, under: under(next), foreign: foreign}
			next++
			p.idx = net.AddNode(name, addrs, p.under, foreign)
			peers = append(peers, p)
			return p
		}
		alpha := mk("alpha", []netip.Addr{v4(10)}, false)
		bravo := mk("Bravo", []netip.Addr{v4(11), v6(11)}, false)
		evil := mk("evil", []netip.Addr{v4(2)}, false)
		multi := mk("multi", []netip.Addr{v4(20), v6(20), v4(21)}, false)
		rogue := mk("rogue", []netip.Addr{v4(30)}, true)
		blocked := mk("blocked", []netip.Addr{v4(40), v6(40)}, false)
		net.Blocklist(blocked.idx)
		blocked.blocked = true
		mirror := mk("mirror", []netip.Addr{v4(50), selfAddrs[0]}, false) // claims one of my own addresses
		_ = alpha

		var steps []string
		var descs []any
		answered := 0
		observe := func(label string) {
			est := net.Established()
			el := make([]string, len(est))
			for k, t := range est {
				el[k] = fmt.Sprintf("(%s, %s)", dnsName(t.Name), dnsAddrsLit(t.Addrs))
			}
			var al []string
			var ad []string
			for _, nm := range append([]string{"lh"}, names...) {
				q := nm + "."
				if c.Chance(0.3) {
					q = dnsRecase(c, q)
				}
				for _, qt := range []uint16{nebula.VerifDNSTypeA, nebula.VerifDNSTypeAAAA} {
					rc, ans, odd := net.Query(netip.MustParseAddrPort("127.0.0.1:5353"), "", []nebula.VerifDNSQuestion{{Name: q, Qtype: qt}}, c.Chance(0.3), 0)
					if odd {
						rc = 99
					}
					vals := make([]string, 0, len(ans))
					for _, a := range ans {
						if a.Rtype != qt || !a.Addr.IsValid() {
							vals = append(vals, "340282366920938463463374607431768211455")
							continue
						}
						vals = append(vals, dnsAddrVal(a.Addr))
					}
					answered += len(ans)
					al = append(al, fmt.Sprintf("(%d, %s, %d, %s)", qt, dnsName(q), rc, hx.List(vals)))
					if len(ans) > 0 {
						ad = append(ad, fmt.Sprintf("%d %s -> %v", qt, q, ans))
					}
				}
			}
			steps = append(steps, fmt.Sprintf("(mkNs %s %s)", hx.List(el), hx.List(al)))
			descs = append(descs, map[string]any{"step": label, "established": fmt.Sprint(est), "answers": ad, "pending": net.PendingCount()})
		}
		observe("start")
		n := 3 + c.Intn(6)
		for s := 0; s < n; s++ {
			var label string
			switch x := c.Intn(100); {
			case x < 18: // initiator, the right host answers
				p := []*dnsNetPeer{alpha, bravo}[c.Intn(2)]
				net.Dial(0, p.addrs[0], p.under)
				label = "lh dials " + p.name + " (right host)"
			case x < 42: // initiator, a different valid host answers (wrong responder)
				target := []netip.Addr{v4(99), v4(10), v6(77), v4(11)}[c.Intn(4)]
				p := []*dnsNetPeer{evil, multi, bravo}[c.Intn(3)]
				net.Dial(0, target, p.under)
				label = fmt.Sprintf("lh dials %v, %s answers (wrong responder)", target, p.name)
			case x < 58: // initiator, multi-address certificate, dialled by any of its addresses
				a := multi.addrs[c.Intn(len(multi.addrs))]
				net.Dial(0, a, multi.under)
				label = fmt.Sprintf("lh dials multi at %v", a)
			case x < 72: // responder: a peer dials the lighthouse
				p := peers[c.Intn(4)]
				net.Dial(p.idx, selfAddrs[c.Intn(len(selfAddrs))], under(1))
				label = p.name + " dials lh"
			case x < 80: // untrusted CA, either direction
				if c.Chance(0.5) {
					net.Dial(0, rogue.addrs[0], rogue.under)
					label = "lh dials rogue (untrusted CA)"
				} else {
					net.Dial(rogue.idx, selfAddrs[0], under(1))
					label = "rogue (untrusted CA) dials lh"
				}
			case x < 90: // blocklisted certificate, either direction
				if c.Chance(0.5) {
					net.Dial(0, blocked.addrs[0], blocked.under)
					label = "lh dials blocked"
				} else {
					net.Dial(blocked.idx, selfAddrs[0], under(1))
					label = "blocked dials lh"
				}
			default: // a certificate that claims my own address
				if c.Chance(0.5) {
					net.Dial(0, mirror.addrs[0], mirror.under)
					label = "lh dials mirror (claims my address)"
				} else {
					net.Dial(mirror.idx, selfAddrs[0], under(1))
					label = "mirror (claims my address) dials lh"
				}
			}
			observe(label)
		}
		cw.Add(fmt.Sprintf("(CNet %s %s %s)", dnsName("lh"), dnsAddrsLit(selfAddrs), hx.List(steps)), "network", answered > 2,
			map[string]any{"self": fmt.Sprint(selfAddrs), "steps": descs})
	}
	cw.Close("a lighthouse serving DNS among 7 real peer nodes; 3-8 handshakes per scenario through the real handshake manager, the lighthouse as initiator " +
		"(right host, wrong responder, multi-address v4+v6 certificate) and as responder, plus untrusted-CA, blocklisted and own-address-claiming certificates; " +
		"after every handshake A and AAAA for every name of the scenario through the real parseQuery / handleDnsRequest and the established tunnels of the main hostmap; " +
		"non-trivial = more than two answer records")
}

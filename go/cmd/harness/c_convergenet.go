//go:build e2e_testing && (comp_all || comp_convergenet)

package main

// Component convergenet (C31): two REAL nebula nodes (nebula.Main on the e2e in-memory udp/tun) driven event by
// event through the overlay shim verif_convergenet.go: scripted and random delivery orders of both stage-1s,
// stage-2s, data, test and recv_error packets with duplications and losses, handshake-timer and
// connection-manager callbacks interleaved (explicit `now`), re-handshakes racing an existing tunnel.
// Every event and what both nodes looked like after it goes into a Coq case; corr/Converge_corr.v replays the
// schedule on model/Converge.v (code 1) and evaluates the property's clauses on the observations (code 2).

import (
	"encoding/binary"
	"fmt"
	"log/slog"
	"net/netip"
	"strings"
	"time"

	"github.com/slackhq/nebula"
	"github.com/slackhq/nebula/cert"
	"github.com/slackhq/nebula/cert_test"
	"github.com/slackhq/nebula/config"
	"github.com/slackhq/nebula/header"
	"verifharness/hx"
)

func init() { hx.Register("convergenet", runConvergeNet) }

type convCA struct {
	crt cert.Certificate
	key []byte
	pem string
}

func convNewCA() *convCA {
	crt, _, key, pem := cert_test.NewTestCaCert(cert.Version1, cert.Curve_CURVE25519, time.Now().Add(-time.Hour), time.Now().Add(24*365*time.Hour), nil, nil, []string{})
	return &convCA{crt: crt, key: key, pem: string(pem)}
}

func convIndent(s string, n int) string {
	pad := strings.Repeat(" ", n)
	lines := strings.Split(strings.TrimRight(s, "\n"), "\n")
	for i := range lines {
		lines[i] = pad + lines[i]
	}
	return strings.Join(lines, "\n")
}

// convNewControl builds a node the way e2e/helpers_test.go newSimpleServer does.
func convNewControl(ca *convCA, name string, vpn netip.Prefix, udpAddr netip.AddrPort, retries int, extra string) (*nebula.Control, *config.C) {
	l := slog.New(slog.DiscardHandler)
	_, _, priv, pem := cert_test.NewTestCert(cert.Version1, cert.Curve_CURVE25519, ca.crt, ca.key, name,
		time.Now().Add(-time.Hour), time.Now().Add(24*300*time.Hour), []netip.Prefix{vpn}, nil, []string{})
	y := fmt.Sprintf(`pki:
  ca: |
%s
  cert: |
%s
  key: |
%s
firewall:
  outbound:
    - proto: any
      port: any
      host: any
  inbound:
    - proto: any
      port: any
      host: any
listen:
  host: %s
  port: %d
logging:
  level: error
handshakes:
  try_interval: 24h
  retries: %d
timers:
  pending_deletion_interval: 2
  connection_alive_interval: 2
%s`, convIndent(ca.pem, 4), convIndent(string(pem), 4), convIndent(string(priv), 4), udpAddr.Addr(), udpAddr.Port(), retries, extra)
	c := config.NewC(l)
	if err := c.LoadString(y); err != nil {
		panic(err)
	}
	ctl, err := nebula.Main(c, false, "verif", l, nil)
	if err != nil {
		panic(err)
	}
	return ctl, c
}

// convTunPacket is an IPv4/UDP packet carrying an 8-byte payload id.
func convTunPacket(from, to netip.Addr, id uint64) []byte {
	b := make([]byte, 20+8+8)
	b[0] = 0x45
	binary.BigEndian.PutUint16(b[2:], uint16(len(b)))
	b[8] = 64
	b[9] = 17
	f, t := from.As4(), to.As4()
	copy(b[12:16], f[:])
	copy(b[16:20], t[:])
	var sum uint32
	for i := 0; i < 20; i += 2 {
		sum += uint32(binary.BigEndian.Uint16(b[i:]))
	}
	for sum>>16 != 0 {
		sum = sum&0xffff + sum>>16
	}
	binary.BigEndian.PutUint16(b[10:], ^uint16(sum))
	binary.BigEndian.PutUint16(b[20:], 9000)
	binary.BigEndian.PutUint16(b[22:], 9001)
	binary.BigEndian.PutUint16(b[24:], 16)
	binary.BigEndian.PutUint64(b[28:], id)
	// UDP checksum over pseudo header
	sum = 0
	for i := 12; i < 20; i += 2 {
		sum += uint32(binary.BigEndian.Uint16(b[i:]))
	}
	sum += 17 + 16
	for i := 20; i < len(b); i += 2 {
		sum += uint32(binary.BigEndian.Uint16(b[i:]))
	}
	for sum>>16 != 0 {
		sum = sum&0xffff + sum>>16
	}
	cs := ^uint16(sum)
	if cs == 0 {
		cs = 0xffff
	}
	binary.BigEndian.PutUint16(b[26:], cs)
	return b
}

func convTunPayload(b []byte) (uint64, bool) {
	if len(b) != 36 || b[0] != 0x45 || b[9] != 17 {
		return 0, false
	}
	return binary.BigEndian.Uint64(b[28:]), true
}

type convPkt struct {
	from int
	data []byte
	code uint64 // 1 stage1, 2 stage2, 3 data, 4 test request, 5 test reply, 6 recv_error, 9 other
	sl   uint64 // local index of the tunnel it was sent on (data, test), 0 otherwise
	hidx uint64
	ctr  uint64
	lost bool
	nDel int
}

type convEv struct {
	kind string // start hsout data deliver check
	n    int
	arg  uint64 // payload / k / local index
}

type convWorld struct {
	nodes  [2]*nebula.VerifConvergeNode
	vpn    [2]netip.Addr
	udp    [2]netip.AddrPort
	log    []*convPkt
	clk    [2]time.Time
	nextPl uint64
	steps  []string
	descs  []any
	fails  []string
	ever   [2]map[[2]uint32]bool
	swaps  [2]int
	tunOut int
	marks  []string
	markJ  [][2]int
	strict int // log length at a kind-2 mark (-1: none)
}

func (w *convWorld) close() {
	for _, n := range w.nodes {
		if n != nil {
			n.Stop()
		}
	}
}

func convClassify(b []byte) (code, hidx, ctr uint64) {
	var h header.H
	if err := h.Parse(b); err != nil {
		return 9, 0, 0
	}
	switch h.Type {
	case header.Handshake:
		if h.MessageCounter == 1 {
			return 1, uint64(h.RemoteIndex), h.MessageCounter
		}
		return 2, uint64(h.RemoteIndex), h.MessageCounter
	case header.Message:
		return 3, uint64(h.RemoteIndex), h.MessageCounter
	case header.Test:
		if h.Subtype == header.TestRequest {
			return 4, uint64(h.RemoteIndex), h.MessageCounter
		}
		return 5, uint64(h.RemoteIndex), h.MessageCounter
	case header.RecvError:
		return 6, uint64(h.RemoteIndex), h.MessageCounter
	}
	return 9, uint64(h.RemoteIndex), h.MessageCounter
}

func convFlags(t nebula.VerifConvergeTunnel) uint64 {
	var f uint64
	if t.Init {
		f |= 8
	}
	if t.In {
		f |= 4
	}
	if t.Out {
		f |= 2
	}
	if t.Pd {
		f |= 1
	}
	return f
}

func convNodeLit(d nebula.VerifConvergeDump) string {
	p := hx.None()
	if d.HasPending {
		p = hx.Some(hx.Tuple(hx.Bool(d.PendingReady), hx.N(uint64(d.PendingIndex)), hx.N(uint64(d.PendingTries)), hx.N(uint64(d.PendingStore))))
	}
	var ts []string
	for _, t := range d.Tunnels {
		ts = append(ts, hx.Tuple(hx.N(uint64(t.Local)), hx.N(uint64(t.Remote)), hx.N(convFlags(t)), hx.N(t.Counter)))
	}
	return hx.Tuple(p, hx.List(ts))
}

func convNodeJSON(d nebula.VerifConvergeDump) map[string]any {
	var ts [][]uint64
	for _, t := range d.Tunnels {
		ts = append(ts, []uint64{uint64(t.Local), uint64(t.Remote), convFlags(t), t.Counter})
	}
	m := map[string]any{"tunnels": ts}
	if d.HasPending {
		m["pending"] = []any{d.PendingReady, d.PendingIndex, d.PendingTries, d.PendingStore}
	}
	return m
}

// do runs one event on the real nodes, records the observation and evaluates the property's clauses directly.
func (w *convWorld) do(e convEv) {
	for i := 0; i < 2; i++ {
		w.nodes[i].EnsureRemote(w.vpn[1-i], w.udp[1-i])
	}
	var pre [2]nebula.VerifConvergeDump
	for i := 0; i < 2; i++ {
		pre[i] = w.nodes[i].Dump(w.vpn[1-i])
	}
	act := e.n
	var evLit string
	nodeLit := func(i int) string {
		if i == 0 {
			return "NA"
		}
		return "NB"
	}
	var delivered *convPkt
	switch e.kind {
	case "start":
		w.nodes[act].StartHandshake(w.vpn[1-act])
	case "hsout":
		w.nodes[act].HsOut(w.vpn[1-act])
	case "data":
		w.nodes[act].InjectTun(convTunPacket(w.vpn[act], w.vpn[1-act], e.arg))
	case "deliver":
		delivered = w.log[e.arg]
		act = 1 - delivered.from
		w.nodes[act].InjectUDP(w.udp[delivered.from], delivered.data)
	case "check":
		w.nodes[act].Check(uint32(e.arg), w.clk[act])
	}
	var post [2]nebula.VerifConvergeDump
	for i := 0; i < 2; i++ {
		post[i] = w.nodes[i].Dump(w.vpn[1-i])
	}
	// fresh index observed in this event (0 when none)
	var idx uint64
	switch e.kind {
	case "hsout":
		if post[act].HasPending && post[act].PendingReady && !(pre[act].HasPending && pre[act].PendingReady) {
			idx = uint64(post[act].PendingIndex)
		}
		evLit = hx.App("EHsOut", nodeLit(act), hx.N(idx))
	case "deliver":
		if delivered.code == 1 {
			old := map[uint32]bool{}
			for _, t := range pre[act].Tunnels {
				old[t.Local] = true
			}
			for _, t := range post[act].Tunnels {
				if !old[t.Local] {
					idx = uint64(t.Local)
				}
			}
		}
		evLit = hx.App("EDeliver", hx.N(e.arg), hx.N(idx))
	case "start":
		evLit = hx.App("EStart", nodeLit(act))
	case "data":
		evLit = hx.App("EData", nodeLit(act), hx.N(e.arg))
	case "check":
		evLit = hx.App("ECheck", nodeLit(act), hx.N(e.arg), "true")
	}
	// emitted packets: only the acting node can have sent
	var emits []string
	var emitJ [][]uint64
	for i := 0; i < 2; i++ {
		for _, b := range w.nodes[i].DrainUDP() {
			code, hidx, ctr := convClassify(b)
			if i != act {
				w.fails = append(w.fails, fmt.Sprintf("step %d: node %d sent a packet while node %d was acting", len(w.steps), i, act))
			}
			var sl uint64
			if code >= 3 && code <= 5 {
				for _, t := range post[i].Tunnels {
					if uint64(t.Remote) == hidx {
						sl = uint64(t.Local)
					}
				}
			}
			w.log = append(w.log, &convPkt{from: i, data: b, code: code, hidx: hidx, ctr: ctr, sl: sl})
			emits = append(emits, hx.Tuple(hx.N(code), hx.N(hidx), hx.N(ctr)))
			emitJ = append(emitJ, []uint64{code, hidx, ctr})
		}
	}
	var outs []uint64
	for i := 0; i < 2; i++ {
		for _, b := range w.nodes[i].DrainTun() {
			id, ok := convTunPayload(b)
			if !ok || i != act {
				w.fails = append(w.fails, fmt.Sprintf("step %d: unexpected tun output at node %d", len(w.steps), i))
				continue
			}
			outs = append(outs, id)
			w.tunOut++
		}
	}
	// ---- the property's clauses, straight on the implementation ------------------------------------------
	for i := 0; i < 2; i++ {
		for _, t := range post[i].Tunnels {
			w.ever[i][[2]uint32{t.Local, t.Remote}] = true
		}
	}
	if e.kind == "check" && len(post[act].Tunnels) > 0 && uint64(post[act].Tunnels[0].Local) == e.arg &&
		len(pre[act].Tunnels) > 0 && uint64(pre[act].Tunnels[0].Local) != e.arg {
		w.swaps[act]++
		if w.vpn[1-act].Compare(w.vpn[act]) < 0 {
			w.fails = append(w.fails, fmt.Sprintf("step %d: node %d swapped its primary although the peer's address is smaller", len(w.steps), act))
		}
	}
	if w.swaps[0] > 0 && w.swaps[1] > 0 {
		w.fails = append(w.fails, fmt.Sprintf("step %d: both nodes have swapped their primary", len(w.steps)))
	}
	for i := 0; i < 2; i++ {
		for _, t := range post[i].Tunnels {
			if t.Init && !w.ever[1-i][[2]uint32{t.Remote, t.Local}] {
				w.fails = append(w.fails, fmt.Sprintf("step %d: node %d holds initiator tunnel (%d,%d) whose mirror the peer never held", len(w.steps), i, t.Local, t.Remote))
			}
		}
	}
	if delivered != nil && delivered.code == 3 && delivered.nDel == 0 {
		// a data packet delivered for the first time: if the receiver holds the other end (indexes swapped) of the
		// tunnel it was sent on, it must come out of the tun
		if w.strict >= 0 && int(e.arg) >= w.strict && len(outs) != 1 {
			w.fails = append(w.fails, fmt.Sprintf("step %d: data sent after the quiet period was not delivered to the tun", len(w.steps)))
		}
		for _, t := range pre[act].Tunnels {
			if uint64(t.Local) == delivered.hidx && uint64(t.Remote) == delivered.sl && len(outs) != 1 {
				w.fails = append(w.fails, fmt.Sprintf("step %d: data for held tunnel (%d,%d) was not delivered to the tun", len(w.steps), t.Local, t.Remote))
			}
		}
	}
	if delivered != nil {
		delivered.nDel++
	}
	obs := hx.Tuple(convNodeLit(post[0]), convNodeLit(post[1]), hx.List(emits), hx.NList(outs))
	w.steps = append(w.steps, hx.Tuple(evLit, obs))
	w.descs = append(w.descs, map[string]any{"ev": e.kind, "node": act, "arg": e.arg, "idx": idx, "a": convNodeJSON(post[0]), "b": convNodeJSON(post[1]), "emit": emitJ, "tun": outs})
}

func (w *convWorld) dump(i int) nebula.VerifConvergeDump { return w.nodes[i].Dump(w.vpn[1-i]) }

// mark: the clause that must hold here, after quiet loss-free check intervals that followed a matched state.
// kind 1: both nodes hold a tunnel; kind 2: and their primaries are each other's ends, and data sent from now on
// is delivered.
func (w *convWorld) mark(kind int) {
	a, b := w.dump(0), w.dump(1)
	if len(a.Tunnels) == 0 || len(b.Tunnels) == 0 {
		w.fails = append(w.fails, fmt.Sprintf("step %d: after quiet intervals node A holds %d tunnel(s), node B holds %d", len(w.steps), len(a.Tunnels), len(b.Tunnels)))
	} else if kind == 2 && (a.Tunnels[0].Local != b.Tunnels[0].Remote || a.Tunnels[0].Remote != b.Tunnels[0].Local) {
		w.fails = append(w.fails, fmt.Sprintf("step %d: after quiet intervals the two primaries are not the ends of one tunnel", len(w.steps)))
	}
	if kind == 2 {
		w.strict = len(w.log)
	}
	w.marks = append(w.marks, hx.Tuple(hx.N(uint64(len(w.steps))), hx.N(uint64(kind))))
	w.markJ = append(w.markJ, [2]int{len(w.steps), kind})
}

// intervals runs both clocks for d in 500 ms steps, delivering everything that is sent (no loss); with talk[i] node
// i's application sends one packet per step.
func (w *convWorld) intervals(d time.Duration, talk [2]bool) {
	for t := time.Duration(0); t < d; t += 500 * time.Millisecond {
		for i := 0; i < 2; i++ {
			if talk[i] {
				w.data(i)
			}
		}
		w.deliverAll(200)
		w.tick(0, 500*time.Millisecond)
		w.tick(1, 500*time.Millisecond)
		w.deliverAll(200)
	}
}

// staleFlagFamily: two simultaneous handshakes complete; the responder tunnel of the lower-address node L sees no
// inbound traffic during its first check interval because the peer's first `lose` data packets are dropped; then
// the peer's traffic arrives and L swaps to that tunnel; the peer falls silent, L sends `lAfter` more packets; then
// `quiet` silent seconds; then traffic both ways. (A tunnel flag left over from the silent first interval must not kill the promoted tunnel.)
func (w *convWorld) staleFlagFamily(lose int, lTalks bool, lAfter int, talk, quiet time.Duration, dupEvery int) {
	l := 0
	if w.vpn[1].Compare(w.vpn[0]) < 0 {
		l = 1
	}
	p := 1 - l
	w.do(convEv{kind: "start", n: l})
	w.do(convEv{kind: "start", n: p})
	w.do(convEv{kind: "hsout", n: l})
	w.do(convEv{kind: "hsout", n: p})
	w.deliverAll(50) // L: own initiation primary, responder tunnel second; P the other way round
	for k := 0; k < lose; k++ {
		w.data(p)
		w.log[len(w.log)-1].lost = true
	}
	if lTalks {
		w.data(l)
	}
	w.deliverAll(50)
	// first check interval (the wheel starts with the first advance, so the first checks come 2.5 s in): nothing
	// reaches L's responder tunnel before its check
	w.intervals(3*time.Second, [2]bool{})
	// the peer's traffic arrives (and L's own, if it talks) until L promotes its responder tunnel - or for `talk`
	resp := uint32(0)
	for _, tn := range w.dump(l).Tunnels {
		if !tn.Init {
			resp = tn.Local
		}
	}
	swapped := false
	for t := time.Duration(0); t < talk && !swapped; t += 500 * time.Millisecond {
		w.data(p)
		if lTalks {
			w.data(l)
		}
		w.deliverAll(200)
		before := w.swaps[l]
		w.tick(l, 500*time.Millisecond)
		if d := w.dump(l); w.swaps[l] > before && len(d.Tunnels) > 0 && d.Tunnels[0].Local == resp {
			// L has just promoted its responder tunnel. The peer falls silent at once; L still sends a little on its
			// new primary before the peer's own check comes (so the peer sees traffic and does not probe); then
			// nobody sends: the promoted tunnel's next check finds outbound traffic and nothing inbound.
			swapped = true
			for k := 0; k < lAfter; k++ {
				w.data(l)
			}
			w.deliverAll(200)
		}
		w.tick(p, 500*time.Millisecond)
		w.deliverAll(200)
	}
	if dupEvery > 0 {
		for k := 0; k < len(w.log); k += dupEvery {
			// duplicates of data and test packets only: a replayed stage-1 packet may legitimately create a tunnel
			// at a responder that has forgotten the first one (C10 territory), which voids the premise of the mark
			if w.log[k].nDel > 0 && w.log[k].code >= 3 && w.log[k].code <= 5 {
				w.do(convEv{kind: "deliver", arg: uint64(k)})
			}
		}
	}
	w.intervals(quiet, [2]bool{}) // silence
	w.mark(2)
	w.data(0)
	w.data(1)
	w.deliverAll(50)
}

// deliverAll delivers every packet that is neither lost nor delivered yet (and what those deliveries emit).
func (w *convWorld) deliverAll(limit int) {
	for n := 0; n < limit; n++ {
		k := -1
		for i, p := range w.log {
			if !p.lost && p.nDel == 0 {
				k = i
				break
			}
		}
		if k < 0 {
			return
		}
		w.do(convEv{kind: "deliver", arg: uint64(k)})
	}
}

// tick advances node i's clock by dt and runs the connection manager's timer loop: every expired local index is
// checked, in the order the real timer wheel hands them out.
func (w *convWorld) tick(i int, dt time.Duration) int {
	w.clk[i] = w.clk[i].Add(dt)
	w.nodes[i].TickAdvance(w.clk[i])
	n := 0
	for {
		idx, ok := w.nodes[i].TickNext()
		if !ok {
			return n
		}
		w.do(convEv{kind: "check", n: i, arg: uint64(idx)})
		n++
	}
}

func (w *convWorld) data(i int) {
	w.nextPl++
	w.do(convEv{kind: "data", n: i, arg: w.nextPl})
}

// settle: the network is quiet (what was in flight is gone, nothing is lost any more, no new initiations), both
// clocks run, applications keep talking both ways. Returns the virtual time until the nodes held one matching
// tunnel each (-1: never within the horizon).
func (w *convWorld) settle(horizon time.Duration, traffic bool) time.Duration {
	for _, p := range w.log {
		if p.nDel == 0 {
			p.lost = true
		}
	}
	const stepDt = 500 * time.Millisecond
	var at time.Duration = -1
	stable := 0
	for t := time.Duration(0); t < horizon; t += stepDt {
		for i := 0; i < 2; i++ {
			if w.dump(i).HasPending && (t/stepDt)%2 == 0 { // the handshake timer runs too: retransmit, then give up
				w.do(convEv{kind: "hsout", n: i})
			}
		}
		if traffic && (t/stepDt)%2 == 0 {
			w.data(0)
			w.data(1)
		}
		w.deliverAll(200)
		w.tick(0, stepDt)
		w.tick(1, stepDt)
		w.deliverAll(200)
		if w.converged() {
			if at < 0 {
				at = t
			}
			stable++
			if stable > 8 { // stays converged over two more check intervals
				return at
			}
		} else {
			at = -1
			stable = 0
		}
	}
	if w.converged() {
		return at
	}
	return -1
}

func (w *convWorld) converged() bool {
	a, b := w.dump(0), w.dump(1)
	return len(a.Tunnels) == 1 && len(b.Tunnels) == 1 && !a.HasPending && !b.HasPending &&
		a.Tunnels[0].Local == b.Tunnels[0].Remote && a.Tunnels[0].Remote == b.Tunnels[0].Local
}

func convNewWorld(c *hx.Ctx, ca *convCA, retries int) *convWorld {
	w := &convWorld{strict: -1}
	w.clk[0] = time.Now()
	w.clk[1] = w.clk[0]
	// two distinct overlay addresses in 10.128.0.0/16, either may be the smaller one
	a := uint32(1 + c.Intn(250))
	b := uint32(1 + c.Intn(250))
	for b == a {
		b = uint32(1 + c.Intn(250))
	}
	hi := [2]uint32{uint32(c.Intn(3)), uint32(c.Intn(3))}
	lo := [2]uint32{a, b}
	for i := 0; i < 2; i++ {
		w.vpn[i] = netip.AddrFrom4([4]byte{10, 128, byte(hi[i]), byte(lo[i])})
		w.udp[i] = netip.AddrPortFrom(netip.AddrFrom4([4]byte{10, 0, byte(hi[i]), byte(lo[i])}), 4242)
		ctl, _ := convNewControl(ca, fmt.Sprintf("n%d", i), netip.PrefixFrom(w.vpn[i], 16), w.udp[i], retries, "")
		n, err := nebula.VerifConvergeAttach(ctl)
		if err != nil {
			panic(err)
		}
		w.nodes[i] = n
		w.ever[i] = map[[2]uint32]bool{}
	}
	return w
}

func convAddrLit(a netip.Addr) string {
	b := a.As4()
	return hx.App("mkAddr", "false", hx.N(uint64(binary.BigEndian.Uint32(b[:]))))
}

// one random step of the adversarial phase
func (w *convWorld) randomStep(c *hx.Ctx, pLoss float64) {
	a, b := w.dump(0), w.dump(1)
	ds := [2]nebula.VerifConvergeDump{a, b}
	var und, del []int
	for i, p := range w.log {
		if p.lost {
			continue
		}
		if p.nDel == 0 {
			und = append(und, i)
		} else {
			del = append(del, i)
		}
	}
	for tries := 0; tries < 20; tries++ {
		n := c.Intn(2)
		switch r := c.Intn(100); {
		case r < 40 && len(und) > 0:
			k := und[c.Intn(len(und))]
			if c.Chance(0.5) {
				k = und[0]
			}
			if c.Chance(pLoss) {
				w.log[k].lost = true
				return
			}
			w.do(convEv{kind: "deliver", arg: uint64(k)})
			return
		case r < 48 && len(del) > 0:
			w.do(convEv{kind: "deliver", arg: uint64(del[c.Intn(len(del))])})
			return
		case r < 58 && ds[n].HasPending:
			w.do(convEv{kind: "hsout", n: n})
			return
		case r < 64 && !ds[n].HasPending:
			w.do(convEv{kind: "start", n: n})
			return
		case r < 78:
			w.data(n)
			return
		case r < 100:
			w.tick(n, []time.Duration{500 * time.Millisecond, time.Second, 2 * time.Second, 3 * time.Second}[c.Intn(4)])
			return
		}
	}
}

func (w *convWorld) cleanTunnel(first int) {
	w.do(convEv{kind: "start", n: first})
	w.do(convEv{kind: "hsout", n: first})
	w.deliverAll(50)
}

func runConvergeNet(c *hx.Ctx) {
	cw := c.NewCaseWriter("From NV Require Import model.Converge corr.Converge_corr.", "Converge_corr.case", "Converge_corr.check_case", 2)
	ca := convNewCA()
	var failures []map[string]any
	nConv, nSettled := 0, 0
	totalSwaps := 0
	var worstSettle time.Duration
	for i := 0; i < c.N; i++ {
		retries := 2 + c.Intn(3)
		w := convNewWorld(c, ca, retries)
		kind := ""
		settle := false
		switch {
		case i == 0:
			kind = "scripted-simultaneous"
			// both initiate, all four handshake packets cross, then fair rounds
			w.do(convEv{kind: "start", n: 0})
			w.do(convEv{kind: "start", n: 1})
			w.do(convEv{kind: "hsout", n: 0})
			w.do(convEv{kind: "hsout", n: 1})
			w.deliverAll(50)
			settle = true
		case i == 1:
			kind = "scripted-traffic-at-completion"
			w.data(0) // cached while handshaking
			w.do(convEv{kind: "hsout", n: 0})
			w.deliverAll(50)
			w.data(1)
			w.deliverAll(50)
			settle = true
		case i == 2:
			kind = "scripted-rehandshake-race"
			w.cleanTunnel(0)
			w.do(convEv{kind: "start", n: 0})
			w.do(convEv{kind: "start", n: 1})
			w.do(convEv{kind: "hsout", n: 1})
			w.do(convEv{kind: "hsout", n: 0})
			w.deliverAll(50)
			settle = true
		case i == 3:
			kind = "scripted-lost-probes"
			// simultaneous initiation, every liveness probe lost, no traffic: what is left when the network is quiet
			w.do(convEv{kind: "start", n: 0})
			w.do(convEv{kind: "start", n: 1})
			w.do(convEv{kind: "hsout", n: 0})
			w.do(convEv{kind: "hsout", n: 1})
			w.deliverAll(50)
			for r := 0; r < 40; r++ {
				w.tick(0, 500*time.Millisecond)
				w.tick(1, 500*time.Millisecond)
				for _, p := range w.log {
					if p.nDel == 0 {
						p.lost = true
					}
				}
			}
		case i == 4:
			kind = "scripted-stale-flag-after-swap"
			w.staleFlagFamily(1, false, 1, 8*time.Second, 3*time.Second, 0)
			settle = true
		case i == 5:
			kind = "scripted-stale-flag-after-swap-silent"
			w.staleFlagFamily(2, true, 2, 8*time.Second, 6*time.Second, 0)
			settle = true
		case i%5 == 1:
			kind = "random-stale-flag-after-swap"
			w.staleFlagFamily(1+c.Intn(2), c.Chance(0.5), c.Intn(3), time.Duration(6+c.Intn(6))*time.Second, time.Duration(2+c.Intn(10))*time.Second, c.Intn(3)*7)
			settle = c.Chance(0.7)
		default:
			mode := c.Intn(3)
			switch mode {
			case 0:
				kind = "random-simultaneous"
				order := []convEv{{kind: "start", n: 0}, {kind: "start", n: 1}}
				if c.Chance(0.5) {
					order[0], order[1] = order[1], order[0]
				}
				for _, e := range order {
					w.do(e)
				}
			case 1:
				kind = "random-rehandshake"
				w.cleanTunnel(c.Intn(2))
				if c.Chance(0.7) {
					w.do(convEv{kind: "start", n: 0})
					w.do(convEv{kind: "start", n: 1})
				} else {
					w.do(convEv{kind: "start", n: c.Intn(2)})
				}
			default:
				kind = "random-single"
				if c.Chance(0.5) {
					w.data(c.Intn(2))
				} else {
					w.do(convEv{kind: "start", n: c.Intn(2)})
				}
			}
			pLoss := []float64{0, 0.1, 0.3}[c.Intn(3)]
			nsteps := 15 + c.Intn(45)
			for s := 0; s < nsteps; s++ {
				w.randomStep(c, pLoss)
			}
			settle = c.Chance(0.6)
		}
		if settle {
			at := w.settle(40*time.Second, true)
			nSettled++
			if at < 0 {
				w.fails = append(w.fails, "with a quiet loss-free network, running timers and traffic both ways the nodes did not settle on one matching tunnel each within 40 s")
			} else if at > worstSettle {
				worstSettle = at
			}
			kind += "+settle"
		}
		if w.converged() {
			nConv++
		}
		totalSwaps += w.swaps[0] + w.swaps[1]
		lit := hx.App("Converge_corr.CSched", convAddrLit(w.vpn[0]), convAddrLit(w.vpn[1]), hx.N(uint64(retries)), hx.Bool(settle), hx.List(w.marks), hx.List(w.steps))
		idx := cw.Total()
		cw.Add(lit, kind, w.tunOut > 0 || w.swaps[0]+w.swaps[1] > 0,
			map[string]any{"addr_a": w.vpn[0].String(), "addr_b": w.vpn[1].String(), "retries": retries, "settle": settle, "marks": w.markJ, "steps": w.descs, "harness_failures": w.fails})
		if len(w.fails) > 0 {
			failures = append(failures, map[string]any{"i": idx, "code": 2, "what": w.fails})
		}
		if i == 3 {
			a, b := w.dump(0), w.dump(1)
			mism := len(a.Tunnels) == 1 && len(b.Tunnels) == 1 && (a.Tunnels[0].Local != b.Tunnels[0].Remote || a.Tunnels[0].Remote != b.Tunnels[0].Local)
			cw.Meta("lost_probes_leave_mismatched_idle_tunnels", mism)
		}
		w.close()
	}
	if len(failures) > 0 {
		cw.Meta("failures", failures)
	}
	cw.Meta("schedules_settled", nSettled)
	cw.Meta("worst_settle_virtual_ms", worstSettle.Milliseconds())
	cw.Meta("schedules_converged", nConv)
	cw.Meta("swap_decisions", totalSwaps)
	cw.Close("schedule on two real nodes whose observations (hostmaps, pending entries, emitted packets, tun output after every event) equal the model's and satisfy the clauses; nontrivial = data reached a tun or a primary was swapped")
}

//go:build e2e_testing && (comp_all || comp_lifecyclenet)

package main

// Component lifecyclenet (C49): real nebula nodes (nebula.Main + Control.Start on the e2e in-memory udp/tun, all
// goroutines running) are stopped at every phase of multi-node scenarios: before start, right after start,
// mid-handshake, with live and relayed tunnels, during a config reload, with queued lighthouse work, after a
// failed start. At every phase the goroutines in the process are counted by creation site (runtime.Stack) and
// compared in Coq with the activity set model/Lifecycle.v predicts for the nodes' phases and configurations
// (code 1: the table is wrong); after Stop + Wait no goroutine of the node may remain, sockets and tun must refuse
// writes, the context must be cancelled, and Stop / Wait must return within a bound (code 2).

import (
	"crypto/ed25519"
	"crypto/rand"
	"encoding/pem"
	"fmt"
	"log/slog"
	"net"
	"net/netip"
	"os"
	"regexp"
	"runtime"
	"sort"
	"strconv"
	"strings"
	"sync"
	"time"

	"github.com/slackhq/nebula"
	"github.com/slackhq/nebula/cert"
	"github.com/slackhq/nebula/cert_test"
	"github.com/slackhq/nebula/config"
	"github.com/slackhq/nebula/udp"
	"golang.org/x/crypto/ssh"
	"verifharness/hx"
)

func init() { hx.Register("lifecyclenet", runLifecycleNet) }

// ---- goroutine census -------------------------------------------------------------------------------------------

type lifeG struct {
	id, parent int
	frames     []string // function names, innermost first
	creator    string
}

var lifeHdr = regexp.MustCompile(`^goroutine (\d+) \[`)
var lifeCreated = regexp.MustCompile(`^created by (.+?)(?: in goroutine (\d+))?$`)

func lifeSnapshot() []lifeG {
	buf := make([]byte, 1<<20)
	for {
		n := runtime.Stack(buf, true)
		if n < len(buf) {
			buf = buf[:n]
			break
		}
		buf = make([]byte, 2*len(buf))
	}
	var out []lifeG
	for _, blk := range strings.Split(string(buf), "\n\n") {
		lines := strings.Split(strings.TrimSpace(blk), "\n")
		if len(lines) == 0 {
			continue
		}
		m := lifeHdr.FindStringSubmatch(lines[0])
		if m == nil {
			continue
		}
		g := lifeG{}
		g.id, _ = strconv.Atoi(m[1])
		for _, ln := range lines[1:] {
			if strings.HasPrefix(ln, "\t") {
				continue
			}
			if c := lifeCreated.FindStringSubmatch(ln); c != nil {
				g.creator = c[1]
				if c[2] != "" {
					g.parent, _ = strconv.Atoi(c[2])
				}
				continue
			}
			// "pkg.Func(args...)" -> "pkg.Func"
			if i := strings.LastIndex(ln, "("); i > 0 {
				ln = ln[:i]
			}
			g.frames = append(g.frames, ln)
		}
		out = append(out, g)
	}
	return out
}

const lifeMod = "github.com/slackhq/nebula"

// lifeSite names the creation site of a goroutine: its outermost frame inside the nebula module (the function the
// `go` statement started, or the closure handed to WaitGroup.Go), else its outermost frame.
func lifeSite(g lifeG) (string, bool) {
	for i := len(g.frames) - 1; i >= 0; i-- {
		if strings.HasPrefix(g.frames[i], lifeMod) {
			return strings.TrimPrefix(g.frames[i], lifeMod), true
		}
	}
	if strings.HasPrefix(g.creator, lifeMod) {
		return "created-by:" + strings.TrimPrefix(g.creator, lifeMod), true
	}
	if len(g.frames) > 0 {
		return g.frames[len(g.frames)-1], false
	}
	return "?", false
}

// class codes shared with model/Lifecycle.v
var lifeClasses = map[string]uint64{
	".(*HandshakeManager).Run":                 1,
	".(*Interface).emitStats":                  2,
	".(*Punchy).Start.gowrap1":                 3,
	".(*connectionManager).Start":              4,
	".(*Interface).run.func1":                  5, // listenOut
	".(*Interface).run.func2":                  6, // listenIn
	".(*LightHouse).StartUpdateWorker.func1":   7,
	"/firewall.(*ConntrackCacheTicker).tick":   8,
	".(*dnsServer).Start":                      9,
	"/sshd.(*SSHServer).Run":                   10,
	".(*Control).Stop":                         11,
}

type lifeTracker struct {
	known map[int]string // goroutine id -> site, for every goroutine ever seen that belongs to nebula
	base  map[int]bool   // goroutines that existed before the scenario
}

func lifeNewTracker() *lifeTracker {
	t := &lifeTracker{known: map[int]string{}, base: map[int]bool{}}
	for _, g := range lifeSnapshot() {
		t.base[g.id] = true
	}
	return t
}

// census returns the multiset of creation sites of the goroutines that belong to nebula nodes: a frame or creator
// in the nebula module, or a (transitive) child of such a goroutine. Harness goroutines (package main) are skipped.
func (t *lifeTracker) census() map[string]int {
	snap := lifeSnapshot()
	res := map[string]int{}
	for pass := 0; pass < 3; pass++ {
		for _, g := range snap {
			if t.base[g.id] {
				continue
			}
			if _, ok := t.known[g.id]; ok {
				continue
			}
			harness := false
			for _, f := range g.frames {
				if strings.HasPrefix(f, "main.") {
					harness = true
				}
			}
			site, inMod := lifeSite(g)
			if harness && !inMod {
				continue
			}
			if inMod {
				t.known[g.id] = site
			} else if ps, ok := t.known[g.parent]; ok {
				t.known[g.id] = "child-of:" + ps + ":" + site
			}
		}
	}
	for _, g := range snap {
		if s, ok := t.known[g.id]; ok && !t.base[g.id] {
			res[s]++
		}
	}
	return res
}

// ---- nodes ------------------------------------------------------------------------------------------------------

type lifeCA struct {
	crt cert.Certificate
	key []byte
	pem string
}

func lifeIndent(s string, n int) string {
	pad := strings.Repeat(" ", n)
	lines := strings.Split(strings.TrimRight(s, "\n"), "\n")
	for i := range lines {
		lines[i] = pad + lines[i]
	}
	return strings.Join(lines, "\n")
}

type lifeCfg struct {
	routines   int  // requested (the e2e device and socket give one)
	dns        bool // lighthouse.serve_dns on a lighthouse
	sshd       bool
	ctCache    bool // firewall.conntrack.routine_cache_timeout
	amLH       bool
	lhUpdate   bool // has a lighthouse configured and an update interval
	amRelay    bool
	useRelay   bool
	failStart  bool // device whose Activate fails
}

type lifeNode struct {
	name  string
	ctl   *nebula.Control
	conf  *config.C
	vpn   netip.Addr
	udp   netip.AddrPort
	cfg   lifeCfg
	phase uint64 // 0 ready, 1 started, 2 stopped, 3 start failed
	yaml  string
}

func lifeSSHKey() string {
	_, priv, _ := ed25519.GenerateKey(rand.Reader)
	block, err := ssh.MarshalPrivateKey(priv, "verif")
	if err != nil {
		panic(err)
	}
	return string(pem.EncodeToMemory(block))
}

func lifeFreePort() string {
	l, err := net.Listen("tcp", "127.0.0.1:0")
	if err != nil {
		panic(err)
	}
	a := l.Addr().String()
	l.Close()
	return a
}

func lifeNewNode(ca *lifeCA, name string, vpn netip.Addr, cfg lifeCfg, lhVpn netip.Addr, lhUdp netip.AddrPort) *lifeNode {
	l := slog.New(slog.DiscardHandler)
	b := vpn.As4()
	udpAddr := netip.AddrPortFrom(netip.AddrFrom4([4]byte{10, 0, b[2], b[3]}), 4242)
	_, _, priv, pemB := cert_test.NewTestCert(cert.Version1, cert.Curve_CURVE25519, ca.crt, ca.key, name,
		time.Now().Add(-time.Hour), time.Now().Add(24*300*time.Hour), []netip.Prefix{netip.PrefixFrom(vpn, 16)}, nil, []string{})
	var sb strings.Builder
	fmt.Fprintf(&sb, "pki:\n  ca: |\n%s\n  cert: |\n%s\n  key: |\n%s\n", lifeIndent(ca.pem, 4), lifeIndent(string(pemB), 4), lifeIndent(string(priv), 4))
	sb.WriteString("firewall:\n  outbound:\n    - {proto: any, port: any, host: any}\n  inbound:\n    - {proto: any, port: any, host: any}\n")
	if cfg.ctCache {
		sb.WriteString("  conntrack:\n    routine_cache_timeout: 200ms\n")
	}
	fmt.Fprintf(&sb, "listen:\n  host: %s\n  port: %d\n", udpAddr.Addr(), udpAddr.Port())
	sb.WriteString("logging:\n  level: error\nhandshakes:\n  try_interval: 100ms\n  retries: 5\ntimers:\n  pending_deletion_interval: 2\n  connection_alive_interval: 2\n")
	if cfg.routines > 1 {
		fmt.Fprintf(&sb, "routines: %d\n", cfg.routines)
	}
	sb.WriteString("lighthouse:\n")
	if cfg.amLH {
		sb.WriteString("  am_lighthouse: true\n")
		if cfg.dns {
			fmt.Fprintf(&sb, "  serve_dns: true\n  dns:\n    host: 127.0.0.1\n    port: %s\n", strings.Split(lifeFreePort(), ":")[1])
		}
	} else if cfg.lhUpdate {
		fmt.Fprintf(&sb, "  interval: 1\n  hosts:\n    - %s\n", lhVpn)
	}
	if cfg.lhUpdate && !cfg.amLH {
		fmt.Fprintf(&sb, "static_host_map:\n  \"%s\": [\"%s\"]\n", lhVpn, lhUdp)
	}
	if cfg.amRelay || cfg.useRelay {
		fmt.Fprintf(&sb, "relay:\n  am_relay: %v\n  use_relays: %v\n", cfg.amRelay, cfg.useRelay)
	}
	if cfg.sshd {
		fmt.Fprintf(&sb, "sshd:\n  enabled: true\n  listen: %s\n  host_key: |\n%s\n", lifeFreePort(), lifeIndent(lifeSSHKey(), 4))
	}
	if cfg.failStart {
		sb.WriteString("tun:\n  dev: verif-fail-activate\n")
	}
	c := config.NewC(l)
	if err := c.LoadString(sb.String()); err != nil {
		panic(err)
	}
	ctl, err := nebula.Main(c, false, "verif", l, nil)
	if err != nil {
		panic(fmt.Sprintf("Main(%s): %v\n%s", name, err, sb.String()))
	}
	return &lifeNode{name: name, ctl: ctl, conf: c, vpn: vpn, udp: udpAddr, cfg: cfg, yaml: sb.String()}
}

// ---- a minimal router between the in-memory sockets --------------------------------------------------------------

type lifeRouter struct {
	mu    sync.Mutex
	nodes map[netip.AddrPort]*lifeNode
	stop  chan struct{}
	wg    sync.WaitGroup
	hold  bool // hold back every packet (mid-handshake scenarios)
}

func lifeNewRouter(nodes ...*lifeNode) *lifeRouter {
	r := &lifeRouter{nodes: map[netip.AddrPort]*lifeNode{}, stop: make(chan struct{})}
	for _, n := range nodes {
		r.nodes[n.udp] = n
	}
	for _, n := range nodes {
		n := n
		r.wg.Add(1)
		go func() {
			defer r.wg.Done()
			ch := n.ctl.GetUDPTxChan()
			for {
				select {
				case <-r.stop:
					return
				case p := <-ch:
					r.mu.Lock()
					dst, ok := r.nodes[p.To]
					hold := r.hold
					r.mu.Unlock()
					if ok && !hold && dst.phase == 1 {
						lifeInject(dst, p)
					}
					p.Release()
				}
			}
		}()
	}
	return r
}

// lifeInject hands a packet to the destination without ever blocking on a node that stops reading.
func lifeInject(dst *lifeNode, p *udp.Packet) {
	done := make(chan struct{})
	c := p.Copy()
	go func() {
		defer close(done)
		dst.ctl.InjectUDPPacket(c)
	}()
	select {
	case <-done:
	case <-time.After(200 * time.Millisecond):
	}
}

func (r *lifeRouter) close() {
	close(r.stop)
	r.wg.Wait()
}

func (r *lifeRouter) setHold(h bool) {
	r.mu.Lock()
	r.hold = h
	r.mu.Unlock()
}

func lifeTunPacket(from, to netip.Addr) []byte {
	b := make([]byte, 36)
	b[0] = 0x45
	b[3] = 36
	b[8] = 64
	b[9] = 17
	f, t := from.As4(), to.As4()
	copy(b[12:16], f[:])
	copy(b[16:20], t[:])
	b[21], b[23], b[25] = 80, 81, 16
	return b
}

// waitTunnel injects inside packets at a until one comes out of b's tun.
func lifeWaitTunnel(a, b *lifeNode, d time.Duration) bool {
	deadline := time.Now().Add(d)
	for time.Now().Before(deadline) {
		a.ctl.InjectTunPacket(lifeTunPacket(a.vpn, b.vpn))
		t := time.After(100 * time.Millisecond)
		select {
		case p := <-b.ctl.GetTunTxChan():
			if p != nil {
				return true
			}
		case <-t:
		}
	}
	return false
}

func lifeDumpCensus(tag string, cs map[string]int) {
	if os.Getenv("VERIF_LIFE_DUMP") == "" {
		return
	}
	keys := make([]string, 0, len(cs))
	for k := range cs {
		keys = append(keys, k)
	}
	sort.Strings(keys)
	fmt.Fprintf(os.Stderr, "== %s\n", tag)
	for _, k := range keys {
		fmt.Fprintf(os.Stderr, "   %3d  %s\n", cs[k], k)
	}
}

func runLifecycleNet(c *hx.Ctx) {
	ca := func() *lifeCA {
		crt, _, key, pemB := cert_test.NewTestCaCert(cert.Version1, cert.Curve_CURVE25519, time.Now().Add(-time.Hour), time.Now().Add(24*365*time.Hour), nil, nil, []string{})
		return &lifeCA{crt: crt, key: key, pem: string(pemB)}
	}()
	tr := lifeNewTracker()
	lh := lifeNewNode(ca, "lh", netip.MustParseAddr("10.128.0.1"), lifeCfg{amLH: true, dns: true, sshd: true, ctCache: true, amRelay: true}, netip.Addr{}, netip.AddrPort{})
	a := lifeNewNode(ca, "a", netip.MustParseAddr("10.128.0.2"), lifeCfg{lhUpdate: true, useRelay: true, routines: 2}, lh.vpn, lh.udp)
	b := lifeNewNode(ca, "b", netip.MustParseAddr("10.128.0.3"), lifeCfg{lhUpdate: true, useRelay: true}, lh.vpn, lh.udp)
	lifeDumpCensus("after Main x3", tr.census())
	r := lifeNewRouter(lh, a, b)
	for _, n := range []*lifeNode{lh, a, b} {
		if err := n.ctl.Start(); err != nil {
			panic(err)
		}
		n.phase = 1
	}
	time.Sleep(300 * time.Millisecond)
	lifeDumpCensus("after Start x3", tr.census())
	ok := lifeWaitTunnel(a, b, 5*time.Second)
	fmt.Fprintln(os.Stderr, "tunnel a->b:", ok)
	lifeDumpCensus("with tunnels", tr.census())
	for _, n := range []*lifeNode{a, b, lh} {
		t0 := time.Now()
		n.ctl.Stop()
		n.phase = 2
		n.ctl.Wait()
		fmt.Fprintln(os.Stderr, n.name, "stop+wait", time.Since(t0), nebula.VerifLifeCtxDone(n.ctl), nebula.VerifLifeUDPClosed(n.ctl), nebula.VerifLifeTunClosed(n.ctl))
		time.Sleep(100 * time.Millisecond)
		lifeDumpCensus("after stop "+n.name, tr.census())
	}
	r.close()
	time.Sleep(200 * time.Millisecond)
	lifeDumpCensus("end", tr.census())
	cw := c.NewCaseWriter("From NV Require Import corr.Lifecycle_corr.", "Lifecycle_corr.case", "Lifecycle_corr.check_case", 50)
	cw.Close("exploration")
}

//go:build e2e_testing && (comp_all || comp_lifecyclenet)

package main

// Component lifecyclenet (C49): real nebula nodes (nebula.Main + Control.Start on the e2e in-memory udp/tun, all
// goroutines running) are stopped at every phase of multi-node scenarios: before start, right after start,
// mid-handshake, with live and relayed tunnels, during a config reload, with queued lighthouse work, after a
// failed start. At every phase the goroutines in the process are counted by creation site (runtime.Stack) and
// compared in Coq with the activity set model/Lifecycle.v predicts for the nodes' phases and configurations
// (code 1: the table is wrong); after Stop + Wait no goroutine of the node may remain, sockets and tun must refuse
// writes, the context must be cancelled, and Stop / Wait must return within a bound (code 2).

import (
	"crypto/ed25519"
	"crypto/rand"
	"encoding/pem"
	"fmt"
	"log/slog"
	"net"
	"net/netip"
	"os"
	"regexp"
	"runtime"
	"sort"
	"strconv"
	"strings"
	"sync"
	"time"

	"github.com/slackhq/nebula"
	"github.com/slackhq/nebula/cert"
	"github.com/slackhq/nebula/cert_test"
	"github.com/slackhq/nebula/config"
	"github.com/slackhq/nebula/overlay"
	"github.com/slackhq/nebula/udp"
	"golang.org/x/crypto/ssh"
	"verifharness/hx"
)

func init() { hx.Register("lifecyclenet", runLifecycleNet) }

// ---- goroutine census -------------------------------------------------------------------------------------------

type lifeG struct {
	id, parent int
	frames     []string // function names, innermost first
	creator    string
}

var lifeHdr = regexp.MustCompile(`^goroutine (\d+) \[`)
var lifeCreated = regexp.MustCompile(`^created by (.+?)(?: in goroutine (\d+))?$`)

func lifeSnapshot() []lifeG {
	buf := make([]byte, 1<<20)
	for {
		n := runtime.Stack(buf, true)
		if n < len(buf) {
			buf = buf[:n]
			break
		}
		buf = make([]byte, 2*len(buf))
	}
	var out []lifeG
	for _, blk := range strings.Split(string(buf), "\n\n") {
		lines := strings.Split(strings.TrimSpace(blk), "\n")
		if len(lines) == 0 {
			continue
		}
		m := lifeHdr.FindStringSubmatch(lines[0])
		if m == nil {
			continue
		}
		g := lifeG{}
		g.id, _ = strconv.Atoi(m[1])
		for _, ln := range lines[1:] {
			if strings.HasPrefix(ln, "\t") {
				continue
			}
			if c := lifeCreated.FindStringSubmatch(ln); c != nil {
				g.creator = c[1]
				if c[2] != "" {
					g.parent, _ = strconv.Atoi(c[2])
				}
				continue
			}
			// "pkg.Func(args...)" -> "pkg.Func"
			if i := strings.LastIndex(ln, "("); i > 0 {
				ln = ln[:i]
			}
			g.frames = append(g.frames, ln)
		}
		out = append(out, g)
	}
	return out
}

const lifeMod = "github.com/slackhq/nebula"

// lifeSite names the creation site of a goroutine: its outermost frame inside the nebula module (the function the
// `go` statement started, or the closure handed to WaitGroup.Go), else its outermost frame.
func lifeSite(g lifeG) (string, bool) {
	for i := len(g.frames) - 1; i >= 0; i-- {
		if strings.HasPrefix(g.frames[i], lifeMod) {
			return strings.TrimPrefix(g.frames[i], lifeMod), true
		}
	}
	if strings.HasPrefix(g.creator, lifeMod) {
		return "created-by:" + strings.TrimPrefix(g.creator, lifeMod), true
	}
	if len(g.frames) > 0 {
		return g.frames[len(g.frames)-1], false
	}
	return "?", false
}

// class codes shared with model/Lifecycle.v (order = order of the model's table)
var lifeClasses = map[string]uint64{
	".(*HandshakeManager).Run":               1,
	".(*Interface).emitStats":                2,
	".(*Scheduler[...]).Run":                 3,
	".(*LightHouse).startQueryWorker.func1":  12,
	".(*connectionManager).Start":            4,
	".(*Interface).run.func1":                5, // listenOut
	".(*Interface).run.func2":                6, // listenIn
	".(*LightHouse).StartUpdateWorker.func1": 7,
	"/firewall.(*ConntrackCacheTicker).tick": 8,
	".(*dnsServer).Start.func2":              13,
	".(*dnsServer).Start":                    9,
	"/sshd.(*SSHServer).Run.func1":           14,
	".configSSH.func1":                       10,
}
var lifeOrder = []uint64{1, 2, 3, 12, 4, 5, 6, 7, 8, 13, 9, 14, 10}

type lifeTracker struct {
	site  map[int]string // goroutine id -> creation site, for every goroutine ever seen that belongs to a node
	owner map[int]int    // goroutine id -> node index (-1: could not be attributed)
	base  map[int]bool   // goroutines that existed before the scenario
	cur   int            // node whose Main / Start is running now (-1: none)
}

func lifeNewTracker() *lifeTracker {
	t := &lifeTracker{site: map[int]string{}, owner: map[int]int{}, base: map[int]bool{}, cur: -1}
	for _, g := range lifeSnapshot() {
		t.base[g.id] = true
	}
	return t
}

// scan attributes every new goroutine that belongs to a node (a frame or its creator in the nebula module, or a
// transitive child of such a goroutine) to that node and returns the live ones. Harness goroutines are skipped.
func (t *lifeTracker) scan() []int {
	snap := lifeSnapshot()
	for pass := 0; pass < 4; pass++ {
		for _, g := range snap {
			if t.base[g.id] {
				continue
			}
			if _, ok := t.site[g.id]; ok {
				continue
			}
			site, inMod := lifeSite(g)
			harness := false
			for _, f := range g.frames {
				if strings.HasPrefix(f, "main.") {
					harness = true
				}
			}
			if harness {
				continue
			}
			if po, ok := t.owner[g.parent]; ok {
				if !inMod {
					site = "child-of:" + t.site[g.parent] + ":" + site
				}
				t.site[g.id], t.owner[g.id] = site, po
			} else if inMod {
				t.site[g.id], t.owner[g.id] = site, t.cur
			}
		}
	}
	var live []int
	for _, g := range snap {
		if _, ok := t.site[g.id]; ok && !t.base[g.id] {
			live = append(live, g.id)
		}
	}
	return live
}

// settle waits until no goroutine is still sitting in its `go` statement wrapper, then returns the live ones.
func (t *lifeTracker) settle() []int {
	deadline := time.Now().Add(2 * time.Second)
	for {
		live := t.scan()
		pendingStart := false
		for _, id := range live {
			if strings.Contains(t.site[id], ".gowrap") || strings.HasPrefix(t.site[id], "created-by:") {
				pendingStart = true
				delete(t.site, id) // look again once it runs
				delete(t.owner, id)
			}
		}
		if !pendingStart || time.Now().After(deadline) {
			return t.scan()
		}
		time.Sleep(2 * time.Millisecond)
	}
}

func (t *lifeTracker) census() (bySite map[string]int, perNode map[int]int, unknown int) {
	bySite, perNode = map[string]int{}, map[int]int{}
	for _, id := range t.settle() {
		bySite[t.site[id]]++
		if o := t.owner[id]; o >= 0 {
			perNode[o]++
		} else {
			unknown++
		}
	}
	return
}

// ---- nodes ------------------------------------------------------------------------------------------------------

type lifeCA struct {
	crt cert.Certificate
	key []byte
	pem string
}

func lifeIndent(s string, n int) string {
	pad := strings.Repeat(" ", n)
	lines := strings.Split(strings.TrimRight(s, "\n"), "\n")
	for i := range lines {
		lines[i] = pad + lines[i]
	}
	return strings.Join(lines, "\n")
}

type lifeCfg struct {
	routines   int  // requested (the e2e device and socket give one)
	dns        bool // lighthouse.serve_dns on a lighthouse
	sshd       bool
	ctCache    bool // firewall.conntrack.routine_cache_timeout
	amLH       bool
	lhUpdate   bool // has a lighthouse configured and an update interval
	amRelay    bool
	useRelay   bool
	failStart  bool // device whose Activate fails
	queryBuf   int  // handshakes.query_buffer (0: default)
}

type lifeNode struct {
	name  string
	ctl   *nebula.Control
	conf  *config.C
	vpn   netip.Addr
	udp   netip.AddrPort
	cfg   lifeCfg
	phase uint64 // 0 ready, 1 started, 2 stopped, 3 start failed
	yaml  string
	tun   *overlay.VerifLifeTun
	// the ledger: every udp listener Main opened for the node, kept here so that nothing the node forgets escapes
	ledger []udp.Conn
}

func lifeSSHKey() string {
	_, priv, _ := ed25519.GenerateKey(rand.Reader)
	block, err := ssh.MarshalPrivateKey(priv, "verif")
	if err != nil {
		panic(err)
	}
	return string(pem.EncodeToMemory(block))
}

func lifeFreePort() string {
	l, err := net.Listen("tcp", "127.0.0.1:0")
	if err != nil {
		panic(err)
	}
	a := l.Addr().String()
	l.Close()
	return a
}

func lifeNewNode(ca *lifeCA, name string, vpn netip.Addr, cfg lifeCfg, lhVpn netip.Addr, lhUdp netip.AddrPort) *lifeNode {
	l := slog.New(slog.DiscardHandler)
	b := vpn.As4()
	udpAddr := netip.AddrPortFrom(netip.AddrFrom4([4]byte{10, 0, b[2], b[3]}), 4242)
	_, _, priv, pemB := cert_test.NewTestCert(cert.Version1, cert.Curve_CURVE25519, ca.crt, ca.key, name,
		time.Now().Add(-time.Hour), time.Now().Add(24*300*time.Hour), []netip.Prefix{netip.PrefixFrom(vpn, 16)}, nil, []string{})
	var sb strings.Builder
	fmt.Fprintf(&sb, "pki:\n  ca: |\n%s\n  cert: |\n%s\n  key: |\n%s\n", lifeIndent(ca.pem, 4), lifeIndent(string(pemB), 4), lifeIndent(string(priv), 4))
	sb.WriteString("firewall:\n  outbound:\n    - {proto: any, port: any, host: any}\n  inbound:\n    - {proto: any, port: any, host: any}\n")
	if cfg.ctCache {
		sb.WriteString("  conntrack:\n    routine_cache_timeout: 200ms\n")
	}
	fmt.Fprintf(&sb, "listen:\n  host: %s\n  port: %d\n", udpAddr.Addr(), udpAddr.Port())
	sb.WriteString("logging:\n  level: error\nhandshakes:\n  try_interval: 100ms\n  retries: 5\n")
	if cfg.queryBuf > 0 {
		fmt.Fprintf(&sb, "  query_buffer: %d\n", cfg.queryBuf)
	}
	sb.WriteString("timers:\n  pending_deletion_interval: 2\n  connection_alive_interval: 2\n")
	if cfg.routines > 1 {
		fmt.Fprintf(&sb, "routines: %d\n", cfg.routines)
	}
	sb.WriteString("lighthouse:\n")
	if cfg.amLH {
		sb.WriteString("  am_lighthouse: true\n")
		if cfg.dns {
			fmt.Fprintf(&sb, "  serve_dns: true\n  dns:\n    host: 127.0.0.1\n    port: %s\n", strings.Split(lifeFreePort(), ":")[1])
		}
	} else if cfg.lhUpdate {
		fmt.Fprintf(&sb, "  interval: 1\n  hosts:\n    - %s\n", lhVpn)
	}
	if cfg.lhUpdate && !cfg.amLH {
		fmt.Fprintf(&sb, "static_host_map:\n  \"%s\": [\"%s\"]\n", lhVpn, lhUdp)
	}
	if cfg.amRelay || cfg.useRelay {
		fmt.Fprintf(&sb, "relay:\n  am_relay: %v\n  use_relays: %v\n", cfg.amRelay, cfg.useRelay)
	}
	if cfg.sshd {
		fmt.Fprintf(&sb, "sshd:\n  enabled: true\n  listen: %s\n  host_key: |\n%s\n", lifeFreePort(), lifeIndent(lifeSSHKey(), 4))
	}
	c := config.NewC(l)
	if err := c.LoadString(sb.String()); err != nil {
		panic(err)
	}
	ctl, err := nebula.Main(c, false, "verif", l, overlay.VerifLifeFactory(cfg.failStart))
	if err != nil {
		panic(fmt.Sprintf("Main(%s): %v\n%s", name, err, sb.String()))
	}
	return &lifeNode{name: name, ctl: ctl, conf: c, vpn: vpn, udp: udpAddr, cfg: cfg, yaml: sb.String(), tun: ctl.Device().(*overlay.VerifLifeTun),
		ledger: nebula.VerifLifeLedger(ctl)}
}

// ---- a minimal router between the in-memory sockets --------------------------------------------------------------

type lifeRouter struct {
	mu    sync.Mutex
	nodes map[netip.AddrPort]*lifeNode
	stop  chan struct{}
	wg    sync.WaitGroup
	hold  bool // hold back every packet (mid-handshake scenarios)
}

func lifeNewRouter(nodes ...*lifeNode) *lifeRouter {
	r := &lifeRouter{nodes: map[netip.AddrPort]*lifeNode{}, stop: make(chan struct{})}
	for _, n := range nodes {
		r.nodes[n.udp] = n
	}
	for _, n := range nodes {
		n := n
		r.wg.Add(1)
		go func() { // whatever reaches a tun is consumed (and counted by the device)
			defer r.wg.Done()
			for {
				select {
				case <-r.stop:
					return
				case <-n.tun.Tx():
				}
			}
		}()
		r.wg.Add(1)
		go func() {
			defer r.wg.Done()
			ch := n.ctl.GetUDPTxChan()
			for {
				select {
				case <-r.stop:
					return
				case p := <-ch:
					r.mu.Lock()
					dst, ok := r.nodes[p.To]
					hold := r.hold
					r.mu.Unlock()
					if ok && !hold && dst.phase == 1 {
						lifeInject(dst, p)
					}
					p.Release()
				}
			}
		}()
	}
	return r
}

// lifeInject hands a packet to the destination without ever blocking on a node that stops reading.
func lifeInject(dst *lifeNode, p *udp.Packet) {
	done := make(chan struct{})
	c := p.Copy()
	go func() {
		defer close(done)
		dst.ctl.InjectUDPPacket(c)
	}()
	select {
	case <-done:
	case <-time.After(200 * time.Millisecond):
	}
}

func (r *lifeRouter) close() {
	close(r.stop)
	r.wg.Wait()
}

func (r *lifeRouter) setHold(h bool) {
	r.mu.Lock()
	r.hold = h
	r.mu.Unlock()
}

func lifeTunPacket(from, to netip.Addr) []byte {
	b := make([]byte, 36)
	b[0] = 0x45
	b[3] = 36
	b[8] = 64
	b[9] = 17
	f, t := from.As4(), to.As4()
	copy(b[12:16], f[:])
	copy(b[16:20], t[:])
	b[21], b[23], b[25] = 80, 81, 16
	return b
}

// waitTunnel injects inside packets at a until one comes out of b's tun.
func lifeWaitTunnel(a, b *lifeNode, d time.Duration) bool {
	deadline := time.Now().Add(d)
	before := b.tun.Delivered()
	for time.Now().Before(deadline) {
		a.tun.Send(lifeTunPacket(a.vpn, b.vpn))
		time.Sleep(20 * time.Millisecond)
		if b.tun.Delivered() > before {
			return true
		}
	}
	return false
}

func lifeDumpCensus(tag string, cs map[string]int) {
	if os.Getenv("VERIF_LIFE_DUMP") == "" {
		return
	}
	keys := make([]string, 0, len(cs))
	for k := range cs {
		keys = append(keys, k)
	}
	sort.Strings(keys)
	fmt.Fprintf(os.Stderr, "== %s\n", tag)
	for _, k := range keys {
		fmt.Fprintf(os.Stderr, "   %3d  %s\n", cs[k], k)
	}
}

type lifeScenario struct {
	tr    *lifeTracker
	nodes []*lifeNode
	r     *lifeRouter
	cw    *hx.CaseWriter
	fails *[]map[string]any
	name  string
	seq   int
}

func (sc *lifeScenario) add(ca *lifeCA, name string, vpn string, cfg lifeCfg, lh *lifeNode) *lifeNode {
	sc.tr.cur = len(sc.nodes)
	var lhVpn netip.Addr
	var lhUdp netip.AddrPort
	if lh != nil {
		lhVpn, lhUdp = lh.vpn, lh.udp
	}
	n := lifeNewNode(ca, name, netip.MustParseAddr(vpn), cfg, lhVpn, lhUdp)
	sc.nodes = append(sc.nodes, n)
	sc.tr.settle()
	sc.tr.cur = -1
	return n
}

func (sc *lifeScenario) index(n *lifeNode) int {
	for i, m := range sc.nodes {
		if m == n {
			return i
		}
	}
	return -1
}

func (sc *lifeScenario) start(n *lifeNode) error {
	sc.tr.cur = sc.index(n)
	err := n.ctl.Start()
	if err == nil {
		n.phase = 1
	} else {
		n.phase = 3
	}
	time.Sleep(20 * time.Millisecond)
	sc.tr.settle()
	sc.tr.cur = -1
	return err
}

// configured routines = udp listeners Main opens; the e2e device opens one queue and the e2e socket cannot be read by
// several goroutines, so one reader pair runs whatever is configured
func lifeConfigured(n *lifeNode) int {
	if n.cfg.routines > 1 {
		return n.cfg.routines
	}
	return 1
}

func (n *lifeNode) udpLeftOpen() int {
	k := 0
	for _, c := range n.ledger {
		if !udp.VerifLifeClosed(c) {
			k++
		}
	}
	return k
}

func lifeModelCfg(n *lifeNode) string {
	return lifeCfgLit(lifeConfigured(n), 1, false, !n.cfg.amLH, !n.cfg.amLH, n.cfg.ctCache || n.cfg.routines > 1, n.cfg.amLH && n.cfg.dns, n.cfg.sshd)
}

// emitCensus: what is running in the whole process, by creation site, against what the model expects for the nodes.
func (sc *lifeScenario) emitCensus(tag string) {
	bySite, _, unknown := sc.tr.census()
	lifeDumpCensus(sc.name+": "+tag, bySite)
	counts := map[uint64]uint64{}
	var strange []string
	for site, k := range bySite {
		if code, ok := lifeClasses[site]; ok {
			counts[code] += uint64(k)
		} else {
			unknown += k
			strange = append(strange, fmt.Sprintf("%s x%d", site, k))
		}
	}
	var obs []string
	obsJ := map[string]uint64{}
	for _, code := range lifeOrder {
		if counts[code] > 0 {
			obs = append(obs, hx.Tuple(hx.N(code), hx.N(counts[code])))
			obsJ[fmt.Sprint(code)] = counts[code]
		}
	}
	var nodes []string
	var nodesJ []any
	for _, n := range sc.nodes {
		nodes = append(nodes, hx.Tuple(lifeModelCfg(n), hx.N(n.phase)))
		nodesJ = append(nodesJ, map[string]any{"name": n.name, "phase": n.phase, "cfg": fmt.Sprintf("%+v", n.cfg)})
	}
	sort.Strings(strange)
	sc.cw.Add(hx.App("Lifecycle_corr.CCensus", hx.List(nodes), hx.List(obs), hx.N(uint64(unknown))), "census-"+sc.name, true,
		map[string]any{"scenario": sc.name, "at": tag, "nodes": nodesJ, "census": obsJ, "unknown": unknown, "unknown_sites": strange})
}

const lifeBoundMs = 5000

// stop: Stop + Wait with the clock running, then the observations of the property.
func (sc *lifeScenario) stop(n *lifeNode, tag string) {
	before := n.phase
	i := sc.index(n)
	sc.tr.cur = i // the goroutine a fatal error would start, and nothing else, may appear now
	t0 := time.Now()
	stopped := make(chan struct{})
	go func() { n.ctl.Stop(); close(stopped) }()
	stopMs, waitMs := uint64(lifeBoundMs+1), uint64(lifeBoundMs+1)
	select {
	case <-stopped:
		stopMs = uint64(time.Since(t0).Milliseconds())
	case <-time.After(lifeBoundMs * time.Millisecond):
	}
	t1 := time.Now()
	waited := make(chan struct{})
	go func() { n.ctl.Wait(); close(waited) }()
	select {
	case <-waited:
		waitMs = uint64(time.Since(t1).Milliseconds())
	case <-time.After(lifeBoundMs * time.Millisecond):
	}
	n.phase = 2
	// goroutines that wait for the context notice it on their own time: poll, bounded
	leftover, unknown := 0, 0
	deadline := time.Now().Add(3 * time.Second)
	for {
		_, perNode, unk := sc.tr.census()
		leftover, unknown = perNode[i], unk
		if leftover == 0 || time.Now().After(deadline) {
			break
		}
		time.Sleep(5 * time.Millisecond)
	}
	sc.tr.cur = -1
	st := int(n.ctl.State())
	ctx, udpC, tunC := nebula.VerifLifeCtxDone(n.ctl), nebula.VerifLifeUDPClosed(n.ctl) && n.udpLeftOpen() == 0, nebula.VerifLifeTunClosed(n.ctl)
	udpLeft := n.udpLeftOpen()
	// a second Stop must be a no-op
	n.ctl.Stop()
	second := int(n.ctl.State()) == st && nebula.VerifLifeCtxDone(n.ctl) == ctx && (nebula.VerifLifeUDPClosed(n.ctl) && n.udpLeftOpen() == 0) == udpC && nebula.VerifLifeTunClosed(n.ctl) == tunC
	if err := n.ctl.Start(); err == nil {
		second = false // a stopped node must not start again
	}
	var leftSites []string
	if leftover > 0 {
		for _, id := range sc.tr.scan() {
			if sc.tr.owner[id] == i {
				leftSites = append(leftSites, sc.tr.site[id])
			}
		}
	}
	sc.cw.Add(hx.App("Lifecycle_corr.CStop", lifeModelCfgAt(n, before), hx.N(before), hx.N(uint64(st)), hx.Bool(ctx), hx.Bool(udpC), hx.Bool(tunC),
		hx.N(uint64(leftover)), hx.N(uint64(unknown)), hx.N(stopMs), hx.N(waitMs), hx.N(lifeBoundMs), hx.Bool(second), hx.N(uint64(len(n.ledger))), hx.N(uint64(udpLeft))),
		"stop-"+sc.name, true,
		map[string]any{"scenario": sc.name, "at": tag, "node": n.name, "phase_before": before, "state": st, "ctx_cancelled": ctx, "udp_closed": udpC,
			"tun_closed": tunC, "leftover_goroutines": leftover, "leftover_sites": leftSites, "stop_ms": stopMs, "wait_ms": waitMs, "second_stop_noop": second,
			"udp_listeners_opened": len(n.ledger), "udp_listeners_left_open": udpLeft})
}

func lifeModelCfgAt(n *lifeNode, phase uint64) string {
	return lifeCfgLit(lifeConfigured(n), 1, false, !n.cfg.amLH, !n.cfg.amLH, n.cfg.ctCache || n.cfg.routines > 1, n.cfg.amLH && n.cfg.dns, n.cfg.sshd)
}

func (sc *lifeScenario) finish() {
	if sc.r != nil {
		sc.r.close()
	}
	for _, n := range sc.nodes {
		if n.phase == 0 || n.phase == 1 {
			sc.stop(n, "cleanup")
		}
	}
	sc.emitCensus("end")
}

// rebindIdle: a node with a small lighthouse query buffer holds k tunnels, its sockets are rebound
// (Control.RebindUDPServer marks every tunnel as "has not sent since the rebind"), and it is stopped. Stop cancels the
// context - the lighthouse query worker returns - and only then sends a CloseTunnel on every tunnel: that phase must
// not wait for the worker. Variants: no rebind; traffic on every tunnel after the rebind; the node is a lighthouse.
func lifeRebindIdle(sc *lifeScenario, ca *lifeCA, buf, k int, rebind, trafficAfter, amLH bool) {
	hub := sc.add(ca, "hub", "10.128.0.1", lifeCfg{queryBuf: buf, amLH: amLH}, nil)
	var peers []*lifeNode
	for i := 0; i < k; i++ {
		p := sc.add(ca, fmt.Sprintf("p%d", i), fmt.Sprintf("10.128.0.%d", 10+i), lifeCfg{}, nil)
		hub.ctl.InjectLightHouseAddr(p.vpn, p.udp)
		p.ctl.InjectLightHouseAddr(hub.vpn, hub.udp)
		peers = append(peers, p)
	}
	sc.r = lifeNewRouter(append([]*lifeNode{hub}, peers...)...)
	sc.start(hub)
	up := 0
	for _, p := range peers {
		sc.start(p)
		if lifeWaitTunnel(hub, p, 5*time.Second) {
			up++
		}
	}
	if rebind {
		hub.ctl.RebindUDPServer()
	}
	if trafficAfter {
		for _, p := range peers {
			lifeWaitTunnel(hub, p, 2*time.Second)
		}
	}
	sc.emitCensus(fmt.Sprintf("%d/%d tunnels up, rebind=%v, traffic after=%v", up, k, rebind, trafficAfter))
	sc.stop(hub, fmt.Sprintf("query_buffer=%d, %d idle tunnels, rebind=%v, traffic after=%v, lighthouse=%v", buf, up, rebind, trafficAfter, amLH))
	sc.finish()
}

func runLifecycleNet(c *hx.Ctx) {
	ca := func() *lifeCA {
		crt, _, key, pemB := cert_test.NewTestCaCert(cert.Version1, cert.Curve_CURVE25519, time.Now().Add(-time.Hour), time.Now().Add(24*365*time.Hour), nil, nil, []string{})
		return &lifeCA{crt: crt, key: key, pem: string(pemB)}
	}()
	cw := c.NewCaseWriter("From NV Require Import model.Lifecycle corr.Lifecycle_corr.", "Lifecycle_corr.case", "Lifecycle_corr.check_case", 40)
	var fails []map[string]any
	newSc := func(name string) *lifeScenario { return &lifeScenario{tr: lifeNewTracker(), cw: cw, fails: &fails, name: name} }
	plain := lifeCfg{}

	for rep := 0; rep < c.N; rep++ {
		// 1. stop before start
		sc := newSc("before-start")
		a := sc.add(ca, "a", "10.128.0.2", plain, nil)
		sc.emitCensus("after Main")
		sc.stop(a, "never started")
		sc.finish()

		// 2. stop right after start, full configuration on a lighthouse
		sc = newSc("after-start")
		lh := sc.add(ca, "lh", "10.128.0.1", lifeCfg{amLH: true, dns: true, sshd: true, ctCache: true}, nil)
		sc.emitCensus("after Main")
		sc.start(lh)
		sc.emitCensus("after Start")
		sc.stop(lh, "idle")
		sc.finish()

		// 3. mid handshake: the stage-1 packet is out, nothing comes back
		sc = newSc("mid-handshake")
		a = sc.add(ca, "a", "10.128.0.2", plain, nil)
		b := sc.add(ca, "b", "10.128.0.3", lifeCfg{routines: 2}, nil)
		a.ctl.InjectLightHouseAddr(b.vpn, b.udp)
		sc.r = lifeNewRouter(a, b)
		sc.r.setHold(true)
		sc.start(a)
		sc.start(b)
		a.tun.Send(lifeTunPacket(a.vpn, b.vpn))
		time.Sleep(150 * time.Millisecond) // a retransmission or two
		sc.emitCensus("handshake pending")
		sc.stop(a, "handshake pending")
		sc.emitCensus("a stopped")
		sc.stop(b, "peer gone")
		sc.finish()

		// 4. live tunnel, traffic flowing
		sc = newSc("live-tunnel")
		a = sc.add(ca, "a", "10.128.0.2", lifeCfg{ctCache: true}, nil)
		b = sc.add(ca, "b", "10.128.0.3", plain, nil)
		a.ctl.InjectLightHouseAddr(b.vpn, b.udp)
		b.ctl.InjectLightHouseAddr(a.vpn, a.udp)
		sc.r = lifeNewRouter(a, b)
		sc.start(a)
		sc.start(b)
		up := lifeWaitTunnel(a, b, 5*time.Second)
		sc.emitCensus(fmt.Sprintf("tunnel up=%v", up))
		traffic := make(chan struct{})
		go func() { // keep packets coming from the peer while a stops
			for {
				select {
				case <-traffic:
					return
				default:
					b.tun.Send(lifeTunPacket(b.vpn, a.vpn))
					time.Sleep(2 * time.Millisecond)
				}
			}
		}()
		sc.stop(a, "live tunnel under traffic")
		close(traffic)
		sc.emitCensus("a stopped")
		sc.stop(b, "tunnel to a stopped peer")
		sc.finish()

		// 5. relayed tunnel: a reaches b only through r
		sc = newSc("relayed-tunnel")
		a = sc.add(ca, "a", "10.128.0.2", lifeCfg{useRelay: true}, nil)
		rl := sc.add(ca, "r", "10.128.0.128", lifeCfg{amRelay: true}, nil)
		b = sc.add(ca, "b", "10.128.0.3", lifeCfg{useRelay: true}, nil)
		a.ctl.InjectLightHouseAddr(rl.vpn, rl.udp)
		a.ctl.InjectRelays(b.vpn, []netip.Addr{rl.vpn})
		rl.ctl.InjectLightHouseAddr(b.vpn, b.udp)
		sc.r = lifeNewRouter(a, rl, b)
		sc.start(a)
		sc.start(rl)
		sc.start(b)
		up = lifeWaitTunnel(a, b, 6*time.Second)
		sc.emitCensus(fmt.Sprintf("relayed tunnel up=%v", up))
		sc.stop(rl, "relay carrying a tunnel")
		sc.emitCensus("relay stopped")
		sc.stop(a, "tunnel through a stopped relay")
		sc.finish()

		// 6. during config reloads
		sc = newSc("during-reload")
		lh = sc.add(ca, "lh", "10.128.0.1", lifeCfg{amLH: true, dns: true, sshd: true}, nil)
		sc.start(lh)
		reloading := make(chan struct{})
		reloaded := make(chan struct{})
		go func() {
			defer close(reloaded)
			for k := 0; ; k++ {
				select {
				case <-reloading:
					return
				default:
				}
				y := lh.yaml
				if k%2 == 0 {
					y = strings.Replace(y, "level: error", "level: warn", 1) + "\npunchy:\n  punch: true\n"
				}
				_ = lh.conf.ReloadConfigString(y)
			}
		}()
		time.Sleep(20 * time.Millisecond)
		sc.stop(lh, "reloads running")
		time.Sleep(30 * time.Millisecond) // reloads keep coming after the stop
		close(reloading)
		<-reloaded
		sc.emitCensus("stopped, reloads over")
		sc.finish()

		// 7. queued lighthouse work
		sc = newSc("lighthouse-queue")
		lh = sc.add(ca, "lh", "10.128.0.1", lifeCfg{amLH: true}, nil)
		a = sc.add(ca, "a", "10.128.0.2", lifeCfg{lhUpdate: true}, lh)
		sc.r = lifeNewRouter(lh, a)
		sc.start(lh)
		sc.start(a)
		time.Sleep(100 * time.Millisecond)
		var many []netip.Addr
		for k := 0; k < 200; k++ {
			many = append(many, netip.AddrFrom4([4]byte{10, 128, 7, byte(k)}))
		}
		nebula.VerifLifeQueueLighthouse(a.ctl, many)
		sc.emitCensus("queries queued")
		sc.stop(a, "lighthouse queries queued")
		sc.stop(lh, "lighthouse with a client gone")
		sc.finish()

		// 8. a Start whose device activation fails
		sc = newSc("start-fails")
		a = sc.add(ca, "a", "10.128.0.2", lifeCfg{failStart: true, ctCache: true}, nil)
		err := sc.start(a)
		sc.emitCensus(fmt.Sprintf("start failed=%v", err != nil))
		sc.stop(a, "after failed start")
		sc.finish()

		// 9. rebind, idle tunnels, small lighthouse query buffer, stop - and the controls
		buf := 1 + c.Intn(2)
		lifeRebindIdle(newSc("rebind-idle-stop"), ca, buf, buf+1+c.Intn(3), true, false, false)
		lifeRebindIdle(newSc("rebind-idle-stop-control-norebind"), ca, 1, 2, false, false, false)
		lifeRebindIdle(newSc("rebind-idle-stop-control-traffic"), ca, 1, 2, true, true, false)
		lifeRebindIdle(newSc("rebind-idle-stop-control-lighthouse"), ca, 1, 2, true, false, true)

		// 10. configured routines 1..4 (one udp listener each; one reader pair under e2e): stopped before Start, right
		//     after Start, and with a tunnel - every listener Main opened must be closed afterwards
		for r := 1; r <= 4; r++ {
			sc = newSc(fmt.Sprintf("routines-%d", r))
			n0 := sc.add(ca, "n0", "10.128.0.20", lifeCfg{routines: r}, nil)
			sc.stop(n0, "before start")
			n1 := sc.add(ca, "n1", "10.128.0.21", lifeCfg{routines: r}, nil)
			sc.start(n1)
			sc.emitCensus("after Start")
			sc.stop(n1, "right after start")
			n2 := sc.add(ca, "n2", "10.128.0.22", lifeCfg{routines: r}, nil)
			pe := sc.add(ca, "pe", "10.128.0.23", lifeCfg{routines: 5 - r}, nil)
			n2.ctl.InjectLightHouseAddr(pe.vpn, pe.udp)
			pe.ctl.InjectLightHouseAddr(n2.vpn, n2.udp)
			sc.r = lifeNewRouter(n2, pe)
			sc.start(n2)
			sc.start(pe)
			up := lifeWaitTunnel(n2, pe, 5*time.Second)
			sc.stop(n2, fmt.Sprintf("with a tunnel (up=%v)", up))
			sc.stop(pe, "peer of a stopped node")
			sc.finish()
		}

		// 11. random configurations
		extra := 1
		if c.Tier == "thorough" {
			extra = 6
		}
		for k := 0; k < extra; k++ {
			sc = newSc("random-config")
			cfg := lifeCfg{amLH: c.Chance(0.4), sshd: c.Chance(0.4), ctCache: c.Chance(0.5), routines: 1 + c.Intn(3)}
			cfg.dns = cfg.amLH && c.Chance(0.6)
			n := sc.add(ca, "n", "10.128.0.9", cfg, nil)
			sc.emitCensus("after Main")
			if c.Chance(0.8) {
				sc.start(n)
				sc.emitCensus("after Start")
			}
			sc.stop(n, "random configuration")
			sc.finish()
		}
	}
	if len(fails) > 0 {
		cw.Meta("failures", fails)
	}
	cw.Close("census of the goroutines of running nodes equal to the model's activity set for their phases, or a stop observed to release everything within the bound; all cases are nontrivial")
}

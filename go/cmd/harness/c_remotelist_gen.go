//go:build comp_all || comp_remotelist || comp_remotes_admit

package main

import (
	"fmt"
	"math/big"
	"net/netip"
	"strings"

	"github.com/slackhq/nebula"
	"verifharness/hx"
)

func init() {
	hx.Register("gen_remotelist", genRemoteList)
}

// genRemoteList (T1): the cap constant, evaluated by the Go compiler from the working tree.
func genRemoteList(c *hx.Ctx) {
	var sb strings.Builder
	sb.WriteString("(* GENERATED from /repo by harness gen_remotelist: do not edit *)\nFrom Coq Require Import NArith.\nOpen Scope N_scope.\n")
	fmt.Fprintf(&sb, "Definition MaxRemotes : N := %d.\n", nebula.VerifMaxRemotes)
	c.WriteFile("Consts_RemoteList.v", sb.String())
}

// ---- Gallina literals for addresses (model/RemoteList.v: addr, ap, prefix) ----

func rlAddrVal(a netip.Addr) *big.Int {
	if a.Is4() {
		b := a.As4()
		return new(big.Int).SetBytes(b[:])
	}
	b := a.As16()
	return new(big.Int).SetBytes(b[:])
}

func rlFam(a netip.Addr) string {
	if a.Is4() {
		return "F4"
	}
	return "F6"
}

func rlAddrLit(a netip.Addr) string { return fmt.Sprintf("(%s, %s)", rlFam(a), rlAddrVal(a).String()) }
func rlAPLit(a netip.AddrPort) string {
	return fmt.Sprintf("(%s, %s, %d)", rlFam(a.Addr()), rlAddrVal(a.Addr()).String(), a.Port())
}
func rlPrefixLit(p netip.Prefix) string {
	return fmt.Sprintf("(%s, %s, %d)", rlFam(p.Addr()), rlAddrVal(p.Addr()).String(), p.Bits())
}
func rlAddrsLit(as []netip.Addr) string {
	s := make([]string, len(as))
	for i, a := range as {
		s[i] = rlAddrLit(a)
	}
	return hx.List(s)
}
func rlAPsLit(as []netip.AddrPort) string {
	s := make([]string, len(as))
	for i, a := range as {
		s[i] = rlAPLit(a)
	}
	return hx.List(s)
}
func rlPrefixesLit(ps []netip.Prefix) string {
	s := make([]string, len(ps))
	for i, p := range ps {
		s[i] = rlPrefixLit(p)
	}
	return hx.List(s)
}
func rlV4sLit(es [][2]uint32) string {
	s := make([]string, len(es))
	for i, e := range es {
		s[i] = fmt.Sprintf("(%d, %d)", e[0], e[1])
	}
	return hx.List(s)
}
func rlV6sLit(es [][3]uint64) string {
	s := make([]string, len(es))
	for i, e := range es {
		s[i] = fmt.Sprintf("(%d, %d, %d)", e[0], e[1], e[2])
	}
	return hx.List(s)
}
func rlStrs[T fmt.Stringer](xs []T) []string {
	s := make([]string, len(xs))
	for i, x := range xs {
		s[i] = x.String()
	}
	return s
}

// ---- address pools: few distinct values so that duplicates across owners, blocked entries and range hits happen ----

var rlV4Public = []string{"1.1.1.1", "8.8.8.8", "9.255.255.255", "11.0.0.0", "172.15.255.255", "172.32.0.0", "192.167.255.255",
	"192.169.0.0", "100.64.0.1", "203.0.113.7", "0.0.0.0", "255.255.255.255", "1.1.1.2"}
var rlV4Private = []string{"10.0.0.1", "10.255.255.255", "10.128.0.9", "172.16.0.0", "172.31.255.255", "172.20.1.1", "192.168.0.0",
	"192.168.255.255", "192.168.1.10"}
var rlV6 = []string{"2001:db8::1", "2001:db8::2", "fe80::1", "fc00::1", "fd12:3456::9", "::1", "::", "ffff:ffff:ffff:ffff:ffff:ffff:ffff:ffff",
	"2606:4700::1111", "::fffe:10.0.0.1", "1::ffff:10.0.0.1"}
var rlMapped = []string{"::ffff:10.0.0.1", "::ffff:1.1.1.1", "::ffff:172.16.0.0", "::ffff:192.168.1.10", "::ffff:8.8.8.8"}
var rlPorts = []uint16{0, 1, 4242, 4243, 65535, 80}

type rlPools struct {
	c     *hx.Ctx
	addrs []netip.Addr // the case's pool (plain v4 and v6, no mapped)
}

func rlParse(ss []string) []netip.Addr {
	r := make([]netip.Addr, len(ss))
	for i, s := range ss {
		r[i] = netip.MustParseAddr(s)
	}
	return r
}

func newRLPools(c *hx.Ctx, n int) *rlPools {
	p := &rlPools{c: c}
	all := [][]netip.Addr{rlParse(rlV4Public), rlParse(rlV4Private), rlParse(rlV6)}
	for i := 0; i < n; i++ {
		g := all[c.Intn(3)]
		p.addrs = append(p.addrs, g[c.Intn(len(g))])
	}
	return p
}

func (p *rlPools) addr() netip.Addr { return p.addrs[p.c.Intn(len(p.addrs))] }
func (p *rlPools) port() uint16     { return rlPorts[p.c.Intn(len(rlPorts))] }
func (p *rlPools) ap() netip.AddrPort {
	return netip.AddrPortFrom(p.addr(), p.port())
}

// v4 picks an IPv4 address of the pool (or any IPv4 if the pool has none).
func (p *rlPools) v4() netip.Addr {
	for i := 0; i < 8; i++ {
		if a := p.addr(); a.Is4() {
			return a
		}
	}
	g := rlParse(rlV4Public)
	return g[p.c.Intn(len(g))]
}

// v6entry picks what a V6AddrPort can carry: an IPv6 address of the pool or an IPv4-mapped form of a pool IPv4 address.
func (p *rlPools) v6entry() netip.Addr {
	for i := 0; i < 8; i++ {
		a := p.addr()
		if !a.Is4() {
			return a
		}
		if p.c.Chance(0.25) {
			return netip.AddrFrom16(a.As16()) // ::ffff:a.b.c.d
		}
	}
	g := rlParse(rlV6)
	return g[p.c.Intn(len(g))]
}

func rlProtoV4(a netip.Addr, port uint32) [2]uint32 {
	b := a.As4()
	return [2]uint32{uint32(b[0])<<24 | uint32(b[1])<<16 | uint32(b[2])<<8 | uint32(b[3]), port}
}
func rlProtoV6(a netip.Addr, port uint32) [3]uint64 {
	b := a.As16()
	var hi, lo uint64
	for i := 0; i < 8; i++ {
		hi = hi<<8 | uint64(b[i])
		lo = lo<<8 | uint64(b[8+i])
	}
	return [3]uint64{hi, lo, uint64(port)}
}

// protoPort: the protobuf field is 32 bits wide; now and then use the upper bits.
func (p *rlPools) protoPort() uint32 {
	v := uint32(p.port())
	if p.c.Chance(0.1) {
		v += 65536 * uint32(1+p.c.Intn(3))
	}
	return v
}

// prefixes: preferred ranges / networks hitting the pool: exact hosts, the private blocks, /0, unmasked prefixes.
func (p *rlPools) prefix() netip.Prefix {
	a := p.addr()
	w := a.BitLen()
	var bits int
	switch p.c.Intn(6) {
	case 0:
		bits = w
	case 1:
		bits = 0
	case 2:
		bits = 8
	case 3:
		bits = w - 1 - p.c.Intn(8)
	default:
		bits = p.c.Intn(w + 1)
	}
	pf := netip.PrefixFrom(a, bits)
	if p.c.Chance(0.5) {
		pf = pf.Masked()
	}
	return pf
}

func (p *rlPools) prefixes(max int) []netip.Prefix {
	n := p.c.Intn(max + 1)
	r := make([]netip.Prefix, 0, n)
	for i := 0; i < n; i++ {
		r = append(r, p.prefix())
	}
	return r
}

//go:build e2e_testing && (comp_all || comp_outside)

package main

// C14 component `outsidebatch`: the REAL Interface.listenOut goroutine of node X (standard world) runs on a batch
// connection (overlay shim), so the harness plays a recvmmsg backend: listenOut's own listener closure for every
// datagram of a batch, then its own flusher once - the glue around readOutsidePackets (per-routine hostmap cache,
// tun batcher flush) is the code under test. Batches mix packets that authenticate under a tunnel's key (sealed as
// the peer would, fresh counter) with forged ones naming live tunnels (garbage / flipped / truncated ciphertext,
// replays of packets accepted earlier, tags under another tunnel's key, any counter, any source) and stray indexes.
// Observed after each batch: the connection manager's inbound-traffic mark of every tunnel.

import (
	"fmt"
	"net/netip"

	"github.com/slackhq/nebula"
	"github.com/slackhq/nebula/header"
	"verifharness/hx"
)

func init() { hx.Register("outsidebatch", outsBatchRun) }

func outsBatchRun(c *hx.Ctx) {
	w := outsStdWorld()
	x := w.n(outsX)
	x.StartListenOut()
	rower := &outsNet{c: c, w: w}
	cw := c.NewCaseWriter("From NV Require Import lib.Outside_lib corr.Outside_corr.", "Outside_corr.case", "Outside_corr.check_case", 400)
	peers := []string{outsP1, outsP2, outsR, outsQ}
	var accepted [][]byte // packets X accepted in earlier batches (replay material), with their tunnel
	var acceptedSrc []netip.AddrPort
	nb := c.N
	if nb <= 0 {
		nb = 300
	}
	var failures []map[string]any
	seq := 0
	for bi := 0; bi < nb; bi++ {
		tunnels := x.Tunnels()
		byLocal := map[uint32]nebula.VerifOutsideTunnel{}
		for _, t := range tunnels {
			byLocal[t.Local] = t
		}
		// shape of the batch: the first batches are the pure ones (only forged / only authentic), then mixtures
		n := 1 + c.Intn(8)
		pAuth := []float64{0, 1, 0.5, 0.2, 0.8}[bi%5]
		if bi >= 20 {
			pAuth = c.Rng.Float64()
		}
		used := map[uint32]map[uint64]bool{} // counters an authentic packet of this batch already consumed
		var pkts []nebula.VerifOutsidePkt
		var lits []string
		var descs []map[string]any
		for k := 0; k < n; k++ {
			seq++
			t, _ := x.Tunnel(w.n(peers[c.Intn(len(peers))]).vpn)
			src := t.RemoteAddr
			if !src.IsValid() || c.Chance(0.3) { // any source: liveness must not depend on it
				src = netip.AddrPortFrom(netip.AddrFrom4([4]byte{203, 0, 113, byte(seq)}), uint16(20000+seq%20000))
			}
			ctr := t.WinCur + 1 + uint64(len(used[t.Local])) + uint64(c.Intn(3))
			ty, st := uint8(4), uint8(1) // a test reply: authenticated, no answer, no tun write
			var payload []byte = c.RandBytes(4 + c.Intn(12))
			if c.Chance(0.4) {
				ty, st = 1, 0
				payload = outsUDP4(t.VpnAddrs[0], x.vpn, uint16(2000+seq%1000), 2001, []byte(fmt.Sprintf("batch %d", seq)))
			}
			good := x.Seal(t.Local, t.Local, header.Version, ty, st, ctr, payload)
			var b []byte
			authentic := false
			what := ""
			if c.Rng.Float64() < pAuth {
				b, authentic, what = good, true, "sealed as the peer would, fresh counter"
			} else {
				switch c.Intn(8) {
				case 0:
					b, what = append(append([]byte(nil), good[:16]...), c.RandBytes(16+c.Intn(40))...), "right index, garbage ciphertext"
				case 1:
					b, what = outsFlip(good, 128+c.Intn((len(good)-16)*8)), "right index, one ciphertext/tag bit flipped"
				case 2:
					b, what = good[:16+c.Intn(16)], "right index, truncated below header+tag"
				case 3:
					if len(accepted) > 0 {
						i := c.Intn(len(accepted))
						b, src, authentic, what = accepted[i], acceptedSrc[i], true, "replay of a packet accepted in an earlier batch"
					} else {
						b, what = outsFlip(good, 16*8+3), "right index, flipped bit"
					}
				case 4:
					o, _ := x.Tunnel(w.n(peers[c.Intn(len(peers))]).vpn)
					if o.Local == t.Local {
						o, _ = x.Tunnel(w.n(outsP1).vpn)
						if o.Local == t.Local {
							o, _ = x.Tunnel(w.n(outsP2).vpn)
						}
					}
					b, what = x.Seal(o.Local, t.Local, header.Version, ty, st, ctr, payload), "right index, sealed under another tunnel's key"
				case 5:
					b = append([]byte(nil), good...)
					for i := 8; i < 16; i++ {
						b[i] = byte(c.Intn(256))
					}
					what = "right index, counter overwritten"
				case 6:
					b = header.Encode(make([]byte, 16, 64), header.Version, header.MessageType(ty), header.MessageSubType(st), uint32(c.U64()), ctr)
					b, what = append(b, c.RandBytes(32)...), "stray index"
				default:
					b = append([]byte(nil), good...)
					b[0] = b[0]&0xf0 | byte(7+c.Intn(9))
					what = "right index, unknown type"
				}
			}
			row, _, ok := rower.rowOf(x, src, b, authentic, false)
			if !ok {
				continue
			}
			var h header.H
			_ = h.Parse(b)
			named := uint64(0)
			if row.idx && row.ty != 2 && !(row.ty == 1 && row.st == 1) {
				named = uint64(h.RemoteIndex)
				if used[h.RemoteIndex][h.MessageCounter] { // an authentic packet earlier in this batch took the counter
					row.fresh = false
				}
				if row.auth && row.fresh && row.ver {
					if used[h.RemoteIndex] == nil {
						used[h.RemoteIndex] = map[uint64]bool{}
					}
					used[h.RemoteIndex][h.MessageCounter] = true
					accepted, acceptedSrc = append(accepted, b), append(acceptedSrc, src)
				}
			}
			pkts = append(pkts, nebula.VerifOutsidePkt{From: src, Data: b})
			lits = append(lits, hx.Tuple(hx.N(named), row.lit()))
			descs = append(descs, map[string]any{"tunnel_index": named, "what": what, "src": src.String(), "len": len(b), "row": row.json()})
		}
		x.ClearIn()
		x.DrainUDP()
		x.DrainTun()
		pn := x.InjectBatch(pkts)
		x.DrainUDP()
		x.DrainTun()
		after := x.Digest()
		var marks []string
		markd := map[string]any{}
		anyMark := false
		for _, t := range tunnels {
			at := after.Tunnels[t.Local]
			m := at != nil && at["in"] == "true"
			anyMark = anyMark || m
			marks = append(marks, hx.Tuple(hx.N(uint64(t.Local)), hx.Bool(m)))
			markd[fmt.Sprint(t.Local)] = m
			// an authentic packet from a new address roams the tunnel: put it back
			if bt, ok := byLocal[t.Local]; ok {
				x.SetRemote(t.Local, bt.RemoteAddr)
			}
		}
		na := 0
		for _, d := range descs {
			if r := d["row"].(map[string]any); r["auth"].(bool) && r["fresh"].(bool) {
				na++
			}
		}
		kind := "mixed"
		if na == 0 {
			kind = "forged-only"
		} else if na == len(descs) {
			kind = "authentic-only"
		}
		cw.Add(hx.App("Outside_corr.CBatch", hx.List(lits), hx.List(marks)), kind, anyMark,
			map[string]any{"batch": descs, "inbound_marks": markd, "panic": pn})
		if pn != "" {
			failures = append(failures, map[string]any{"i": cw.Total() - 1, "code": 2})
		}
	}
	if len(failures) > 0 {
		cw.Meta("failures", failures)
	}
	cw.Close("receive batches of 1..8 datagrams through the real Interface.listenOut listener + flusher: packets authenticating under a tunnel's key mixed with forged ones naming live tunnels (garbage, flipped, truncated, replayed, wrong key, wrong counter, unknown type) and stray indexes, from the tunnel's remote and from arbitrary sources; per tunnel the connection manager's inbound mark after the batch; non-trivial = some tunnel was marked")
}

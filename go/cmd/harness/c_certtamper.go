//go:build comp_all || comp_certcodec || comp_certtamper

package main

// certtamper (C02): real v1 and v2 certificates on both curves, issued by real CAs; a stream of tampered encodings
// (byte flips / inserts / deletes / truncations / extensions, re-encodings that keep or change the content, the
// low/high-S twin signature, foreign keys and curves) in the standard and the handshake encoding, through
// UnmarshalCertificateFromPEM / Recombine and then CAPool.VerifyCertificate; plus p256.Swap on chosen signatures.
// Literals, observation and key material are shared with c_certcodec.go.

import (
	"encoding/hex"
	"encoding/pem"
	"fmt"
	"math/big"
	"net/netip"
	"time"

	"github.com/slackhq/nebula/cert"
	"github.com/slackhq/nebula/cert/p256"
	"google.golang.org/protobuf/encoding/protowire"
	"verifharness/hx"
)

func init() {
	hx.Register("certtamper", runCertTamper)
}

type tmLeaf struct {
	ca    *ccCA
	crt   cert.Certificate
	std   []byte
	hs    []byte
	fp    string
	fp2   string // fingerprint of the same certificate carrying the twin signature ("" unless P-256)
	now   time.Time
	twinC cert.Certificate // the certificate with the twin signature (nil unless P-256)
	pool  *cert.CAPool     // ONE pool for this leaf: the genuine certificate is verified on it first, then every tampered encoding of it
}

// tmCAPools: one long-lived pool per CA, shared by all leaves of that CA (their genuine certificates and all their
// tampered encodings are verified on it, interleaved)
var tmCAPools = map[*ccCA]*cert.CAPool{}

func tmPoolFor(ca cert.Certificate) *cert.CAPool {
	pool := cert.NewCAPool()
	if err := pool.AddCA(ca); err != nil {
		panic(err)
	}
	return pool
}

// tmGenuine verifies the genuine certificate of l on pool through both paths; it must be accepted whatever the pool
// has seen before.
func tmGenuine(pool *cert.CAPool, l *tmLeaf) bool {
	return tmVerify(pool, l.now, l.crt)
}

func tmNewLeaf(c *hx.Ctx, ca *ccCA, ver cert.Version) *tmLeaf {
	curve := ca.crt.Curve()
	for {
		p6 := 0.5
		if ver == cert.Version1 {
			p6 = 0
		}
		ccAnom = false
		nets := ccPrefixes(c, p6, false)
		var unsafe []netip.Prefix
		if c.Chance(0.4) {
			unsafe = ccPrefixes(c, p6, true)
		}
		ccAnom = true
		if len(nets) > 6 {
			nets = nets[:6]
		}
		if len(unsafe) > 4 {
			unsafe = unsafe[:4]
		}
		nb := int64(1600000000 + c.Intn(1000000))
		na := nb + int64(1+c.Intn(100000000))
		t := &cert.TBSCertificate{Version: ver, Name: string(ccText(c, 1+c.Intn(20), 0)), Networks: nets, UnsafeNetworks: unsafe,
			NotBefore: time.Unix(nb, 0), NotAfter: time.Unix(na, 0), PublicKey: ccPub(c, curve), Curve: curve}
		for _, g := range ccGroups(c, 0) {
			if len(g) > 0 && len(g) < 40 {
				t.Groups = append(t.Groups, string(g))
			}
		}
		var seen []byte
		crt, err := t.SignWith(ca.crt, curve, ca.signer.lambda(c, &seen))
		if err != nil {
			continue // e.g. a duplicate network or an unsafe network without an address of its family
		}
		l := &tmLeaf{ca: ca, crt: crt, now: time.Unix(nb+(na-nb)/2, 0)}
		l.std, _ = crt.Marshal()
		l.hs, _ = crt.MarshalForHandshakes()
		l.fp = ccFp(crt)
		l.fp2, _ = cert.CalculateAlternateFingerprint(crt)
		if curve == cert.Curve_P256 {
			tw, err := p256.Swap(crt.Signature())
			if err != nil {
				panic(err)
			}
			l.twinC, err = cert.VerifCodecWithSignature(crt, tw)
			if err != nil {
				panic(err)
			}
		}
		return l
	}
}

// ---- re-encodings ------------------------------------------------------------------------------

func tmDerLen(n int) []byte {
	switch {
	case n < 128:
		return []byte{byte(n)}
	case n < 256:
		return []byte{0x81, byte(n)}
	default:
		return []byte{0x82, byte(n >> 8), byte(n)}
	}
}

// tmDerSplit returns the content of the outermost element of b (short or long definite form)
func tmDerSplit(b []byte) (tag byte, content []byte, ok bool) {
	if len(b) < 2 {
		return 0, nil, false
	}
	l, h := int(b[1]), 2
	if b[1]&0x80 != 0 {
		n := int(b[1] & 0x7f)
		if n == 0 || n > 2 || len(b) < 2+n {
			return 0, nil, false
		}
		l = 0
		for i := 0; i < n; i++ {
			l = l<<8 | int(b[2+i])
		}
		h = 2 + n
	}
	if len(b) < h+l {
		return 0, nil, false
	}
	return b[0], b[h : h+l], true
}

// tmReencodeV2: variations of a v2 encoding that the decoder tolerates (content kept) or that change the content
// with all lengths repaired.
func tmReencodeV2(c *hx.Ctx, b []byte) ([]byte, string) {
	_, inner, ok := tmDerSplit(b)
	if !ok {
		return b, "v2-asis"
	}
	wrap := func(in []byte) []byte { return append(append([]byte{0x30}, tmDerLen(len(in))...), in...) }
	// the elements of the certificate and of its details
	elems := func(in []byte) [][]byte {
		var out [][]byte
		for len(in) > 0 {
			_, ct, ok := tmDerSplit(in)
			if !ok {
				return nil
			}
			hdr := 2
			if in[1]&0x80 != 0 {
				hdr = 2 + int(in[1]&0x7f)
			}
			out = append(out, in[:hdr+len(ct)])
			in = in[hdr+len(ct):]
		}
		return out
	}
	cat := func(es [][]byte) []byte {
		var out []byte
		for _, e := range es {
			out = append(out, e...)
		}
		return out
	}
	if es := elems(inner); len(es) >= 2 && c.Chance(0.4) {
		insertAt := func(es [][]byte, i int, e []byte) [][]byte {
			out := append([][]byte{}, es[:i]...)
			out = append(out, e)
			return append(out, es[i:]...)
		}
		_, det, _ := tmDerSplit(es[0])
		mkDetails := func(body []byte) []byte { return append(append([]byte{0xa0}, tmDerLen(len(body))...), body...) }
		sigEl := es[len(es)-1]
		switch c.Intn(6) {
		case 0: // a second details element, carrying another name, somewhere among the elements
			frag := mkDetails(append([]byte{0x80, 0x07}, []byte("mallory")...))
			return wrap(cat(insertAt(es, c.Intn(len(es)+1), frag))), "v2-second-details"
		case 1: // the whole details element twice
			return wrap(cat(insertAt(es, 1, es[0]))), "v2-details-twice"
		case 2: // a second occurrence of a field inside the details (lengths repaired): name, isCA, notAfter
			des := elems(det)
			if des == nil {
				return b, "v2-asis"
			}
			extra := [][]byte{append([]byte{0x80, 0x07}, []byte("mallory")...), {0x84, 0x01, 0xff}, {0x86, 0x01, 0x7f}, {0xa3, 0x07, 0x0c, 0x05, 'a', 'd', 'm', 'i', 'n'}}[c.Intn(4)]
			des = insertAt(des, c.Intn(len(des)+1), extra)
			es2 := append([][]byte{mkDetails(cat(des))}, es[1:]...)
			return wrap(cat(es2)), "v2-field-twice-in-details"
		case 3: // a second signature element after the first (ignored) or in front of it (takes its place)
			other := append([]byte{0x83, byte(len(sigEl) - 2)}, c.RandBytes(len(sigEl)-2)...)
			if len(sigEl) < 2 || len(sigEl)-2 > 127 {
				return b, "v2-asis"
			}
			if c.Chance(0.5) {
				return wrap(cat(append(append([][]byte{}, es...), other))), "v2-signature-after"
			}
			return wrap(cat(insertAt(es, len(es)-1, other))), "v2-signature-in-front"
		case 4: // a second public key element
			pk := append([]byte{0x82, 0x20}, c.RandBytes(32)...)
			return wrap(cat(insertAt(es, 1+c.Intn(len(es)-1), pk))), "v2-second-pubkey"
		default: // elements in another order
			es2 := append([][]byte{}, es...)
			i := c.Intn(len(es2) - 1)
			es2[i], es2[i+1] = es2[i+1], es2[i]
			return wrap(cat(es2)), "v2-elements-swapped"
		}
	}
	switch c.Intn(6) {
	case 0: // bytes after the certificate
		return append(append([]byte{}, b...), c.RandBytes(1+c.Intn(8))...), "v2-trailing-bytes"
	case 1: // an extra element after the signature
		extra := append([]byte{byte(0x84 + c.Intn(4)), byte(2)}, c.RandBytes(2)...)
		return wrap(append(append([]byte{}, inner...), extra...)), "v2-extra-element"
	case 2: // an extra element at the end of the details (lengths repaired): the signed bytes change
		_, det, ok := tmDerSplit(inner)
		if !ok {
			return b, "v2-asis"
		}
		dl := len(inner) - len(det)
		hdr := 2
		if inner[1]&0x80 != 0 {
			hdr = 2 + int(inner[1]&0x7f)
		}
		rest := inner[hdr+len(det):]
		_ = dl
		nd := append(append([]byte{}, det...), 0x88, 0x01, byte(c.Intn(256)))
		ndet := append(append([]byte{0xa0}, tmDerLen(len(nd))...), nd...)
		return wrap(append(ndet, rest...)), "v2-details-extended"
	case 3: // drop the curve element if there is one / add one naming the other curve
		_, det, ok := tmDerSplit(inner)
		if !ok {
			return b, "v2-asis"
		}
		hdr := 2
		if inner[1]&0x80 != 0 {
			hdr = 2 + int(inner[1]&0x7f)
		}
		dEnd := hdr + len(det)
		rest := inner[dEnd:]
		if len(rest) > 3 && rest[0] == 0x81 {
			return wrap(append(append([]byte{}, inner[:dEnd]...), rest[3:]...)), "v2-curve-dropped"
		}
		return wrap(append(append(append([]byte{}, inner[:dEnd]...), 0x81, 0x01, 0x01), rest...)), "v2-curve-added"
	case 4: // non-minimal outer length: refused by the decoder
		if len(inner) < 128 {
			return append(append([]byte{0x30, 0x81, byte(len(inner))}, inner...), nil...), "v2-nonminimal-length"
		}
		return append(append([]byte{0x30, 0x83, 0, byte(len(inner) >> 8), byte(len(inner))}, inner...), nil...), "v2-nonminimal-length"
	default:
		return append([]byte{}, b...), "v2-asis"
	}
}

// tmIDField: one identity field as a field of RawNebulaCertificateDetails, set to something the certificate does not say
func tmIDField(c *hx.Ctx, k int, curve cert.Curve) ([]byte, string) {
	switch k {
	case 0:
		return protowire.AppendBytes(protowire.AppendTag(nil, 1, protowire.BytesType), []byte("mallory")), "name"
	case 1:
		v := protowire.AppendVarint(protowire.AppendVarint(nil, 0x0a090807), 0xffffff00)
		return protowire.AppendBytes(protowire.AppendTag(nil, 2, protowire.BytesType), v), "network"
	case 2:
		v := protowire.AppendVarint(protowire.AppendVarint(nil, 0xc0a80000), 0xffff0000)
		return protowire.AppendBytes(protowire.AppendTag(nil, 3, protowire.BytesType), v), "unsafe"
	case 3:
		return protowire.AppendBytes(protowire.AppendTag(nil, 4, protowire.BytesType), []byte("admin")), "group"
	case 4:
		return protowire.AppendVarint(protowire.AppendTag(nil, 5, protowire.VarintType), 1), "notbefore"
	case 5:
		return protowire.AppendVarint(protowire.AppendTag(nil, 6, protowire.VarintType), 4102444800), "notafter"
	case 6:
		return protowire.AppendBytes(protowire.AppendTag(nil, 7, protowire.BytesType), c.RandBytes(32)), "pubkey"
	case 7:
		return protowire.AppendVarint(protowire.AppendTag(nil, 8, protowire.VarintType), 1), "isca"
	case 8:
		return protowire.AppendBytes(protowire.AppendTag(nil, 9, protowire.BytesType), c.RandBytes(32)), "issuer"
	default:
		return protowire.AppendVarint(protowire.AppendTag(nil, 100, protowire.VarintType), uint64(1-curve)), "curve"
	}
}

// tmV1Split returns the Details and Signature fields of a v1 encoding
func tmV1Split(b []byte) (details, sig []byte, ok bool) {
	for len(b) > 0 {
		num, typ, n := protowire.ConsumeTag(b)
		if n < 0 || typ != protowire.BytesType {
			return nil, nil, false
		}
		v, m := protowire.ConsumeBytes(b[n:])
		if m < 0 {
			return nil, nil, false
		}
		b = b[n+m:]
		if num == 1 {
			details = v
		} else if num == 2 {
			sig = v
		}
	}
	return details, sig, details != nil
}

// tmV1ExtraDetails places an extra occurrence of the outer Details field: 0 = right after the genuine one, 1 = after
// the signature, 2 = in front
func tmV1ExtraDetails(b, frag []byte, pos int) ([]byte, bool) {
	details, sig, ok := tmV1Split(b)
	if !ok {
		return nil, false
	}
	fD := func(d []byte) []byte {
		return protowire.AppendBytes(protowire.AppendTag(nil, 1, protowire.BytesType), d)
	}
	var fS []byte
	if len(sig) > 0 {
		fS = protowire.AppendBytes(protowire.AppendTag(nil, 2, protowire.BytesType), sig)
	}
	switch pos {
	case 0:
		return append(append(fD(details), fD(frag)...), fS...), true
	case 1:
		return append(append(fD(details), fS...), fD(frag)...), true
	default:
		return append(append(fD(frag), fD(details)...), fS...), true
	}
}

// tmReencodeV1: protobuf re-encodings. Those that keep the decoded content re-marshal to the signed bytes.
func tmReencodeV1(c *hx.Ctx, b []byte, curve cert.Curve) ([]byte, string) {
	// split the top level
	var details, sig []byte
	rest := b
	for len(rest) > 0 {
		num, typ, n := protowire.ConsumeTag(rest)
		if n < 0 {
			return b, "v1-asis"
		}
		rest = rest[n:]
		if typ != protowire.BytesType {
			return b, "v1-asis"
		}
		v, m := protowire.ConsumeBytes(rest)
		if m < 0 {
			return b, "v1-asis"
		}
		rest = rest[m:]
		if num == 1 {
			details = v
		} else if num == 2 {
			sig = v
		}
	}
	build := func(d, s []byte, sigFirst bool) []byte {
		var out []byte
		if sigFirst && len(s) > 0 {
			out = protowire.AppendBytes(protowire.AppendTag(out, 2, protowire.BytesType), s)
		}
		out = protowire.AppendBytes(protowire.AppendTag(out, 1, protowire.BytesType), d)
		if !sigFirst && len(s) > 0 {
			out = protowire.AppendBytes(protowire.AppendTag(out, 2, protowire.BytesType), s)
		}
		return out
	}
	// the fields of the details, in order
	type fld struct {
		num protowire.Number
		raw []byte
	}
	var fs []fld
	d := details
	for len(d) > 0 {
		num, _, n := protowire.ConsumeField(d)
		if n < 0 {
			return b, "v1-asis"
		}
		fs = append(fs, fld{num, d[:n]})
		d = d[n:]
	}
	join := func(fs []fld) []byte {
		var out []byte
		for _, f := range fs {
			out = append(out, f.raw...)
		}
		return out
	}
	// ---- protobuf-structured tampering: extra well-formed occurrences of fields -------------------------
	idField := func(k int) ([]byte, string) { return tmIDField(c, k, curve) }
	outer := func(parts ...[]byte) []byte { // the top-level fields in the given order
		var out []byte
		for _, p := range parts {
			out = append(out, p...)
		}
		return out
	}
	fDetails := func(d []byte) []byte {
		return protowire.AppendBytes(protowire.AppendTag(nil, 1, protowire.BytesType), d)
	}
	fSig := func(s []byte) []byte {
		if len(s) == 0 {
			return nil
		}
		return protowire.AppendBytes(protowire.AppendTag(nil, 2, protowire.BytesType), s)
	}
	if c.Chance(0.55) {
		switch c.Intn(9) {
		case 0, 1, 2, 3: // an extra occurrence of the outer Details field: proto.Unmarshal merges it into the first
			var frag []byte
			var lbl string
			if c.Chance(0.6) {
				frag, lbl = idField(c.Intn(10))
			} else {
				n := 2 + c.Intn(4)
				lbl = "combo"
				for i := 0; i < n; i++ {
					f, _ := idField(c.Intn(10))
					frag = append(frag, f...)
				}
			}
			switch c.Intn(3) {
			case 0:
				return outer(fDetails(details), fDetails(frag), fSig(sig)), "v1-details-appended-" + lbl
			case 1:
				return outer(fDetails(details), fSig(sig), fDetails(frag)), "v1-details-after-sig-" + lbl
			default:
				return outer(fDetails(frag), fDetails(details), fSig(sig)), "v1-details-prepended-" + lbl
			}
		case 4: // an extra occurrence that changes nothing: empty, or only an unknown field
			frag := []byte{}
			if c.Chance(0.5) {
				frag = protowire.AppendVarint(protowire.AppendTag(nil, 15, protowire.VarintType), c.U64())
			}
			if c.Chance(0.5) {
				return outer(fDetails(details), fDetails(frag), fSig(sig)), "v1-details-appended-neutral"
			}
			return outer(fDetails(frag), fDetails(details), fSig(sig)), "v1-details-prepended-neutral"
		case 5: // an extra occurrence of a scalar field inside the Details: the last one wins
			f, lbl := idField([]int{0, 4, 5, 6, 7, 8, 9}[c.Intn(7)])
			if c.Chance(0.5) {
				return outer(fDetails(append(append([]byte{}, details...), f...)), fSig(sig)), "v1-scalar-last-" + lbl
			}
			return outer(fDetails(append(f, details...)), fSig(sig)), "v1-scalar-first-" + lbl
		case 6: // an extra element of a repeated field inside the Details, in front or at the end
			f, lbl := idField(1 + c.Intn(3))
			if c.Chance(0.5) {
				return outer(fDetails(append(append([]byte{}, details...), f...)), fSig(sig)), "v1-repeated-appended-" + lbl
			}
			return outer(fDetails(append(f, details...)), fSig(sig)), "v1-repeated-prepended-" + lbl
		case 7: // an extra Signature field: the last one wins
			other := c.RandBytes(len(sig))
			switch c.Intn(3) {
			case 0:
				return outer(fDetails(details), fSig(sig), fSig(other)), "v1-signature-overridden"
			case 1:
				return outer(fDetails(details), fSig(other), fSig(sig)), "v1-signature-decoy-first"
			default:
				return outer(fSig(other), fDetails(details), fSig(sig)), "v1-signature-decoy-first"
			}
		default: // unknown fields at every level, including a group
			unk := protowire.AppendTag(nil, 20, protowire.StartGroupType)
			unk = protowire.AppendVarint(protowire.AppendTag(unk, 1, protowire.VarintType), 7)
			unk = protowire.AppendTag(unk, 20, protowire.EndGroupType)
			nd := append(append([]byte{}, unk...), details...)
			return outer(unk, fDetails(nd), fSig(sig), protowire.AppendFixed32(protowire.AppendTag(nil, 3, protowire.Fixed32Type), 9)), "v1-unknown-group"
		}
	}
	switch c.Intn(8) {
	case 0: // signature before the details
		return build(details, sig, true), "v1-sig-first"
	case 1: // an unknown field at the end of the certificate and of the details
		nd := protowire.AppendVarint(protowire.AppendTag(append([]byte{}, details...), 15, protowire.VarintType), c.U64())
		out := build(nd, sig, false)
		return protowire.AppendVarint(protowire.AppendTag(out, 99, protowire.VarintType), 1), "v1-unknown-fields"
	case 2: // reverse the order of the (distinct) fields, keeping repeated ones in order
		var rev []fld
		for i := len(fs) - 1; i >= 0; i-- {
			if fs[i].num == 4 || fs[i].num == 2 || fs[i].num == 3 {
				continue
			}
			rev = append(rev, fs[i])
		}
		for _, f := range fs {
			if f.num == 4 || f.num == 2 || f.num == 3 {
				rev = append(rev, f)
			}
		}
		return build(join(rev), sig, false), "v1-fields-reordered"
	case 3: // a decoy name first: the later, real one wins
		decoy := protowire.AppendBytes(protowire.AppendTag(nil, 1, protowire.BytesType), []byte("decoy"))
		return build(append(decoy, details...), sig, false), "v1-decoy-name-first"
	case 4: // a decoy name last: it wins, the content changes
		decoy := protowire.AppendBytes(protowire.AppendTag(nil, 1, protowire.BytesType), []byte("decoy"))
		return build(append(append([]byte{}, details...), decoy...), sig, false), "v1-decoy-name-last"
	case 5: // the details split in two Details fields: merged by the decoder
		if len(fs) < 2 {
			return b, "v1-asis"
		}
		k := 1 + c.Intn(len(fs)-1)
		var out []byte
		out = protowire.AppendBytes(protowire.AppendTag(out, 1, protowire.BytesType), join(fs[:k]))
		out = protowire.AppendBytes(protowire.AppendTag(out, 1, protowire.BytesType), join(fs[k:]))
		if len(sig) > 0 {
			out = protowire.AppendBytes(protowire.AppendTag(out, 2, protowire.BytesType), sig)
		}
		return out, "v1-details-split"
	case 6: // one more group / the CA flag: the content changes
		nd := append([]byte{}, details...)
		if c.Chance(0.5) {
			nd = protowire.AppendBytes(protowire.AppendTag(nd, 4, protowire.BytesType), []byte("admin"))
			return build(nd, sig, false), "v1-group-added"
		}
		nd = protowire.AppendVarint(protowire.AppendTag(nd, 8, protowire.VarintType), 1)
		return build(nd, sig, false), "v1-isca-set"
	default: // a non-canonical network mask: reads as /0, the content changes
		var nf []fld
		for _, f := range fs {
			if f.num == 2 {
				_, _, n := protowire.ConsumeTag(f.raw)
				body, _ := protowire.ConsumeBytes(f.raw[n:])
				var vals []uint64
				for len(body) > 0 {
					v, m := protowire.ConsumeVarint(body)
					if m < 0 {
						break
					}
					vals = append(vals, v)
					body = body[m:]
				}
				if len(vals) >= 2 {
					vals[1] = 0xff00ff00
				}
				var nb []byte
				for _, v := range vals {
					nb = protowire.AppendVarint(nb, v)
				}
				nf = append(nf, fld{2, protowire.AppendBytes(protowire.AppendTag(nil, 2, protowire.BytesType), nb)})
				continue
			}
			nf = append(nf, f)
		}
		return build(join(nf), sig, false), "v1-odd-mask"
	}
}

func tmVerify(pool *cert.CAPool, now time.Time, d cert.Certificate) bool {
	cc, err := pool.VerifyCertificate(now, d)
	if err != nil {
		return false
	}
	return pool.VerifyCachedCertificate(now, cc) == nil
}

// tmBlocked: with fp on the blocklist both verification paths must refuse d. The pool has verified the genuine
// certificate before; the cached path is entered with a CachedCertificate made while the blocklist was still empty.
func tmBlocked(l *tmLeaf, now time.Time, d cert.Certificate, fp string) bool {
	pool := tmPoolFor(l.ca.crt)
	tmGenuine(pool, l)
	cc, err := pool.VerifyCertificate(now, d)
	if err != nil {
		return true
	}
	pool.BlocklistFingerprint(fp)
	_, err1 := pool.VerifyCertificate(now, d)
	err2 := pool.VerifyCachedCertificate(now, cc)
	return err1 != nil && err2 != nil
}

func runCertTamper(c *hx.Ctx) {
	cw := c.NewCaseWriter("From Coq Require Import Uint63.\nFrom NV Require Import model.CertCodec model.CertTamper corr.CertCodec_corr corr.CertTamper_corr.",
		"CertTamper_corr.case", "CertTamper_corr.check_case", 120)
	failures := []map[string]any{}
	stats := map[string]int{}

	// ---- p256.Swap on chosen signatures --------------------------------------------------------------
	n := new(big.Int)
	n.SetString("115792089210356248762697446949407573529996955224135760342422259061068512044369", 10)
	one := big.NewInt(1)
	addI := func(a *big.Int, d int64) *big.Int { return new(big.Int).Add(a, big.NewInt(d)) }
	half := new(big.Int).Rsh(n, 1)
	svals := []*big.Int{big.NewInt(0), one, big.NewInt(127), big.NewInt(128), big.NewInt(255), big.NewInt(256), addI(half, 0), addI(half, 1),
		addI(n, -256), addI(n, -128), addI(n, -127), addI(n, -2), addI(n, -1), n, addI(n, 1), new(big.Int).Lsh(one, 255), new(big.Int).Lsh(one, 256)}
	intBytes := func(v *big.Int, style int) []byte {
		b := v.Bytes()
		if len(b) == 0 {
			b = []byte{0}
		}
		if b[0]&0x80 != 0 && style != 1 {
			b = append([]byte{0}, b...)
		}
		if style == 2 {
			b = append([]byte{0}, b...) // redundant leading zero
		}
		return append(append([]byte{0x02}, tmDerLen(len(b))...), b...)
	}
	nSwap := 60 + c.N/40
	for i := 0; i < nSwap; i++ {
		var r, s *big.Int
		r = new(big.Int).SetBytes(c.RandBytes(1 + c.Intn(32)))
		if c.Chance(0.1) {
			r = big.NewInt(int64(c.Intn(3)))
		}
		if i < len(svals) {
			s = svals[i]
		} else {
			s = new(big.Int).SetBytes(c.RandBytes(32))
			if c.Chance(0.3) {
				s.Rsh(s, uint(c.Intn(250)))
			}
		}
		style := 0
		if c.Chance(0.1) {
			style = 1 + c.Intn(2)
		}
		body := append(intBytes(r, 0), intBytes(s, style)...)
		if c.Chance(0.05) {
			body = append(body, intBytes(big.NewInt(5), 0)...)
		}
		sig := append(append([]byte{0x30}, tmDerLen(len(body))...), body...)
		if c.Chance(0.05) {
			sig = append(sig, 0)
		}
		if c.Chance(0.05) {
			sig, _ = ccMutate(c, sig)
		}
		res, err := p256.Swap(sig)
		lit := hx.None()
		if err == nil {
			lit = hx.Some(ccB(res))
		}
		cw.Add(hx.App("CSwap", ccB(sig), lit), "swap", err == nil, map[string]any{"op": "swap", "sig": hx.Ints(sig), "ok": err == nil})
	}

	// ---- certificates ----------------------------------------------------------------------------------
	var leaves []*tmLeaf
	for v := 1; v <= 2; v++ {
		for cv := 0; cv <= 1; cv++ {
			ca := ccNewCA(c, cert.Version(v), cert.Curve(cv))
			for lv := 1; lv <= 2; lv++ {
				for k := 0; k < 3; k++ {
					l := tmNewLeaf(c, ca, cert.Version(lv))
					if tmCAPools[ca] == nil {
						tmCAPools[ca] = tmPoolFor(ca.crt)
					}
					l.pool = tmPoolFor(ca.crt)
					if !tmGenuine(l.pool, l) || !tmGenuine(tmCAPools[ca], l) {
						panic("a genuine certificate does not verify")
					}
					leaves = append(leaves, l)
				}
			}
		}
	}

	// boundary sweep first: for one v1 leaf of every CA, in both encodings, an extra occurrence of the outer Details
	// field setting each identity field alone, and all of them together, at each of the three positions
	type forcedCase struct {
		l    *tmLeaf
		form int
		b    []byte
		what string
	}
	var forced []forcedCase
	seenCA := map[*ccCA]bool{}
	for _, l := range leaves {
		if l.crt.Version() != cert.Version1 || seenCA[l.ca] {
			continue
		}
		seenCA[l.ca] = true
		for form := 0; form < 2; form++ {
			base := l.std
			if form == 1 {
				base = l.hs
			}
			for k := 0; k <= 10; k++ {
				var frag []byte
				lbl := "all"
				if k < 10 {
					frag, lbl = tmIDField(c, k, l.crt.Curve())
				} else {
					for j := 0; j < 10; j++ {
						f, _ := tmIDField(c, j, l.crt.Curve())
						frag = append(frag, f...)
					}
				}
				for pos := 0; pos < 3; pos++ {
					if nb, ok := tmV1ExtraDetails(base, frag, pos); ok {
						forced = append(forced, forcedCase{l, form, nb, fmt.Sprintf("v1-sweep-details-pos%d-%s", pos, lbl)})
					}
				}
			}
		}
	}

	for cw.Total() < c.N || len(forced) > 0 {
		l := leaves[c.Intn(len(leaves))]
		form := c.Intn(2)
		var fc *forcedCase
		if len(forced) > 0 {
			fc = &forced[0]
			forced = forced[1:]
			l, form = fc.l, fc.form
		}
		ver := l.crt.Version()
		curve := l.crt.Curve()
		base := l.std
		if form == 1 {
			base = l.hs
		}
		pk := l.crt.PublicKey()
		pcurve := curve
		var b []byte
		var what string
		pick := []string{"bytes", "bytes", "bytes", "bytes", "bytes", "bytes", "reencode", "reencode", "reencode", "reencode", "untouched", "other-sig", "other-sig"}
		if l.twinC != nil {
			pick = append(pick, "twin", "twin", "twin")
		}
		if form == 1 {
			pick = append(pick, "foreign-key", "foreign-curve")
		}
		choice := pick[c.Intn(len(pick))]
		if fc != nil {
			choice, b, what = "forced", fc.b, fc.what
		}
		switch choice {
		case "forced":
		case "bytes":
			var lbl string
			b, lbl = ccMutate(c, base)
			what = "bytes-" + lbl
		case "reencode":
			if ver == cert.Version2 {
				b, what = tmReencodeV2(c, base)
			} else {
				b, what = tmReencodeV1(c, base, curve)
			}
		case "untouched":
			b, what = append([]byte{}, base...), "untouched"
		case "twin":
			if form == 0 {
				b, _ = l.twinC.Marshal()
			} else {
				b, _ = l.twinC.MarshalForHandshakes()
			}
			what = "twin-signature"
		case "other-sig":
			sig := c.RandBytes(len(l.crt.Signature()))
			if c.Chance(0.4) && l.twinC != nil { // the twin with one bit changed
				sig = append([]byte{}, l.twinC.Signature()...)
				sig[len(sig)-1] ^= 1
			} else if c.Chance(0.3) { // the signature of another certificate of the same CA
				for _, o := range leaves {
					if o.ca == l.ca && o != l {
						sig = o.crt.Signature()
						break
					}
				}
			}
			oc, err := cert.VerifCodecWithSignature(l.crt, sig)
			if err != nil {
				continue
			}
			if form == 0 {
				b, _ = oc.Marshal()
			} else {
				b, _ = oc.MarshalForHandshakes()
			}
			what = "other-signature"
		case "foreign-key":
			b = append([]byte{}, base...)
			pk = append([]byte{}, pk...)
			pk[c.Intn(len(pk))] ^= byte(1 << uint(c.Intn(8)))
			what = "foreign-key"
		case "foreign-curve":
			b = append([]byte{}, base...)
			pcurve = 1 - curve
			what = "foreign-curve"
		}

		var d cert.Certificate
		var err error
		panicked := ""
		func() {
			defer func() {
				if r := recover(); r != nil {
					panicked = fmt.Sprint(r)
				}
			}()
			if form == 0 {
				typ := cert.CertificateBanner
				if ver == cert.Version2 {
					typ = cert.CertificateV2Banner
				}
				var rest []byte
				d, rest, err = cert.UnmarshalCertificateFromPEM(pem.EncodeToMemory(&pem.Block{Type: typ, Bytes: b}))
				if err == nil && len(rest) != 0 {
					err = fmt.Errorf("rest after a single PEM block")
				}
			} else {
				d, err = cert.Recombine(ver, b, pk, pcurve)
			}
		}()
		if panicked != "" {
			failures = append(failures, map[string]any{"i": cw.Total(), "code": 2, "what": "decode-panic", "detail": panicked})
			err = fmt.Errorf("panic")
		}
		// three verdicts: on a fresh pool (control), on the leaf's own pool (which verified the genuine certificate and
		// every earlier tampered encoding of it), and on the CA's shared pool right after another genuine leaf of that CA
		accepted, accLeaf, accCA, blkOrig, blkTwin := false, false, false, true, true
		decLit := hx.None()
		identSame, sigClass := false, "-"
		if err == nil && d != nil {
			decLit = hx.Some(ccAnyLit(d))
			pool := tmPoolFor(l.ca.crt)
			func() {
				defer func() {
					if r := recover(); r != nil {
						failures = append(failures, map[string]any{"i": cw.Total(), "code": 2, "what": "verify-panic", "detail": fmt.Sprint(r)})
					}
				}()
				accepted = tmVerify(pool, l.now, d)
				accLeaf = tmVerify(l.pool, l.now, d)
				shared := tmCAPools[l.ca]
				var other *tmLeaf
				for tries := 0; tries < 20 && other == nil; tries++ {
					if o := leaves[c.Intn(len(leaves))]; o.ca == l.ca && o != l {
						other = o
					}
				}
				if other != nil && !tmGenuine(shared, other) {
					failures = append(failures, map[string]any{"i": cw.Total(), "code": 2, "what": "genuine-rejected-after-history"})
				}
				if c.Chance(0.5) && !tmGenuine(shared, l) {
					failures = append(failures, map[string]any{"i": cw.Total(), "code": 2, "what": "genuine-rejected-after-history"})
				}
				accCA = tmVerify(shared, l.now, d)
				if !tmGenuine(l.pool, l) {
					failures = append(failures, map[string]any{"i": cw.Total(), "code": 2, "what": "genuine-rejected-after-history"})
				}
				if accepted || accLeaf || accCA {
					blkOrig = tmBlocked(l, l.now, d, l.fp)
					if l.fp2 != "" {
						blkTwin = tmBlocked(l, l.now, d, l.fp2)
					}
				}
			}()
			fo, fd := ccObserve(l.crt), ccObserve(d)
			fo.sig, fd.sig = nil, nil
			identSame = ccCertLit(fo) == ccCertLit(fd) && d.Version() == ver
			switch {
			case hex.EncodeToString(d.Signature()) == hex.EncodeToString(l.crt.Signature()):
				sigClass = "orig"
			case l.twinC != nil && hex.EncodeToString(d.Signature()) == hex.EncodeToString(l.twinC.Signature()):
				sigClass = "twin"
			default:
				sigClass = "other"
			}
		}
		kind := "rejected"
		if err != nil {
			kind = "undecodable"
		} else if accepted || accLeaf || accCA {
			kind = "accepted-" + sigClass
			if !(accepted && accLeaf && accCA) {
				kind = "accepted-by-history-only-" + sigClass
			}
		}
		stats[what+"/"+kind]++
		lit := hx.App("CTamper", ccAnyLit(l.crt), hx.N(uint64(form)), ccB(pk), hx.N(uint64(pcurve)), ccB(b), decLit,
			hx.Bool(accepted), hx.Bool(accLeaf), hx.Bool(accCA), hx.Bool(blkOrig), hx.Bool(blkTwin))
		cw.Add(lit, fmt.Sprintf("v%d-c%d-f%d/%s", ver, curve, form, kind), err == nil,
			map[string]any{"op": "tamper", "version": int(ver), "curve": int(curve), "form": form, "what": what, "decodes": err == nil,
				"identity_equal": identSame, "accepted": accepted, "accepted_leaf_pool": accLeaf, "accepted_ca_pool": accCA, "signature": sigClass, "blocked_by_orig_fp": blkOrig, "blocked_by_twin_fp": blkTwin,
				"bytes": hx.Ints(b)})
	}
	cw.Meta("failures", failures)
	cw.Meta("stats", stats)
	cw.Close("p256.Swap on chosen r/s (0, 1, n/2, n-1, n, n+1, 2^255, 2^256, non-minimal and malformed DER); 48 real leaf certificates (v1/v2 x Curve25519/P256 " +
		"x v1/v2 CAs) tampered in the standard and the handshake encoding: byte flip/set/insert/delete/truncate/extend/duplicate, tolerated and content-changing " +
		"re-encodings, twin and foreign signatures, foreign key and curve; through UnmarshalCertificateFromPEM / Recombine and CAPool.VerifyCertificate + " +
		"VerifyCachedCertificate on three pools (fresh; the leaf's own long-lived pool after its genuine certificate and all earlier tampered encodings; the CA's " +
		"shared pool interleaved with other genuine leaves), with the original and the twin fingerprint blocklisted; non-trivial = the tampered bytes decode; distinct by literal")
}

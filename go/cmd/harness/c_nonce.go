//go:build comp_all || comp_nonce

package main

import (
	"crypto/fips140"
	"errors"
	"fmt"
	"os"
	"os/exec"
	"strings"
	"sync"
	"sync/atomic"
	"time"

	"github.com/flynn/noise"
	nebula "github.com/slackhq/nebula"
	"github.com/slackhq/nebula/noiseutil"
	"verifharness/hx"
)

// C13: message counters (nonces) are never reused and the exhaustion ceiling is enforced.
// Everything below drives the REAL send paths of inside.go (through overlay/_root/verif_nonce.go) and the REAL
// noiseutil ciphers; the only code of ours on the path is a recording wrapper around the real cipher.

func init() {
	hx.Register("gen_nonce", genNonce)
	hx.Register("nonce", runNonce)
	hx.Register("nonce_fips", runNonceFips)
}

// ---- T1 constants --------------------------------------------------------------------------------

func genNonce(c *hx.Ctx) {
	var sb strings.Builder
	sb.WriteString("(* GENERATED from /repo (connection_state.go, noiseutil/cipher_state.go) by harness gen_nonce: do not edit *)\n")
	sb.WriteString("From Coq Require Import NArith.\nOpen Scope N_scope.\n")
	fmt.Fprintf(&sb, "(* nebula.RejectAfterMessages: the ceiling NextMessageCounter tests against and stores *)\nDefinition RejectAfterMessages : N := %d.\n", nebula.VerifNonceRejectAfterMessages)
	fmt.Fprintf(&sb, "(* noiseutil.RejectAfterMessages: the ceiling every EncryptDanger tests against *)\nDefinition NoiseRejectAfterMessages : N := %d.\n", uint64(noiseutil.RejectAfterMessages))
	fmt.Fprintf(&sb, "(* noiseutil.RejectHeadroom *)\nDefinition RejectHeadroom : N := %d.\n", uint64(noiseutil.RejectHeadroom))
	fmt.Fprintf(&sb, "(* nebula.RehandshakeAfterMessages *)\nDefinition RehandshakeAfterMessages : N := %d.\n", nebula.VerifNonceRehandshakeAfterMessages)
	fmt.Fprintf(&sb, "(* nebula.ReplayWindow: newConnectionStateFromResult refuses a handshake message index >= this *)\nDefinition ReplayWindow : N := %d.\n", nebula.VerifNonceReplayWindow)
	c.WriteFile("Consts_Nonce.v", sb.String())
}

// ---- recording cipher ----------------------------------------------------------------------------

type encRec struct {
	n        uint64
	ok       bool
	panicked bool
}

type arrival struct {
	n   uint64
	rel chan struct{}
}

// recCipher wraps a real noiseutil.CipherState. It records every nonce the send paths hand to EncryptDanger and
// whether the real cipher accepted it. With a gate it parks the caller before the real call, so the harness decides
// when the encryption of an already reserved counter happens.
type recCipher struct {
	inner noiseutil.CipherState
	mu    sync.Mutex
	log   []encRec
	gate  chan arrival
	// stress runs: a preallocated log filled through an atomic cursor, so that recording does not serialise the senders
	buf []encRec
	pos atomic.Int64
}

func (r *recCipher) record(e encRec) {
	if r.buf != nil {
		r.buf[r.pos.Add(1)-1] = e
		return
	}
	r.mu.Lock()
	r.log = append(r.log, e)
	r.mu.Unlock()
}

func (r *recCipher) records() []encRec {
	if r.buf != nil {
		return r.buf[:r.pos.Load()]
	}
	return r.log
}

var errCipherPanicked = errors.New("cipher panicked")

func (r *recCipher) EncryptDanger(out, ad, plaintext []byte, n uint64, nb []byte) (res []byte, err error) {
	if r.gate != nil {
		a := arrival{n: n, rel: make(chan struct{})}
		r.gate <- a
		<-a.rel
	}
	defer func() {
		if p := recover(); p != nil {
			r.record(encRec{n: n, panicked: true})
			res, err = nil, errCipherPanicked
		}
	}()
	res, err = r.inner.EncryptDanger(out, ad, plaintext, n, nb)
	r.record(encRec{n: n, ok: err == nil})
	return res, err
}

func (r *recCipher) DecryptDanger(out, ad, ciphertext []byte, n uint64, nb []byte) ([]byte, error) {
	return r.inner.DecryptDanger(out, ad, ciphertext, n, nb)
}
func (r *recCipher) Overhead() int { return r.inner.Overhead() }

// cipher kinds: 0 = AES-GCM, 1 = ChaCha20-Poly1305, 2 = the FIPS / boring AES-GCM type (refuses non-increasing nonces when
// the process runs in FIPS mode), 3 = whatever noiseutil.CipherAESGCM is configured to in this process
func realCipher(kind int, keyByte byte) noiseutil.CipherState {
	var key [32]byte
	for i := range key {
		key[i] = keyByte + byte(i)
	}
	var cf noise.CipherFunc
	switch kind {
	case 0:
		cf = noise.CipherAESGCM
	case 1:
		cf = noise.CipherChaChaPoly
	case 2:
		cf = noiseutil.CipherAESGCMFIPS140
	case 3:
		cf = noiseutil.CipherAESGCM
	}
	suite := noise.NewCipherSuite(noise.DH25519, cf, noise.HashSHA256)
	ns := noise.UnsafeNewCipherState(suite, key, 0)
	if kind == 0 {
		return noiseutil.NewCipherStateAESGCM(ns)
	}
	return noiseutil.NewCipherState(ns, cf)
}

// ---- scripted real-path interleavings --------------------------------------------------------------

const (
	opR = 0 // thread runs its next send path until it has handed a nonce to the cipher (parked there) or returned
	opE = 1 // the parked encryption of that thread proceeds and the path returns
)

type mop struct {
	kind, tid int
}

type mobs struct {
	arrived  bool
	nonce    uint64
	ok       bool
	ctr      uint64
	ctrKnown bool
}

// runRandomScript interleaves generation and execution: after every R the harness sees whether the thread parked.
// In lock mode a new path is normally started only while no thread is parked inside the critical section; with
// probability `tryBlocked` it is started anyway: the real thread must then block on writeLock (nothing reaches the
// cipher, the counter does not move) and goes on by itself when the lock is released.
func runRandomScript(c *hx.Ctx, lk bool, kind int, start uint64, progs [][]int, eagerE float64) ([]mop, []mobs) {
	const tryBlocked = 0.35
	noiseutil.EncryptLockNeeded = lk
	rec := &recCipher{inner: realCipher(kind, 0x40), gate: make(chan arrival)}
	rig := nebula.VerifNewNonceRig(rec, start)
	T := len(progs)
	senders := make([]*nebula.VerifNonceSender, T)
	done := make([]chan struct{}, T)
	pend := make([]*arrival, T)
	next := make([]int, T)
	for i := range senders {
		senders[i] = rig.NewSender()
		done[i] = make(chan struct{}, 1)
	}
	var ops []mop
	var obs []mobs
	blocked := -1 // a thread launched while the lock was held
	launch := func(k int) {
		p := progs[k][next[k]]
		next[k]++
		go func() {
			senders[k].Send(p)
			done[k] <- struct{}{}
		}()
	}
	await := func(k int, patience time.Duration) (settled bool) {
		select {
		case a := <-rec.gate:
			pend[k] = &a
			obs = append(obs, mobs{arrived: true, nonce: a.n, ctr: rig.Counter(), ctrKnown: true})
		case <-done[k]:
			obs = append(obs, mobs{ctr: rig.Counter(), ctrKnown: true})
		case <-time.After(patience):
			return false
		}
		return true
	}
	for {
		nParked := 0
		var canR, canE, canB []int
		for k := 0; k < T; k++ {
			if pend[k] != nil {
				nParked++
				canE = append(canE, k)
			}
		}
		for k := 0; k < T; k++ {
			if pend[k] == nil && k != blocked && next[k] < len(progs[k]) {
				if !lk || nParked == 0 {
					canR = append(canR, k)
				} else if blocked < 0 {
					canB = append(canB, k)
				}
			}
		}
		if blocked >= 0 && nParked == 0 {
			// the lock holder has left: the blocked thread is running by itself; record where it gets to
			k := blocked
			blocked = -1
			ops = append(ops, mop{opR, k})
			if !await(k, 20*time.Second) {
				panic("nonce harness: thread released from the lock neither reached the cipher nor returned")
			}
			continue
		}
		if len(canR) == 0 && len(canE) == 0 {
			break
		}
		if len(canB) > 0 && c.Chance(tryBlocked) {
			k := canB[c.Intn(len(canB))]
			ops = append(ops, mop{opR, k})
			launch(k)
			if !await(k, 3*time.Millisecond) {
				obs = append(obs, mobs{ctr: rig.Counter(), ctrKnown: true})
				blocked = k
			}
			continue
		}
		doE := len(canR) == 0 || (len(canE) > 0 && c.Chance(eagerE))
		if doE {
			k := canE[c.Intn(len(canE))]
			ops = append(ops, mop{opE, k})
			before := len(rec.log)
			close(pend[k].rel)
			pend[k] = nil
			select {
			case <-done[k]:
			case <-time.After(20 * time.Second):
				panic("nonce harness: parked encryption did not return")
			}
			rec.mu.Lock()
			if len(rec.log) != before+1 {
				panic("nonce harness: expected exactly one cipher record")
			}
			e := rec.log[before]
			rec.mu.Unlock()
			// with a thread waiting for the lock the counter may already have moved on
			obs = append(obs, mobs{ok: e.ok, ctr: rig.Counter(), ctrKnown: blocked < 0})
		} else {
			k := canR[c.Intn(len(canR))]
			ops = append(ops, mop{opR, k})
			launch(k)
			if !await(k, 20*time.Second) {
				panic("nonce harness: scripted thread neither reached the cipher nor returned")
			}
		}
	}
	return ops, obs
}

// zoff renders v as a signed offset from base (a Z literal).
func zoff(v, base uint64) string {
	if v >= base {
		return fmt.Sprintf("%d%%Z", v-base)
	}
	return fmt.Sprintf("(-%d)%%Z", base-v)
}

func scriptLit(lk bool, start uint64, progs [][]int, ops []mop, obs []mobs) (string, map[string]any, bool) {
	pl := make([]string, len(progs))
	for i, p := range progs {
		xs := make([]uint64, len(p))
		for j, v := range p {
			xs[j] = uint64(v)
		}
		pl[i] = hx.NList(xs)
	}
	ol := make([]string, len(ops))
	jops := make([][]any, len(ops))
	anyOK := false
	for i, op := range ops {
		o := obs[i]
		ctor := "Nonce_corr.MR"
		if op.kind == opE {
			ctor = "Nonce_corr.ME"
		}
		arr := hx.None()
		if o.arrived {
			arr = hx.Some(zoff(o.nonce, start))
		}
		ctr, jctr := hx.None(), "?"
		if o.ctrKnown {
			ctr, jctr = hx.Some(zoff(o.ctr, start)), fmt.Sprint(o.ctr)
		}
		ol[i] = hx.App("Nonce_corr.MS", hx.App(ctor, hx.N(uint64(op.tid))), arr, hx.Bool(o.ok), ctr)
		jops[i] = []any{[]string{"R", "E"}[op.kind], op.tid, o.arrived, fmt.Sprint(o.nonce), o.ok, jctr}
		anyOK = anyOK || o.ok
	}
	lit := hx.App("Nonce_corr.CScript", hx.Bool(lk), hx.N(start), hx.List(pl), hx.List(ol))
	return lit, map[string]any{"op": "script", "lock": lk, "start": fmt.Sprint(start), "progs": progs,
		"steps(kind,thread,reached_cipher,nonce,enc_ok,counter_after)": jops}, anyOK
}

// ---- concurrent stress (supporting evidence) --------------------------------------------------------

type stressOut struct {
	log   []encRec
	final uint64
}

func runStress(lk bool, kind int, start uint64, threads, per int, mix []int) stressOut {
	noiseutil.EncryptLockNeeded = lk
	rec := &recCipher{inner: realCipher(kind, 0x70), buf: make([]encRec, threads*per)}
	rig := nebula.VerifNewNonceRig(rec, start)
	var wg sync.WaitGroup
	gate := make(chan struct{})
	for t := 0; t < threads; t++ {
		wg.Add(1)
		s := rig.NewSender()
		go func(t int) {
			defer wg.Done()
			<-gate
			for i := 0; i < per; i++ {
				s.Send(mix[(t+i)%len(mix)])
			}
		}(t)
	}
	close(gate)
	wg.Wait()
	return stressOut{log: rec.records(), final: rig.Counter()}
}

// ---- the components -------------------------------------------------------------------------------

// runNonce: the normal build mode (EncryptLockNeeded false); the lock mode is exercised as well by switching the
// package variable, with the order-checking FIPS cipher type as the inner cipher (it only enforces the order when the
// process runs in FIPS mode - that is what nonce_fips is for).
func runNonce(c *hx.Ctx) { nonceBody(c, fips140.Enabled()) }

// runNonceFips re-executes the harness with GODEBUG=fips140=on: the real FIPS configuration (EncryptLockNeeded true,
// noiseutil.CipherAESGCM = the cipher that panics on a non-increasing nonce).
func runNonceFips(c *hx.Ctx) {
	if fips140.Enabled() {
		nonceBody(c, true)
		return
	}
	exe, err := os.Executable()
	if err != nil {
		panic(err)
	}
	cmd := exec.Command(exe, os.Args[1:]...)
	env := os.Environ()
	gd := "fips140=on"
	for i, e := range env {
		if strings.HasPrefix(e, "GODEBUG=") {
			gd = strings.TrimPrefix(e, "GODEBUG=") + ",fips140=on"
			env = append(env[:i:i], env[i+1:]...)
			break
		}
	}
	cmd.Env = append(env, "GODEBUG="+gd)
	cmd.Stdout, cmd.Stderr = os.Stdout, os.Stderr
	if err := cmd.Run(); err != nil {
		fmt.Fprintln(os.Stderr, "nonce_fips: FIPS-mode child failed:", err)
		os.Exit(3)
	}
}

// orderChecked reports whether the configured AES-GCM cipher refuses a repeated nonce.
func orderChecked() bool {
	cs := realCipher(3, 0x12)
	refused := false
	for _, n := range []uint64{5, 6, 6} {
		func() {
			defer func() {
				if recover() != nil {
					refused = true
				}
			}()
			if _, err := cs.EncryptDanger(nil, nil, []byte("x"), n, make([]byte, 12)); err != nil {
				refused = true
			}
		}()
	}
	return refused
}

func nonceBody(c *hx.Ctx, fips bool) {
	defer func(v bool) { noiseutil.EncryptLockNeeded = v }(noiseutil.EncryptLockNeeded)
	lockDefault := noiseutil.EncryptLockNeeded
	cw := c.NewCaseWriter("From NV Require Import corr.Nonce_corr.", "Nonce_corr.case", "Nonce_corr.check_case", 120)
	ceil := uint64(noiseutil.RejectAfterMessages)
	max := ^uint64(0)
	// lock modes and ciphers this process can honestly exercise
	lockModes := []bool{false, true}
	lockedCipher := 2
	if fips {
		lockModes = []bool{true} // EncryptLockNeeded is true in this configuration; running without it is not nebula
		lockedCipher = 3
	}

	// (0) which mode is this: a cipher that insists on increasing nonces must come with the write lock
	{
		oc := orderChecked()
		cw.Add(hx.App("Nonce_corr.CMode", hx.Bool(lockDefault), hx.Bool(oc)), "mode", true,
			map[string]any{"op": "mode", "fips140": fips, "EncryptLockNeeded": lockDefault, "CipherAESGCM_refuses_repeated_nonce": oc})
	}

	// (1) the ceiling test of every real cipher, at the boundary
	edges := []uint64{0, 1, 2, 3, 1 << 34, ceil - 3, ceil - 2, ceil - 1, ceil, ceil + 1, ceil + 2, max - 1, max}
	for kind := 0; kind < 4; kind++ {
		for _, n := range edges {
			cs := realCipher(kind, 0x11)
			ok, panicked := func() (ok bool, panicked bool) {
				defer func() {
					if recover() != nil {
						panicked = true
					}
				}()
				_, err := cs.EncryptDanger(nil, []byte("ad"), []byte("x"), n, make([]byte, 12))
				return err == nil, false
			}()
			cw.Add(hx.App("Nonce_corr.CCipher", hx.N(uint64(kind)), hx.N(n), hx.Bool(ok && !panicked)), "cipher-ceiling", n < ceil,
				map[string]any{"op": "EncryptDanger", "cipher": kind, "nonce": fmt.Sprint(n), "ok": ok, "panicked": panicked})
		}
	}

	// (2) the seeding statement and the reservation function, sequentially
	for idx := uint64(0); idx < 6; idx++ {
		cw.Add(hx.App("Nonce_corr.CSeed", hx.N(idx), hx.N(nebula.VerifNonceFromHandshakeIndex(idx))), "seed", true,
			map[string]any{"op": "seed", "handshake_message_index": idx})
	}
	starts := []uint64{0, 1, 2, 3, 1<<34 - 1, ceil - 4, ceil - 3, ceil - 2, ceil - 1, ceil, ceil + 1, ceil + 2, max - 2, max - 1, max}
	for _, s := range starts {
		rig := nebula.VerifNewNonceRig(&recCipher{inner: realCipher(0, 1)}, s)
		v, ok := rig.NextMessageCounter()
		cw.Add(hx.App("Nonce_corr.CNext", hx.N(s), hx.N(v), hx.Bool(ok), hx.N(rig.Counter())), "next-counter", ok,
			map[string]any{"op": "NextMessageCounter", "start": fmt.Sprint(s), "value": fmt.Sprint(v), "ok": ok, "after": fmt.Sprint(rig.Counter())})
	}

	// (3) boundary sweep of scripted interleavings of the real paths: two threads, every pair of paths,
	// starting at ceiling-3 .. ceiling+1, two random interleavings each (eager / lazy encryption)
	addScript := func(kindLabel string, lk bool, start uint64, progs [][]int, ops []mop, obs []mobs) {
		lit, desc, anyOK := scriptLit(lk, start, progs, ops, obs)
		cw.Add(lit, kindLabel, anyOK, desc)
	}
	for _, lk := range lockModes {
		for d := int64(-3); d <= 1; d++ {
			start := uint64(int64(ceil) + d)
			for p0 := 0; p0 < 4; p0++ {
				for p1 := 0; p1 < 4; p1++ {
					progs := [][]int{{p0, 0}, {p1}}
					for variant := 0; variant < 2; variant++ {
						kind := 0
						if lk {
							kind = lockedCipher
						}
						ops, obs := runRandomScript(c, lk, kind, start, progs, []float64{0.15, 0.6}[variant])
						addScript("script-sweep", lk, start, progs, ops, obs)
					}
				}
			}
		}
	}

	// (4) random scripts
	for i := 0; i < c.N; i++ {
		lk := lockModes[len(lockModes)-1]
		if len(lockModes) > 1 {
			lk = c.Chance(0.4)
		}
		T := 1 + c.Intn(4)
		progs := make([][]int, T)
		total := 0
		for t := range progs {
			n := 1 + c.Intn(4)
			progs[t] = make([]int, n)
			for j := range progs[t] {
				r := c.Intn(100)
				switch {
				case r < 45:
					progs[t][j] = 0
				case r < 70:
					progs[t][j] = 1
				case r < 90:
					progs[t][j] = 2
				default:
					progs[t][j] = 3
				}
			}
			total += n
		}
		var start uint64
		label := "script"
		switch r := c.Intn(100); {
		case r < 15:
			start = nebula.VerifNonceFromHandshakeIndex(uint64(c.Intn(4)))
			label = "script-fresh"
		case r < 75:
			start = ceil - uint64(c.Intn(total+3))
			label = "script-ceiling"
		case r < 85:
			start = ceil + uint64(c.Intn(3))
			label = "script-past-ceiling"
		case r < 93 || fips:
			start = max - uint64(5*total+8+c.Intn(4)) // near 2^64 but inside the headroom assumption
			label = "script-high"
		default:
			start = max - uint64(c.Intn(total+1)) // wraps: outside the assumption, model-vs-code only
			label = "script-wrap"
		}
		kind := c.Intn(2)
		if lk {
			kind = lockedCipher
			if !fips && c.Chance(0.3) {
				kind = c.Intn(2)
			}
		}
		if label == "script-wrap" && kind >= 2 {
			kind = 0
		}
		if lk {
			label += "-locked"
		}
		ops, obs := runRandomScript(c, lk, kind, start, progs, 0.2+0.6*c.Rng.Float64())
		addScript(label, lk, start, progs, ops, obs)
	}

	// (5) concurrent stress: many goroutines through the real paths, recording what reached the cipher
	nStress := 6
	threads, per := 8, 40
	if c.Tier == "thorough" {
		nStress = 30
	}
	mixes := [][]int{{0}, {0, 1}, {0, 0, 2, 1}, {1, 2}, {0, 3, 1, 0}}
	for i := 0; i < nStress; i++ {
		lk := lockModes[i%len(lockModes)]
		kind := 0
		if lk {
			kind = lockedCipher
		}
		total := threads * per
		var start uint64
		switch i % 3 {
		case 0:
			start = ceil - uint64(total/2) - uint64(c.Intn(20))
		case 1:
			start = ceil - uint64(total) - 5
		default:
			start = ceil - uint64(c.Intn(40))
		}
		out := runStress(lk, kind, start, threads, per, mixes[i%len(mixes)])
		recs := make([]string, len(out.log))
		npanic, nok := 0, 0
		for j, e := range out.log {
			recs[j] = hx.App("Nonce_corr.LR", zoff(e.n, start), hx.Bool(e.ok))
			if e.panicked {
				npanic++
			}
			if e.ok {
				nok++
			}
		}
		cw.Add(hx.App("Nonce_corr.CStress", hx.Bool(lk), hx.N(start), hx.N(uint64(total)), hx.List(recs), zoff(out.final, start), hx.N(uint64(npanic))),
			"stress", nok > 0, map[string]any{"op": "stress", "lock": lk, "cipher": kind, "start": fmt.Sprint(start), "goroutines": threads,
				"sends_each": per, "mix": mixes[i%len(mixes)], "reached_cipher": len(out.log), "accepted": nok, "cipher_panics": npanic, "final": fmt.Sprint(out.final)})
	}
	// large runs are judged here in Go (a map / a running maximum) and only the tallies go to Coq
	nBig := 4
	bigThreads, bigPer := 16, 12000
	if c.Tier == "thorough" {
		nBig, bigPer = 12, 100000
	}
	for i := 0; i < nBig; i++ {
		lk := lockModes[i%len(lockModes)]
		kind := 0
		if lk {
			kind = lockedCipher
		}
		total := uint64(bigThreads * bigPer)
		start := ceil - total/2 - uint64(c.Intn(1000))
		if i%4 >= 2 {
			start = uint64(c.Intn(4))
		}
		out := runStress(lk, kind, start, bigThreads, bigPer, mixes[(i+1)%len(mixes)])
		t := tally(out.log, start, ceil)
		cw.Add(hx.App("Nonce_corr.CStressBig", hx.Bool(lk), hx.N(t.dups), hx.N(t.outOfRange), hx.N(t.nonInc), hx.N(t.lateOK), hx.N(t.panics)),
			"stress-big", t.nok > 0, map[string]any{"op": "stress-big", "lock": lk, "cipher": kind, "start": fmt.Sprint(start), "goroutines": bigThreads,
				"sends_each": bigPer, "accepted": t.nok, "duplicates": t.dups, "out_of_range": t.outOfRange,
				"not_increasing(log order)": t.nonInc, "accepted_after_a_refusal(log order)": t.lateOK, "cipher_panics": t.panics})
	}
	// sensitivity of the evidence (not a check): in FIPS mode, the same stress WITHOUT the lock makes the cipher panic
	if fips {
		out := runStress(false, 3, 10, 16, 5000, []int{0})
		t := tally(out.log, 10, ceil)
		cw.Meta("control_without_lock", map[string]any{"cipher_panics": t.panics, "not_increasing": t.nonInc, "accepted": t.nok,
			"note": "EncryptLockNeeded forced to false with the FIPS cipher: panics > 0 shows the recorder and the cipher do notice disorder"})
	}

	mode := "normal mode (fips140 off)"
	if fips {
		mode = "FIPS mode (GODEBUG=fips140=on child process)"
	}
	cw.Close(mode + ": real send paths (sendInsideEncrypt, sendNoMetrics, prepareSendVia) on one ConnectionState with a recording wrapper around the real noiseutil cipher: " +
		"boundary sweep + random scripted interleavings at the granularity reserve | encrypt (1-4 threads, 1-4 sends each, starts fresh / around the ceiling / near 2^64), " +
		"cipher ceiling edges, NextMessageCounter edges, concurrent stress; non-trivial = at least one encryption accepted; distinct by literal")
}

type tallies struct{ dups, outOfRange, nonInc, panics, lateOK, nok uint64 }

func tally(log []encRec, start, ceil uint64) tallies {
	var t tallies
	seen := make(map[uint64]struct{}, len(log))
	var last uint64
	refusedSeen := false
	for _, e := range log {
		if e.panicked {
			t.panics++
			continue
		}
		if !e.ok {
			refusedSeen = true
			continue
		}
		t.nok++
		if _, d := seen[e.n]; d {
			t.dups++
		}
		seen[e.n] = struct{}{}
		if !(e.n > start && e.n < ceil) {
			t.outOfRange++
		}
		if t.nok > 1 && e.n <= last {
			t.nonInc++
		}
		last = e.n
		if refusedSeen {
			t.lateOK++
		}
	}
	return t
}

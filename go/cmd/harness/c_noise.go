//go:build comp_all || comp_noise

package main

// Components noise_c07 / noise_c06 / noise_c05: real handshake.Machine pairs with real crypto, driven by adversary
// scripts; the same scripts are run by the symbolic model (coq/model/Noise.v + Machine.v) inside Coq.
//
// A packet handed to a machine is described to the model as a list of pieces: byte ranges of the packets other
// machines produced (FOut), a point the DH refuses (FLow), junk (FJunk), or - for the cleartext payload of message 1
// only - the payload as the real UnmarshalPayload decodes it (FPay).

import (
	"bytes"
	"encoding/binary"
	"fmt"
	"io"
	"math/big"
	"net/netip"
	"strings"
	"sync"
	"time"

	"github.com/flynn/noise"
	nebula "github.com/slackhq/nebula"
	"github.com/slackhq/nebula/cert"
	ct "github.com/slackhq/nebula/cert_test"
	"github.com/slackhq/nebula/handshake"
	"github.com/slackhq/nebula/header"
	"github.com/slackhq/nebula/noiseutil"
	"verifharness/hx"
)

func init() {
	hx.Register("noise_c07", runNoiseC07)
	hx.Register("noise_c06", runNoiseC06)
	hx.Register("noise_c05", runNoiseC05)
	hx.Register("noise_mgr", runNoiseMgr)
}

// ---- identities ---------------------------------------------------------------------------------

type nCredInfo struct {
	cert  cert.Certificate
	bytes []byte
	priv  []byte
	body  uint64 // model id of bytes
	ver   uint64
	pub   uint64 // model id of the key in cert.PublicKey()
}

type nIdent struct {
	name  string
	spriv uint64 // model id of the private key
	creds map[cert.Version]*nCredInfo
	def   cert.Version
	good  bool // the pool accepts what this identity presents and it holds the matching private key
}

type nBodyInfo struct {
	id     uint64
	ver    uint64
	hasKey bool
}

type nWorld struct {
	curve   cert.Curve
	curveN  uint64
	dh      noise.DHFunc
	dl      int
	pool    *cert.CAPool
	ids     []*nIdent
	bodies  map[string]nBodyInfo // certificate bytes as they can appear in a payload -> model id
	keys    map[string]uint64    // static public key bytes -> model key id
	certOf  map[cert.Certificate]uint64
	accept  string // Gallina literal of c_accept
	low     [][]byte
	fullA   []byte // identity A's v2 certificate marshalled WITH its public key
	unknown uint64
	junk    uint64
}

const (
	nA = iota
	nB
	nU
	nX
	nK
	nM
	nS
	nC
	nD
	nN
)

func nSuite(dh noise.DHFunc, cipher uint64) noise.CipherSuite {
	if cipher == 1 {
		return noise.NewCipherSuite(dh, noiseutil.CipherAESGCM, noise.HashSHA256)
	}
	return noise.NewCipherSuite(dh, noise.CipherChaChaPoly, noise.HashSHA256)
}

func nMust[T any](v T, err error) T {
	if err != nil {
		panic(err)
	}
	return v
}

func newNoiseWorld(curve cert.Curve) *nWorld {
	w := &nWorld{curve: curve, bodies: map[string]nBodyInfo{}, keys: map[string]uint64{}, certOf: map[cert.Certificate]uint64{},
		unknown: 9000, junk: 100}
	if curve == cert.Curve_P256 {
		w.curveN, w.dh = 1, noiseutil.DHP256
	} else {
		w.curveN, w.dh = 0, noise.DH25519
	}
	w.dl = w.dh.DHLen()
	now := time.Now()
	caBefore, caAfter := now.Add(-3*time.Hour), now.Add(48*time.Hour)
	before, after := now.Add(-2*time.Hour), now.Add(24*time.Hour)
	ca1, _, ca1Key, _ := ct.NewTestCaCert(cert.Version1, curve, caBefore, caAfter, nil, nil, nil)
	ca2, _, ca2Key, _ := ct.NewTestCaCert(cert.Version2, curve, caBefore, caAfter, nil, nil, nil)
	caBad, _, caBadKey, _ := ct.NewTestCaCert(cert.Version2, curve, caBefore, caAfter, nil, nil, nil)
	w.pool = ct.NewTestCAPool(ca1, ca2)
	var accept []string
	addBody := func(c cert.Certificate, id, ver uint64) []byte {
		b := nMust(c.MarshalForHandshakes())
		w.bodies[string(b)] = nBodyInfo{id: id, ver: ver}
		w.certOf[c] = id
		return b
	}
	mk := func(name string, spriv uint64, net string, v1, v2 bool, ca2c cert.Certificate, ca2k []byte, b, a time.Time, good bool) *nIdent {
		id := &nIdent{name: name, spriv: spriv, creds: map[cert.Version]*nCredInfo{}, good: good}
		nets := []netip.Prefix{netip.MustParsePrefix(net)}
		var base cert.Certificate
		var privPEM []byte
		if v1 {
			base, _, privPEM, _ = ct.NewTestCert(cert.Version1, curve, ca1, ca1Key, name, b, a, nets, nil, nil)
		} else {
			base, _, privPEM, _ = ct.NewTestCert(cert.Version2, curve, ca2c, ca2k, name, b, a, nets, nil, nil)
		}
		priv, _, _, err := cert.UnmarshalPrivateKeyFromPEM(privPEM)
		if err != nil {
			panic(err)
		}
		w.keys[string(base.PublicKey())] = spriv
		if v1 {
			hb := addBody(base, spriv*10+1, 1)
			id.creds[cert.Version1] = &nCredInfo{cert: base, bytes: hb, priv: priv, body: spriv*10 + 1, ver: 1, pub: spriv}
			id.def = cert.Version1
			if good {
				accept = append(accept, fmt.Sprintf("(%d, Pub %d)", spriv*10+1, spriv))
			}
			if v2 {
				c2, _ := ct.NewTestCertDifferentVersion(base, cert.Version2, ca2c, ca2k)
				hb2 := addBody(c2, spriv*10+2, 2)
				id.creds[cert.Version2] = &nCredInfo{cert: c2, bytes: hb2, priv: priv, body: spriv*10 + 2, ver: 2, pub: spriv}
				if good {
					accept = append(accept, fmt.Sprintf("(%d, Pub %d)", spriv*10+2, spriv))
				}
			}
		} else {
			hb := addBody(base, spriv*10+2, 2)
			id.creds[cert.Version2] = &nCredInfo{cert: base, bytes: hb, priv: priv, body: spriv*10 + 2, ver: 2, pub: spriv}
			id.def = cert.Version2
			if good {
				accept = append(accept, fmt.Sprintf("(%d, Pub %d)", spriv*10+2, spriv))
			}
		}
		w.ids = append(w.ids, id)
		return id
	}
	idA := mk("A", 1, "10.0.0.1/24", true, true, ca2, ca2Key, before, after, true)          // good, v1 + v2
	mk("B", 2, "10.0.0.2/24", true, true, ca2, ca2Key, before, after, true)                 // good, v1 + v2
	mk("U", 3, "10.0.0.3/24", false, true, caBad, caBadKey, before, after, false)           // untrusted CA
	mk("X", 4, "10.0.0.4/24", false, true, ca2, ca2Key, before, now.Add(-time.Hour), false) // expired
	idK := mk("K", 5, "10.0.0.5/24", false, true, ca2, ca2Key, before, after, false)        // blocklisted
	w.pool.BlocklistFingerprint(nMust(idK.creds[cert.Version2].cert.Fingerprint()))
	// "M": its own key pair, but it presents A's certificate bytes (a certificate for somebody else's key)
	idM := mk("M", 6, "10.0.0.6/24", false, true, ca2, ca2Key, before, after, false)
	accept = append(accept, "(62, Pub 6)") // M's own certificate is a fine certificate; M never sends it
	aV2 := idA.creds[cert.Version2]
	ownM := idM.creds[cert.Version2]
	idM.creds[cert.Version2] = &nCredInfo{cert: ownM.cert, bytes: aV2.bytes, priv: ownM.priv, body: aV2.body, ver: 2, pub: 6}
	w.certOf[ownM.cert] = aV2.body
	// "S": holds A's certificate (and so announces A's public key as its static) but not A's private key
	var pubS, privS []byte
	if curve == cert.Curve_P256 {
		pubS, privS = ct.P256Keypair()
	} else {
		pubS, privS = ct.X25519Keypair()
	}
	w.keys[string(pubS)] = 7
	idS := &nIdent{name: "S", spriv: 7, creds: map[cert.Version]*nCredInfo{}, def: cert.Version2}
	idS.creds[cert.Version2] = &nCredInfo{cert: aV2.cert, bytes: aV2.bytes, priv: privS, body: aV2.body, ver: 2, pub: 1}
	w.ids = append(w.ids, idS)
	mk("C", 8, "10.0.0.8/24", false, true, ca2, ca2Key, before, after, true) // good, v2 only
	mk("D", 9, "10.0.0.9/24", true, false, ca2, ca2Key, before, after, true) // good, v1 only
	mk("N", 10, "10.0.0.10/24", true, true, ca2, ca2Key, before, after, true) // good, v1 + v2: the node behind the HandshakeManager
	w.accept = "[" + strings.Join(accept, "; ") + "]"
	w.fullA = nMust(aV2.cert.Marshal())
	w.bodies[string(w.fullA)] = nBodyInfo{id: 7012, ver: 2, hasKey: true}
	if curve == cert.Curve_P256 {
		zero := make([]byte, 65)
		off := append([]byte(nil), aV2.cert.PublicKey()...)
		off[64] ^= 1 // not on the curve
		comp := append([]byte(nil), aV2.cert.PublicKey()...)
		comp[0] = 2 // not an uncompressed point encoding
		w.low = [][]byte{zero, off, comp}
	} else {
		p := new(big.Int).Sub(new(big.Int).Lsh(big.NewInt(1), 255), big.NewInt(19))
		le := func(x *big.Int) []byte {
			b := x.FillBytes(make([]byte, 32))
			for i, j := 0, 31; i < j; i, j = i+1, j-1 {
				b[i], b[j] = b[j], b[i]
			}
			return b
		}
		o8a, _ := new(big.Int).SetString("325606250916557431795983626356110631294008115727848805560023387167927233504", 10)
		o8b, _ := new(big.Int).SetString("39382357235489614581723060781553021112529911719440698176882885853963445705823", 10)
		w.low = [][]byte{le(big.NewInt(0)), le(big.NewInt(1)), le(o8a), le(o8b),
			le(new(big.Int).Sub(p, big.NewInt(1))), le(p), le(new(big.Int).Add(p, big.NewInt(1)))}
	}
	return w
}

// ---- machines -----------------------------------------------------------------------------------

type nMach struct {
	w         *nWorld
	id        *nIdent
	initiator bool
	ver       cert.Version
	cipher    uint64
	alloc     uint64
	allocErr  bool
	m         *handshake.Machine
	creds     map[cert.Version]*handshake.Credential
	out       []byte // the packet this machine produced (header + noise message)
	verified  *cert.CachedCertificate
	res       *handshake.Result
	eCS, dCS  noiseutil.CipherState
	now       uint64
	paylen    int
}

func (w *nWorld) newMach(id *nIdent, ver cert.Version, initiator bool, cipher, alloc uint64, allocErr bool) *nMach {
	return w.newMachShared(id, ver, initiator, cipher, alloc, allocErr, nil)
}

// the credentials of one node, built once and shared by all its machines (as pki.CertState does in production)
func (w *nWorld) nodeCreds(id *nIdent, suite noise.CipherSuite) map[cert.Version]*handshake.Credential {
	creds := map[cert.Version]*handshake.Credential{}
	for v, ci := range id.creds {
		creds[v] = handshake.NewCredential(ci.cert, ci.bytes, ci.priv, suite)
	}
	return creds
}

func (w *nWorld) newMachShared(id *nIdent, ver cert.Version, initiator bool, cipher, alloc uint64, allocErr bool, shared map[cert.Version]*handshake.Credential) *nMach {
	nm := &nMach{w: w, id: id, initiator: initiator, ver: ver, cipher: cipher, alloc: alloc, allocErr: allocErr, now: 1}
	if shared != nil {
		nm.creds = shared
	} else {
		nm.creds = w.nodeCreds(id, nSuite(w.dh, cipher))
	}
	getCred := func(v cert.Version) *handshake.Credential { return nm.creds[v] }
	verifier := func(c cert.Certificate) (*cert.CachedCertificate, error) {
		cc, err := w.pool.VerifyCertificate(time.Now(), c)
		if err == nil {
			nm.verified = cc
		}
		return cc, err
	}
	allocF := func() (uint32, error) {
		if allocErr {
			return 0, fmt.Errorf("no index")
		}
		return uint32(alloc), nil
	}
	m, err := handshake.NewMachine(ver, getCred, verifier, allocF, initiator, header.HandshakeIXPSK0)
	if err != nil {
		panic(err)
	}
	nm.m = m
	return nm
}

// Gallina literal of the model configuration mirroring this machine
func (nm *nMach) specLit(idx int) string {
	credLit := func(v cert.Version) string {
		ci := nm.id.creds[v]
		if ci == nil {
			return "None"
		}
		return fmt.Sprintf("(Some (mkCred %d %d %d (Pub %d)))", ci.body, ci.ver, nm.w.curveN, ci.pub)
	}
	alloc := fmt.Sprintf("(Some %d)", nm.alloc)
	if nm.allocErr {
		alloc = "None"
	}
	return fmt.Sprintf("(Noise_corr.mkMS (mkCfg %d 0 %s %s %d %s %s %d %d %d) %d %s)",
		nm.cipher, credLit(cert.Version1), credLit(cert.Version2), nm.id.spriv, nm.w.accept, alloc, nm.now,
		1000+idx, nm.paylen, uint64(nm.ver), hx.Bool(nm.initiator))
}

type nObs struct {
	class  int
	hasOut bool
	out    [4]uint64
	hasRes bool
	res    struct {
		body, key                uint64
		keyStatic, verified      bool
		ridx, lidx, msgidx       uint64
		initiator                bool
		mycert                   uint64
	}
}

func (o nObs) lit() string {
	out, res := "None", "None"
	if o.hasOut {
		out = fmt.Sprintf("(Some (%d, %d, %d, %d))", o.out[0], o.out[1], o.out[2], o.out[3])
	}
	if o.hasRes {
		r := o.res
		res = fmt.Sprintf("(Some (%d, %d, %s, %s, %d, %d, %d, %s, %d))", r.body, r.key, hx.Bool(r.keyStatic), hx.Bool(r.verified),
			r.ridx, r.lidx, r.msgidx, hx.Bool(r.initiator), r.mycert)
	}
	return fmt.Sprintf("(Noise_corr.mkObs %d %s %s)", o.class, out, res)
}

func (o nObs) json() map[string]any {
	m := map[string]any{"class": o.class}
	if o.hasOut {
		m["out"] = o.out
	}
	if o.hasRes {
		m["res"] = fmt.Sprintf("%+v", o.res)
	}
	return m
}

func (nm *nMach) observe(out []byte, res *handshake.Result, err error) nObs {
	var o nObs
	if err != nil {
		if nm.m.Failed() {
			o.class = 1
		}
		return o
	}
	o.class = 2
	w := nm.w
	if len(out) > 0 {
		nm.out = append([]byte(nil), out...)
		var h header.H
		if e := h.Parse(out); e != nil {
			panic(e)
		}
		o.hasOut = true
		o.out = [4]uint64{uint64(h.Subtype), uint64(h.RemoteIndex), h.MessageCounter, uint64(len(out) - header.Len)}
		body := len(out) - header.Len
		if nm.initiator {
			nm.paylen = body - 2*w.dl
			if p, e := handshake.UnmarshalPayload(out[header.Len+2*w.dl:]); e == nil {
				nm.now = p.Time
			}
		} else {
			nm.paylen = body - 2*w.dl - 32
		}
	}
	if res != nil {
		nm.res = res
		o.hasRes = true
		r := &o.res
		if res.RemoteCert != nil {
			c := res.RemoteCert.Certificate
			if hb, e := c.MarshalForHandshakes(); e == nil {
				r.body = w.bodies[string(hb)].id
			}
			r.key = w.keys[string(c.PublicKey())]
			r.keyStatic = bytes.Equal(c.PublicKey(), nm.m.VerifPeerStatic())
			r.verified = res.RemoteCert == nm.verified
		}
		r.ridx, r.lidx, r.msgidx, r.initiator = uint64(res.RemoteIndex), uint64(res.LocalIndex), res.MessageIndex, res.Initiator
		if res.MyCert != nil {
			r.mycert = w.certOf[res.MyCert]
		}
		if res.EKey != nil && res.DKey != nil && nm.eCS == nil {
			nm.eCS = noiseutil.NewCipherState(res.EKey, res.Cipher)
			nm.dCS = noiseutil.NewCipherState(res.DKey, res.Cipher)
		}
	}
	return o
}

func (nm *nMach) doInit() (o nObs) {
	defer func() {
		if r := recover(); r != nil {
			o = nObs{class: 9}
		}
	}()
	out, err := nm.m.Initiate(nil)
	return nm.observe(out, nil, err)
}

func (nm *nMach) doDeliver(pkt []byte) (o nObs) {
	defer func() {
		if r := recover(); r != nil {
			o = nObs{class: 9}
		}
	}()
	out, res, err := nm.m.ProcessPacket(nil, pkt)
	return nm.observe(out, res, err)
}

// does ciphertext made with a's sending key open with b's receiving key?
func nPairs(a, b *nMach) bool {
	if a.eCS == nil || b.dCS == nil {
		return false
	}
	nb := make([]byte, 12)
	ad := []byte{1, 2, 3, 4}
	pt := []byte("nebula key agreement probe")
	c, err := a.eCS.EncryptDanger(nil, ad, pt, 7, nb)
	if err != nil {
		return false
	}
	got, err := b.dCS.DecryptDanger(nil, ad, c, 7, nb)
	return err == nil && bytes.Equal(got, pt)
}

// ---- packets as byte strings and as model pieces -------------------------------------------------------------

type nWire struct {
	bytes []byte
	lit   string
	desc  string
}

type nScript struct {
	w      *nWorld
	ms     []*nMach
	steps  []string
	descs  []any
	forged []int // steps at which a responder completed on a message 1 no initiator machine sent verbatim (F27)
}

func (s *nScript) body(j int) []byte { return s.ms[j].out[header.Len:] }

func fOut(j, off, ln int) string { return fmt.Sprintf("Noise_corr.FOut %d%%nat %d %d", j, off, ln) }

func nPieces(ps ...string) string {
	var keep []string
	for _, p := range ps {
		if p != "" {
			keep = append(keep, p)
		}
	}
	return "[" + strings.Join(keep, "; ") + "]"
}

func fOutOpt(j, off, ln int) string {
	if ln <= 0 {
		return ""
	}
	return fOut(j, off, ln)
}

func (s *nScript) hdrOf(j int) (st, ri, ctr uint64) {
	var h header.H
	_ = h.Parse(s.ms[j].out)
	return uint64(h.Subtype), uint64(h.RemoteIndex), h.MessageCounter
}

func (s *nScript) mkWire(j int, body []byte, pieces, desc string) nWire {
	st, ri, ctr := s.hdrOf(j)
	b := append(append([]byte(nil), s.ms[j].out[:header.Len]...), body...)
	return nWire{bytes: b, lit: fmt.Sprintf("(Noise_corr.WPkt %d %d %d %s)", st, ri, ctr, pieces), desc: desc}
}

// the cleartext payload of a message 1, as the implementation decodes it
func (s *nScript) describePay(b []byte) string {
	w := s.w
	if len(b) == 0 {
		return ""
	}
	p, err := handshake.UnmarshalPayload(b)
	if err != nil {
		w.junk++
		return fmt.Sprintf("Noise_corr.FJunk %d %d", w.junk, len(b))
	}
	hasCert := len(p.Cert) > 0
	var body, fmtv uint64
	hasKey := false
	if hasCert {
		if bi, ok := w.bodies[string(p.Cert)]; ok {
			body, fmtv, hasKey = bi.id, bi.ver, bi.hasKey
		} else {
			w.unknown++
			body = w.unknown
			switch p.CertVersion {
			case 0, 1:
				fmtv = 1
			case 2:
				fmtv = 2
			}
		}
	}
	return fmt.Sprintf("Noise_corr.FPay (mkPayload %s %d %d %d %s %d %d %d %d %d)", hx.Bool(hasCert), body, fmtv, w.curveN,
		hx.Bool(hasKey), p.InitiatorIndex, p.ResponderIndex, p.Time, p.CertVersion, len(b))
}

func (s *nScript) isMsg1(j int) bool { return s.ms[j].initiator }

// region boundaries of the noise message machine j produced: E [0,e), S [e,sEnd), payload [sEnd, L)
func (s *nScript) regions(j int) (e, sEnd, l int) {
	dl := s.w.dl
	l = len(s.body(j))
	if s.isMsg1(j) {
		return dl, 2 * dl, l
	}
	return dl, 2*dl + 16, l
}

func (s *nScript) wGenuine(j int) nWire {
	b := s.body(j)
	return s.mkWire(j, b, nPieces(fOut(j, 0, len(b))), "genuine")
}

func (s *nScript) wTrunc(j, k int) nWire {
	b := s.body(j)
	_, sEnd, _ := s.regions(j)
	if s.isMsg1(j) && k > sEnd {
		return s.mkWire(j, b[:k], nPieces(fOut(j, 0, sEnd), s.describePay(b[sEnd:k])), fmt.Sprintf("truncate(%d)", k))
	}
	return s.mkWire(j, b[:k], nPieces(fOutOpt(j, 0, k)), fmt.Sprintf("truncate(%d)", k))
}

// flip one bit inside region r (0 = E, 1 = S, 2 = payload, 3 = last 16 bytes of the message)
func (s *nScript) wFlip(c *hx.Ctx, j, r int) nWire {
	w := s.w
	b := append([]byte(nil), s.body(j)...)
	e, sEnd, l := s.regions(j)
	lo, hi := 0, e
	switch r {
	case 1:
		lo, hi = e, sEnd
	case 2:
		lo, hi = sEnd, l
	case 3:
		lo, hi = l-16, l
	}
	pos := lo + c.Intn(hi-lo)
	b[pos] ^= 1 << uint(c.Intn(8))
	name := []string{"E", "S", "payload", "tag"}[r]
	desc := fmt.Sprintf("flip(%s@%d)", name, pos)
	// the field that contains the flipped bit
	flo, fhi := 0, e
	if pos >= sEnd {
		flo, fhi = sEnd, l
	} else if pos >= e {
		flo, fhi = e, sEnd
	}
	if s.isMsg1(j) && flo == sEnd {
		return s.mkWire(j, b, nPieces(fOut(j, 0, sEnd), s.describePay(b[sEnd:])), desc)
	}
	w.junk++
	return s.mkWire(j, b, nPieces(fOutOpt(j, 0, flo), fmt.Sprintf("Noise_corr.FJunk %d %d", w.junk, fhi-flo), fOutOpt(j, fhi, l-fhi)), desc)
}

func (s *nScript) wLowE(j, which int) nWire {
	w := s.w
	b := append([]byte(nil), s.body(j)...)
	copy(b, w.low[which%len(w.low)])
	return s.mkWire(j, b, nPieces(fmt.Sprintf("Noise_corr.FLow %d", which%len(w.low)), fOutOpt(j, w.dl, len(b)-w.dl)),
		fmt.Sprintf("low-order-or-invalid-ephemeral(%d)", which%len(w.low)))
}

// first k bytes of a's message followed by b's message from byte k on
func (s *nScript) wSplice(a, b, k int) nWire {
	ba, bb := s.body(a), s.body(b)
	body := append(append([]byte(nil), ba[:k]...), bb[k:]...)
	return s.mkWire(a, body, nPieces(fOutOpt(a, 0, k), fOutOpt(b, k, len(bb)-k)), fmt.Sprintf("splice(%d:%d@%d)", a, b, k))
}

// message 1 of machine j with its cleartext payload rewritten
func (s *nScript) wRewrite(j int, f func(p *handshake.Payload), desc string) nWire {
	b := s.body(j)
	_, sEnd, _ := s.regions(j)
	p, err := handshake.UnmarshalPayload(b[sEnd:])
	if err != nil {
		panic(err)
	}
	f(&p)
	nb := handshake.MarshalPayload(nil, p)
	body := append(append([]byte(nil), b[:sEnd]...), nb...)
	return s.mkWire(j, body, nPieces(fOut(j, 0, sEnd), s.describePay(nb)), desc)
}

func (s *nScript) wShort(c *hx.Ctx, j int) nWire {
	return nWire{bytes: append([]byte(nil), s.ms[j].out[:c.Intn(header.Len)]...), lit: "Noise_corr.WShort", desc: "shorter-than-header"}
}

func (s *nScript) wSubtype(j int) nWire {
	g := s.wGenuine(j)
	g.bytes[1] = 1
	_, ri, ctr := s.hdrOf(j)
	g.lit = fmt.Sprintf("(Noise_corr.WPkt 1 %d %d %s)", ri, ctr, nPieces(fOut(j, 0, len(s.body(j)))))
	g.desc = "wrong-subtype"
	return g
}

func (s *nScript) wJunk(c *hx.Ctx, j, n int) nWire {
	s.w.junk++
	return s.mkWire(j, c.RandBytes(n), nPieces(fmt.Sprintf("Noise_corr.FJunk %d %d", s.w.junk, n)), fmt.Sprintf("junk(%d)", n))
}

// ---- running a script ----------------------------------------------------------------------------------------

func (s *nScript) add(action string, o nObs, tag string, desc any) {
	s.steps = append(s.steps, fmt.Sprintf("(%s, %s, %s)", action, o.lit(), tag))
	s.descs = append(s.descs, desc)
}

func (s *nScript) init(i int) nObs {
	o := s.ms[i].doInit()
	s.add(fmt.Sprintf("Noise_corr.AInit %d%%nat", i), o, "Noise_corr.TNone", map[string]any{"op": "initiate", "m": i, "obs": o.json()})
	return o
}

// deliverV hands machine i exactly the packet machine j produced
func (s *nScript) deliverV(i, j int) nObs {
	return s.deliver(i, s.wGenuine(j), fmt.Sprintf("(Noise_corr.TVerbatim %d%%nat)", j))
}

func (s *nScript) deliver(i int, wr nWire, tag string) nObs {
	o := s.ms[i].doDeliver(wr.bytes)
	if o.hasRes && !s.ms[i].initiator {
		verbatim := false
		for j, m := range s.ms {
			if m.initiator && m.out != nil && bytes.Equal(m.out, wr.bytes) &&
				(strings.HasPrefix(tag, fmt.Sprintf("(Noise_corr.TVerbatim %d%%nat)", j)) || strings.HasPrefix(tag, fmt.Sprintf("(Noise_corr.TGenuine %d%%nat ", j))) {
				verbatim = true
			}
		}
		if !verbatim {
			s.forged = append(s.forged, len(s.steps))
		}
	}
	s.add(fmt.Sprintf("Noise_corr.ADeliver %d%%nat %s", i, wr.lit), o, tag,
		map[string]any{"op": "deliver", "to": i, "what": wr.desc, "len": len(wr.bytes), "tag": tag, "obs": o.json()})
	return o
}

// what a clean run completes with on machine i when its peer is machine p
func (s *nScript) genuineTag(i, p int) string {
	me, peer := s.ms[i], s.ms[p]
	var pv cert.Version
	if peer.initiator {
		pv = peer.ver
	} else {
		// the responder answers in the initiator's version when it has that version, else in its own
		pv = peer.ver
		if _, ok := peer.id.creds[me.ver]; ok {
			pv = me.ver
		}
	}
	ci := peer.id.creds[pv]
	return fmt.Sprintf("(Noise_corr.TGenuine %d%%nat %d %d %d %d)", p, ci.body, ci.pub, peer.alloc, me.alloc)
}

func (s *nScript) keysLit() (string, [][3]int) {
	var items []string
	var raw [][3]int
	for i, a := range s.ms {
		for j, b := range s.ms {
			if a.eCS == nil || b.dCS == nil {
				continue
			}
			ok := nPairs(a, b)
			items = append(items, fmt.Sprintf("(%d%%nat, %d%%nat, %s)", i, j, hx.Bool(ok)))
			v := 0
			if ok {
				v = 1
			}
			raw = append(raw, [3]int{i, j, v})
		}
	}
	return "[" + strings.Join(items, "; ") + "]", raw
}

func (s *nScript) emit(cw *hx.CaseWriter, kind string, nontrivial bool, honest [][2]int) {
	s.emitAs(cw, "", kind, nontrivial, honest)
}

// emitAs wraps the case literal in a constructor (C05: C5Strict / C5Literal)
func (s *nScript) emitAs(cw *hx.CaseWriter, wrap, kind string, nontrivial bool, honest [][2]int) {
	var specs []string
	for i, m := range s.ms {
		specs = append(specs, m.specLit(i))
	}
	keys, raw := s.keysLit()
	var hs []string
	for _, h := range honest {
		hs = append(hs, fmt.Sprintf("(%d%%nat, %d%%nat)", h[0], h[1]))
	}
	lit := fmt.Sprintf("(Noise_corr.mkCase [%s]\n  [%s]\n  %s [%s])", strings.Join(specs, ";\n   "), strings.Join(s.steps, ";\n   "),
		keys, strings.Join(hs, "; "))
	var who []string
	for _, m := range s.ms {
		role := "resp"
		if m.initiator {
			role = "init"
		}
		who = append(who, fmt.Sprintf("%s/v%d/%s/cipher%d/alloc%d", m.id.name, m.ver, role, m.cipher, m.alloc))
	}
	desc := map[string]any{"curve": s.w.curveN, "machines": who, "steps": s.descs, "keys": raw, "honest": honest}
	if wrap != "" {
		lit = "(" + wrap + " " + lit + ")"
		desc["forged_responder_completions"] = s.forged
		desc["literal_reading"] = wrap == "Noise_corr.C5Literal"
	}
	cw.Add(lit, kind, nontrivial, desc)
}

// caseLit is the bare (Noise_corr.mkCase ...) literal of the script so far (no honest pairs)
func (s *nScript) caseLit() string {
	var specs []string
	for i, m := range s.ms {
		specs = append(specs, m.specLit(i))
	}
	keys, _ := s.keysLit()
	return fmt.Sprintf("(Noise_corr.mkCase [%s]\n  [%s]\n  %s [])", strings.Join(specs, ";\n   "), strings.Join(s.steps, ";\n   "), keys)
}

const nImports = "From NV Require Import lib.Sym model.Noise model.Machine corr.Noise_corr."

func nNonZero(c *hx.Ctx) uint64 {
	for {
		v := c.EdgeU64(32)
		if v != 0 {
			return v
		}
	}
}

var _ = binary.BigEndian

// ---- C07 ---------------------------------------------------------------------------------------------------

// one scenario: a good pair; `bads` are delivered to the target ahead of the genuine message
type nBadGen func(s *nScript, src int) nWire

func noiseC07Scenario(c *hx.Ctx, cw *hx.CaseWriter, w *nWorld, cipher uint64, targetInit bool, kind string, bads []nBadGen) (classes []int) {
	goods := []int{nA, nB, nC, nD}
	ia, ib := goods[c.Intn(4)], goods[c.Intn(4)]
	idI, idR := w.ids[ia], w.ids[ib]
	vI, vR := idI.def, idR.def
	if _, ok := idI.creds[cert.Version2]; ok && c.Chance(0.6) {
		vI = cert.Version2
	}
	if _, ok := idR.creds[cert.Version2]; ok && c.Chance(0.6) {
		vR = cert.Version2
	}
	s := &nScript{w: w}
	s.ms = []*nMach{w.newMach(idI, vI, true, cipher, nNonZero(c), false), w.newMach(idR, vR, false, cipher, nNonZero(c), false)}
	s.init(0)
	usable := true
	if targetInit {
		s.deliver(1, s.wGenuine(0), "Noise_corr.TNone")
		for _, g := range bads {
			o := s.deliver(0, g(s, 1), "Noise_corr.TBad")
			classes = append(classes, o.class)
			if o.class != 0 {
				usable = false
			}
		}
		s.deliver(0, s.wGenuine(1), s.genuineTag(0, 1))
		s.deliver(0, s.wGenuine(1), "Noise_corr.TNone") // and once more: refused either way
	} else {
		for _, g := range bads {
			o := s.deliver(1, g(s, 0), "Noise_corr.TBad")
			classes = append(classes, o.class)
			if o.class != 0 {
				usable = false
			}
		}
		o := s.deliver(1, s.wGenuine(0), s.genuineTag(1, 0))
		if o.hasOut {
			s.deliver(0, s.wGenuine(1), s.genuineTag(0, 1))
		}
		s.deliver(1, s.wGenuine(0), "Noise_corr.TNone")
	}
	s.emit(cw, kind, usable, nil)
	return classes
}

func runNoiseC07(c *hx.Ctx) {
	cw := c.NewCaseWriter(nImports, "Noise_corr.ccase", "Noise_corr.check_c07", 100)
	worlds := []*nWorld{newNoiseWorld(cert.Curve_CURVE25519), newNoiseWorld(cert.Curve_P256)}
	// 1. every truncation length of each message, both roles, both curves and ciphers.  Truncations that leave the
	// machine usable are chained (up to 12 per scenario, "any number of rejected messages"); one that marks the
	// machine failed ends its scenario.  In the reference world (X25519, ChaChaPoly) each length around the field
	// boundaries is its own scenario.  The quick tier thins out the interiors of the two regions in which every cut
	// fails the same way (inside the encrypted static of message 2: ErrShortMessage after `e` was hashed; inside the
	// cleartext payload of message 1: the payload no longer parses); the thorough tier tries every length.
	for wi, w := range worlds {
		for cipher := uint64(0); cipher < 2; cipher++ {
			for _, targetInit := range []bool{true, false} {
				ref := wi == 0 && cipher == 0
				skip := func(k, l int) bool {
					if c.Tier != "quick" || (ref && targetInit) {
						return false
					}
					if targetInit {
						return k > w.dl+2 && k < 2*w.dl+14 && k%3 != 0
					}
					return k > 2*w.dl+4 && k < l-4 && k%6 != 0
				}
				for k := 0; ; {
					chain := 12
					if ref && k >= w.dl-2 && k <= 2*w.dl+18 {
						chain = 1
					}
					n, l := noiseC07Chain(c, cw, w, cipher, targetInit,
						fmt.Sprintf("truncate-sweep/%s/cipher%d/%s", w.curve, cipher, nRole(targetInit)), k, chain, skip)
					k = n
					if k >= l {
						break
					}
				}
			}
		}
	}
	// 2. random manipulations
	for i := 0; i < c.N; i++ {
		w := worlds[c.Intn(2)]
		cipher := uint64(c.Intn(2))
		targetInit := c.Chance(0.6)
		nb := 1 + c.Intn(3)
		var gens []nBadGen
		var names []string
		for b := 0; b < nb; b++ {
			g, name := noiseRandomBad(c, w, targetInit)
			gens = append(gens, g)
			names = append(names, name)
		}
		noiseC07Scenario(c, cw, w, cipher, targetInit, names[0]+"/"+nRole(targetInit), gens)
	}
	cw.Close("script with at least one manipulated packet rejected while Failed() stayed false, followed by the genuine packet")
}

func nRole(targetInit bool) string {
	if targetInit {
		return "initiator-msg2"
	}
	return "responder-msg1"
}

// truncations start, start+1, ... (those not skipped) of the genuine message are delivered ahead of it, until `chain`
// of them were rejected with the machine still usable, one marked it failed, or the whole message length is reached.
// Returns the next length to try and the message length.
func noiseC07Chain(c *hx.Ctx, cw *hx.CaseWriter, w *nWorld, cipher uint64, targetInit bool, kind string, start, chain int, skip func(k, l int) bool) (int, int) {
	goods := []int{nA, nB}
	idI, idR := w.ids[goods[c.Intn(2)]], w.ids[goods[c.Intn(2)]]
	s := &nScript{w: w}
	s.ms = []*nMach{w.newMach(idI, cert.Version2, true, cipher, nNonZero(c), false), w.newMach(idR, cert.Version2, false, cipher, nNonZero(c), false)}
	s.init(0)
	usable := true
	tgt, src := 1, 0
	if targetInit {
		s.deliver(1, s.wGenuine(0), "Noise_corr.TNone")
		tgt, src = 0, 1
	}
	l := len(s.body(src))
	k, fed := start, 0
	for ; k < l && fed < chain && usable; k++ {
		if skip(k, l) {
			continue
		}
		o := s.deliver(tgt, s.wTrunc(src, k), "Noise_corr.TBad")
		fed++
		if o.class != 0 {
			usable = false
		}
	}
	o := s.deliver(tgt, s.wGenuine(src), s.genuineTag(tgt, src))
	if !targetInit && o.hasOut {
		s.deliver(0, s.wGenuine(1), s.genuineTag(0, 1))
	}
	s.deliver(tgt, s.wGenuine(src), "Noise_corr.TNone")
	s.emit(cw, kind, usable, nil)
	return k, l
}

// a manipulated version of the message machine `src` produced
func noiseRandomBad(c *hx.Ctx, w *nWorld, targetInit bool) (nBadGen, string) {
	switch c.Intn(12) {
	case 0:
		return func(s *nScript, src int) nWire { return s.wFlip(c, src, 0) }, "flip-E"
	case 1:
		return func(s *nScript, src int) nWire { return s.wFlip(c, src, 1) }, "flip-S"
	case 2:
		return func(s *nScript, src int) nWire { return s.wFlip(c, src, 2) }, "flip-payload"
	case 3:
		return func(s *nScript, src int) nWire { return s.wFlip(c, src, 3) }, "flip-tag"
	case 4:
		which := c.Intn(8)
		return func(s *nScript, src int) nWire { return s.wLowE(src, which) }, "low-order-ephemeral"
	case 5:
		return func(s *nScript, src int) nWire { return s.wShort(c, src) }, "short-header"
	case 6:
		return func(s *nScript, src int) nWire { return s.wSubtype(src) }, "wrong-subtype"
	case 7:
		return func(s *nScript, src int) nWire {
			e, sEnd, l := s.regions(src)
			ks := []int{0, 1, e - 1, e, e + 1, e + 8, sEnd - 1, sEnd, sEnd + 1, l - 17, l - 16, l - 1}
			return s.wTrunc(src, ks[c.Intn(len(ks))])
		}, "truncate-boundary"
	case 8:
		return func(s *nScript, src int) nWire { return s.wJunk(c, src, c.Intn(2*len(s.body(src)))) }, "junk"
	case 9:
		// a message of the same kind from an older session between other machines of the same identities: replay-old
		return func(s *nScript, src int) nWire { return noiseOldSession(c, s, src, false) }, "replay-old-session"
	case 10:
		// cross-session splice: the other session's message up to a region boundary, then this session's
		return func(s *nScript, src int) nWire { return noiseOldSession(c, s, src, true) }, "cross-session-splice"
	default:
		if targetInit {
			return func(s *nScript, src int) nWire { return s.wGenuine(1 - src) }, "reflect-own-message"
		}
		return func(s *nScript, src int) nWire {
			// message 1 with the certificate of another identity (cleartext, so anybody can do that)
			other := s.w.ids[[]int{nA, nB, nU, nX, nK, nC}[c.Intn(6)]].creds[cert.Version2]
			if c.Chance(0.2) {
				return s.wRewrite(src, func(p *handshake.Payload) { p.Cert = s.w.fullA }, "cert-with-public-key")
			}
			if c.Chance(0.2) {
				return s.wRewrite(src, func(p *handshake.Payload) { p.InitiatorIndex = 0 }, "zero-initiator-index")
			}
			return s.wRewrite(src, func(p *handshake.Payload) { p.Cert, p.CertVersion = other.bytes, 2 }, "swap-cert")
		}, "swap-cert"
	}
}

// runs a second session between fresh machines of the same identities, appended to the script's machine list, and
// returns its message of the same kind as src's (replay) or a splice of it with src's message
func noiseOldSession(c *hx.Ctx, s *nScript, src int, splice bool) nWire {
	w := s.w
	if len(s.ms) < 2 {
		return s.wJunk(c, src, 64)
	}
	i0 := len(s.ms)
	a, b := s.ms[0], s.ms[1]
	s.ms = append(s.ms, w.newMach(a.id, a.ver, true, a.cipher, nNonZero(c), false), w.newMach(b.id, b.ver, false, b.cipher, nNonZero(c), false))
	s.init(i0)
	other := i0
	if !s.isMsg1(src) {
		s.deliver(i0+1, s.wGenuine(i0), "Noise_corr.TNone")
		other = i0 + 1
	}
	if s.ms[other].out == nil {
		return s.wShort(c, src)
	}
	if !splice {
		return s.wGenuine(other)
	}
	e, sEnd, _ := s.regions(src)
	k := []int{e, sEnd, e / 2}[c.Intn(3)]
	if k > len(s.body(other)) || k > len(s.body(src)) {
		k = e
	}
	if c.Chance(0.5) {
		return s.wSplice(other, src, k)
	}
	return s.wSplice(src, other, k)
}

// ---- C06 ---------------------------------------------------------------------------------------------------

func noiseHonest(c *hx.Ctx, s *nScript, idI, idR *nIdent, vI, vR cert.Version, cipher uint64) (int, int, bool) {
	w := s.w
	i := len(s.ms)
	s.ms = append(s.ms, w.newMach(idI, vI, true, cipher, nNonZero(c), false), w.newMach(idR, vR, false, cipher, nNonZero(c), false))
	s.init(i)
	o1 := s.deliver(i+1, s.wGenuine(i), s.genuineTag(i+1, i))
	if !o1.hasOut {
		return i, i + 1, false
	}
	o2 := s.deliver(i, s.wGenuine(i+1), s.genuineTag(i, i+1))
	return i, i + 1, o1.hasRes && o2.hasRes
}

func runNoiseC06(c *hx.Ctx) {
	cw := c.NewCaseWriter(nImports, "Noise_corr.ccase", "Noise_corr.check_c06", 40)
	worlds := []*nWorld{newNoiseWorld(cert.Curve_CURVE25519), newNoiseWorld(cert.Curve_P256)}
	type vc struct {
		id int
		v  cert.Version
	}
	// every way a good identity can be configured: A defaulting to v1 or v2 (holds both), C (v2 only), D (v1 only)
	opts := []vc{{nA, cert.Version1}, {nA, cert.Version2}, {nC, cert.Version2}, {nD, cert.Version1}}
	ropts := []vc{{nB, cert.Version1}, {nB, cert.Version2}, {nC, cert.Version2}, {nD, cert.Version1}}
	one := func(w *nWorld, cipher uint64, a, b vc, kind string) {
		s := &nScript{w: w}
		i, r, ok := noiseHonest(c, s, w.ids[a.id], w.ids[b.id], a.v, b.v, cipher)
		honest := [][2]int{}
		if ok {
			honest = append(honest, [2]int{i, r})
		}
		// a second, concurrent session (a third party for the key pairing): other identities, or the very same
		x, y := opts[c.Intn(len(opts))], ropts[c.Intn(len(ropts))]
		if c.Chance(0.3) {
			x, y = a, b
		}
		i2, r2, ok2 := noiseHonest(c, s, w.ids[x.id], w.ids[y.id], x.v, y.v, cipher)
		if ok2 {
			honest = append(honest, [2]int{i2, r2})
		}
		s.emit(cw, kind, ok && ok2, honest)
	}
	for _, w := range worlds {
		for cipher := uint64(0); cipher < 2; cipher++ {
			for _, a := range opts {
				for _, b := range ropts {
					one(w, cipher, a, b, fmt.Sprintf("matrix/%s/cipher%d/I=%s.v%d/R=%s.v%d", w.curve, cipher, w.ids[a.id].name, a.v, w.ids[b.id].name, b.v))
				}
			}
		}
	}
	// several machines of ONE node on ONE shared credential set, two of them interleaved inside the window between
	// marshalOutgoing and the use of its result in noise WriteMessage (forced through a hooked DH function), then a
	// free-running concurrent variant
	for _, w := range worlds {
		for cipher := uint64(0); cipher < 2; cipher++ {
			for _, initRole := range []bool{true, false} {
				noiseSharedCred(c, cw, w, cipher, initRole, 2, true)
				noiseSharedCred(c, cw, w, cipher, initRole, 3+c.Intn(3), true)
			}
		}
	}
	stress := 6 + c.N/10
	for i := 0; i < stress; i++ {
		noiseSharedCred(c, cw, worlds[i%2], uint64((i/2)%2), i%4 < 2, 4+c.Intn(5), false)
	}
	for i := 0; i < c.N; i++ {
		w := worlds[c.Intn(2)]
		one(w, uint64(c.Intn(2)), opts[c.Intn(len(opts))], ropts[c.Intn(len(ropts))], "random-honest")
	}
	cw.Close("two concurrent unmodified IX exchanges, both completing on both sides")
}

// ---- C05 ---------------------------------------------------------------------------------------------------

const nF27 = "ix-responder-unauthenticated-msg1"

// emits the script for C05: always against what is proved (C5Strict); if a responder completed on a message 1 that no
// initiator sent verbatim, additionally against the literal reading of the property (C5Literal), where it is the known
// finding F27.  At most `*budget` such shadow cases are written.
func noiseEmitC05(cw *hx.CaseWriter, s *nScript, kind string, nontrivial bool, budget *int) {
	s.emitAs(cw, "Noise_corr.C5Strict", kind, nontrivial, nil)
	if len(s.forged) > 0 && *budget > 0 {
		*budget--
		s.emitAs(cw, "Noise_corr.C5Literal", nF27, true, nil)
	}
}

func runNoiseC05(c *hx.Ctx) {
	cw := c.NewCaseWriter(nImports, "Noise_corr.c05case", "Noise_corr.check_c05", 60)
	worlds := []*nWorld{newNoiseWorld(cert.Curve_CURVE25519), newNoiseWorld(cert.Curve_P256)}
	budget := 24
	// 0. the witnesses of finding F27 first: a fresh responder completes "with A" on (a) A's genuine message 1 whose
	// cleartext Time was altered by one bit, (b) A's message 1 carrying the payload of another session of A; A itself
	// never completes (it refuses the answer).
	for _, w := range worlds {
		for variant := 0; variant < 2; variant++ {
			s := &nScript{w: w}
			s.ms = []*nMach{w.newMach(w.ids[nA], cert.Version2, true, 0, nNonZero(c), false), w.newMach(w.ids[nB], cert.Version2, false, 0, nNonZero(c), false)}
			s.init(0)
			var wr nWire
			if variant == 0 {
				wr = s.wRewrite(0, func(p *handshake.Payload) { p.Time ^= 1 << uint(c.Intn(20)) }, "time-bit-flipped")
			} else {
				s.ms = append(s.ms, w.newMach(w.ids[nA], cert.Version2, true, 0, nNonZero(c), false))
				s.init(2)
				_, sEnd, _ := s.regions(0)
				wr = s.wSplice(0, 2, sEnd) // E and S of session 0, payload of session 2: needs describePay, so rebuild
				b := append(append([]byte(nil), s.body(0)[:sEnd]...), s.body(2)[sEnd:]...)
				wr = s.mkWire(0, b, nPieces(fOut(0, 0, sEnd), s.describePay(b[sEnd:])), "payload-of-another-session")
			}
			o := s.deliver(1, wr, "Noise_corr.TNone")
			if o.hasOut {
				s.deliverV(0, 1)
			}
			noiseEmitC05(cw, s, "witness/"+wr.desc, o.hasRes, &budget)
		}
	}
	// 1. every identity against a good peer, in both roles, both curves
	for _, w := range worlds {
		for idn := range w.ids {
			for _, asInit := range []bool{true, false} {
				s := &nScript{w: w}
				id := w.ids[idn]
				var a, b *nIdent = id, w.ids[nB]
				if !asInit {
					a, b = w.ids[nB], id
				}
				_, _, ok := noiseHonest(c, s, a, b, a.def, b.def, 0)
				noiseEmitC05(cw, s, fmt.Sprintf("identity/%s/%s/asInitiator=%v", w.curve, id.name, asInit), ok, &budget)
			}
		}
	}
	// 2. adversary scripts over several sessions with arbitrary identities
	for n := 0; n < c.N; n++ {
		w := worlds[c.Intn(2)]
		s := &nScript{w: w}
		nsess := 1 + c.Intn(2)
		pick := func() (*nIdent, cert.Version) {
			var id *nIdent
			if c.Chance(0.55) {
				id = w.ids[[]int{nA, nB, nC, nD}[c.Intn(4)]]
			} else {
				id = w.ids[c.Intn(len(w.ids))]
			}
			v := id.def
			if _, ok := id.creds[cert.Version2]; ok && c.Chance(0.5) {
				v = cert.Version2
			}
			return id, v
		}
		for k := 0; k < nsess; k++ {
			idI, vI := pick()
			idR, vR := pick()
			ci := uint64(c.Intn(2))
			cr := ci
			if c.Chance(0.08) {
				cr = 1 - ci // cipher suites that do not match
			}
			ai, ar := nNonZero(c), nNonZero(c)
			if c.Chance(0.05) {
				ai = 0
			}
			if c.Chance(0.05) {
				ar = 0
			}
			s.ms = append(s.ms, w.newMach(idI, vI, true, ci, ai, c.Chance(0.03)), w.newMach(idR, vR, false, cr, ar, c.Chance(0.03)))
		}
		for k := 0; k < nsess; k++ {
			s.init(2 * k)
		}
		nsteps := 2 + c.Intn(6)
		for st := 0; st < nsteps; st++ {
			// choose a machine that has produced a packet, and a recipient
			var srcs []int
			for j, m := range s.ms {
				if m.out != nil {
					srcs = append(srcs, j)
				}
			}
			if len(srcs) == 0 {
				break
			}
			src := srcs[c.Intn(len(srcs))]
			// the natural recipient is the peer of the same session; sometimes somebody else
			dst := src ^ 1
			if c.Chance(0.2) {
				dst = c.Intn(len(s.ms))
			}
			var wr nWire
			verbatim := false
			switch r := c.Intn(20); {
			case r < 9:
				verbatim = true
			case r < 11:
				wr = s.wTrunc(src, c.Intn(len(s.body(src))+1))
			case r < 13:
				wr = s.wFlip(c, src, c.Intn(4))
			case r < 14:
				wr = s.wLowE(src, c.Intn(8))
			case r < 16 && len(srcs) > 1:
				o := srcs[c.Intn(len(srcs))]
				if s.isMsg1(o) == s.isMsg1(src) && o != src {
					e, sEnd, _ := s.regions(src)
					k := []int{e, sEnd}[c.Intn(2)]
					if !s.isMsg1(src) && c.Chance(0.5) {
						k = c.Intn(min(len(s.body(src)), len(s.body(o))))
					}
					if s.isMsg1(src) && k == sEnd {
						b := append(append([]byte(nil), s.body(src)[:sEnd]...), s.body(o)[sEnd:]...)
						wr = s.mkWire(src, b, nPieces(fOut(src, 0, sEnd), s.describePay(b[sEnd:])), fmt.Sprintf("splice-payload(%d:%d)", src, o))
					} else {
						wr = s.wSplice(src, o, k)
					}
				} else {
					verbatim = true
				}
			case r < 18 && s.isMsg1(src):
				other := w.ids[c.Intn(len(w.ids))]
				ci := other.creds[other.def]
				switch c.Intn(6) {
				case 0:
					wr = s.wRewrite(src, func(p *handshake.Payload) { p.Cert = w.fullA }, "cert-with-public-key")
				case 1:
					wr = s.wRewrite(src, func(p *handshake.Payload) { p.CertVersion = 3 - p.CertVersion }, "wrong-cert-version")
				case 2:
					wr = s.wRewrite(src, func(p *handshake.Payload) { p.Cert = nil }, "no-cert")
				case 3:
					wr = s.wRewrite(src, func(p *handshake.Payload) { p.Time ^= 1 << uint(c.Intn(20)) }, "time-bit-flipped")
				default:
					wr = s.wRewrite(src, func(p *handshake.Payload) { p.Cert, p.CertVersion = ci.bytes, uint32(ci.ver) }, "swap-cert("+other.name+")")
				}
			case r < 19:
				wr = s.wSubtype(src)
			default:
				wr = s.wShort(c, src)
			}
			if verbatim || wr.bytes == nil {
				s.deliverV(dst, src)
			} else {
				s.deliver(dst, wr, "Noise_corr.TNone")
			}
		}
		completed := false
		for _, m := range s.ms {
			if m.res != nil {
				completed = true
			}
		}
		kind := "adversary"
		if completed {
			kind = "adversary/some-completion"
		}
		noiseEmitC05(cw, s, kind, completed, &budget)
	}
	cw.Close("adversary script in which at least one machine completed")
}

// ---- C05 through the HandshakeManager ------------------------------------------------------------------------

// a machine that lives inside the node's HandshakeManager: only what the manager lets out is observed
func (s *nScript) mgrMach(initiator bool, dv cert.Version, cipher uint64) int {
	s.ms = append(s.ms, &nMach{w: s.w, id: s.w.ids[nN], initiator: initiator, ver: dv, cipher: cipher, now: 1})
	return len(s.ms) - 1
}

func (s *nScript) mgrObs(q int, reply []byte, tun *nebula.VerifNMTunnel, peerStatic []byte) nObs {
	w, nm := s.w, s.ms[q]
	var o nObs
	o.class = 7
	if reply != nil {
		nm.out = append([]byte(nil), reply...)
		var h header.H
		if e := h.Parse(reply); e != nil {
			panic(e)
		}
		o.hasOut = true
		o.out = [4]uint64{uint64(h.Subtype), uint64(h.RemoteIndex), h.MessageCounter, uint64(len(reply) - header.Len)}
		nm.paylen = len(reply) - header.Len - 2*w.dl - 32
	}
	if tun != nil {
		o.class = 2
		o.hasRes = true
		r := &o.res
		if tun.PeerCert != nil {
			cc := tun.PeerCert.Certificate
			if hb, e := cc.MarshalForHandshakes(); e == nil {
				r.body = w.bodies[string(hb)].id
			}
			r.key = w.keys[string(cc.PublicKey())]
			r.keyStatic = bytes.Equal(cc.PublicKey(), peerStatic)
			// an independent, full trust check (signature over the details including the public key, CA, validity, blocklist)
			_, err := w.pool.VerifyCertificate(time.Now(), cc)
			r.verified = err == nil
		}
		r.ridx, r.lidx, r.msgidx, r.initiator = uint64(tun.RemoteIndex), uint64(tun.LocalIndex), tun.Counter, tun.Initiator
		if tun.MyCert != nil {
			r.mycert = w.certOf[tun.MyCert]
		}
		nm.alloc = uint64(tun.LocalIndex)
		nm.eCS, nm.dCS = tun.EKey, tun.DKey
		nm.res = &handshake.Result{}
	} else if reply != nil {
		o.class = 2
	}
	return o
}

// hands the packet of machine src (possibly a peer's real Machine) to the node; q is the node-side machine it is for
func (s *nScript) mgrDeliver(node *nebula.VerifNMNode, q, src int, peerStatic []byte) nObs {
	wr := s.wGenuine(src)
	reply, tun := node.Incoming(wr.bytes, 1+src%200)
	o := s.mgrObs(q, reply, tun, peerStatic)
	tag := fmt.Sprintf("(Noise_corr.TVerbatim %d%%nat)", src)
	s.add(fmt.Sprintf("Noise_corr.ADeliver %d%%nat %s", q, wr.lit), o, tag,
		map[string]any{"op": "deliver-to-node", "to": q, "from": src, "who": s.ms[src].id.name, "obs": o.json()})
	return o
}

func runNoiseMgr(c *hx.Ctx) {
	cw := c.NewCaseWriter(nImports, "Noise_corr.c05case", "Noise_corr.check_c05", 40)
	worlds := []*nWorld{newNoiseWorld(cert.Curve_CURVE25519), newNoiseWorld(cert.Curve_P256)}
	ciphers := []string{"chachapoly", "aes"}
	for n := 0; n < c.N; n++ {
		w := worlds[n%2]
		cipher := uint64((n / 2) % 2)
		idN := w.ids[nN]
		dv := cert.Version2
		node := nebula.VerifNMNew(w.pool, dv, idN.creds[cert.Version1].cert, idN.creds[cert.Version2].cert, w.curve, idN.creds[cert.Version2].priv, ciphers[cipher])
		s := &nScript{w: w}
		victim := w.ids[nA]
		victimAddr := netip.MustParseAddr("10.0.0.1")
		staticOf := func(m *nMach) []byte { return m.id.creds[m.ver].cert.PublicKey() }
		// a handshake of `id` as initiator towards the node
		inbound := func(id *nIdent, v cert.Version) bool {
			p := len(s.ms)
			s.ms = append(s.ms, w.newMach(id, v, true, cipher, nNonZero(c), false))
			q := s.mgrMach(false, dv, cipher)
			s.init(p)
			o := s.mgrDeliver(node, q, p, staticOf(s.ms[p]))
			if o.hasOut {
				s.deliverV(p, q)
			}
			return o.hasRes
		}
		// a handshake the node starts towards addr, answered by a machine of identity `id`
		outbound := func(addr netip.Addr, id *nIdent, v cert.Version) bool {
			q := s.mgrMach(true, dv, cipher)
			stage0 := node.Start(addr, 7)
			var o nObs
			if stage0 == nil {
				o.class = 7
				s.add(fmt.Sprintf("Noise_corr.AInit %d%%nat", q), o, "Noise_corr.TNone", map[string]any{"op": "node-start", "obs": o.json()})
				return false
			}
			nm := s.ms[q]
			nm.out = append([]byte(nil), stage0...)
			var h header.H
			_ = h.Parse(stage0)
			o.class, o.hasOut = 2, true
			o.out = [4]uint64{uint64(h.Subtype), uint64(h.RemoteIndex), h.MessageCounter, uint64(len(stage0) - header.Len)}
			nm.paylen = len(stage0) - header.Len - 2*w.dl
			if pl, e := handshake.UnmarshalPayload(stage0[header.Len+2*w.dl:]); e == nil {
				nm.now, nm.alloc = pl.Time, uint64(pl.InitiatorIndex)
			}
			s.add(fmt.Sprintf("Noise_corr.AInit %d%%nat", q), o, "Noise_corr.TNone", map[string]any{"op": "node-start", "to": addr.String(), "obs": o.json()})
			r := len(s.ms)
			s.ms = append(s.ms, w.newMach(id, v, false, cipher, nNonZero(c), false))
			or := s.deliverV(r, q)
			done := false
			if or.hasOut {
				done = s.mgrDeliver(node, q, r, staticOf(s.ms[r])).hasRes
			}
			node.Abandon(addr)
			return done
		}
		established := n%5 != 4 // mostly: first a genuine tunnel with the victim, so that the hostmap caches its certificate
		if established {
			if c.Chance(0.5) {
				inbound(victim, cert.Version2)
			} else {
				outbound(victimAddr, victim, cert.Version2)
			}
		}
		type who struct {
			id  int
			v   cert.Version
			out bool
		}
		plan := []who{{nM, cert.Version2, false}, {nM, cert.Version2, true}, {nS, cert.Version2, false}, {nS, cert.Version2, true},
			{nX, cert.Version2, false}, {nK, cert.Version2, false}, {nU, cert.Version2, false}, {nA, cert.Version2, false}, {nA, cert.Version2, true},
			{nA, cert.Version1, false}, {nB, cert.Version2, false}, {nX, cert.Version2, true}, {nK, cert.Version2, true}, {nU, cert.Version2, true}}
		c.Rng.Shuffle(len(plan), func(i, j int) { plan[i], plan[j] = plan[j], plan[i] })
		completions := 0
		for _, pl := range plan[:3+c.Intn(5)] {
			id := w.ids[pl.id]
			var ok bool
			if pl.out {
				// the node dials the address the presented certificate is for
				addr := netip.MustParseAddr(fmt.Sprintf("10.0.0.%d", map[int]int{nM: 1, nS: 1, nA: 1, nX: 4, nK: 5, nU: 3}[pl.id]))
				ok = outbound(addr, id, pl.v)
			} else {
				ok = inbound(id, pl.v)
			}
			if ok {
				completions++
			}
		}
		kind := "mgr/fresh"
		if established {
			kind = "mgr/victim-tunnel-established-first"
		}
		s.emitAs(cw, "Noise_corr.C5Strict", kind, completions > 0, nil)
	}
	cw.Close("history through the real HandshakeManager in which the node completed at least one of the later handshakes")
}

// ---- C06: one node, one shared credential, interleaved handshakes -------------------------------------------

// nHookDH wraps the real DH function of the cipher suite stored in a credential: the first GenerateKeypair call after
// arm() signals `entered` and waits for `release`.  In WriteMessage GenerateKeypair runs after marshalOutgoing has
// returned the payload and before the payload is used, which is exactly the window to interleave in.
type nHookDH struct {
	noise.DHFunc
	mu      sync.Mutex
	armed   bool
	entered chan struct{}
	release chan struct{}
}

func (h *nHookDH) arm() {
	h.mu.Lock()
	h.armed, h.entered, h.release = true, make(chan struct{}), make(chan struct{})
	h.mu.Unlock()
}

func (h *nHookDH) GenerateKeypair(rng io.Reader) (noise.DHKey, error) {
	h.mu.Lock()
	gate := h.armed
	h.armed = false
	entered, release := h.entered, h.release
	h.mu.Unlock()
	if gate {
		close(entered)
		select {
		case <-release:
		case <-time.After(5 * time.Second):
		}
	}
	return h.DHFunc.GenerateKeypair(rng)
}

// k handshakes of one node (identity A as initiator, or B as responder) whose machines share one credential set.
// gated: machine 0 is held inside WriteMessage while machines 1.. run to completion of their step, then released.
// Otherwise all k run their step concurrently without any gate.
func noiseSharedCred(c *hx.Ctx, cw *hx.CaseWriter, w *nWorld, cipher uint64, initRole bool, k int, gated bool) {
	hook := &nHookDH{DHFunc: w.dh}
	var cf noise.CipherFunc = noise.CipherChaChaPoly
	if cipher == 1 {
		cf = noiseutil.CipherAESGCM
	}
	suite := noise.NewCipherSuite(hook, cf, noise.HashSHA256)
	s := &nScript{w: w}
	peers := []int{nB, nC, nD, nA}
	var node *nIdent
	if initRole {
		node = w.ids[nA]
	} else {
		node = w.ids[nB]
		peers = []int{nA, nC, nD}
	}
	shared := w.nodeCreds(node, suite)
	ver := cert.Version2
	// machines 0..k-1: the node's; k..2k-1: one peer each (own credentials)
	for i := 0; i < k; i++ {
		s.ms = append(s.ms, w.newMachShared(node, ver, initRole, cipher, nNonZero(c), false, shared))
	}
	for i := 0; i < k; i++ {
		pid := w.ids[peers[c.Intn(len(peers))]]
		pv := pid.def
		if gated {
			// all handshakes of the gated run go through the same one of the node's credentials (version 2)
			for pid.creds[cert.Version2] == nil {
				pid = w.ids[peers[c.Intn(len(peers))]]
			}
			pv = cert.Version2
		}
		s.ms = append(s.ms, w.newMach(pid, pv, !initRole, cipher, nNonZero(c), false))
	}
	// the concurrent step of the node's machines: Initiate, or ProcessPacket of the peer's message 1
	var wires []nWire
	if !initRole {
		for i := 0; i < k; i++ {
			s.init(k + i)
		}
		for i := 0; i < k; i++ {
			wires = append(wires, s.wGenuine(k+i))
		}
	}
	obs := make([]nObs, k)
	step := func(i int) {
		if initRole {
			obs[i] = s.ms[i].doInit()
		} else {
			obs[i] = s.ms[i].doDeliver(wires[i].bytes)
		}
	}
	var wg sync.WaitGroup
	if gated {
		hook.arm()
		wg.Add(1)
		go func() { defer wg.Done(); step(0) }()
		select {
		case <-hook.entered:
		case <-time.After(5 * time.Second):
		}
		for i := 1; i < k; i++ {
			step(i)
		}
		close(hook.release)
		wg.Wait()
	} else {
		start := make(chan struct{})
		for i := 0; i < k; i++ {
			wg.Add(1)
			go func(i int) { defer wg.Done(); <-start; step(i) }(i)
		}
		close(start)
		wg.Wait()
	}
	for i := 0; i < k; i++ {
		if initRole {
			s.add(fmt.Sprintf("Noise_corr.AInit %d%%nat", i), obs[i], "Noise_corr.TNone", map[string]any{"op": "initiate", "m": i, "obs": obs[i].json()})
		} else {
			s.add(fmt.Sprintf("Noise_corr.ADeliver %d%%nat %s", i, wires[i].lit), obs[i], s.genuineTag(i, k+i),
				map[string]any{"op": "deliver", "to": i, "what": "genuine", "obs": obs[i].json()})
		}
	}
	// the rest of every exchange, one after the other
	var honest [][2]int
	all := true
	for i := 0; i < k; i++ {
		if initRole {
			o1 := s.deliver(k+i, s.wGenuine(i), s.genuineTag(k+i, i))
			ok := false
			if o1.hasOut {
				ok = s.deliver(i, s.wGenuine(k+i), s.genuineTag(i, k+i)).hasRes && o1.hasRes
			}
			if ok {
				honest = append(honest, [2]int{i, k + i})
			}
			all = all && ok
		} else {
			ok := false
			if obs[i].hasOut {
				ok = s.deliver(k+i, s.wGenuine(i), s.genuineTag(k+i, i)).hasRes && obs[i].hasRes
			}
			if ok {
				honest = append(honest, [2]int{k + i, i})
			}
			all = all && ok
		}
	}
	mode := "gated"
	if !gated {
		mode = "free-running"
	}
	role := "responders"
	if initRole {
		role = "initiators"
	}
	// every exchange must complete: an exchange that did not is reported as a pair without results (spec_c06 refuses it)
	if !all {
		for i := 0; i < k; i++ {
			pair := [2]int{i, k + i}
			if !initRole {
				pair = [2]int{k + i, i}
			}
			found := false
			for _, h := range honest {
				if h == pair {
					found = true
				}
			}
			if !found {
				honest = append(honest, pair)
			}
		}
	}
	s.emit(cw, fmt.Sprintf("shared-credential/%s/%d-%s/%s/cipher%d", mode, k, role, w.curve, cipher), all, honest)
}

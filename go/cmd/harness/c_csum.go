//go:build comp_all || comp_csum

package main

import (
	"encoding/hex"
	"fmt"
	"strings"
	"unsafe"

	"github.com/slackhq/nebula/overlay/checksum"
	"verifharness/hx"
)

func init() { hx.Register("csum", runCsum) }

const (
	csumMaxLen   = 9216 // longest buffer generated (jumbo frame); the systematic sweep covers 0..4096
	csumPatSize  = csumMaxLen + 64 // patterned backing arrays (regenerated in Coq from the rule)
	csumPoolSize = 4096 + 64       // random pools (printed as literals into every shard)
	csumNPat     = 8
)

// csumAligned returns a slice of n bytes whose first byte sits on a 64-byte boundary.
func csumAligned(n int) []byte {
	raw := make([]byte, n+64)
	off := int((64 - uintptr(unsafe.Pointer(&raw[0]))&63) & 63)
	return raw[off : off+n : off+n]
}

// csumPatByte mirrors Csum_corr.pat_byte.
func csumPatByte(pat, i int) byte {
	switch pat {
	case 0:
		return 0xff
	case 1:
		return 0
	case 2:
		if i%2 == 0 {
			return 0xff
		}
		return 0
	case 3:
		return byte(255 - i%256)
	case 4:
		if i%2 == 0 {
			return 0
		}
		return 0xff
	case 5:
		return byte(i % 256)
	case 6:
		if i%4 < 2 {
			return 0xff
		}
		return 0
	default:
		if i%64 == 63 {
			return 0xfe
		}
		return 0xff
	}
}

func runCsum(c *hx.Ctx) {
	accName, accOK, accFn := checksum.VerifAccel()

	// backing arrays, all 64-byte aligned: two random pools (printed once into every shard) and the patterns
	pools := [][]byte{csumAligned(csumPoolSize), csumAligned(csumPoolSize)}
	for i := range pools[0] {
		pools[0][i] = byte(c.Rng.UintN(256))
	}
	for i := range pools[1] { // carry heavy: mostly 0xff, with 0xfe/0x00/0x01 and random bytes sprinkled in
		switch r := c.Intn(20); {
		case r < 13:
			pools[1][i] = 0xff
		case r < 15:
			pools[1][i] = 0xfe
		case r < 16:
			pools[1][i] = 0x00
		case r < 17:
			pools[1][i] = 0x01
		default:
			pools[1][i] = byte(c.Rng.UintN(256))
		}
	}
	pats := make([][]byte, csumNPat)
	for p := range pats {
		pats[p] = csumAligned(csumPatSize)
		for i := range pats[p] {
			pats[p][i] = csumPatByte(p, i)
		}
	}
	scratch := csumAligned(csumPatSize)

	var imp strings.Builder
	imp.WriteString("From NV Require Import corr.Csum_corr.\n")
	fmt.Fprintf(&imp, "Definition csum_pools : list (list N) := [%s;\n %s].", hx.Bytes(pools[0]), hx.Bytes(pools[1]))
	cw := c.NewCaseWriter(imp.String(), "Csum_corr.case", "(Csum_corr.check_case csum_pools)", 1200)

	seeds := []uint16{0, 1, 0xffff, 0x8000, 0xfffe, 0x00ff, 0xff00, 0x7fff}
	pickSeed := func() uint16 {
		if c.Chance(0.75) {
			return seeds[c.Intn(len(seeds))]
		}
		return uint16(c.EdgeU64(16))
	}
	var harnessFailures []map[string]any

	// one case: kind 0..7 = pattern, 8/9 = pool 0/1, 10 = fresh random literal
	emit := func(kind, off, length int, seed uint16, label string) {
		var buf []byte
		var src, srcName string
		switch {
		case kind < csumNPat:
			buf = pats[kind][off : off+length]
			src = hx.App("Csum_corr.SPat", hx.N(uint64(kind)), hx.N(uint64(off)), hx.N(uint64(length)))
			srcName = fmt.Sprintf("pat%d", kind)
		case kind < csumNPat+2:
			k := kind - csumNPat
			buf = pools[k][off : off+length]
			src = hx.App("Csum_corr.SPool", hx.N(uint64(k)), hx.N(uint64(off)), hx.N(uint64(length)))
			srcName = fmt.Sprintf("pool%d", k)
		default:
			buf = scratch[off : off+length]
			for i := range buf {
				buf[i] = byte(c.Rng.UintN(256))
			}
			src = hx.App("Csum_corr.SLit", hx.Bytes(buf))
			srcName = "lit"
		}
		addr8 := uint64(uintptr(unsafe.Pointer(unsafe.SliceData(buf))) & 7)
		obs := checksum.Checksum(buf, seed)
		obsg := checksum.VerifChecksumGeneric(buf, seed)
		obsa := hx.None()
		desc := map[string]any{"src": srcName, "off": off, "len": length, "seed": seed, "checksum": obs, "generic": obsg}
		if accOK {
			a := accFn(buf, seed)
			obsa = hx.Some(hx.N(uint64(a)))
			desc[accName] = a
		}
		if length <= 128 || srcName == "lit" {
			desc["hex"] = hex.EncodeToString(buf)
		}
		// the routines must not write to the buffer
		if kind < csumNPat {
			for i := range buf {
				if buf[i] != csumPatByte(kind, off+i) {
					harnessFailures = append(harnessFailures, map[string]any{"i": cw.Total(), "code": 2})
					pats[kind][off+i] = csumPatByte(kind, off+i)
				}
			}
		}
		chkGv := length <= 512 || c.Intn(8) == 0
		lit := hx.App("Csum_corr.Case", src, hx.N(uint64(seed)), hx.N(addr8), hx.N(uint64(obs)), hx.N(uint64(obsg)), obsa, hx.Bool(chkGv))
		cw.Add(lit, label+"/"+srcName, length >= 32, desc)
	}
	pickKind := func() int {
		switch r := c.Intn(10); {
		case r < 5:
			return c.Intn(csumNPat)
		case r < 7:
			return csumNPat
		default:
			return csumNPat + 1
		}
	}

	quick := c.Tier != "thorough"
	// sweep A: every length 0..4096 (thorough: at 8 start offsets each)
	reps := 1
	if !quick {
		reps = 8
	}
	for i := 0; i <= 4096; i++ {
		length := i / 2 // 0, 4096, 1, 4095, ...: long and short buffers alternate so that shards cost the same
		if i%2 == 1 {
			length = 4096 - i/2
		}
		for r := 0; r < reps; r++ {
			emit(pickKind(), c.Intn(64), length, pickSeed(), "len-sweep")
		}
	}
	// sweep B: short lengths (all tail combinations, one to three vector trips) at start offsets 0..63
	for length := 0; length <= 160; length++ {
		for j := 0; j < 64; j++ {
			if quick && j%4 != length%4 {
				continue
			}
			emit(pickKind(), j, length, pickSeed(), "align-sweep")
		}
	}
	// sweep C: the all-zero / all-ones representatives: every seed of the list on zero and 0xff buffers
	for _, length := range []int{0, 1, 2, 7, 8, 31, 32, 33, 64, 65, 127, 1500} {
		for _, s := range seeds {
			emit(1, c.Intn(64), length, s, "zero-rep")
			emit(0, c.Intn(64), length, s, "ones-rep")
		}
	}
	// random cases
	for i := 0; i < c.N; i++ {
		var length int
		switch r := c.Intn(10); {
		case r < 5:
			length = c.Intn(200)
		case r < 8:
			length = c.Intn(1601)
		case r < 9:
			length = c.Intn(4097)
		default:
			length = c.Intn(csumMaxLen + 1)
		}
		kind := pickKind()
		if c.Intn(6) == 0 {
			kind = csumNPat + 2
			if length > 600 {
				length = c.Intn(601)
			}
		}
		size := csumPatSize
		if kind == csumNPat || kind == csumNPat+1 {
			size = csumPoolSize
			if length > 4096 {
				length = c.Intn(4097)
			}
		}
		off := c.Intn(64)
		if c.Chance(0.3) {
			off = c.Intn(size - length + 1)
		}
		emit(kind, off, length, pickSeed(), "random")
	}
	cw.Meta("accelerated_routine", accName)
	cw.Meta("accelerated_routine_exercised", accOK)
	if len(harnessFailures) > 0 {
		cw.Meta("failures", harnessFailures)
	}
	cw.Close("every length 0..4096, lengths 0..160 x start offsets 0..63 into 64-byte aligned backing arrays, zero/ones representatives, " +
		"then random (length <= 9216, any offset); buffers: 8 carry patterns, a uniform and a 0xff-heavy random pool, fresh random literals; " +
		"seeds {0,1,0xffff,0x8000,0xfffe,0x00ff,0xff00,0x7fff} or edge-biased random; non-trivial = length >= 32 (vector loop runs); distinct by literal")
}

//go:build (comp_all || comp_segment) && linux && !android

package main

import (
	"encoding/binary"
	"encoding/hex"
	"fmt"
	"strings"

	"github.com/slackhq/nebula/overlay/tio"
	"github.com/slackhq/nebula/overlay/tio/virtio"
	"verifharness/hx"
)

func init() { hx.Register("segment", runSegment) }

// segSpec describes one generated superpacket.
type segSpec struct {
	V4     bool   `json:"v4"`
	IHL    int    `json:"ihl"`    // IPv4 header length in 32-bit words (5..15)
	Ext    int    `json:"ext"`    // IPv6: bytes of extension headers between the fixed header and L4
	Gap    int    `json:"gap"`    // IPv4: bytes between the IPv4 header and csum_start (normally 0)
	TCP    bool   `json:"tcp"`    // else UDP
	Doff   int    `json:"doff"`   // TCP data offset in 32-bit words (5..15)
	PayLen int    `json:"paylen"` // L4 payload bytes
	GSO    int    `json:"gso"`
	Flags  int    `json:"flags"`
	ID     int    `json:"id"`
	Seq    uint32 `json:"seq"`
	Fill   string `json:"fill"` // payload rule: rand (LCG), mostly-ff (LCG), ff, zero
	PSeed  uint32 `json:"pseed"`
}

// segLcgNext mirrors Segment_corr.lcg_next.
func segLcgNext(x uint32) uint32 { return 1664525*x + 1013904223 }

// segFill writes the payload rule of s into pay (mirrors Segment_corr.payload_of).
func segFill(s *segSpec, pay []byte) {
	x := s.PSeed
	for i := range pay {
		switch s.Fill {
		case "ff":
			pay[i] = 0xff
		case "zero":
			pay[i] = 0
		case "mostly-ff":
			x = segLcgNext(x)
			pay[i] = 0xff
			if (x>>20)&15 == 0 {
				pay[i] = byte(x >> 8)
			}
		default:
			x = segLcgNext(x)
			pay[i] = byte(x >> 24)
		}
	}
}

// segPack renders bytes as a Segment_corr.packed literal: (length, seven bytes big-endian per 63-bit integer).
func segPack(b []byte) string {
	var sb strings.Builder
	fmt.Fprintf(&sb, "(%d, [", len(b))
	for i := 0; i < len(b); i += 7 {
		var x uint64
		for k := 0; k < 7; k++ {
			x <<= 8
			if i+k < len(b) {
				x |= uint64(b[i+k])
			}
		}
		if i > 0 {
			sb.WriteString("; ")
		}
		fmt.Fprintf(&sb, "0x%x", x)
	}
	sb.WriteString("]%uint63)")
	return sb.String()
}

func (s *segSpec) cs() int {
	if s.V4 {
		return s.IHL*4 + s.Gap
	}
	return 40 + s.Ext
}
func (s *segSpec) hl() int {
	if s.TCP {
		return s.cs() + s.Doff*4
	}
	return s.cs() + 8
}

func segBuild(c *hx.Ctx, s *segSpec) []byte {
	hl, cs := s.hl(), s.cs()
	pkt := make([]byte, hl+s.PayLen)
	hdr := c.RandBytes(hl)
	copy(pkt, hdr)
	if s.V4 {
		pkt[0] = 0x40 | byte(s.IHL)
		binary.BigEndian.PutUint16(pkt[4:6], uint16(s.ID))
		pkt[9] = 17
		if s.TCP {
			pkt[9] = 6
		}
	} else {
		pkt[0] = 0x60 | (pkt[0] & 0x0f)
		pkt[6] = 17
		if s.TCP {
			pkt[6] = 6
		}
	}
	if s.TCP {
		pkt[cs+12] = byte(s.Doff)<<4 | (pkt[cs+12] & 0x0f)
		pkt[cs+13] = byte(s.Flags)
		binary.BigEndian.PutUint32(pkt[cs+4:cs+8], s.Seq)
	}
	segFill(s, pkt[hl:])
	return pkt
}

// segResult is what the implementation did with one superpacket.
type segResult struct {
	segs     [][]byte
	err      bool
	panicked bool
}

func segCollect(run func(yield func(seg []byte) error) error) (r segResult) {
	defer func() {
		if rec := recover(); rec != nil {
			r.panicked = true
		}
	}()
	err := run(func(seg []byte) error {
		// the slice is only valid during the callback: later iterations stamp headers over its tail
		r.segs = append(r.segs, append([]byte(nil), seg...))
		return nil
	})
	r.err = err != nil
	return r
}

func segDirect(tcp bool, pkt []byte, hl, cs, gso uint16) segResult {
	buf := append([]byte(nil), pkt...)
	return segCollect(func(y func([]byte) error) error {
		if tcp {
			return virtio.SegmentTCP(buf, hl, cs, gso, y)
		}
		return virtio.SegmentUDP(buf, hl, cs, gso, y)
	})
}

func segPipe(vnet [10]byte, pkt []byte) segResult {
	buf := append([]byte(nil), pkt...)
	return segCollect(func(y func([]byte) error) error {
		p, err := tio.VerifDecodeRead(vnet, buf)
		if err != nil {
			return err
		}
		return tio.SegmentSuperpacket(p, y)
	})
}

func runSegment(c *hx.Ctx) {
	cw := c.NewCaseWriter("From Coq Require Import Uint63.\nFrom NV Require Import corr.Segment_corr.", "Segment_corr.case", "Segment_corr.check_case", 40)
	resLit := func(r segResult) string {
		if r.err || r.panicked {
			return hx.None()
		}
		items := make([]string, len(r.segs))
		for i, sg := range r.segs {
			items[i] = segPack(sg)
		}
		return hx.Some(hx.List(items))
	}
	head := func(b []byte) string {
		if len(b) > 140 {
			b = b[:140]
		}
		return hex.EncodeToString(b)
	}
	desc := func(mode string, s *segSpec, pkt []byte, extra map[string]any, r segResult) map[string]any {
		lens := make([]int, len(r.segs))
		for i := range r.segs {
			lens[i] = len(r.segs[i])
		}
		d := map[string]any{"mode": mode, "spec": s, "pkt_len": len(pkt), "pkt_head": head(pkt), "err": r.err, "panicked": r.panicked, "seg_lens": lens}
		for k, v := range extra {
			d[k] = v
		}
		return d
	}
	kindOf := func(s *segSpec) string {
		k := "udp"
		if s.TCP {
			k = "tcp"
		}
		if s.V4 {
			return k + "4"
		}
		return k + "6"
	}

	addDirect := func(kind string, s *segSpec, tcp bool, pkt []byte, hl, cs, gso int, nontrivial bool) {
		r := segDirect(tcp, pkt, uint16(hl), uint16(cs), uint16(gso))
		cw.Add(hx.App("Segment_corr.CDirect", hx.Bool(tcp), segPack(pkt), hx.N(uint64(hl)), hx.N(uint64(cs)), hx.N(uint64(gso)), resLit(r), hx.Bool(r.panicked)),
			kind, nontrivial && !r.err && !r.panicked, desc("direct", s, pkt, map[string]any{"hl": hl, "cs": cs, "gso": gso, "tcp": tcp}, r))
	}
	vnetOf := func(flags, gsoType uint8, hdrLen, gsoSize, csumStart, csumOff uint16) (v [10]byte) {
		virtio.EncodeHeader(v[:], flags, gsoType, hdrLen, gsoSize, csumStart, csumOff)
		return v
	}
	addPipe := func(kind string, s *segSpec, pkt []byte, flags, gsoType uint8, hdrLen, gsoSize, csumStart, csumOff uint16, nontrivial bool) {
		v := vnetOf(flags, gsoType, hdrLen, gsoSize, csumStart, csumOff)
		r := segPipe(v, pkt)
		vh := hx.App("Segment.mkVhdr", hx.N(uint64(flags)), hx.N(uint64(gsoType)), hx.N(uint64(hdrLen)), hx.N(uint64(gsoSize)), hx.N(uint64(csumStart)), hx.N(uint64(csumOff)))
		cw.Add(hx.App("Segment_corr.CPipe", vh, segPack(pkt), resLit(r), hx.Bool(r.panicked)),
			kind, nontrivial && !r.err && !r.panicked,
			desc("pipe", s, pkt, map[string]any{"vnet": []int{int(flags), int(gsoType), int(hdrLen), int(gsoSize), int(csumStart), int(csumOff)}}, r))
	}
	gsoTypeOf := func(s *segSpec) uint8 {
		if !s.TCP {
			return 5
		}
		if s.V4 {
			return 1
		}
		return 4
	}
	csumOffOf := func(s *segSpec) uint16 {
		if s.TCP {
			return 16
		}
		return 6
	}
	// the kernel's hdr_len is not trusted by nebula (CorrectHdrLen rewrites it): emit right, wrong and wild values
	kernelHdrLen := func(s *segSpec, pkt []byte) uint16 {
		switch c.Intn(4) {
		case 0:
			return uint16(len(pkt)) // FORWARD path: length of the whole first packet
		case 1:
			return uint16(c.Intn(65536))
		default:
			return uint16(s.hl())
		}
	}
	addValidPipe := func(kind string, s *segSpec, pkt []byte) {
		t := gsoTypeOf(s)
		if s.TCP && c.Chance(0.3) {
			t |= 0x80 // GSO_ECN qualifier
		}
		flags := uint8(1)
		if c.Chance(0.2) {
			flags = uint8(c.Intn(4)) // NEEDS_CSUM / DATA_VALID in any combination (ignored for superpackets)
		}
		addPipe(kind, s, pkt, flags, t, kernelHdrLen(s, pkt), uint16(s.GSO), uint16(s.cs()), csumOffOf(s), true)
	}

	// craft the payload / an IPv4 option word so that segment 0's transport (or IPv4 header) checksum is COMPUTED as zero:
	// with the 16-bit word w = 0 the stored checksum is c = ~S; setting w := c makes the sum 0xffff, i.e. ~S' = 0
	// (UDP must then transmit 0xffff).
	craftZero := func(s *segSpec, pkt []byte, ipHeader bool) bool {
		hl, cs := s.hl(), s.cs()
		var at, field int
		if ipHeader {
			if !s.V4 || s.IHL < 6 {
				return false
			}
			at, field = 20, 10
		} else {
			if s.PayLen < 2 || s.GSO < 2 {
				return false
			}
			at, field = hl, cs+16
			if !s.TCP {
				field = cs + 6
			}
		}
		pkt[at], pkt[at+1] = 0, 0
		r := segDirect(s.TCP, pkt, uint16(hl), uint16(cs), uint16(s.GSO))
		if r.err || r.panicked || len(r.segs) == 0 {
			return false
		}
		copy(pkt[at:at+2], r.segs[0][field:field+2])
		return true
	}

	edge16 := func() int {
		switch c.Intn(6) {
		case 0:
			return 0xffff
		case 1:
			return 0xffff - c.Intn(70)
		case 2:
			return c.Intn(3)
		default:
			return c.Intn(65536)
		}
	}
	edge32 := func() uint32 {
		switch c.Intn(6) {
		case 0:
			return 0xffffffff
		case 1:
			return 0xffffffff - uint32(c.Intn(70000))
		case 2:
			return uint32(c.Intn(3))
		case 3:
			return 0xffff0000 + uint32(c.Intn(65536))
		default:
			return uint32(c.U64())
		}
	}
	fills := []string{"rand", "rand", "rand", "ff", "zero", "mostly-ff"}


	// budget: the Coq evaluation of one case costs about (#segments x packet length) list steps
	budget := 500000
	if c.Tier == "thorough" {
		budget = 1500000
	}
	randSpec := func() *segSpec {
		s := &segSpec{V4: c.Chance(0.55), TCP: c.Chance(0.6), IHL: 5, Doff: 5}
		if c.Chance(0.5) {
			s.IHL = 5 + c.Intn(11)
		}
		if c.Chance(0.5) {
			s.Doff = 5 + c.Intn(11)
		}
		if !s.V4 && c.Chance(0.15) {
			s.Ext = 8 * (1 + c.Intn(3))
			if s.TCP && 40+s.Ext+s.Doff*4 > 120 {
				s.Doff = 5
			}
		}
		if s.V4 && c.Chance(0.05) && s.IHL*4+s.Doff*4 <= 112 {
			s.Gap = 4 * (1 + c.Intn(2))
		}
		switch c.Intn(20) {
		case 0, 1:
			s.PayLen = 0
		case 2, 3:
			s.PayLen = 1 + c.Intn(8)
		case 4, 5, 6, 7, 8, 9:
			s.PayLen = c.Intn(1500)
		case 10, 11, 12, 13:
			s.PayLen = c.Intn(3000)
		case 14, 15:
			s.PayLen = c.Intn(6000)
		case 16:
			s.PayLen = c.Intn(20001)
		default:
			s.PayLen = 2*c.Intn(1500) + 1 // odd
		}
		switch c.Intn(8) {
		case 0:
			s.GSO = 1 + c.Intn(4)
		case 1:
			s.GSO = 1460
		case 2:
			s.GSO = s.PayLen + 1 + c.Intn(100) // larger than the payload: a single segment
		case 3:
			if s.PayLen > 0 {
				s.GSO = s.PayLen // exactly one full segment
			} else {
				s.GSO = 1 + c.Intn(1460)
			}
		case 4:
			d := 1 + c.Intn(8)
			s.GSO = s.PayLen/d + c.Intn(2) // payload an exact / almost exact multiple
		default:
			s.GSO = 1 + c.Intn(1460)
		}
		if s.GSO < 1 {
			s.GSO = 1
		}
		if s.GSO > 65535 {
			s.GSO = 65535
		}
		// keep the evaluation affordable: shrink the payload until #segments x length fits the budget
		for {
			n := (s.PayLen + s.GSO - 1) / s.GSO
			// ... and the observed headers (always literals) below ~8 KB per case
			if n*(s.PayLen+s.hl()) <= budget && n*s.hl() <= 40000 {
				break
			}
			s.PayLen /= 2
		}
		s.Flags = c.Intn(256)
		s.ID = edge16()
		s.Seq = edge32()
		s.Fill = fills[c.Intn(len(fills))]
		s.PSeed = uint32(c.U64())
		return s
	}

	// ---- boundary sweep -------------------------------------------------------------------------
	sweep := 0
	// all 256 flag bytes on a three-segment TCP superpacket (first / middle / last rules), alternating v4/v6
	for f := 0; f < 256; f++ {
		s := &segSpec{V4: f%2 == 0, TCP: true, IHL: 5 + f%3, Doff: 5 + f%4, PayLen: 5, GSO: 2, Flags: f, ID: 0xfffe, Seq: 0xfffffffd, Fill: "rand", PSeed: uint32(f)}
		pkt := segBuild(c, s)
		if f%4 < 2 {
			addDirect("sweep-flags", s, true, pkt, s.hl(), s.cs(), s.GSO, true)
		} else {
			addValidPipe("sweep-flags", s, pkt)
		}
		sweep++
	}
	// header geometry: every IHL x a few data offsets, every data offset, header-only and one-byte payloads
	for ihl := 5; ihl <= 15; ihl++ {
		for _, doff := range []int{5, 8, 15} {
			for _, pl := range []int{0, 1, 7} {
				s := &segSpec{V4: true, TCP: true, IHL: ihl, Doff: doff, PayLen: pl, GSO: 3, Flags: 0x99, ID: 0xffff, Seq: 0xffffffff, Fill: "ff"}
				addValidPipe("sweep-geom", s, segBuild(c, s))
				sweep++
			}
		}
		s := &segSpec{V4: true, TCP: false, IHL: ihl, PayLen: 9, GSO: 4, ID: 0xfffe, Fill: "rand", PSeed: uint32(ihl)}
		addValidPipe("sweep-geom", s, segBuild(c, s))
		sweep++
	}
	for doff := 5; doff <= 15; doff++ {
		s := &segSpec{V4: false, TCP: true, IHL: 5, Doff: doff, PayLen: 2*doff + 1, GSO: 5, Flags: 0xff, Seq: 0xfffffff0, Fill: "rand", PSeed: uint32(doff)}
		addValidPipe("sweep-geom", s, segBuild(c, s))
		sweep++
	}
	// computed-zero checksums (UDP must send 0xffff), v4 and v6, TCP and UDP, and the IPv4 header checksum
	for k := 0; k < 24; k++ {
		s := randSpec()
		s.TCP = k%2 == 0
		if k >= 16 {
			s.V4, s.IHL = true, 6+c.Intn(10)
		}
		if s.PayLen < 2 {
			s.PayLen = 2 + c.Intn(3000)
		}
		if s.GSO < 2 {
			s.GSO = 2 + c.Intn(1400)
		}
		for (s.PayLen+s.GSO-1)/s.GSO*(s.PayLen+s.hl()) > budget || s.PayLen > 6000 {
			s.PayLen /= 2
		}
		if s.PayLen < 2 {
			s.PayLen = 2
		}
		pkt := segBuild(c, s)
		if craftZero(s, pkt, k >= 16) {
			addDirect("sweep-zero-csum", s, s.TCP, pkt, s.hl(), s.cs(), s.GSO, true)
		} else {
			addDirect("sweep-zero-csum-miss", s, s.TCP, pkt, s.hl(), s.cs(), s.GSO, true)
		}
		sweep++
	}
	// largest legal superpackets: 65535 bytes, gso 1460 and a segment size above 32767
	nmax := 2
	if c.Tier == "thorough" {
		nmax = 4
	}
	for k := 0; k < nmax; k++ {
		s := &segSpec{V4: k%2 == 0, TCP: k == 0 || k == 3, IHL: 5, Doff: 5, GSO: []int{1460, 40000, 1460, 65000}[k], Flags: 0x18, ID: 0xfff0, Seq: 0xffffff00, Fill: "rand", PSeed: uint32(k)}
		s.PayLen = 65535 - s.hl()
		addValidPipe("sweep-max", s, segBuild(c, s))
		sweep++
	}

	// ---- random stream --------------------------------------------------------------------------
	for cw.Total() < sweep+c.N {
		s := randSpec()
		pkt := segBuild(c, s)
		hl, cs := s.hl(), s.cs()
		switch r := c.Intn(100); {
		case r < 55:
			addValidPipe(kindOf(s)+"/pipe", s, pkt)
		case r < 72:
			addDirect(kindOf(s)+"/direct", s, s.TCP, pkt, hl, cs, s.GSO, true)
		case r < 82:
			// errors returned by SegmentTCP / SegmentUDP themselves, and inputs outside the theorem's hypotheses that the
			// code nevertheless processes (compared with the model only)
			switch c.Intn(7) {
			case 0:
				addDirect("err/gso0", s, s.TCP, pkt, hl, cs, 0, false)
			case 1:
				addDirect("err/cs0", s, s.TCP, pkt, hl, 0, s.GSO, false)
			case 2:
				addDirect("err/hdr>120", s, s.TCP, pkt, 121+c.Intn(2000), cs, s.GSO, false)
			case 3:
				if s.V4 {
					pkt[0] = 0x40 | byte(c.Intn(5)) // IHL < 5
				}
				addDirect("err/ihl<5", s, s.TCP, pkt, hl, cs, s.GSO, false)
			case 4:
				if s.V4 && s.IHL < 15 && s.Gap == 0 {
					pkt[0] = 0x40 | byte(s.IHL+1+c.Intn(15-s.IHL)) // IHL beyond csum_start
				}
				addDirect("err/ihl>cs", s, s.TCP, pkt, hl, cs, s.GSO, false)
			case 5:
				if !s.TCP {
					d := 1 + c.Intn(8)
					if c.Chance(0.5) && cs+8+d <= len(pkt) && cs+8+d <= 120 {
						addDirect("err/udp-hdrlen", s, false, pkt, cs+8+d, cs, s.GSO, false)
					} else if d < 8 {
						addDirect("err/udp-hdrlen", s, false, pkt, cs+8-d, cs, s.GSO, false)
					}
				} else if s.Doff > 5 {
					// header length handed in disagrees with the data offset in the packet (never produced by CorrectHdrLen)
					addDirect("nonwf/tcp-hdrlen", s, true, pkt, hl-4, cs, s.GSO, false)
				}
			default:
				if !s.V4 && s.Ext == 0 {
					// IPv6 superpacket whose csum_start lies inside the fixed header: processed without an error
					cs2 := 8 + c.Intn(32)
					h2 := cs2 + 8
					if s.TCP {
						h2 = cs2 + int(pkt[cs2+12]>>4)*4
						if int(pkt[cs2+12]>>4) < 5 {
							break
						}
					}
					if h2 <= len(pkt) && h2 <= 120 {
						addDirect("nonwf/v6-cs<40", s, s.TCP, pkt, h2, cs2, s.GSO, false)
					}
				}
			}
		default:
			// reads that decodeRead / CheckValid / CorrectHdrLen must drop, and GSO_NONE
			t, flags := gsoTypeOf(s), uint8(1)
			hdrLen, gso, csS, csO := uint16(hl), uint16(s.GSO), uint16(cs), csumOffOf(s)
			kind := "pipe-err/"
			switch c.Intn(14) {
			case 0:
				flags |= 4
				kind += "rsc"
			case 1:
				pkt = pkt[:c.Intn(20)]
				kind += "short<20"
			case 2:
				if !s.V4 {
					pkt = pkt[:20+c.Intn(20)]
				}
				kind += "short-v6"
			case 3:
				gso = 0
				kind += "gso0"
			case 4:
				if !s.TCP {
					t |= 0x80
				}
				kind += "ecn-on-udp"
			case 5:
				if s.TCP {
					t = map[bool]uint8{true: 4, false: 1}[s.V4]
				}
				kind += "version-mismatch"
			case 6:
				pkt[0] = byte(c.Intn(256))
				kind += "version-nibble"
			case 7:
				t = []uint8{2, 3, 6, 7, 0x7f, 0x83}[c.Intn(6)]
				kind += "gso-type"
			case 8:
				if s.TCP {
					pkt[cs+12] = byte(c.Intn(5))<<4 | pkt[cs+12]&0x0f
				}
				kind += "doff<5"
			case 9:
				csO = uint16(len(pkt) - cs - 2 + c.Intn(3))
				kind += "csum-offset"
			case 10:
				csS = uint16(65535 - c.Intn(80))
				kind += "csum-start-wrap"
			case 11:
				if len(pkt) > cs+1 {
					pkt = pkt[:cs+1+c.Intn(min(len(pkt)-cs-1, hl-cs+2))]
				}
				kind += "truncated"
			case 12:
				csS = uint16(c.Intn(200))
				if !s.V4 && csS < 8 {
					csS = 8
				}
				kind += "csum-start"
			default:
				t, flags = 0, uint8(c.Intn(2))*2
				kind = "pipe/gso-none"
			}
			addPipe(kind, s, pkt, flags, t, hdrLen, gso, csS, csO, false)
		}
	}
	cw.Close(fmt.Sprintf("one case = one superpacket handed to virtio.SegmentTCP/SegmentUDP (direct) or to tio's decodeRead + SegmentSuperpacket with a virtio_net_hdr (pipe); "+
		"distinct non-trivial = distinct superpackets that were segmented without an error; the first %d cases are the boundary sweep "+
		"(256 flag bytes, every IHL/data offset, header-only payloads, computed-zero checksums, 65535-byte superpackets)", sweep))
}

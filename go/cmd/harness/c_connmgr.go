//go:build comp_all || comp_connmgr

package main

// C30 tunnel teardown decisions follow the liveness policy.
//
// gen_connmgr (T1 + T2): evaluates the REAL makeTrafficDecision / doTrafficCheck / shouldSwapPrimary /
// tryRehandshake on the whole abstract feature space, >= 3 different concrete situations per row, and prints
// coq/gen/Tab_ConnMgr.v. Rows whose concretisations disagree are a broken tie (abstraction too coarse).
//
// connmgr (T3 + search): re-evaluates every row on a fresh situation and runs random check histories for a
// few tunnels through the real doTrafficCheck; Coq compares them with the model and with the documented policy.

import (
	"fmt"
	"net/netip"
	"os"
	"sort"
	"strings"
	"time"

	nebula "github.com/slackhq/nebula"
	"github.com/slackhq/nebula/cert"
	"verifharness/hx"
)

func init() {
	hx.Register("gen_connmgr", genConnMgr)
	hx.Register("connmgr", runConnMgr)
}

// ---- abstract rows ------------------------------------------------------------------------------

const (
	cmCertNone = iota
	cmCertOk
	cmCertBlock
	cmCertInvalid
)

var cmCertNames = []string{"CNone", "COk", "CBlock", "CInvalid"}
var cmDecNames = map[int]string{
	nebula.VerifCMDoNothing: "DNothing", nebula.VerifCMDeleteTunnel: "DDelete", nebula.VerifCMCloseTunnel: "DClose",
	nebula.VerifCMSwapPrimary: "DSwap", nebula.VerifCMMigrateRelays: "DMigrate", nebula.VerifCMTryRehandshake: "DRehs",
	nebula.VerifCMSendTestPacket: "DProbe",
}
var cmTimerNames = []string{"TNone", "TCheck", "TPending"}
var cmPunchNames = []string{"PNone", "POne", "PAll"}
var cmHsNames = []string{"HNone", "HStart", "HStartPeerVersion"}

type cmRow struct {
	Cert                                               int
	Dinv, Exh, Primary, In, Out, Pd, Dropi, Idle, Swap bool
}

func (r cmRow) lit() string {
	return hx.App("mkRow", cmCertNames[r.Cert], hx.Bool(r.Dinv), hx.Bool(r.Exh), hx.Bool(r.Primary), hx.Bool(r.In), hx.Bool(r.Out),
		hx.Bool(r.Pd), hx.Bool(r.Dropi), hx.Bool(r.Idle), hx.Bool(r.Swap))
}

func cmAllRows() []cmRow {
	var rows []cmRow
	bs := []bool{false, true}
	for c := 0; c < 4; c++ {
		for _, dinv := range bs {
			for _, exh := range bs {
				for _, pri := range bs {
					for _, in := range bs {
						for _, out := range bs {
							for _, pd := range bs {
								for _, dropi := range bs {
									for _, idle := range bs {
										for _, sw := range bs {
											rows = append(rows, cmRow{c, dinv, exh, pri, in, out, pd, dropi, idle, sw})
										}
									}
								}
							}
						}
					}
				}
			}
		}
	}
	return rows
}

type cmRes struct {
	Dec                                             int
	Pd                                              bool
	Timer, Punch                                    int
	Removed, Notify, Probe, Touch, Clear, PrimaryAf bool
}

func (x cmRes) lit() string {
	return hx.App("mkRes", cmDecNames[x.Dec], hx.Bool(x.Pd), cmTimerNames[x.Timer], cmPunchNames[x.Punch], hx.Bool(x.Removed),
		hx.Bool(x.Notify), hx.Bool(x.Probe), hx.Bool(x.Touch), hx.Bool(x.Clear), hx.Bool(x.PrimaryAf))
}

type cmSwRow struct{ Ge, Rk, Lc, Se bool }

func (r cmSwRow) lit() string {
	return hx.App("mkSw", hx.Bool(r.Ge), hx.Bool(r.Rk), hx.Bool(r.Lc), hx.Bool(r.Se))
}

type cmRhRow struct{ Lc, Up, Se, Bi, Rk bool }

func (r cmRhRow) lit() string {
	return hx.App("mkRh", hx.Bool(r.Lc), hx.Bool(r.Up), hx.Bool(r.Se), hx.Bool(r.Bi), hx.Bool(r.Rk))
}

// ---- concrete situations ------------------------------------------------------------------------

var cmBase = time.Unix(1_800_000_000, 0)

// authority lifetimes: 0 and 1 outlive every history, 2 expires after ten minutes (expired-root cases)
var cmCALife = []time.Duration{3 * time.Hour, 3 * time.Hour, 10 * time.Minute}

func cmMaterial(c *hx.Ctx) *nebula.VerifCMMaterial {
	return nebula.VerifCMNewMaterial(cmBase, cmCALife, func(b []byte) {
		for i := range b {
			b[i] = byte(c.Intn(256))
		}
	})
}

// cmLocal describes which of our own certificates are loaded (the CertState): variant per version, -1 = none.
type cmLocal struct {
	V1, V2     int
	Initiating int
}

// cmSit is one concrete situation for a single tunnel: every value needed to rebuild it exactly.
type cmSit struct {
	MyAddr      netip.Addr
	VpnAddrs    []netip.Addr
	LocalIndex  uint32
	RemoteIndex uint32
	Remotes     []netip.AddrPort
	CheckS      int
	PendS       int
	Timeout     time.Duration
	Dropi, Dinv bool
	Debug       bool
	NowOff      time.Duration
	// certificate of the peer
	HasPeer    bool
	PeerCA     int
	PeerVer    int
	PeerNb     time.Duration
	PeerNa     time.Duration
	PoolCAs    []int // nil = no pool installed
	Blocked    bool  // the peer's fingerprint is on the blocklist
	BlockOther bool  // some other fingerprint is on the blocklist
	CertNote   string
	// our side
	MyVer     int
	MyVariant int
	Local     cmLocal
	Counter   uint64
	// siblings: other tunnels to the same peer added before / after this one
	Before, After int
	Known         bool
	// liveness fields
	In, Out, Pd  bool
	LastUsedZero bool
	LastUsedAgo  time.Duration
}

func (s *cmSit) json() map[string]any {
	va := []string{}
	for _, a := range s.VpnAddrs {
		va = append(va, a.String())
	}
	rs := []string{}
	for _, a := range s.Remotes {
		rs = append(rs, a.String())
	}
	return map[string]any{"my_addr": s.MyAddr.String(), "vpn_addrs": va, "local_index": s.LocalIndex, "remote_index": s.RemoteIndex,
		"remotes": rs, "check_interval_s": s.CheckS, "pending_deletion_interval_s": s.PendS, "inactivity_timeout_ns": int64(s.Timeout),
		"drop_inactive": s.Dropi, "disconnect_invalid": s.Dinv, "debug_log": s.Debug, "now_ns_after_base": int64(s.NowOff),
		"peer_cert": map[string]any{"present": s.HasPeer, "ca": s.PeerCA, "version": s.PeerVer, "not_before_ns": int64(s.PeerNb),
			"not_after_ns": int64(s.PeerNa), "pool_cas": s.PoolCAs, "blocklisted": s.Blocked, "case": s.CertNote},
		"my_cert": map[string]any{"version": s.MyVer, "variant": s.MyVariant, "loaded_v1": s.Local.V1, "loaded_v2": s.Local.V2,
			"initiating_version": s.Local.Initiating},
		"message_counter": fmt.Sprint(s.Counter), "tunnels_added_before": s.Before, "tunnels_added_after": s.After, "in_hostmap": s.Known,
		"in": s.In, "out": s.Out, "pending_deletion": s.Pd, "last_used_zero": s.LastUsedZero, "last_used_ago_ns": int64(s.LastUsedAgo)}
}

func cmPrefixOf(a netip.Addr) netip.Prefix {
	if a.Is4() {
		return netip.PrefixFrom(a, 24)
	}
	return netip.PrefixFrom(a, 64)
}

func cmV4(c *hx.Ctx) netip.Addr {
	return netip.AddrFrom4([4]byte{10, byte(c.Intn(4)), byte(c.Intn(256)), byte(1 + c.Intn(250))})
}
func cmV6(c *hx.Ctx) netip.Addr {
	return netip.AddrFrom16([16]byte{0xfd, 0, byte(c.Intn(4)), 0, 0, 0, 0, 0, 0, 0, 0, 0, 0, 0, byte(c.Intn(256)), byte(1 + c.Intn(250))})
}

// cmBuild builds the world for a situation; punchAll is the only thing not fixed by the situation.
func cmBuild(m *nebula.VerifCMMaterial, s *cmSit, punchAll bool) (*nebula.VerifCMWorld, int, time.Time) {
	cfg := nebula.VerifCMConfig{CheckIntervalS: s.CheckS, PendingIntervalS: s.PendS, InactivityTimeout: s.Timeout,
		DropInactive: s.Dropi, DisconnectInvalid: s.Dinv, PunchAll: punchAll}
	w := nebula.VerifCMNewWorld(m, s.MyAddr, cfg, s.Debug)
	now := cmBase.Add(s.NowOff)
	var nets []netip.Prefix
	for _, a := range s.VpnAddrs {
		nets = append(nets, cmPrefixOf(a))
	}
	var peer *nebula.VerifCMPeerCert
	if s.HasPeer {
		peer = m.PeerCert(s.PeerCA, s.PeerVer, nets, s.PeerNb, s.PeerNa)
	}
	var bl []string
	if s.Blocked {
		bl = append(bl, peer.Fingerprint)
	}
	if s.BlockOther {
		bl = append(bl, "0000000000000000000000000000000000000000000000000000000000000000")
	}
	w.SetCAPool(s.PoolCAs, bl)
	myNets := []netip.Prefix{cmPrefixOf(s.MyAddr)}
	if !s.MyAddr.Is4() {
		myNets = []netip.Prefix{netip.MustParsePrefix("10.9.9.9/24")}
	}
	w.SetCertState(cmLocalCert(m, 1, s.Local.V1, myNets), cmLocalCert(m, 2, s.Local.V2, myNets), s.Local.Initiating)
	mk := func(li, ri uint32, reg bool) int {
		return w.AddTunnel(nebula.VerifCMTunnel{VpnAddrs: s.VpnAddrs, LocalIndex: li, RemoteIndex: ri, Remote: s.Remotes[0], Remotes: s.Remotes,
			Peer: peer, MyCert: m.LocalCert(s.MyVer, s.MyVariant, myNets), Counter: s.Counter, Register: reg})
	}
	for i := 0; i < s.Before; i++ {
		mk(s.LocalIndex+100+uint32(i), s.RemoteIndex+100+uint32(i), true)
	}
	h := mk(s.LocalIndex, s.RemoteIndex, s.Known)
	for i := 0; i < s.After; i++ {
		mk(s.LocalIndex+200+uint32(i), s.RemoteIndex+200+uint32(i), true)
	}
	lu := time.Time{}
	if !s.LastUsedZero {
		lu = now.Add(-s.LastUsedAgo)
	}
	w.Force(h, s.In, s.Out, s.Pd, lu)
	return w, h, now
}

func cmLocalCert(m *nebula.VerifCMMaterial, ver, variant int, nets []netip.Prefix) cert.Certificate {
	if variant < 0 {
		return nil
	}
	return m.LocalCert(ver, variant, nets)
}

// cmAddrs draws our overlay address and the peer's, in the requested order (peer >= ours or not): same
// family below/above, equal, and across families.
func cmAddrs(c *hx.Ctx, ge bool, variant int) (my, peer netip.Addr) {
	for {
		my, peer = cmV4(c), cmV4(c)
		switch (variant + c.Intn(4)) % 4 {
		case 1:
			my, peer = cmV6(c), cmV6(c)
		case 2:
			my, peer = cmV4(c), cmV6(c)
			if !ge {
				my, peer = peer, my
			}
		case 3:
			if ge {
				peer = my
			}
		}
		if (peer.Compare(my) >= 0) == ge {
			return
		}
		my, peer = peer, my
		if (peer.Compare(my) >= 0) == ge {
			return
		}
	}
}

// cmDraw draws a situation realising the abstract row. sw says how the row's swap eligibility is to come
// about (a row of the shouldSwapPrimary table with that verdict); the caller checks the real verdict.
func cmDraw(c *hx.Ctx, r cmRow, sw cmSwRow, variant int) *cmSit {
	s := &cmSit{Known: true}
	s.Debug = c.Chance(0.3)
	var pa netip.Addr
	s.MyAddr, pa = cmAddrs(c, sw.Ge, variant)
	s.VpnAddrs = []netip.Addr{pa}
	if c.Chance(0.3) {
		if c.Chance(0.3) {
			s.VpnAddrs = append(s.VpnAddrs, cmV6(c))
		} else {
			s.VpnAddrs = append(s.VpnAddrs, cmV4(c))
		}
	}
	s.LocalIndex = uint32(1000 + c.Intn(1<<30))
	s.RemoteIndex = uint32(1000 + c.Intn(1<<30))
	nrem := 2 + c.Intn(3)
	for i := 0; i < nrem; i++ {
		s.Remotes = append(s.Remotes, netip.AddrPortFrom(netip.AddrFrom4([4]byte{192, 0, 2, byte(10 + 10*i + c.Intn(9))}), uint16(4000+c.Intn(1000))))
	}
	iv := [][2]int{{5, 10}, {3, 7}, {2, 9}, {10, 4}, {1, 2}}[(variant+c.Intn(5))%5]
	s.CheckS, s.PendS = iv[0], iv[1]
	s.Timeout = []time.Duration{10 * time.Minute, time.Minute, 90 * time.Second, time.Hour}[(variant+c.Intn(4))%4]
	s.Dropi, s.Dinv = r.Dropi, r.Dinv
	nowS := 60 + c.Intn(480) // whole seconds after base, < 9 min
	s.NowOff = time.Duration(nowS)*time.Second + time.Duration(c.Intn(1_000_000_000))
	if c.Chance(0.2) {
		s.NowOff = time.Duration(nowS) * time.Second
	}

	// the certificate of the peer
	s.PeerVer = 1 + c.Intn(2)
	if !s.VpnAddrs[0].Is4() || (len(s.VpnAddrs) > 1 && !s.VpnAddrs[1].Is4()) {
		s.PeerVer = 2 // version 1 certificates carry IPv4 networks only
	}
	s.PeerCA = c.Intn(2)
	s.PeerNb, s.PeerNa = -30*time.Minute, 40*time.Minute
	s.PoolCAs = []int{0, 1}
	if c.Chance(0.3) {
		s.PoolCAs = []int{0, 1, 2}
	}
	s.BlockOther = c.Chance(0.3)
	expired := func() {
		switch (variant + c.Intn(5)) % 5 {
		case 0: // expired, possibly by a single nanosecond
			d := c.Intn(3)
			s.PeerNa = time.Duration(nowS-d) * time.Second
			if d == 0 && s.NowOff == time.Duration(nowS)*time.Second {
				s.NowOff += time.Nanosecond
			}
			s.CertNote = "expired"
		case 1:
			s.PeerNa = time.Duration(nowS-1-c.Intn(50)) * time.Second
			s.CertNote = "expired"
		case 2: // not yet valid
			s.PeerNb = time.Duration(nowS+1+c.Intn(100)) * time.Second
			s.CertNote = "not yet valid"
		case 3: // its authority is no longer in the pool
			s.PoolCAs = []int{1 - s.PeerCA}
			s.CertNote = "authority removed from the pool"
		case 4: // its authority has expired
			s.PeerCA = 2
			s.PoolCAs = []int{0, 2}
			s.PeerNa = 10 * time.Minute
			s.NowOff += 10 * time.Minute
			s.CertNote = "authority expired"
		}
	}
	switch r.Cert {
	case cmCertNone:
		s.HasPeer = false
		if c.Chance(0.3) {
			s.PoolCAs = nil
		}
	case cmCertOk:
		s.HasPeer = true
		s.CertNote = "valid"
		if c.Chance(0.3) { // valid up to and including its last second
			s.PeerNa = time.Duration(nowS) * time.Second
			s.NowOff = time.Duration(nowS) * time.Second
			s.CertNote = "valid, in its last instant"
		}
	case cmCertBlock:
		s.HasPeer = true
		s.Blocked = true
		s.CertNote = "blocklisted"
		if c.Chance(0.4) {
			expired()
			s.CertNote = "blocklisted and " + s.CertNote
		}
	case cmCertInvalid:
		s.HasPeer = true
		expired()
	}

	// our own certificates
	s.MyVer = 1 + c.Intn(2)
	s.MyVariant = c.Intn(2)
	other := c.Intn(3) - 1
	s.Local = cmLocal{V1: other, V2: other, Initiating: 1 + c.Intn(2)}
	mine := -1
	if sw.Lc {
		mine = s.MyVariant
		if !sw.Se {
			mine = 1 - s.MyVariant
		}
	}
	if s.MyVer == 1 {
		s.Local.V1 = mine
	} else {
		s.Local.V2 = mine
	}

	// the message counter
	rej, reh := uint64(nebula.VerifCMRejectAfterMessages), uint64(nebula.VerifCMRehandshakeAfterMessages)
	switch {
	case r.Exh:
		// the counter is pinned to RejectAfterMessages by NextMessageCounter; concurrent senders can overshoot by a
		// few, never by the 2^40 headroom (so no value that wraps on the next increment)
		s.Counter = []uint64{rej, rej + 1, rej + 1000, rej + (1 << 39)}[(variant+c.Intn(4))%4]
	case sw.Rk:
		// rej-1 is left out: the counter is not exhausted, yet the next send is refused (NextMessageCounter)
		s.Counter = []uint64{reh, reh + 5, rej - 2}[(variant+c.Intn(3))%3]
	default:
		s.Counter = []uint64{0, 1, 77, reh - 1}[(variant+c.Intn(4))%4]
	}

	// primary or not
	if r.Primary {
		s.Before, s.After = c.Intn(3), 0
	} else {
		s.Before, s.After = c.Intn(2), 1+c.Intn(2)
	}

	s.In, s.Out, s.Pd = r.In, r.Out, r.Pd
	if r.Idle {
		switch (variant + c.Intn(4)) % 4 {
		case 0:
			s.LastUsedAgo = s.Timeout
		case 1:
			s.LastUsedAgo = s.Timeout + 1
		case 2:
			s.LastUsedAgo = 3 * s.Timeout
		case 3:
			s.LastUsedZero = true
		}
	} else {
		switch (variant + c.Intn(4)) % 4 {
		case 0:
			s.LastUsedAgo = 1 // (not 0: "lastUsed was set to now" must stay observable)
		case 1:
			s.LastUsedAgo = s.Timeout - 1
		case 2:
			s.LastUsedAgo = s.Timeout / 2
		case 3:
			s.LastUsedAgo = -time.Second // used "in the future" of this check
		}
	}
	return s
}

// cmEval runs the situation through the real code: makeTrafficDecision on one copy (target_all_remotes
// off), doTrafficCheck on an identical copy (target_all_remotes on), and abstracts what happened.
func cmEval(m *nebula.VerifCMMaterial, s *cmSit) (cmRes, bool, error) {
	wa, ha, now := cmBuild(m, s, false)
	wb, hb, _ := cmBuild(m, s, true)
	swap := wa.SwapEligible(ha)
	if swap != wb.SwapEligible(hb) {
		return cmRes{}, swap, fmt.Errorf("shouldSwapPrimary differs between two identical situations")
	}
	pa, pb := wa.Pre(ha), wb.Pre(hb)
	if pa != pb {
		return cmRes{}, swap, fmt.Errorf("identical situations differ before the check: %+v / %+v", pa, pb)
	}
	a := wa.Decide(ha, now)
	b := wb.Check(hb, now)
	var x cmRes
	if a.Panic != "" || b.Panic != "" {
		return x, swap, fmt.Errorf("panic: makeTrafficDecision %q doTrafficCheck %q", a.Panic, b.Panic)
	}
	if _, ok := cmDecNames[a.Decision]; !ok {
		return x, swap, fmt.Errorf("unknown decision value %d", a.Decision)
	}
	x.Dec = a.Decision
	if a.PendingAfter != b.PendingAfter || a.Timer != b.Timer || a.Touched != b.Touched {
		return x, swap, fmt.Errorf("makeTrafficDecision and doTrafficCheck disagree: %+v / %+v", a, b)
	}
	x.Pd = a.PendingAfter
	if a.Timer > 2 {
		return x, swap, fmt.Errorf("tunnel re-armed with an interval that is neither the check nor the pending-deletion interval")
	}
	x.Timer = a.Timer
	switch {
	case a.PunchN == 0 && b.PunchN == 0:
		x.Punch = 0
	case a.PunchOne && b.PunchAll:
		x.Punch = 1
	case a.PunchN == 0 && b.PunchAll:
		x.Punch = 2
	default:
		return x, swap, fmt.Errorf("punches cannot be classified: %d (target_all_remotes off) / %d (on)", a.PunchN, b.PunchN)
	}
	if pa.Known && !a.KnownAfter {
		return x, swap, fmt.Errorf("makeTrafficDecision itself removed the tunnel")
	}
	x.Removed = pb.Known && !b.KnownAfter
	if !pb.Known && b.KnownAfter {
		return x, swap, fmt.Errorf("an unknown tunnel entered the hostmap")
	}
	if b.ClosePkts > 1 || b.TestPkts > 1 || b.OtherPkts != 0 || a.ClosePkts+a.TestPkts+a.OtherPkts != 0 {
		return x, swap, fmt.Errorf("unexpected packets: %+v / %+v", a, b)
	}
	x.Notify = b.ClosePkts == 1
	x.Probe = b.TestPkts == 1
	x.Touch = a.Touched
	x.Clear = !a.InAfter && !a.OutAfter
	x.PrimaryAf = b.PrimaryAfter
	return x, swap, nil
}

// cmEvalUnknown: a check for a tunnel the hostmap does not hold. Returns the decision and whether nothing at
// all happened.
func cmEvalUnknown(m *nebula.VerifCMMaterial, s *cmSit) (int, bool, error) {
	wa, ha, now := cmBuild(m, s, false)
	wb, hb, _ := cmBuild(m, s, true)
	pa, pb := wa.Pre(ha), wb.Pre(hb)
	a := wa.Decide(ha, now)
	b := wb.Check(hb, now)
	if a.Panic != "" || b.Panic != "" {
		return 0, false, fmt.Errorf("panic: makeTrafficDecision %q doTrafficCheck %q", a.Panic, b.Panic)
	}
	if _, ok := cmDecNames[a.Decision]; !ok {
		return 0, false, fmt.Errorf("unknown decision value %d", a.Decision)
	}
	inert := func(p nebula.VerifCMPre, o nebula.VerifCMObs) bool {
		return !p.Known && !o.KnownAfter && o.PendingAfter == p.PendingDeletion && o.InAfter == p.In && o.OutAfter == p.Out && !o.Touched &&
			o.Timer == 0 && o.PunchN == 0 && o.TestPkts+o.ClosePkts+o.OtherPkts == 0 && o.Handshake == 0 && !o.PrimaryAfter
	}
	return a.Decision, a.RetNil && inert(pa, a) && inert(pb, b), nil
}

func cmRealRow(r cmRow, w *nebula.VerifCMWorld, h int) error {
	p := w.Pre(h)
	if p.Primary != r.Primary || p.In != r.In || p.Out != r.Out || p.PendingDeletion != r.Pd || !p.Known {
		return fmt.Errorf("the situation built does not have the requested features: %+v", p)
	}
	return nil
}

// cmRealise builds a situation for the row. How the row's swap eligibility can come about is taken from
// the shouldSwapPrimary table (itself the real function's verdicts); an exhausted counter is necessarily past
// the rekey threshold (RehandshakeAfterMessages < RejectAfterMessages, pinned in Coq). nil = no situation exists.
func cmRealise(c *hx.Ctx, m *nebula.VerifCMMaterial, swtab map[cmSwRow]bool, r cmRow, variant int) (*cmSit, cmRes, error) {
	var cands []cmSwRow
	for _, sw := range cmSwRows() {
		if swtab[sw] == r.Swap && (!r.Exh || sw.Rk) {
			cands = append(cands, sw)
		}
	}
	if len(cands) == 0 {
		return nil, cmRes{}, nil
	}
	sw := cands[(variant+c.Intn(len(cands)))%len(cands)]
	s := cmDraw(c, r, sw, variant)
	w, h, _ := cmBuild(m, s, false)
	if err := cmRealRow(r, w, h); err != nil {
		return s, cmRes{}, err
	}
	if w.SwapEligible(h) != r.Swap {
		return s, cmRes{}, fmt.Errorf("shouldSwapPrimary is not the function of (address order, rekey threshold, own certificate loaded, same signature) tabulated in tab_swap")
	}
	x, _, err := cmEval(m, s)
	return s, x, err
}

func cmSwapTable(c *hx.Ctx, m *nebula.VerifCMMaterial, k int) map[cmSwRow]bool {
	tab := map[cmSwRow]bool{}
	for _, r := range cmSwRows() {
		var first *bool
		for v := 0; v < k; v++ {
			a := cmDrawSwap(c, r, v)
			x := cmEvalSwap(m, a)
			if first == nil {
				first = &x
			} else if *first != x {
				cmFail("shouldSwapPrimary row %s: situations disagree (%v)", r.lit(), a.json())
			}
		}
		tab[r] = *first
	}
	return tab
}

// ---- swap / rehandshake tables ------------------------------------------------------------------

type cmAux struct {
	MyAddr, Peer netip.Addr
	MyVer        int
	MyVariant    int
	Local        cmLocal
	HasPeer      bool
	PeerVer      int
	Counter      uint64
	Note         string
}

func (a cmAux) json() map[string]any {
	return map[string]any{"my_addr": a.MyAddr.String(), "peer_addr": a.Peer.String(), "my_cert_version": a.MyVer, "my_cert_variant": a.MyVariant,
		"loaded_v1": a.Local.V1, "loaded_v2": a.Local.V2, "initiating_version": a.Local.Initiating, "peer_cert": a.HasPeer,
		"peer_cert_version": a.PeerVer, "message_counter": fmt.Sprint(a.Counter), "case": a.Note}
}

func cmAuxWorld(m *nebula.VerifCMMaterial, a cmAux) (*nebula.VerifCMWorld, int) {
	w := nebula.VerifCMNewWorld(m, a.MyAddr, nebula.VerifCMConfig{CheckIntervalS: 5, PendingIntervalS: 10, InactivityTimeout: 10 * time.Minute}, false)
	w.SetCAPool([]int{0, 1}, nil)
	myNets := []netip.Prefix{netip.MustParsePrefix("10.9.9.9/24")}
	w.SetCertState(cmLocalCert(m, 1, a.Local.V1, myNets), cmLocalCert(m, 2, a.Local.V2, myNets), a.Local.Initiating)
	var peer *nebula.VerifCMPeerCert
	if a.HasPeer {
		pa := a.Peer
		if a.PeerVer == 1 && !pa.Is4() {
			pa = netip.MustParseAddr("10.3.3.3") // the certificate's networks are not looked at here
		}
		peer = m.PeerCert(0, a.PeerVer, []netip.Prefix{cmPrefixOf(pa)}, -30*time.Minute, 40*time.Minute)
	}
	h := w.AddTunnel(nebula.VerifCMTunnel{VpnAddrs: []netip.Addr{a.Peer}, LocalIndex: 4711, RemoteIndex: 1147,
		Remote: netip.MustParseAddrPort("192.0.2.1:4242"), Remotes: []netip.AddrPort{netip.MustParseAddrPort("192.0.2.1:4242")},
		Peer: peer, MyCert: m.LocalCert(a.MyVer, a.MyVariant, myNets), Counter: a.Counter, Register: true})
	return w, h
}

func cmCounterFor(c *hx.Ctx, rk bool, variant int) uint64 {
	rej, reh := uint64(nebula.VerifCMRejectAfterMessages), uint64(nebula.VerifCMRehandshakeAfterMessages)
	if rk {
		return []uint64{reh, reh + 1, rej - 2, rej, rej + (1 << 39)}[(variant+c.Intn(5))%5]
	}
	return []uint64{0, 1, reh - 1, reh / 2}[(variant+c.Intn(4))%4]
}

func cmSetLocal(a *cmAux, c *hx.Ctx, lc, se bool) {
	mine := -1
	if lc {
		mine = a.MyVariant
		if !se {
			mine = 1 - a.MyVariant
		}
	}
	if a.MyVer == 1 {
		a.Local.V1 = mine
	} else {
		a.Local.V2 = mine
	}
}

func cmDrawSwap(c *hx.Ctx, r cmSwRow, variant int) cmAux {
	a := cmAux{MyVer: 1 + c.Intn(2), MyVariant: c.Intn(2), Local: cmLocal{V1: c.Intn(3) - 1, V2: c.Intn(3) - 1, Initiating: 1 + c.Intn(2)},
		HasPeer: c.Chance(0.7), PeerVer: 1 + c.Intn(2)}
	a.Local.V1, a.Local.V2 = min(a.Local.V1, 1), min(a.Local.V2, 1)
	cmSetLocal(&a, c, r.Lc, r.Se)
	a.Counter = cmCounterFor(c, r.Rk, variant)
	a.MyAddr, a.Peer = cmAddrs(c, r.Ge, variant)
	return a
}

func cmDrawRehs(c *hx.Ctx, r cmRhRow, variant int) cmAux {
	a := cmAux{MyAddr: cmV4(c), Peer: cmV4(c), MyVariant: c.Intn(2)}
	a.MyVer = 1 + c.Intn(2)
	if r.Up || r.Bi {
		a.MyVer = 1
	}
	other := c.Intn(3) - 1 // what is loaded for the other version: none / variant 0 / variant 1
	a.Local = cmLocal{V1: other, V2: other}
	cmSetLocal(&a, c, r.Lc, r.Se)
	if r.Bi {
		a.Local.Initiating = 2
	} else {
		a.Local.Initiating = 1 + c.Intn(a.MyVer)
	}
	if r.Up {
		a.HasPeer, a.PeerVer = true, 2
		if a.Local.V2 < 0 {
			a.Local.V2 = c.Intn(2)
		}
		a.Note = "peer's certificate version is higher and we hold one of that version"
	} else {
		k := (variant + c.Intn(4)) % 4
		if k == 2 && a.MyVer != 2 {
			k = 1
		}
		if k == 3 && a.MyVer != 1 {
			k = 0
		}
		switch k {
		case 0:
			a.HasPeer = false
			a.Note = "no peer certificate recorded"
		case 1:
			a.HasPeer, a.PeerVer = true, a.MyVer
			a.Note = "peer's certificate has our version"
		case 2:
			a.HasPeer, a.PeerVer = true, 1
			a.Note = "peer's certificate version is lower"
		case 3:
			a.HasPeer, a.PeerVer = true, 2
			a.Local.V2 = -1
			a.Note = "peer's certificate version is higher but we hold none of that version"
		}
	}
	a.Counter = cmCounterFor(c, r.Rk, variant)
	return a
}

func cmSwRows() []cmSwRow {
	var rows []cmSwRow
	bs := []bool{false, true}
	for _, ge := range bs {
		for _, rk := range bs {
			for _, lc := range bs {
				for _, se := range bs {
					if !lc && se {
						continue
					}
					rows = append(rows, cmSwRow{ge, rk, lc, se})
				}
			}
		}
	}
	return rows
}

func cmRhRows() []cmRhRow {
	var rows []cmRhRow
	bs := []bool{false, true}
	for _, lc := range bs {
		for _, up := range bs {
			for _, se := range bs {
				for _, bi := range bs {
					for _, rk := range bs {
						if !lc && se {
							continue
						}
						rows = append(rows, cmRhRow{lc, up, se, bi, rk})
					}
				}
			}
		}
	}
	return rows
}

func cmEvalSwap(m *nebula.VerifCMMaterial, a cmAux) bool {
	w, h := cmAuxWorld(m, a)
	return w.SwapEligible(h)
}

func cmEvalRehs(m *nebula.VerifCMMaterial, a cmAux) (int, error) {
	w, h := cmAuxWorld(m, a)
	r, p := w.Rehandshake(h)
	if p != "" {
		return 0, fmt.Errorf("tryRehandshake panicked: %s", p)
	}
	return r, nil
}

// ---- gen_connmgr --------------------------------------------------------------------------------

func cmFail(format string, args ...any) {
	fmt.Fprintf(os.Stdout, "BROKEN TIE (connmgr): "+format+"\n", args...)
	os.Exit(3)
}

func genConnMgr(c *hx.Ctx) {
	k := 3
	if c.Tier == "thorough" {
		k = 8
	}
	m := cmMaterial(c)
	var sb strings.Builder
	sb.WriteString("(* GENERATED from /repo/connection_manager.go by harness gen_connmgr: do not edit.\n" +
		"   Every entry is what the real makeTrafficDecision / doTrafficCheck / shouldSwapPrimary / tryRehandshake did\n" +
		"   on >= 3 different concrete situations with these abstract features (all agreed). *)\n" +
		"From Coq Require Import List NArith.\nImport ListNotations.\nFrom NV Require Import lib.ConnMgr_lib.\nOpen Scope N_scope.\n\n")
	// T1 constants
	chk, pend, inact, dropi, dinv := nebula.VerifCMDefaults()
	fmt.Fprintf(&sb, "Definition reject_after_messages : N := %d.\nDefinition rehandshake_after_messages : N := %d.\n",
		uint64(nebula.VerifCMRejectAfterMessages), uint64(nebula.VerifCMRehandshakeAfterMessages))
	fmt.Fprintf(&sb, "Definition default_check_interval_ns : N := %d.\nDefinition default_pending_deletion_interval_ns : N := %d.\n"+
		"Definition default_inactivity_timeout_ns : N := %d.\nDefinition default_drop_inactive : bool := %v.\nDefinition default_disconnect_invalid : bool := %v.\n\n",
		int64(chk), int64(pend), int64(inact), dropi, dinv)

	swtab := cmSwapTable(c, m, k+2)

	// the decision table
	var entries, infeasible []string
	unknownDec, unknownInert := -1, true
	for _, r := range cmAllRows() {
		var first *cmRes
		var firstSit *cmSit
		for v := 0; v < k; v++ {
			s, x, err := cmRealise(c, m, swtab, r, v)
			if err != nil {
				cmFail("row %s: %v\nsituation: %v", r.lit(), err, s.json())
			}
			if s == nil {
				if first != nil {
					cmFail("row %s could be realised once but not again", r.lit())
				}
				break
			}
			if first == nil {
				first, firstSit = &x, s
			} else if *first != x {
				cmFail("row %s: two situations with the same abstract features are treated differently - the abstraction is too coarse\n  %s  <- %v\n  %s  <- %v",
					r.lit(), first.lit(), firstSit.json(), x.lit(), s.json())
			}
			// the same situation with the tunnel unknown to the hostmap
			su := *s
			su.Known = false
			dec, inert, err := cmEvalUnknown(m, &su)
			if err != nil {
				cmFail("row %s (tunnel not in the hostmap): %v", r.lit(), err)
			}
			if unknownDec >= 0 && unknownDec != dec {
				cmFail("tunnels unknown to the hostmap are treated differently: %s / %s <- %v", cmDecNames[unknownDec], cmDecNames[dec], su.json())
			}
			unknownDec = dec
			unknownInert = unknownInert && inert
		}
		if first == nil {
			infeasible = append(infeasible, r.lit())
			continue
		}
		entries = append(entries, "E "+strings.TrimSuffix(strings.TrimPrefix(r.lit(), "(mkRow "), ")")+"  "+strings.TrimSuffix(strings.TrimPrefix(first.lit(), "(mkRes "), ")"))
	}
	fmt.Fprintf(&sb, "(* a check for a local index the hostmap does not hold: the decision, and whether every such check (one per\n   situation above) left the tunnel object, the hostmap, the timer and the sockets untouched *)\n"+
		"Definition tab_unknown_decision : decision := %s.\nDefinition tab_unknown_inert : bool := %v.\n\n", cmDecNames[unknownDec], unknownInert)
	fmt.Fprintf(&sb, "(* %d rows. No situation exists for the other %d feature combinations: an exhausted counter is past the rekey\n   threshold, which rules out swap eligibility.\n"+
		"   E cert disconnect_invalid exhausted primary in out pendingDeletion drop_inactive idle swapEligible\n"+
		"     decision pendingDeletion' timer punch removed notify probe touch clear primary' *)\n"+
		"Definition E c b1 b2 b3 b4 b5 b6 b7 b8 b9 d p t u r1 r2 r3 r4 r5 r6 : row * res :=\n  (mkRow c b1 b2 b3 b4 b5 b6 b7 b8 b9, mkRes d p t u r1 r2 r3 r4 r5 r6).\n"+
		"Definition tab_decide : list (row * res) := [\n %s].\n\n", len(entries), len(infeasible), strings.Join(entries, ";\n "))

	// shouldSwapPrimary
	var sw []string
	for _, r := range cmSwRows() {
		sw = append(sw, "("+r.lit()+", "+hx.Bool(swtab[r])+")")
	}
	fmt.Fprintf(&sb, "Definition tab_swap : list (swrow * bool) := [\n %s].\n\n", strings.Join(sw, ";\n "))

	// tryRehandshake
	var rh []string
	for _, r := range cmRhRows() {
		first := -1
		for v := 0; v < k+2; v++ {
			a := cmDrawRehs(c, r, v)
			x, err := cmEvalRehs(m, a)
			if err != nil {
				cmFail("tryRehandshake row %s: %v (%v)", r.lit(), err, a.json())
			}
			if first < 0 {
				first = x
			} else if first != x {
				cmFail("tryRehandshake row %s: situations disagree (%v)", r.lit(), a.json())
			}
		}
		rh = append(rh, "("+r.lit()+", "+cmHsNames[first]+")")
	}
	fmt.Fprintf(&sb, "Definition tab_rehs : list (rhrow * hs) := [\n %s].\n", strings.Join(rh, ";\n "))
	c.WriteFile("Tab_ConnMgr.v", sb.String())
}

// ---- connmgr: correspondence --------------------------------------------------------------------

type cmTun struct {
	h         int
	peer      int
	addr      netip.Addr
	myVer     int
	myVariant int
	pc        *nebula.VerifCMPeerCert
	ge        bool
}

func cmCtrLit(v uint64) (string, string) {
	switch {
	case v >= uint64(nebula.VerifCMRejectAfterMessages):
		return "CtrExh", "exhausted"
	case v >= uint64(nebula.VerifCMRehandshakeAfterMessages):
		return "CtrRekey", "rekey"
	}
	return "CtrLow", "low"
}

func cmOptN(zero bool, v int64) string {
	if zero {
		return hx.None()
	}
	return hx.Some(hx.N(uint64(v)))
}

func runConnMgr(c *hx.Ctx) {
	cw := c.NewCaseWriter("From NV Require Import lib.ConnMgr_lib model.ConnMgr corr.ConnMgr_corr.", "ConnMgr_corr.case", "ConnMgr_corr.check_case", 100)
	m := cmMaterial(c)

	// 1. boundary sweep: every row of every table, on a fresh concrete situation
	swtab := cmSwapTable(c, m, 3)
	for _, r := range cmAllRows() {
		s, x, err := cmRealise(c, m, swtab, r, c.Intn(16))
		if err != nil {
			cmFail("row %s: %v", r.lit(), err)
		}
		if s == nil {
			continue
		}
		cw.Add(hx.App("ConnMgr_corr.CRow", r.lit(), x.lit()), "row", true,
			map[string]any{"op": "check", "row": r, "result": x, "result_names": map[string]string{"decision": cmDecNames[x.Dec], "timer": cmTimerNames[x.Timer], "punch": cmPunchNames[x.Punch]}, "situation": s.json()})
	}
	for _, r := range cmSwRows() {
		a := cmDrawSwap(c, r, c.Intn(16))
		x := cmEvalSwap(m, a)
		cw.Add(hx.App("ConnMgr_corr.CSwap", r.lit(), hx.Bool(x)), "swap-row", true, map[string]any{"op": "shouldSwapPrimary", "row": r, "result": x, "situation": a.json()})
	}
	for _, r := range cmRhRows() {
		a := cmDrawRehs(c, r, c.Intn(16))
		x, err := cmEvalRehs(m, a)
		if err != nil {
			cmFail("tryRehandshake row %s: %v", r.lit(), err)
		}
		cw.Add(hx.App("ConnMgr_corr.CRehs", r.lit(), cmHsNames[x]), "rehandshake-row", true, map[string]any{"op": "tryRehandshake", "row": r, "result": cmHsNames[x], "situation": a.json()})
	}

	// 2. boundary corpus: busy with drop_inactive off, reload turning it on (and changing the timeout), quiet checks
	// around the timeout - every variant of cmReloadScript
	nCorpus := 24 // all timeout combinations, first quiet check at 5s / 40s; thorough adds the off/on flip variants
	if c.Tier == "thorough" {
		nCorpus = 48
	}
	for v := 0; v < nCorpus; v++ {
		T, ds := cmReloadScript(c, v)
		lit, kind, nontrivial, desc := cmHistory(c, m, 0, ds, T, "history-reload-corpus")
		cw.Add(lit, kind, nontrivial, desc)
	}

	// 3. random check histories through the real doTrafficCheck; one in five follows a (randomly chosen) reload script
	for i := 0; i < c.N; i++ {
		if c.Chance(0.2) {
			T, ds := cmReloadScript(c, c.Intn(48))
			lit, kind, nontrivial, desc := cmHistory(c, m, 0, ds, T, "history-reload")
			cw.Add(lit, kind, nontrivial, desc)
			continue
		}
		lit, kind, nontrivial, desc := cmHistory(c, m, 30+c.Intn(30), nil, 0, "history")
		cw.Add(lit, kind, nontrivial, desc)
	}
	cw.Close("every abstract row of the three tables on a fresh concrete situation, 24 (thorough: 48) scripted histories (busy with drop_inactive off, reload turning it on / changing the timeout, quiet checks at idle < timeout, timeout-1ns, = timeout), then random histories of 30-59 periodic checks over 6 tunnels to 3 peers " +
		"(traffic flags, clock advances up to the inactivity timeout, certificate expiry/blocklisting/authority removal, pki and config reloads, counter jumps); each check carries the harness's own idle time since it last injected traffic; " +
		"non-trivial = history in which a tunnel is removed and another decision kind occurs; distinct by literal")
}

// cmDirective scripts one check of a history: which tunnel, how far the clock moves, the traffic injected before
// it, and configuration reloads applied before it.
type cmDirective struct {
	ti      int
	dt      time.Duration
	in, out bool
	dropi   *bool
	timeout *time.Duration
}

var cmTimeouts = []time.Duration{30 * time.Second, 2 * time.Minute, 10 * time.Minute}

// cmReloadScript: a tunnel is busy for longer than the inactivity timeout while drop_inactive is OFF; a reload
// then turns drop_inactive on (and possibly changes the timeout); quiet checks follow at idle < timeout (must
// stay), timeout-1ns (must stay) and = timeout (may be closed). Variants change the timeout at the reload
// (longer, or shorter than the idle time already accumulated) and flip drop_inactive off and on again.
func cmReloadScript(c *hx.Ctx, variant int) (time.Duration, []cmDirective) {
	T := cmTimeouts[variant%3]
	T2 := T
	switch (variant / 3) % 4 {
	case 1:
		T2 = cmTimeouts[(variant+1)%3]
	case 2:
		T2 = cmTimeouts[(variant+2)%3]
	}
	on, off := true, false
	var ds []cmDirective
	for _, x := range []int{0, 5} { // the only tunnel of peer 0, the primary of peer 2
		busy := 3 + (variant+x)%4
		for i := 0; i < busy; i++ {
			ds = append(ds, cmDirective{ti: x, dt: T/2 + time.Duration(c.Intn(1000)), in: true, out: c.Chance(0.5)})
			if c.Chance(0.3) { // someone else is checked in between
				ds = append(ds, cmDirective{ti: 1 + c.Intn(4), dt: time.Duration(c.Intn(3000)) * time.Millisecond, in: true, out: true})
			}
		}
		first := 5 * time.Second // one check interval after the last traffic
		if (variant/12)%2 == 1 {
			first = 40 * time.Second // longer than the shortest timeout: a legitimate close if the new timeout is 30s
		}
		d := cmDirective{ti: x, dt: first, dropi: &on}
		if T2 != T {
			t2 := T2
			d.timeout = &t2
		}
		ds = append(ds, d)
		if (variant/24)%2 == 1 {
			ds = append(ds, cmDirective{ti: x, dt: 0, dropi: &off}, cmDirective{ti: x, dt: 0, dropi: &on})
		}
		if T2 > first+time.Nanosecond {
			ds = append(ds, cmDirective{ti: x, dt: T2 - first - time.Nanosecond}, cmDirective{ti: x, dt: time.Nanosecond})
		}
		ds = append(ds, cmDirective{ti: x, dt: time.Second}, cmDirective{ti: x, dt: 0, dropi: &off})
	}
	return T, ds
}

// cmHistory runs one history through the real doTrafficCheck. script == nil: `steps` random checks with random
// environment changes; otherwise the scripted checks on a quiet environment (no certificate / counter events).
func cmHistory(c *hx.Ctx, m *nebula.VerifCMMaterial, steps int, script []cmDirective, scriptT time.Duration, kindLabel string) (string, string, bool, any) {
	scripted := script != nil
	rnd := func(p float64) bool { return !scripted && c.Chance(p) }
	if scripted {
		steps = len(script)
	}
	myAddr := netip.MustParseAddr("10.1.128.7")
	if c.Chance(0.2) {
		myAddr = netip.MustParseAddr("fd00:1::7")
	}
	timeouts := cmTimeouts
	cfg := nebula.VerifCMConfig{CheckIntervalS: 5, PendingIntervalS: 10, InactivityTimeout: timeouts[c.Intn(3)], DropInactive: c.Chance(0.6),
		DisconnectInvalid: c.Chance(0.6), PunchAll: c.Chance(0.5)}
	if scripted {
		cfg.InactivityTimeout, cfg.DropInactive = scriptT, false
	}
	w := nebula.VerifCMNewWorld(m, myAddr, cfg, c.Chance(0.3))
	myNets := []netip.Prefix{netip.MustParsePrefix("10.1.128.7/16")}
	local := cmLocal{V1: 0, V2: 0, Initiating: 1 + c.Intn(2)}
	if c.Chance(0.3) {
		local.V2 = -1
		local.Initiating = 1
	}
	setLocal := func() {
		w.SetCertState(cmLocalCert(m, 1, local.V1, myNets), cmLocalCert(m, 2, local.V2, myNets), local.Initiating)
	}
	setLocal()
	pool := []int{0, 1, 2}
	blocked := map[string]bool{}
	setPool := func() {
		var bl []string
		for f, b := range blocked {
			if b {
				bl = append(bl, f)
			}
		}
		sort.Strings(bl)
		w.SetCAPool(pool, bl)
	}
	setPool()

	// three peers with 1, 2 and 3 tunnels; the tunnel added last is the primary
	var tuns []cmTun
	var tunDescs []any
	peerAddrs := []netip.Addr{netip.MustParseAddr("10.1.0.9"), netip.MustParseAddr("10.1.200.3"), netip.MustParseAddr("10.1.77.77")}
	if c.Chance(0.3) {
		peerAddrs[2] = netip.MustParseAddr("fd00:1::99")
	}
	nas := []time.Duration{6 * time.Minute, 25 * time.Minute, 2 * time.Hour, 2 * time.Hour}
	idx := uint32(100 + c.Intn(1000))
	for p := 0; p < 3; p++ {
		for j := 0; j <= p; j++ {
			t := cmTun{peer: p, addr: peerAddrs[p], myVer: 1 + c.Intn(2), myVariant: c.Intn(2)}
			if local.V2 < 0 {
				t.myVer = 1
			}
			if c.Chance(0.85) {
				ver := 1 + c.Intn(2)
				if !t.addr.Is4() {
					ver = 2
				}
				ca := c.Intn(2)
				if rnd(0.15) {
					ca = 2
				}
				na := nas[c.Intn(4)]
				if scripted {
					na = 2 * time.Hour
				}
				if ca == 2 {
					na = min(na, cmCALife[2])
				}
				t.pc = m.PeerCert(ca, ver, []netip.Prefix{cmPrefixOf(t.addr)}, -30*time.Minute, na)
			}
			t.ge = t.addr.Compare(myAddr) >= 0
			idx += uint32(1 + c.Intn(50))
			rem := netip.AddrPortFrom(netip.AddrFrom4([4]byte{192, 0, 2, byte(len(tuns) + 1)}), 4242)
			ctr := uint64(c.Intn(1000))
			t.h = w.AddTunnel(nebula.VerifCMTunnel{VpnAddrs: []netip.Addr{t.addr}, LocalIndex: idx, RemoteIndex: idx + 7000, Remote: rem,
				Remotes: []netip.AddrPort{rem, netip.AddrPortFrom(netip.AddrFrom4([4]byte{198, 18, 0, byte(len(tuns) + 1)}), 4242)},
				Peer:    t.pc, MyCert: m.LocalCert(t.myVer, t.myVariant, myNets), Counter: ctr, Register: true})
			tuns = append(tuns, t)
			d := map[string]any{"tunnel": len(tuns) - 1, "peer": p, "overlay_addr": t.addr.String(), "local_index": idx, "my_cert_version": t.myVer, "my_cert_variant": t.myVariant, "peer_cert": t.pc != nil}
			if t.pc != nil {
				d["peer_cert_ca"], d["peer_cert_version"], d["peer_cert_not_after_ns"] = t.pc.CA, t.pc.Version, int64(t.pc.NotAfter.Sub(cmBase))
			}
			tunDescs = append(tunDescs, d)
		}
	}
	// the hostmap order: newest first
	var order []string
	for i := len(tuns) - 1; i >= 0; i-- {
		order = append(order, hx.N(uint64(i)))
	}
	var tunLits []string
	for i, t := range tuns {
		tunLits = append(tunLits, hx.Tuple(hx.N(uint64(i)), hx.N(uint64(t.peer))))
	}

	now := cmBase.Add(time.Duration(c.Intn(30)) * time.Second)
	start := now
	// this harness's OWN record of when it last injected traffic into each tunnel (never read from HostInfo):
	// the tunnels are created at `start`
	lastTraffic := make([]time.Time, len(tuns))
	for i := range lastTraffic {
		lastTraffic[i] = start
	}
	var stepLits []string
	var stepDescs []any
	removed, kinds := 0, map[string]bool{}
	for sIdx := 0; sIdx < steps; sIdx++ {
		anyKnown := false
		for _, x := range tuns {
			anyKnown = anyKnown || w.Pre(x.h).Known
		}
		if !anyKnown && sIdx > 0 && rnd(0.7) {
			break // every tunnel is gone; a few more checks of dead tunnels at most
		}
		ti := c.Intn(len(tuns))
		for try := 0; try < 3 && !w.Pre(tuns[ti].h).Known && c.Chance(0.8); try++ {
			ti = c.Intn(len(tuns)) // mostly tunnels still in the hostmap
		}
		var dir cmDirective
		if scripted {
			dir = script[sIdx]
			ti = dir.ti
		}
		t := tuns[ti]
		// environment changes before this check
		var changes []string
		if dir.dropi != nil {
			cfg.DropInactive = *dir.dropi
			changes = append(changes, fmt.Sprintf("drop_inactive=%v", cfg.DropInactive))
		}
		if dir.timeout != nil {
			cfg.InactivityTimeout = *dir.timeout
			changes = append(changes, fmt.Sprintf("inactivity_timeout=%s", cfg.InactivityTimeout))
		}
		if rnd(0.08) {
			cfg.DisconnectInvalid = !cfg.DisconnectInvalid
			changes = append(changes, fmt.Sprintf("disconnect_invalid=%v", cfg.DisconnectInvalid))
		}
		if rnd(0.08) {
			cfg.DropInactive = !cfg.DropInactive
			changes = append(changes, fmt.Sprintf("drop_inactive=%v", cfg.DropInactive))
		}
		if rnd(0.05) {
			cfg.InactivityTimeout = timeouts[c.Intn(3)]
			changes = append(changes, fmt.Sprintf("inactivity_timeout=%s", cfg.InactivityTimeout))
		}
		w.Reconfigure(cfg)
		if rnd(0.04) && t.pc != nil {
			blocked[t.pc.Fingerprint] = !blocked[t.pc.Fingerprint]
			setPool()
			changes = append(changes, fmt.Sprintf("blocklist[tunnel %d]=%v", ti, blocked[t.pc.Fingerprint]))
		}
		if rnd(0.05) {
			pool = [][]int{{0, 1, 2}, {0, 1}, {1, 2}, {0, 2}, {0}}[c.Intn(5)]
			setPool()
			changes = append(changes, fmt.Sprintf("ca_pool=%v", pool))
		}
		if rnd(0.1) {
			switch c.Intn(5) {
			case 0:
				local.V1 = c.Intn(3) - 1
			case 1:
				local.V2 = c.Intn(3) - 1
			case 2:
				local.Initiating = 1 + c.Intn(2)
			case 3:
				local = cmLocal{V1: 1, V2: 1, Initiating: 2}
			case 4:
				local = cmLocal{V1: 0, V2: 0, Initiating: 1}
			}
			setLocal()
			changes = append(changes, fmt.Sprintf("own certificates=%+v", local))
		}
		if rnd(0.08) {
			v := uint64(nebula.VerifCMRehandshakeAfterMessages) + uint64(c.Intn(1000))
			if c.Chance(0.25) {
				v = uint64(nebula.VerifCMRejectAfterMessages) + uint64(c.Intn(1000))
			} else if c.Chance(0.3) {
				v = uint64(c.Intn(1000))
			}
			w.SetCounter(t.h, v)
			changes = append(changes, fmt.Sprintf("counter[tunnel %d]=%d", ti, v))
		}
		// clock
		var dt time.Duration
		switch c.Intn(20) {
		case 0, 1:
			dt = 0
		case 2:
			dt = cfg.InactivityTimeout
		case 3:
			dt = cfg.InactivityTimeout/2 + time.Duration(c.Intn(1000))
		case 4:
			dt = cfg.InactivityTimeout - time.Duration(1+c.Intn(3))
		case 5, 6:
			dt = time.Duration(c.Intn(120)) * time.Second
		default:
			dt = time.Duration(c.Intn(10_000)) * time.Millisecond
		}
		// traffic since the previous check
		in, out := c.Chance(0.6), c.Chance(0.5)
		if scripted {
			dt, in, out = dir.dt, dir.in, dir.out
		}
		now = now.Add(dt)
		if in {
			w.In(t.h)
		}
		if out {
			w.Out(t.h)
		}
		if in || out {
			lastTraffic[ti] = now
		}
		trueIdle := now.Sub(lastTraffic[ti])
		// abstract description of the situation, from what this harness itself set up
		cs := cmCertNone
		if t.pc != nil {
			caIn := false
			for _, x := range pool {
				if x == t.pc.CA {
					caIn = true
				}
			}
			switch {
			case blocked[t.pc.Fingerprint]:
				cs = cmCertBlock
			case !caIn || now.After(m.CANotAfter(t.pc.CA)) || now.Before(t.pc.NotBefore) || now.After(t.pc.NotAfter):
				cs = cmCertInvalid
			default:
				cs = cmCertOk
			}
		}
		ctr := w.Counter(t.h)
		if ctr == uint64(nebula.VerifCMRejectAfterMessages)-1 {
			ctr--
			w.SetCounter(t.h, ctr)
		}
		ctrLit, ctrName := cmCtrLit(ctr)
		loaded := func(v int) int {
			if v == 1 {
				return local.V1
			}
			return local.V2
		}
		lc := loaded(t.myVer) >= 0
		se := lc && loaded(t.myVer) == t.myVariant
		up := t.pc != nil && t.myVer < t.pc.Version && loaded(t.pc.Version) >= 0
		bi := t.myVer < local.Initiating

		pre := w.Pre(t.h)
		o := w.Check(t.h, now)
		if o.Panic != "" {
			cmFail("doTrafficCheck: %s", o.Panic)
		}
		timer := o.Timer
		if timer > 2 {
			cmFail("tunnel re-armed with an unknown interval")
		}
		ev := hx.App("mkEv", hx.N(uint64(dt)), hx.Bool(in), hx.Bool(out), cmCertNames[cs], hx.Bool(cfg.DisconnectInvalid), ctrLit,
			hx.Bool(cfg.DropInactive), hx.N(uint64(cfg.InactivityTimeout)), hx.Bool(t.ge), hx.Bool(lc), hx.Bool(se), hx.Bool(up), hx.Bool(bi))
		preLit := hx.App("mkPre", hx.Bool(pre.Known), hx.Bool(pre.Primary), hx.Bool(pre.In), hx.Bool(pre.Out), hx.Bool(pre.PendingDeletion),
			cmOptN(pre.LastUsedZero, int64(pre.LastUsed.Sub(start))))
		obLit := hx.App("mkOb", hx.Bool(pre.Known && !o.KnownAfter), hx.Bool(o.ClosePkts > 0), hx.Bool(o.TestPkts > 0), hx.Bool(o.PendingAfter),
			cmTimerNames[timer], hx.Bool(o.PrimaryAfter), cmHsNames[o.Handshake], hx.Bool(o.InAfter), hx.Bool(o.OutAfter))
		stepLits = append(stepLits, hx.Tuple(hx.N(uint64(ti)), ev, preLit, obLit, hx.N(uint64(trueIdle))))
		if pre.Known && !o.KnownAfter {
			removed++
		}
		switch {
		case o.TestPkts > 0:
			kinds["probe"] = true
		case o.Handshake > 0:
			kinds["rehandshake"] = true
		case pre.Known && !pre.Primary && o.PrimaryAfter:
			kinds["swap"] = true
		}
		stepDescs = append(stepDescs, map[string]any{"step": sIdx, "tunnel": ti, "changes": changes, "dt_ns": int64(dt), "now_ns_after_start": int64(now.Sub(start)),
			"in": in, "out": out, "true_idle_ns": int64(trueIdle), "cert": cmCertNames[cs], "disconnect_invalid": cfg.DisconnectInvalid, "drop_inactive": cfg.DropInactive,
			"inactivity_timeout_ns": int64(cfg.InactivityTimeout), "counter": fmt.Sprint(ctr), "counter_class": ctrName,
			"own_cert": map[string]bool{"loaded": lc, "same_signature": se, "peer_version_higher_and_held": up, "below_initiating_version": bi},
			"before":   map[string]any{"in_hostmap": pre.Known, "primary": pre.Primary, "in": pre.In, "out": pre.Out, "pending_deletion": pre.PendingDeletion, "last_used_zero": pre.LastUsedZero, "last_used_ns_after_start": int64(pre.LastUsed.Sub(start))},
			"observed": map[string]any{"removed": pre.Known && !o.KnownAfter, "close_tunnel_packets": o.ClosePkts, "test_packets": o.TestPkts, "pending_deletion": o.PendingAfter,
				"timer": cmTimerNames[timer], "primary_after": o.PrimaryAfter, "handshake": cmHsNames[o.Handshake]}})
	}
	lit := hx.App("ConnMgr_corr.CHist", hx.List(tunLits), hx.List(order), hx.List(stepLits))
	return lit, kindLabel, (removed > 0 && len(kinds) > 0) || scripted, map[string]any{"op": kindLabel, "my_addr": myAddr.String(), "tunnels": tunDescs, "steps": stepDescs}
}

//go:build comp_all || comp_ipparse || comp_reject

package main

import "encoding/binary"

// ---- packet builders ----------------------------------------------------------------------------

func ippV6Fixed(nh byte, payloadLen int, src, dst [16]byte) []byte {
	b := make([]byte, 40)
	b[0] = 0x60
	binary.BigEndian.PutUint16(b[4:], uint16(payloadLen))
	b[6] = nh
	b[7] = 64
	copy(b[8:24], src[:])
	copy(b[24:40], dst[:])
	return b
}

// one extension header of the given kind, `l` is the value of its length byte (ignored for fragment headers),
// fragOff13/m fill a fragment header. body bytes are `fill`.
func ippExt(kind, next byte, l int, fragOff13 int, resM byte, fill byte) []byte {
	var n int
	switch kind {
	case 44:
		h := make([]byte, 8)
		h[0] = next
		h[1] = fill
		binary.BigEndian.PutUint16(h[2:], uint16(fragOff13<<3)|uint16(resM&7))
		h[4], h[5], h[6], h[7] = 0xde, 0xad, 0xbe, 0xef
		return h
	case 51:
		n = (l + 2) * 4
	default:
		n = (l + 1) * 8
	}
	h := make([]byte, n)
	for i := range h {
		h[i] = fill
	}
	h[0] = next
	h[1] = byte(l)
	return h
}

var ippSrc6 = [16]byte{0xfd, 0, 0, 0, 0, 0, 0, 0, 0, 0, 0, 0, 0, 0, 0, 1}
var ippDst6 = [16]byte{0xfd, 0, 0, 0, 0, 0, 0, 0, 0, 0, 0, 0, 0, 0, 0, 2}

func ippChain(kinds []byte, lens []int, terminal byte, payload []byte) []byte {
	body := []byte{}
	for i, k := range kinds {
		next := terminal
		if i+1 < len(kinds) {
			next = kinds[i+1]
		}
		body = append(body, ippExt(k, next, lens[i], 0, 1, 0)...)
	}
	first := terminal
	if len(kinds) > 0 {
		first = kinds[0]
	}
	body = append(body, payload...)
	return append(ippV6Fixed(first, len(body), ippSrc6, ippDst6), body...)
}

func ippTCP(sp, dp uint16, flags byte) []byte {
	t := make([]byte, 20)
	binary.BigEndian.PutUint16(t[0:], sp)
	binary.BigEndian.PutUint16(t[2:], dp)
	binary.BigEndian.PutUint32(t[4:], 0x01020304)
	binary.BigEndian.PutUint32(t[8:], 0x0a0b0c0d)
	t[12] = 5 << 4
	t[13] = flags
	return t
}
func ippUDP(sp, dp uint16) []byte {
	u := make([]byte, 8)
	binary.BigEndian.PutUint16(u[0:], sp)
	binary.BigEndian.PutUint16(u[2:], dp)
	binary.BigEndian.PutUint16(u[4:], 8)
	return u
}
func ippICMP(typ, code byte, id, seq uint16) []byte {
	m := make([]byte, 8)
	m[0], m[1] = typ, code
	binary.BigEndian.PutUint16(m[4:], id)
	binary.BigEndian.PutUint16(m[6:], seq)
	return m
}
func ippV4(ihlWords int, proto byte, flagsFrag uint16, payload []byte) []byte {
	h := make([]byte, ihlWords*4)
	h[0] = 0x40 | byte(ihlWords&0x0f)
	binary.BigEndian.PutUint16(h[2:], uint16(len(h)+len(payload)))
	binary.BigEndian.PutUint16(h[4:], 0x4242)
	binary.BigEndian.PutUint16(h[6:], flagsFrag)
	h[8] = 64
	if len(h) > 9 {
		h[9] = proto
	}
	if len(h) >= 20 {
		copy(h[12:16], []byte{10, 1, 2, 3})
		copy(h[16:20], []byte{192, 168, 7, 9})
	}
	for i := 20; i < len(h); i++ {
		h[i] = byte(i)
	}
	return append(h, payload...)
}

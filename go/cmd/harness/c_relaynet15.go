//go:build e2e_testing && (comp_all || comp_outside)

package main

// C15 netsim component `relaynet15`: endpoints A and A2 reach B only through the relay R (all real nodes built by
// nebula.Main). The harness plays a MALICIOUS R: it records every byte R receives and everything R writes to its
// tun; it replaces what R forwards to B by rewritten payloads re-wrapped in a perfectly valid relay packet (made
// with the key R shares with B); it forwards payloads under the relay record of the other peer (lying about the
// relayed-from address); it tears the relay tunnels down, lets them be re-established and replays old-session
// packets. Observed at B: what reaches the tun, which tunnel it is attributed to, and the state digest.

import (
	"bytes"
	"encoding/binary"
	"fmt"
	"net/netip"

	"github.com/slackhq/nebula"
	"github.com/slackhq/nebula/header"
	"verifharness/hx"
)

func init() { hx.Register("relaynet15", relay15Run) }

const (
	r15A  = "A"
	r15A2 = "A2"
	r15R  = "R"
	r15B  = "B"
)

var r15Kinds = []string{"KGenuine", "KFlipCt", "KCtr", "KIdx", "KOwnKey", "KClaimOther", "KReplay", "KTrunc", "KSplice", "KOldSession", "KJunk"}

const (
	r15Genuine = iota
	r15FlipCt
	r15Ctr
	r15Idx
	r15OwnKey
	r15ClaimOther
	r15Replay
	r15Trunc
	r15Splice
	r15OldSession
	r15Junk
)

type relay15 struct {
	c       *hx.Ctx
	w       *outsWorld
	cw      *hx.CaseWriter
	seen    [][]byte // every datagram that reached R
	markers [][]byte
	seq     int
	far     uint64
	farBase map[uint32]uint64
	fails   []map[string]any
}

func (L *relay15) marker() []byte {
	L.seq++
	m := []byte(fmt.Sprintf("C15-PLAINTEXT-MARKER-%04d-", L.seq))
	m = append(m, L.c.RandBytes(8)...)
	for i := len(m) - 8; i < len(m); i++ { // printable, so that it cannot occur by accident in short random fields
		m[i] = 'a' + m[i]%26
	}
	L.markers = append(L.markers, m)
	return m
}

// relayIdxAt: the relay index at node `at` of the terminal record (on its tunnel to R) for peer `peer`.
func (L *relay15) relayIdxAt(at, peer string) (uint32, bool) {
	n := L.w.n(at)
	for _, r := range n.RelayRecords() {
		if r.Type == nebula.VerifOutsideTerminalType && r.Peer == L.w.n(peer).vpn {
			return r.Local, true
		}
	}
	return 0, false
}

// observe injects one datagram "from R" into B and reports: delivered (a marker reached B's tun), toOwner (the IP source
// of what was delivered and the tunnel whose window advanced belong to `owner`), mask (effects).
func (L *relay15) observe(kind int, owner string, fresh bool, pkt []byte, want []byte, desc map[string]any) {
	w := L.w
	b, r := w.n(r15B), w.n(r15R)
	b.ClearIn()
	b.DrainUDP()
	b.DrainTun()
	before := b.Digest()
	pn := b.Inject(r.udp, pkt)
	udp, tun := b.DrainUDP(), b.DrainTun()
	after := b.Digest()
	var inner []byte
	if len(pkt) >= 48 {
		inner = pkt[16 : len(pkt)-16]
	}
	mask, notes := outsClassify(before, after, udp, tun, inner)
	if pn != "" {
		mask |= 1 << outsEOther
		notes = append(notes, "panic: "+pn)
	}
	delivered, toOwner := false, true
	ot, _ := b.Tunnel(w.n(owner).vpn)
	for _, p := range tun {
		if want != nil && bytes.Contains(p, want) {
			delivered = true
		}
		if len(p) >= 20 {
			src, _ := netip.AddrFromSlice(p[12:16])
			if src != w.n(owner).vpn {
				toOwner = false
			}
		}
	}
	if len(tun) > 0 && !delivered {
		// something reached the tun that is not the plaintext the peer sent
		mask |= 1 << outsEOther
		notes = append(notes, "a packet other than the sender's plaintext reached the tun")
	}
	// attribution in the hostmap: only the owner's tunnel (and the relay's) may have moved
	for l, bt := range before.Tunnels {
		at := after.Tunnels[l]
		if at == nil || (bt["win"] == at["win"] && bt["in"] == at["in"]) {
			continue
		}
		t, _ := b.TunnelByLocal(l)
		if l != ot.Local && len(t.VpnAddrs) > 0 && t.VpnAddrs[0] != r.vpn {
			toOwner = false
		}
	}
	desc["kind"], desc["owner"], desc["fresh"], desc["delivered"], desc["to_owner"], desc["effects"], desc["notes"] =
		r15Kinds[kind], owner, fresh, delivered, toOwner, outsMaskNames(mask), notes
	L.cw.Add(hx.App("RelayE2E_corr.CRelay", r15Kinds[kind], hx.Bool(fresh), hx.Bool(delivered), hx.Bool(toOwner), hx.N(uint64(mask))),
		r15Kinds[kind], delivered, desc)
	// let whatever B answered (test replies, recv_errors, acks) flow
	for _, p := range udp {
		if to := w.byUDP[p.To]; to != "" && !w.blocked(r15B, to) {
			w.nodes[to].Inject(p.From, p.Data)
		}
	}
	w.settle(2)
}

// wrap makes the relay packet a malicious R would send to B around `inner`, under relay index ridx, with the key R
// shares with B (B's receive key of that tunnel) and a counter R has not used.
func (L *relay15) wrap(ridx uint32, inner []byte) []byte {
	// a counter the real R will not reach in this session and that keeps R's own (small) counters inside B's window
	L.far++
	b := L.w.n(r15B)
	owner, _ := b.RelayOwner(ridx)
	if L.farBase[owner.Local] == 0 {
		L.farBase[owner.Local] = owner.WinCur + 2000
	}
	return b.SealRelay(ridx, ridx, header.Version, 1, 1, L.farBase[owner.Local]+L.far, inner)
}

// sendAndHold makes `from` send one marked UDP packet to B and returns the relay packet R forwards to B (withheld).
func (L *relay15) sendAndHold(from string) (held []byte, mark []byte) {
	w := L.w
	a, b := w.n(from), w.n(r15B)
	mark = L.marker()
	w.hold = func(x *outsWire) bool {
		return x.parsed && x.from == r15R && x.to == r15B && x.h.Type == header.Message && x.h.Subtype == header.MessageRelay
	}
	w.held = nil
	a.TunSend(outsUDP4(a.vpn, b.vpn, 9000, 9001, mark))
	w.settle(3)
	hs := w.held
	w.hold, w.held = nil, nil
	if len(hs) == 0 {
		return nil, mark
	}
	return hs[len(hs)-1].data, mark
}

func (L *relay15) attackOne(from, other string, oldSession [][]byte) {
	c := L.c
	held, mark := L.sendAndHold(from)
	if held == nil {
		panic("relaynet15: no relayed packet from " + from)
	}
	var oh header.H
	_ = oh.Parse(held)
	ridx := oh.RemoteIndex
	inner := append([]byte(nil), held[16:len(held)-16]...)
	d := func(what string) map[string]any { return map[string]any{"from": from, "what": what} }
	// rewrites first (the genuine packet is still undelivered, so a rewrite that got through WOULD be delivered)
	for k := 0; k < 6; k++ {
		q := append([]byte(nil), inner...)
		bit := 128 + c.Intn((len(q)-16)*8)
		q[bit/8] ^= 1 << (bit % 8)
		L.observe(r15FlipCt, from, true, L.wrap(ridx, q), mark, d(fmt.Sprintf("payload ciphertext/tag bit %d flipped, re-wrapped with a valid relay tag", bit)))
	}
	{
		var ih header.H
		_ = ih.Parse(inner)
		for _, delta := range []uint64{1, 2, 1 << 20} {
			q := append([]byte(nil), inner...)
			binary.BigEndian.PutUint64(q[8:16], ih.MessageCounter+delta)
			L.observe(r15Ctr, from, true, L.wrap(ridx, q), mark, d("payload header counter changed"))
		}
		if ot, ok := L.w.n(r15B).Tunnel(L.w.n(other).vpn); ok {
			q := append([]byte(nil), inner...)
			binary.BigEndian.PutUint32(q[4:8], ot.Local)
			L.observe(r15Idx, from, true, L.wrap(ridx, q), mark, d("payload header index changed to the other peer's tunnel"))
		}
	}
	{ // the relay encrypts the plaintext it would like B to accept under the key it has (its own tunnel with B)
		b := L.w.n(r15B)
		rt, _ := b.Tunnel(L.w.n(r15R).vpn)
		at, _ := b.Tunnel(L.w.n(from).vpn)
		forged := b.Seal(rt.Local, at.Local, header.Version, 1, 0, at.WinCur+1, outsUDP4(L.w.n(from).vpn, b.vpn, 9000, 9001, mark))
		L.observe(r15OwnKey, from, true, L.wrap(ridx, forged), mark, d("payload encrypted by the relay under its own tunnel key, index of the victim tunnel"))
	}
	for _, n := range []int{0, 8, 16, 17, 31, 32, len(inner) - 17, len(inner) - 1} {
		if n >= 0 && n < len(inner) {
			L.observe(r15Trunc, from, true, L.wrap(ridx, inner[:n]), mark, d(fmt.Sprintf("payload truncated to %d bytes", n)))
		}
	}
	L.observe(r15Junk, from, true, L.wrap(ridx, c.RandBytes(len(inner))), mark, d("payload replaced by random bytes"))
	// splice with a second genuine payload of the same tunnel
	held2, mark2 := L.sendAndHold(from)
	if held2 != nil {
		inner2 := held2[16 : len(held2)-16]
		q := append(append([]byte(nil), inner[:16]...), inner2[16:]...)
		L.observe(r15Splice, from, true, L.wrap(ridx, q), mark2, d("header of one payload, ciphertext of the next"))
		q = append(append([]byte(nil), inner2[:16]...), inner[16:]...)
		L.observe(r15Splice, from, true, L.wrap(ridx, q), mark, d("header of the next payload, ciphertext of this one"))
	}
	// relay packets of the previous relay session (old relay tunnel keys)
	for _, o := range oldSession {
		L.observe(r15OldSession, from, true, o, nil, d("relay packet recorded before the relay tunnels were re-established"))
	}
	// lying about the relayed-from address: the genuine payload under the relay record of the OTHER peer
	if oidx, ok := L.relayIdxAt(r15B, other); ok {
		L.observe(r15ClaimOther, from, true, L.wrap(oidx, inner), mark, d("genuine payload forwarded under the relay record that claims "+other))
		L.observe(r15Replay, from, false, L.wrap(ridx, inner), mark, d("the same payload again under its own record"))
		L.observe(r15Replay, from, false, held, mark, d("the withheld original relay packet (payload already delivered)"))
	} else {
		L.observe(r15Genuine, from, true, held, mark, d("the genuine relay packet"))
		L.observe(r15Replay, from, false, L.wrap(ridx, inner), mark, d("the same payload again, freshly wrapped"))
	}
	if held2 != nil {
		L.observe(r15Genuine, from, true, held2, mark2, d("the genuine relay packet"))
		L.observe(r15Replay, from, false, held2, mark2, d("replayed"))
	}
}

// crossPaths: a session of end-to-end frames of `from`, each identified by its end-to-end counter, delivered to B in
// adversarial orders over BOTH paths: through the relay (the withheld relay packet, or the frame wrapped again by
// the relay) and directly (the bare inner frame - outer header and tag stripped, which needs no key - from an
// arbitrary underlay address). One counter space, one replay window: whichever path a frame arrives on first, every
// later copy on any path must be refused, and a refused copy must not roam the tunnel.
func (L *relay15) crossPaths(from string, nframes int) {
	c, w := L.c, L.w
	b := w.n(r15B)
	type frame struct {
		held, inner, mark []byte
		ctr               uint64
		ridx              uint32
	}
	var frames []frame
	for i := 0; i < nframes; i++ {
		held, mark := L.sendAndHold(from)
		if held == nil {
			panic("relaynet15: no relayed packet from " + from)
		}
		var oh, ih header.H
		_ = oh.Parse(held)
		inner := append([]byte(nil), held[16:len(held)-16]...)
		_ = ih.Parse(inner)
		frames = append(frames, frame{held: held, inner: inner, mark: mark, ctr: ih.MessageCounter, ridx: oh.RemoteIndex})
	}
	// path codes: 0 the withheld relay packet, 1 the frame wrapped again by the relay, 2 the bare frame sent directly
	type step struct{ f, path int }
	var script []step
	for i := range frames {
		switch i % 4 {
		case 0: // through the relay, then the stripped frame directly, then wrapped again
			script = append(script, step{i, 0}, step{i, 2}, step{i, 1})
		case 1: // directly first, then through the relay twice
			script = append(script, step{i, 2}, step{i, 1}, step{i, 0})
		case 2: // directly twice (two addresses), then through the relay
			script = append(script, step{i, 2}, step{i, 2}, step{i, 0})
		default: // wrapped by the relay, the original relay packet, then directly
			script = append(script, step{i, 1}, step{i, 0}, step{i, 2})
		}
	}
	// reorder: interleave the frames (every frame's own order of paths is kept, so "first arrival" stays defined)
	for i := len(script) - 1; i > 0; i-- {
		j := c.Intn(i + 1)
		if script[i].f != script[j].f {
			ok := true
			lo, hi := j, i
			for k := lo; k <= hi; k++ { // swapping must not move a step across another step of the same frame
				if k != i && script[k].f == script[i].f || k != j && script[k].f == script[j].f {
					ok = false
				}
			}
			if ok {
				script[i], script[j] = script[j], script[i]
			}
		}
	}
	owner := w.n(from)
	var lits []string
	var descs []map[string]any
	for n, st := range script {
		f := frames[st.f]
		ot, _ := b.Tunnel(owner.vpn)
		b.ClearIn()
		b.DrainUDP()
		b.DrainTun()
		before := b.Digest()
		src := w.n(r15R).udp
		var pkt []byte
		switch st.path {
		case 0:
			pkt = f.held
		case 1:
			pkt = L.wrap(f.ridx, f.inner)
		default:
			src = netip.AddrPortFrom(netip.AddrFrom4([4]byte{198, 51, 100, byte(10 + n)}), uint16(30000+n))
			pkt = f.inner
		}
		pn := b.Inject(src, pkt)
		tun := b.DrainTun()
		b.DrainUDP()
		after := b.Digest()
		delivered, toOwner := false, pn == ""
		for _, p := range tun {
			if bytes.Contains(p, f.mark) {
				delivered = true
			} else {
				toOwner = false // something else than the sender's plaintext reached the tun
			}
			if len(p) >= 20 {
				if sa, _ := netip.AddrFromSlice(p[12:16]); sa != owner.vpn {
					toOwner = false
				}
			}
		}
		if len(tun) > 1 {
			toOwner = false
		}
		for l, bt := range before.Tunnels { // only the owner's tunnel and the relay's may have moved
			at := after.Tunnels[l]
			if at == nil || (bt["win"] == at["win"] && bt["in"] == at["in"] && bt["remote"] == at["remote"]) {
				continue
			}
			t, _ := b.TunnelByLocal(l)
			if l != ot.Local && len(t.VpnAddrs) > 0 && t.VpnAddrs[0] != w.n(r15R).vpn {
				toOwner = false
			}
		}
		roamed := before.Tunnels[ot.Local]["remote"] != after.Tunnels[ot.Local]["remote"]
		if roamed { // put the tunnel back on the relay path for the next step
			b.SetRemote(ot.Local, netip.AddrPort{})
		}
		lits = append(lits, hx.Tuple(hx.N(f.ctr), hx.Bool(st.path != 2), hx.Bool(delivered), hx.Bool(toOwner), hx.Bool(roamed)))
		descs = append(descs, map[string]any{"e2e_counter": f.ctr, "path": []string{"relay packet as forwarded", "frame wrapped again by the relay", "bare inner frame sent directly"}[st.path],
			"src": src.String(), "delivered": delivered, "to_owner": toOwner, "roamed": roamed})
	}
	w.settle(2)
	nd := 0
	for _, d := range descs {
		if d["delivered"].(bool) {
			nd++
		}
	}
	L.cw.Add(hx.App("RelayE2E_corr.CCross", hx.List(lits)), "cross-path", nd > 0, map[string]any{"from": from, "frames": nframes, "steps": descs})
}

func relay15Run(c *hx.Ctx) {
	specs := []outsNodeSpec{
		{name: r15A, vpn: "10.128.0.2/24", udp: "10.0.0.2:4242"},
		{name: r15A2, vpn: "10.128.0.3/24", udp: "10.0.0.3:4242"},
		{name: r15R, vpn: "10.128.0.128/24", udp: "10.0.0.128:4242", amRelay: true},
		{name: r15B, vpn: "10.128.0.9/24", udp: "10.0.0.9:4242"},
	}
	w := outsNewWorld(specs...)
	L := &relay15{c: c, w: w, farBase: map[uint32]uint64{}}
	L.cw = c.NewCaseWriter("From NV Require Import corr.RelayE2E_corr.", "RelayE2E_corr.case", "RelayE2E_corr.check_case", 1000)
	a, a2, r, b := w.n(r15A), w.n(r15A2), w.n(r15R), w.n(r15B)
	w.block[[2]string{r15A, r15B}] = true
	w.block[[2]string{r15A2, r15B}] = true
	w.block[[2]string{r15A, r15A2}] = true
	// everything that reaches R is recorded
	w.tap = func(x *outsWire) [][]byte {
		if x.to == r15R {
			L.seen = append(L.seen, append([]byte(nil), x.data...))
		}
		return [][]byte{x.data}
	}
	learn := func() {
		a.LearnAddr(r.vpn, r.udp)
		a2.LearnAddr(r.vpn, r.udp)
		a.LearnRelays(b.vpn, []netip.Addr{r.vpn})
		a2.LearnRelays(b.vpn, []netip.Addr{r.vpn})
		b.LearnRelays(a.vpn, []netip.Addr{r.vpn})
		b.LearnRelays(a2.vpn, []netip.Addr{r.vpn})
		r.LearnAddr(b.vpn, b.udp)
		b.LearnAddr(r.vpn, r.udp)
	}
	learn()
	up := func() {
		a.TunSend(outsUDP4(a.vpn, b.vpn, 9000, 9001, L.marker()))
		w.settle(14)
		a2.TunSend(outsUDP4(a2.vpn, b.vpn, 9000, 9001, L.marker()))
		w.settle(14)
		b.TunSend(outsUDP4(b.vpn, a.vpn, 9001, 9000, L.marker()))
		b.TunSend(outsUDP4(b.vpn, a2.vpn, 9001, 9000, L.marker()))
		w.settle(6)
	}
	up()
	if _, ok := L.relayIdxAt(r15B, r15A); !ok {
		panic("relaynet15: the relayed tunnel A->B did not come up")
	}
	if _, ok := L.relayIdxAt(r15B, r15A2); !ok {
		panic("relaynet15: the relayed tunnel A2->B did not come up")
	}
	w.takeTun(r15B)
	rounds := 2
	if c.N > 0 {
		rounds = c.N
	}
	var old [][]byte
	for round := 0; round < rounds; round++ {
		L.attackOne(r15A, r15A2, old)
		L.attackOne(r15A2, r15A, old)
		for k := 0; k < 3; k++ {
			L.crossPaths(r15A, 4+k)
			L.crossPaths(r15A2, 3+k)
		}
		// record relay packets of this session, then R tears its tunnels down; the endpoints find the relay again
		held, _ := L.sendAndHold(r15A)
		if held != nil {
			old = append(old, held)
			b.Inject(r.udp, held)
			b.DrainTun()
		}
		for _, peer := range []*outsNode{a, a2, b} {
			for i := 0; i < 8; i++ {
				t, ok := r.Tunnel(peer.vpn)
				if !ok {
					break
				}
				r.SendClose(peer.vpn)
				r.CloseLocal(t.Local)
			}
		}
		w.settle(4)
		// the endpoints' connection managers would now find their relayed tunnels dead and drop them
		for _, pair := range [][2]*outsNode{{a, b}, {a2, b}, {b, a}, {b, a2}} {
			for i := 0; i < 8; i++ {
				t, ok := pair[0].Tunnel(pair[1].vpn)
				if !ok {
					break
				}
				pair[0].CloseLocal(t.Local)
			}
			pair[0].DropPending(pair[1].vpn)
		}
		learn()
		up()
		w.takeTun(r15B)
		if _, ok := L.relayIdxAt(r15B, r15A); !ok {
			panic("relaynet15: the relayed tunnel A->B did not come back after the relay tore it down")
		}
	}
	L.attackOne(r15A, r15A2, old)
	L.crossPaths(r15A, 8)
	// what R saw and holds
	leak := 0
	for _, m := range L.markers {
		for _, s := range L.seen {
			if bytes.Contains(s, m) {
				leak++
			}
		}
	}
	rtun := len(w.takeTun(r15R)) + len(r.DrainTun())
	L.cw.Add(hx.App("RelayE2E_corr.CView", hx.N(uint64(len(L.seen))), hx.N(uint64(len(L.markers))), hx.N(uint64(leak)), hx.N(uint64(rtun))), "relay-view", true,
		map[string]any{"datagrams_seen_by_relay": len(L.seen), "plaintext_markers": len(L.markers), "markers_found_in_relay_view": leak, "packets_on_relay_tun": rtun})
	L.cw.Meta("relay_sessions", rounds+1)
	L.cw.Close("a malicious relay between real nodes: rewritten / truncated / spliced / re-encrypted / replayed payloads re-wrapped in valid relay packets, payloads forwarded under the other peer's relay record, relay tunnels torn down and re-established with old-session packets replayed; sessions of end-to-end frames delivered in adversarial orders over both paths (relay packet, frame wrapped again by the relay, bare inner frame sent directly from an arbitrary address): one counter delivered at most once whatever the path, refused copies do not roam; every byte the relay received searched for the plaintext markers; non-trivial = the payload was delivered")
}

//go:build comp_all || comp_header

package main

import (
	"fmt"
	"strings"

	"github.com/slackhq/nebula/header"
	"verifharness/hx"
)

func init() {
	hx.Register("gen_header", genHeader)
	hx.Register("header", runHeader)
}

// genHeader (T1+T2): header.Len/Version and the complete IsValidSubType table, by exhaustive evaluation
// of the real function over all 256 x 256 (type, subtype) values.
func genHeader(c *hx.Ctx) {
	var sb strings.Builder
	sb.WriteString("(* GENERATED from /repo/header by harness gen_header: do not edit *)\nFrom Coq Require Import List NArith.\nImport ListNotations.\nOpen Scope N_scope.\n")
	fmt.Fprintf(&sb, "Definition header_len : N := %d.\nDefinition header_version : N := %d.\n", header.Len, header.Version)
	fmt.Fprintf(&sb, "Definition t_handshake : N := %d.\nDefinition t_message : N := %d.\nDefinition t_recv_error : N := %d.\nDefinition t_lighthouse : N := %d.\nDefinition t_test : N := %d.\nDefinition t_close_tunnel : N := %d.\nDefinition t_control : N := %d.\n",
		header.Handshake, header.Message, header.RecvError, header.LightHouse, header.Test, header.CloseTunnel, header.Control)
	var pairs []string
	for t := 0; t < 256; t++ {
		for s := 0; s < 256; s++ {
			h := header.H{Type: header.MessageType(t), Subtype: header.MessageSubType(s)}
			a := header.IsValidSubType(header.MessageType(t), header.MessageSubType(s))
			if a != h.IsValidSubType() {
				panic("IsValidSubType method and function disagree")
			}
			if a {
				pairs = append(pairs, fmt.Sprintf("(%d, %d)", t, s))
			}
		}
	}
	fmt.Fprintf(&sb, "(* every (type, subtype) in 0..255 x 0..255 for which header.IsValidSubType returned true *)\nDefinition valid_subtype_pairs : list (N * N) := [%s].\n", strings.Join(pairs, "; "))
	c.WriteFile("Tab_Header.v", sb.String())
}

func runHeader(c *hx.Ctx) {
	cw := c.NewCaseWriter("From NV Require Import corr.Header_corr.", "Header_corr.case", "Header_corr.check_case", 2000)
	// boundary sweep first: every (type, subtype) with type < 16 and subtype < 8
	for t := 0; t < 16; t++ {
		for s := 0; s < 8; s++ {
			r := header.IsValidSubType(header.MessageType(t), header.MessageSubType(s))
			cw.Add(hx.App("Header_corr.CValid", hx.N(uint64(t)), hx.N(uint64(s)), hx.Bool(r)), "valid-sweep", r,
				map[string]any{"op": "valid", "t": t, "s": s, "r": r})
		}
	}
	for i := 0; i < c.N; i++ {
		switch c.Intn(3) {
		case 0: // encode
			v := uint8(c.EdgeU64(8))
			if c.Chance(0.7) {
				v &= 0x0f
			}
			t := uint8(c.EdgeU64(8))
			if c.Chance(0.7) {
				t &= 0x0f
			}
			st := uint8(c.EdgeU64(8))
			ri := uint32(c.EdgeU64(32))
			ctr := c.EdgeU64(64)
			capN := 16 + c.Intn(8)
			buf := c.RandBytes(capN) // dirty buffer: Encode must overwrite all 16 bytes incl. reserved
			out := header.Encode(buf, v, header.MessageType(t), header.MessageSubType(st), ri, ctr)
			cw.Add(hx.App("Header_corr.CEnc", hx.N(uint64(v)), hx.N(uint64(t)), hx.N(uint64(st)), hx.N(uint64(ri)), hx.N(ctr), hx.Bytes(out)),
				"encode", v < 16 && t < 16, map[string]any{"op": "encode", "v": v, "t": t, "st": st, "ri": ri, "c": ctr, "out": hx.Ints(out)})
		case 1: // parse arbitrary bytes
			l := c.Intn(40)
			if c.Chance(0.3) {
				l = 14 + c.Intn(4)
			}
			// the packet is a sub-slice of a larger dirty buffer, as a reused UDP read buffer is: Parse must
			// judge len(b), not cap(b), and must not read the stale bytes behind it
			big := c.RandBytes(l + 8 + c.Intn(24))
			b := big[:l]
			var h header.H
			h.Version, h.Reserved, h.RemoteIndex = 0xaa, 0xbbbb, 0xcccccccc // dirty: Parse must not leave stale fields
			err := h.Parse(b)
			res := hx.None()
			if err == nil {
				res = hx.Some(hx.Tuple(hx.N(uint64(h.Version)), hx.N(uint64(h.Type)), hx.N(uint64(h.Subtype)), hx.N(uint64(h.Reserved)), hx.N(uint64(h.RemoteIndex)), hx.N(h.MessageCounter)))
			}
			// sensitivity to bytes beyond 16: parse a copy with a mutated tail
			tailIndep := true
			if l > 16 {
				b2 := append([]byte{}, b...)
				for j := 16; j < l; j++ {
					b2[j] ^= 0xff
				}
				var h2 header.H
				h2.Version, h2.Reserved, h2.RemoteIndex = 0xaa, 0xbbbb, 0xcccccccc
				err2 := h2.Parse(b2)
				tailIndep = (err2 == nil) == (err == nil) && h2 == h
			}
			cw.Add(hx.App("Header_corr.CParse", hx.Bytes(b), res, hx.Bool(tailIndep)), "parse", l >= 16,
				map[string]any{"op": "parse", "bytes": hx.Ints(b), "ok": err == nil})
		case 2: // valid subtype
			t := uint8(c.EdgeU64(8))
			if c.Chance(0.8) {
				t = uint8(c.Intn(9))
			}
			s := uint8(c.EdgeU64(8))
			if c.Chance(0.8) {
				s = uint8(c.Intn(4))
			}
			r := header.IsValidSubType(header.MessageType(t), header.MessageSubType(s))
			cw.Add(hx.App("Header_corr.CValid", hx.N(uint64(t)), hx.N(uint64(s)), hx.Bool(r)), "valid", r,
				map[string]any{"op": "valid", "t": t, "s": s, "r": r})
		}
	}
	cw.Close("random + edge-biased header fields / byte strings of length 0..39; non-trivial = encode with 4-bit version/type, parse of >=16 bytes, valid subtype pair; distinct by literal")
}

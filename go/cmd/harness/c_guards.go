//go:build comp_all || comp_lockorder

package main

// Component guards (C34, write discipline): re-runs the translator (verifharness/lockgraph, guards.go) on the source
// of /repo and emits one case per write site: stores into structs of a type documented as immutable after publication
// (Relay) with their freshness, and writes to map / slice fields of mutex-carrying structs with the lock classes that
// are must-held at the write.  The Coq side (corr/Guards_corr.v) evaluates the hand-written rule on every site.
// gen_lockorder writes gen/WriteSites.v from the same analysis.

import (
	"fmt"

	"verifharness/hx"
	"verifharness/lockgraph"
)

func init() {
	hx.Register("guards", wdRunGuards)
}

func wdRunGuards(c *hx.Ctx) {
	r, err := lockgraph.Analyze(lockRepo(), nil)
	if err != nil {
		panic(err)
	}
	cw := c.NewCaseWriter("From NV Require Import corr.Guards_corr.", "Guards_corr.case", "Guards_corr.check_case", 400)
	var index []map[string]any
	for _, s := range r.Guards.Sites {
		desc := map[string]any{
			"site": s.ID, "kind": s.Kind, "object": s.Obj, "op": s.Op, "fresh": s.Fresh,
			"must_held_write": s.HeldW, "must_held_read": s.HeldR,
			"where":                 fmt.Sprintf("%s:%d:%d", s.File, s.Line, s.Col),
			"least_held_call_chain": s.Chain,
			"function":              s.Func,
			"signature":             fmt.Sprintf("write-discipline:%s:%s:%s", s.Kind, s.Obj, s.Func),
		}
		cw.Add(hx.App("Guards_corr.CSite", s.Tuple(r)), s.Kind+":"+s.Obj, !s.Fresh, desc)
		index = append(index, map[string]any{"site": s.ID, "where": fmt.Sprintf("%s:%d", s.File, s.Line), "function": s.Func, "object": s.Obj})
	}
	cw.Add(hx.App("Guards_corr.CCount", hx.N(uint64(len(r.Guards.Sites)))), "count", true,
		map[string]any{"sites": len(r.Guards.Sites), "fields": r.Guards.Fields, "immutable_types": r.Guards.Types})
	cw.Meta("write_sites", index)
	cw.Meta("container_fields", r.Guards.Fields)
	cw.Close("every write site of the module found by the translator: stores into Relay structs (must be fresh: before publication) and writes " +
		"to map / slice fields of mutex-carrying structs (documented ones must hold their guard in write mode on every path from every caller)")
}

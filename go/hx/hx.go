// Package hx is the shared runtime of the verification harness: deterministic PRNG, Gallina literal
// printing, sharded cases.v writer and the meta.json the driver turns into evidence.
package hx

import (
	"bufio"
	"encoding/json"
	"fmt"
	"math/rand/v2"
	"os"
	"path/filepath"
	"sort"
	"strings"
)

// Ctx is handed to every component.
type Ctx struct {
	Seed   uint64
	N      int    // requested number of generated cases
	Tier   string // quick | thorough
	Out    string // output directory
	Replay string // optional: path of a replay file to re-run
	Rng    *rand.Rand
}

func NewCtx(seed uint64, n int, tier, out, replay string) *Ctx {
	return &Ctx{Seed: seed, N: n, Tier: tier, Out: out, Replay: replay,
		Rng: rand.New(rand.NewPCG(seed, 0x6e6562756c61))}
}

// ---- Gallina literals -------------------------------------------------------------------------

func N(x uint64) string       { return fmt.Sprintf("%d", x) } // inside N_scope
func Z(x int64) string {
	if x < 0 {
		return fmt.Sprintf("(%d)%%Z", x)
	}
	return fmt.Sprintf("%d%%Z", x)
}
func Bool(b bool) string {
	if b {
		return "true"
	}
	return "false"
}
func Nat(x int) string { return fmt.Sprintf("%d%%nat", x) }
func List(items []string) string {
	return "[" + strings.Join(items, "; ") + "]"
}
func Bytes(b []byte) string {
	var sb strings.Builder
	sb.WriteByte('[')
	for i, x := range b {
		if i > 0 {
			sb.WriteString("; ")
		}
		fmt.Fprintf(&sb, "%d", x)
	}
	sb.WriteByte(']')
	return sb.String()
}
func NList(xs []uint64) string {
	s := make([]string, len(xs))
	for i, x := range xs {
		s[i] = N(x)
	}
	return List(s)
}
func BoolList(xs []bool) string {
	s := make([]string, len(xs))
	for i, x := range xs {
		s[i] = Bool(x)
	}
	return List(s)
}
func Some(s string) string { return "(Some " + s + ")" }
func None() string         { return "None" }
func Tuple(items ...string) string {
	return "(" + strings.Join(items, ", ") + ")"
}
func App(ctor string, args ...string) string {
	if len(args) == 0 {
		return ctor
	}
	return "(" + ctor + " " + strings.Join(args, " ") + ")"
}

// Str renders a Go string as a list of byte values (models use list N for strings).
func Str(s string) string { return Bytes([]byte(s)) }

// ---- case writer ------------------------------------------------------------------------------

// CaseWriter shards Gallina case literals into cases_XXX.v files that coqc evaluates with vm_compute.
type CaseWriter struct {
	ctx       *Ctx
	imports   string // e.g. "From NV Require Import corr.Header."
	checkFn   string // e.g. "Header_corr.check_case"
	caseTy    string
	perShard  int
	shard     int
	inShard   int
	total     int
	f         *os.File
	w         *bufio.Writer
	descs     *bufio.Writer
	descFile  *os.File
	Kinds     map[string]int // distribution histogram
	distinct  map[string]struct{}
	Samples   []any
	NonTriv   int
	extraMeta map[string]any
}

func (c *Ctx) NewCaseWriter(imports, caseTy, checkFn string, perShard int) *CaseWriter {
	if err := os.MkdirAll(c.Out, 0o755); err != nil {
		panic(err)
	}
	old, _ := filepath.Glob(filepath.Join(c.Out, "cases_*"))
	for _, o := range old {
		os.Remove(o)
	}
	df, err := os.Create(filepath.Join(c.Out, "cases.jsonl"))
	if err != nil {
		panic(err)
	}
	return &CaseWriter{ctx: c, imports: imports, checkFn: checkFn, caseTy: caseTy, perShard: perShard,
		descFile: df, descs: bufio.NewWriterSize(df, 1<<20), Kinds: map[string]int{},
		distinct: map[string]struct{}{}, extraMeta: map[string]any{}}
}

func (cw *CaseWriter) open() {
	name := filepath.Join(cw.ctx.Out, fmt.Sprintf("cases_%03d.v", cw.shard))
	f, err := os.Create(name)
	if err != nil {
		panic(err)
	}
	cw.f = f
	cw.w = bufio.NewWriterSize(f, 1<<20)
	fmt.Fprintf(cw.w, "From Coq Require Import List NArith ZArith.\nImport ListNotations.\nFrom NV Require Import lib.Corr.\n%s\nOpen Scope N_scope.\nDefinition cases : list %s := [\n", cw.imports, cw.caseTy)
	cw.inShard = 0
}

func (cw *CaseWriter) closeShard() {
	if cw.f == nil {
		return
	}
	fmt.Fprintf(cw.w, "\n].\nDefinition M := Eval vm_compute in mismatches_from %s %d cases.\nPrint M.\n", cw.checkFn, cw.total-cw.inShard)
	cw.w.Flush()
	cw.f.Close()
	cw.f = nil
	cw.shard++
}

// Add appends one case. lit is the Gallina literal; kind a label for the distribution histogram;
// nontrivial marks the case as exercising the property beyond an error path; desc is written to
// cases.jsonl (index -> JSON) so a failing index can be turned into a replay.
func (cw *CaseWriter) Add(lit, kind string, nontrivial bool, desc any) {
	if cw.f == nil {
		cw.open()
	}
	if cw.inShard > 0 {
		cw.w.WriteString(";\n")
	}
	cw.w.WriteString(lit)
	cw.inShard++
	cw.Kinds[kind]++
	if nontrivial {
		if _, ok := cw.distinct[lit]; !ok {
			cw.distinct[lit] = struct{}{}
			cw.NonTriv++
		}
	}
	if len(cw.Samples) < 3 || (len(cw.Samples) < 6 && nontrivial && cw.total%97 == 0) {
		cw.Samples = append(cw.Samples, desc)
	}
	b, _ := json.Marshal(map[string]any{"i": cw.total, "kind": kind, "case": desc})
	cw.descs.Write(b)
	cw.descs.WriteByte('\n')
	cw.total++
	if cw.inShard >= cw.perShard {
		cw.closeShard()
	}
}

func (cw *CaseWriter) Total() int { return cw.total }

func (cw *CaseWriter) Meta(k string, v any) { cw.extraMeta[k] = v }

// Close finishes the last shard and writes meta.json.
func (cw *CaseWriter) Close(rule string) {
	cw.closeShard()
	cw.descs.Flush()
	cw.descFile.Close()
	keys := make([]string, 0, len(cw.Kinds))
	for k := range cw.Kinds {
		keys = append(keys, k)
	}
	sort.Strings(keys)
	meta := map[string]any{
		"evaluations": cw.total, "distinct_nontrivial": cw.NonTriv, "rule": rule,
		"samples": cw.Samples, "distribution": cw.Kinds, "shards": cw.shard, "seed": cw.ctx.Seed,
	}
	for k, v := range cw.extraMeta {
		meta[k] = v
	}
	b, _ := json.MarshalIndent(meta, "", " ")
	if err := os.WriteFile(filepath.Join(cw.ctx.Out, "meta.json"), b, 0o644); err != nil {
		panic(err)
	}
}

// WriteFile writes a generated Coq file (T1/T2) into the output directory.
func (c *Ctx) WriteFile(name, content string) {
	if err := os.MkdirAll(c.Out, 0o755); err != nil {
		panic(err)
	}
	if err := os.WriteFile(filepath.Join(c.Out, name), []byte(content), 0o644); err != nil {
		panic(err)
	}
}

// ---- random helpers ---------------------------------------------------------------------------

func (c *Ctx) Intn(n int) int        { return c.Rng.IntN(n) }
func (c *Ctx) U64() uint64           { return c.Rng.Uint64() }
func (c *Ctx) Chance(p float64) bool { return c.Rng.Float64() < p }
func (c *Ctx) Pick(xs []uint64) uint64 {
	return xs[c.Rng.IntN(len(xs))]
}
func (c *Ctx) RandBytes(n int) []byte {
	b := make([]byte, n)
	for i := range b {
		b[i] = byte(c.Rng.UintN(256))
	}
	return b
}

// EdgeU64 returns a value biased to the edges of the given bit width.
func (c *Ctx) EdgeU64(bits uint) uint64 {
	var max uint64 = ^uint64(0)
	if bits < 64 {
		max = (uint64(1) << bits) - 1
	}
	switch c.Rng.IntN(8) {
	case 0:
		return 0
	case 1:
		return max
	case 2:
		return max - uint64(c.Rng.IntN(4))
	case 3:
		return uint64(c.Rng.IntN(4))
	case 4:
		return (uint64(1) << uint(c.Rng.IntN(int(bits)))) & max
	default:
		return c.Rng.Uint64() & max
	}
}

// ---- registry ---------------------------------------------------------------------------------

type Component func(*Ctx)

var Registry = map[string]Component{}

func Register(name string, f Component) { Registry[name] = f }

// Ints renders bytes as a JSON-friendly int slice (json.Marshal would base64 a []byte).
func Ints(b []byte) []int {
	r := make([]int, len(b))
	for i, x := range b {
		r[i] = int(x)
	}
	return r
}

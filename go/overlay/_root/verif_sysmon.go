//go:build verif && e2e_testing && (comp_all || comp_sysmon)

package nebula

// Verification shim of the system-level monitor `sysmon` (go/cmd/harness/c_sysmon.go). The nodes themselves are the
// VerifOutsideNode of verif_outside.go (built by the real nebula.Main, driven synchronously); this file only adds the
// read-only observations and the few drivers the monitor needs on top of it:
//
//   - a canonical dump of the main hostmap and of the pending (handshake manager) maps with stable per-node hostinfo
//     ids, in the shape of coq/model/HostMap.v's state (C28/C29);
//   - a read-only decryption of a datagram with the receive key of the tunnel its header names (no replay window,
//     no state change): "what did the sender put on the wire for this peer" (C17/C16 sender side);
//   - the pending handshakes with their first message (to name the target of a handshake datagram, C36);
//   - one connection-manager tick at a virtual time, and the punch scheduler driven synchronously.
//
// Nothing of nebula is replaced.

import (
	"context"
	"net/netip"
	"sort"
	"time"

	"github.com/slackhq/nebula/header"
)

// VerifSysmonIDs names the hostinfos of one node: a hostinfo keeps its id for life, ids are handed out in the order
// the monitor first sees them.
type VerifSysmonIDs struct {
	ids map[*HostInfo]uint64
	all []*HostInfo
}

func VerifSysmonNewIDs() *VerifSysmonIDs { return &VerifSysmonIDs{ids: map[*HostInfo]uint64{}} }

func (r *VerifSysmonIDs) id(h *HostInfo) uint64 {
	if h == nil {
		return 0
	}
	if id, ok := r.ids[h]; ok {
		return id
	}
	id := uint64(len(r.all) + 1)
	r.ids[h] = id
	r.all = append(r.all, h)
	return id
}

type VerifSysmonInfo struct {
	ID            uint64
	Addrs         []netip.Addr
	Local, Remote uint32
	Relays        []uint32 // keys of relayState.relayForByIdx, sorted
}

type VerifSysmonAH struct {
	A netip.Addr
	H uint64
}
type VerifSysmonAL struct {
	A netip.Addr
	L []uint64
}
type VerifSysmonIH struct {
	I uint32
	H uint64
}

// VerifSysmonDump is every map of HostMap and of the pending hostmap, canonically ordered.
type VerifSysmonDump struct {
	Infos []VerifSysmonInfo // every hostinfo the monitor ever saw at this node, by id
	Hosts []VerifSysmonAH
	More  []VerifSysmonAL
	Idx   []VerifSysmonIH
	RIdx  []VerifSysmonIH
	Rel   []VerifSysmonIH
	PVpn  []VerifSysmonAH
	PIdx  []VerifSysmonIH
}

func verifSysmonSortAH(x []VerifSysmonAH) {
	sort.Slice(x, func(i, j int) bool { return x[i].A.Less(x[j].A) })
}
func verifSysmonSortIH(x []VerifSysmonIH) {
	sort.Slice(x, func(i, j int) bool { return x[i].I < x[j].I })
}

func VerifSysmonDumpOf(n *VerifOutsideNode, r *VerifSysmonIDs) VerifSysmonDump {
	var d VerifSysmonDump
	hm := n.f.hostMap
	hm.RLock()
	// ids are handed out in a canonical order: by local index, then the rest
	his := make([]*HostInfo, 0, len(hm.Indexes))
	for _, h := range hm.Indexes {
		his = append(his, h)
	}
	sort.Slice(his, func(i, j int) bool { return his[i].localIndexId < his[j].localIndexId })
	for _, h := range his {
		r.id(h)
	}
	for a, h := range hm.Hosts {
		d.Hosts = append(d.Hosts, VerifSysmonAH{a, r.id(h)})
	}
	for a, l := range hm.moreHosts {
		e := VerifSysmonAL{A: a}
		for _, h := range l {
			e.L = append(e.L, r.id(h))
		}
		d.More = append(d.More, e)
	}
	for i, h := range hm.Indexes {
		d.Idx = append(d.Idx, VerifSysmonIH{i, r.id(h)})
	}
	for i, h := range hm.RemoteIndexes {
		d.RIdx = append(d.RIdx, VerifSysmonIH{i, r.id(h)})
	}
	for i, h := range hm.Relays {
		d.Rel = append(d.Rel, VerifSysmonIH{i, r.id(h)})
	}
	hm.RUnlock()
	hsm := n.f.handshakeManager
	hsm.RLock()
	pend := make([]*HandshakeHostInfo, 0, len(hsm.vpnIps))
	for _, hh := range hsm.vpnIps {
		pend = append(pend, hh)
	}
	sort.Slice(pend, func(i, j int) bool { return pend[i].hostinfo.vpnAddrs[0].Less(pend[j].hostinfo.vpnAddrs[0]) })
	for _, hh := range pend {
		r.id(hh.hostinfo)
	}
	for a, hh := range hsm.vpnIps {
		d.PVpn = append(d.PVpn, VerifSysmonAH{a, r.id(hh.hostinfo)})
	}
	for i, hh := range hsm.indexes {
		d.PIdx = append(d.PIdx, VerifSysmonIH{i, r.id(hh.hostinfo)})
	}
	hsm.RUnlock()
	verifSysmonSortAH(d.Hosts)
	sort.Slice(d.More, func(i, j int) bool { return d.More[i].A.Less(d.More[j].A) })
	verifSysmonSortIH(d.Idx)
	verifSysmonSortIH(d.RIdx)
	verifSysmonSortIH(d.Rel)
	verifSysmonSortAH(d.PVpn)
	verifSysmonSortIH(d.PIdx)
	for i, h := range r.all {
		in := VerifSysmonInfo{ID: uint64(i + 1), Addrs: append([]netip.Addr(nil), h.vpnAddrs...), Local: h.localIndexId, Remote: h.remoteIndexId}
		in.Relays = h.relayState.CopyRelayForIdxs()
		sort.Slice(in.Relays, func(a, b int) bool { return in.Relays[a] < in.Relays[b] })
		d.Infos = append(d.Infos, in)
	}
	return d
}

// VerifSysmonPeek decrypts an encrypted datagram (any type but Handshake / RecvError / relay) with the receive key of
// the tunnel of this node that the header index names. Read-only: the replay window is neither consulted nor moved.
func VerifSysmonPeek(n *VerifOutsideNode, data []byte) (plain []byte, local uint32, ok bool) {
	var h header.H
	if err := h.Parse(data); err != nil || len(data) < header.Len+16 {
		return nil, 0, false
	}
	hi := n.f.hostMap.QueryIndex(h.RemoteIndex)
	if hi == nil || hi.ConnectionState == nil || hi.ConnectionState.dKey == nil {
		return nil, 0, false
	}
	buf := append([]byte(nil), data...)
	out, err := hi.ConnectionState.dKey.DecryptDanger(nil, buf[:header.Len], buf[header.Len:], h.MessageCounter, make([]byte, 12))
	if err != nil {
		return nil, 0, false
	}
	return out, hi.localIndexId, true
}

// VerifSysmonSenderKey names the hostinfo (by monitor id) of this node whose SEND key produced the datagram: the AEAD is
// symmetric per direction, so the send cipher state verifies what it sealed. Every hostinfo the monitor ever saw at this
// node is tried (a tunnel may already be closed when its last datagram is looked at). Read-only.
func VerifSysmonSenderKey(n *VerifOutsideNode, r *VerifSysmonIDs, data []byte, relay bool) (uint64, bool) {
	var h header.H
	if err := h.Parse(data); err != nil || len(data) < header.Len+16 {
		return 0, false
	}
	nb := make([]byte, 12)
	for i, hi := range r.all {
		cs := hi.ConnectionState
		if cs == nil || cs.eKey == nil {
			continue
		}
		if !relay && hi.remoteIndexId != h.RemoteIndex {
			continue
		}
		buf := append([]byte(nil), data...)
		var err error
		if relay {
			_, err = cs.eKey.DecryptDanger(nil, buf[:len(buf)-16], buf[len(buf)-16:], h.MessageCounter, nb)
		} else {
			_, err = cs.eKey.DecryptDanger(nil, buf[:header.Len], buf[header.Len:], h.MessageCounter, nb)
		}
		if err == nil {
			return uint64(i + 1), true
		}
	}
	return 0, false
}

type VerifSysmonPending struct {
	ID     uint64 // monitor id of the pending hostinfo
	Vpn    netip.Addr
	Local  uint32
	Stage0 []byte
	Stored [][]byte // the packets queued on the handshake (HandshakeHostInfo.packetStore), in order
}

// VerifSysmonPendingOf lists the pending handshakes with the first message each of them (re)transmits and the packets
// queued on them.
func VerifSysmonPendingOf(n *VerifOutsideNode, r *VerifSysmonIDs) []VerifSysmonPending {
	hsm := n.f.handshakeManager
	hsm.RLock()
	hhs := make(map[netip.Addr]*HandshakeHostInfo, len(hsm.vpnIps))
	for a, hh := range hsm.vpnIps {
		hhs[a] = hh
	}
	hsm.RUnlock()
	var out []VerifSysmonPending
	for a, hh := range hhs {
		hh.Lock()
		p := VerifSysmonPending{Vpn: a, Local: hh.hostinfo.localIndexId,
			Stage0: append([]byte(nil), hh.hostinfo.HandshakePacket[handshakePacketStage0]...)}
		for _, cp := range hh.packetStore {
			p.Stored = append(p.Stored, append([]byte(nil), cp.packet...))
		}
		hh.Unlock()
		out = append(out, p)
	}
	sort.Slice(out, func(i, j int) bool { return out[i].Vpn.Less(out[j].Vpn) })
	for i := range out {
		out[i].ID = r.id(hhs[out[i].Vpn].hostinfo)
	}
	return out
}

// VerifSysmonSenderPlain opens a datagram of type Message with the SEND key of the tunnel of this node that sealed it (see
// VerifSysmonSenderKey): what the node encrypted, independent of whether the receiver still holds the tunnel. Read-only.
func VerifSysmonSenderPlain(n *VerifOutsideNode, r *VerifSysmonIDs, data []byte) (plain []byte, id uint64, ok bool) {
	var h header.H
	if err := h.Parse(data); err != nil || len(data) < header.Len+16 {
		return nil, 0, false
	}
	nb := make([]byte, 12)
	for i, hi := range r.all {
		cs := hi.ConnectionState
		if cs == nil || cs.eKey == nil || hi.remoteIndexId != h.RemoteIndex {
			continue
		}
		buf := append([]byte(nil), data...)
		if out, err := cs.eKey.DecryptDanger(nil, buf[:header.Len], buf[header.Len:], h.MessageCounter, nb); err == nil {
			return out, uint64(i + 1), true
		}
	}
	return nil, 0, false
}

// VerifSysmonCMTick is one iteration of connectionManager.Start's ticker branch at the virtual time now.
func VerifSysmonCMTick(n *VerifOutsideNode, now time.Time) (checked int) {
	cm := n.f.connectionManager
	p := []byte("")
	nb := make([]byte, 12, 12)
	out := make([]byte, mtu)
	cm.trafficTimer.Advance(now)
	for {
		localIndex, has := cm.trafficTimer.Purge()
		if !has {
			break
		}
		checked++
		cm.doTrafficCheck(localIndex, p, nb, out, now)
	}
	return checked
}

// VerifSysmonQuery asks the lighthouses for vpn (LightHouse.QueryServer; the query itself leaves with the next Pump).
func VerifSysmonQuery(n *VerifOutsideNode, vpn netip.Addr) { n.f.lightHouse.QueryServer(vpn) }

// VerifSysmonArmPunch lets Punchy.Schedule queue jobs again (Main's context was cancelled when the node was taken over).
func VerifSysmonArmPunch(n *VerifOutsideNode) { n.f.lightHouse.punchy.ctx = context.Background() }

// VerifSysmonRunPunches runs the jobs the punch scheduler has delivered so far, exactly as the worker Punchy.Start
// spawns does.
func VerifSysmonRunPunches(n *VerifOutsideNode) (ran int) {
	p := n.f.lightHouse.punchy
	for {
		select {
		case job := <-p.sched.queue:
			ran++
			switch {
			case job.target.IsValid():
				p.punchConn.WriteTo([]byte{0}, job.target)
			case job.vpnAddr.IsValid():
				p.ifce.SendMessageToVpnAddr(header.Test, header.TestRequest, job.vpnAddr, []byte(""), make([]byte, 12, 12), make([]byte, mtu))
			}
		default:
			return ran
		}
	}
}

// VerifSysmonClose is Control.CloseTunnel: optionally tell the peer, then close locally.
func VerifSysmonClose(n *VerifOutsideNode, vpn netip.Addr, localOnly bool) bool {
	hi := n.f.hostMap.QueryVpnAddr(vpn)
	if hi == nil {
		return false
	}
	if !localOnly {
		n.f.sendCloseTunnel(hi)
	}
	n.f.closeTunnel(hi)
	return true
}

//go:build verif && (comp_all || comp_converge || comp_convergenet)

package nebula

// Verification shim for C31 (component converge): the real shouldSwapPrimary on a situation built from
// (my overlay address, the peer's overlay address, the tunnel's message counter, whether the certificate the tunnel
// was made with is still configured, whether it is still the current one), and the constants the model pins.

import (
	"log/slog"
	"net/netip"

	"github.com/slackhq/nebula/cert"
	"github.com/slackhq/nebula/cert_test"
)

const (
	VerifConvMaxHostInfosPerVpnIp    = MaxHostInfosPerVpnIp
	VerifConvMaxCachedPackets        = maxCachedPackets
	VerifConvRehandshakeAfterMessage = RehandshakeAfterMessages
)

// VerifConvShouldSwap runs connectionManager.shouldSwapPrimary.
func VerifConvShouldSwap(me, peer netip.Addr, counter uint64, certConfigured, sigEqual, v2 bool, salt byte) bool {
	l := slog.New(slog.DiscardHandler)
	ver := cert.Version1
	if v2 {
		ver = cert.Version2
	}
	tunnelCert := &cert_test.DummyCert{Version_: ver, Signature_: []byte{1, 2, 3, salt}}
	cs := &CertState{privateKey: []byte{}}
	if certConfigured {
		sig := []byte{1, 2, 3, salt}
		if !sigEqual {
			sig = []byte{9, 9, salt, 7}
		}
		cur := &cert_test.DummyCert{Version_: ver, Signature_: sig}
		if v2 {
			cs.v2Cert = cur
		} else {
			cs.v1Cert = cur
		}
	}
	pki := &PKI{l: l}
	pki.cs.Store(cs)
	cm := &connectionManager{l: l, intf: &Interface{myVpnAddrs: []netip.Addr{me}, pki: pki, l: l}}
	hi := &HostInfo{vpnAddrs: []netip.Addr{peer}, ConnectionState: &ConnectionState{myCert: tunnelCert}}
	hi.ConnectionState.messageCounter.Store(counter)
	return cm.shouldSwapPrimary(hi)
}

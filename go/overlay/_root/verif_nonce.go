//go:build verif && (comp_all || comp_nonce)

package nebula

import (
	"log/slog"
	"net/netip"
	"sync"

	"github.com/slackhq/nebula/header"
	"github.com/slackhq/nebula/noiseutil"
	"github.com/slackhq/nebula/udp"
)

// Constants of the message-counter discipline (T1). A renamed or removed constant stops this file compiling,
// which bin/check reports as a broken tie.
const (
	VerifNonceRejectAfterMessages      = uint64(RejectAfterMessages)      // ceiling used by NextMessageCounter
	VerifNonceRehandshakeAfterMessages = uint64(RehandshakeAfterMessages) // key roll threshold
	VerifNonceReplayWindow             = uint64(ReplayWindow)             // bound on the handshake's message index
)

var verifNonceLogger = slog.New(slog.DiscardHandler)

// VerifNonceRig is one tunnel (one ConnectionState, one counter, one key) with just enough of an Interface
// around it to call the real send paths of inside.go. Nothing here re-implements a send path.
type VerifNonceRig struct {
	f     *Interface
	hi    *HostInfo
	relay *Relay
	cs    *ConnectionState
}

// VerifNewNonceRig builds a ConnectionState whose encrypt key is `ekey` (the harness passes a recording wrapper
// around a real noiseutil cipher) and whose counter is preset to `start`.
func VerifNewNonceRig(ekey noiseutil.CipherState, start uint64) *VerifNonceRig {
	cs := &ConnectionState{eKey: ekey, window: NewBits(ReplayWindow)}
	cs.messageCounter.Store(start)
	hi := &HostInfo{
		ConnectionState: cs,
		vpnAddrs:        []netip.Addr{netip.MustParseAddr("10.13.0.2")},
		remoteIndexId:   0x0d0d0d0d,
		localIndexId:    0x0c0c0c0c,
	}
	f := &Interface{
		l:       verifNonceLogger,
		writers: []udp.Conn{udp.NoopConn{}},
		connectionManager: &connectionManager{
			relayUsed:     map[uint32]struct{}{},
			relayUsedLock: &sync.RWMutex{},
			l:             verifNonceLogger,
		},
	}
	return &VerifNonceRig{f: f, hi: hi, cs: cs, relay: &Relay{LocalIndex: 7, RemoteIndex: 9}}
}

// VerifNonceFromHandshakeIndex is how a tunnel's counter starts: the real constructor's seeding statement.
func VerifNonceFromHandshakeIndex(idx uint64) uint64 {
	var cs ConnectionState
	cs.messageCounter.Add(idx)
	return cs.messageCounter.Load()
}

func (r *VerifNonceRig) Counter() uint64 { return r.cs.messageCounter.Load() }

// NextMessageCounter is the real reservation function.
func (r *VerifNonceRig) NextMessageCounter() (uint64, bool) { return r.cs.NextMessageCounter() }

// VerifNonceSender holds the per-goroutine scratch buffers a real caller owns.
type VerifNonceSender struct {
	r       *VerifNonceRig
	nb      []byte
	out     []byte
	scratch []byte
	payload []byte
	remote  netip.AddrPort
}

func (r *VerifNonceRig) NewSender() *VerifNonceSender {
	return &VerifNonceSender{r: r, nb: make([]byte, 12), out: make([]byte, 0, 256), scratch: make([]byte, 256),
		payload: []byte("verif-nonce"), remote: netip.MustParseAddrPort("192.0.2.1:4242")}
}

// Path codes shared with the harness and the Coq model:
// 0 = sendInsideEncrypt (data hot path), 1 = sendNoMetrics (control / test / lighthouse / close traffic),
// 2 = prepareSendVia (relay), 3 = prepareSendVia leaving through its short-buffer exit (counter reserved, never used).
func (s *VerifNonceSender) Send(path int) {
	r := s.r
	switch path {
	case 0:
		r.f.sendInsideEncrypt(r.hi, r.cs, s.payload, s.scratch[:0], s.nb)
	case 1:
		r.f.sendNoMetrics(header.Test, header.TestRequest, r.cs, r.hi, s.remote, s.payload, s.nb, s.out[:0], 0)
	case 2:
		_, _ = r.f.prepareSendVia(r.hi, r.relay, s.payload, s.nb, s.out[:0], false)
	case 3:
		_, _ = r.f.prepareSendVia(r.hi, r.relay, s.payload, s.nb, s.out[:0:20], false)
	default:
		panic("verif_nonce: unknown path")
	}
}

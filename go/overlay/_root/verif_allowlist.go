//go:build verif && (comp_all || comp_allowlist)

package nebula

import (
	"log/slog"
	"net/netip"

	"github.com/slackhq/nebula/config"
)

// Verification shim for allow_list.go (C38). Lists are built through the same entry points the lighthouse uses
// (NewLocalAllowListFromConfig / NewRemoteAllowListFromConfig / newAllowListFromConfig) on a config.C whose
// Settings hold the raw map, so key parsing, value conversion and the default rules all run as in production.

func verifAllowListConfig(lh map[string]any) *config.C {
	c := config.NewC(slog.New(slog.DiscardHandler))
	c.Settings["lighthouse"] = lh
	return c
}

// VerifAllowList wraps a plain *AllowList (may be nil = no list configured).
type VerifAllowList struct{ al *AllowList }

// VerifNewAllowList: raw == nil means the key is absent. ok == false: the configuration was refused.
func VerifNewAllowList(raw any) (v *VerifAllowList, ok bool) {
	lh := map[string]any{}
	if raw != nil {
		lh["remote_allow_list"] = raw
	}
	al, err := newAllowListFromConfig(verifAllowListConfig(lh), "lighthouse.remote_allow_list", nil)
	if err != nil {
		return nil, false
	}
	return &VerifAllowList{al: al}, true
}

func (v *VerifAllowList) Allow(a netip.Addr) bool { return v.al.Allow(a) }
func (v *VerifAllowList) IsNil() bool             { return v.al == nil }

// VerifLocalAllowList wraps *LocalAllowList.
type VerifLocalAllowList struct{ al *LocalAllowList }

func VerifNewLocalAllowList(raw any) (v *VerifLocalAllowList, ok bool) {
	lh := map[string]any{}
	if raw != nil {
		lh["local_allow_list"] = raw
	}
	al, err := NewLocalAllowListFromConfig(verifAllowListConfig(lh), "lighthouse.local_allow_list")
	if err != nil {
		return nil, false
	}
	return &VerifLocalAllowList{al: al}, true
}

func (v *VerifLocalAllowList) Allow(a netip.Addr) bool    { return v.al.Allow(a) }
func (v *VerifLocalAllowList) AllowName(n string) bool    { return v.al.AllowName(n) }
func VerifNilLocalAllowName(n string) bool                { return (*LocalAllowList)(nil).AllowName(n) }
func VerifNilLocalAllow(a netip.Addr) bool                { return (*LocalAllowList)(nil).Allow(a) }
func VerifNilAllow(a netip.Addr) bool                     { return (*AllowList)(nil).Allow(a) }
func VerifNilRemoteAllowUnknown(a netip.Addr) bool        { return (*RemoteAllowList)(nil).AllowUnknownVpnAddr(a) }

// VerifRemoteAllowList wraps *RemoteAllowList.
type VerifRemoteAllowList struct{ al *RemoteAllowList }

// VerifNewRemoteAllowList: global / ranges == nil means the key is absent.
func VerifNewRemoteAllowList(global, ranges any) (v *VerifRemoteAllowList, ok bool) {
	lh := map[string]any{}
	if global != nil {
		lh["remote_allow_list"] = global
	}
	if ranges != nil {
		lh["remote_allow_ranges"] = ranges
	}
	al, err := NewRemoteAllowListFromConfig(verifAllowListConfig(lh), "lighthouse.remote_allow_list", "lighthouse.remote_allow_ranges")
	if err != nil {
		return nil, false
	}
	return &VerifRemoteAllowList{al: al}, true
}

func (v *VerifRemoteAllowList) Allow(vpn, udp netip.Addr) bool { return v.al.Allow(vpn, udp) }
func (v *VerifRemoteAllowList) AllowAll(vpns []netip.Addr, udp netip.Addr) bool {
	return v.al.AllowAll(vpns, udp)
}
func (v *VerifRemoteAllowList) AllowUnknownVpnAddr(vpn netip.Addr) bool {
	return v.al.AllowUnknownVpnAddr(vpn)
}

//go:build verif && e2e_testing && (comp_all || comp_convergenet)

package nebula

// Verification shim for C31 (component convergenet): lets the harness drive a REAL node built by nebula.Main
// (real Interface, HostMap, HandshakeManager, connectionManager, Firewall, PKI, noise handshakes and AEAD; the
// in-memory udp.TesterConn and overlay.TestTun of the e2e build) one event at a time and synchronously, so that
// a delivery schedule is replayed exactly:
//   - an underlay datagram is handed to readOutsidePackets followed by the flush listenOut performs,
//   - an inside packet is handed to consumeInsidePacket followed by the flush listenIn performs,
//   - StartHandshake, handleOutbound (what the outbound handshake timer calls) and doTrafficCheck (what the
//     connection manager's timer calls, with an explicit `now`) are called directly.
// The reader goroutines (Interface.run) and the connection manager goroutine are NOT started: the harness plays
// them. Nothing here re-implements nebula logic; the shim only reports canonical dumps.

import (
	"net/netip"
	"time"

	"github.com/slackhq/nebula/firewall"
	"github.com/slackhq/nebula/overlay"
	"github.com/slackhq/nebula/overlay/batch"
	"github.com/slackhq/nebula/overlay/tio"
	"github.com/slackhq/nebula/udp"
)

type VerifConvergeNode struct {
	c        *Control
	f        *Interface
	rxc      *rxContext
	sb       *batch.SendBatch
	fwPacket *firewall.ParsedPacket
	nb       []byte
	reject   []byte
	p, out   []byte
	udpc     *udp.TesterConn
	tun      *overlay.TestTun
}

type VerifConvergeTunnel struct {
	Local, Remote     uint32
	In, Out, Pd, Init bool
	Counter           uint64
	HsTime            uint64
}

type VerifConvergeDump struct {
	HasPending   bool
	PendingReady bool
	PendingIndex uint32
	PendingTries int64
	PendingStore int
	Tunnels      []VerifConvergeTunnel // hostmap order for the peer, primary first
	NIndexes     int                   // len(HostMap.Indexes)
	NRemote      int                   // len(HostMap.RemoteIndexes)
	NPendingIdx  int                   // len(HandshakeManager.indexes)
}

// VerifConvergeAttach takes a Control fresh from Main (state Ready), enlarges the in-memory channels so that a
// synchronous event can never block on them, and activates the interface without starting any reader.
func VerifConvergeAttach(c *Control) (*VerifConvergeNode, error) {
	f := c.f
	n := &VerifConvergeNode{c: c, f: f}
	n.udpc = f.outside.(*udp.TesterConn)
	n.tun = f.inside.(*overlay.TestTun)
	n.udpc.TxPackets = make(chan *udp.Packet, 4096)
	n.tun.TxPackets = make(chan []byte, 4096)
	if err := f.activate(); err != nil {
		return nil, err
	}
	n.rxc = newRxContext(f, 0)
	arenaSize := batch.SendBatchCap * (udp.MTU + 32)
	n.sb = batch.NewSendBatch(f.writers[0], batch.SendBatchCap, arenaSize)
	n.fwPacket = &firewall.ParsedPacket{}
	n.nb = make([]byte, 12, 12)
	n.reject = make([]byte, mtu)
	n.p = []byte("")
	n.out = make([]byte, mtu)
	return n, nil
}

func (n *VerifConvergeNode) VpnAddr() netip.Addr      { return n.f.myVpnAddrs[0] }
func (n *VerifConvergeNode) UDPAddr() netip.AddrPort  { return n.udpc.GetAddr() }
func (n *VerifConvergeNode) Retries() int64           { return n.f.handshakeManager.config.retries }
func (n *VerifConvergeNode) Stop()                    { n.c.Stop() }
func (n *VerifConvergeNode) State() int               { return int(n.c.State()) }

// InjectUDP is one iteration of listenOut's read loop (TesterConn.ListenOut: reader, flush).
func (n *VerifConvergeNode) InjectUDP(from netip.AddrPort, data []byte) {
	buf := make([]byte, len(data))
	copy(buf, data)
	n.f.readOutsidePackets(ViaSender{UdpAddr: from}, buf[:len(buf):len(buf)], n.rxc)
	if err := n.f.batchers[0].Flush(); err != nil {
		panic(err)
	}
	clear(n.rxc.hostmapCache)
}

// InjectTun is one iteration of listenIn's read loop for a single plain IP packet.
func (n *VerifConvergeNode) InjectTun(pkt []byte) {
	buf := make([]byte, len(pkt))
	copy(buf, pkt)
	n.f.consumeInsidePacket(tio.Packet{Bytes: buf}, n.fwPacket, n.nb, n.sb, n.reject, 0, nil)
	n.f.flushSendBatch(n.sb, 0)
}

// StartHandshake is what an inside packet for an unknown peer, tryRehandshake and Control.CreateTunnel call.
func (n *VerifConvergeNode) StartHandshake(peer netip.Addr) { n.f.handshakeManager.StartHandshake(peer, nil) }

// HsOut is what the outbound handshake timer calls when the pending entry's turn comes.
func (n *VerifConvergeNode) HsOut(peer netip.Addr) { n.f.handshakeManager.handleOutbound(peer, false) }

// Check is what the connection manager's timer calls for one local index.
func (n *VerifConvergeNode) Check(localIndex uint32, now time.Time) {
	n.f.connectionManager.doTrafficCheck(localIndex, n.p, n.nb, n.out, now)
}

// TickAdvance / TickNext are the two halves of the connection manager's timer loop (connectionManager.Start):
// advance the wheel to `now`, then purge the expired local indexes one by one; the harness calls Check for each.
func (n *VerifConvergeNode) TickAdvance(now time.Time) { n.f.connectionManager.trafficTimer.Advance(now) }
func (n *VerifConvergeNode) TickNext() (uint32, bool)  { return n.f.connectionManager.trafficTimer.Purge() }

// ShouldSwap is the real shouldSwapPrimary on the tunnel with that local index (false when unknown).
func (n *VerifConvergeNode) ShouldSwap(localIndex uint32) bool {
	hi := n.f.hostMap.QueryIndex(localIndex)
	if hi == nil || hi.ConnectionState == nil {
		return false
	}
	return n.f.connectionManager.shouldSwapPrimary(hi)
}

// EnsureRemote re-learns the peer's underlay address when the lighthouse cache entry was dropped together with
// the last tunnel (the environment assumption "the peer's address stays known").
func (n *VerifConvergeNode) EnsureRemote(peer netip.Addr, to netip.AddrPort) {
	lh := n.f.lightHouse
	lh.RLock()
	rl, ok := lh.addrMap[peer]
	lh.RUnlock()
	if ok && len(rl.CopyAddrs(nil)) > 0 {
		return
	}
	n.c.InjectLightHouseAddr(peer, to)
}

func (n *VerifConvergeNode) DrainUDP() [][]byte {
	var r [][]byte
	for {
		select {
		case p := <-n.udpc.TxPackets:
			b := make([]byte, len(p.Data))
			copy(b, p.Data)
			r = append(r, b)
			p.Release()
		default:
			return r
		}
	}
}

func (n *VerifConvergeNode) DrainTun() [][]byte {
	var r [][]byte
	for {
		select {
		case p := <-n.tun.TxPackets:
			b := make([]byte, len(p))
			copy(b, p)
			r = append(r, b)
		default:
			return r
		}
	}
}

func (n *VerifConvergeNode) Dump(peer netip.Addr) VerifConvergeDump {
	var d VerifConvergeDump
	hm := n.f.handshakeManager
	hm.RLock()
	if hh, ok := hm.vpnIps[peer]; ok {
		d.HasPending = true
		d.PendingReady = hh.ready
		d.PendingIndex = hh.hostinfo.localIndexId
		d.PendingTries = hh.counter
		d.PendingStore = len(hh.packetStore)
	}
	d.NPendingIdx = len(hm.indexes)
	hm.RUnlock()
	m := n.f.hostMap
	m.RLock()
	for _, hi := range m.unlockedGetHostList(peer) {
		t := VerifConvergeTunnel{Local: hi.localIndexId, Remote: hi.remoteIndexId, In: hi.in.Load(), Out: hi.out.Load(),
			Pd: hi.pendingDeletion.Load(), HsTime: hi.lastHandshakeTime}
		if hi.ConnectionState != nil {
			t.Init = hi.ConnectionState.initiator
			t.Counter = hi.ConnectionState.messageCounter.Load()
		}
		d.Tunnels = append(d.Tunnels, t)
	}
	d.NIndexes = len(m.Indexes)
	d.NRemote = len(m.RemoteIndexes)
	m.RUnlock()
	return d
}

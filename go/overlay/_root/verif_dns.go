//go:build verif && (comp_all || comp_dns)

package nebula

// Verification shim for C44 (component dns): a real dnsServer built by newDnsServerFromConfig, a real HostMap fed
// through the real unlockedAddHostInfo (which calls dnsServer.Add), real certificates (signed by a test CA), config
// reloads through the real reload, and queries through the real parseQuery with a fake dns.ResponseWriter.
// The miekg/dns types stay inside this file so the harness module does not need the dependency directly.

import (
	"context"
	"log/slog"
	"net"
	"net/netip"
	"sort"
	"strings"
	"time"

	"github.com/gaissmai/bart"
	"github.com/miekg/dns"
	"github.com/slackhq/nebula/cert"
	"github.com/slackhq/nebula/cert_test"
	"github.com/slackhq/nebula/config"
)

const (
	VerifDNSTypeA    = uint16(dns.TypeA)
	VerifDNSTypeAAAA = uint16(dns.TypeAAAA)
	VerifDNSTypeTXT  = uint16(dns.TypeTXT)
	VerifDNSTypeMX   = uint16(dns.TypeMX)
	VerifDNSTypeANY  = uint16(dns.TypeANY)
	VerifDNSNoError  = dns.RcodeSuccess
	VerifDNSNXDomain = dns.RcodeNameError
)

type VerifDNS struct {
	ds     *dnsServer
	hm     *HostMap
	f      *Interface
	c      *config.C
	pki    *PKI
	ca     cert.Certificate
	caKey  []byte
	jsons  map[string]uint64 // canonicalised certificate JSON -> certificate id
	nextIx uint32
}

type verifDNSWriter struct {
	remote  net.Addr
	written []*dns.Msg
}

func (w *verifDNSWriter) LocalAddr() net.Addr       { return &net.UDPAddr{} }
func (w *verifDNSWriter) RemoteAddr() net.Addr      { return w.remote }
func (w *verifDNSWriter) Write([]byte) (int, error) { return 0, nil }
func (w *verifDNSWriter) WriteMsg(m *dns.Msg) error { w.written = append(w.written, m); return nil }
func (w *verifDNSWriter) Close() error              { return nil }
func (w *verifDNSWriter) TsigStatus() error         { return nil }
func (w *verifDNSWriter) TsigTimersOnly(bool)       {}
func (w *verifDNSWriter) Hijack()                   {}

type verifDNSOddAddr struct{ s string }

func (a verifDNSOddAddr) Network() string { return "odd" }
func (a verifDNSOddAddr) String() string  { return a.s }

func verifDNSCanon(s string) string {
	return strings.NewReplacer("\"", "", " ", "", "\\", "", "\t", "").Replace(s)
}

func (v *VerifDNS) newCert(id uint64, name string, addrs []netip.Addr) cert.Certificate {
	networks := make([]netip.Prefix, 0, len(addrs))
	for _, a := range addrs {
		networks = append(networks, netip.PrefixFrom(a, a.BitLen()))
	}
	c, _, _, _ := cert_test.NewTestCert(cert.Version2, cert.Curve_CURVE25519, v.ca, v.caKey, name, time.Time{}, time.Time{}, networks, nil, nil)
	b, err := c.MarshalJSON()
	if err != nil {
		panic(err)
	}
	v.jsons[verifDNSCanon(string(b))] = id
	return c
}

func (v *VerifDNS) setSelf(id uint64, name string, addrs []netip.Addr) {
	c := v.newCert(id, name, addrs)
	t := new(bart.Lite)
	for _, a := range addrs {
		t.Insert(netip.PrefixFrom(a, a.BitLen()))
	}
	v.pki.cs.Store(&CertState{v2Cert: c, initiatingVersion: cert.Version2, myVpnAddrs: addrs, myVpnAddrsTable: t})
}

func (v *VerifDNS) settings(serveDNS, amLighthouse bool) {
	v.c.Settings["lighthouse"] = map[string]any{
		"am_lighthouse": amLighthouse, "serve_dns": serveDNS,
		"dns": map[string]any{"host": "127.0.0.1", "port": "0"},
	}
}

// VerifNewDNS: the node's own certificate (id selfID), and the initial lighthouse.serve_dns / am_lighthouse settings.
func VerifNewDNS(selfID uint64, selfName string, selfAddrs []netip.Addr, serveDNS, amLighthouse bool) *VerifDNS {
	l := slog.New(slog.DiscardHandler)
	v := &VerifDNS{jsons: map[string]uint64{}, nextIx: 1}
	v.ca, _, v.caKey, _ = cert_test.NewTestCaCert(cert.Version2, cert.Curve_CURVE25519, time.Time{}, time.Time{}, nil, nil, nil)
	v.pki = &PKI{}
	v.setSelf(selfID, selfName, selfAddrs)
	v.hm = newHostMap(l)
	pr := []netip.Prefix{}
	v.hm.preferredRanges.Store(&pr)
	v.c = config.NewC(l)
	v.settings(serveDNS, amLighthouse)
	// a context that is already done: dnsServer.Start returns before binding a socket
	ctx, cancel := context.WithCancel(context.Background())
	cancel()
	ds, err := newDnsServerFromConfig(ctx, l, v.pki, v.hm, v.c)
	if err != nil {
		panic(err)
	}
	v.ds = ds
	v.f = &Interface{dnsServer: ds, hostMap: v.hm, l: l}
	return v
}

// AddHost is the completion of a handshake with a peer whose certificate (id) has the given name and addresses:
// the real unlockedAddHostInfo.
func (v *VerifDNS) AddHost(id uint64, name string, addrs []netip.Addr) {
	c := v.newCert(id, name, addrs)
	hi := &HostInfo{
		vpnAddrs: addrs, localIndexId: v.nextIx, remoteIndexId: v.nextIx + 1000000,
		ConnectionState: &ConnectionState{peerCert: &cert.CachedCertificate{Certificate: c}},
	}
	v.nextIx++
	v.hm.Lock()
	v.hm.unlockedAddHostInfo(hi, v.f)
	v.hm.Unlock()
}

// NewSelfCert swaps the node's certificate (a certificate reload).
func (v *VerifDNS) NewSelfCert(id uint64, name string, addrs []netip.Addr) {
	v.setSelf(id, name, addrs)
}

// Reload applies changed lighthouse.serve_dns / am_lighthouse settings through the real reload callback path.
func (v *VerifDNS) Reload(serveDNS, amLighthouse bool) error {
	v.settings(serveDNS, amLighthouse)
	return v.ds.reload(v.c, false)
}

type VerifDNSQuestion struct {
	Name  string
	Qtype uint16
}

type VerifDNSAnswer struct {
	Name  string
	Rtype uint16
	Addr  netip.Addr // A / AAAA
	Cert  uint64     // TXT: id of the certificate whose JSON the record carries (VerifDNSUnknownCert if none matches)
}

const VerifDNSUnknownCert = 999999

// Query: the client is a UDP address, or (oddClient != "") an address whose String() is not host:port.
// viaHandler = false: parseQuery is called directly on a reply message carrying all questions (as nebula's own tests do);
// viaHandler = true: the request goes through handleDnsRequest (opcode switch, SetReply) and the reply is what it writes.
func (v *VerifDNS) Query(client netip.AddrPort, oddClient string, qs []VerifDNSQuestion, viaHandler bool, opcode int) (rcode int, answers []VerifDNSAnswer, odd bool) {
	var remote net.Addr
	if oddClient != "" {
		remote = verifDNSOddAddr{oddClient}
	} else {
		remote = net.UDPAddrFromAddrPort(client)
	}
	r := new(dns.Msg)
	r.Opcode = opcode
	for _, q := range qs {
		r.Question = append(r.Question, dns.Question{Name: q.Name, Qtype: q.Qtype, Qclass: dns.ClassINET})
	}
	var m *dns.Msg
	if viaHandler {
		w := &verifDNSWriter{remote: remote}
		v.ds.handleDnsRequest(w, r)
		if len(w.written) != 1 {
			return 0, nil, true
		}
		m = w.written[0]
	} else {
		m = new(dns.Msg)
		m.SetReply(r)
		m.Question = r.Question
		m.Compress = false
		v.ds.parseQuery(m, &verifDNSWriter{remote: remote})
	}
	for _, rr := range m.Answer {
		a := VerifDNSAnswer{Name: rr.Header().Name, Rtype: rr.Header().Rrtype}
		switch x := rr.(type) {
		case *dns.A:
			a.Addr, _ = netip.AddrFromSlice(x.A.To4())
		case *dns.AAAA:
			a.Addr, _ = netip.AddrFromSlice(x.AAAA.To16())
		case *dns.TXT:
			id, ok := v.jsons[verifDNSCanon(strings.Join(x.Txt, ""))]
			if !ok {
				id = VerifDNSUnknownCert
			}
			a.Cert = id
		default:
			odd = true
		}
		answers = append(answers, a)
	}
	if len(m.Ns) > 0 || len(m.Extra) > 0 {
		odd = true
	}
	return m.Rcode, answers, odd
}

type VerifDNSRecord struct {
	Name string
	Addr netip.Addr
}

type VerifDNSDump struct {
	M4, M6 []VerifDNSRecord
	Self   string
}

// Dump returns dnsMap4, dnsMap6 (sorted by name) and selfHost.
func (v *VerifDNS) Dump() VerifDNSDump {
	d := v.ds
	d.RLock()
	defer d.RUnlock()
	out := VerifDNSDump{Self: d.selfHost}
	for _, m := range []struct {
		src map[string]netip.Addr
		dst *[]VerifDNSRecord
	}{{d.dnsMap4, &out.M4}, {d.dnsMap6, &out.M6}} {
		keys := make([]string, 0, len(m.src))
		for k := range m.src {
			keys = append(keys, k)
		}
		sort.Strings(keys)
		for _, k := range keys {
			*m.dst = append(*m.dst, VerifDNSRecord{Name: k, Addr: m.src[k]})
		}
	}
	return out
}

// TxtIP is the address QueryCert looks a TXT name up by (the name without its last character, parsed).
func VerifDNSTxtIP(name string) (netip.Addr, bool) {
	if len(name) < 2 {
		return netip.Addr{}, false
	}
	a, err := netip.ParseAddr(name[:len(name)-1])
	return a, err == nil
}

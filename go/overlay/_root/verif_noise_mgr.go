//go:build verif && (comp_all || comp_noise)

package nebula

// Verification shim for C05 (component noise_mgr): one node made of a REAL HandshakeManager, HostMap and PKI (the CA
// pool, node certificates and private key are handed in by the harness), LightHouse stub and a recording udp.Conn.
// Handshakes run through the code the node itself uses - HandleIncoming -> beginHandshake / continueHandshake,
// StartHandshake + handleOutbound (buildStage0Packet) - so the handshake.Machine is built by the manager with the
// production verifier (HandshakeManager.certVerifier), index allocators and credentials.  The shim only reports what
// got installed in the main hostmap and what reached the socket.

import (
	"context"
	"fmt"
	"log/slog"
	"net/netip"
	"time"

	"github.com/rcrowley/go-metrics"
	"github.com/slackhq/nebula/cert"
	"github.com/slackhq/nebula/config"
	"github.com/slackhq/nebula/header"
	"github.com/slackhq/nebula/noiseutil"
	"github.com/slackhq/nebula/udp"
)

type verifNMLevel struct{}

func (verifNMLevel) Enabled(context.Context, slog.Level) bool  { return false }
func (verifNMLevel) Handle(context.Context, slog.Record) error { return nil }
func (h verifNMLevel) WithAttrs([]slog.Attr) slog.Handler      { return h }
func (h verifNMLevel) WithGroup(string) slog.Handler           { return h }

type verifNMConn struct {
	udp.NoopConn
	pkts [][]byte
}

func (c *verifNMConn) WriteTo(b []byte, addr netip.AddrPort) error {
	c.pkts = append(c.pkts, append([]byte(nil), b...))
	return nil
}

func (c *verifNMConn) WriteBatch(bufs [][]byte, addrs []netip.AddrPort) (int, error) {
	for i := range bufs {
		c.WriteTo(bufs[i], addrs[i])
	}
	return len(bufs), nil
}

type VerifNMNode struct {
	hm  *HostMap
	hsm *HandshakeManager
	f   *Interface
	rec *verifNMConn
}

// VerifNMTunnel is a hostinfo the handshake installed in the main hostmap.
type VerifNMTunnel struct {
	PeerCert    *cert.CachedCertificate
	MyCert      cert.Certificate
	RemoteIndex uint32
	LocalIndex  uint32
	Counter     uint64
	Initiator   bool
	EKey, DKey  noiseutil.CipherState
}

func verifNMMust(err error) {
	if err != nil {
		panic(fmt.Sprintf("verif noise_mgr: %v", err))
	}
}

// VerifNMNew builds the node. cipher is "aes" or "chachapoly"; dv the version the node initiates (and answers) in.
func VerifNMNew(pool *cert.CAPool, dv cert.Version, v1, v2 cert.Certificate, curve cert.Curve, priv []byte, cipher string) *VerifNMNode {
	l := slog.New(verifNMLevel{})
	n := &VerifNMNode{rec: &verifNMConn{}}
	cs, err := newCertState(dv, v1, v2, false, curve, priv, cipher)
	verifNMMust(err)
	pki := &PKI{l: l}
	pki.cs.Store(cs)
	pki.caPool.Store(pool)

	n.hm = newHostMap(l)
	pr := []netip.Prefix{}
	n.hm.preferredRanges.Store(&pr)

	lh := &LightHouse{
		l:            l,
		amLighthouse: true,
		addrMap:      map[netip.Addr]*RemoteList{},
		queryChan:    make(chan netip.Addr, 16),
	}
	lhs := []netip.Addr{}
	static := map[netip.Addr]struct{}{}
	lh.localAddrsFn = func(*LocalAllowList) []netip.Addr { return nil }
	lh.lighthouses.Store(&lhs)
	lh.staticList.Store(&static)
	lh.remoteAllowList.Store(&RemoteAllowList{})

	conf := config.NewC(l)
	verifNMMust(conf.LoadString("relay:\n  use_relays: false\n"))

	n.hsm = NewHandshakeManager(l, n.hm, lh, n.rec, defaultHandshakeConfig)
	n.f = &Interface{
		hostMap:             n.hm,
		outside:             n.rec,
		writers:             []udp.Conn{n.rec},
		handshakeManager:    n.hsm,
		lightHouse:          lh,
		pki:                 pki,
		myVpnAddrs:          cs.myVpnAddrs,
		myVpnAddrsTable:     cs.myVpnAddrsTable,
		myVpnNetworks:       cs.myVpnNetworks,
		myVpnNetworksTable:  cs.myVpnNetworksTable,
		relayManager:        NewRelayManager(context.Background(), l, n.hm, conf),
		metricHandshakes:    metrics.NilHistogram{},
		cachedPacketMetrics: &cachedPacketMetrics{sent: metrics.NilCounter{}, dropped: metrics.NilCounter{}},
		l:                   l,
	}
	n.hsm.f = n.f
	return n
}

func (n *VerifNMNode) tunnels() map[*HostInfo]struct{} {
	r := map[*HostInfo]struct{}{}
	n.hm.RLock()
	for _, h := range n.hm.Indexes {
		r[h] = struct{}{}
	}
	n.hm.RUnlock()
	return r
}

func verifNMUnderlay(u int) netip.AddrPort {
	return netip.AddrPortFrom(netip.AddrFrom4([4]byte{198, 51, 100, byte(u)}), 4242)
}

// Incoming hands a handshake packet to the real HandleIncoming as coming from underlay address number `from`.
// Returns what the node sent in response (nil if nothing) and the tunnel that appeared in the main hostmap (nil if none).
func (n *VerifNMNode) Incoming(pkt []byte, from int) (reply []byte, tun *VerifNMTunnel) {
	var h header.H
	verifNMMust(h.Parse(pkt))
	before := n.tunnels()
	sent := len(n.rec.pkts)
	buf := append([]byte(nil), pkt...)
	n.hsm.HandleIncoming(ViaSender{UdpAddr: verifNMUnderlay(from)}, buf, &h)
	for _, p := range n.rec.pkts[sent:] {
		if len(p) >= header.Len && header.MessageType(p[0]&0x0f) == header.Handshake {
			reply = p
		}
	}
	for hi := range n.tunnels() {
		if _, old := before[hi]; old || hi.ConnectionState == nil {
			continue
		}
		cs := hi.ConnectionState
		tun = &VerifNMTunnel{PeerCert: cs.peerCert, MyCert: cs.myCert, RemoteIndex: hi.remoteIndexId, LocalIndex: hi.localIndexId,
			Counter: cs.messageCounter.Load(), Initiator: cs.initiator, EKey: cs.eKey, DKey: cs.dKey}
	}
	return reply, tun
}

// Start runs the real StartHandshake for the overlay address and the first handleOutbound attempt, which builds the
// stage-0 packet through handshake.Machine. Returns that packet (nil if none was built).
func (n *VerifNMNode) Start(addr netip.Addr, to int) []byte {
	h := n.hsm.StartHandshake(addr, nil)
	h.remotes = NewRemoteList([]netip.Addr{addr}, nil)
	ap := verifNMUnderlay(to)
	h.remotes.Lock()
	h.remotes.unlockedSetV4(addr, addr, []*V4AddrPort{netAddrToProtoV4AddrPort(ap.Addr(), ap.Port())}, func(netip.Addr, *V4AddrPort) bool { return true })
	h.remotes.Unlock()
	n.hsm.handleOutbound(addr, false)
	return h.HandshakePacket[handshakePacketStage0]
}

// Abandon drops a pending handshake for the address, if there is one (so that the next Start begins afresh).
func (n *VerifNMNode) Abandon(addr netip.Addr) {
	if hh := n.hsm.queryVpnIp(addr); hh != nil {
		n.hsm.DeleteHostInfo(hh.hostinfo)
	}
}

var _ = time.Now

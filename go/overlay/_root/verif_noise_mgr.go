//go:build verif && (comp_all || comp_noise)

package nebula

// Verification shim for C05 (component noise_mgr): one node made of a REAL HandshakeManager, HostMap and PKI (the CA
// pool, node certificates and private key are handed in by the harness), LightHouse stub and a recording udp.Conn.
// Handshakes run through the code the node itself uses - HandleIncoming -> beginHandshake / continueHandshake,
// StartHandshake + handleOutbound (buildStage0Packet) - so the handshake.Machine is built by the manager with the
// production verifier (HandshakeManager.certVerifier), index allocators and credentials.  The shim only reports what
// got installed in the main hostmap and what reached the socket.

import (
	"context"
	crand "crypto/rand"
	"encoding/binary"
	"fmt"
	"io"
	"sort"
	"log/slog"
	"net/netip"
	"time"

	"github.com/rcrowley/go-metrics"
	"github.com/slackhq/nebula/cert"
	"github.com/slackhq/nebula/config"
	"github.com/slackhq/nebula/header"
	"github.com/slackhq/nebula/noiseutil"
	"github.com/slackhq/nebula/udp"
)

type verifNMLevel struct{}

func (verifNMLevel) Enabled(context.Context, slog.Level) bool  { return false }
func (verifNMLevel) Handle(context.Context, slog.Record) error { return nil }
func (h verifNMLevel) WithAttrs([]slog.Attr) slog.Handler      { return h }
func (h verifNMLevel) WithGroup(string) slog.Handler           { return h }

type verifNMConn struct {
	udp.NoopConn
	pkts [][]byte
}

func (c *verifNMConn) WriteTo(b []byte, addr netip.AddrPort) error {
	c.pkts = append(c.pkts, append([]byte(nil), b...))
	return nil
}

func (c *verifNMConn) WriteBatch(bufs [][]byte, addrs []netip.AddrPort) (int, error) {
	for i := range bufs {
		c.WriteTo(bufs[i], addrs[i])
	}
	return len(bufs), nil
}

type VerifNMNode struct {
	hm  *HostMap
	hsm *HandshakeManager
	f   *Interface
	rec *verifNMConn
}

// VerifNMTunnel is a hostinfo the handshake installed in the main hostmap.
type VerifNMTunnel struct {
	PeerCert    *cert.CachedCertificate
	MyCert      cert.Certificate
	RemoteIndex uint32
	LocalIndex  uint32
	Counter     uint64
	Initiator   bool
	EKey, DKey  noiseutil.CipherState
}

func verifNMMust(err error) {
	if err != nil {
		panic(fmt.Sprintf("verif noise_mgr: %v", err))
	}
}

// VerifNMNew builds the node. cipher is "aes" or "chachapoly"; dv the version the node initiates (and answers) in.
func VerifNMNew(pool *cert.CAPool, dv cert.Version, v1, v2 cert.Certificate, curve cert.Curve, priv []byte, cipher string) *VerifNMNode {
	l := slog.New(verifNMLevel{})
	n := &VerifNMNode{rec: &verifNMConn{}}
	cs, err := newCertState(dv, v1, v2, false, curve, priv, cipher)
	verifNMMust(err)
	pki := &PKI{l: l}
	pki.cs.Store(cs)
	pki.caPool.Store(pool)

	n.hm = newHostMap(l)
	pr := []netip.Prefix{}
	n.hm.preferredRanges.Store(&pr)

	lh := &LightHouse{
		l:            l,
		amLighthouse: true,
		addrMap:      map[netip.Addr]*RemoteList{},
		queryChan:    make(chan netip.Addr, 16),
	}
	lhs := []netip.Addr{}
	static := map[netip.Addr]struct{}{}
	lh.localAddrsFn = func(*LocalAllowList) []netip.Addr { return nil }
	lh.lighthouses.Store(&lhs)
	lh.staticList.Store(&static)
	lh.remoteAllowList.Store(&RemoteAllowList{})

	conf := config.NewC(l)
	verifNMMust(conf.LoadString("relay:\n  use_relays: false\n"))

	n.hsm = NewHandshakeManager(l, n.hm, lh, n.rec, defaultHandshakeConfig)
	n.f = &Interface{
		hostMap:             n.hm,
		outside:             n.rec,
		writers:             []udp.Conn{n.rec},
		handshakeManager:    n.hsm,
		lightHouse:          lh,
		pki:                 pki,
		myVpnAddrs:          cs.myVpnAddrs,
		myVpnAddrsTable:     cs.myVpnAddrsTable,
		myVpnNetworks:       cs.myVpnNetworks,
		myVpnNetworksTable:  cs.myVpnNetworksTable,
		relayManager:        NewRelayManager(context.Background(), l, n.hm, conf),
		metricHandshakes:    metrics.NilHistogram{},
		cachedPacketMetrics: &cachedPacketMetrics{sent: metrics.NilCounter{}, dropped: metrics.NilCounter{}},
		l:                   l,
	}
	n.hsm.f = n.f
	return n
}

func (n *VerifNMNode) tunnels() map[*HostInfo]struct{} {
	r := map[*HostInfo]struct{}{}
	n.hm.RLock()
	for _, h := range n.hm.Indexes {
		r[h] = struct{}{}
	}
	n.hm.RUnlock()
	return r
}

func verifNMUnderlay(u int) netip.AddrPort {
	return netip.AddrPortFrom(netip.AddrFrom4([4]byte{198, 51, 100, byte(u)}), 4242)
}

// Incoming hands a handshake packet to the real HandleIncoming as coming from underlay address number `from`.
// Returns what the node sent in response (nil if nothing) and the tunnel that appeared in the main hostmap (nil if none).
func (n *VerifNMNode) Incoming(pkt []byte, from int) (reply []byte, tun *VerifNMTunnel) {
	var h header.H
	verifNMMust(h.Parse(pkt))
	before := n.tunnels()
	sent := len(n.rec.pkts)
	buf := append([]byte(nil), pkt...)
	n.hsm.HandleIncoming(ViaSender{UdpAddr: verifNMUnderlay(from)}, buf, &h)
	for _, p := range n.rec.pkts[sent:] {
		if len(p) >= header.Len && header.MessageType(p[0]&0x0f) == header.Handshake {
			reply = p
		}
	}
	for hi := range n.tunnels() {
		if _, old := before[hi]; old || hi.ConnectionState == nil {
			continue
		}
		cs := hi.ConnectionState
		tun = &VerifNMTunnel{PeerCert: cs.peerCert, MyCert: cs.myCert, RemoteIndex: hi.remoteIndexId, LocalIndex: hi.localIndexId,
			Counter: cs.messageCounter.Load(), Initiator: cs.initiator, EKey: cs.eKey, DKey: cs.dKey}
	}
	return reply, tun
}

// Start runs the real StartHandshake for the overlay address and the first handleOutbound attempt, which builds the
// stage-0 packet through handshake.Machine. Returns that packet (nil if none was built).
func (n *VerifNMNode) Start(addr netip.Addr, to int) []byte {
	h := n.hsm.StartHandshake(addr, nil)
	h.remotes = NewRemoteList([]netip.Addr{addr}, nil)
	ap := verifNMUnderlay(to)
	h.remotes.Lock()
	h.remotes.unlockedSetV4(addr, addr, []*V4AddrPort{netAddrToProtoV4AddrPort(ap.Addr(), ap.Port())}, func(netip.Addr, *V4AddrPort) bool { return true })
	h.remotes.Unlock()
	n.hsm.handleOutbound(addr, false)
	return h.HandshakePacket[handshakePacketStage0]
}

// Abandon drops a pending handshake for the address, if there is one (so that the next Start begins afresh).
func (n *VerifNMNode) Abandon(addr netip.Addr) {
	if hh := n.hsm.queryVpnIp(addr); hh != nil {
		n.hsm.DeleteHostInfo(hh.hostinfo)
	}
}

var _ = time.Now

// ---- scripted index allocation ---------------------------------------------------------------------------------

// verifNMRand serves the 4-byte reads of generateIndex from a script (afterwards from the real source) and passes every
// other read (ephemeral keys) to the real source. Every served 4-byte value is recorded.
type verifNMRand struct {
	real   io.Reader
	script []uint32
	served []uint32
}

func (r *verifNMRand) Read(p []byte) (int, error) {
	if len(p) != 4 {
		return io.ReadFull(r.real, p)
	}
	if len(r.script) > 0 {
		binary.BigEndian.PutUint32(p, r.script[0])
		r.script = r.script[1:]
	} else if _, err := io.ReadFull(r.real, p); err != nil {
		return 0, err
	}
	r.served = append(r.served, binary.BigEndian.Uint32(p))
	return 4, nil
}

// VerifNMWithRand runs fn with crypto/rand.Reader replaced: the index candidates generateIndex draws come from script.
// Returns the candidates that were drawn.
func VerifNMWithRand(script []uint32, fn func()) []uint32 {
	r := &verifNMRand{real: crand.Reader, script: script}
	old := crand.Reader
	crand.Reader = io.Reader(r)
	defer func() { crand.Reader = old }()
	fn()
	return r.served
}

// ---- more ways in -----------------------------------------------------------------------------------------------

func verifNMUnderlayNum(ap netip.AddrPort) uint64 {
	if !ap.IsValid() {
		return 0
	}
	b := ap.Addr().As4()
	return uint64(b[3])
}

func verifNMAddrNum(a netip.Addr) uint64 {
	if !a.Is4() {
		return 0
	}
	b := a.As4()
	return uint64(b[3])
}

// IncomingRelayed is Incoming for a packet that arrived through the relay with overlay address 10.0.0.<relay>.
func (n *VerifNMNode) IncomingRelayed(pkt []byte, relay int) (reply []byte, tun *VerifNMTunnel) {
	var h header.H
	verifNMMust(h.Parse(pkt))
	before := n.tunnels()
	buf := append([]byte(nil), pkt...)
	relayHI := &HostInfo{vpnAddrs: []netip.Addr{netip.AddrFrom4([4]byte{10, 0, 0, byte(relay)})}}
	n.hsm.HandleIncoming(ViaSender{relayHI: relayHI, relay: &Relay{}, IsRelayed: true}, buf, &h)
	for hi := range n.tunnels() {
		if _, old := before[hi]; old || hi.ConnectionState == nil {
			continue
		}
		cs := hi.ConnectionState
		tun = &VerifNMTunnel{PeerCert: cs.peerCert, MyCert: cs.myCert, RemoteIndex: hi.remoteIndexId, LocalIndex: hi.localIndexId,
			Counter: cs.messageCounter.Load(), Initiator: cs.initiator, EKey: cs.eKey, DKey: cs.dKey}
	}
	return nil, tun
}

// Retransmit runs the next real handleOutbound attempt of the pending handshake for addr and returns the handshake
// packet that reached the socket (nil if none).
func (n *VerifNMNode) Retransmit(addr netip.Addr) []byte {
	sent := len(n.rec.pkts)
	n.hsm.handleOutbound(addr, false)
	var out []byte
	for _, p := range n.rec.pkts[sent:] {
		if len(p) >= header.Len && header.MessageType(p[0]&0x0f) == header.Handshake {
			out = p
		}
	}
	return out
}

// StartPending is Start without a peer in mind: it leaves a pending handshake (with an allocated local index) behind.
func (n *VerifNMNode) StartPending(addr netip.Addr) uint32 {
	n.Start(addr, 250)
	if hh := n.hsm.queryVpnIp(addr); hh != nil {
		return hh.hostinfo.localIndexId
	}
	return 0
}

// ---- dumps ------------------------------------------------------------------------------------------------------

// VerifNMPending is everything observable about the pending handshake for an overlay address.
type VerifNMPending struct {
	Present    bool
	LocalIndex uint32
	Remote     uint64   // underlay address number of hostinfo.remote (0 = none)
	Relays     []uint64 // overlay address numbers of hostinfo.relayState relays
	Remotes    []uint64 // underlay address numbers of hostinfo.remotes
	Counter    int64
	Stored     int
	Failed     bool
}

func (n *VerifNMNode) Pending(addr netip.Addr) VerifNMPending {
	hh := n.hsm.queryVpnIp(addr)
	if hh == nil {
		return VerifNMPending{}
	}
	hi := hh.hostinfo
	d := VerifNMPending{Present: true, LocalIndex: hi.localIndexId, Remote: verifNMUnderlayNum(hi.GetRemote()), Counter: hh.counter, Stored: len(hh.packetStore)}
	if n.hsm.queryIndex(hi.localIndexId) != hh {
		d.LocalIndex = 0 // the index no longer leads to this handshake
	}
	for _, r := range hi.relayState.CopyRelayIps() {
		d.Relays = append(d.Relays, verifNMAddrNum(r))
	}
	if hi.remotes != nil {
		for _, ap := range hi.remotes.CopyAddrs(n.hm.GetPreferredRanges()) {
			d.Remotes = append(d.Remotes, verifNMUnderlayNum(ap))
		}
	}
	if hh.machine != nil {
		d.Failed = hh.machine.Failed()
	}
	return d
}

// VerifNMTunnelDump is one hostinfo of the main hostmap.
type VerifNMTunnelDump struct {
	Peer        uint64 // overlay address number of vpnAddrs[0]
	LocalIndex  uint32
	RemoteIndex uint32
	Counter     uint64
	Initiator   bool
	Remote      uint64
	Relays      []uint64
	Primary     bool
}

// Tunnels lists the main hostmap by local index, plus the local indexes of pending handshakes.
func (n *VerifNMNode) Tunnels() (tuns []VerifNMTunnelDump, pending []uint32) {
	n.hm.RLock()
	for idx, hi := range n.hm.Indexes {
		d := VerifNMTunnelDump{Peer: verifNMAddrNum(hi.vpnAddrs[0]), LocalIndex: idx, RemoteIndex: hi.remoteIndexId, Remote: verifNMUnderlayNum(hi.GetRemote()),
			Primary: n.hm.Hosts[hi.vpnAddrs[0]] == hi}
		if hi.ConnectionState != nil {
			d.Counter, d.Initiator = hi.ConnectionState.messageCounter.Load(), hi.ConnectionState.initiator
		}
		for _, r := range hi.relayState.CopyRelayIps() {
			d.Relays = append(d.Relays, verifNMAddrNum(r))
		}
		tuns = append(tuns, d)
	}
	n.hm.RUnlock()
	sort.Slice(tuns, func(i, j int) bool { return tuns[i].LocalIndex < tuns[j].LocalIndex })
	n.hsm.RLock()
	for idx := range n.hsm.indexes {
		pending = append(pending, idx)
	}
	n.hsm.RUnlock()
	sort.Slice(pending, func(i, j int) bool { return pending[i] < pending[j] })
	return tuns, pending
}

// Seal builds a data packet on the tunnel with the given local index the way the node does (header with the tunnel's
// remote index and next counter, AEAD over the payload with the header as associated data).
func (n *VerifNMNode) Seal(localIndex uint32, payload []byte) []byte {
	hi := n.hm.QueryIndex(localIndex)
	if hi == nil || hi.ConnectionState == nil {
		return nil
	}
	c, ok := hi.ConnectionState.NextMessageCounter()
	if !ok {
		return nil
	}
	out := header.Encode(make([]byte, header.Len, header.Len+len(payload)+16), header.Version, header.Message, 0, hi.remoteIndexId, c)
	out, err := hi.ConnectionState.eKey.EncryptDanger(out, out, payload, c, make([]byte, 12))
	if err != nil {
		return nil
	}
	return out
}

// Open looks the packet up by the index it is addressed to, as the receive path does, and tries to open it with that
// tunnel's receiving key. Returns the local index of the tunnel it reached (0 if none) and whether it opened.
func (n *VerifNMNode) Open(pkt []byte) (uint32, bool) {
	var h header.H
	if err := h.Parse(pkt); err != nil {
		return 0, false
	}
	hi := n.hm.QueryIndex(h.RemoteIndex)
	if hi == nil || hi.ConnectionState == nil {
		return 0, false
	}
	_, err := hi.ConnectionState.dKey.DecryptDanger(nil, pkt[:header.Len], pkt[header.Len:], h.MessageCounter, make([]byte, 12))
	return hi.localIndexId, err == nil
}

//go:build verif && (comp_all || comp_lifecycle || comp_lifecyclenet)

package nebula

// Verification shim for C49 (component lifecycle): a REAL Control + Interface (Start, Stop, RebindUDPServer, onFatal,
// activate, run, listenOut, listenIn, Close, wait are the real ones) over a recording tun device and recording
// sockets, built the way control_lifecycle_test.go builds its Control. The harness applies operation sequences and
// reads back the run state and which resources are closed.

import (
	"context"
	"errors"
	"io"
	"log/slog"
	"net/netip"
	"os"
	"sync"
	"sync/atomic"
	"time"

	"github.com/gaissmai/bart"
	"github.com/slackhq/nebula/config"
	"github.com/slackhq/nebula/header"
	"github.com/slackhq/nebula/overlay/batch"
	"github.com/slackhq/nebula/overlay/tio"
	"github.com/slackhq/nebula/routing"
	"github.com/slackhq/nebula/udp"
)

type verifLifeDev struct {
	once         sync.Once
	closedCh     chan struct{}
	closed       atomic.Bool
	closes       atomic.Int32
	failActivate atomic.Bool
	failQueues   atomic.Bool
	maxQueues    int          // the device opens at most this many queues, whatever it is asked for
	handed       atomic.Int32 // queues handed out so far (ledger)
}

func (d *verifLifeDev) Read() ([]tio.Packet, error) { <-d.closedCh; return nil, io.EOF }
func (d *verifLifeDev) Write(p []byte) (int, error) { return len(p), nil }
func (d *verifLifeDev) Close() error {
	d.closes.Add(1)
	d.once.Do(func() { d.closed.Store(true); close(d.closedCh) })
	return nil
}
func (d *verifLifeDev) Activate() error {
	if d.failActivate.Load() {
		return errors.New("verif: activate fails")
	}
	return nil
}
func (d *verifLifeDev) Networks() []netip.Prefix              { return nil }
func (d *verifLifeDev) Name() string                          { return "verif" }
func (d *verifLifeDev) RoutesFor(netip.Addr) routing.Gateways { return nil }
func (d *verifLifeDev) Queues(n int) ([]tio.Queue, error) {
	if d.failQueues.Load() {
		return nil, errors.New("verif: queue failed to open")
	}
	if d.maxQueues > 0 && n > d.maxQueues {
		n = d.maxQueues // allowed by the Device contract: activate sizes the readers to what it got
	}
	q := make([]tio.Queue, n)
	for i := range q {
		q[i] = d
	}
	d.handed.Add(int32(n))
	return q, nil
}

type verifLifeConn struct {
	once     sync.Once
	closedCh chan struct{}
	closed   atomic.Bool
	closes   atomic.Int32
	rebinds  atomic.Int32
	multi    bool
	readers  atomic.Int32 // ListenOut calls in progress
}

func (c *verifLifeConn) Rebind() error                      { c.rebinds.Add(1); return nil }
func (c *verifLifeConn) LocalAddr() (netip.AddrPort, error) { return netip.AddrPort{}, nil }
func (c *verifLifeConn) ListenOut(_ udp.EncReader, _ func()) error {
	c.readers.Add(1)
	defer c.readers.Add(-1)
	<-c.closedCh
	return os.ErrClosed
}
func (c *verifLifeConn) WriteTo(_ []byte, _ netip.AddrPort) error { return nil }
func (c *verifLifeConn) WriteBatch(bufs [][]byte, _ []netip.AddrPort) (int, error) {
	return len(bufs), nil
}
func (c *verifLifeConn) ReloadConfig(_ *config.C)      {}
func (c *verifLifeConn) SupportsMultipleReaders() bool { return c.multi }
func (c *verifLifeConn) Close() error {
	c.closes.Add(1)
	c.once.Do(func() { c.closed.Store(true); close(c.closedCh) })
	return nil
}

type VerifLifeCtl struct {
	c     *Control
	dev   *verifLifeDev
	conns []*verifLifeConn
}

// VerifLifeNew builds a Control the way Main does for `routines` configured routines: one udp listener per routine,
// all of them handed to the interface as its writers. The device opens at most `queues` queues (0: as many as asked)
// and the udp backend can be read by several goroutines or not. Every listener is kept in a ledger of its own,
// independent of what the interface still references.
func VerifLifeNew(routines, queues int, multi bool) *VerifLifeCtl {
	l := slog.New(slog.DiscardHandler)
	dev := &verifLifeDev{closedCh: make(chan struct{}), maxQueues: queues}
	ctx, cancel := context.WithCancel(context.Background())
	myVpnNet := netip.MustParsePrefix("10.128.0.1/16")
	nt := new(bart.Lite)
	nt.Insert(myVpnNet)
	cs := &CertState{myVpnNetworks: []netip.Prefix{myVpnNet}, myVpnNetworksTable: nt}
	lh, err := NewLightHouseFromConfig(ctx, l, config.NewC(l), cs, nil, nil)
	if err != nil {
		panic(err)
	}
	v := &VerifLifeCtl{dev: dev}
	writers := make([]udp.Conn, routines)
	for i := range writers {
		cn := &verifLifeConn{closedCh: make(chan struct{}), multi: multi}
		v.conns = append(v.conns, cn)
		writers[i] = cn
	}
	f := &Interface{
		ctx: ctx, inside: dev, outside: writers[0], writers: writers,
		batchers: make([]*batch.MultiCoalescer, routines), routines: routines,
		hostMap: newHostMap(l), lightHouse: lh, l: l,
	}
	pr := []netip.Prefix{}
	f.hostMap.preferredRanges.Store(&pr)
	f.wg.Add(1)
	v.c = &Control{state: StateReady, f: f, l: l, ctx: ctx, cancel: cancel}
	return v
}

// Start: 0 ok, 1 already started, 2 already stopped, 3 unknown state, 4 activation error
func (v *VerifLifeCtl) Start(failActivate, failQueues bool) int {
	v.dev.failActivate.Store(failActivate)
	v.dev.failQueues.Store(failQueues)
	err := v.c.Start()
	switch {
	case err == nil:
		return 0
	case errors.Is(err, ErrAlreadyStarted):
		return 1
	case errors.Is(err, ErrAlreadyStopped):
		return 2
	case errors.Is(err, ErrUnknownState):
		return 3
	}
	return 4
}
func (v *VerifLifeCtl) Stop()   { v.c.Stop() }
func (v *VerifLifeCtl) Rebind() { v.c.RebindUDPServer() }

// Fatal reports a reader error the way listenOut / listenIn do.
func (v *VerifLifeCtl) Fatal() { v.c.f.onFatal(errors.New("verif: reader failed")) }
func (v *VerifLifeCtl) State() int    { return int(v.c.State()) }
func (v *VerifLifeCtl) CtxDone() bool { return v.c.ctx.Err() != nil }
func (v *VerifLifeCtl) TunClosed() bool { return v.dev.closed.Load() }
func (v *VerifLifeCtl) TunCloses() int  { return int(v.dev.closes.Load()) }
func (v *VerifLifeCtl) UDPClosed() bool {
	for _, c := range v.conns {
		if !c.closed.Load() {
			return false
		}
	}
	return true
}
func (v *VerifLifeCtl) UDPCloses() int {
	n := 0
	for _, c := range v.conns {
		n += int(c.closes.Load())
	}
	return n
}
func (v *VerifLifeCtl) Rebinds() int { return int(v.conns[0].rebinds.Load()) }

// the ledger: listeners ever opened, those still open, device queues handed out, readers running now
func (v *VerifLifeCtl) UDPOpened() int { return len(v.conns) }
func (v *VerifLifeCtl) UDPLeftOpen() int {
	n := 0
	for _, c := range v.conns {
		if !c.closed.Load() {
			n++
		}
	}
	return n
}
func (v *VerifLifeCtl) QueuesHanded() int { return int(v.dev.handed.Load()) }
func (v *VerifLifeCtl) Readers() int {
	n := 0
	for _, c := range v.conns {
		n += int(c.readers.Load())
	}
	return n
}

// Wait reports whether Control.Wait returned within d.
func (v *VerifLifeCtl) Wait(d time.Duration) bool {
	done := make(chan struct{})
	go func() { v.c.Wait(); close(done) }()
	select {
	case <-done:
		return true
	case <-time.After(d):
		return false
	}
}

// StopConcurrently runs n Stop calls and one Start at once (control_lifecycle_test.go TestControl_ConcurrentStopAndStart).
func (v *VerifLifeCtl) StopConcurrently(n int, withStart bool) {
	var wg sync.WaitGroup
	for i := 0; i < n; i++ {
		wg.Go(func() { v.c.Stop() })
	}
	if withStart {
		wg.Go(func() { _ = v.c.Start() })
	}
	wg.Wait()
}

// ---- what a send does to the lighthouse query channel (C49: Stop's tunnel-closing phase must not block) -----------

type verifLifeCipher struct{}

func (verifLifeCipher) EncryptDanger(out, ad, plaintext []byte, n uint64, nb []byte) ([]byte, error) {
	return append(out, plaintext...), nil
}
func (verifLifeCipher) DecryptDanger(out, ad, ciphertext []byte, n uint64, nb []byte) ([]byte, error) {
	return append(out, ciphertext...), nil
}
func (verifLifeCipher) Overhead() int { return 16 }

const (
	VerifLifeCloseTunnelType = int(header.CloseTunnel)
	VerifLifeMaxMessageType  = int(header.Control)
)

// VerifLifeSendQueries runs the real Interface.send (the call Control.CloseAllTunnels and Control.CloseTunnel make)
// for message type t on a tunnel whose lastRebindCount differs (or not) from the interface's rebindCount, on a
// lighthouse or a plain node, and returns how many entries the call put into LightHouse.queryChan (no worker is
// draining it here, so the count is exact; the capacity is large enough that nothing blocks).
func VerifLifeSendQueries(t int, rebindMismatch, amLighthouse bool) int {
	l := slog.New(slog.DiscardHandler)
	ctx, cancel := context.WithCancel(context.Background())
	defer cancel()
	// a LightHouse without its query worker: whatever QueryServer queues stays queued, so the count is exact
	lh := &LightHouse{l: l, ctx: ctx, amLighthouse: amLighthouse, addrMap: map[netip.Addr]*RemoteList{}, queryChan: make(chan netip.Addr, 16)}
	lighthouses := []netip.Addr{}
	staticList := map[netip.Addr]struct{}{}
	lh.lighthouses.Store(&lighthouses)
	lh.staticList.Store(&staticList)
	conn := &verifLifeConn{closedCh: make(chan struct{})}
	f := &Interface{
		ctx: ctx, outside: conn, writers: []udp.Conn{conn}, hostMap: newHostMap(l), lightHouse: lh, l: l,
		messageMetrics: newMessageMetricsOnlyRecvError(), connectionManager: &connectionManager{l: l},
	}
	if rebindMismatch {
		f.rebindCount = 1
	}
	hi := &HostInfo{vpnAddrs: []netip.Addr{netip.MustParseAddr("10.128.0.9")},
		ConnectionState: &ConnectionState{eKey: verifLifeCipher{}, dKey: verifLifeCipher{}, window: NewBits(ReplayWindow)},
		localIndexId: 7, remoteIndexId: 9}
	remote := netip.MustParseAddrPort("192.0.2.9:4242")
	hi.remote.Store(&remote)
	f.send(header.MessageType(t), 0, hi.ConnectionState, hi, []byte{}, make([]byte, 12, 12), make([]byte, mtu))
	return len(lh.queryChan)
}

//go:build verif && e2e_testing && (comp_all || comp_lifecyclenet)

package nebula

// Verification shim for C49 (component lifecyclenet): read-only probes of a real node's resources.

import (
	"io"
	"net/netip"

	"github.com/slackhq/nebula/overlay"
	"github.com/slackhq/nebula/udp"
)

// VerifLifeCtxDone reports whether the service context has been cancelled.
func VerifLifeCtxDone(c *Control) bool { return c.ctx.Err() != nil }

// VerifLifeUDPClosed reports whether every underlay socket refuses writes (udp.TesterConn.WriteTo returns
// io.ErrClosedPipe once Close ran). The probe packet is drained again when the socket is still open.
func VerifLifeUDPClosed(c *Control) bool {
	all := true
	for _, w := range c.f.writers {
		tc := w.(*udp.TesterConn)
		err := tc.WriteTo([]byte{0}, netip.MustParseAddrPort("192.0.2.1:9"))
		if err != io.ErrClosedPipe {
			all = false
			if p := tc.Get(false); p != nil {
				p.Release()
			}
		}
	}
	return all
}

// VerifLifeTunClosed reports whether the tun device refuses writes.
func VerifLifeTunClosed(c *Control) bool {
	t := c.f.inside.(*overlay.TestTun)
	_, err := t.Write([]byte{0})
	if err == nil {
		t.Get(false)
		return false
	}
	return err == io.ErrClosedPipe
}

// VerifLifeInterfaceClosed is Interface.closed.
func VerifLifeInterfaceClosed(c *Control) bool { return c.f.closed.Load() }

func VerifLifeRoutines(c *Control) int { return c.f.routines }

// VerifLifeQueueLighthouse fills the lighthouse query queue and the handshake trigger channel the way a burst of
// unknown destinations does.
func VerifLifeQueueLighthouse(c *Control, addrs []netip.Addr) {
	for _, a := range addrs {
		c.f.lightHouse.QueryServer(a)
		select {
		case c.f.handshakeManager.trigger <- a:
		default:
		}
	}
}

//go:build verif && e2e_testing && (comp_all || comp_lifecyclenet)

package nebula

// Verification shim for C49 (component lifecyclenet): read-only probes of a real node's resources.

import (
	"net/netip"

	"github.com/slackhq/nebula/overlay"
	"github.com/slackhq/nebula/udp"
)

// VerifLifeCtxDone reports whether the service context has been cancelled.
func VerifLifeCtxDone(c *Control) bool { return c.ctx.Err() != nil }

// VerifLifeUDPClosed reports whether Close ran on every underlay socket.
func VerifLifeUDPClosed(c *Control) bool {
	for _, w := range c.f.writers {
		if !udp.VerifLifeClosed(w) {
			return false
		}
	}
	return true
}

// VerifLifeTunClosed reports whether Close ran on the tun device.
func VerifLifeTunClosed(c *Control) bool { return overlay.VerifLifeTunClosed(c.f.inside) }

// VerifLifeInterfaceClosed is Interface.closed.
func VerifLifeInterfaceClosed(c *Control) bool { return c.f.closed.Load() }

func VerifLifeRoutines(c *Control) int { return c.f.routines }

// VerifLifeQueueLighthouse fills the lighthouse query queue and the handshake trigger channel the way a burst of
// unknown destinations does.
func VerifLifeQueueLighthouse(c *Control, addrs []netip.Addr) {
	for _, a := range addrs {
		c.f.lightHouse.QueryServer(a)
		select {
		case c.f.handshakeManager.trigger <- a:
		default:
		}
	}
}

// VerifLifeLedger returns every udp listener Main opened for this node (Interface.writers as handed over by Main),
// to be called right after Main: the harness keeps the list itself, so a listener the interface later forgets is
// still checked after Stop.
func VerifLifeLedger(c *Control) []udp.Conn { return append([]udp.Conn{}, c.f.writers...) }

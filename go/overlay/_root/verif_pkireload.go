//go:build verif && (comp_all || comp_pkireload)

package nebula

// Verification shim for property C42 (certificate reload never changes a node's identity).
// It drives the REAL path config.C.LoadString -> NewPKIFromConfig and config.C.ReloadConfigString -> reload
// callback -> PKI.reload -> reloadCerts + reloadCAPool, and reports what PKI.getCertState / PKI.GetCAPool hold.

import (
	"log/slog"
	"net/netip"

	"github.com/slackhq/nebula/cert"
	"github.com/slackhq/nebula/config"
)

// VerifPki is a PKI built from a configuration string, together with that configuration.
type VerifPki struct {
	c *config.C
	p *PKI
}

// VerifPkiCert is what the harness needs to know about one certificate in use.
type VerifPkiCert struct {
	Fingerprint string
	Version     cert.Version
	Curve       cert.Curve
	PublicKey   []byte
	Networks    []netip.Prefix
}

// VerifPkiSnap is the state the PKI holds at one moment.
type VerifPkiSnap struct {
	State      *CertState // identity only (compared with ==)
	V1, V2     *VerifPkiCert
	PrivateKey []byte
	Networks   []netip.Prefix // CertState.myVpnNetworks
	Addrs      []netip.Addr   // CertState.myVpnAddrs
	Initiating cert.Version
	Pool       *cert.CAPool
}

// VerifPkiNew is the initial load: the error is NewPKIFromConfig's (or the YAML parser's).
func VerifPkiNew(yaml string) (*VerifPki, error) {
	l := slog.New(slog.DiscardHandler)
	c := config.NewC(l)
	if err := c.LoadString(yaml); err != nil {
		return nil, err
	}
	p, err := NewPKIFromConfig(l, c)
	if err != nil {
		return nil, err
	}
	return &VerifPki{c: c, p: p}, nil
}

// Reload replaces the configuration and fires the reload callbacks, as a SIGHUP does.
func (v *VerifPki) Reload(yaml string) error { return v.c.ReloadConfigString(yaml) }

func verifPkiCert(c cert.Certificate) *VerifPkiCert {
	if c == nil {
		return nil
	}
	fp, _ := c.Fingerprint()
	return &VerifPkiCert{Fingerprint: fp, Version: c.Version(), Curve: c.Curve(),
		PublicKey: append([]byte{}, c.PublicKey()...), Networks: append([]netip.Prefix{}, c.Networks()...)}
}

// Snap reads PKI.getCertState() and PKI.GetCAPool().
func (v *VerifPki) Snap() VerifPkiSnap {
	cs := v.p.getCertState()
	s := VerifPkiSnap{State: cs, Pool: v.p.GetCAPool()}
	if cs == nil {
		return s
	}
	s.V1 = verifPkiCert(cs.v1Cert)
	s.V2 = verifPkiCert(cs.v2Cert)
	s.PrivateKey = append([]byte{}, cs.privateKey...)
	s.Networks = append([]netip.Prefix{}, cs.myVpnNetworks...)
	s.Addrs = append([]netip.Addr{}, cs.myVpnAddrs...)
	s.Initiating = cs.initiatingVersion
	return s
}

//go:build verif && (comp_all || comp_coalesce)

package nebula

import "github.com/slackhq/nebula/firewall"

// VerifCoalesceNewPacket is the real newPacket (outside.go) as handleOutsideMessagePacket calls it (incoming);
// its ParsedPacket is what MultiCoalescer.Commit is handed.
func VerifCoalesceNewPacket(data []byte, fp *firewall.ParsedPacket) error {
	return newPacket(data, true, fp)
}

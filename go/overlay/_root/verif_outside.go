//go:build verif && e2e_testing && (comp_all || comp_outside)

package nebula

// Verification shim for properties C14 (unauthenticated packets have no effect) and C15 (relays never see or
// alter end-to-end traffic).
//
// A node is built by the REAL nebula.Main from a configuration, exactly as the repository's e2e tests do
// (build tag e2e_testing: in-memory udp.TesterConn, overlay.TestTun). The background goroutines Main starts
// (handshake timer, punch scheduler, lighthouse query worker, stats) are stopped by cancelling Main's context;
// the harness then drives the node synchronously through the same entry points those goroutines and the
// listenOut / listenIn loops call: readOutsidePackets, consumeInsidePacket, handleOutbound, innerQueryServer,
// SendUpdate. Nothing of nebula is replaced: ciphers, hostmap, lighthouse, relay manager, firewall, handshake
// manager are the real ones. Only property-level observables leave the shim: a canonical digest of the node's
// state and the packets it put on the wire / wrote to the tun.

import (
	"encoding/binary"
	"fmt"
	"hash/fnv"
	"log/slog"
	"net/netip"
	"os"
	"sort"
	"strings"
	"time"

	"github.com/slackhq/nebula/config"
	"github.com/slackhq/nebula/firewall"
	"github.com/slackhq/nebula/header"
	"github.com/slackhq/nebula/overlay"
	"github.com/slackhq/nebula/overlay/batch"
	"github.com/slackhq/nebula/overlay/tio"
	"github.com/slackhq/nebula/udp"
)

// ---- constants (T1) ---------------------------------------------------------------------------------

const (
	VerifOutsideTerminalType   = TerminalType
	VerifOutsideForwardingType = ForwardingType
	VerifOutsideRequested      = Requested
	VerifOutsidePeerRequested  = PeerRequested
	VerifOutsideEstablished    = Established
	VerifOutsideDisestablished = Disestablished
	VerifOutsideReplayWindow   = ReplayWindow
)

// VerifOutsideCtlRequest marshals a CreateRelayRequest control message (v2 address form).
func VerifOutsideCtlRequest(initIdx uint32, from, to netip.Addr) []byte {
	m := NebulaControl{Type: NebulaControl_CreateRelayRequest, InitiatorRelayIndex: initIdx,
		RelayFromAddr: netAddrToProtoAddr(from), RelayToAddr: netAddrToProtoAddr(to)}
	b, err := m.Marshal()
	if err != nil {
		panic(err)
	}
	return b
}

// VerifOutsideHostUpdate marshals a HostUpdateNotification for vpnAddr advertising one IPv4 underlay address.
func VerifOutsideHostUpdate(vpnAddr netip.Addr, underlay netip.AddrPort) []byte {
	m := &NebulaMeta{Type: NebulaMeta_HostUpdateNotification, Details: &NebulaMetaDetails{
		VpnAddr:     netAddrToProtoAddr(vpnAddr),
		V4AddrPorts: []*V4AddrPort{netAddrToProtoV4AddrPort(underlay.Addr(), underlay.Port())},
	}}
	b, err := m.Marshal()
	if err != nil {
		panic(err)
	}
	return b
}

// ---- a node -------------------------------------------------------------------------------------------

type VerifOutsidePkt struct {
	From, To netip.AddrPort
	Data     []byte
}

type VerifOutsideNode struct {
	Ctl  *Control
	f    *Interface
	conn *udp.TesterConn
	tun  *overlay.TestTun
	rxc  *rxContext

	sb        *batch.SendBatch
	fwPacket  *firewall.ParsedPacket
	nb        []byte
	rejectBuf []byte
	lhOut     []byte
	batch     *verifOutsideBatchConn
}

// VerifOutsideNewNode runs the real Main on the configuration and takes the node over for synchronous driving.
// Call VerifOutsideSettle once after the last node was created and before the first packet moves.
func VerifOutsideNewNode(c *config.C, l *slog.Logger) (n *VerifOutsideNode, err error) {
	ctl, err := Main(c, false, "verif", l, nil)
	if err != nil {
		return nil, err
	}
	ctl.cancel() // stops handshakeManager.Run, the punch scheduler, the lighthouse query worker, emitStats, CatchHUP
	n = &VerifOutsideNode{Ctl: ctl, f: ctl.f}
	n.conn = ctl.f.outside.(*udp.TesterConn)
	n.tun = ctl.f.inside.(*overlay.TestTun)
	// nobody drains these concurrently: make them deep enough that a synchronous call never blocks on them
	n.conn.TxPackets = make(chan *udp.Packet, 1<<15)
	n.tun.TxPackets = make(chan []byte, 1<<15)
	if err = ctl.f.activate(); err != nil {
		return nil, err
	}
	n.rxc = newRxContext(ctl.f, 0)
	n.sb = batch.NewSendBatch(ctl.f.writers[0], batch.SendBatchCap, batch.SendBatchCap*(udp.MTU+32))
	n.fwPacket = &firewall.ParsedPacket{}
	n.nb = make([]byte, 12, 12)
	n.rejectBuf = make([]byte, mtu)
	n.lhOut = make([]byte, mtu)
	return n, nil
}

// VerifOutsideSettle gives the goroutines of cancelled nodes the moment they need to leave their select loops.
func VerifOutsideSettle() { time.Sleep(30 * time.Millisecond) }

func (n *VerifOutsideNode) Addr() netip.AddrPort   { return n.conn.GetAddr() }
func (n *VerifOutsideNode) VpnAddrs() []netip.Addr { return n.f.myVpnAddrs }
func (n *VerifOutsideNode) AmRelay() bool          { return n.f.relayManager.GetAmRelay() }
func (n *VerifOutsideNode) AmLighthouse() bool     { return n.f.lightHouse.amLighthouse }
func (n *VerifOutsideNode) CipherOverhead() int    { return 16 }

// Inject hands one underlay datagram to the real readOutsidePackets, then flushes the tun batcher exactly as
// listenOut's flusher does. The datagram is copied first (decryption is in place).
func (n *VerifOutsideNode) Inject(from netip.AddrPort, data []byte) (panicked string) {
	buf := append(make([]byte, 0, len(data)+64), data...)
	defer func() {
		if p := recover(); p != nil {
			panicked = fmt.Sprint(p)
		}
	}()
	n.f.readOutsidePackets(ViaSender{UdpAddr: from}, buf, n.rxc)
	_ = n.f.batchers[0].Flush()
	clear(n.rxc.hostmapCache)
	return ""
}

// InjectRelayed is the recursive call handleOutsideRelayPacket makes for the payload of a verified packet on a
// terminal relay record: readOutsidePackets with ViaSender{relayHI, relay, IsRelayed}. relayLocal is the relay
// index (HostMap.Relays key) of that record.
func (n *VerifOutsideNode) InjectRelayed(relayLocal uint32, data []byte) (panicked string) {
	hi := n.f.hostMap.QueryRelayIndex(relayLocal)
	if hi == nil {
		return "verif: no such relay index"
	}
	relay, ok := hi.relayState.QueryRelayForByIdx(relayLocal)
	if !ok {
		return "verif: no relay record"
	}
	buf := append(make([]byte, 0, len(data)+64), data...)
	defer func() {
		if p := recover(); p != nil {
			panicked = fmt.Sprint(p)
		}
	}()
	n.f.readOutsidePackets(ViaSender{UdpAddr: hi.GetRemote(), relayHI: hi, relay: relay, IsRelayed: true}, buf, n.rxc)
	_ = n.f.batchers[0].Flush()
	clear(n.rxc.hostmapCache)
	return ""
}

// TunSend is one iteration of listenIn for one IP packet read from the tun.
func (n *VerifOutsideNode) TunSend(pkt []byte) {
	buf := append([]byte(nil), pkt...)
	n.f.consumeInsidePacket(tio.Packet{Bytes: buf}, n.fwPacket, n.nb, n.sb, n.rejectBuf, 0, nil)
	n.f.flushSendBatch(n.sb, 0)
}

// Pump runs what the stopped goroutines would have run for the events queued so far: lighthouse-triggered
// handshake attempts and lighthouse queries.
func (n *VerifOutsideNode) Pump() {
	for i := 0; i < 64; i++ {
		did := false
		select {
		case ip := <-n.f.handshakeManager.trigger:
			n.f.handshakeManager.handleOutbound(ip, true)
			did = true
		default:
		}
		select {
		case a := <-n.f.lightHouse.queryChan:
			n.f.lightHouse.innerQueryServer(a, n.nb, n.lhOut)
			did = true
		default:
		}
		if !did {
			return
		}
	}
}

// Attempt is one timer-driven handshake attempt for a pending handshake (what the timer wheel triggers).
func (n *VerifOutsideNode) Attempt(vpnAddr netip.Addr) {
	n.f.handshakeManager.handleOutbound(vpnAddr, false)
}

// SendLighthouseUpdate is one round of the lighthouse update worker.
func (n *VerifOutsideNode) SendLighthouseUpdate() { n.f.lightHouse.SendUpdate() }

// SetLocalAddrs replaces underlay address discovery (as Control.SetLocalAddrsFn in the e2e tests).
func (n *VerifOutsideNode) SetLocalAddrs(a []netip.Addr) {
	n.f.lightHouse.localAddrsFn = func(*LocalAllowList) []netip.Addr { return a }
}

// LearnAddr / LearnRelays: Control.InjectLightHouseAddr / InjectRelays of the e2e tests.
func (n *VerifOutsideNode) LearnAddr(vpn netip.Addr, to netip.AddrPort) {
	lh := n.f.lightHouse
	lh.Lock()
	rl := lh.unlockedGetRemoteList([]netip.Addr{vpn})
	rl.Lock()
	lh.Unlock()
	defer rl.Unlock()
	if to.Addr().Is4() {
		rl.unlockedPrependV4(vpn, netAddrToProtoV4AddrPort(to.Addr(), to.Port()))
	} else {
		rl.unlockedPrependV6(vpn, netAddrToProtoV6AddrPort(to.Addr(), to.Port()))
	}
}

func (n *VerifOutsideNode) LearnRelays(vpn netip.Addr, relays []netip.Addr) {
	lh := n.f.lightHouse
	lh.Lock()
	rl := lh.unlockedGetRemoteList([]netip.Addr{vpn})
	rl.Lock()
	lh.Unlock()
	defer rl.Unlock()
	rl.unlockedSetRelay(vpn, relays)
}

// SendTest / SendClose / SendCtl make the node emit a packet of the given kind on an established tunnel through
// the real send path.
func (n *VerifOutsideNode) SendTest(vpn netip.Addr, reply bool, payload []byte) bool {
	hi := n.f.hostMap.QueryVpnAddr(vpn)
	if hi == nil {
		return false
	}
	st := header.TestRequest
	if reply {
		st = header.TestReply
	}
	n.f.SendMessageToHostInfo(header.Test, st, hi, payload, make([]byte, 12), make([]byte, mtu))
	return true
}

func (n *VerifOutsideNode) SendClose(vpn netip.Addr) bool {
	hi := n.f.hostMap.QueryVpnAddr(vpn)
	if hi == nil {
		return false
	}
	n.f.sendCloseTunnel(hi)
	return true
}

func (n *VerifOutsideNode) SendCtl(vpn netip.Addr, msg []byte) bool {
	hi := n.f.hostMap.QueryVpnAddr(vpn)
	if hi == nil {
		return false
	}
	n.f.SendMessageToHostInfo(header.Control, 0, hi, msg, make([]byte, 12), make([]byte, mtu))
	return true
}

// Pending lists the overlay addresses with a handshake in progress, sorted.
func (n *VerifOutsideNode) Pending() []netip.Addr {
	hsm := n.f.handshakeManager
	hsm.RLock()
	out := make([]netip.Addr, 0, len(hsm.vpnIps))
	for a := range hsm.vpnIps {
		out = append(out, a)
	}
	hsm.RUnlock()
	sort.Slice(out, func(i, j int) bool { return out[i].Less(out[j]) })
	return out
}

// StartHandshake begins a handshake to vpn (Control.ReHandshake of the e2e tests).
func (n *VerifOutsideNode) StartHandshake(vpn netip.Addr) {
	n.f.handshakeManager.StartHandshake(vpn, nil)
}

// DropPending removes a pending handshake (Control.KillPendingTunnel).
func (n *VerifOutsideNode) DropPending(vpn netip.Addr) bool {
	hi := n.f.handshakeManager.QueryVpnAddr(vpn)
	if hi == nil {
		return false
	}
	n.f.handshakeManager.DeleteHostInfo(hi)
	return true
}

// CloseLocal is the real closeTunnel for the tunnel with this local index (repairs between table rows).
func (n *VerifOutsideNode) CloseLocal(local uint32) bool {
	hi := n.f.hostMap.QueryIndex(local)
	if hi == nil {
		return false
	}
	n.f.closeTunnel(hi)
	return true
}

// SetRecvError sets listen.send_recv_error / listen.accept_recv_error through the real configuration readers.
func (n *VerifOutsideNode) SetRecvError(send, accept string) {
	c := config.NewC(n.f.l)
	if err := c.LoadString(fmt.Sprintf("listen:\n  send_recv_error: %q\n  accept_recv_error: %q\n", send, accept)); err != nil {
		panic(err)
	}
	n.f.reloadSendRecvError(c)
	n.f.reloadAcceptRecvError(c)
}

// DefaultRecvError reports what an empty configuration selects.
func VerifOutsideDefaultRecvError(l *slog.Logger) (send, accept string) {
	f := &Interface{l: l}
	c := config.NewC(l)
	if err := c.LoadString("listen:\n  port: 1\n"); err != nil {
		panic(err)
	}
	f.reloadSendRecvError(c)
	f.reloadAcceptRecvError(c)
	return f.sendRecvErrorConfig.String(), f.acceptRecvErrorConfig.String()
}

func (n *VerifOutsideNode) DrainUDP() []VerifOutsidePkt {
	var out []VerifOutsidePkt
	for {
		select {
		case p := <-n.conn.TxPackets:
			out = append(out, VerifOutsidePkt{From: p.From, To: p.To, Data: append([]byte(nil), p.Data...)})
			p.Release()
		default:
			return out
		}
	}
}

func (n *VerifOutsideNode) DrainTun() [][]byte {
	var out [][]byte
	for {
		select {
		case p := <-n.tun.TxPackets:
			out = append(out, append([]byte(nil), p...))
			overlay.ReleaseTunBuf(p)
		default:
			return out
		}
	}
}

// ---- tunnels as the harness names them ------------------------------------------------------------------

type VerifOutsideTunnel struct {
	Local, Remote uint32
	VpnAddrs      []netip.Addr
	RemoteAddr    netip.AddrPort // invalid: relayed only
	WinCur        uint64
	SendCtr       uint64
	Primary       bool
}

func (n *VerifOutsideNode) tunnelOf(hi *HostInfo) VerifOutsideTunnel {
	t := VerifOutsideTunnel{Local: hi.localIndexId, Remote: hi.remoteIndexId, VpnAddrs: append([]netip.Addr(nil), hi.vpnAddrs...),
		RemoteAddr: hi.GetRemote()}
	if cs := hi.ConnectionState; cs != nil {
		cs.decryptLock.Lock()
		t.WinCur = cs.window.current
		cs.decryptLock.Unlock()
		t.SendCtr = cs.messageCounter.Load()
	}
	return t
}

// Tunnel returns the primary tunnel for an overlay address.
func (n *VerifOutsideNode) Tunnel(vpn netip.Addr) (VerifOutsideTunnel, bool) {
	hi := n.f.hostMap.QueryVpnAddr(vpn)
	if hi == nil {
		return VerifOutsideTunnel{}, false
	}
	t := n.tunnelOf(hi)
	t.Primary = true
	return t, true
}

func (n *VerifOutsideNode) TunnelByLocal(local uint32) (VerifOutsideTunnel, bool) {
	hi := n.f.hostMap.QueryIndex(local)
	if hi == nil {
		return VerifOutsideTunnel{}, false
	}
	return n.tunnelOf(hi), true
}

// Tunnels lists every tunnel of the main hostmap, sorted by local index.
func (n *VerifOutsideNode) Tunnels() []VerifOutsideTunnel {
	hm := n.f.hostMap
	hm.RLock()
	his := make([]*HostInfo, 0, len(hm.Indexes))
	for _, hi := range hm.Indexes {
		his = append(his, hi)
	}
	hm.RUnlock()
	out := make([]VerifOutsideTunnel, 0, len(his))
	for _, hi := range his {
		out = append(out, n.tunnelOf(hi))
	}
	sort.Slice(out, func(i, j int) bool { return out[i].Local < out[j].Local })
	return out
}

type VerifOutsideRelayRec struct {
	OwnerLocal  uint32 // local index of the tunnel (to the relay / to the peer) holding the record
	Local       uint32 // relay index (HostMap.Relays key)
	Remote      uint32
	Peer        netip.Addr
	Type, State int
}

func (n *VerifOutsideNode) RelayRecords() []VerifOutsideRelayRec {
	var out []VerifOutsideRelayRec
	hm := n.f.hostMap
	hm.RLock()
	for idx, hi := range hm.Relays {
		if r, ok := hi.relayState.QueryRelayForByIdx(idx); ok {
			out = append(out, VerifOutsideRelayRec{OwnerLocal: hi.localIndexId, Local: idx, Remote: r.RemoteIndex, Peer: r.PeerAddr,
				Type: r.Type, State: r.State})
		} else {
			out = append(out, VerifOutsideRelayRec{OwnerLocal: hi.localIndexId, Local: idx})
		}
	}
	hm.RUnlock()
	sort.Slice(out, func(i, j int) bool { return out[i].Local < out[j].Local })
	return out
}

// SetRelayState is the real RelayState.UpdateRelayForByIdxState (builds the "target relay not established" rows).
func (n *VerifOutsideNode) SetRelayState(relayLocal uint32, state int) bool {
	hi := n.f.hostMap.QueryRelayIndex(relayLocal)
	if hi == nil {
		return false
	}
	hi.relayState.UpdateRelayForByIdxState(relayLocal, state)
	return true
}

// ClearIn resets the per-tunnel inbound-traffic flags and the relay-used marks (what a connection manager check
// consumes), so the next liveness update is visible.
func (n *VerifOutsideNode) ClearIn() {
	hm := n.f.hostMap
	hm.RLock()
	for _, hi := range hm.Indexes {
		hi.in.Store(false)
	}
	hm.RUnlock()
	cm := n.f.connectionManager
	cm.relayUsedLock.Lock()
	cm.relayUsed = map[uint32]struct{}{}
	cm.relayUsedLock.Unlock()
}

// SetRemote is the real HostInfo.SetRemote and forgets the roaming memory (repairs between table rows).
func (n *VerifOutsideNode) SetRemote(local uint32, a netip.AddrPort) bool {
	hi := n.f.hostMap.QueryIndex(local)
	if hi == nil {
		return false
	}
	if a.IsValid() {
		hi.SetRemote(a)
	} else {
		hi.remote.Store(nil)
	}
	hi.lastRoam = time.Time{}
	hi.lastRoamRemote = netip.AddrPort{}
	return true
}

// ForgetLighthouse drops a learned lighthouse cache entry (repairs between table rows).
func (n *VerifOutsideNode) ForgetLighthouse(vpn netip.Addr) {
	n.f.lightHouse.DeleteVpnAddrs([]netip.Addr{vpn})
}

// ---- crafting packets "as the peer would" ----------------------------------------------------------------

// Seal builds a packet with the given header and encrypts payload under the RECEIVE key of the tunnel keyLocal
// of this node (the same key its peer sends with), header as associated data, counter as nonce - exactly what
// the peer's send path produces when hdrIndex = keyLocal.
func (n *VerifOutsideNode) Seal(keyLocal, hdrIndex uint32, ver uint8, ty, st uint8, counter uint64, payload []byte) []byte {
	hi := n.f.hostMap.QueryIndex(keyLocal)
	if hi == nil || hi.ConnectionState == nil {
		return nil
	}
	out := make([]byte, header.Len, header.Len+len(payload)+32)
	out = header.Encode(out, ver, header.MessageType(ty), header.MessageSubType(st), hdrIndex, counter)
	out, err := hi.ConnectionState.dKey.EncryptDanger(out, out, payload, counter, make([]byte, 12))
	if err != nil {
		panic(err)
	}
	return out
}

// SealRelay builds a relay packet (Message/Relay unless ty/st say otherwise): header, inner bytes in the clear,
// and a tag under the receive key of the tunnel that owns relay index keyRelay, over header and inner.
func (n *VerifOutsideNode) SealRelay(keyRelay, hdrIndex uint32, ver uint8, ty, st uint8, counter uint64, inner []byte) []byte {
	hi := n.f.hostMap.QueryRelayIndex(keyRelay)
	if hi == nil || hi.ConnectionState == nil {
		return nil
	}
	out := make([]byte, header.Len, header.Len+len(inner)+32)
	out = header.Encode(out, ver, header.MessageType(ty), header.MessageSubType(st), hdrIndex, counter)
	out = append(out, inner...)
	out, err := hi.ConnectionState.dKey.EncryptDanger(out, out, nil, counter, make([]byte, 12))
	if err != nil {
		panic(err)
	}
	return out
}

// ---- the state digest -------------------------------------------------------------------------------------

// VerifOutsideDigest is a canonical rendering of everything C14/C15 observe at a node. Every value is a string
// so the harness can diff section by section.
type VerifOutsideDigest struct {
	Tunnels   map[uint32]map[string]string // by local index: remote, in, win, relays, ...
	Hosts     string                       // overlay address -> ordered local indexes (primary first)
	RemoteIdx string
	RelayIdx  string
	Pending   string
	LH        string // reported addresses and relays per cache entry (what lighthouse messages write)
	LHLearned string // learned addresses per cache entry (what handshakes and roaming write)
	Conntrack string
	RelayUsed string
}

func verifOutsideBitsHash(b *Bits) string {
	h := fnv.New64a()
	var w [8]byte
	for _, x := range b.bits {
		binary.LittleEndian.PutUint64(w[:], x)
		h.Write(w[:])
	}
	return fmt.Sprintf("%d/%x", b.current, h.Sum64())
}

func verifOutsideRelays(rs *RelayState) string {
	rs.RLock()
	defer rs.RUnlock()
	var parts []string
	via := make([]string, 0, len(rs.relays))
	for _, a := range rs.relays {
		via = append(via, a.String())
	}
	parts = append(parts, "via="+strings.Join(via, ","))
	var recs []string
	for idx, r := range rs.relayForByIdx {
		recs = append(recs, fmt.Sprintf("i%d:%d:%d:%d:%d:%s", idx, r.Type, r.State, r.LocalIndex, r.RemoteIndex, r.PeerAddr))
	}
	sort.Strings(recs)
	parts = append(parts, recs...)
	var by []string
	for a, r := range rs.relayForByAddr {
		by = append(by, fmt.Sprintf("a%s:%d:%d:%d:%d", a, r.Type, r.State, r.LocalIndex, r.RemoteIndex))
	}
	sort.Strings(by)
	parts = append(parts, by...)
	return strings.Join(parts, " ")
}

func (n *VerifOutsideNode) Digest() VerifOutsideDigest {
	d := VerifOutsideDigest{Tunnels: map[uint32]map[string]string{}}
	hm := n.f.hostMap
	hm.RLock()
	for idx, hi := range hm.Indexes {
		t := map[string]string{}
		t["remoteIndex"] = fmt.Sprint(hi.remoteIndexId)
		t["vpn"] = fmt.Sprint(hi.vpnAddrs)
		t["remote"] = hi.GetRemote().String()
		t["roamFrom"] = hi.lastRoamRemote.String()
		t["in"] = fmt.Sprint(hi.in.Load())
		if cs := hi.ConnectionState; cs != nil {
			cs.decryptLock.Lock()
			t["win"] = verifOutsideBitsHash(cs.window)
			cs.decryptLock.Unlock()
			t["sent"] = fmt.Sprint(cs.messageCounter.Load())
		}
		t["relays"] = verifOutsideRelays(&hi.relayState)
		if hi.remotes != nil {
			addrs := hi.remotes.CopyAddrs(nil)
			s := make([]string, len(addrs))
			for i, a := range addrs {
				s[i] = a.String()
			}
			t["remotes"] = strings.Join(s, ",")
		}
		d.Tunnels[idx] = t
	}
	var hosts []string
	for a, hi := range hm.Hosts {
		list := []*HostInfo{hi}
		if more, ok := hm.moreHosts[a]; ok {
			list = more
		}
		ids := make([]string, len(list))
		for i, x := range list {
			ids[i] = fmt.Sprint(x.localIndexId)
		}
		hosts = append(hosts, a.String()+"="+strings.Join(ids, ">"))
	}
	sort.Strings(hosts)
	d.Hosts = strings.Join(hosts, " ")
	var ri, rl []string
	for idx, hi := range hm.RemoteIndexes {
		ri = append(ri, fmt.Sprintf("%d>%d", idx, hi.localIndexId))
	}
	for idx, hi := range hm.Relays {
		rl = append(rl, fmt.Sprintf("%d>%d", idx, hi.localIndexId))
	}
	hm.RUnlock()
	sort.Strings(ri)
	sort.Strings(rl)
	d.RemoteIdx = strings.Join(ri, " ")
	d.RelayIdx = strings.Join(rl, " ")

	hsm := n.f.handshakeManager
	hsm.RLock()
	var pend []string
	for a, hh := range hsm.vpnIps {
		pend = append(pend, fmt.Sprintf("%s:%d", a, hh.hostinfo.localIndexId))
	}
	for idx := range hsm.indexes {
		pend = append(pend, fmt.Sprintf("i%d", idx))
	}
	hsm.RUnlock()
	sort.Strings(pend)
	d.Pending = strings.Join(pend, " ")

	lh := n.f.lightHouse
	lh.RLock()
	lists := map[*RemoteList][]string{}
	for a, rl := range lh.addrMap {
		lists[rl] = append(lists[rl], a.String())
	}
	lh.RUnlock()
	var lhs, lhl []string
	for rl, keys := range lists {
		sort.Strings(keys)
		cm := rl.CopyCache()
		owners := make([]string, 0, len(*cm))
		for o := range *cm {
			owners = append(owners, o)
		}
		sort.Strings(owners)
		var rep, lrn []string
		for _, o := range owners {
			c := (*cm)[o]
			if len(c.Reported) > 0 || len(c.Relay) > 0 {
				rep = append(rep, fmt.Sprintf("%s:%v/%v", o, c.Reported, c.Relay))
			}
			if len(c.Learned) > 0 {
				lrn = append(lrn, fmt.Sprintf("%s:%v", o, c.Learned))
			}
		}
		rl.RLock()
		rel := make([]string, len(rl.relays))
		for i, a := range rl.relays {
			rel[i] = a.String()
		}
		rl.RUnlock()
		k := strings.Join(keys, "+")
		lhs = append(lhs, k+"="+strings.Join(rep, ";")+"/"+strings.Join(rel, ","))
		lhl = append(lhl, k+"="+strings.Join(lrn, ";"))
	}
	sort.Strings(lhs)
	sort.Strings(lhl)
	d.LH = strings.Join(lhs, " ")
	d.LHLearned = strings.Join(lhl, " ")

	if fw := n.f.firewall; fw != nil && fw.Conntrack != nil {
		fw.Conntrack.Lock()
		d.Conntrack = fmt.Sprint(len(fw.Conntrack.Conns))
		fw.Conntrack.Unlock()
	}
	cm := n.f.connectionManager
	cm.relayUsedLock.RLock()
	var ru []string
	for idx := range cm.relayUsed {
		ru = append(ru, fmt.Sprint(idx))
	}
	cm.relayUsedLock.RUnlock()
	sort.Strings(ru)
	d.RelayUsed = strings.Join(ru, " ")
	return d
}

// ---- read-only queries the harness uses to name the features of a packet ------------------------------------

// Resolve reports what a header index resolves to at this node: a tunnel (HostMap.Indexes, with a ConnectionState),
// a relay index (HostMap.Relays) and a reverse index (HostMap.RemoteIndexes).
func (n *VerifOutsideNode) Resolve(idx uint32) (tunnel, relay, reverse bool) {
	if hi := n.f.hostMap.QueryIndex(idx); hi != nil && hi.ConnectionState != nil {
		tunnel = true
	}
	if hi := n.f.hostMap.QueryRelayIndex(idx); hi != nil && hi.ConnectionState != nil {
		relay = true
	}
	if hi := n.f.hostMap.QueryReverseIndex(idx); hi != nil {
		reverse = true
	}
	return
}

// ReverseTunnel returns the tunnel a recv_error carrying idx would be about.
func (n *VerifOutsideNode) ReverseTunnel(idx uint32) (VerifOutsideTunnel, bool) {
	hi := n.f.hostMap.QueryReverseIndex(idx)
	if hi == nil {
		return VerifOutsideTunnel{}, false
	}
	return n.tunnelOf(hi), true
}

// RelayOwner returns the tunnel that owns a relay index.
func (n *VerifOutsideNode) RelayOwner(idx uint32) (VerifOutsideTunnel, bool) {
	hi := n.f.hostMap.QueryRelayIndex(idx)
	if hi == nil {
		return VerifOutsideTunnel{}, false
	}
	return n.tunnelOf(hi), true
}

// WindowCheck is the real, read-only Bits.Check of the tunnel's replay window (for a relay index: of its owner).
func (n *VerifOutsideNode) WindowCheck(idx uint32, relayIndex bool, counter uint64) bool {
	var hi *HostInfo
	if relayIndex {
		hi = n.f.hostMap.QueryRelayIndex(idx)
	} else {
		hi = n.f.hostMap.QueryIndex(idx)
	}
	if hi == nil || hi.ConnectionState == nil {
		return false
	}
	cs := hi.ConnectionState
	cs.decryptLock.Lock()
	defer cs.decryptLock.Unlock()
	return cs.window.Check(n.f.l, counter)
}

// RecvErrorPermits evaluates the node's listen.send_recv_error / accept_recv_error settings for an endpoint.
func (n *VerifOutsideNode) RecvErrorPermits(src netip.AddrPort) (send, accept bool) {
	return n.f.sendRecvErrorConfig.ShouldRecvError(src), n.f.acceptRecvErrorConfig.ShouldRecvError(src)
}

// InMyNetworks: the underlay source lies inside this node's overlay networks ("double encrypted" refusal).
func (n *VerifOutsideNode) InMyNetworks(a netip.Addr) bool { return n.f.myVpnNetworksTable.Contains(a) }

// ---- the real receive loop, batch by batch ------------------------------------------------------------------------

// verifOutsideBatchConn stands where the UDP socket stands for Interface.listenOut: its ListenOut hands the two
// closures listenOut passes (the per-datagram listener and the per-batch flusher) to the harness and parks, so the
// harness can play a batch-capable backend (recvmmsg): listener for every datagram of a batch, then flush once.
type verifOutsideBatchConn struct {
	udp.Conn
	ready chan struct{}
	stop  chan struct{}
	r     udp.EncReader
	flush func()
}

func (c *verifOutsideBatchConn) ListenOut(r udp.EncReader, flush func()) error {
	c.r, c.flush = r, flush
	close(c.ready)
	<-c.stop
	return os.ErrClosed
}

// StartListenOut starts the REAL Interface.listenOut(0) goroutine on a batch connection wrapped around the node's
// socket. Afterwards InjectBatch drives listenOut's own listener and flusher (with listenOut's own rxContext).
func (n *VerifOutsideNode) StartListenOut() {
	if n.batch != nil {
		return
	}
	bc := &verifOutsideBatchConn{Conn: n.f.outside, ready: make(chan struct{}), stop: make(chan struct{})}
	n.f.outside = bc
	go n.f.listenOut(0)
	<-bc.ready
	n.batch = bc
}

// InjectBatch delivers the datagrams as ONE receive batch: listenOut's listener for each, then its flusher once.
func (n *VerifOutsideNode) InjectBatch(pkts []VerifOutsidePkt) (panicked string) {
	defer func() {
		if p := recover(); p != nil {
			panicked = fmt.Sprint(p)
		}
	}()
	bufs := make([][]byte, len(pkts)) // decrypted in place and borrowed by the tun batcher until the flush
	for i, p := range pkts {
		bufs[i] = append(make([]byte, 0, len(p.Data)+64), p.Data...)
		n.batch.r(p.From, bufs[i])
	}
	n.batch.flush()
	return ""
}

//go:build verif && (comp_all || comp_conntrack)

package nebula

import (
	"context"
	"crypto/ed25519"
	"fmt"
	"log/slog"
	"net/netip"
	"time"

	"github.com/gaissmai/bart"
	"github.com/slackhq/nebula/cert"
	"github.com/slackhq/nebula/config"
	"github.com/slackhq/nebula/firewall"
)

// Shim for the conntrack / firewall-reload checks (C18, C19). It builds a real Firewall from a real config through
// NewFirewallFromConfig, reloads it through the real Interface.reloadFirewall (registered as a config reload
// callback, exactly like Interface.RegisterConfigChangeCallbacks does), and hands packets to the real newPacket and
// Firewall.Drop. Time is not touched here: the harness runs inside a testing/synctest bubble, so the time.Now()
// calls in firewall.go read the bubble's virtual clock.

// discards everything but reports Debug as enabled so the debug-only branches of inConns run too
type verifCTHandler struct{ debug bool }

func (h verifCTHandler) Enabled(_ context.Context, l slog.Level) bool {
	return h.debug && l >= slog.LevelDebug
}
func (h verifCTHandler) Handle(context.Context, slog.Record) error { return nil }
func (h verifCTHandler) WithAttrs([]slog.Attr) slog.Handler        { return h }
func (h verifCTHandler) WithGroup(string) slog.Handler             { return h }

type verifCTReader struct{ f func([]byte) }

func (r verifCTReader) Read(b []byte) (int, error) { r.f(b); return len(b), nil }

// VerifCTConsts are the constants the model mentions (T1): protocol numbers of package firewall and the
// conntrack timeouts NewFirewallFromConfig uses when the configuration does not set them (function-local
// defaults, measured by building a firewall from an empty configuration).
type VerifCTConsts struct {
	ProtoTCP, ProtoUDP, ProtoICMP, ProtoICMPv6, ProtoAny uint64
	DefTCP, DefUDP, DefDefault                           time.Duration
}

// VerifCTPeer is one peer: a real signed certificate and the HostInfo the firewall sees.
type VerifCTPeer struct {
	Name string
	hi   *HostInfo
}

// VerifCT is a node reduced to what Interface.reloadFirewall and Firewall.Drop touch.
type VerifCT struct {
	l      *slog.Logger
	rnd    func([]byte)
	caCrt  cert.Certificate
	caKey  ed25519.PrivateKey
	pool   *cert.CAPool
	myNets []netip.Prefix
	myTab  *bart.Lite
	cfg    *config.C
	ifce   *Interface
	Peers  []*VerifCTPeer
}

func verifCTValidity() (time.Time, time.Time) {
	return time.Date(1990, 1, 1, 0, 0, 0, 0, time.UTC), time.Date(2200, 1, 1, 0, 0, 0, 0, time.UTC)
}

func (w *VerifCT) sign(name string, nets, unsafe []netip.Prefix, groups []string) cert.Certificate {
	pub, _, err := ed25519.GenerateKey(verifCTReader{w.rnd})
	if err != nil {
		panic(err)
	}
	nb, na := verifCTValidity()
	tbs := &cert.TBSCertificate{Version: cert.Version2, Name: name, Networks: nets, UnsafeNetworks: unsafe,
		Groups: groups, NotBefore: nb, NotAfter: na, PublicKey: pub[:32], Curve: cert.Curve_CURVE25519}
	c, err := tbs.Sign(w.caCrt, cert.Curve_CURVE25519, w.caKey)
	if err != nil {
		panic(err)
	}
	return c
}

func (w *VerifCT) certState(unsafe []netip.Prefix) *CertState {
	c := w.sign("verif-me", w.myNets, unsafe, nil)
	return &CertState{v2Cert: c, initiatingVersion: cert.Version2, privateKey: []byte{}}
}

// VerifCTNew builds the node: a CA, our certificate (networks myNets, unsafe networks myUnsafe), the firewall from
// the given configuration text. rnd fills key material (deterministic per seed).
func VerifCTNew(rnd func([]byte), debug bool, myNets, myUnsafe []netip.Prefix, yamlText string) (*VerifCT, error) {
	w := &VerifCT{l: slog.New(verifCTHandler{debug: debug}), rnd: rnd, myNets: myNets}
	pub, priv, err := ed25519.GenerateKey(verifCTReader{rnd})
	if err != nil {
		return nil, err
	}
	nb, na := verifCTValidity()
	tbs := &cert.TBSCertificate{Version: cert.Version2, Name: "verif-ca", IsCA: true, NotBefore: nb, NotAfter: na,
		PublicKey: pub, Curve: cert.Curve_CURVE25519}
	w.caCrt, err = tbs.Sign(nil, cert.Curve_CURVE25519, priv)
	if err != nil {
		return nil, err
	}
	w.caKey = priv
	w.pool = cert.NewCAPool()
	if err := w.pool.AddCA(w.caCrt); err != nil {
		return nil, err
	}
	w.myTab = new(bart.Lite)
	for _, n := range myNets {
		w.myTab.Insert(n)
	}
	w.cfg = config.NewC(w.l)
	if err := w.cfg.LoadString(yamlText); err != nil {
		return nil, err
	}
	pki := &PKI{l: w.l}
	pki.cs.Store(w.certState(myUnsafe))
	pki.caPool.Store(w.pool)
	fw, err := NewFirewallFromConfig(w.l, pki.getCertState(), w.cfg)
	if err != nil {
		return nil, err
	}
	w.ifce = &Interface{pki: pki, firewall: fw, l: w.l}
	w.cfg.RegisterReloadCallback(w.ifce.reloadFirewall)
	return w, nil
}

// CAName / CASha let the harness write ca_name / ca_sha rules that match (or not) the peers' issuer.
func (w *VerifCT) CAName() string { return w.caCrt.Name() }
func (w *VerifCT) CASha() string {
	s, _ := w.caCrt.Fingerprint()
	return s
}

// AddPeer signs a certificate for the peer and builds its HostInfo the way the handshake does
// (vpnAddrs = the certificate's addresses, buildNetworks against our own networks).
func (w *VerifCT) AddPeer(name string, nets, unsafe []netip.Prefix, groups []string) int {
	c := w.sign(name, nets, unsafe, groups)
	fp, _ := c.Fingerprint()
	cc := &cert.CachedCertificate{Certificate: c, InvertedGroups: map[string]struct{}{}, Fingerprint: fp}
	for _, g := range groups {
		cc.InvertedGroups[g] = struct{}{}
	}
	hi := &HostInfo{ConnectionState: &ConnectionState{peerCert: cc}}
	for _, n := range nets {
		hi.vpnAddrs = append(hi.vpnAddrs, n.Addr())
	}
	hi.buildNetworks(w.myTab, c)
	w.Peers = append(w.Peers, &VerifCTPeer{Name: name, hi: hi})
	return len(w.Peers) - 1
}

// Reload goes through config.C.ReloadConfigString, which runs the registered Interface.reloadFirewall.
// If newUnsafe is non-nil our certificate is first replaced by one with these unsafe networks (what a
// certificate reload does before the firewall callback runs). Reports whether a new Firewall was installed.
func (w *VerifCT) Reload(yamlText string, swapCert bool, newUnsafe []netip.Prefix) (installed bool, err error) {
	if swapCert {
		w.ifce.pki.cs.Store(w.certState(newUnsafe))
	}
	old := w.ifce.firewall
	err = w.cfg.ReloadConfigString(yamlText)
	return w.ifce.firewall != old, err
}

func (w *VerifCT) RulesVersion() uint16 { return w.ifce.firewall.rulesVersion }

// SetRulesVersion presets the version counter (to reach the uint16 wrap without 65 536 reloads). Only used on a
// node whose conntrack table is still empty.
func (w *VerifCT) SetRulesVersion(v uint16) { w.ifce.firewall.rulesVersion = v }

func (w *VerifCT) Timeouts() (tcp, udp, def time.Duration) {
	f := w.ifce.firewall
	return f.TCPTimeout, f.UDPTimeout, f.DefaultTimeout
}

// Tracked is the number of entries in the conntrack table (evidence only, never compared with the model).
func (w *VerifCT) Tracked() int {
	ct := w.ifce.firewall.Conntrack
	ct.Lock()
	defer ct.Unlock()
	return len(ct.Conns)
}

// NewPacket runs the real classifier on a wire packet.
func (w *VerifCT) NewPacket(data []byte, incoming bool) (firewall.Packet, error) {
	var pp firewall.ParsedPacket
	err := newPacket(data, incoming, &pp)
	return pp.Packet, err
}

// AddrOK evaluates the two address checks at the top of Firewall.Drop (C17 proves them; C18/C19 take them as
// given): the remote address belongs to the peer and the local address is one we handle.
func (w *VerifCT) AddrOK(fp firewall.Packet, peer int) bool {
	h := w.Peers[peer].hi
	f := w.ifce.firewall
	if h.networks == nil {
		if h.vpnAddrs[0] != fp.RemoteAddr {
			return false
		}
	} else {
		t, ok := h.networks.Lookup(fp.RemoteAddr)
		if !ok || (t != NetworkTypeVPN && t != NetworkTypeUnsafe) {
			return false
		}
	}
	return f.routableNetworks.Contains(fp.LocalAddr)
}

// Allowed evaluates the current rule table of the given direction on the packet for the peer: the real
// FirewallTable.match (C16 proves what it computes; here it is the abstract `allowed`).
func (w *VerifCT) Allowed(fp firewall.Packet, incoming bool, peer int) bool {
	f := w.ifce.firewall
	t := f.OutRules
	if incoming {
		t = f.InRules
	}
	return t.match(fp, incoming, w.Peers[peer].hi.ConnectionState.peerCert, w.pool)
}

// Drop is the real verdict, with a nil routine cache unless one is given. 0 = passes, 1 = refused by an address
// check, 2 = refused for want of a rule or a tracked flow, 3 = any other error.
func (w *VerifCT) Drop(fp firewall.Packet, incoming bool, peer int, cache firewall.ConntrackCache) (verdict int, panicked string) {
	defer func() {
		if r := recover(); r != nil {
			verdict, panicked = 3, fmt.Sprint(r)
		}
	}()
	err := w.ifce.firewall.Drop(fp, incoming, w.Peers[peer].hi, w.pool, cache)
	switch err {
	case nil:
		return 0, ""
	case ErrInvalidRemoteIP, ErrPeerRejected, ErrInvalidLocalIP, ErrUnknownNetworkType:
		return 1, ""
	case ErrNoMatchingRule:
		return 2, ""
	}
	return 3, ""
}

// VerifCTGetConsts measures the constants (see VerifCTConsts).
func VerifCTGetConsts(rnd func([]byte)) (VerifCTConsts, error) {
	w, err := VerifCTNew(rnd, false, []netip.Prefix{netip.MustParsePrefix("10.0.0.1/24")}, nil, "firewall:\n  outbound: []\n")
	if err != nil {
		return VerifCTConsts{}, err
	}
	tcp, udp, def := w.Timeouts()
	return VerifCTConsts{ProtoTCP: firewall.ProtoTCP, ProtoUDP: firewall.ProtoUDP, ProtoICMP: firewall.ProtoICMP,
		ProtoICMPv6: firewall.ProtoICMPv6, ProtoAny: firewall.ProtoAny, DefTCP: tcp, DefUDP: udp, DefDefault: def}, nil
}

//go:build verif && (comp_all || comp_calcremote)

package nebula

// Verification shim for C48 (component calcremote): exposes newCalculatedRemote + ApplyV4/ApplyV6 and a real
// LightHouse, built by NewLightHouseFromConfig from YAML, whose addCalculatedRemotes is called and whose
// remote list is read back. Nothing here re-implements nebula logic.

import (
	"context"
	"fmt"
	"log/slog"
	"net/netip"

	"github.com/gaissmai/bart"
	"github.com/slackhq/nebula/config"
)

var verifCalcLogger = slog.New(slog.DiscardHandler)

// VerifCalcNew reports whether newCalculatedRemote accepts the arguments.
func VerifCalcNew(cidr, maskCidr netip.Prefix, port int) bool {
	_, err := newCalculatedRemote(cidr, maskCidr, port)
	return err == nil
}

// VerifCalcApplyV4 = newCalculatedRemote(cidr, maskCidr, port).ApplyV4(addr). ok=false: newCalculatedRemote
// refused; panicked != "": ApplyV4 panicked.
func VerifCalcApplyV4(cidr, maskCidr netip.Prefix, port int, addr netip.Addr) (a, p uint32, ok bool, panicked string) {
	defer func() {
		if r := recover(); r != nil {
			panicked = fmt.Sprint(r)
		}
	}()
	c, err := newCalculatedRemote(cidr, maskCidr, port)
	if err != nil {
		return 0, 0, false, ""
	}
	r := c.ApplyV4(addr)
	return r.Addr, r.Port, true, ""
}

func VerifCalcApplyV6(cidr, maskCidr netip.Prefix, port int, addr netip.Addr) (hi, lo uint64, p uint32, ok bool, panicked string) {
	defer func() {
		if r := recover(); r != nil {
			panicked = fmt.Sprint(r)
		}
	}()
	c, err := newCalculatedRemote(cidr, maskCidr, port)
	if err != nil {
		return 0, 0, 0, false, ""
	}
	r := c.ApplyV6(addr)
	return r.Hi, r.Lo, r.Port, true, ""
}

// VerifCalcLH is a LightHouse configured from YAML (key lighthouse.calculated_remotes).
type VerifCalcLH struct {
	lh     *LightHouse
	cancel context.CancelFunc
}

type VerifCalcV4 struct{ Addr, Port uint32 }
type VerifCalcV6 struct {
	Hi, Lo uint64
	Port   uint32
}

// VerifNewCalcLH returns an error when the configuration is refused.
func VerifNewCalcLH(yaml string, myNets []netip.Prefix) (*VerifCalcLH, error) {
	c := config.NewC(verifCalcLogger)
	if err := c.LoadString(yaml); err != nil {
		return nil, fmt.Errorf("yaml: %w", err)
	}
	nt := new(bart.Lite)
	for _, n := range myNets {
		nt.Insert(n)
	}
	cs := &CertState{myVpnNetworks: myNets, myVpnNetworksTable: nt}
	ctx, cancel := context.WithCancel(context.Background())
	lh, err := NewLightHouseFromConfig(ctx, verifCalcLogger, c, cs, nil, nil)
	if err != nil {
		cancel()
		return nil, err
	}
	return &VerifCalcLH{lh: lh, cancel: cancel}, nil
}

func (v *VerifCalcLH) Close() { v.cancel() }

// Add calls addCalculatedRemotes(vpnAddr) and returns what it stored in the remote list of vpnAddr (the
// addresses reported under our own address), then forgets that remote list.
func (v *VerifCalcLH) Add(vpnAddr netip.Addr) (added bool, v4 []VerifCalcV4, v6 []VerifCalcV6, panicked string) {
	defer func() {
		if r := recover(); r != nil {
			panicked = fmt.Sprint(r)
		}
	}()
	lh := v.lh
	added = lh.addCalculatedRemotes(vpnAddr)
	lh.Lock()
	am := lh.addrMap[vpnAddr]
	delete(lh.addrMap, vpnAddr)
	lh.Unlock()
	if am == nil {
		return added, nil, nil, ""
	}
	am.Lock()
	defer am.Unlock()
	owner := lh.myVpnNetworks[0].Addr()
	if c := am.cache[owner]; c != nil {
		if c.v4 != nil {
			for _, r := range c.v4.reported {
				v4 = append(v4, VerifCalcV4{r.Addr, r.Port})
			}
		}
		if c.v6 != nil {
			for _, r := range c.v6.reported {
				v6 = append(v6, VerifCalcV6{r.Hi, r.Lo, r.Port})
			}
		}
	}
	return added, v4, v6, ""
}

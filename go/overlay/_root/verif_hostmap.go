//go:build verif && (comp_all || comp_hostmap)

package nebula

// Verification shim for C28/C29 (component hostmap): drives the real HostMap / HandshakeManager / AddRelay
// code with scripted index candidates and returns a canonical dump of every map after each operation.
// Nothing here re-implements nebula logic: every mutation goes through the functions the node itself uses
// (StartHandshake, allocateIndex, generateIndex, CheckAndComplete, Complete, handleOutbound's timeout branch,
// HandshakeManager.DeleteHostInfo, HostMap.DeleteHostInfo, HostMap.MakePrimary, AddRelay).

import (
	crand "crypto/rand"
	"encoding/binary"
	"io"
	"log/slog"
	"net/netip"
	"sort"

	"github.com/slackhq/nebula/udp"
)

const VerifMaxHostInfosPerVpnIp = MaxHostInfosPerVpnIp

var verifHostmapLogger = slog.New(slog.DiscardHandler)

// verifHMScriptedRand serves 4-byte big-endian candidates from a script; once the script is exhausted it serves
// fallback values (never an error: crypto/rand.Read aborts the process on a reader error). Every value
// served is recorded, so the model is given exactly the stream the implementation consumed.
type verifHMScriptedRand struct {
	real     io.Reader // every read that is not generateIndex's 4-byte read (noise ephemeral keys) goes to the real source
	script   []uint32
	pos      int
	fallback *uint32
	served   []uint32
}

func (r *verifHMScriptedRand) Read(p []byte) (int, error) {
	if len(p) != 4 {
		return io.ReadFull(r.real, p)
	}
	var v uint32
	if r.pos < len(r.script) {
		v = r.script[r.pos]
		r.pos++
	} else {
		*r.fallback++
		v = 0x7f000000 + *r.fallback
	}
	r.served = append(r.served, v)
	binary.BigEndian.PutUint32(p, v)
	return 4, nil
}

// VerifHM is one node's main hostmap + pending (handshake manager) hostmap.
type VerifHM struct {
	hm       *HostMap
	hsm      *HandshakeManager
	f        *Interface
	ids      map[*HostInfo]uint64
	byID     map[uint64]*HostInfo
	hh       map[uint64]*HandshakeHostInfo
	order    []uint64
	clock    uint64
	fallback uint32
	rx       *verifHMRx // set by VerifNewHMReal: real PKI, peers played with flynn/noise (verif_hostmap_rx.go)
}

const VerifHMUnknownID = 999999999

func VerifHMAddr(a uint64) netip.Addr {
	return netip.AddrFrom4([4]byte{10, byte(a >> 16), byte(a >> 8), byte(a)})
}

func verifHMAddrNum(a netip.Addr) uint64 {
	if !a.Is4() {
		return VerifHMUnknownID
	}
	b := a.As4()
	if b[0] != 10 {
		return VerifHMUnknownID
	}
	return uint64(b[1])<<16 | uint64(b[2])<<8 | uint64(b[3])
}

func VerifNewHM() *VerifHM {
	l := verifHostmapLogger
	hm := newHostMap(l)
	pr := []netip.Prefix{}
	hm.preferredRanges.Store(&pr)

	lh := &LightHouse{
		l:            l,
		amLighthouse: true, // StartHandshake's QueryServer then returns without needing a query worker
		addrMap:      map[netip.Addr]*RemoteList{},
		queryChan:    make(chan netip.Addr, 16),
	}
	lhs := []netip.Addr{}
	static := map[netip.Addr]struct{}{}
	lh.localAddrsFn = func(*LocalAllowList) []netip.Addr { return nil }
	lh.lighthouses.Store(&lhs)
	lh.staticList.Store(&static)

	hsm := NewHandshakeManager(l, hm, lh, &udp.NoopConn{}, defaultHandshakeConfig)
	f := &Interface{handshakeManager: hsm, hostMap: hm, lightHouse: lh, l: l}
	hsm.f = f
	return &VerifHM{hm: hm, hsm: hsm, f: f, ids: map[*HostInfo]uint64{}, byID: map[uint64]*HostInfo{}, hh: map[uint64]*HandshakeHostInfo{}}
}

func (v *VerifHM) withRand(script []uint32, fn func()) []uint32 {
	old := crand.Reader
	r := &verifHMScriptedRand{real: old, script: script, fallback: &v.fallback}
	crand.Reader = io.Reader(r)
	defer func() { crand.Reader = old }()
	fn()
	return r.served
}

func (v *VerifHM) register(id uint64, h *HostInfo) {
	v.ids[h] = id
	v.byID[id] = h
	v.order = append(v.order, id)
}

func (v *VerifHM) Known(id uint64) bool { _, ok := v.byID[id]; return ok }

// Start calls the real StartHandshake. Returns the id of the pending hostinfo for addr and whether a new
// one (registered under newID) was created.
func (v *VerifHM) Start(newID uint64, addr uint64) (uint64, bool) {
	a := VerifHMAddr(addr)
	var got *HandshakeHostInfo
	h := v.hsm.StartHandshake(a, func(hh *HandshakeHostInfo) { got = hh })
	if id, ok := v.ids[h]; ok {
		return id, false
	}
	h.remotes = NewRemoteList([]netip.Addr{a}, nil)
	v.register(newID, h)
	v.hh[newID] = got
	return newID, true
}

// Alloc calls the real allocateIndex for a pending hostinfo.
func (v *VerifHM) Alloc(id uint64, script []uint32) (idx uint32, ok bool, served []uint32) {
	hh := v.hh[id]
	served = v.withRand(script, func() {
		i, err := v.hsm.allocateIndex(hh)
		idx, ok = i, err == nil
	})
	return
}

// PendingTracked mirrors the lookups the node does before touching a pending handshake:
// handleOutbound finds it through vpnIps, continueHandshake re-verifies it through indexes.
func (v *VerifHM) PendingByAddr(id uint64) bool {
	hh, ok := v.hh[id]
	if !ok || len(hh.hostinfo.vpnAddrs) == 0 {
		return false
	}
	return v.hsm.queryVpnIp(hh.hostinfo.vpnAddrs[0]) == hh
}

func (v *VerifHM) PendingByIndex(id uint64) bool {
	hh, ok := v.hh[id]
	if !ok {
		return false
	}
	return v.hsm.queryIndex(hh.hostinfo.localIndexId) == hh
}

func (v *VerifHM) LocalIndex(id uint64) uint32 { return v.byID[id].localIndexId }

// Complete does what continueHandshake does with a finished initiator handshake: fill in the certified
// addresses and the peer's index, then the real Complete.
func (v *VerifHM) Complete(id uint64, addrs []uint64, remote uint32) {
	h := v.byID[id]
	va := make([]netip.Addr, len(addrs))
	for i, a := range addrs {
		va[i] = VerifHMAddr(a)
	}
	v.clock++
	h.remoteIndexId = remote
	h.lastHandshakeTime = v.clock
	h.vpnAddrs = va
	v.hsm.Complete(h, v.f)
}

// Resp does what beginHandshake does with a verified first message: the real generateIndex for the
// responder index, a fresh hostinfo, the real CheckAndComplete. outcome: 0 added, 1 local index collision,
// 2 other refusal (not generated by the harness).
func (v *VerifHM) Resp(id uint64, addrs []uint64, remote uint32, script []uint32) (outcome int, local uint32, served []uint32) {
	va := make([]netip.Addr, len(addrs))
	for i, a := range addrs {
		va[i] = VerifHMAddr(a)
	}
	served = v.withRand(script, func() {
		local, _ = generateIndex(verifHostmapLogger)
	})
	v.clock++
	pkt := make([]byte, 8)
	binary.BigEndian.PutUint64(pkt, id+1)
	h := &HostInfo{
		ConnectionState:   &ConnectionState{},
		localIndexId:      local,
		remoteIndexId:     remote,
		vpnAddrs:          va,
		HandshakePacket:   map[uint8][]byte{handshakePacketStage0: pkt},
		lastHandshakeTime: v.clock,
		relayState: RelayState{
			relayForByAddr: map[netip.Addr]*Relay{},
			relayForByIdx:  map[uint32]*Relay{},
		},
	}
	h.remotes = NewRemoteList(va, nil)
	v.register(id, h)
	_, err := v.hsm.CheckAndComplete(h, handshakePacketStage0, v.f)
	switch err {
	case nil:
		outcome = 0
	case ErrLocalIndexCollision:
		outcome = 1
	default:
		outcome = 2
	}
	return
}

func (v *VerifHM) Delete(id uint64) bool { return v.hm.DeleteHostInfo(v.byID[id]) }

func (v *VerifHM) MakePrimary(id uint64) bool {
	v.hm.Lock()
	defer v.hm.Unlock()
	return v.hm.unlockedMakePrimary(v.byID[id])
}

func (v *VerifHM) AddRelay(id uint64, peer uint64, script []uint32) (idx uint32, ok bool, served []uint32) {
	served = v.withRand(script, func() {
		i, err := AddRelay(verifHostmapLogger, v.byID[id], v.hm, VerifHMAddr(peer), nil, TerminalType, Requested)
		idx, ok = i, err == nil
	})
	return
}

// PendDelete removes a hostinfo from the pending hostmap: through the real timeout branch of handleOutbound
// when the handshake is still tracked under its address and viaTimeout is set, else by
// HandshakeManager.DeleteHostInfo (continueHandshake's abandon paths, handleRecvError).
func (v *VerifHM) PendDelete(id uint64, viaTimeout bool) (timedOut bool) {
	h := v.byID[id]
	if hh, ok := v.hh[id]; ok && viaTimeout && len(h.vpnAddrs) == 1 && v.hsm.queryVpnIp(h.vpnAddrs[0]) == hh {
		hh.counter = v.hsm.config.retries
		v.hsm.handleOutbound(h.vpnAddrs[0], false)
		return true
	}
	v.hsm.DeleteHostInfo(h)
	return false
}

// ---- canonical dump ---------------------------------------------------------------------------

type VerifHMInfo struct {
	ID      uint64
	Addrs   []uint64
	Local   uint32
	Remote  uint32
	Relays  []uint32 // keys of relayState.relayForByIdx, sorted
}

type VerifHMKV struct{ K, V uint64 }
type VerifHMKL struct {
	K uint64
	L []uint64
}

type VerifHMDump struct {
	Infos   []VerifHMInfo // every hostinfo ever created, by id
	Hosts   []VerifHMKV // Hosts: addr -> id
	More    []VerifHMKL // moreHosts: addr -> ids
	Indexes []VerifHMKV
	Remote  []VerifHMKV
	Relays  []VerifHMKV
	PVpn    []VerifHMKV // pending vpnIps: addr -> id
	PIdx    []VerifHMKV // pending indexes: index -> id
}

func (v *VerifHM) id(h *HostInfo) uint64 {
	if h == nil {
		return VerifHMUnknownID
	}
	if id, ok := v.ids[h]; ok {
		return id
	}
	return VerifHMUnknownID
}

func verifHMSortKV(x []VerifHMKV) []VerifHMKV {
	sort.Slice(x, func(i, j int) bool { return x[i].K < x[j].K })
	return x
}

func (v *VerifHM) Dump() VerifHMDump {
	var d VerifHMDump
	ids := append([]uint64(nil), v.order...)
	sort.Slice(ids, func(i, j int) bool { return ids[i] < ids[j] })
	for _, id := range ids {
		h := v.byID[id]
		hi := VerifHMInfo{ID: id, Local: h.localIndexId, Remote: h.remoteIndexId}
		for _, a := range h.vpnAddrs {
			hi.Addrs = append(hi.Addrs, verifHMAddrNum(a))
		}
		hi.Relays = h.relayState.CopyRelayForIdxs()
		sort.Slice(hi.Relays, func(i, j int) bool { return hi.Relays[i] < hi.Relays[j] })
		d.Infos = append(d.Infos, hi)
	}
	v.hm.RLock()
	for a, h := range v.hm.Hosts {
		d.Hosts = append(d.Hosts, VerifHMKV{verifHMAddrNum(a), v.id(h)})
	}
	for a, l := range v.hm.moreHosts {
		kl := VerifHMKL{K: verifHMAddrNum(a)}
		for _, h := range l {
			kl.L = append(kl.L, v.id(h))
		}
		d.More = append(d.More, kl)
	}
	for i, h := range v.hm.Indexes {
		d.Indexes = append(d.Indexes, VerifHMKV{uint64(i), v.id(h)})
	}
	for i, h := range v.hm.RemoteIndexes {
		d.Remote = append(d.Remote, VerifHMKV{uint64(i), v.id(h)})
	}
	for i, h := range v.hm.Relays {
		d.Relays = append(d.Relays, VerifHMKV{uint64(i), v.id(h)})
	}
	v.hm.RUnlock()
	v.hsm.RLock()
	for a, hh := range v.hsm.vpnIps {
		d.PVpn = append(d.PVpn, VerifHMKV{verifHMAddrNum(a), v.id(hh.hostinfo)})
	}
	for i, hh := range v.hsm.indexes {
		d.PIdx = append(d.PIdx, VerifHMKV{uint64(i), v.id(hh.hostinfo)})
	}
	v.hsm.RUnlock()
	verifHMSortKV(d.Hosts)
	sort.Slice(d.More, func(i, j int) bool { return d.More[i].K < d.More[j].K })
	verifHMSortKV(d.Indexes)
	verifHMSortKV(d.Remote)
	verifHMSortKV(d.Relays)
	verifHMSortKV(d.PVpn)
	verifHMSortKV(d.PIdx)
	return d
}

//go:build verif && (comp_all || comp_bits)

package nebula

import (
	"log/slog"
)

// VerifBits exposes the replay window to the verification harness.
type VerifBits struct{ b *Bits }

func VerifNewBits(length uint64) *VerifBits { return &VerifBits{b: NewBits(length)} }

var verifDiscardLogger = slog.New(slog.DiscardHandler)

func (v *VerifBits) Check(i uint64) bool  { return v.b.Check(verifDiscardLogger, i) }
func (v *VerifBits) Update(i uint64) bool { return v.b.Update(verifDiscardLogger, i) }
func (v *VerifBits) Current() uint64      { return v.b.current }
func (v *VerifBits) Words() []uint64      { return append([]uint64(nil), v.b.bits...) }
func (v *VerifBits) SetCurrent(c uint64)  { v.b.current = c }

const VerifReplayWindow = ReplayWindow
